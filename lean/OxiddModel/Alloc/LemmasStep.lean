import OxiddModel.Alloc.LemmasRes

/-!
The invariant of the allocator state (`Inv` = lists + reservations + accounting) and its
preservation by every operation (`inv_step`), together with what each operation guarantees about
the slot it hands out / takes back (`addNode_spec`, `freeSlot_spec`, …).
-/
namespace OxiddModel.Alloc

/-- the list and reservation part of the invariant with its ghost -/
structure InvL (c : Cfg) (s : State) (g : Ghost) : Prop where
  terms_pos : 0 < c.terms
  chunk_pos : 0 < c.chunk
  size : s.mem.size = c.terms + c.cap
  alloc_le : s.allocated ≤ c.cap
  lists : ListInv s.cell s.stack s.loc g
  res : ResInv c s.cell s.loc s.allocated

/-- the accounting part of the invariant -/
structure InvC (s : State) : Prop where
  /-- `node_count` plus the local deltas is the number of live slots (plus the lost updates) -/
  count : s.count + s.deltaSum = (s.liveCount : Int) + (s.drift : Int)
  /-- a thread without local state has no pending delta -/
  idle : ∀ t, (s.loc t).cur = false → (s.loc t).delta = 0

/-- **The invariant.** -/
def Inv (c : Cfg) (s : State) : Prop := (∃ g, InvL c s g) ∧ InvC s

/-! ## observers as functions -/

theorem cellfun_setCell (s : State) (i : Nat) (v : Cell) (h : i < s.mem.size) :
    (s.setCell i v).cell = upd s.cell i v := by
  funext j; simp [upd, h]

theorem cellfun_setLoc (s : State) (t : Nat) (l : Local) : (s.setLoc t l).cell = s.cell := rfl

theorem locfun_setLoc (s : State) (t : Nat) (l : Local) (h : t < s.locals.length) :
    (s.setLoc t l).loc = upd s.loc t l := by
  funext u; simp [upd, h]

theorem locfun_setCell (s : State) (i : Nat) (v : Cell) : (s.setCell i v).loc = s.loc := rfl

/-- record updates that keep the slots / the thread-local states -/
@[simp] theorem cell_mk_mem (s : State) (st : List Nat) (a : Nat) (cn : Int) (g : GcState)
    (ls : List Local) (d : Nat) : (State.mk s.mem st a cn g ls d).cell = s.cell := rfl
@[simp] theorem loc_mk_locals (s : State) (m : Array Cell) (st : List Nat) (a : Nat) (cn : Int)
    (g : GcState) (d : Nat) : (State.mk m st a cn g s.locals d).loc = s.loc := rfl

theorem InvL.build {c : Cfg} {s s' : State} {g g' : Ghost} (h : InvL c s g)
    (hsize : s'.mem.size = s.mem.size) (hle : s'.allocated ≤ c.cap)
    (hl : ListInv s'.cell s'.stack s'.loc g') (hr : ResInv c s'.cell s'.loc s'.allocated) :
    InvL c s' g' :=
  { terms_pos := h.terms_pos, chunk_pos := h.chunk_pos, size := by rw [hsize]; exact h.size,
    alloc_le := hle, lists := hl, res := hr }

/-- a cell that is not uninitialised lies inside the array -/
theorem InvL.lt_size {c : Cfg} {s : State} {g : Ghost} (_h : InvL c s g) {id : Nat}
    (hne : s.cell id ≠ .uninit) : id < s.mem.size := lt_size_of_cell_ne s id hne

theorem InvL.lt_size_of_lt {c : Cfg} {s : State} {g : Ghost} (h : InvL c s g) {id : Nat}
    (hlt : id < s.allocated + c.terms) : id < s.mem.size := by
  rw [h.size]; have := h.alloc_le; omega

/-- a thread with local state is one of the declared threads -/
theorem valid_of_cur {s : State} {t : Nat} (h : (s.loc t).cur = true) : t < s.locals.length := by
  apply Classical.byContradiction
  intro hn
  rw [loc_of_not_valid s t hn] at h
  cases h

/-! ## the initial state -/

theorem cell_init (c : Cfg) (n : Nat) (j : Nat) : (State.init c n).cell j = .uninit := by
  simp only [State.cell, State.init, Array.getD_eq_getD_getElem?]
  by_cases h : j < c.terms + c.cap
  · simp [h]
  · simp [h]

theorem loc_init (c : Cfg) (n : Nat) (t : Nat) : (State.init c n).loc t = {} := by
  simp only [State.loc, State.init, List.getD_eq_getElem?_getD]
  by_cases h : t < n
  · simp [h]
  · simp [h]

theorem liveCount_init (c : Cfg) (n : Nat) : (State.init c n).liveCount = 0 := by
  simp only [State.liveCount, State.init, Array.toList_replicate]
  rw [List.count_replicate]
  simp

theorem deltaSum_replicate (n : Nat) : ((List.replicate n ({} : Local)).map (·.delta)).sum = 0 := by
  induction n with
  | zero => rfl
  | succ n ih => simp only [List.replicate_succ, List.map_cons, List.sum_cons, ih]; rfl

theorem deltaSum_init (c : Cfg) (n : Nat) : (State.init c n).deltaSum = 0 := by
  simp only [State.deltaSum, State.init]; exact deltaSum_replicate n

theorem inv_init (c : Cfg) (n : Nat) (ht : 0 < c.terms) (hk : 0 < c.chunk) : Inv c (State.init c n) := by
  refine ⟨⟨⟨[], fun _ => []⟩, ?_⟩, ?_⟩
  · refine
      { terms_pos := ht, chunk_pos := hk, size := by simp [State.init], alloc_le := by simp [State.init]
        lists := ?_, res := ?_ }
    · refine
        { stack := by simp [State.init, StackOK]
          sl_disj := List.Pairwise.nil
          loc_chain := fun t h => by rw [loc_init] at h; cases h
          loc_nil := fun _ _ => rfl
          sl_ll := fun l hl => by cases hl
          ll_ll := fun _ _ _ => Disj.nil_left _
          free_in := fun id m hm => by rw [cell_init] at hm; cases hm }
    · refine
        { outside := fun id _ => cell_init c n id
          uninit_iff := fun id _ h2 => by simp [State.init] at h2; omega
          res_unique := fun t u id ht _ => by
            obtain ⟨h1, _⟩ := ht; rw [loc_init] at h1; cases h1
          res_le := fun t h => by rw [loc_init] at h; cases h }
  · exact
      { count := by rw [liveCount_init, deltaSum_init]; simp [State.init]
        idle := fun t _ => by rw [loc_init] }

/-! ## `attach`, `sessionBegin` -/

theorem inv_begin {c : Cfg} {s : State} (h : Inv c s) {t : Nat} (ht : t < s.locals.length)
    (hc : (s.loc t).cur = false) {l : Local} (hl : l.cur = true) (hn : l.next = 0) (hi : l.init = 0)
    (hd : l.delta = (s.loc t).delta) : Inv c (s.setLoc t l) := by
  obtain ⟨⟨g, hL⟩, hC⟩ := h
  have hother : ∀ u, u ≠ t → upd s.loc t l u = s.loc u := fun u hu => upd_ne _ _ hu
  refine ⟨⟨g, hL.build rfl hL.alloc_le ?_ ?_⟩, ?_⟩
  · rw [cellfun_setLoc, locfun_setLoc s t l ht]
    -- the thread owned no list
    have hempty : g.ll t = [] := hL.lists.loc_nil t hc
    refine
      { stack := hL.lists.stack
        sl_disj := hL.lists.sl_disj
        loc_chain := ?_
        loc_nil := ?_
        sl_ll := hL.lists.sl_ll
        ll_ll := hL.lists.ll_ll
        free_in := hL.lists.free_in }
    · intro u hu
      by_cases hut : u = t
      · subst hut; simp only [upd_same]; rw [hn, hempty]; exact rfl
      · rw [hother u hut] at hu ⊢; exact hL.lists.loc_chain u hu
    · intro u hu
      by_cases hut : u = t
      · subst hut; exact hempty
      · rw [hother u hut] at hu; exact hL.lists.loc_nil u hu
  · rw [cellfun_setLoc, locfun_setLoc s t l ht]
    apply hL.res.begin (t := t)
    · intro id ⟨h1, _⟩; rw [hc] at h1; cases h1
    · simp [hi]
    · simp only [upd_same, hi]
      rw [chunkEnd_of_mod_eq c 0 (by simp)]; exact Nat.zero_le _
    · exact hother
  · refine { count := ?_, idle := ?_ }
    · rw [deltaSum_setLoc s t l ht, hd]
      have := hC.count
      simp only [count_setLoc, liveCount_setLoc, drift_setLoc]
      omega
    · intro u hu
      rw [locfun_setLoc s t l ht] at hu ⊢
      by_cases hut : u = t
      · subst hut; simp only [upd_same] at hu; rw [hl] at hu; cases hu
      · rw [hother u hut] at hu ⊢; exact hC.idle u hu

/-! ## helpers -/

/-- a cell flips between free and live; `cur`/`init` of the threads stay -/
theorem ResInv.flip {c : Cfg} {f : Nat → Cell} {lc lc' : Nat → Local} {a : Nat} (h : ResInv c f lc a)
    {id : Nat} {v : Cell} (hold : f id ≠ .uninit) (hnew : v ≠ .uninit)
    (hl : ∀ t, (lc' t).cur = (lc t).cur ∧ (lc' t).init = (lc t).init) : ResInv c (upd f id v) lc' a := by
  apply h.frame (ResInv.res_congr hl)
  · intro t ht
    rw [(hl t).1] at ht; rw [(hl t).2]; exact h.res_le t ht
  · intro j
    by_cases hj : j = id
    · subst hj; simp only [upd_same]
      exact ⟨fun e => absurd e hnew, fun e => absurd e hold⟩
    · rw [upd_ne _ _ hj]

/-- updating fields of thread `t` that are the same as before, seen at any thread -/
theorem upd_loc_field {α : Type} (lc : Nat → Local) (t : Nat) (l : Local) (p : Local → α)
    (h : p l = p (lc t)) (u : Nat) : p (upd lc t l u) = p (lc u) := by
  by_cases hut : u = t
  · subst hut; simp [h]
  · rw [upd_ne _ _ hut]

/-- the balance of the accounting equation -/
def State.bal (s : State) : Int := s.count + s.deltaSum - (s.liveCount : Int) - (s.drift : Int)

theorem InvC.bal_zero {s : State} (h : InvC s) : s.bal = 0 := by
  have := h.count; simp only [State.bal]; omega

/-- what `add_node` guarantees about the slot it hands out -/
def AllocPost (s s' : State) : Obs → Prop
  | .alloc id _ _ => s.cell id ≠ .live ∧ id < s.mem.size ∧ s'.cell = upd s.cell id .live
  | .oom _ => s'.cell = s.cell
  | _ => False

theorem useFreeSlot_eq {s : State} {id n : Nat} (h : s.cell id = .free n) : useFreeSlot s id = n := by
  simp [useFreeSlot, h]

theorem liveCount_alloc (s : State) (id : Nat) (hlt : id < s.mem.size) (hnl : s.cell id ≠ .live) :
    ((s.setCell id .live).liveCount : Int) = s.liveCount + 1 := by
  rw [liveCount_setCell s id .live hlt]
  simp [hnl]

theorem liveCount_free (s : State) (id : Nat) (v : Cell) (hl : s.cell id = .live) (hv : v ≠ .live) :
    ((s.setCell id v).liveCount : Int) = s.liveCount - 1 := by
  have hlt : id < s.mem.size := lt_size_of_cell_ne s id (by rw [hl]; simp)
  have hpos := liveCount_pos_of_live s id hl
  rw [liveCount_setCell s id v hlt]
  simp [hl, hv]
  omega

/-! ## `get_slot_from_shared` -/

/-- frame for a cell that goes from uninitialised to live -/
theorem ListInv.uninit_to_live {f : Nat → Cell} {st : List Nat} {lc : Nat → Local} {g : Ghost}
    (h : ListInv f st lc g) {id : Nat} (hun : f id = .uninit) : ListInv (upd f id .live) st lc g := by
  apply h.frame_cells
  · intro j m hj
    have : j ≠ id := by intro e; subst e; rw [hun] at hj; cases hj
    rw [upd_ne _ _ this]
  · intro j m hj
    have : j ≠ id := by intro e; subst e; simp at hj
    rw [upd_ne _ _ this] at hj; exact hj

theorem takeFromShared_spec {c : Cfg} {s : State} {g : Ghost} (hL : InvL c s g) {t : Nat}
    (ht : t < s.locals.length) (delta : Int)
    (hpre : (s.loc t).cur = true → (s.loc t).next = 0 ∧ (s.loc t).init % c.chunk = 0) :
    (∃ g', InvL c (takeFromShared c s t delta).1 g') ∧
    AllocPost s (takeFromShared c s t delta).1 (takeFromShared c s t delta).2 ∧
    ((takeFromShared c s t delta).1.count - ((takeFromShared c s t delta).1.liveCount : Int)
        - ((takeFromShared c s t delta).1.drift : Int) = s.count - (s.liveCount : Int) - (s.drift : Int) - 1) ∧
    (takeFromShared c s t delta).1.deltaSum = s.deltaSum ∧
    (∀ u, ((takeFromShared c s t delta).1.loc u).cur = (s.loc u).cur ∧
      ((takeFromShared c s t delta).1.loc u).delta = (s.loc u).delta) ∧
    (takeFromShared c s t delta).1.locals.length = s.locals.length := by
  unfold takeFromShared
  by_cases hc : (s.loc t).cur = true
  · obtain ⟨hn, hi⟩ := hpre hc
    cases hst : s.stack with
    | cons id rest =>
      simp only [hc, ↓reduceIte]
      -- a whole list moves to the thread, its head is handed out
      obtain ⟨l0, ls, hsl, H⟩ := hL.lists.popShared hst hc hn
      have hid0 : id ≠ 0 := hL.lists.stack.head_ne_zero id (by rw [hst]; exact List.mem_cons_self)
      have Hm := H (upd s.loc t { s.loc t with next := id }) (by simp [hc]) (by simp)
        (fun u hu => by simp [upd_ne _ _ hu])
      obtain ⟨n, rest', hfree, _, H2⟩ := Hm.popLocal (t := t) (id := id) (by simp [hc]) (by simp) hid0
      have hnx : useFreeSlot s id = n := useFreeSlot_eq hfree
      have hlt : id < s.mem.size := hL.lt_size (by rw [hfree]; simp)
      have hnl : s.cell id ≠ .live := by rw [hfree]; simp
      rw [hnx]
      refine ⟨⟨_, hL.build (by simp) hL.alloc_le (by
          rw [cellfun_setLoc, cellfun_setCell _ _ _ (by exact hlt), locfun_setLoc _ _ _ (by exact ht),
            locfun_setCell]
          exact H2 _ (by simp) (by simp) (fun u hu => by simp [upd_ne _ _ hu])) ?_⟩, ⟨hnl, hlt, ?_⟩,
        ?_, ?_, ?_, by simp⟩
      · rw [cellfun_setLoc, cellfun_setCell _ _ _ (by exact hlt), locfun_setLoc _ _ _ (by exact ht),
          locfun_setCell]
        exact hL.res.flip (by rw [hfree]; simp) (by simp)
          (fun u => ⟨upd_loc_field s.loc t _ (·.cur) (by simp [hc]) u,
            upd_loc_field s.loc t _ (·.init) (by rfl) u⟩)
      · rw [cellfun_setLoc]; exact cellfun_setCell _ _ _ (by exact hlt)
      · simp only [liveCount_setLoc, count_setLoc, drift_setLoc, count_setCell, drift_setCell]
        rw [liveCount_alloc _ _ (by exact hlt) (by exact hnl)]
        show s.count - ((s.liveCount : Int) + 1) - (s.drift : Int) = _
        omega
      · rw [deltaSum_setLoc _ t _ (by exact ht)]
        show s.deltaSum - (s.loc t).delta + (s.loc t).delta = _
        omega
      · intro u
        rw [locfun_setLoc _ _ _ (by exact ht), locfun_setCell]
        exact ⟨upd_loc_field s.loc t _ (·.cur) (by simp [hc]) u,
          upd_loc_field s.loc t _ (·.delta) (by rfl) u⟩
    | nil =>
      by_cases hchunk : s.allocated + c.chunk < c.cap
      · simp only [hc, ↓reduceIte, hchunk]
        -- a new chunk
        have hl0 : ListInv s.cell [] s.loc g := hst ▸ hL.lists
        have hE := succ_div_mul_le s.allocated c.chunk
        have hun : s.cell (s.allocated + c.terms) = .uninit := hL.res.outside _ (Or.inr (Nat.le_refl _))
        have hlt : s.allocated + c.terms < s.mem.size := by rw [hL.size]; omega
        have hnl : s.cell (s.allocated + c.terms) ≠ .live := by rw [hun]; simp
        refine ⟨⟨g, hL.build (by simp) (by show (s.allocated / c.chunk + 1) * c.chunk ≤ c.cap; omega) ?_ ?_⟩,
          ⟨hnl, hlt, ?_⟩, ?_, ?_, ?_, by simp⟩
        · rw [cellfun_setLoc, cellfun_setCell _ _ _ (by exact hlt), locfun_setLoc _ _ _ (by exact ht),
            locfun_setCell]
          apply (hl0.uninit_to_live hun).loc_irrelevant
          intro u
          exact ⟨upd_loc_field s.loc t _ (·.cur) (by simp [hc]) u, upd_loc_field s.loc t _ (·.next) (by rfl) u⟩
        · rw [cellfun_setLoc, cellfun_setCell _ _ _ (by exact hlt), locfun_setLoc _ _ _ (by exact ht),
            locfun_setCell]
          exact hL.res.reserveChunk hL.chunk_pos hi (by simp) (by simp) (fun u hu => by simp [upd_ne _ _ hu])
        · rw [cellfun_setLoc]; exact cellfun_setCell _ _ _ (by exact hlt)
        · simp only [liveCount_setLoc, count_setLoc, drift_setLoc, count_setCell, drift_setCell]
          rw [liveCount_alloc _ _ (by exact hlt) (by exact hnl)]
          show s.count - ((s.liveCount : Int) + 1) - (s.drift : Int) = _
          omega
        · rw [deltaSum_setLoc _ t _ (by exact ht)]
          show s.deltaSum - (s.loc t).delta + (s.loc t).delta = _
          omega
        · intro u
          rw [locfun_setLoc _ _ _ (by exact ht), locfun_setCell]
          exact ⟨upd_loc_field s.loc t _ (·.cur) (by simp [hc]) u,
            upd_loc_field s.loc t _ (·.delta) (by rfl) u⟩
      · by_cases hcap : s.allocated < c.cap
        · simp only [hc, ↓reduceIte, hchunk, hcap]
          -- a single slot
          have hl0 : ListInv s.cell [] s.loc g := hst ▸ hL.lists
          have hun : s.cell (s.allocated + c.terms) = .uninit := hL.res.outside _ (Or.inr (Nat.le_refl _))
          have hlt : s.allocated + c.terms < s.mem.size := by rw [hL.size]; omega
          have hnl : s.cell (s.allocated + c.terms) ≠ .live := by rw [hun]; simp
          refine ⟨⟨g, hL.build (by simp) (by show s.allocated + 1 ≤ c.cap; omega) ?_ ?_⟩,
            ⟨hnl, hlt, cellfun_setCell _ _ _ (by exact hlt)⟩, ?_, rfl, fun u => ⟨rfl, rfl⟩, by simp⟩
          · rw [cellfun_setCell _ _ _ (by exact hlt)]
            exact hl0.uninit_to_live hun
          · rw [cellfun_setCell _ _ _ (by exact hlt)]
            exact hL.res.single (fun u => ⟨rfl, rfl⟩)
          · simp only [count_setCell, drift_setCell]
            rw [liveCount_alloc _ _ (by exact hlt) (by exact hnl)]
            show s.count - ((s.liveCount : Int) + 1) - (s.drift : Int) = _
            omega
        · simp only [hc, ↓reduceIte, hchunk, hcap]
          -- out of memory
          have hl0 : ListInv s.cell [] s.loc g := hst ▸ hL.lists
          by_cases hfix : c.fixCount = true
          · simp only [hfix, ↓reduceIte]
            refine ⟨⟨g, hL.build rfl hL.alloc_le hl0 hL.res⟩, rfl, ?_, rfl, fun u => ⟨rfl, rfl⟩, trivial⟩
            show s.count - 1 - (s.liveCount : Int) - (s.drift : Int) = _
            omega
          · simp only [hfix, Bool.false_eq_true, ↓reduceIte]
            refine ⟨⟨g, hL.build rfl hL.alloc_le hl0 hL.res⟩, rfl, ?_, rfl, fun u => ⟨rfl, rfl⟩, trivial⟩
            show s.count - (s.liveCount : Int) - ((s.drift + 1 : Nat) : Int) = _
            omega
  · cases hst : s.stack with
    | cons id rest =>
      simp only [hc, Bool.false_eq_true, ↓reduceIte]
      obtain ⟨n, hfree, g', H⟩ := hL.lists.popForeign hst
      have hnx : useFreeSlot s id = n := useFreeSlot_eq hfree
      have hlt : id < s.mem.size := hL.lt_size (by rw [hfree]; simp)
      have hnl : s.cell id ≠ .live := by rw [hfree]; simp
      rw [hnx]
      refine ⟨⟨g', hL.build (by simp) hL.alloc_le ?_ ?_⟩, ⟨hnl, hlt, cellfun_setCell _ _ _ (by exact hlt)⟩,
        ?_, rfl, fun u => ⟨rfl, rfl⟩, by simp⟩
      · rw [cellfun_setCell _ _ _ (by exact hlt)]; exact H
      · rw [cellfun_setCell _ _ _ (by exact hlt)]
        exact hL.res.flip (by rw [hfree]; simp) (by simp) (fun u => ⟨rfl, rfl⟩)
      · simp only [count_setCell, drift_setCell]
        rw [liveCount_alloc _ _ (by exact hlt) (by exact hnl)]
        show s.count - ((s.liveCount : Int) + 1) - (s.drift : Int) = _
        omega
    | nil =>
      have hl0 : ListInv s.cell [] s.loc g := hst ▸ hL.lists
      by_cases hcap : s.allocated ≥ c.cap
      · simp only [hc, Bool.false_eq_true, ↓reduceIte, hcap]
        by_cases hfix : c.fixCount = true
        · simp only [hfix, ↓reduceIte]
          refine ⟨⟨g, hL.build rfl hL.alloc_le hl0 hL.res⟩, rfl, ?_, rfl, fun u => ⟨rfl, rfl⟩, trivial⟩
          show s.count - 1 - (s.liveCount : Int) - (s.drift : Int) = _
          omega
        · simp only [hfix, Bool.false_eq_true, ↓reduceIte]
          refine ⟨⟨g, hL.build rfl hL.alloc_le hl0 hL.res⟩, rfl, ?_, rfl, fun u => ⟨rfl, rfl⟩, trivial⟩
          show s.count - (s.liveCount : Int) - ((s.drift + 1 : Nat) : Int) = _
          omega
      · simp only [hc, Bool.false_eq_true, ↓reduceIte, hcap]
        have hun : s.cell (s.allocated + c.terms) = .uninit := hL.res.outside _ (Or.inr (Nat.le_refl _))
        have hlt : s.allocated + c.terms < s.mem.size := by rw [hL.size]; omega
        have hnl : s.cell (s.allocated + c.terms) ≠ .live := by rw [hun]; simp
        refine ⟨⟨g, hL.build (by simp) (by show s.allocated + 1 ≤ c.cap; omega) ?_ ?_⟩,
          ⟨hnl, hlt, cellfun_setCell _ _ _ (by exact hlt)⟩, ?_, rfl, fun u => ⟨rfl, rfl⟩, by simp⟩
        · rw [cellfun_setCell _ _ _ (by exact hlt)]
          exact hl0.uninit_to_live hun
        · rw [cellfun_setCell _ _ _ (by exact hlt)]
          exact hL.res.single (fun u => ⟨rfl, rfl⟩)
        · simp only [count_setCell, drift_setCell]
          rw [liveCount_alloc _ _ (by exact hlt) (by exact hnl)]
          show s.count - ((s.liveCount : Int) + 1) - (s.drift : Int) = _
          omega

/-! ## `add_node` -/

theorem invL_bumpCount {c : Cfg} {s : State} {g : Ghost} (hL : InvL c s g) (d : Int) :
    InvL c (bumpCount c s d) g :=
  hL.build rfl hL.alloc_le hL.lists hL.res

/-- resetting / changing `delta` of a thread does not touch lists and reservations -/
theorem invL_setDelta {c : Cfg} {s : State} {g : Ghost} (hL : InvL c s g) {t : Nat}
    (ht : t < s.locals.length) (d : Int) : InvL c (s.setLoc t { s.loc t with delta := d }) g := by
  refine hL.build rfl hL.alloc_le ?_ ?_
  · rw [cellfun_setLoc, locfun_setLoc _ _ _ ht]
    apply hL.lists.loc_irrelevant
    intro u
    exact ⟨upd_loc_field s.loc t _ (·.cur) (by rfl) u, upd_loc_field s.loc t _ (·.next) (by rfl) u⟩
  · rw [cellfun_setLoc, locfun_setLoc _ _ _ ht]
    apply hL.res.frame (ResInv.res_congr (fun u =>
      ⟨upd_loc_field s.loc t _ (·.cur) (by rfl) u, upd_loc_field s.loc t _ (·.init) (by rfl) u⟩))
    · intro u hu
      rw [upd_loc_field s.loc t _ (·.cur) (by rfl) u] at hu
      rw [upd_loc_field s.loc t _ (·.init) (by rfl) u]
      exact hL.res.res_le u hu
    · intro j; exact Iff.rfl

theorem InvC.of_bal {s : State} (hb : s.bal = 0) (hi : ∀ t, (s.loc t).cur = false → (s.loc t).delta = 0) :
    InvC s :=
  { count := by simp only [State.bal] at hb; omega, idle := hi }


/-- `get_slot_from_shared` called by `add_node` of a thread with local state (empty local list, no
pre-allocated slot left), after `node_count_delta.set(0)` -/
theorem getSlot_session_spec {c : Cfg} {s : State} {g : Ghost} (hL : InvL c s g) (hC : InvC s) {t : Nat}
    (ht : t < s.locals.length) (hn : (s.loc t).next = 0) (hm0 : (s.loc t).init % c.chunk = 0)
    (s1 : State) (hs1 : s1 = s.setLoc t { s.loc t with delta := 0 }) :
    (∃ g', InvL c (getSlotFromShared c s1 t ((s.loc t).delta + 1)).1 g') ∧
    InvC (getSlotFromShared c s1 t ((s.loc t).delta + 1)).1 ∧
    AllocPost s (getSlotFromShared c s1 t ((s.loc t).delta + 1)).1
      (getSlotFromShared c s1 t ((s.loc t).delta + 1)).2 ∧
    (getSlotFromShared c s1 t ((s.loc t).delta + 1)).1.locals.length = s.locals.length ∧
    (∀ u, ((getSlotFromShared c s1 t ((s.loc t).delta + 1)).1.loc u).cur = (s.loc u).cur) := by
  have hbal := hC.bal_zero
  have hL1 : InvL c s1 g := by rw [hs1]; exact invL_setDelta hL ht 0
  have hloc1 : s1.loc = upd s.loc t { s.loc t with delta := 0 } := by
    rw [hs1]; exact locfun_setLoc _ _ _ ht
  have hlen1 : s1.locals.length = s.locals.length := by rw [hs1]; simp
  have hds1 : s1.deltaSum = s.deltaSum - (s.loc t).delta + 0 := by rw [hs1]; exact deltaSum_setLoc s t _ ht
  have hcnt1 : s1.count = s.count := by rw [hs1]; rfl
  have hlive1 : s1.liveCount = s.liveCount := by rw [hs1]; rfl
  have hdr1 : s1.drift = s.drift := by rw [hs1]; rfl
  have hcell1 : s1.cell = s.cell := by rw [hs1]; rfl
  have hsz1 : s1.mem.size = s.mem.size := by rw [hs1]; rfl
  unfold getSlotFromShared
  have hL2 := invL_bumpCount hL1 ((s.loc t).delta + 1)
  obtain ⟨hg, hpost, hcnt, hds, hcd, hlen⟩ :=
    takeFromShared_spec hL2 (t := t) (by show t < s1.locals.length; omega) ((s.loc t).delta + 1)
      (by intro _; show (s1.loc t).next = 0 ∧ (s1.loc t).init % c.chunk = 0; rw [hloc1]; simp [hn, hm0])
  have h2 : (bumpCount c s1 ((s.loc t).delta + 1)).count = s1.count + ((s.loc t).delta + 1) := rfl
  have h3 : (bumpCount c s1 ((s.loc t).delta + 1)).liveCount = s1.liveCount := rfl
  have h4 : (bumpCount c s1 ((s.loc t).delta + 1)).drift = s1.drift := rfl
  have h5 : (bumpCount c s1 ((s.loc t).delta + 1)).deltaSum = s1.deltaSum := rfl
  have h6 : (bumpCount c s1 ((s.loc t).delta + 1)).loc = s1.loc := rfl
  have h7 : (bumpCount c s1 ((s.loc t).delta + 1)).cell = s1.cell := rfl
  have h8 : (bumpCount c s1 ((s.loc t).delta + 1)).mem.size = s1.mem.size := rfl
  have h9 : (bumpCount c s1 ((s.loc t).delta + 1)).locals.length = s1.locals.length := rfl
  refine ⟨hg, ?_, ?_, ?_, ?_⟩
  · apply InvC.of_bal
    · simp only [State.bal] at hbal ⊢
      rw [hds, h5, hds1]
      rw [h2, h3, h4, hcnt1, hlive1, hdr1] at hcnt
      omega
    · intro u hu
      rw [(hcd u).1, h6, hloc1] at hu
      rw [(hcd u).2, h6, hloc1]
      by_cases hut : u = t
      · subst hut; simp
      · rw [upd_ne _ _ hut] at hu ⊢; exact hC.idle u hu
  · revert hpost
    generalize (takeFromShared c (bumpCount c s1 ((s.loc t).delta + 1)) t ((s.loc t).delta + 1)) = r
    obtain ⟨r1, r2⟩ := r
    cases r2 <;> simp only [AllocPost, h7, h8, hcell1, hsz1] <;> exact id
  · rw [hlen, h9, hlen1]
  · intro u
    rw [(hcd u).1, h6, hloc1]
    exact upd_loc_field s.loc t _ (·.cur) (by rfl) u

theorem addNode_spec {c : Cfg} {s : State} {g : Ghost} (hL : InvL c s g) (hC : InvC s) {t : Nat}
    (ht : t < s.locals.length) :
    (∃ g', InvL c (addNode c s t).1 g') ∧ InvC (addNode c s t).1 ∧
    AllocPost s (addNode c s t).1 (addNode c s t).2 ∧
    (addNode c s t).1.locals.length = s.locals.length ∧
    (∀ u, ((addNode c s t).1.loc u).cur = (s.loc u).cur) := by
  have hbal := hC.bal_zero
  unfold addNode
  by_cases hc : (s.loc t).cur = true
  · by_cases hid : (s.loc t).next ≠ 0
    · simp only [hc, ↓reduceIte, hid, ne_eq, not_false_eq_true]
      -- from the local list
      obtain ⟨n, rest, hfree, _, H⟩ := hL.lists.popLocal hc rfl hid
      have hnx : useFreeSlot s (s.loc t).next = n := useFreeSlot_eq hfree
      have hlt : (s.loc t).next < s.mem.size := hL.lt_size (by rw [hfree]; simp)
      have hnl : s.cell (s.loc t).next ≠ .live := by rw [hfree]; simp
      rw [hnx]
      have hloc : ((s.setCell (s.loc t).next .live).setLoc t
          { next := n, init := (s.loc t).init, delta := (s.loc t).delta + 1, cur := true }).loc =
          upd s.loc t { next := n, init := (s.loc t).init, delta := (s.loc t).delta + 1, cur := true } := by
        rw [locfun_setLoc _ _ _ (by exact ht), locfun_setCell]
      refine ⟨⟨_, hL.build (by simp) hL.alloc_le (by
          rw [cellfun_setLoc, cellfun_setCell _ _ _ (by exact hlt), hloc]
          exact H _ (by simp) (by simp) (fun u hu => by simp [upd_ne _ _ hu])) ?_⟩, ?_, ⟨hnl, hlt, ?_⟩,
        by simp, ?_⟩
      · rw [cellfun_setLoc, cellfun_setCell _ _ _ (by exact hlt), hloc]
        exact hL.res.flip (by rw [hfree]; simp) (by simp)
          (fun u => ⟨upd_loc_field s.loc t _ (·.cur) (by simp [hc]) u,
            upd_loc_field s.loc t _ (·.init) (by rfl) u⟩)
      · apply InvC.of_bal
        · simp only [State.bal, liveCount_setLoc, count_setLoc, drift_setLoc, count_setCell, drift_setCell]
          rw [liveCount_alloc _ _ (by exact hlt) (by exact hnl), deltaSum_setLoc _ t _ (by exact ht)]
          simp only [State.bal] at hbal
          show s.count + (s.deltaSum - (s.loc t).delta + ((s.loc t).delta + 1)) - ((s.liveCount : Int) + 1)
            - (s.drift : Int) = 0
          omega
        · intro u hu
          rw [hloc] at hu ⊢
          by_cases hut : u = t
          · subst hut; simp at hu
          · rw [upd_ne _ _ hut] at hu ⊢; exact hC.idle u hu
      · rw [cellfun_setLoc]; exact cellfun_setCell _ _ _ (by exact hlt)
      · intro u; rw [hloc]; exact upd_loc_field s.loc t _ (·.cur) (by simp [hc]) u
    · have hn : (s.loc t).next = 0 := by
        apply Classical.byContradiction; intro h; exact hid h
      by_cases hm : (s.loc t).init % c.chunk ≠ 0
      · simp only [hc, ↓reduceIte, hn, ne_eq, not_true_eq_false, hm, not_false_eq_true]
        -- from the pre-allocated range
        obtain ⟨hun, hlt0, H⟩ := hL.res.takeReserved hL.chunk_pos hc hm
        have hlt : (s.loc t).init + c.terms < s.mem.size := hL.lt_size_of_lt hlt0
        have hnl : s.cell ((s.loc t).init + c.terms) ≠ .live := by rw [hun]; simp
        have hloc : ((s.setCell ((s.loc t).init + c.terms) .live).setLoc t
            { next := 0, init := (s.loc t).init + 1, delta := (s.loc t).delta + 1, cur := true }).loc =
            upd s.loc t { next := 0, init := (s.loc t).init + 1, delta := (s.loc t).delta + 1, cur := true } := by
          rw [locfun_setLoc _ _ _ (by exact ht), locfun_setCell]
        refine ⟨⟨g, hL.build (by simp) hL.alloc_le ?_ ?_⟩, ?_, ⟨hnl, hlt, ?_⟩, by simp, ?_⟩
        · rw [cellfun_setLoc, cellfun_setCell _ _ _ (by exact hlt), hloc]
          apply (hL.lists.uninit_to_live hun).loc_irrelevant
          intro u
          exact ⟨upd_loc_field s.loc t _ (·.cur) (by simp [hc]) u,
            upd_loc_field s.loc t _ (·.next) (by simp [hn]) u⟩
        · rw [cellfun_setLoc, cellfun_setCell _ _ _ (by exact hlt), hloc]
          exact H _ (by simp) (by simp) (fun u hu => by simp [upd_ne _ _ hu])
        · apply InvC.of_bal
          · simp only [State.bal, liveCount_setLoc, count_setLoc, drift_setLoc, count_setCell, drift_setCell]
            rw [liveCount_alloc _ _ (by exact hlt) (by exact hnl), deltaSum_setLoc _ t _ (by exact ht)]
            simp only [State.bal] at hbal
            show s.count + (s.deltaSum - (s.loc t).delta + ((s.loc t).delta + 1)) - ((s.liveCount : Int) + 1)
              - (s.drift : Int) = 0
            omega
          · intro u hu
            rw [hloc] at hu ⊢
            by_cases hut : u = t
            · subst hut; simp at hu
            · rw [upd_ne _ _ hut] at hu ⊢; exact hC.idle u hu
        · rw [cellfun_setLoc]; exact cellfun_setCell _ _ _ (by exact hlt)
        · intro u; rw [hloc]; exact upd_loc_field s.loc t _ (·.cur) (by simp [hc]) u
      · have hm0 : (s.loc t).init % c.chunk = 0 := by
          apply Classical.byContradiction; intro h; exact hm h
        simp only [hc, ↓reduceIte, hn, ne_eq, not_true_eq_false, hm0]
        -- from the shared state
        refine getSlot_session_spec hL hC ht hn hm0 _ ?_
        congr 1
        cases hl : s.loc t with
        | mk nx ini dl cu => rw [hl] at hn hc; simp at hn hc; simp [hn, hc]
  · simp only [hc, Bool.false_eq_true, ↓reduceIte]
    unfold getSlotFromShared
    have hL2 := invL_bumpCount hL (1 : Int)
    obtain ⟨hg, hpost, hcnt, hds, hcd, hlen⟩ := takeFromShared_spec hL2 (t := t) ht (1 : Int)
      (by intro h; exact absurd h hc)
    refine ⟨hg, ?_, hpost, hlen, fun u => (hcd u).1⟩
    apply InvC.of_bal
    · simp only [State.bal] at hbal ⊢
      rw [hds]
      have h2 : (bumpCount c s 1).count = s.count + 1 := rfl
      have h3 : (bumpCount c s 1).liveCount = s.liveCount := rfl
      have h4 : (bumpCount c s 1).drift = s.drift := rfl
      have h1 : (bumpCount c s 1).deltaSum = s.deltaSum := rfl
      rw [h1]; rw [h2, h3, h4] at hcnt
      omega
    · intro u hu
      rw [(hcd u).1] at hu
      rw [(hcd u).2]
      exact hC.idle u hu

end OxiddModel.Alloc
