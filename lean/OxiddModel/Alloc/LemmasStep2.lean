import OxiddModel.Alloc.LemmasLink

/-!
Preservation of the invariant by `free_slot`, the gc thread's hand-over and the drop of the guard;
`inv_step` / `inv_run`.
-/
namespace OxiddModel.Alloc

/-- a live cell is a slot (`id ≥ terms ≥ 1`) inside the array -/
theorem live_facts {c : Cfg} {s : State} {g : Ghost} (hL : InvL c s g) {id : Nat} (hlive : s.cell id = .live) :
    id ≠ 0 ∧ id < s.mem.size ∧ (∀ n, s.cell id ≠ .free n) ∧ s.cell id ≠ .uninit := by
  have hne : s.cell id ≠ .uninit := by rw [hlive]; simp
  have hr := hL.res.range_of_ne_uninit hne
  have := hL.terms_pos
  exact ⟨by omega, hL.lt_size hne, fun n => by rw [hlive]; simp, hne⟩

theorem freeSlot_spec {c : Cfg} {s : State} {g : Ghost} (hL : InvL c s g) (hC : InvC s) {t id : Nat}
    (ht : t < s.locals.length) (hlive : s.cell id = .live) :
    (∃ g', InvL c (freeSlot c s t id).1 g') ∧ InvC (freeSlot c s t id).1 ∧
    (∃ n, (freeSlot c s t id).1.cell = upd s.cell id (.free n)) ∧
    (freeSlot c s t id).1.locals.length = s.locals.length ∧
    (∀ u, ((freeSlot c s t id).1.loc u).cur = (s.loc u).cur) := by
  have hbal := hC.bal_zero
  obtain ⟨hid0, hlt, hnf, hnu⟩ := live_facts hL hlive
  unfold freeSlot
  by_cases hc : (s.loc t).cur = true
  · by_cases hd : (s.loc t).delta - 1 > -(c.chunk : Int)
    · simp only [hc, ↓reduceIte, hd]
      -- onto the local list
      have hloc : ((s.setCell id (.free (s.loc t).next)).setLoc t
          { next := id, init := (s.loc t).init, delta := (s.loc t).delta - 1, cur := true }).loc =
          upd s.loc t { next := id, init := (s.loc t).init, delta := (s.loc t).delta - 1, cur := true } := by
        rw [locfun_setLoc _ _ _ (by exact ht), locfun_setCell]
      refine ⟨⟨_, hL.build (by simp) hL.alloc_le (by
          rw [cellfun_setLoc, cellfun_setCell _ _ _ (by exact hlt), hloc]
          exact hL.lists.pushLocal hc hnf hid0 (by simp) (by simp) (fun u hu => by simp [upd_ne _ _ hu])) ?_⟩,
        ?_, ⟨_, by rw [cellfun_setLoc]; exact cellfun_setCell _ _ _ (by exact hlt)⟩, by simp, ?_⟩
      · rw [cellfun_setLoc, cellfun_setCell _ _ _ (by exact hlt), hloc]
        exact hL.res.flip hnu (by simp)
          (fun u => ⟨upd_loc_field s.loc t _ (·.cur) (by simp [hc]) u,
            upd_loc_field s.loc t _ (·.init) (by rfl) u⟩)
      · apply InvC.of_bal
        · simp only [State.bal, liveCount_setLoc, count_setLoc, drift_setLoc, count_setCell, drift_setCell]
          rw [liveCount_free _ _ _ (by exact hlive) (by simp), deltaSum_setLoc _ t _ (by exact ht)]
          simp only [State.bal] at hbal
          show s.count + (s.deltaSum - (s.loc t).delta + ((s.loc t).delta - 1)) - ((s.liveCount : Int) - 1)
            - (s.drift : Int) = 0
          omega
        · intro u hu
          rw [hloc] at hu ⊢
          by_cases hut : u = t
          · subst hut; simp at hu
          · rw [upd_ne _ _ hut] at hu ⊢; exact hC.idle u hu
      · intro u; rw [hloc]; exact upd_loc_field s.loc t _ (·.cur) (by simp [hc]) u
    · simp only [hc, ↓reduceIte, hd]
      -- onto the local list, which is handed over
      have H1 := hL.lists.pushLocal (t := t) (id := id) hc hnf hid0
        (lc' := upd s.loc t { s.loc t with next := id }) (by simp [hc]) (by simp)
        (fun u hu => by simp [upd_ne _ _ hu])
      have H2 := H1.publish (t := t) (by simp [hc]) (by simp; exact hid0)
        (lc' := upd s.loc t { next := 0, init := (s.loc t).init, delta := 0, cur := true })
        (Or.inr (by simp)) (fun u hu => by simp [upd_ne _ _ hu])
      simp only [upd_same] at H2
      refine ⟨⟨_, hL.build (by simp) hL.alloc_le (by
          rw [cellfun_setLoc, cell_mk_mem, cellfun_setCell _ _ _ (by exact hlt),
            locfun_setLoc _ _ _ (by exact ht)]
          exact H2) ?_⟩, ?_,
        ⟨_, by rw [cellfun_setLoc, cell_mk_mem]; exact cellfun_setCell _ _ _ (by exact hlt)⟩, by simp, ?_⟩
      · rw [cellfun_setLoc, cell_mk_mem, cellfun_setCell _ _ _ (by exact hlt),
          locfun_setLoc _ _ _ (by exact ht)]
        exact hL.res.flip hnu (by simp)
          (fun u => ⟨upd_loc_field s.loc t _ (·.cur) (by simp [hc]) u,
            upd_loc_field s.loc t _ (·.init) (by rfl) u⟩)
      · apply InvC.of_bal
        · simp only [State.bal] at hbal ⊢
          rw [deltaSum_setLoc _ t _ (by exact ht)]
          simp only [liveCount_setLoc, count_setLoc, drift_setLoc]
          have hlv : (((s.setCell id (.free (s.loc t).next)).liveCount : Nat) : Int) = s.liveCount - 1 :=
            liveCount_free _ _ _ hlive (by simp)
          by_cases hfix : c.fixCount = true
          · simp only [hfix, ↓reduceIte]
            show s.count + ((s.loc t).delta - 1) + (s.deltaSum - (s.loc t).delta + 0)
              - (((s.setCell id (.free (s.loc t).next)).liveCount : Nat) : Int) - (s.drift : Int) = 0
            rw [hlv]; omega
          · simp only [hfix, Bool.false_eq_true, ↓reduceIte]
            show s.count + (s.loc t).delta + (s.deltaSum - (s.loc t).delta + 0)
              - (((s.setCell id (.free (s.loc t).next)).liveCount : Nat) : Int) - ((s.drift + 1 : Nat) : Int) = 0
            rw [hlv]; omega
        · intro u hu
          rw [locfun_setLoc _ _ _ (by exact ht)] at hu ⊢
          by_cases hut : u = t
          · subst hut; simp at hu
          · rw [upd_ne _ _ hut] at hu ⊢; exact hC.idle u hu
      · intro u
        rw [locfun_setLoc _ _ _ (by exact ht)]
        exact upd_loc_field _ t _ (·.cur) (by simp [hc]) u
  · simp only [hc, Bool.false_eq_true, ↓reduceIte]
    -- `return_slot`
    obtain ⟨g', H⟩ := hL.lists.pushForeign hnf hid0
    refine ⟨⟨g', hL.build (by simp) hL.alloc_le (by
        rw [cell_mk_mem, cellfun_setCell _ _ _ (by exact hlt)]; exact H) ?_⟩, ?_,
      ⟨_, by rw [cell_mk_mem]; exact cellfun_setCell _ _ _ (by exact hlt)⟩, by simp, fun u => rfl⟩
    · rw [cell_mk_mem, cellfun_setCell _ _ _ (by exact hlt)]
      exact hL.res.flip hnu (by simp) (fun u => ⟨rfl, rfl⟩)
    · apply InvC.of_bal
      · simp only [State.bal] at hbal ⊢
        have hlv : (((s.setCell id (.free (s.stack.headD 0))).liveCount : Nat) : Int) = s.liveCount - 1 :=
          liveCount_free _ _ _ hlive (by simp)
        show s.count - 1 + s.deltaSum - (((s.setCell id (.free (s.stack.headD 0))).liveCount : Nat) : Int)
          - (s.drift : Int) = 0
        rw [hlv]; omega
      · intro u hu; exact hC.idle u hu

/-! ## the gc thread's hand-over -/

theorem inv_setGc {c : Cfg} {s : State} (h : Inv c s) (gc : GcState) : Inv c (s.setGc gc) := by
  obtain ⟨⟨g, hL⟩, hC⟩ := h
  exact ⟨⟨g, hL.build rfl hL.alloc_le hL.lists hL.res⟩, { count := hC.count, idle := hC.idle }⟩

theorem gcPublish_spec {c : Cfg} {s : State} {g : Ghost} (hL : InvL c s g) (hC : InvC s) {t : Nat}
    (ht : t < s.locals.length) (hc : (s.loc t).cur = true) :
    (∃ g', InvL c (gcPublish s t).1 g') ∧ InvC (gcPublish s t).1 ∧
    (gcPublish s t).1.cell = s.cell ∧
    (gcPublish s t).1.locals.length = s.locals.length ∧
    (∀ u, ((gcPublish s t).1.loc u).cur = (s.loc u).cur) := by
  have hbal := hC.bal_zero
  unfold gcPublish
  by_cases hnz : (s.loc t).next ≠ 0
  · simp only [hnz, ne_eq, not_false_eq_true, ↓reduceIte]
    have H := hL.lists.publish (t := t) hc hnz
      (lc' := upd s.loc t { next := 0, init := (s.loc t).init, delta := 0, cur := (s.loc t).cur })
      (Or.inr (by simp)) (fun u hu => by simp [upd_ne _ _ hu])
    refine ⟨⟨_, hL.build (by simp) hL.alloc_le (by
        rw [cellfun_setLoc, locfun_setLoc _ _ _ (by exact ht)]
        exact H) ?_⟩, ?_, rfl, by simp, ?_⟩
    · rw [cellfun_setLoc, locfun_setLoc _ _ _ (by exact ht)]
      apply hL.res.frame (ResInv.res_congr (fun u =>
        ⟨upd_loc_field s.loc t _ (·.cur) (by rfl) u, upd_loc_field s.loc t _ (·.init) (by rfl) u⟩))
      · intro u hu
        rw [upd_loc_field s.loc t _ (·.cur) (by rfl) u] at hu
        rw [upd_loc_field s.loc t _ (·.init) (by rfl) u]
        exact hL.res.res_le u hu
      · intro j; exact Iff.rfl
    · apply InvC.of_bal
      · simp only [State.bal] at hbal ⊢
        rw [deltaSum_setLoc _ t _ (by exact ht)]
        simp only [liveCount_setLoc, count_setLoc, drift_setLoc]
        show s.count + (s.loc t).delta + (s.deltaSum - (s.loc t).delta + 0) - (s.liveCount : Int)
          - (s.drift : Int) = 0
        omega
      · intro u hu
        rw [locfun_setLoc _ _ _ (by exact ht)] at hu ⊢
        by_cases hut : u = t
        · subst hut; simp
        · rw [upd_ne _ _ hut] at hu ⊢; exact hC.idle u hu
    · intro u
      rw [locfun_setLoc _ _ _ (by exact ht)]
      exact upd_loc_field _ t _ (·.cur) (by rfl) u
  · simp only [hnz, ↓reduceIte]
    exact ⟨⟨g, hL⟩, hC, trivial, trivial, fun u => trivial⟩

theorem gcAfter_spec {c : Cfg} {s : State} (h : Inv c s) {t : Nat}
    (ht : t < s.locals.length) (hc : (s.loc t).cur = true) :
    Inv c (gcAfter c s t).1 ∧ (gcAfter c s t).1.cell = s.cell ∧
    (gcAfter c s t).1.locals.length = s.locals.length ∧
    (∀ u, ((gcAfter c s t).1.loc u).cur = (s.loc u).cur) := by
  obtain ⟨⟨g, hL⟩, hC⟩ := h
  obtain ⟨hg, hC', hcell, hlen, hcur⟩ := gcPublish_spec hL hC ht hc
  exact ⟨inv_setGc ⟨hg, hC'⟩ _, hcell, hlen, hcur⟩

/-! ## the drop of the guard -/

/-- what the drop of the guard guarantees -/
structure EndPost (c : Cfg) (s s' : State) (t : Nat) : Prop where
  inv : Inv c s'
  live : ∀ j, s'.cell j = .live ↔ s.cell j = .live
  len : s'.locals.length = s.locals.length
  cur_t : (s'.loc t).cur = false
  cur_other : ∀ u, u ≠ t → s'.loc u = s.loc u

theorem linkF_live {f : Nat → Cell} {a n last : Nat} (hnl : ∀ j, a ≤ j → j < a + n → f j ≠ .live) (j : Nat) :
    linkF f a n last j = .live ↔ f j = .live := by
  simp only [linkF]
  by_cases hin : a ≤ j ∧ j < a + n
  · simp only [hin, and_self, ↓reduceIte]
    have := hnl j hin.1 hin.2
    by_cases hl : j + 1 = a + n <;> simp [hl, this]
  · simp [hin]

theorem returnPreallocated_spec {c : Cfg} {s : State} {g : Ghost} (hL : InvL c s g) (hC : InvC s) {t : Nat}
    (ht : t < s.locals.length) (hc : (s.loc t).cur = true)
    (s0 : State) (hs0 : s0 = s.setLoc t { s.loc t with cur := false }) :
    EndPost c s (returnPreallocated c s0 t).1 t := by
  have hbal := hC.bal_zero
  have hloc0 : s0.loc = upd s.loc t { s.loc t with cur := false } := by
    rw [hs0]; exact locfun_setLoc _ _ _ ht
  have hloc0t : s0.loc t = { s.loc t with cur := false } := by rw [hloc0]; simp
  have hlen0 : s0.locals.length = s.locals.length := by rw [hs0]; simp
  have hds0 : s0.deltaSum = s.deltaSum := by
    rw [hs0, deltaSum_setLoc s t _ ht]; show s.deltaSum - (s.loc t).delta + (s.loc t).delta = _; omega
  have hmem0 : s0.mem = s.mem := by rw [hs0]; rfl
  have hcell0 : s0.cell = s.cell := by rw [hs0]; rfl
  have hst0 : s0.stack = s.stack := by rw [hs0]; rfl
  have hcnt0 : s0.count = s.count := by rw [hs0]; rfl
  have hdr0 : s0.drift = s.drift := by rw [hs0]; rfl
  have hal0 : s0.allocated = s.allocated := by rw [hs0]; rfl
  have ht0 : t < s0.locals.length := by omega
  unfold returnPreallocated
  by_cases hm : (s.loc t).init % c.chunk ≠ 0
  · -- the pre-allocated range is linked in front of the local list
    have hk := hL.chunk_pos
    have hlt := lt_succ_div_mul (s.loc t).init c.chunk hk
    have hce := chunkEnd_of_mod_ne c _ hm
    have hle := hL.res.res_le t hc
    rw [hce] at hle
    have hal := hL.alloc_le
    have hsz := hL.size
    simp only [hloc0t, hm, ne_eq, not_false_eq_true, ↓reduceIte]
    -- abbreviations
    generalize hstop : ((s.loc t).init / c.chunk + 1) * c.chunk = stop at hlt hle ⊢
    have hk1 : stop - 1 + c.terms = ((s.loc t).init + c.terms) + (stop - 1 - (s.loc t).init) := by omega
    have hn1 : stop - 1 - (s.loc t).init + 1 = stop - (s.loc t).init := by omega
    have hcellX : cellOf (linkRange (s0.mem.setIfInBounds (stop - 1 + c.terms) (.free (s.loc t).next))
        ((s.loc t).init + c.terms) (stop - 1 - (s.loc t).init)) =
        linkF s.cell ((s.loc t).init + c.terms) (stop - (s.loc t).init) (s.loc t).next := by
      rw [hk1, hmem0, cellOf_link _ _ _ _ (by omega), hn1]; rfl
    -- the cells of the range are uninitialised
    have hres : ∀ j, Res c s.loc t j ↔ (s.loc t).init + c.terms ≤ j ∧ j < stop + c.terms := by
      intro j; simp only [Res, hc, hce, hstop, true_and]
    have hun : ∀ j, (s.loc t).init + c.terms ≤ j → j < (s.loc t).init + c.terms + (stop - (s.loc t).init) →
        s.cell j = .uninit := by
      intro j h1 h2
      exact (hL.res.uninit_iff j (by omega) (by omega)).2 ⟨t, (hres j).2 ⟨h1, by omega⟩⟩
    have hpush := hL.lists.pushRange (t := t) hc (stop - (s.loc t).init) ((s.loc t).init + c.terms)
      (by have := hL.terms_pos; omega) (fun j h1 h2 m => by rw [hun j h1 h2]; simp)
      (upd s.loc t { s.loc t with next := (s.loc t).init + c.terms }) (by simp [hc])
      (by simp; omega) (fun u hu => by simp [upd_ne _ _ hu])
    -- the new state
    generalize hX : (({ s0 with
        mem := linkRange (s0.mem.setIfInBounds (stop - 1 + c.terms) (.free (s.loc t).next))
          ((s.loc t).init + c.terms) (stop - 1 - (s.loc t).init),
        stack := ((s.loc t).init + c.terms) :: s0.stack,
        count := s0.count + (s.loc t).delta } : State).setLoc t
        { next := (s.loc t).next, init := (s.loc t).init, delta := 0, cur := false }) = X
    have hXcell : X.cell = linkF s.cell ((s.loc t).init + c.terms) (stop - (s.loc t).init) (s.loc t).next := by
      rw [← hX, ← hcellX]; rfl
    have hXloc : X.loc = upd s0.loc t { next := (s.loc t).next, init := (s.loc t).init, delta := 0, cur := false } := by
      rw [← hX]; exact locfun_setLoc _ _ _ ht0
    have hXloc_t : X.loc t = { next := (s.loc t).next, init := (s.loc t).init, delta := 0, cur := false } := by
      rw [hXloc]; simp
    have hXloc_u : ∀ u, u ≠ t → X.loc u = s.loc u := by
      intro u hu; rw [hXloc, upd_ne _ _ hu, hloc0, upd_ne _ _ hu]
    have hXst : X.stack = ((s.loc t).init + c.terms) :: s.stack := by rw [← hX, ← hst0]; rfl
    have hXal : X.allocated = s.allocated := by rw [← hX, ← hal0]; rfl
    have hXsz : X.mem.size = s.mem.size := by
      rw [← hX]
      show (linkRange _ _ _).size = _
      rw [size_linkRange, Array.size_setIfInBounds, hmem0]
    have hXlen : X.locals.length = s.locals.length := by rw [← hX]; simp [hlen0]
    have hXcnt : X.count = s.count + (s.loc t).delta := by rw [← hX, ← hcnt0]; rfl
    have hXdr : X.drift = s.drift := by rw [← hX, ← hdr0]; rfl
    have hXds : X.deltaSum = s.deltaSum - (s.loc t).delta + 0 := by
      rw [← hX, deltaSum_setLoc _ t _ (by exact ht0)]
      show s0.deltaSum - (s0.loc t).delta + 0 = _
      rw [hds0, hloc0t]
    have hXlive : X.liveCount = s.liveCount := by
      rw [← hX]
      show (linkRange (s0.mem.setIfInBounds (stop - 1 + c.terms) (.free (s.loc t).next))
          ((s.loc t).init + c.terms) (stop - 1 - (s.loc t).init)).toList.count .live = s.mem.toList.count .live
      rw [hmem0, count_live_linkRange _ _ _ (by simp; omega)]
      · exact count_live_set _ _ _ (by omega)
          (by rw [← cell_eq_cellOf, hun _ (by omega) (by omega)]; simp) (by simp)
      · intro j h1 h2
        rw [cellOf_set _ _ _ (by omega), upd_ne _ _ (by omega), ← cell_eq_cellOf, hun j h1 (by omega)]
        simp
    have hpub := hpush.publish (t := t) (by simp [hc]) (by simp; have := hL.terms_pos; omega)
      (lc' := X.loc) (Or.inl (by rw [hXloc_t])) (fun u hu => by rw [hXloc_u u hu]; simp [upd_ne _ _ hu])
    simp only [upd_same] at hpub
    have hne0 : stop - (s.loc t).init ≠ 0 := by omega
    refine
      { inv := ⟨⟨_, hL.build hXsz (by rw [hXal]; exact hal) (by rw [hXcell, hXst]; exact hpub) ?_⟩, ?_⟩
        live := ?_
        len := hXlen
        cur_t := by rw [hXloc_t]
        cur_other := hXloc_u }
    · rw [hXcell, hXal]
      apply hL.res.closeLink hc (f' := linkF s.cell _ _ _) _ _ (by rw [hXloc_t]) hXloc_u
      · intro j hj
        have := (hres j).1 hj
        simp only [linkF]
        have hin : (s.loc t).init + c.terms ≤ j ∧ j < (s.loc t).init + c.terms + (stop - (s.loc t).init) := by omega
        simp only [hin, and_self, ↓reduceIte]
        by_cases hl : j + 1 = (s.loc t).init + c.terms + (stop - (s.loc t).init)
        · exact ⟨_, by rw [if_pos hl]⟩
        · exact ⟨_, by rw [if_neg hl]⟩
      · intro j hj
        have hnin : ¬ ((s.loc t).init + c.terms ≤ j ∧ j < (s.loc t).init + c.terms + (stop - (s.loc t).init)) := by
          intro h; apply hj; exact (hres j).2 ⟨h.1, by omega⟩
        simp [linkF, hnin]
    · apply InvC.of_bal
      · simp only [State.bal] at hbal ⊢
        rw [hXcnt, hXds, hXlive, hXdr]; omega
      · intro u hu
        by_cases hut : u = t
        · subst hut; rw [hXloc_t]
        · rw [hXloc_u u hut] at hu ⊢; exact hC.idle u hu
    · intro j
      rw [hXcell]
      exact linkF_live (fun j h1 h2 => by rw [hun j h1 h2]; simp) j
  · have hm0 : (s.loc t).init % c.chunk = 0 := by
      apply Classical.byContradiction; intro h; exact hm h
    simp only [hloc0t, hm0, ne_eq, not_true_eq_false, ↓reduceIte]
    generalize hX : (({ s0 with
        stack := if (s.loc t).next ≠ 0 then (s.loc t).next :: s0.stack else s0.stack,
        count := s0.count + (s.loc t).delta } : State).setLoc t
        { next := (s.loc t).next, init := (s.loc t).init, delta := 0, cur := false }) = X
    have hXcell : X.cell = s.cell := by rw [← hX, ← hcell0]; rfl
    have hXloc : X.loc = upd s0.loc t { next := (s.loc t).next, init := (s.loc t).init, delta := 0, cur := false } := by
      rw [← hX]; exact locfun_setLoc _ _ _ ht0
    have hXloc_t : X.loc t = { next := (s.loc t).next, init := (s.loc t).init, delta := 0, cur := false } := by
      rw [hXloc]; simp
    have hXloc_u : ∀ u, u ≠ t → X.loc u = s.loc u := by
      intro u hu; rw [hXloc, upd_ne _ _ hu, hloc0, upd_ne _ _ hu]
    have hXst : X.stack = if (s.loc t).next ≠ 0 then (s.loc t).next :: s.stack else s.stack := by
      rw [← hX, ← hst0]; rfl
    have hXal : X.allocated = s.allocated := by rw [← hX, ← hal0]; rfl
    have hXsz : X.mem.size = s.mem.size := by rw [← hX, ← hmem0]; rfl
    have hXlen : X.locals.length = s.locals.length := by rw [← hX]; simp [hlen0]
    have hXcnt : X.count = s.count + (s.loc t).delta := by rw [← hX, ← hcnt0]; rfl
    have hXdr : X.drift = s.drift := by rw [← hX, ← hdr0]; rfl
    have hXds : X.deltaSum = s.deltaSum - (s.loc t).delta + 0 := by
      rw [← hX, deltaSum_setLoc _ t _ (by exact ht0)]
      show s0.deltaSum - (s0.loc t).delta + 0 = _
      rw [hds0, hloc0t]
    have hXlive : X.liveCount = s.liveCount := by
      rw [← hX]; show s0.mem.toList.count .live = s.mem.toList.count .live; rw [hmem0]
    have hlists : ∃ g', ListInv X.cell X.stack X.loc g' := by
      rw [hXcell, hXst]
      by_cases hnz : (s.loc t).next ≠ 0
      · rw [if_pos hnz]
        exact ⟨_, hL.lists.publish (t := t) hc hnz (lc' := X.loc) (Or.inl (by rw [hXloc_t])) hXloc_u⟩
      · rw [if_neg hnz]
        have hn : (s.loc t).next = 0 := by
          apply Classical.byContradiction; intro h; exact hnz h
        exact ⟨g, hL.lists.closeEmpty (t := t) hn (lc' := X.loc) (Or.inl (by rw [hXloc_t])) hXloc_u⟩
    obtain ⟨g', hl'⟩ := hlists
    refine
      { inv := ⟨⟨g', hL.build hXsz (by rw [hXal]; exact hL.alloc_le) hl' ?_⟩, ?_⟩
        live := fun j => by rw [hXcell]
        len := hXlen
        cur_t := by rw [hXloc_t]
        cur_other := hXloc_u }
    · rw [hXcell, hXal]
      apply hL.res.frame
      · intro u id
        by_cases hut : u = t
        · subst hut
          constructor
          · intro ⟨h1, _⟩; rw [hXloc_t] at h1; cases h1
          · intro hr; exact absurd hr (ResInv.res_empty hm0 id)
        · simp only [Res, hXloc_u u hut]
      · intro u hu
        by_cases hut : u = t
        · subst hut; rw [hXloc_t] at hu; cases hu
        · rw [hXloc_u u hut] at hu ⊢; exact hL.res.res_le u hu
      · intro j; exact Iff.rfl
    · apply InvC.of_bal
      · simp only [State.bal] at hbal ⊢
        rw [hXcnt, hXds, hXlive, hXdr]; omega
      · intro u hu
        by_cases hut : u = t
        · subst hut; rw [hXloc_t]
        · rw [hXloc_u u hut] at hu ⊢; exact hC.idle u hu

theorem guardDrop_spec {c : Cfg} {s : State} (h : Inv c s) {t : Nat}
    (ht : t < s.locals.length) (hc : (s.loc t).cur = true) : EndPost c s (guardDrop c s t).1 t := by
  obtain ⟨⟨g, hL⟩, hC⟩ := h
  unfold guardDrop
  by_cases hcond : (s.loc t).next ≠ 0 ∨ (s.loc t).init % c.chunk ≠ 0 ∨ (s.loc t).delta ≠ 0
  · simp only [hcond, ↓reduceIte]
    exact returnPreallocated_spec hL hC ht hc _ rfl
  · simp only [hcond, ↓reduceIte]
    have hn : (s.loc t).next = 0 := by
      apply Classical.byContradiction; intro h; exact hcond (Or.inl h)
    have hm0 : (s.loc t).init % c.chunk = 0 := by
      apply Classical.byContradiction; intro h; exact hcond (Or.inr (Or.inl h))
    have hd : (s.loc t).delta = 0 := by
      apply Classical.byContradiction; intro h; exact hcond (Or.inr (Or.inr h))
    have hloc : (s.setLoc t { s.loc t with cur := false }).loc = upd s.loc t { s.loc t with cur := false } :=
      locfun_setLoc _ _ _ ht
    have hloc_u : ∀ u, u ≠ t → (s.setLoc t { s.loc t with cur := false }).loc u = s.loc u := by
      intro u hu; rw [hloc, upd_ne _ _ hu]
    have hloc_t : (s.setLoc t { s.loc t with cur := false }).loc t = { s.loc t with cur := false } := by
      rw [hloc]; simp
    refine
      { inv := ⟨⟨g, hL.build rfl hL.alloc_le
            (hL.lists.closeEmpty (t := t) hn (Or.inl (by rw [hloc_t])) hloc_u) ?_⟩, ?_⟩
        live := fun j => Iff.rfl
        len := by simp
        cur_t := by rw [hloc_t]
        cur_other := hloc_u }
    · apply hL.res.frame
      · intro u id
        by_cases hut : u = t
        · subst hut
          constructor
          · intro ⟨h1, _⟩; rw [hloc_t] at h1; cases h1
          · intro hr; exact absurd hr (ResInv.res_empty hm0 id)
        · simp only [Res, hloc_u u hut]
      · intro u hu
        by_cases hut : u = t
        · subst hut; rw [hloc_t] at hu; cases hu
        · rw [hloc_u u hut] at hu ⊢; exact hL.res.res_le u hu
      · intro j; exact Iff.rfl
    · refine { count := ?_, idle := ?_ }
      · rw [deltaSum_setLoc s t _ ht]
        have := hC.count
        show s.count + (s.deltaSum - (s.loc t).delta + (s.loc t).delta) = _
        simp only [liveCount_setLoc, drift_setLoc]
        omega
      · intro u hu
        by_cases hut : u = t
        · subst hut; rw [hloc_t]; exact hd
        · rw [hloc_u u hut] at hu ⊢; exact hC.idle u hu

/-! ## every step -/

/-- what a step does to the slots, the number of threads and the `cur` flags -/
structure StepPost (s s' : State) (op : Op) (o : Obs) : Prop where
  len : s'.locals.length = s.locals.length
  /-- a live slot stays live unless it is the one freed by this step -/
  live_stable : ∀ j, s.cell j = .live → s'.cell j = .live ∨ op = .free op.thread j
  /-- the only slot that becomes live is the one handed out by this step -/
  live_new : ∀ j, s'.cell j = .live → s.cell j = .live ∨ ∃ src nx, o = .alloc j src nx
  /-- `cur` of the other threads does not change -/
  cur_other : ∀ u, u ≠ op.thread → (s'.loc u).cur = (s.loc u).cur

theorem ite_some_eq {α : Type} {p : Prop} [Decidable p] {x y : α}
    (h : (if p then some x else none) = some y) : p ∧ x = y := by
  split at h
  · rename_i hp; exact ⟨hp, Option.some.inj h⟩
  · cases h

theorem step_spec {c : Cfg} {s s' : State} {op : Op} {o : Obs} (h : Inv c s)
    (hs : step c s op = some (s', o)) : Inv c s' ∧ StepPost s s' op o := by
  cases op with
  | attach t =>
    obtain ⟨hcond, e⟩ := ite_some_eq hs
    obtain ⟨e1, e2⟩ := Prod.mk.inj e
    subst e1; subst e2
    have ht := (valid_iff s t).1 hcond.1
    have hc : (s.loc t).cur = false := by rw [hcond.2]
    refine ⟨inv_begin h ht hc (l := { s.loc t with cur := true }) rfl (by rw [hcond.2]) (by rw [hcond.2]) rfl,
      ⟨by simp, fun j hj => Or.inl hj, fun j hj => Or.inl hj, ?_⟩⟩
    intro u hu
    simp only [Op.thread] at hu
    rw [locfun_setLoc _ _ _ ht, upd_ne _ _ hu]
  | sessionBegin t =>
    obtain ⟨hcond, e⟩ := ite_some_eq hs
    obtain ⟨e1, e2⟩ := Prod.mk.inj e
    subst e1; subst e2
    have ht := (valid_iff s t).1 hcond.1
    refine ⟨inv_begin h ht hcond.2 (l := { s.loc t with next := 0, init := 0, cur := true }) rfl rfl rfl rfl,
      ⟨by simp, fun j hj => Or.inl hj, fun j hj => Or.inl hj, ?_⟩⟩
    intro u hu
    simp only [Op.thread] at hu
    rw [locfun_setLoc _ _ _ ht, upd_ne _ _ hu]
  | alloc t =>
    obtain ⟨hv, e⟩ := ite_some_eq hs
    have e1 : s' = (addNode c s t).1 := by rw [e]
    have e2 : o = (addNode c s t).2 := by rw [e]
    subst e1; subst e2
    have ht := (valid_iff s t).1 hv
    obtain ⟨⟨g, hL⟩, hC⟩ := h
    obtain ⟨hg, hC', hpost, hlen, hcur⟩ := addNode_spec hL hC ht
    refine ⟨⟨hg, hC'⟩, ⟨hlen, ?_, ?_, fun u _ => hcur u⟩⟩
    · intro j hj
      revert hpost
      generalize addNode c s t = r
      obtain ⟨r1, r2⟩ := r
      cases r2 <;> simp only [AllocPost] <;> intro hpost
      · exact hpost.elim
      · rename_i id src nx
        left
        rw [hpost.2.2]
        by_cases hji : j = id
        · subst hji; simp
        · rw [upd_ne _ _ hji]; exact hj
      · left; rw [hpost]; exact hj
      all_goals exact hpost.elim
    · intro j hj
      revert hpost hj
      generalize addNode c s t = r
      obtain ⟨r1, r2⟩ := r
      cases r2 <;> simp only [AllocPost] <;> intro hpost hj
      · exact hpost.elim
      · rename_i id src nx
        rw [hpost.2.2] at hj
        by_cases hji : j = id
        · subst hji; exact Or.inr ⟨src, nx, rfl⟩
        · rw [upd_ne _ _ hji] at hj; exact Or.inl hj
      · left; rw [hpost] at hj; exact hj
      all_goals exact hpost.elim
  | free t id =>
    obtain ⟨hcond, e⟩ := ite_some_eq hs
    have e1 : s' = (freeSlot c s t id).1 := by rw [e]
    have e2 : o = (freeSlot c s t id).2 := by rw [e]
    subst e1; subst e2
    have ht := (valid_iff s t).1 hcond.1
    obtain ⟨⟨g, hL⟩, hC⟩ := h
    obtain ⟨hg, hC', ⟨n, hcell⟩, hlen, hcur⟩ := freeSlot_spec hL hC ht hcond.2
    refine ⟨⟨hg, hC'⟩, ⟨hlen, ?_, ?_, fun u _ => hcur u⟩⟩
    · intro j hj
      by_cases hji : j = id
      · subst hji; exact Or.inr rfl
      · left; rw [hcell, upd_ne _ _ hji]; exact hj
    · intro j hj
      rw [hcell] at hj
      by_cases hji : j = id
      · subst hji; simp at hj
      · rw [upd_ne _ _ hji] at hj; exact Or.inl hj
  | gcHandOver t =>
    obtain ⟨hcond, e⟩ := ite_some_eq hs
    have e1 : s' = (gcAfter c s t).1 := by rw [e]
    have e2 : o = (gcAfter c s t).2 := by rw [e]
    subst e1; subst e2
    have ht := (valid_iff s t).1 hcond.1
    obtain ⟨hi, hcell, hlen, hcur⟩ := gcAfter_spec h ht hcond.2
    exact ⟨hi, ⟨hlen, fun j hj => Or.inl (by rw [hcell]; exact hj),
      fun j hj => Or.inl (by rw [hcell] at hj; exact hj), fun u _ => hcur u⟩⟩
  | sessionEnd t =>
    obtain ⟨hcond, e⟩ := ite_some_eq hs
    have e1 : s' = (guardDrop c s t).1 := by rw [e]
    have e2 : o = (guardDrop c s t).2 := by rw [e]
    subst e1; subst e2
    have ht := (valid_iff s t).1 hcond.1
    have hp := guardDrop_spec h ht hcond.2
    exact ⟨hp.inv, ⟨hp.len, fun j hj => Or.inl ((hp.live j).2 hj),
      fun j hj => Or.inl ((hp.live j).1 hj), fun u hu => by
        simp only [Op.thread] at hu; rw [hp.cur_other u hu]⟩⟩

theorem inv_step {c : Cfg} {s s' : State} {op : Op} {o : Obs} (h : Inv c s)
    (hs : step c s op = some (s', o)) : Inv c s' := (step_spec h hs).1

theorem inv_run {c : Cfg} {ops : List Op} : ∀ {s s' : State}, Inv c s → run c s ops = some s' → Inv c s' := by
  induction ops with
  | nil => intro s s' h hr; simp only [run, Option.some.injEq] at hr; rw [← hr]; exact h
  | cons op ops ih =>
    intro s s' h hr
    simp only [run] at hr
    cases hs : step c s op with
    | none => rw [hs] at hr; cases hr
    | some r =>
      obtain ⟨s1, o⟩ := r
      rw [hs] at hr
      exact ih (inv_step h hs) hr

end OxiddModel.Alloc
