/-!
# The node-slot allocator of the index manager (C05 / C14 / C07)

Model of `crates/oxidd-manager-index/src/manager.rs`: `SharedStoreState`, the thread-local
`LocalStoreState`, `Store::prepare_local_state`, `Store::add_node`, `Store::use_free_slot`,
`Store::get_slot_from_shared`, `Store::free_slot` (+ `return_slot`), the drop of
`LocalStoreStateGuard` with `return_preallocated`, and the hand-over of the gc thread after a
collection (the closure of the thread `oxidd mi gc` in `new_manager`).

* A slot (`Cell`) is `uninit`, `free next` (member of a linked free list, `next = 0`: end of the
  list) or `live` (contains a node) — the three variants of the Rust `union Slot`.
* Slots are addressed by **node id** = slot index + `terms` (`TERMINALS ≥ 1`), exactly as the
  `next_free` links of the code; `0` is "none". `allocated` and `initialized` are slot *indices*
  as in the code. The memory is indexed by id (`terms + cap` cells; the first `terms` cells stand
  for the terminals and are never touched).
* `chunk` (`CHUNK_SIZE = 65536` in the code) is a parameter so that small instances are
  executable.
* Any number of threads (`locals`), thread `t` = position `t`. `cur` says that the thread-local
  `current_store` is this store (the thread is inside `with_manager_shared/exclusive` — a
  *session* — or is a pool worker / the gc thread, which are attached for good).

## Atomicity

One `Op` is one atomic step; a run is any sequence of `Op`s of any threads (`run`), i.e. all
interleavings. In the code a step is either thread-private (it touches the thread-local state and
slots only this thread can reach: its local free list, its pre-allocated range, the node it frees —
exclusive by the reference-count protocol) or it runs under the `state` mutex. `add_node` and
`free_slot` may do a private part followed by a critical section; the private part commutes with
every step of every other thread, so the combination is modelled as one step.

## `count` (the shared `node_count`) and the ghost `drift`

The code as it is loses one decrement of `node_count` whenever `free_slot` hands a list over
(`shared.node_count += state.node_count_delta.replace(0)` adds the delta *before* the current
free), and counts a node that was never created whenever `add_node` fails
(`shared.node_count += delta` precedes the out-of-memory return). The model does the same;
the ghost field `drift` (not in the code) counts these events so that the accounting invariant
`count + Σ delta = #live + drift` can be stated. `Cfg.fixCount = true` models the proposed patch
(`/verif/work/proposed_fixes/alloc-1.diff`), under which `drift` stays 0.
-/
namespace OxiddModel.Alloc

/-- the three variants of `union Slot` -/
inductive Cell where
  | uninit
  | free (next : Nat)
  | live
  deriving DecidableEq, Repr, Inhabited

/-- `enum GCState` -/
inductive GcState where
  | disabled
  | init
  | triggered
  deriving DecidableEq, Repr, Inhabited

/-- static parameters of a store -/
structure Cfg where
  /-- `slots.len()`: the inner node capacity -/
  cap : Nat
  /-- `CHUNK_SIZE` -/
  chunk : Nat
  /-- `TERMINALS` -/
  terms : Nat
  /-- the proposed patch for the two `node_count` losses is applied -/
  fixCount : Bool := false
  deriving DecidableEq, Repr

/-- `gc_lwm = inner_node_capacity / 100 * 90` -/
def Cfg.lwm (c : Cfg) : Nat := c.cap / 100 * 90
/-- `gc_hwm = inner_node_capacity / 100 * 95` -/
def Cfg.hwm (c : Cfg) : Nat := c.cap / 100 * 95

/-- `struct LocalStoreState` -/
structure Local where
  /-- `next_free`: head of the thread-local free list (node id, 0 = none) -/
  next : Nat := 0
  /-- `initialized` (slot index): slots `initialized .. next multiple of chunk` are
  pre-allocated for this thread -/
  init : Nat := 0
  /-- `node_count_delta` -/
  delta : Int := 0
  /-- `current_store == addr(store)` -/
  cur : Bool := false
  deriving DecidableEq, Repr, Inhabited

/-- `SharedStoreState` + the slots + the thread-local states of all threads -/
structure State where
  /-- the slots, indexed by node id -/
  mem : Array Cell
  /-- `SharedStoreState::next_free` (top of the stack first) -/
  stack : List Nat
  /-- `SharedStoreState::allocated` (slot index) -/
  allocated : Nat
  /-- `SharedStoreState::node_count` -/
  count : Int
  /-- `SharedStoreState::gc_state` -/
  gc : GcState
  /-- thread-local states -/
  locals : List Local
  /-- ghost: number of lost `node_count` updates so far (see the header) -/
  drift : Nat
  deriving Repr

/-- where `add_node` took the slot from -/
inductive Source where
  | localList
  | localChunk
  | sharedList
  | chunk
  | single
  | foreignList
  | foreignSingle
  deriving DecidableEq, Repr, Inhabited

/-- the operations (one atomic step each) -/
inductive Op where
  /-- pool worker / gc thread: `current_store.set(store_addr)` on a fresh thread -/
  | attach (t : Nat)
  /-- `prepare_local_state` returning a guard -/
  | sessionBegin (t : Nat)
  /-- `add_node` -/
  | alloc (t : Nat)
  /-- `free_slot(slot, id)` -/
  | free (t : Nat) (id : Nat)
  /-- the gc thread after a collection -/
  | gcHandOver (t : Nat)
  /-- drop of the `LocalStoreStateGuard` -/
  | sessionEnd (t : Nat)
  deriving DecidableEq, Repr

def Op.thread : Op → Nat
  | .attach t | .sessionBegin t | .alloc t | .free t _ | .gcHandOver t | .sessionEnd t => t

/-- what a step lets the outside see (the fields of the hook's events) -/
inductive Obs where
  | none
  /-- `add_node` returned the slot `id`; `next`: the link read from the slot (list sources) or the
  new `initialized` (chunk sources) -/
  | alloc (id : Nat) (src : Source) (next : Nat)
  /-- `add_node` failed; `delta` was added to `node_count` -/
  | oom (delta : Int)
  /-- `free_slot` on a thread with local state: `prev` is the old local head; `handover`: the head
  pushed onto the shared stack and the value added to `node_count` -/
  | freed (prev : Nat) (handover : Option (Nat × Int))
  /-- `return_slot` -/
  | foreignFreed (prev : Nat)
  | gcHandOver (head : Nat) (delta : Int)
  | sessionEnd (returned : Bool) (head start stop : Nat) (delta : Int)
  deriving DecidableEq, Repr

/-! ## state access -/

def State.cell (s : State) (id : Nat) : Cell := s.mem.getD id .uninit

def State.loc (s : State) (t : Nat) : Local := s.locals.getD t {}

def State.valid (s : State) (t : Nat) : Bool := decide (t < s.locals.length)

def State.setCell (s : State) (id : Nat) (c : Cell) : State :=
  { s with mem := s.mem.setIfInBounds id c }

def State.setLoc (s : State) (t : Nat) (l : Local) : State :=
  { s with locals := s.locals.set t l }

/-- the store right after `new_manager` allocated it, with `n` threads that have never touched it -/
def State.init (c : Cfg) (n : Nat) : State :=
  { mem := Array.replicate (c.terms + c.cap) .uninit
    stack := []
    allocated := 0
    count := 0
    gc := if c.lwm < c.hwm then .init else .disabled
    locals := List.replicate n {}
    drift := 0 }

/-! ## the code -/

/-- `use_free_slot`: the `next_free` link stored in the slot. (Reading the link of a slot that is
not free is undefined in the code; the model returns 0 — `Inv` excludes the case.) -/
def useFreeSlot (s : State) (id : Nat) : Nat :=
  match s.cell id with
  | .free n => n
  | _ => 0

/-- the first lines of `get_slot_from_shared`: `shared.node_count += delta` and the high water
mark test -/
def bumpCount (c : Cfg) (s : State) (delta : Int) : State :=
  { s with count := s.count + delta,
           gc := if s.gc = .init ∧ s.count + delta ≥ (c.hwm : Int) then .triggered else s.gc }

/-- the rest of `get_slot_from_shared` (`delta` only for the report) -/
def takeFromShared (c : Cfg) (s : State) (t : Nat) (delta : Int) : State × Obs :=
  let l := s.loc t
  if l.cur then
    match s.stack with
    | id :: rest =>
      let nx := useFreeSlot s id
      (({ s with stack := rest }.setCell id .live).setLoc t { l with next := nx },
        .alloc id .sharedList nx)
    | [] =>
      let index := s.allocated
      if index + c.chunk < c.cap then
        (({ s with allocated := (index / c.chunk + 1) * c.chunk }.setCell (index + c.terms) .live).setLoc
            t { l with init := index + 1 },
          .alloc (index + c.terms) .chunk (index + 1))
      else if index < c.cap then
        ({ s with allocated := index + 1 }.setCell (index + c.terms) .live,
          .alloc (index + c.terms) .single 0)
      else
        (if c.fixCount then { s with count := s.count - 1 } else { s with drift := s.drift + 1 },
          .oom delta)
  else
    match s.stack with
    | id :: rest =>
      let nx := useFreeSlot s id
      ({ s with stack := if nx ≠ 0 then nx :: rest else rest }.setCell id .live,
        .alloc id .foreignList nx)
    | [] =>
      let index := s.allocated
      if index ≥ c.cap then
        (if c.fixCount then { s with count := s.count - 1 } else { s with drift := s.drift + 1 },
          .oom delta)
      else
        ({ s with allocated := index + 1 }.setCell (index + c.terms) .live,
          .alloc (index + c.terms) .foreignSingle 0)

/-- `get_slot_from_shared(local, delta)` -/
def getSlotFromShared (c : Cfg) (s : State) (t : Nat) (delta : Int) : State × Obs :=
  takeFromShared c (bumpCount c s delta) t delta

/-- `add_node` (the slot is filled with the node right away) -/
def addNode (c : Cfg) (s : State) (t : Nat) : State × Obs :=
  let l := s.loc t
  if l.cur then
    let delta := l.delta + 1
    let id := l.next
    if id ≠ 0 then
      let nx := useFreeSlot s id
      ((s.setCell id .live).setLoc t { l with next := nx, delta := delta }, .alloc id .localList nx)
    else
      let index := l.init
      if index % c.chunk ≠ 0 then
        ((s.setCell (index + c.terms) .live).setLoc t { l with init := index + 1, delta := delta },
          .alloc (index + c.terms) .localChunk (index + 1))
      else
        getSlotFromShared c (s.setLoc t { l with delta := 0 }) t delta
  else
    getSlotFromShared c s t 1

/-- `free_slot(slot, id)`; the caller guarantees that the slot contains a node -/
def freeSlot (c : Cfg) (s : State) (t : Nat) (id : Nat) : State × Obs :=
  let l := s.loc t
  if l.cur then
    let s1 := s.setCell id (.free l.next)
    let delta := l.delta - 1
    if delta > -(c.chunk : Int) then
      (s1.setLoc t { l with next := id, delta := delta }, .freed l.next none)
    else
      -- `shared.next_free.push(state.next_free.replace(0));`
      -- `shared.node_count += state.node_count_delta.replace(0)`  (the *old* delta)
      let added := if c.fixCount then delta else l.delta
      ({ s1 with stack := id :: s1.stack, count := s1.count + added,
                 drift := if c.fixCount then s1.drift else s1.drift + 1 }.setLoc
          t { l with next := 0, delta := 0 },
        .freed l.next (some (id, added)))
  else
    -- `return_slot`
    let prev := s.stack.headD 0
    ({ s.setCell id (.free prev) with stack := id :: s.stack.tail, count := s.count - 1 },
      .foreignFreed prev)

/-- `for (slot, next_id) in slots[start..end-1].zip(start+terminals+1..) { slot.next_free = next_id }`:
`n` cells from id `a` on are linked to their successors -/
def linkRange (m : Array Cell) (a : Nat) : Nat → Array Cell
  | 0 => m
  | n + 1 => linkRange (m.setIfInBounds a (.free (a + 1))) (a + 1) n

/-- `return_preallocated` -/
def returnPreallocated (c : Cfg) (s : State) (t : Nat) : State × Obs :=
  let l := s.loc t
  let start := l.init
  if start % c.chunk ≠ 0 then
    let stop := (start / c.chunk + 1) * c.chunk
    let mem := linkRange (s.mem.setIfInBounds (stop - 1 + c.terms) (.free l.next)) (start + c.terms)
      (stop - 1 - start)
    let head := start + c.terms
    ({ s with mem := mem, stack := head :: s.stack, count := s.count + l.delta }.setLoc
        t { l with delta := 0 },
      .sessionEnd true head start stop l.delta)
  else
    let head := l.next
    ({ s with stack := if head ≠ 0 then head :: s.stack else s.stack,
              count := s.count + l.delta }.setLoc t { l with delta := 0 },
      .sessionEnd true head start start l.delta)

/-- `impl Drop for LocalStoreStateGuard` -/
def guardDrop (c : Cfg) (s : State) (t : Nat) : State × Obs :=
  let l := s.loc t
  let s0 := s.setLoc t { l with cur := false }
  if l.next ≠ 0 ∨ l.init % c.chunk ≠ 0 ∨ l.delta ≠ 0 then
    returnPreallocated c s0 t
  else
    (s0, .sessionEnd false 0 l.init l.init 0)

/-- the gc thread after `Manager::gc`, first part: the local list (if any) is handed over.
Returns the head pushed (0: none) and the value added to `node_count`. -/
def gcPublish (s : State) (t : Nat) : State × Nat × Int :=
  let l := s.loc t
  if l.next ≠ 0 then
    ({ s with count := s.count + l.delta, stack := l.next :: s.stack }.setLoc
        t { l with next := 0, delta := 0 }, l.next, l.delta)
  else (s, 0, 0)

def State.setGc (s : State) (g : GcState) : State := { s with gc := g }

/-- `if shared.node_count < shared.gc_lwm && shared.gc_state != Disabled { gc_state = Init }` -/
def lwmCheck (c : Cfg) (s : State) : State :=
  s.setGc (if s.count < (c.lwm : Int) ∧ s.gc ≠ .disabled then .init else s.gc)

/-- the gc thread after `Manager::gc` -/
def gcAfter (c : Cfg) (s : State) (t : Nat) : State × Obs :=
  let r := gcPublish s t
  (lwmCheck c r.1, .gcHandOver r.2.1 r.2.2)

/-- **One atomic step.** `none`: the operation is not possible in this state (unknown thread,
`prepare_local_state` while `current_store ≠ 0` creates no guard, a guard is dropped only by the
thread that holds one, `free_slot` needs a slot that contains a node, only a fresh thread is
attached). -/
def step (c : Cfg) (s : State) : Op → Option (State × Obs)
  | .attach t =>
    if s.valid t ∧ s.loc t = {} then some (s.setLoc t { s.loc t with cur := true }, .none) else none
  | .sessionBegin t =>
    if s.valid t ∧ (s.loc t).cur = false then
      some (s.setLoc t { s.loc t with next := 0, init := 0, cur := true }, .none)
    else none
  | .alloc t => if s.valid t then some (addNode c s t) else none
  | .free t id => if s.valid t ∧ s.cell id = .live then some (freeSlot c s t id) else none
  | .gcHandOver t => if s.valid t ∧ (s.loc t).cur then some (gcAfter c s t) else none
  | .sessionEnd t => if s.valid t ∧ (s.loc t).cur then some (guardDrop c s t) else none

/-- `step` as a total function that hands the state back when the operation is impossible (the
form the compiled driver uses: the state is threaded linearly, so the slot array is updated in
place) -/
def stepT (c : Cfg) (s : State) : Op → State × Option Obs
  | .attach t =>
    if s.valid t ∧ s.loc t = {} then (s.setLoc t { s.loc t with cur := true }, some .none) else (s, none)
  | .sessionBegin t =>
    if s.valid t ∧ (s.loc t).cur = false then
      (s.setLoc t { s.loc t with next := 0, init := 0, cur := true }, some .none)
    else (s, none)
  | .alloc t => if s.valid t then (let r := addNode c s t; (r.1, some r.2)) else (s, none)
  | .free t id =>
    if s.valid t ∧ s.cell id = .live then (let r := freeSlot c s t id; (r.1, some r.2)) else (s, none)
  | .gcHandOver t =>
    if s.valid t ∧ (s.loc t).cur then (let r := gcAfter c s t; (r.1, some r.2)) else (s, none)
  | .sessionEnd t =>
    if s.valid t ∧ (s.loc t).cur then (let r := guardDrop c s t; (r.1, some r.2)) else (s, none)

theorem stepT_eq (c : Cfg) (s : State) (op : Op) :
    stepT c s op = match step c s op with
      | some (s', o) => (s', some o)
      | none => (s, none) := by
  cases op <;> simp only [stepT, step] <;> split <;> rfl

/-- a run: the operations of all threads in the order in which they take effect -/
def run (c : Cfg) (s : State) : List Op → Option State
  | [] => some s
  | op :: ops =>
    match step c s op with
    | some (s', _) => run c s' ops
    | none => none

/-- the run together with what it lets the outside see -/
def runObs (c : Cfg) (s : State) : List Op → Option (State × List Obs)
  | [] => some (s, [])
  | op :: ops =>
    match step c s op with
    | some (s', o) =>
      match runObs c s' ops with
      | some (s'', os) => some (s'', o :: os)
      | none => none
    | none => none

/-! ## derived quantities -/

/-- number of slots that contain a node -/
def State.liveCount (s : State) : Nat := s.mem.toList.count .live

/-- `Σ node_count_delta` over all threads -/
def State.deltaSum (s : State) : Int := (s.locals.map (·.delta)).sum

/-- no thread has the store as its `current_store` -/
def State.quiescent (s : State) : Prop := ∀ t, (s.loc t).cur = false

/-- only thread `t` may have the store as its `current_store` -/
def State.onlyThread (s : State) (t : Nat) : Prop := ∀ u, u ≠ t → (s.loc u).cur = false

/-- end of the range pre-allocated for a thread whose `initialized` is `i` -/
def chunkEnd (c : Cfg) (i : Nat) : Nat := if i % c.chunk = 0 then i else (i / c.chunk + 1) * c.chunk

/-! ## the three seeded defects, as variant steps (negative witnesses only) -/

/-- (a) `free_slot` publishes the local list but keeps its head
(`shared.next_free.push(state.next_free.get())`) -/
def freeSlotA (c : Cfg) (s : State) (t : Nat) (id : Nat) : State × Obs :=
  let l := s.loc t
  if l.cur then
    let s1 := s.setCell id (.free l.next)
    let delta := l.delta - 1
    if delta > -(c.chunk : Int) then
      (s1.setLoc t { l with next := id, delta := delta }, .freed l.next none)
    else
      let added := if c.fixCount then delta else l.delta
      ({ s1 with stack := id :: s1.stack, count := s1.count + added,
                 drift := if c.fixCount then s1.drift else s1.drift + 1 }.setLoc
          t { l with next := id, delta := 0 },
        .freed l.next (some (id, added)))
  else freeSlot c s t id

/-- (b) the gc thread keeps the head it handed over (`local.next_free.get()`) -/
def gcAfterB (c : Cfg) (s : State) (t : Nat) : State × Obs :=
  let l := s.loc t
  let r : State × Nat × Int :=
    if l.next ≠ 0 then
      ({ s with count := s.count + l.delta, stack := l.next :: s.stack }.setLoc
          t { l with delta := 0 }, l.next, l.delta)
    else (s, 0, 0)
  (lwmCheck c r.1, .gcHandOver r.2.1 r.2.2)

/-- (c) the guard's drop ignores a non-empty local list -/
def guardDropC (c : Cfg) (s : State) (t : Nat) : State × Obs :=
  let l := s.loc t
  let s0 := s.setLoc t { l with cur := false }
  if l.init % c.chunk ≠ 0 ∨ l.delta ≠ 0 then
    returnPreallocated c s0 t
  else
    (s0, .sessionEnd false 0 l.init l.init 0)

inductive Variant where
  | faithful
  | doublePublish
  | gcKeepsHead
  | guardIgnoresList
  deriving DecidableEq, Repr

/-- `step` with one of the seeded defects -/
def stepV (v : Variant) (c : Cfg) (s : State) : Op → Option (State × Obs)
  | .free t id =>
    if s.valid t ∧ s.cell id = .live then
      some (if v = .doublePublish then freeSlotA c s t id else freeSlot c s t id)
    else none
  | .gcHandOver t =>
    if s.valid t ∧ (s.loc t).cur then
      some (if v = .gcKeepsHead then gcAfterB c s t else gcAfter c s t)
    else none
  | .sessionEnd t =>
    if s.valid t ∧ (s.loc t).cur then
      some (if v = .guardIgnoresList then guardDropC c s t else guardDrop c s t)
    else none
  | op => step c s op

def runV (v : Variant) (c : Cfg) (s : State) : List Op → Option State
  | [] => some s
  | op :: ops =>
    match stepV v c s op with
    | some (s', _) => runV v c s' ops
    | none => none

end OxiddModel.Alloc
