import OxiddModel.Alloc.LemmasProps

/-!
# The node-slot allocator of the index manager: headline theorems (C05, C14, C07)

Model: `Alloc/Model.lean` (`step`, one atomic operation of one thread; `run`, any interleaving).
Invariant: `Inv` (`Alloc/LemmasStep.lean`) = lists (`ListInv`) + reservations (`ResInv`) +
accounting (`InvC`).

Property texts concerned:
* C05 "… once all handles are dropped a collection returns the manager to its initial node count
  with its full node capacity available again" — `no_slot_lost`, `full_capacity_again`;
* C14 "… once space has been freed the same operation succeeds" — `alloc_fails_iff_exhausted`,
  `alloc_succeeds_single_session`, `oom_means_every_slot_live`;
* C07 (concurrent correctness) — all theorems hold for every interleaving of the atomic steps of
  any number of threads (`invariant_all_interleavings`); `alloc_never_returns_live_slot`,
  `live_slot_stable`: no live node is ever overwritten.

The three seeded defects that lived in this code are formalised as variant steps (`stepV`) and
refuted by concrete runs at the end of the file.
-/
namespace OxiddModel.Alloc

/-! ## small instances for the non-vacuity examples -/

/-- 10 slots, chunks of 4, one terminal -/
def cfgE : Cfg := { cap := 10, chunk := 4, terms := 1 }

/-- thread 0 allocates six nodes and ends its session (a partly used chunk is returned as a list),
then thread 1 (attached for good, like the gc thread) frees three nodes and hands its list over -/
def opsE : List Op :=
  [.sessionBegin 0, .alloc 0, .alloc 0, .alloc 0, .alloc 0, .alloc 0, .alloc 0, .sessionEnd 0,
   .attach 1, .free 1 2, .free 1 4, .free 1 5, .gcHandOver 1]

/-- the state after `opsE` from the initial state with 2 threads -/
def stE : State := (run cfgE (State.init cfgE 2) opsE).getD (State.init cfgE 2)

theorem eq_some_getD {α : Type} {o : Option α} (d : α) (h : o.isSome = true) : o = some (o.getD d) := by
  cases o with
  | none => cases h
  | some x => rfl

/-- from the observation of a step to the step -/
theorem step_of_obs {c : Cfg} {s : State} {op : Op} {o : Obs} (h : (step c s op).map (·.2) = some o) :
    ∃ s', step c s op = some (s', o) := by
  cases hs : step c s op with
  | none => rw [hs] at h; cases h
  | some r =>
    obtain ⟨s', o'⟩ := r
    rw [hs] at h
    simp only [Option.map_some, Option.some.injEq] at h
    exact ⟨s', by rw [h]⟩

instance (c : Cfg) (lc : Nat → Local) (t id : Nat) : Decidable (Res c lc t id) := by
  unfold Res; infer_instance

theorem run_opsE : run cfgE (State.init cfgE 2) opsE = some stE := eq_some_getD _ (by decide)

theorem inv_stE : Inv cfgE stE := inv_reachable (by decide) (by decide) run_opsE

/-! ## 1. the invariant holds on every interleaving -/

/-- **The invariant is established by `new_manager` and preserved by every atomic step of every
thread** — hence it holds after any interleaving of the operations of any number of threads
(`run` takes the operations in an arbitrary order; an operation that is impossible in the current
state, e.g. freeing a slot that holds no node, ends the run). -/
theorem invariant_all_interleavings (c : Cfg) (n : Nat) (hterms : 0 < c.terms) (hchunk : 0 < c.chunk) :
    Inv c (State.init c n) ∧
    (∀ s s' op o, Inv c s → step c s op = some (s', o) → Inv c s') ∧
    (∀ ops s, run c (State.init c n) ops = some s → Inv c s) :=
  ⟨inv_init c n hterms hchunk, fun _ _ _ _ h hs => inv_step h hs,
    fun _ _ hr => inv_reachable hterms hchunk hr⟩

example : Inv cfgE stE ∧ stE.stack = [5, 7] ∧ stE.cell 5 = .free 4 ∧ stE.cell 2 = .free 0 ∧ stE.liveCount = 3 :=
  ⟨inv_stE, by decide, by decide, by decide, by decide⟩

/-- **Every free list is a well-formed linked list and the lists partition the free slots.** Under
the invariant there are lists `sl` (one per entry of the shared stack, in stack order) and `ll t`
(one per thread) such that: every stack entry is the head of the chain `sl[k]` (non-empty, all
members free, links followed to `0`: *acyclic*), the local head of a thread with local state is the
head of the chain `ll t` (a thread without local state owns nothing); every list is
*duplicate-free*; all lists are *pairwise disjoint*; and the members of the lists are *exactly the
free slots* — in particular no list contains a live slot and no free slot is outside every list. -/
theorem free_lists_wellformed {c : Cfg} {s : State} (h : Inv c s) :
    ∃ (sl : List (List Nat)) (ll : Nat → List Nat),
      StackOK s.cell s.stack sl ∧
      (∀ t, (s.loc t).cur = true → Chain s.cell (s.loc t).next (ll t)) ∧
      (∀ t, (s.loc t).cur = false → ll t = []) ∧
      (∀ l ∈ sl, l.Nodup) ∧ (∀ t, (ll t).Nodup) ∧
      sl.Pairwise Disj ∧ (∀ l ∈ sl, ∀ t, Disj l (ll t)) ∧ (∀ t u, t ≠ u → Disj (ll t) (ll u)) ∧
      (∀ id, ((∃ l ∈ sl, id ∈ l) ∨ ∃ t, id ∈ ll t) ↔ ∃ n, s.cell id = .free n) := by
  obtain ⟨⟨g, hL⟩, _⟩ := h
  refine ⟨g.sl, g.ll, hL.lists.stack, hL.lists.loc_chain, hL.lists.loc_nil, hL.lists.stack.nodup, ?_,
    hL.lists.sl_disj, hL.lists.sl_ll, hL.lists.ll_ll, ?_⟩
  · intro t
    cases hc : (s.loc t).cur with
    | true => exact (hL.lists.loc_chain t hc).nodup
    | false => rw [hL.lists.loc_nil t hc]; exact List.nodup_nil
  · intro id
    constructor
    · rintro (⟨l, hl, hm⟩ | ⟨t, hm⟩)
      · exact (hL.lists.shared_free l hl id hm).2
      · exact (hL.lists.local_free t id hm).2
    · intro ⟨n, hn⟩; exact hL.lists.free_in id n hn

example : ∃ (sl : List (List Nat)) (ll : Nat → List Nat), StackOK stE.cell stE.stack sl ∧
    (∀ l ∈ sl, l.Nodup) ∧ sl.Pairwise Disj :=
  let ⟨sl, ll, h1, _, _, h4, _, h6, _⟩ := free_lists_wellformed inv_stE
  ⟨sl, ll, h1, h4, h6⟩

/-- **Every slot is exactly one of: live; free (member of exactly one list, see
`free_lists_wellformed`); pre-allocated for exactly one thread; not yet allocated.** For a slot id
`terms ≤ id < terms + cap` exactly one of the four alternatives holds (they are mutually exclusive:
the three cell states are distinct and the last two are separated by `allocated`). -/
theorem slot_classification {c : Cfg} {s : State} (h : Inv c s) (id : Nat) (h1 : c.terms ≤ id)
    (_h2 : id < c.terms + c.cap) :
    (s.cell id = .live ∧ id < s.allocated + c.terms ∧ ∀ t, ¬ Res c s.loc t id) ∨
    ((∃ n, s.cell id = .free n) ∧ id < s.allocated + c.terms ∧ ∀ t, ¬ Res c s.loc t id) ∨
    (s.cell id = .uninit ∧ id < s.allocated + c.terms ∧
      ∃ t, Res c s.loc t id ∧ ∀ u, Res c s.loc u id → u = t) ∨
    (s.cell id = .uninit ∧ s.allocated + c.terms ≤ id ∧ ∀ t, ¬ Res c s.loc t id) := by
  obtain ⟨⟨g, hL⟩, _⟩ := h
  by_cases hlt : id < s.allocated + c.terms
  · have hiff := hL.res.uninit_iff id h1 hlt
    cases hc : s.cell id with
    | live =>
      refine Or.inl ⟨rfl, hlt, fun t ht => ?_⟩
      have := hiff.2 ⟨t, ht⟩; rw [hc] at this; cases this
    | free n =>
      refine Or.inr (Or.inl ⟨⟨n, rfl⟩, hlt, fun t ht => ?_⟩)
      have := hiff.2 ⟨t, ht⟩; rw [hc] at this; cases this
    | uninit =>
      obtain ⟨t, ht⟩ := hiff.1 hc
      exact Or.inr (Or.inr (Or.inl ⟨rfl, hlt, t, ht, fun u hu => hL.res.res_unique u t id hu ht⟩))
  · refine Or.inr (Or.inr (Or.inr ⟨hL.res.outside id (Or.inr (by omega)), by omega, fun t ht => ?_⟩))
    have := hL.res.res_le t ht.1
    have := ht.2.2
    omega

/-- state with an open session of thread 0 that has two pre-allocated slots left -/
def opsF : List Op := [.sessionBegin 0, .alloc 0, .alloc 0]
def stF : State := (run cfgE (State.init cfgE 2) opsF).getD (State.init cfgE 2)

example : Inv cfgE stF ∧ Res cfgE stF.loc 0 3 ∧ stF.cell 3 = .uninit ∧ stF.cell 2 = .live ∧ stF.allocated = 4 :=
  ⟨inv_reachable (by decide) (by decide)
      (show run cfgE (State.init cfgE 2) opsF = some stF from eq_some_getD _ (by decide)),
    by decide, by decide, by decide, by decide⟩

/-! ## 2. no live node is overwritten -/

/-- **`alloc` returns a slot that is not live**, makes exactly this slot live and leaves every
other slot as it is. (The slot is the head of a free list — a free cell — or an uninitialised
cell.) -/
theorem alloc_never_returns_live_slot {c : Cfg} {s s' : State} {t id nx : Nat} {src : Source}
    (h : Inv c s) (hs : step c s (.alloc t) = some (s', .alloc id src nx)) :
    s.cell id ≠ .live ∧ s'.cell id = .live ∧ ∀ j, j ≠ id → s'.cell j = s.cell j := by
  obtain ⟨hnl, _, hcell⟩ := alloc_step_facts h hs
  refine ⟨hnl, by rw [hcell]; simp, fun j hj => by rw [hcell, upd_ne _ _ hj]⟩

example : (∃ s', step cfgE stE (.alloc 0) = some (s', .alloc 5 .foreignList 4)) ∧ stE.cell 5 = .free 4 :=
  ⟨step_of_obs (by decide), by decide⟩

/-- **A live slot stays live until it is freed** (by the `free_slot` call for this very slot), and
a slot becomes live only by being handed out: no operation of any thread overwrites a node. -/
theorem live_slot_stable {c : Cfg} {s s' : State} {op : Op} {o : Obs} (h : Inv c s)
    (hs : step c s op = some (s', o)) :
    (∀ j, s.cell j = .live → s'.cell j = .live ∨ op = .free op.thread j) ∧
    (∀ j, s'.cell j = .live → s.cell j = .live ∨ ∃ src nx, o = .alloc j src nx) :=
  ⟨(step_spec h hs).2.live_stable, (step_spec h hs).2.live_new⟩

example : (∃ s', step cfgE stE (.free 0 3) = some (s', .foreignFreed 5)) ∧ stE.cell 3 = .live :=
  ⟨step_of_obs (by decide), by decide⟩

/-! ## 3. accounting -/

/-- **`node_count` at quiescent points.** When no thread has the store as its current store the
shared counter is the number of live slots plus `drift`, the number of counter updates the code
has lost so far (`drift_counts_lost_updates`). -/
theorem count_at_quiescence {c : Cfg} {s : State} (h : Inv c s) (hq : s.quiescent) :
    s.count = (s.liveCount : Int) + (s.drift : Int) := by
  have hz : s.deltaSum = 0 := deltaSum_zero (fun t => h.2.idle t (hq t))
  have := h.2.count
  omega

/-- in general (threads with pending deltas): the counter plus the pending deltas -/
theorem count_plus_deltas {c : Cfg} {s : State} (h : Inv c s) :
    s.count + s.deltaSum = (s.liveCount : Int) + (s.drift : Int) := h.2.count

def stQ : State := (run cfgE (State.init cfgE 2) (opsE.take 8)).getD (State.init cfgE 2)

example : Inv cfgE stQ ∧ stQ.quiescent ∧ stQ.count = 6 ∧ stQ.liveCount = 6 :=
  ⟨inv_reachable (by decide) (by decide)
      (show run cfgE (State.init cfgE 2) (opsE.take 8) = some stQ from eq_some_getD _ (by decide)),
    by decide, by decide, by decide⟩

/-- **`drift` is exactly the number of failed allocations plus the number of hand-overs inside
`free_slot`** seen so far — and stays 0 with the proposed patch (`fixCount`). Together with
`count_at_quiescence`: with the patch, or on a run without such events, `node_count = #live` at
quiescent points. -/
theorem drift_counts_lost_updates {c : Cfg} {n : Nat} {ops : List Op} {s : State} {os : List Obs}
    (hr : runObs c (State.init c n) ops = some (s, os)) :
    s.drift = if c.fixCount then 0 else driftOf os := by
  have := drift_runObs hr
  simpa [State.init] using this

/-- the full statement "`node_count = #live` at quiescent points" holds with the patch … -/
theorem count_exact_fixed {c : Cfg} {n : Nat} {ops : List Op} {s : State} {os : List Obs}
    (hterms : 0 < c.terms) (hchunk : 0 < c.chunk) (hfix : c.fixCount = true)
    (hr : runObs c (State.init c n) ops = some (s, os)) (hrun : run c (State.init c n) ops = some s)
    (hq : s.quiescent) : s.count = (s.liveCount : Int) := by
  have hd := drift_counts_lost_updates hr
  have := count_at_quiescence (inv_reachable hterms hchunk hrun) hq
  simp only [hfix, ↓reduceIte] at hd
  omega

/-- … and **fails for the code as it is**: after an out-of-memory failure (thread 0 tries an 11th
node in a store of 10) and the end of the session `node_count` is 11 while 10 slots are live.
(`…_partial`: `count_at_quiescence` with `drift = 0`.) -/
theorem count_exact_fails_unpatched :
    ∃ s, run cfgE (State.init cfgE 1) (.sessionBegin 0 :: List.replicate 11 (.alloc 0) ++ [.sessionEnd 0]) = some s ∧
      s.quiescent ∧ s.count = 11 ∧ s.liveCount = 10 :=
  ⟨_, eq_some_getD (State.init cfgE 1) (by decide), by decide, by decide, by decide⟩

/-- the same run with the patch -/
example : ∃ s, run { cfgE with fixCount := true } (State.init cfgE 1)
      (.sessionBegin 0 :: List.replicate 11 (.alloc 0) ++ [.sessionEnd 0]) = some s ∧ s.count = 10 :=
  ⟨_, eq_some_getD (State.init cfgE 1) (by decide), by decide⟩

/-- a hand-over inside `free_slot` loses one decrement (chunk size 2: the second free hands over) -/
theorem count_exact_fails_unpatched_handover :
    ∃ s, run { cap := 8, chunk := 2, terms := 1 } (State.init { cap := 8, chunk := 2, terms := 1 } 1)
        [.sessionBegin 0, .alloc 0, .alloc 0, .sessionEnd 0, .sessionBegin 0, .free 0 1, .free 0 2,
         .sessionEnd 0] = some s ∧ s.quiescent ∧ s.count = 1 ∧ s.liveCount = 0 :=
  ⟨_, eq_some_getD (State.init cfgE 1) (by decide), by decide, by decide, by decide⟩

/-- **No slot is lost.** At a quiescent point every slot is live, or a member of a list on the
shared stack, or not yet allocated: `#live + #free-in-shared-lists + #never-allocated = capacity`,
where the shared lists `sl` are duplicate-free as a whole and contain exactly the free slots. -/
theorem no_slot_lost {c : Cfg} {s : State} (h : Inv c s) (hq : s.quiescent) :
    ∃ sl : List (List Nat), StackOK s.cell s.stack sl ∧ sl.flatten.Nodup ∧
      (∀ id, id ∈ sl.flatten ↔ ∃ n, s.cell id = .free n) ∧
      s.liveCount + sl.flatten.length + (c.cap - s.allocated) = c.cap := by
  obtain ⟨⟨g, hL⟩, _⟩ := h
  have hll : ∀ t, g.ll t = [] := fun t => hL.lists.loc_nil t (hq t)
  have hnd : g.sl.flatten.Nodup := nodup_flatten_of hL.lists.stack.nodup hL.lists.sl_disj
  have hmem : ∀ id, id ∈ g.sl.flatten ↔ ∃ n, s.cell id = .free n := by
    intro id
    rw [List.mem_flatten]
    constructor
    · intro ⟨l, hl, hm⟩; exact (hL.lists.shared_free l hl id hm).2
    · intro ⟨n, hn⟩
      rcases hL.lists.free_in id n hn with hs | ⟨t, ht⟩
      · exact hs
      · rw [hll t] at ht; cases ht
  refine ⟨g.sl, hL.lists.stack, hnd, hmem, ?_⟩
  have hpart := cnt_partition s.cell s.mem.size
  rw [← liveCount_eq_cnt] at hpart
  have hfree : g.sl.flatten.length = cnt (fun i => isFree (s.cell i)) s.mem.size := by
    apply length_eq_cnt hnd
    intro x
    rw [hmem x]
    constructor
    · intro ⟨n, hn⟩
      exact ⟨lt_size_of_cell_ne s x (by rw [hn]; simp), by rw [hn]; rfl⟩
    · intro ⟨_, hx⟩
      cases hc : s.cell x with
      | free n => exact ⟨n, rfl⟩
      | uninit => rw [hc] at hx; cases hx
      | live => rw [hc] at hx; cases hx
  have hun : cnt (fun i => s.cell i == .uninit) s.mem.size = c.terms + (c.cap - s.allocated) := by
    have : cnt (fun i => s.cell i == .uninit) s.mem.size =
        cnt (fun i => decide (i < c.terms ∨ s.allocated + c.terms ≤ i)) s.mem.size := by
      apply cnt_congr
      intro i _
      by_cases hin : i < c.terms ∨ s.allocated + c.terms ≤ i
      · rw [hL.res.outside i hin]; simp [hin]
      · have hne : s.cell i ≠ .uninit := by
          intro hu
          obtain ⟨t, ht⟩ := (hL.res.uninit_iff i (by omega) (by omega)).1 hu
          have := ht.1; rw [hq t] at this; cases this
        have : (s.cell i == Cell.uninit) = false := by simpa using hne
        simp [hin, this]
    rw [this, cnt_outside _ _ _ (by omega), hL.size]
    have := hL.alloc_le
    simp only [Nat.min_def]
    split <;> omega
  rw [hL.size] at hpart hfree hun
  omega

def stG : State := (run cfgE (State.init cfgE 2) (opsE ++ [.sessionEnd 1])).getD (State.init cfgE 2)

theorem inv_stG : Inv cfgE stG :=
  inv_reachable (by decide) (by decide)
    (show run cfgE (State.init cfgE 2) (opsE ++ [.sessionEnd 1]) = some stG from eq_some_getD _ (by decide))

example : Inv cfgE stG ∧ stG.quiescent ∧ stG.liveCount = 3 ∧ stG.allocated = 8 ∧ stG.stack = [5, 7] :=
  ⟨inv_stG, by decide, by decide, by decide, by decide⟩

/-! ## 4. out of memory -/

/-- **When exactly `alloc` fails.** A thread with local state fails iff its local list is empty,
it has no pre-allocated slot left, the shared stack is empty and nothing is left to allocate; a
thread without local state iff the shared stack is empty and nothing is left to allocate. Free
slots in the local lists / pre-allocated ranges of *other* threads with an open session are not
available to the caller (`oom_with_free_slots_elsewhere`). -/
theorem alloc_fails_iff_exhausted {c : Cfg} {s : State} (h : Inv c s) {t : Nat} (ht : t < s.locals.length) :
    (∃ d, (addNode c s t).2 = .oom d) ↔
      (((s.loc t).cur = true → (s.loc t).next = 0 ∧ (s.loc t).init % c.chunk = 0) ∧
        s.stack = [] ∧ c.cap ≤ s.allocated) := by
  constructor
  · intro ⟨d, hd⟩; exact oom_conditions hd
  · intro ⟨hpre, hst, hcap⟩
    rcases addNode_obs h ht with ⟨id, src, nx, ha⟩ | hd
    · -- the slot handed out would be a cell that is not live; show there is none to take
      exfalso
      obtain ⟨⟨g, hL⟩, hC⟩ := h
      have hp := (addNode_spec hL hC ht).2.2.1
      rw [ha] at hp
      obtain ⟨hnl, hlt, _⟩ := hp
      -- determine the source by unfolding
      unfold addNode at ha
      by_cases hc : (s.loc t).cur = true
      · obtain ⟨hn, hm⟩ := hpre hc
        simp only [hc, ↓reduceIte, hn, ne_eq, not_true_eq_false, hm] at ha
        unfold getSlotFromShared takeFromShared at ha
        have hcur : ((bumpCount c (s.setLoc t { next := 0, init := (s.loc t).init, delta := 0, cur := true })
            ((s.loc t).delta + 1)).loc t).cur = true := by
          show ((s.setLoc t _).loc t).cur = true
          rw [locfun_setLoc _ _ _ ht]; simp
        simp only [hcur, ↓reduceIte] at ha
        have hst' : (bumpCount c (s.setLoc t { next := 0, init := (s.loc t).init, delta := 0, cur := true })
            ((s.loc t).delta + 1)).stack = [] := hst
        have hal : (bumpCount c (s.setLoc t { next := 0, init := (s.loc t).init, delta := 0, cur := true })
            ((s.loc t).delta + 1)).allocated = s.allocated := rfl
        rw [hst', hal] at ha
        have h1 : ¬ (s.allocated + c.chunk < c.cap) := by omega
        have h2 : ¬ (s.allocated < c.cap) := by omega
        simp [h1, h2] at ha
      · simp only [hc, Bool.false_eq_true, ↓reduceIte] at ha
        unfold getSlotFromShared takeFromShared at ha
        have hcur : ((bumpCount c s 1).loc t).cur = (s.loc t).cur := rfl
        simp only [hcur, hc, Bool.false_eq_true, ↓reduceIte] at ha
        have hst' : (bumpCount c s 1).stack = [] := hst
        have hal : (bumpCount c s 1).allocated = s.allocated := rfl
        rw [hst', hal] at ha
        have h2 : s.allocated ≥ c.cap := hcap
        simp [h2] at ha
    · exact hd

/-- **Out of memory ⇒ no free slot anywhere**, provided at most the caller has an open session
(quiescent / single-session state): every slot of the store is live. -/
theorem oom_means_every_slot_live {c : Cfg} {s s' : State} {t : Nat} {d : Int} (h : Inv c s)
    (hot : s.onlyThread t) (hs : step c s (.alloc t) = some (s', .oom d)) :
    (∀ id, c.terms ≤ id → id < c.terms + c.cap → s.cell id = .live) ∧ s.liveCount = c.cap := by
  obtain ⟨_, e⟩ := ite_some_eq hs
  have hoom : (addNode c s t).2 = .oom d := by rw [e]
  have hall := oom_all_live h hot hoom
  exact ⟨hall, liveCount_of_all_live h hall⟩

example : ∃ s, run cfgE (State.init cfgE 1) (.sessionBegin 0 :: List.replicate 10 (.alloc 0)) = some s ∧
    s.onlyThread 0 ∧ (∃ s', step cfgE s (.alloc 0) = some (s', .oom 1)) ∧ s.liveCount = 10 :=
  ⟨_, eq_some_getD (State.init cfgE 1) (by decide), by decide, step_of_obs (by decide), by decide⟩

/-- **With open sessions of other threads a failure can happen while free slots exist**: thread 1
has reserved the chunk `[0, 4)` and used one slot of it; thread 0 gets the single slots 4 and 5 and
is then out of memory although the slots 1, 2, 3 are unused (they are pre-allocated for thread 1). -/
theorem oom_with_free_slots_elsewhere :
    ∃ s, run { cap := 6, chunk := 4, terms := 1 } (State.init { cap := 6, chunk := 4, terms := 1 } 2)
        [.sessionBegin 1, .alloc 1, .sessionBegin 0, .alloc 0, .alloc 0] = some s ∧
      (∃ s', step { cap := 6, chunk := 4, terms := 1 } s (.alloc 0) = some (s', .oom 1)) ∧
      s.cell 2 = .uninit ∧ s.liveCount = 3 :=
  ⟨_, eq_some_getD (State.init cfgE 1) (by decide), step_of_obs (by decide), by decide, by decide⟩

/-- **With at most one open session `alloc` succeeds as long as fewer than `cap` slots are live.** -/
theorem alloc_succeeds_single_session {c : Cfg} {s : State} {t : Nat} (h : Inv c s)
    (ht : t < s.locals.length) (hot : s.onlyThread t) (hlt : s.liveCount < c.cap) :
    ∃ s' id src nx, step c s (.alloc t) = some (s', .alloc id src nx) ∧ s'.liveCount = s.liveCount + 1 := by
  obtain ⟨id, src, nx, ha⟩ := alloc_succeeds h ht hot hlt
  have hs : step c s (.alloc t) = some ((addNode c s t).1, .alloc id src nx) := by
    simp only [step, (valid_iff s t).2 ht, ↓reduceIte]
    rw [← ha]
  exact ⟨_, id, src, nx, hs, liveCount_alloc_step h hs⟩

example : stG.onlyThread 0 ∧ stG.liveCount < cfgE.cap ∧ (0 : Nat) < stG.locals.length :=
  ⟨by decide, by decide, by decide⟩

/-- `k` allocations in a row -/
def allocs (t k : Nat) : List Op := List.replicate k (.alloc t)

theorem allocs_succeed {c : Cfg} {t : Nat} : ∀ (k : Nat) {s : State}, Inv c s → t < s.locals.length →
    s.onlyThread t → s.liveCount + k ≤ c.cap →
    ∃ s' os, runObs c s (allocs t k) = some (s', os) ∧ (∀ o ∈ os, ∃ id src nx, o = .alloc id src nx) ∧
      s'.liveCount = s.liveCount + k ∧ Inv c s' := by
  intro k
  induction k with
  | zero => intro s h _ _ _; exact ⟨s, [], rfl, fun o ho => (by cases ho), rfl, h⟩
  | succ k ih =>
    intro s h ht hot hle
    obtain ⟨s1, id, src, nx, hs, hlive⟩ := alloc_succeeds_single_session h ht hot (by omega)
    have hsp := (step_spec h hs).2
    have hot1 : s1.onlyThread t := fun u hu => by rw [hsp.cur_other u hu]; exact hot u hu
    obtain ⟨s', os, hr, hall, hl', hi'⟩ := ih (inv_step h hs) (by rw [hsp.len]; exact ht) hot1 (by omega)
    refine ⟨s', .alloc id src nx :: os, ?_, ?_, by omega, hi'⟩
    · show runObs c s (.alloc t :: allocs t k) = _
      simp only [runObs, hs, hr]
    · intro o ho
      rcases List.mem_cons.1 ho with rfl | ho
      · exact ⟨id, src, nx, rfl⟩
      · exact hall o ho

/-- **The full capacity is available again** (C05 / C14). From any quiescent state — e.g. after
all handles were dropped, a collection ran and the collecting thread handed its list over — a new
session can allocate `cap − #live` nodes in a row: every slot that is not live is reachable for the
next session, whatever the history of sessions, hand-overs and collections was. In particular with
`#live = 0` (the initial node count) all `cap` allocations succeed. -/
theorem full_capacity_again {c : Cfg} {s : State} {t : Nat} (h : Inv c s) (hq : s.quiescent)
    (ht : t < s.locals.length) :
    ∃ s' os, runObs c s (.sessionBegin t :: allocs t (c.cap - s.liveCount)) = some (s', os) ∧
      (∀ o ∈ os.tail, ∃ id src nx, o = .alloc id src nx) ∧ s'.liveCount = c.cap := by
  have hs0 : step c s (.sessionBegin t) =
      some (s.setLoc t { s.loc t with next := 0, init := 0, cur := true }, .none) := by
    simp only [step, (valid_iff s t).2 ht, hq t, and_self, ↓reduceIte]
  have h1 := inv_step h hs0
  have hsp := (step_spec h hs0).2
  have hot : (s.setLoc t { s.loc t with next := 0, init := 0, cur := true }).onlyThread t :=
    fun u hu => by rw [hsp.cur_other u hu]; exact hq u
  have hle : s.liveCount ≤ c.cap := by
    obtain ⟨⟨g, hL⟩, _⟩ := h
    have := cnt_le (fun i => s.cell i == .live) s.mem.size
    have hp := cnt_partition s.cell s.mem.size
    have hu : c.terms ≤ cnt (fun i => s.cell i == .uninit) s.mem.size := by
      have h2 : cnt (fun i => decide (i < c.terms)) s.mem.size ≤ cnt (fun i => s.cell i == .uninit) s.mem.size := by
        generalize s.mem.size = n
        induction n with
        | zero => simp [cnt_zero]
        | succ n ih =>
          rw [cnt_succ, cnt_succ]
          by_cases hn : n < c.terms
          · rw [hL.res.outside n (Or.inl hn)]; simp [hn]; omega
          · simp only [hn, decide_false, Bool.false_eq_true, ↓reduceIte]; split <;> omega
      have h3 : cnt (fun i => decide (i < c.terms)) s.mem.size = c.terms := by
        have := cnt_outside c.terms s.mem.size s.mem.size (by rw [hL.size]; omega)
        have h4 : cnt (fun i => decide (i < c.terms)) s.mem.size =
            cnt (fun i => decide (i < c.terms ∨ s.mem.size ≤ i)) s.mem.size := by
          apply cnt_congr; intro i hi
          have : ¬ s.mem.size ≤ i := by omega
          simp [this]
        rw [h4, this, hL.size]
        simp only [Nat.min_def]; split <;> omega
      omega
    rw [← liveCount_eq_cnt] at hp
    have := hL.size
    omega
  obtain ⟨s', os, hr, hall, hl', _⟩ := allocs_succeed (c.cap - s.liveCount) h1 (by simpa using ht) hot
    (by simp only [liveCount_setLoc]; omega)
  refine ⟨s', .none :: os, ?_, hall, ?_⟩
  · simp only [runObs, hs0, hr]
  · simp only [liveCount_setLoc] at hl'; omega

example : ∃ r, runObs cfgE stG (.sessionBegin 0 :: allocs 0 7) = some r ∧ r.1.liveCount = 10 ∧
    r.2.length = 8 :=
  ⟨_, eq_some_getD (stG, []) (by decide), by decide, by decide⟩

/-! ## 5. the three seeded defects (negative witnesses) -/

/-- the next `alloc` of thread `t` after the run `ops` (with the defect `v`) hands out a live slot -/
def allocsLiveSlot (v : Variant) (c : Cfg) (n : Nat) (ops : List Op) (t : Nat) : Bool :=
  match runV v c (State.init c n) ops with
  | some s =>
    match stepV v c s (.alloc t) with
    | some (_, .alloc id _ _) => decide (s.cell id = .live)
    | _ => false
  | none => false

/-- `stepV` only changes `free`, `gcHandOver`, `sessionEnd` -/
theorem stepV_alloc (v : Variant) (c : Cfg) (s : State) (t : Nat) : stepV v c s (.alloc t) = step c s (.alloc t) := rfl

/-- if the next allocation hands out a live slot the state violates the invariant -/
theorem not_inv_of_allocsLiveSlot {v : Variant} {c : Cfg} {n : Nat} {ops : List Op} {t : Nat}
    (h : allocsLiveSlot v c n ops t = true) : ∃ s, runV v c (State.init c n) ops = some s ∧ ¬ Inv c s := by
  unfold allocsLiveSlot at h
  cases hr : runV v c (State.init c n) ops with
  | none => rw [hr] at h; cases h
  | some s =>
    rw [hr] at h
    refine ⟨s, rfl, fun hinv => ?_⟩
    simp only [stepV_alloc] at h
    cases hs : step c s (.alloc t) with
    | none => rw [hs] at h; cases h
    | some r =>
      obtain ⟨s', o⟩ := r
      rw [hs] at h
      cases o with
      | alloc id src nx =>
        simp only [decide_eq_true_eq] at h
        exact (alloc_never_returns_live_slot hinv hs).1 h
      | _ => cases h

def cfgN : Cfg := { cap := 8, chunk := 2, terms := 1 }

/-- (a) three nodes are created, then freed in one session: the second `free_slot` reaches
`delta = −chunk` and hands the list over but keeps its head, the third free links slot 3 to the
published head; the session end publishes the list again -/
def opsDoublePublish : List Op :=
  [.sessionBegin 0, .alloc 0, .alloc 0, .alloc 0, .sessionEnd 0,
   .sessionBegin 0, .free 0 1, .free 0 2, .free 0 3, .sessionEnd 0,
   .sessionBegin 0, .alloc 0, .alloc 0, .alloc 0]

/-- **(a) double publish**: after the hand-over in `free_slot` that keeps the head
(`next_free.get()` instead of `replace(0)`) the same list is on the shared stack twice; a later
allocation hands out a slot that holds a live node. The faithful model does not. -/
theorem defect_double_publish :
    allocsLiveSlot .doublePublish cfgN 1 opsDoublePublish 0 = true ∧
    allocsLiveSlot .faithful cfgN 1 opsDoublePublish 0 = false ∧
    (∃ s, runV .doublePublish cfgN (State.init cfgN 1) opsDoublePublish = some s ∧ ¬ Inv cfgN s) :=
  ⟨by decide, by decide, not_inv_of_allocsLiveSlot (t := 0) (by decide)⟩

/-- (b) thread 1 is the gc thread: it frees 1 and 2 and hands `[2,1]` over but keeps head 2; thread 0
takes the list and fills 2 and 1; the next collection frees 3, which the gc thread links to its
stale head 2, and hands `[3 → 2 → …]` over; thread 0 takes that list: slot 3, then the live slot 2 -/
def opsGcKeepsHead : List Op :=
  [.attach 1, .sessionBegin 0, .alloc 0, .alloc 0, .alloc 0, .sessionEnd 0,
   .free 1 1, .free 1 2, .gcHandOver 1,
   .sessionBegin 0, .alloc 0, .alloc 0, .sessionEnd 0,
   .free 1 3, .gcHandOver 1,
   .sessionBegin 0, .alloc 0]

/-- **(b) the gc thread keeps the head it handed over**: the next list it builds runs into live
nodes. -/
theorem defect_gc_keeps_head :
    allocsLiveSlot .gcKeepsHead cfgE 2 opsGcKeepsHead 0 = true ∧
    allocsLiveSlot .faithful cfgE 2 opsGcKeepsHead 0 = false ∧
    (∃ s, runV .gcKeepsHead cfgE (State.init cfgE 2) opsGcKeepsHead = some s ∧ ¬ Inv cfgE s) :=
  ⟨by decide, by decide, not_inv_of_allocsLiveSlot (t := 0) (by decide)⟩

/-- (c) thread 0 fills the store; thread 1 frees the slots 1, 2, 3 in a session (its guard returns the
list `[3,2,1]`: delta is −3); thread 0 opens a session, pops the list, allocates exactly one node
(delta 0, two slots left on its local list) and ends the session -/
def opsGuardIgnoresList : List Op :=
  [.sessionBegin 0, .alloc 0, .alloc 0, .alloc 0, .alloc 0, .alloc 0, .alloc 0, .alloc 0, .alloc 0,
   .alloc 0, .alloc 0, .sessionEnd 0,
   .sessionBegin 1, .free 1 1, .free 1 2, .free 1 3, .sessionEnd 1,
   .sessionBegin 0, .alloc 0, .sessionEnd 0]

/-- the state after `opsGuardIgnoresList` with defect (c) -/
def stC : State :=
  (runV .guardIgnoresList cfgE (State.init cfgE 2) opsGuardIgnoresList).getD (State.init cfgE 2)

theorem run_stC : runV .guardIgnoresList cfgE (State.init cfgE 2) opsGuardIgnoresList = some stC :=
  eq_some_getD _ (by decide)

theorem StackOK_nil {f : Nat → Cell} {sl : List (List Nat)} (h : StackOK f [] sl) : sl = [] := by
  cases sl with
  | nil => rfl
  | cons a b => simp [StackOK] at h

/-- **(c) the guard's drop ignores a non-empty local list**: a session that pops a 3-slot list and
allocates one node loses the other two slots. The resulting state is quiescent, 8 of 10 slots are
live, nothing is on the shared stack and everything is allocated: conservation fails
(`no_slot_lost` would give `8 + 0 + 0 = 10`), so the invariant is violated, and the next session is
out of memory at its first allocation although two slots are free (against
`oom_means_every_slot_live`). In the faithful model the two slots are on the shared stack and the
allocation succeeds. -/
theorem defect_guard_ignores_list :
    (stC.quiescent ∧ stC.liveCount = 8 ∧ stC.stack = [] ∧ stC.allocated = 10 ∧ stC.cell 2 = .free 1 ∧
      ¬ Inv cfgE stC ∧
      ∃ s', runV .guardIgnoresList cfgE stC [.sessionBegin 0] = some s' ∧
        (stepV .guardIgnoresList cfgE s' (.alloc 0)).map (·.2) = some (.oom 1)) ∧
    (∃ s s', run cfgE (State.init cfgE 2) opsGuardIgnoresList = some s ∧ s.stack = [2] ∧
      run cfgE s [.sessionBegin 0] = some s' ∧
      (step cfgE s' (.alloc 0)).map (·.2) = some (.alloc 2 .sharedList 1)) := by
  refine ⟨⟨by decide, by decide, by decide, by decide, by decide, ?_,
      ⟨_, eq_some_getD (State.init cfgE 2) (by decide), by decide⟩⟩,
    ⟨_, _, eq_some_getD (State.init cfgE 2) (by decide), by decide,
      eq_some_getD (State.init cfgE 2) (by decide), by decide⟩⟩
  intro hinv
  obtain ⟨sl, hstk, _, _, hcount⟩ := no_slot_lost hinv (by decide)
  rw [show stC.stack = [] by decide] at hstk
  rw [StackOK_nil hstk, show stC.liveCount = 8 by decide, show stC.allocated = 10 by decide] at hcount
  simp [cfgE] at hcount

end OxiddModel.Alloc
