import OxiddModel.Alloc.Properties
import OxiddModel.Alloc.Driver

/-!
# Runtime allocator traces versus the model: headline theorems (C05 / C14 / C07)

The theorems of `Properties.lean` speak about the model. These theorems connect a *logged
execution of the real code* (`oxidd_core::util::verif_alloc`, see `Trace.lean`) to them:

* `trace_sound`: if the checker accepts a log, the logged operations are a run of the model, the
  model's outcomes are exactly the logged ones, and the invariant holds in the replayed state after
  every prefix — so every theorem about `Inv` applies to the state the real store is in
  (as far as the events describe it).
* `trace_alloc_not_live`: every allocation in an accepted log handed out a slot that was not live.
* `trace_complete`: the checker raises no false alarm: the events the model itself produces for any
  run are accepted.
* `trace_ok_iff`: acceptance = "the log refines the model's own event sequence for these operations".
* `driver_ok_sound`, `driver_state`, `driver_accepts`: the line-protocol driver prints `ok` exactly
  for the accepted events and moves to the model's next state.

What this does and does not give: a log is one execution. Acceptance says that *this execution* is
one of the model's behaviours, step by step, with the same slots, links, heads and counter values;
a deviation is reported at the first event where the code does something the model does not
(`judge`). It says nothing about paths that were not executed (coverage is reported by the harness
`c05_alloc`), and it trusts the hooks to log what the code did.
-/
namespace OxiddModel.Alloc

/-! ## acceptance and runs -/

theorem evOK_step {c : Cfg} {s : State} {e : Ev} (h : evOK c s e = true) :
    step c s e.op = some (evNext c s e, e.obs) ∧ optAgrees e.snap (snapOf (evNext c s e)) = true ∧
      optAgrees e.localAfter ((evNext c s e).loc e.op.thread).next = true := by
  unfold evOK at h
  unfold evNext
  cases hs : step c s e.op with
  | none => rw [hs] at h; cases h
  | some r =>
    obtain ⟨s', o⟩ := r
    rw [hs] at h
    simp only [Bool.and_eq_true, decide_eq_true_eq] at h
    obtain ⟨⟨h1, h2⟩, h3⟩ := h
    subst h1
    exact ⟨rfl, h2, h3⟩

/-- **`trace_sound`.** An accepted log is a run of the model with exactly the logged outcomes, and
the invariant holds in the replayed state at the end. -/
theorem trace_sound {c : Cfg} {es : List Ev} : ∀ {s : State}, Inv c s → accepts c s es = true →
    runObs c s (es.map (·.op)) = some (stateAfter c s es, es.map (·.obs)) ∧
    run c s (es.map (·.op)) = some (stateAfter c s es) ∧ Inv c (stateAfter c s es) := by
  induction es with
  | nil => intro s h _; exact ⟨rfl, rfl, h⟩
  | cons e es ih =>
    intro s h ha
    simp only [accepts, Bool.and_eq_true] at ha
    obtain ⟨hs, _, _⟩ := evOK_step ha.1
    obtain ⟨h1, h2, h3⟩ := ih (inv_step h hs) ha.2
    refine ⟨?_, ?_, h3⟩
    · simp only [List.map_cons, runObs, hs, h1, stateAfter]
    · simp only [List.map_cons, run, hs, h2, stateAfter]

/-- a prefix of an accepted log is accepted, and the rest is accepted from the state after it -/
theorem accepts_append {c : Cfg} {es fs : List Ev} : ∀ {s : State}, accepts c s (es ++ fs) = true →
    accepts c s es = true ∧ accepts c (stateAfter c s es) fs = true := by
  induction es with
  | nil => intro s h; exact ⟨rfl, h⟩
  | cons e es ih =>
    intro s h
    simp only [List.cons_append, accepts, Bool.and_eq_true] at h
    obtain ⟨h1, h2⟩ := ih h.2
    exact ⟨by simp only [accepts, h.1, h1, Bool.and_self], h2⟩

/-- **The invariant holds after every prefix of an accepted log.** -/
theorem trace_inv_prefix {c : Cfg} {s : State} {es fs : List Ev} (h : Inv c s)
    (ha : accepts c s (es ++ fs) = true) : Inv c (stateAfter c s es) :=
  (trace_sound h (accepts_append ha).1).2.2

/-- **`trace_alloc_not_live`.** Every allocation in an accepted log returned a slot that was not
live in the replayed state before it (no live node was overwritten), and every `free_slot` in it
released a slot that was live (no slot was freed twice). -/
theorem trace_alloc_not_live {c : Cfg} {s : State} {es fs : List Ev} {e : Ev} (h : Inv c s)
    (ha : accepts c s (es ++ e :: fs) = true) :
    (∀ id src nx, e.obs = .alloc id src nx → (stateAfter c s es).cell id ≠ .live) ∧
    (∀ t id, e.op = .free t id → (stateAfter c s es).cell id = .live) := by
  obtain ⟨h1, h2⟩ := accepts_append ha
  have hinv := (trace_sound h h1).2.2
  simp only [accepts, Bool.and_eq_true] at h2
  obtain ⟨hs, _, _⟩ := evOK_step h2.1
  constructor
  · intro id src nx he
    cases hop : e.op with
    | alloc t =>
      rw [hop, he] at hs
      exact (alloc_never_returns_live_slot hinv hs).1
    | _ =>
      -- only `alloc` produces an `alloc` observation
      exfalso
      rw [hop, he] at hs
      obtain ⟨_, e'⟩ := ite_some_eq hs
      have := congrArg Prod.snd e'
      simp [freeSlot, gcAfter, guardDrop, returnPreallocated] at this
      try (repeat' split at this) <;> simp_all
  · intro t id hop
    rw [hop] at hs
    exact (ite_some_eq hs).1.2

/-- **`trace_complete`.** No false alarms: for every run of the model the events the model itself
produces (with all optional fields filled in) are accepted. -/
theorem trace_complete {c : Cfg} {ops : List Op} : ∀ {s s' : State}, run c s ops = some s' →
    accepts c s (eventsOf c s ops) = true := by
  induction ops with
  | nil => intro s s' _; rfl
  | cons op ops ih =>
    intro s s' hr
    simp only [run] at hr
    cases hs : step c s op with
    | none => rw [hs] at hr; cases hr
    | some r =>
      obtain ⟨s1, o⟩ := r
      rw [hs] at hr
      simp only [eventsOf, hs, accepts, evOK, evNext, optAgrees, decide_true, Bool.and_self, Bool.true_and]
      exact ih hr

/-- the logged event `e` says the same as the full event `f` (same operation and outcome, the
optional fields that are present agree) -/
def Ev.refines (e f : Ev) : Bool :=
  decide (e.op = f.op) && decide (e.obs = f.obs) &&
    (match e.snap, f.snap with
      | none, _ => true
      | some a, some b => decide (a = b)
      | some _, none => false) &&
    (match e.localAfter, f.localAfter with
      | none, _ => true
      | some a, some b => decide (a = b)
      | some _, none => false)

def refinesAll : List Ev → List Ev → Bool
  | [], [] => true
  | e :: es, f :: fs => e.refines f && refinesAll es fs
  | _, _ => false

/-- **`trace_ok_iff`.** The checker accepts a log exactly if its operations are a run of the model
and the log refines the model's own event sequence for these operations. -/
theorem trace_ok_iff {c : Cfg} {es : List Ev} : ∀ {s : State},
    accepts c s es = true ↔
      ((run c s (es.map (·.op))).isSome = true ∧ refinesAll es (eventsOf c s (es.map (·.op))) = true) := by
  induction es with
  | nil => intro s; simp [accepts, run, eventsOf, refinesAll]
  | cons e es ih =>
    intro s
    simp only [accepts, Bool.and_eq_true, List.map_cons, run, eventsOf]
    cases hs : step c s e.op with
    | none =>
      simp [evOK, hs, refinesAll]
    | some r =>
      obtain ⟨s1, o⟩ := r
      have hn : evNext c s e = s1 := by simp [evNext, hs]
      rw [hn, ih]
      simp only [refinesAll, Bool.and_eq_true]
      have hev : evOK c s e = true ↔
          e.refines { op := e.op, obs := o, snap := some (snapOf s1), localAfter := some (s1.loc e.op.thread).next } = true := by
        simp only [evOK, hs, Ev.refines, optAgrees, Bool.and_eq_true, decide_eq_true_eq, true_and]
        constructor
        · intro ⟨⟨h1, h2⟩, h3⟩
          refine ⟨⟨h1.symm, ?_⟩, ?_⟩
          · cases hsn : e.snap with
            | none => rfl
            | some a => rw [hsn] at h2; simpa using h2
          · cases hl : e.localAfter with
            | none => rfl
            | some a => rw [hl] at h3; simpa using h3
        · intro ⟨⟨h1, h2⟩, h3⟩
          refine ⟨⟨h1.symm, ?_⟩, ?_⟩
          · cases hsn : e.snap with
            | none => rfl
            | some a => rw [hsn] at h2; simpa using h2
          · cases hl : e.localAfter with
            | none => rfl
            | some a => rw [hl] at h3; simpa using h3
      rw [hev]
      constructor
      · intro ⟨h1, h2, h3⟩; exact ⟨h2, h1, h3⟩
      · intro ⟨h1, h2, h3⟩; exact ⟨h2, h1, h3⟩

/-! ## the driver -/

theorem violation_ne_ok (x : String) : "violation " ++ x ≠ "ok" := by
  intro h
  have := congrArg String.length h
  rw [String.length_append] at this
  have h1 : "violation ".length = 10 := by decide
  have h2 : "ok".length = 2 := by decide
  omega

/-- **`driver_ok_sound`.** The driver prints `ok` for an event line exactly if the checker accepts
the event (`evOK`: the model does this step with the reported outcome). -/
theorem driver_ok_sound (d : DState) (e : Ev) : (judgeEv d e).2 = "ok" ↔ evOK d.c d.s e = true := by
  rw [← judge_none_iff]
  obtain ⟨c, s, ready⟩ := d
  simp only [judgeEv]
  rw [judgeStep_eq]
  cases hj : judge c s e with
  | none => simp
  | some v =>
    simp only [reduceCtorEq, iff_false]
    exact violation_ne_ok _

/-- **`driver_state`.** After an event line the driver's state is the model's next state. -/
theorem driver_state (d : DState) (e : Ev) : (judgeEv d e).1.s = evNext d.c d.s e ∧ (judgeEv d e).1.c = d.c := by
  obtain ⟨c, s, ready⟩ := d
  simp only [judgeEv]
  rw [judgeStep_eq]
  exact ⟨rfl, trivial⟩

/-- run the driver's judge over a list of events: all lines `ok`? -/
def driverAll : DState → List Ev → Bool
  | _, [] => true
  | d, e :: es => decide ((judgeEv d e).2 = "ok") && driverAll (judgeEv d e).1 es

/-- **`driver_accepts`.** The driver prints `ok` for every event line of a log iff the checker
accepts the log. -/
theorem driver_accepts (es : List Ev) : ∀ (d : DState), driverAll d es = accepts d.c d.s es := by
  induction es with
  | nil => intro d; rfl
  | cons e es ih =>
    intro d
    simp only [driverAll, accepts]
    rw [ih]
    obtain ⟨hs, hc⟩ := driver_state d e
    rw [hs, hc]
    congr 1
    have := driver_ok_sound d e
    cases hb : evOK d.c d.s e with
    | true => simp [this.2 hb]
    | false =>
      have : ¬ ((judgeEv d e).2 = "ok") := fun h => by rw [this.1 h] at hb; cases hb
      simp [this]

/-! ## non-vacuity: a log of the model's own run, and a log of a defective execution -/

/-- the events of the run `opsE` of `Properties.lean` -/
def exLog : List Ev := eventsOf cfgE (State.init cfgE 2) opsE

example : exLog.length = 13 ∧ accepts cfgE (State.init cfgE 2) exLog = true :=
  ⟨by decide, trace_complete run_opsE⟩

example : Inv cfgE (stateAfter cfgE (State.init cfgE 2) exLog) :=
  (trace_sound (inv_init cfgE 2 (by decide) (by decide)) (trace_complete run_opsE)).2.2

/-- what defect (b) logs: thread 0 creates two nodes, the gc thread (1) frees them and hands its
list over — but reports that it kept the head -/
def exBadLog : List Ev :=
  eventsOf cfgE (State.init cfgE 2)
      [.attach 1, .sessionBegin 0, .alloc 0, .alloc 0, .sessionEnd 0, .free 1 1, .free 1 2] ++
    [{ op := .gcHandOver 1, obs := .gcHandOver 2 (-2), localAfter := some 2 }]

example : exBadLog.length = 8 ∧ accepts cfgE (State.init cfgE 2) exBadLog = false ∧
    accepts cfgE (State.init cfgE 2) (exBadLog.take 7) = true ∧
    (exBadLog.drop 7).map (judge cfgE (stateAfter cfgE (State.init cfgE 2) (exBadLog.take 7))) =
      [some .keepsHead] := by
  refine ⟨by decide, by decide, by decide, by decide⟩

end OxiddModel.Alloc
