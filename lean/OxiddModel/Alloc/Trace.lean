import OxiddModel.Alloc.Model

/-!
# Runtime allocator traces replayed on the model (C05 / C14 / C07)

The library is instrumented (`oxidd_core::util::verif_alloc`, compiled only with
`--cfg oxidd_verif`): every operation of the node-slot allocator of the index manager logs one
event — which thread, which operation, and what the code did (the slot handed out and where it
came from, the link it read or wrote, the list head it published, the value it added to
`node_count`, and for operations under the `state` mutex a snapshot of the shared state).

An event `Ev` is an operation `Op` of the model together with the *reported* outcome. The events
determine the only nondeterminism of the model — the interleaving (and which slot is freed); the
model then predicts everything else. `evOK` says that the model can do the step and predicts
exactly the reported outcome; `accepts` replays a whole log. `judge` is the diagnostic version used
by the driver: which clause of the invariant the real execution violates.
-/
namespace OxiddModel.Alloc

/-- snapshot of the shared state (`verif_alloc::Shared`) -/
structure Snap where
  count : Int
  allocated : Nat
  lists : Nat
  /-- 0 disabled, 1 init, 2 triggered -/
  gc : Nat
  deriving DecidableEq, Repr

def gcCode : GcState → Nat
  | .disabled => 0
  | .init => 1
  | .triggered => 2

def snapOf (s : State) : Snap :=
  { count := s.count, allocated := s.allocated, lists := s.stack.length, gc := gcCode s.gc }

/-- one logged event -/
structure Ev where
  op : Op
  /-- the reported outcome -/
  obs : Obs
  /-- the reported shared state after the operation (operations under the mutex) -/
  snap : Option Snap := none
  /-- the reported thread-local `next_free` after the operation (hand-overs) -/
  localAfter : Option Nat := none
  deriving DecidableEq, Repr

def optAgrees {α : Type} [DecidableEq α] (reported : Option α) (model : α) : Bool :=
  match reported with
  | none => true
  | some r => decide (r = model)

/-- **The trace checker for one event**: the model can do the step and its outcome, the shared
state and the thread-local head after it are the reported ones. -/
def evOK (c : Cfg) (s : State) (e : Ev) : Bool :=
  match step c s e.op with
  | some (s', o) =>
    decide (o = e.obs) && optAgrees e.snap (snapOf s') && optAgrees e.localAfter (s'.loc e.op.thread).next
  | none => false

/-- the state after the event: the model's step (unchanged if the step is impossible) -/
def evNext (c : Cfg) (s : State) (e : Ev) : State :=
  match step c s e.op with
  | some (s', _) => s'
  | none => s

/-- **The trace checker**: every event passes. -/
def accepts (c : Cfg) : State → List Ev → Bool
  | _, [] => true
  | s, e :: es => evOK c s e && accepts c (evNext c s e) es

/-- the state after a whole log -/
def stateAfter (c : Cfg) : State → List Ev → State
  | s, [] => s
  | s, e :: es => stateAfter c (evNext c s e) es

/-- the events the model itself produces for a sequence of operations (with all optional fields) -/
def eventsOf (c : Cfg) : State → List Op → List Ev
  | _, [] => []
  | s, op :: ops =>
    match step c s op with
    | some (s', o) =>
      { op := op, obs := o, snap := some (snapOf s'), localAfter := some (s'.loc op.thread).next }
        :: eventsOf c s' ops
    | none => []

/-! ## diagnostics -/

/-- what the real execution did wrong (or where model and code disagree) -/
inductive Viol where
  /-- the thread number is not below the declared number of threads -/
  | badThread
  /-- `Attach` of a thread that has used the store before -/
  | attachUsed
  /-- a guard was created although the thread's `current_store` was set -/
  | beginNested
  /-- `free_slot` of a slot that is already free: freed twice -/
  | doubleFree
  /-- `free_slot` of a slot that was never handed out -/
  | freeUninit
  /-- hand-over / guard drop by a thread without local state -/
  | noSession
  /-- **a live slot was handed out** (a node is overwritten) -/
  | allocLive
  /-- the slot came from another source than the model's (the model's source is given) -/
  | source (model : Source)
  /-- another slot than the model's -/
  | slot (model : Nat)
  /-- the link read from / written to the slot differs -/
  | link (model : Nat)
  /-- the code allocated, the model is out of memory -/
  | modelOom
  /-- **the code is out of memory, the model still has a slot for this thread**: slots were lost -/
  | oomWithFreeSlots
  /-- the value added to `node_count` differs -/
  | delta (model : Int)
  /-- local `free_slot` reported for a thread without local state or vice versa -/
  | freeMode
  /-- the freed slot was linked to a head that is on the shared stack: **published twice** -/
  | publishedTwice
  /-- the code handed its list over, the model does not (yet) -/
  | unexpectedHandover
  /-- the model hands the list over, the code did not -/
  | missingHandover
  /-- the head handed over differs -/
  | head (model : Nat)
  /-- **the guard was dropped without returning slots the model returns**: slots lost -/
  | slotsLost
  /-- the code returned slots, the model has none to return -/
  | spuriousReturn
  /-- the pre-allocated range returned differs -/
  | range
  /-- the shared state after the operation differs (count, allocated, number of lists, gc state) -/
  | shared
  /-- **the thread keeps a list head after publishing it** -/
  | keepsHead
  /-- operation and outcome do not fit together -/
  | malformed
  deriving DecidableEq, Repr

/-- why the model cannot do the operation -/
def whyDisabled (s : State) : Op → Viol
  | .attach t => if s.valid t then .attachUsed else .badThread
  | .sessionBegin t => if s.valid t then .beginNested else .badThread
  | .alloc _ => .badThread
  | .free t id =>
    if s.valid t then
      match s.cell id with
      | .free _ => .doubleFree
      | _ => .freeUninit
    else .badThread
  | .gcHandOver t => if s.valid t then .noSession else .badThread
  | .sessionEnd t => if s.valid t then .noSession else .badThread

/-- the reported slot of an allocation is live before the step -/
def repLive (s : State) : Obs → Bool
  | .alloc id _ _ => decide (s.cell id = .live)
  | _ => false

/-- the reported previous head of a local free is on the shared stack before the step -/
def prevShared (s : State) : Obs → Bool
  | .freed prev _ => s.stack.contains prev
  | _ => false

/-- how the reported outcome `r` differs from the model's `m` (`live`, `pub`: `repLive`,
`prevShared` in the state before the step) -/
def whyObs (live pub : Bool) (m r : Obs) : Viol :=
  match m, r with
  | .alloc id src nx, .alloc id' src' nx' =>
    if live then .allocLive
    else if src ≠ src' then .source src
    else if id ≠ id' then .slot id
    else if nx ≠ nx' then .link nx
    else .malformed
  | .oom _, .alloc _ _ _ => if live then .allocLive else .modelOom
  | .alloc _ _ _, .oom _ => .oomWithFreeSlots
  | .oom d, .oom _ => .delta d
  | .freed prev ho, .freed prev' ho' =>
    if prev ≠ prev' then (if pub then .publishedTwice else .link prev)
    else match ho, ho' with
      | none, some _ => .unexpectedHandover
      | some _, none => .missingHandover
      | some (h, d), some (h', _) => if h ≠ h' then .head h else .delta d
      | none, none => .malformed
  | .foreignFreed prev, .foreignFreed _ => .link prev
  | .freed _ _, .foreignFreed _ => .freeMode
  | .foreignFreed _, .freed _ _ => .freeMode
  | .gcHandOver h d, .gcHandOver h' _ => if h ≠ h' then .head h else .delta d
  | .sessionEnd r h a b d, .sessionEnd r' h' a' b' _ =>
    if r ∧ ¬ r' then .slotsLost
    else if ¬ r ∧ r' then .spuriousReturn
    else if a ≠ a' ∨ b ≠ b' then .range
    else if h ≠ h' then .head h
    else .delta d
  | _, _ => .malformed

/-- the verdict on one event: `none` = ok -/
def judge (c : Cfg) (s : State) (e : Ev) : Option Viol :=
  match step c s e.op with
  | none => some (whyDisabled s e.op)
  | some (s', o) =>
    if o ≠ e.obs then some (whyObs (repLive s e.obs) (prevShared s e.obs) o e.obs)
    else if !optAgrees e.localAfter (s'.loc e.op.thread).next then some .keepsHead
    else if !optAgrees e.snap (snapOf s') then some .shared
    else none

theorem judge_none_iff (c : Cfg) (s : State) (e : Ev) : judge c s e = none ↔ evOK c s e = true := by
  unfold judge evOK
  cases h : step c s e.op with
  | none => simp
  | some r =>
    obtain ⟨s', o⟩ := r
    by_cases ho : o = e.obs
    · cases h1 : optAgrees e.localAfter (s'.loc e.op.thread).next <;>
        cases h2 : optAgrees e.snap (snapOf s') <;> simp [ho, h1, h2]
    · simp [ho]

/-- next state and verdict in one pass over a linearly used state (what the driver runs) -/
def judgeStep (c : Cfg) (s : State) (e : Ev) : State × Option Viol :=
  let live := repLive s e.obs
  let pub := prevShared s e.obs
  match stepT c s e.op with
  | (s', none) => (s', some (whyDisabled s' e.op))
  | (s', some o) =>
    (s',
      if o ≠ e.obs then some (whyObs live pub o e.obs)
      else if !optAgrees e.localAfter (s'.loc e.op.thread).next then some .keepsHead
      else if !optAgrees e.snap (snapOf s') then some .shared
      else none)

theorem judgeStep_eq (c : Cfg) (s : State) (e : Ev) :
    judgeStep c s e = (evNext c s e, judge c s e) := by
  unfold judgeStep evNext judge
  rw [stepT_eq]
  cases h : step c s e.op with
  | none => rfl
  | some r => obtain ⟨s', o⟩ := r; rfl

end OxiddModel.Alloc
