import OxiddModel.ArcSlab.LemmasStep

/-!
`ArcSlab` under interleaving, at the granularity of the code's atomic actions.

`add_item` is `[lock; get_slot; unlock]`, then `items.fetch_add(1)`, then the item is written and
the handle returned. Giving up the last reference of an item is `rc.fetch_sub(1)` (reads 1; the
item is moved out by this thread alone), then `items.fetch_sub(1)`, then `[lock; push; unlock]`
(`Page::free_slot`). Between these actions any other thread may run.

Threads are anonymous: an operation in flight is represented by its slot in one of four bags
(`got`: after `get_slot`, before `fetch_add`; `counted`: after `fetch_add`, before the handle is
returned; `taken`: last reference gone, before `fetch_sub`; `decd`: after `fetch_sub`, before the
push). Any number of threads, any schedule: an action picks ANY element of a bag and moves it on.
The shared state and the atomic actions are those of `Model` (`getSlot`, `itemsInc`, `writeItem`,
`takeItem`, `itemsDec`, `pushFree`); the sequential operations of `Model` are the compositions of
these actions without interruption (`addItem_is_schedule`, `release_is_schedule`).

The slab itself stays alive here (somebody holds an `ArcSlabRef`); its own counter is a plain
`Arc`-style counter and is treated in the sequential model only.
-/
namespace OxiddModel.ArcSlab

structure CState where
  sl : Slab
  got : List Nat
  counted : List Nat
  taken : List Nat
  decd : List Nat
deriving Repr, DecidableEq

inductive Act where
  /-- `add_item`, first action: `pages.lock().get_slot()` -/
  | addLock
  /-- `add_item`, second action: `items.fetch_add(1)` by the thread that got slot `x` -/
  | addCount (x : Nat)
  /-- `add_item`, last action: the item is written, the `IntHandle` returned -/
  | addWrite (x : Nat)
  /-- `IntHandle::clone` -/
  | retainI (x : Nat)
  /-- `IntHandle::drop`/`into_inner`, first action: `rc.fetch_sub(1)`; on 1 the item is moved out -/
  | relDecr (x : Nat)
  /-- `IntHandle::force_into_inner`: the item is moved out without touching its counter -/
  | force (x : Nat)
  /-- `Page::free_slot`, first action: `items.fetch_sub(1)` -/
  | relCount (x : Nat)
  /-- `Page::free_slot`, second action: the locked push -/
  | relPush (x : Nat)
  /-- `num_items` -/
  | num
deriving Repr, DecidableEq

def clegal (c : CState) : Act → Bool
  | .addLock => true
  | .addCount x => decide (x ∈ c.got)
  | .addWrite x => decide (x ∈ c.counted)
  | .retainI x | .relDecr x =>
    match findItem c.sl.live x with | some i => 0 < i.nInt | none => false
  | .force x =>
    match findItem c.sl.live x with | some i => i.nInt = 1 && i.nExt = 0 | none => false
  | .relCount x => decide (x ∈ c.taken)
  | .relPush x => decide (x ∈ c.decd)
  | .num => true

def cexec (c : CState) : Act → CState × Obs
  | .addLock => let r := getSlot c.sl; ({ c with sl := r.2, got := r.1 :: c.got }, .unit)
  | .addCount x =>
    ({ c with sl := itemsInc c.sl, got := c.got.erase x, counted := x :: c.counted }, .unit)
  | .addWrite x => ({ c with sl := writeItem c.sl x, counted := c.counted.erase x }, .slot x)
  | .retainI x => ({ c with sl := itemRetain c.sl x false }, .unit)
  | .relDecr x =>
    match findItem c.sl.live x with
    | none => (c, .unit)
    | some i =>
      if i.rc = 1 then ({ c with sl := takeItem c.sl x, taken := x :: c.taken }, .gone true false)
      else ({ c with sl := { c.sl with live := updItem c.sl.live x (relF false) } },
        .gone false false)
  | .force x => ({ c with sl := takeItem c.sl x, taken := x :: c.taken }, .gone true false)
  | .relCount x =>
    ({ c with sl := itemsDec c.sl, taken := c.taken.erase x, decd := x :: c.decd }, .unit)
  | .relPush x => ({ c with sl := pushFree c.sl x, decd := c.decd.erase x }, .unit)
  | .num => (c, .num c.sl.items)

def cstep (c : CState) (a : Act) : Option (CState × Obs) :=
  if clegal c a then some (cexec c a) else none

def CState.new (K : Nat) : CState :=
  { sl := Slab.new K, got := [], counted := [], taken := [], decd := [] }

/-- all interleavings of any number of threads -/
inductive CReach (K : Nat) : CState → Prop where
  | new : CReach K (CState.new K)
  | step {c c' : CState} {a : Act} {o : Obs} : CReach K c → cstep c a = some (c', o) → CReach K c'

/-- in how many places slot `x` is: free list, occupied, or owned by an operation in flight -/
def occ (c : CState) (x : Nat) : Nat :=
  c.sl.free.count x + (slots c.sl.live).count x + c.got.count x + c.counted.count x +
    c.taken.count x + c.decd.count x

structure CInv (c : CState) : Prop where
  kpos : 0 < c.sl.K
  /-- SAFETY invariant of `PageList::free_slot` -/
  ne : c.sl.free ≠ []
  /-- every slot of an allocated page is in exactly one place, other numbers in none -/
  part : ∀ x, occ c x = if x < c.sl.pages * c.sl.K then 1 else 0
  card : c.sl.free.length + c.sl.live.length + c.got.length + c.counted.length + c.taken.length +
    c.decd.length = c.sl.pages * c.sl.K
  /-- what `num_items` reads -/
  cnt : c.sl.items = c.sl.live.length + c.counted.length + c.taken.length
  items : ItemInv c.sl.live

end OxiddModel.ArcSlab
