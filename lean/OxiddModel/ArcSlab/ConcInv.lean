import OxiddModel.ArcSlab.ConcLemmas

/-! Every atomic action preserves `CInv`. -/
namespace OxiddModel.ArcSlab

theorem cinv_addLock {c : CState} (h : CInv c) : CInv (cexec c .addLock).1 := by
  obtain ⟨kpos, ne, part, card, cnt, items⟩ := h
  simp only [cexec, getSlot]
  match hf : c.sl.free with
  | [] => exact absurd hf ne
  | x :: y :: r =>
    refine ⟨kpos, by simp, ?_, ?_, cnt, items⟩
    · intro z
      have hz := part z
      simp only [occ, hf] at hz ⊢
      have h1 := cnt_cons z x (y :: r)
      have h2 := cnt_cons z x c.got
      omega
    · simp only [hf, List.length_cons] at card ⊢; omega
  | [x] =>
    have hmul : (c.sl.pages + 1) * c.sl.K = c.sl.pages * c.sl.K + c.sl.K := by
      rw [Nat.add_mul, Nat.one_mul]
    refine ⟨kpos, ?_, ?_, ?_, cnt, items⟩
    · simp only; intro h
      have := congrArg List.length h
      simp at this; omega
    · intro z
      have hz := part z
      have hx := part x
      simp only [occ, hf] at hz hx ⊢
      have h1 := cnt_cons z x []
      have h2 := cnt_cons z x c.got
      have h3 := cnt_cons x x []
      simp only [List.count_nil, eq_self, if_true] at h1 h3
      rw [List.count_range_1', hmul]
      have hxb : x < c.sl.pages * c.sl.K := by
        by_cases hb : x < c.sl.pages * c.sl.K
        · exact hb
        · simp only [hb, if_false] at hx; omega
      by_cases e : z = x
      · subst e
        simp only [eq_self, if_true] at h1 h2
        have : ¬ (c.sl.pages * c.sl.K ≤ z ∧ z < c.sl.pages * c.sl.K + c.sl.K) := by omega
        have hb3 : z < c.sl.pages * c.sl.K + c.sl.K := by omega
        rw [if_neg this, if_pos hb3]
        simp only [hxb, if_true] at hz
        omega
      · simp only [e, if_false] at h1 h2
        by_cases hb : z < c.sl.pages * c.sl.K
        · have : ¬ (c.sl.pages * c.sl.K ≤ z ∧ z < c.sl.pages * c.sl.K + c.sl.K) := by omega
          have hb3 : z < c.sl.pages * c.sl.K + c.sl.K := by omega
          rw [if_neg this, if_pos hb3]
          simp only [hb, if_true] at hz
          omega
        · simp only [hb, if_false] at hz
          by_cases hb2 : z < c.sl.pages * c.sl.K + c.sl.K
          · have : c.sl.pages * c.sl.K ≤ z ∧ z < c.sl.pages * c.sl.K + c.sl.K := by omega
            rw [if_pos this, if_pos hb2]
            omega
          · have : ¬ (c.sl.pages * c.sl.K ≤ z ∧ z < c.sl.pages * c.sl.K + c.sl.K) := by omega
            rw [if_neg this, if_neg hb2]
            omega
    · simp only [hf, List.length_cons, List.length_nil, List.length_range'] at card ⊢
      rw [hmul]; omega

theorem cinv_addCount {c : CState} {x : Nat} (h : CInv c) (hm : x ∈ c.got) :
    CInv (cexec c (.addCount x)).1 := by
  obtain ⟨kpos, ne, part, card, cnt, items⟩ := h
  simp only [cexec, itemsInc]
  have hl := len_erase hm
  refine ⟨kpos, ne, ?_, ?_, ?_, items⟩
  · intro z
    have hz := part z
    simp only [occ] at hz ⊢
    have h1 := cnt_erase z hm
    have h2 := cnt_cons z x c.counted
    omega
  · simp only [List.length_cons]; omega
  · simp only [List.length_cons]; omega

theorem cinv_addWrite {c : CState} {x : Nat} (h : CInv c) (hm : x ∈ c.counted) :
    CInv (cexec c (.addWrite x)).1 := by
  obtain ⟨kpos, ne, part, card, cnt, items⟩ := h
  simp only [cexec, writeItem]
  have hl := len_erase hm
  refine ⟨kpos, ne, ?_, ?_, ?_, ?_⟩
  · intro z
    have hz := part z
    simp only [occ, slots, List.map_cons] at hz ⊢
    have h1 := cnt_erase z hm
    have h2 := cnt_cons z x (List.map (fun i => i.slot) c.sl.live)
    omega
  · simp only [List.length_cons]; omega
  · simp only [List.length_cons]; omega
  · intro i hi
    rcases List.mem_cons.1 hi with e | e
    · subst e; simp
    · exact items i e

theorem cinv_upd {c : CState} {x : Nat} {i0 : Item} (f : Item → Item) (h : CInv c)
    (hf : findItem c.sl.live x = some i0) (hs : ∀ i, (f i).slot = i.slot)
    (hi : (f i0).rc = (f i0).nInt + (f i0).nExt ∧ 0 < (f i0).rc) :
    CInv { c with sl := { c.sl with live := updItem c.sl.live x f } } := by
  have hn := cinv_nodup_slots h
  obtain ⟨kpos, ne, part, card, cnt, items⟩ := h
  refine ⟨kpos, ne, ?_, ?_, ?_, upd_itemInv f hn hf items hi⟩
  · intro z
    have hz := part z
    simp only [occ] at hz ⊢
    rw [slots_updItem _ _ _ hs]; exact hz
  · simp only [length_updItem]; exact card
  · simp only [length_updItem]; exact cnt

theorem cinv_take {c : CState} {x : Nat} {i0 : Item} (h : CInv c)
    (hf : findItem c.sl.live x = some i0) :
    CInv { c with sl := takeItem c.sl x, taken := x :: c.taken } := by
  have hn := cinv_nodup_slots h
  have hx : x ∈ slots c.sl.live := mem_slots.2 ⟨i0, findItem_some hf⟩
  obtain ⟨kpos, ne, part, card, cnt, items⟩ := h
  have hl := length_remItem hn hx
  simp only [takeItem]
  refine ⟨kpos, ne, ?_, ?_, ?_, rem_itemInv x items⟩
  · intro z
    have hz := part z
    simp only [occ] at hz ⊢
    have h1 := cnt_rem z hn hx
    have h2 := cnt_cons z x c.taken
    omega
  · simp only [List.length_cons]; omega
  · simp only [List.length_cons]; omega

theorem cinv_relCount {c : CState} {x : Nat} (h : CInv c) (hm : x ∈ c.taken) :
    CInv (cexec c (.relCount x)).1 := by
  obtain ⟨kpos, ne, part, card, cnt, items⟩ := h
  simp only [cexec, itemsDec]
  have hl := len_erase hm
  refine ⟨kpos, ne, ?_, ?_, ?_, items⟩
  · intro z
    have hz := part z
    simp only [occ] at hz ⊢
    have h1 := cnt_erase z hm
    have h2 := cnt_cons z x c.decd
    omega
  · simp only [List.length_cons]; omega
  · simp only; omega

theorem cinv_relPush {c : CState} {x : Nat} (h : CInv c) (hm : x ∈ c.decd) :
    CInv (cexec c (.relPush x)).1 := by
  obtain ⟨kpos, ne, part, card, cnt, items⟩ := h
  simp only [cexec, pushFree]
  have hl := len_erase hm
  refine ⟨kpos, by simp, ?_, ?_, cnt, items⟩
  · intro z
    have hz := part z
    simp only [occ] at hz ⊢
    have h1 := cnt_erase z hm
    have h2 := cnt_cons z x c.sl.free
    omega
  · simp only [List.length_cons]; omega

theorem cinv_exec {c : CState} {a : Act} (h : CInv c) (hl : clegal c a = true) :
    CInv (cexec c a).1 := by
  cases a with
  | addLock => exact cinv_addLock h
  | addCount x => exact cinv_addCount h (by simpa [clegal] using hl)
  | addWrite x => exact cinv_addWrite h (by simpa [clegal] using hl)
  | retainI x =>
    simp only [clegal] at hl
    cases hf : findItem c.sl.live x with
    | none => rw [hf] at hl; simp at hl
    | some i0 =>
      have hi0 := h.items i0 (findItem_some hf).1
      simp only [cexec, itemRetain]
      exact cinv_upd (retF false) h hf (fun _ => rfl) (by simp [retF]; omega)
  | relDecr x =>
    simp only [clegal] at hl
    cases hf : findItem c.sl.live x with
    | none => rw [hf] at hl; simp at hl
    | some i0 =>
      rw [hf] at hl
      have hn : 0 < i0.nInt := by simpa using hl
      have hi0 := h.items i0 (findItem_some hf).1
      simp only [cexec, hf]
      by_cases h1 : i0.rc = 1
      · simp only [h1, if_true]; exact cinv_take h hf
      · simp only [h1, if_false]
        exact cinv_upd (relF false) h hf (fun _ => rfl) (by simp [relF]; omega)
  | force x =>
    simp only [clegal] at hl
    cases hf : findItem c.sl.live x with
    | none => rw [hf] at hl; simp at hl
    | some i0 => simp only [cexec]; exact cinv_take h hf
  | relCount x => exact cinv_relCount h (by simpa [clegal] using hl)
  | relPush x => exact cinv_relPush h (by simpa [clegal] using hl)
  | num => exact h

theorem cinv_reach {K : Nat} (hK : 0 < K) {c : CState} (h : CReach K c) : CInv c := by
  induction h with
  | new => exact cinv_new hK
  | @step c c' a o _ hs ih =>
    unfold cstep at hs
    by_cases hl : clegal c a = true
    · simp [hl] at hs
      have e : c' = (cexec c a).1 := by rw [hs]
      rw [e]; exact cinv_exec ih hl
    · simp [hl] at hs

end OxiddModel.ArcSlab
