import OxiddModel.ArcSlab.Conc

/-! Counting lemmas for the interleaving model. -/
namespace OxiddModel.ArcSlab

theorem cnt_cons (z x : Nat) (l : List Nat) :
    (x :: l).count z = l.count z + (if z = x then 1 else 0) := by
  by_cases e : z = x
  · subst e; simp
  · have : x ≠ z := fun h => e h.symm
    simp [List.count_cons_of_ne this, e]

theorem cnt_erase (z : Nat) {x : Nat} {l : List Nat} (h : x ∈ l) :
    (l.erase x).count z + (if z = x then 1 else 0) = l.count z := by
  by_cases e : z = x
  · subst e
    have := List.count_pos_iff.2 h
    simp only [List.count_erase_self, if_true]; omega
  · simp [List.count_erase_of_ne e, e]

theorem len_erase {x : Nat} {l : List Nat} (h : x ∈ l) : (l.erase x).length + 1 = l.length := by
  have := List.length_pos_of_mem h
  rw [List.length_erase_of_mem h]; omega

theorem cnt_rem (z : Nat) {x : Nat} {l : List Item} (hn : (slots l).Nodup) (hx : x ∈ slots l) :
    (slots (remItem l x)).count z + (if z = x then 1 else 0) = (slots l).count z := by
  rw [hn.count, (nodup_slots_remItem x hn).count]
  by_cases e : z = x
  · subst e
    have : z ∉ slots (remItem l z) := fun h => (mem_slots_remItem.1 h).2 rfl
    simp [this, hx]
  · have : z ∈ slots (remItem l x) ↔ z ∈ slots l :=
      ⟨fun h => (mem_slots_remItem.1 h).1, fun h => mem_slots_remItem.2 ⟨h, e⟩⟩
    by_cases hm : z ∈ slots l
    · simp [this.2 hm, hm, e]
    · have h2 : z ∉ slots (remItem l x) := fun h => hm (this.1 h)
      simp [h2, hm, e]

theorem cinv_nodup_slots {c : CState} (h : CInv c) : (slots c.sl.live).Nodup := by
  rw [List.nodup_iff_count]
  intro z
  have := h.part z
  simp only [occ] at this
  split at this <;> omega

theorem cinv_new {K : Nat} (hK : 0 < K) : CInv (CState.new K) := by
  refine ⟨hK, ?_, ?_, ?_, ?_, ?_⟩
  · simp only [CState.new, Slab.new]; intro h
    have := congrArg List.length h
    simp at this; omega
  · intro z
    simp only [occ, CState.new, Slab.new, slots, List.map_nil, List.count_nil, Nat.add_zero,
      List.count_range_1', Nat.one_mul, Nat.zero_add, Nat.zero_le, true_and]
  · simp [CState.new, Slab.new]
  · simp [CState.new, Slab.new]
  · intro i hi; simp [CState.new, Slab.new] at hi

end OxiddModel.ArcSlab
