import OxiddModel.Util.Proto
import OxiddModel.ArcSlab.Model

/-!
Line-protocol driver `arcslab` (C20 / C05): predicts every output line of the harness binary
`/verif/harness/src/bin/c20_arcslab.rs`, which drives the REAL `arcslab` crate.

One slab per case. Items are named by their creation number `n = 0, 1, 2, …`; the driver keeps the
map from the numbers of the items that still exist to their slots, everything else is `Model.step`.

```
cfg <c>                         -> cfg <c> K <k>          fresh slab, `k` slots per page (table `cfgK`)
ref+                            -> ok                     `Op.retain`
ref-                            -> ok dead <0|1>          `Op.release`
add                             -> item <n> slot <id> page <id / K> off <id % K> items <num_items>
num                             -> items <num_items>
iclone <n> | eclone <n>         -> ok rc <item counter afterwards>
idrop <n> | idropw <n> | iinto <n> | iforce <n>           -> gone <freed> dead 0 items <k>
toext <n>                       -> ok
edrop <n> | edropw <n> | einto <n>                        -> gone <freed> dead <d> items <k | ->
mt <threads> <rounds> <seed>    -> mt ok                  (oracle-only phase on a separate slab)
```
An operation that `Model.legal` rejects (documented precondition violated, slab deallocated, item
gone): `refused`. Anything else: `bad-op`. The slot `id` printed by the harness is the ORDER OF
FIRST HAND-OUT of the address, `page` the order of first sight of the page, `off` is computed from
the address; the model predicts them as `id`, `id / K`, `id % K` of its slot number.
-/
namespace OxiddModel.ArcSlab

/-- slots per page of the harness configurations: `(PAGE_SIZE - 16) / size_of::<ArcItem<Pay<N>>>()`
for `(PAGE_SIZE, N)` = (64,1), (64,0), (128,0), (128,1), (256,0), (1024,1), item size `24 + 8 N` -/
def cfgK : Nat → Option Nat
  | 0 => some 1 | 1 => some 2 | 2 => some 4 | 3 => some 3 | 4 => some 10 | 5 => some 31
  | _ => none

structure DState where
  slab : Option Slab
  /-- existing items: creation number ↦ slot -/
  names : List (Nat × Nat)
  next : Nat

def DState.init : DState := { slab := none, names := [], next := 0 }

def lookupName (l : List (Nat × Nat)) (n : Nat) : Option Nat :=
  match l.find? (fun p => p.1 = n) with
  | some p => some p.2
  | none => none

def itemsStr (s : Slab) : String := if s.dead then "-" else toString s.items

def rcStr (s : Slab) (x : Nat) : String :=
  match findItem s.live x with
  | some i => toString i.rc
  | none => "?"

/-- operations on an item: parse the verb -/
def itemOp (verb : String) (x : Nat) : Option Op :=
  match verb with
  | "iclone" => some (.iclone x)
  | "idrop" => some (.idrop x)
  | "idropw" => some (.idrop x)
  | "iinto" => some (.iinto x)
  | "iforce" => some (.iforce x)
  | "toext" => some (.toExt x)
  | "eclone" => some (.eclone x)
  | "edrop" => some (.edrop x)
  | "edropw" => some (.edrop x)
  | "einto" => some (.einto x)
  | _ => none

def dstep (d : DState) (line : String) : DState × String :=
  match words line, d.slab with
  | ["cfg", c], none =>
    match c.toNat? with
    | some c =>
      match cfgK c with
      | some k => ({ d with slab := some (Slab.new k) }, s!"cfg {c} K {k}")
      | none => (d, "bad-op")
    | none => (d, "bad-op")
  | ["mt", a, b, c], some s =>
    match a.toNat?, b.toNat?, c.toNat? with
    | some t, some r, some _ =>
      if t < 1 || 16 < t || 100000 < r then (d, "bad-op")
      else if s.dead then (d, "refused") else (d, "mt ok")
    | _, _, _ => (d, "bad-op")
  | ["ref+"], some s =>
    match step s .retain with
    | some (s1, _) => ({ d with slab := some s1 }, "ok")
    | none => (d, "refused")
  | ["ref-"], some s =>
    match step s .release with
    | some (s1, _) => ({ d with slab := some s1 }, s!"ok dead {boolStr s1.dead}")
    | none => (d, "refused")
  | ["num"], some s =>
    match step s .numItems with
    | some (_, .num n) => (d, s!"items {n}")
    | _ => (d, "refused")
  | ["add"], some s =>
    match step s .add with
    | some (s1, .slot x) =>
      ({ slab := some s1, names := (d.next, x) :: d.names, next := d.next + 1 },
        s!"item {d.next} slot {x} page {x / s.K} off {x % s.K} items {s1.items}")
    | _ => (d, "refused")
  | [verb, n], some s =>
    match n.toNat? with
    | none => (d, "bad-op")
    | some n =>
      match itemOp verb 0 with
      | none => (d, "bad-op")
      | some _ =>
        match lookupName d.names n with
        | none => (d, "refused")
        | some x =>
          match itemOp verb x with
          | none => (d, "bad-op")
          | some op =>
            match step s op with
            | none => (d, "refused")
            | some (s1, .gone freed dead) =>
              ({ d with slab := some s1,
                        names := if freed then d.names.filter (fun p => p.1 ≠ n) else d.names },
                s!"gone {boolStr freed} dead {boolStr dead} items {itemsStr s1}")
            | some (s1, _) =>
              ({ d with slab := some s1 },
                if verb = "toext" then "ok" else s!"ok rc {rcStr s1 x}")
  | _, _ => (d, "bad-op")

def proto : Proto := { σ := DState, init := DState.init, step := dstep }

end OxiddModel.ArcSlab
