import OxiddModel.ArcSlab.LemmasList

/-! The invariant of `ArcSlab` and its preservation by every admissible operation. -/
namespace OxiddModel.ArcSlab

/-- slot structure of a slab that has not been deallocated -/
structure SlotInv (s : Slab) : Prop where
  /-- SAFETY invariant of `PageList::free_slot`: there is always a free slot -/
  ne : s.free ≠ []
  ndF : s.free.Nodup
  ndL : (slots s.live).Nodup
  disj : ∀ x, x ∈ s.free → x ∉ slots s.live
  /-- the slots of the allocated pages are exactly the free and the occupied ones -/
  bound : ∀ x, (x ∈ s.free ∨ x ∈ slots s.live) ↔ x < s.pages * s.K
  cnt : s.items = s.live.length
  cap : s.items + s.free.length = s.pages * s.K

/-- every occupied slot: the item counter is the number of handles, and there is a handle -/
def ItemInv (l : List Item) : Prop := ∀ i ∈ l, i.rc = i.nInt + i.nExt ∧ 0 < i.rc

structure Inv (s : Slab) : Prop where
  kpos : 0 < s.K
  alive : s.dead = false →
    SlotInv s ∧ ItemInv s.live ∧ s.rc = s.refs + extTotal s.live ∧ 0 < s.rc
  deadc : s.dead = true → s.rc = 0 ∧ s.refs = 0 ∧ s.live = [] ∧ s.items = 0

theorem inv_new {K : Nat} (hK : 0 < K) : Inv (Slab.new K) := by
  refine ⟨hK, fun _ => ⟨⟨?_, ?_, ?_, ?_, ?_, ?_, ?_⟩, ?_, ?_, ?_⟩, fun h => by simp [Slab.new] at h⟩
  · simp only [Slab.new]; intro h
    have := congrArg List.length h
    simp at this; omega
  · simp only [Slab.new]; exact List.nodup_range'
  · simp [Slab.new, slots]
  · simp [Slab.new, slots]
  · intro x; simp [Slab.new, slots, List.mem_range'_1]
  · simp [Slab.new]
  · simp [Slab.new]
  · intro i hi; simp [Slab.new] at hi
  · simp [Slab.new, extTotal]
  · simp [Slab.new]

/-! ### `add_item` -/

theorem getSlot_head {s : Slab} (h : s.free ≠ []) : ∃ r, s.free = (getSlot s).1 :: r := by
  unfold getSlot
  match hf : s.free with
  | [] => exact absurd hf h
  | [x] => exact ⟨[], rfl⟩
  | x :: y :: r => exact ⟨y :: r, rfl⟩

theorem addItem_fields (s : Slab) :
    (addItem s).2.K = s.K ∧ (addItem s).2.rc = s.rc ∧ (addItem s).2.dead = s.dead ∧
    (addItem s).2.refs = s.refs ∧ (addItem s).2.items = s.items + 1 ∧
    (addItem s).2.live = { slot := (addItem s).1, rc := 1, nInt := 1, nExt := 0 } :: s.live := by
  unfold addItem getSlot
  match s.free with
  | [] => simp [writeItem, itemsInc]
  | [x] => simp [writeItem, itemsInc]
  | x :: y :: r => simp [writeItem, itemsInc]

theorem addItem_slotInv {s : Slab} (hK : 0 < s.K) (h : SlotInv s) :
    SlotInv (addItem s).2 ∧ (addItem s).1 ∈ s.free ∧ (addItem s).1 ∉ slots s.live := by
  obtain ⟨ne, ndF, ndL, disj, bound, cnt, cap⟩ := h
  unfold addItem getSlot
  match hf : s.free with
  | [] => exact absurd hf ne
  | x :: y :: r =>
    rw [hf] at ndF disj bound cap
    have hx : x ∉ slots s.live := disj x (by simp)
    simp only [List.nodup_cons] at ndF
    refine ⟨⟨?_, ?_, ?_, ?_, ?_, ?_, ?_⟩, by simp, hx⟩
    · simp [writeItem, itemsInc]
    · simp only [writeItem, itemsInc, List.nodup_cons]; exact ndF.2
    · simp only [writeItem, itemsInc, slots, List.map_cons, List.nodup_cons]
      exact ⟨hx, ndL⟩
    · intro z hz
      simp only [writeItem, itemsInc] at hz
      simp only [writeItem, itemsInc, slots, List.map_cons, List.mem_cons, not_or]
      refine ⟨?_, disj z (List.mem_cons_of_mem _ hz)⟩
      intro e; subst e; exact ndF.1 hz
    · intro z
      simp only [writeItem, itemsInc, slots, List.map_cons, List.mem_cons]
      have := bound z
      simp only [List.mem_cons, slots] at this
      rw [← this]
      constructor
      · rintro (h | h | h)
        · exact Or.inl (Or.inr h)
        · exact Or.inl (Or.inl h)
        · exact Or.inr h
      · rintro ((h | h) | h)
        · exact Or.inr (Or.inl h)
        · exact Or.inl h
        · exact Or.inr (Or.inr h)
    · simp [writeItem, itemsInc, cnt]
    · simp only [writeItem, itemsInc, List.length_cons] at cap ⊢; omega
  | [x] =>
    rw [hf] at ndF disj bound cap
    have hx : x ∉ slots s.live := disj x (by simp)
    have hxb : x < s.pages * s.K := (bound x).1 (Or.inl (by simp))
    have hmul : (s.pages + 1) * s.K = s.pages * s.K + s.K := by
      rw [Nat.add_mul, Nat.one_mul]
    refine ⟨⟨?_, ?_, ?_, ?_, ?_, ?_, ?_⟩, by simp, hx⟩
    · simp only [writeItem, itemsInc]; intro h
      have := congrArg List.length h
      simp at this; omega
    · simp only [writeItem, itemsInc]; exact List.nodup_range'
    · simp only [writeItem, itemsInc, slots, List.map_cons, List.nodup_cons]
      exact ⟨hx, ndL⟩
    · intro z hz
      simp only [writeItem, itemsInc, List.mem_range'_1] at hz
      simp only [writeItem, itemsInc, slots, List.map_cons, List.mem_cons, not_or]
      refine ⟨by omega, ?_⟩
      intro hm
      have := (bound z).1 (Or.inr hm)
      omega
    · intro z
      simp only [writeItem, itemsInc, slots, List.map_cons, List.mem_cons, List.mem_range'_1]
      rw [hmul]
      have := bound z
      simp only [List.mem_cons, List.not_mem_nil, or_false, slots] at this
      constructor
      · rintro (h | h | h)
        · omega
        · omega
        · have := this.1 (Or.inr h); omega
      · intro h
        by_cases hz : z < s.pages * s.K
        · rcases this.2 hz with h1 | h1
          · exact Or.inr (Or.inl h1)
          · exact Or.inr (Or.inr h1)
        · exact Or.inl (by omega)
    · simp [writeItem, itemsInc, cnt]
    · simp only [writeItem, itemsInc, List.length_cons, List.length_range', List.length_nil] at cap ⊢
      rw [hmul]; omega

/-- when `add_item` allocates a page, every slot of every older page is occupied -/
theorem addItem_pages (s : Slab) :
    (addItem s).2.pages = (if s.free.length = 1 then s.pages + 1 else s.pages) := by
  unfold addItem getSlot
  match s.free with
  | [] => simp [writeItem, itemsInc]
  | [x] => simp [writeItem, itemsInc]
  | x :: y :: r => simp [writeItem, itemsInc]

/-! ### giving a slot back -/

theorem free_fields (s : Slab) (x : Nat) :
    (freeSlot (takeItem s x) x).K = s.K ∧ (freeSlot (takeItem s x) x).rc = s.rc ∧
    (freeSlot (takeItem s x) x).dead = s.dead ∧ (freeSlot (takeItem s x) x).refs = s.refs ∧
    (freeSlot (takeItem s x) x).pages = s.pages ∧
    (freeSlot (takeItem s x) x).items = s.items - 1 ∧
    (freeSlot (takeItem s x) x).live = remItem s.live x ∧
    (freeSlot (takeItem s x) x).free = x :: s.free := by
  simp [freeSlot, takeItem, pushFree, itemsDec]

theorem free_slotInv {s : Slab} {x : Nat} (h : SlotInv s) (hx : x ∈ slots s.live) :
    SlotInv (freeSlot (takeItem s x) x) := by
  obtain ⟨ne, ndF, ndL, disj, bound, cnt, cap⟩ := h
  obtain ⟨e1, _, _, _, e5, e6, e7, e8⟩ := free_fields s x
  have hlen := length_remItem ndL hx
  refine ⟨?_, ?_, ?_, ?_, ?_, ?_, ?_⟩
  · rw [e8]; simp
  · rw [e8, List.nodup_cons]
    exact ⟨fun hm => disj x hm hx, ndF⟩
  · rw [e7]; exact nodup_slots_remItem x ndL
  · intro z hz hm
    rw [e8] at hz; rw [e7] at hm
    have hm' := mem_slots_remItem.1 hm
    rcases List.mem_cons.1 hz with e | e
    · exact hm'.2 e
    · exact disj z e hm'.1
  · intro z
    rw [e1, e5, e7, e8, ← bound z]
    simp only [List.mem_cons, mem_slots_remItem]
    constructor
    · rintro ((h | h) | h)
      · subst h; exact Or.inr hx
      · exact Or.inl h
      · exact Or.inr h.1
    · rintro (h | h)
      · exact Or.inl (Or.inr h)
      · by_cases e : z = x
        · exact Or.inl (Or.inl e)
        · exact Or.inr ⟨h, e⟩
  · rw [e6, e7]; omega
  · rw [e1, e5, e6, e8, List.length_cons]; omega

/-- a change of one item's counters leaves the slot structure alone -/
theorem upd_slotInv {s : Slab} (x : Nat) (f : Item → Item) (hf : ∀ i, (f i).slot = i.slot)
    (h : SlotInv s) : SlotInv { s with live := updItem s.live x f } := by
  obtain ⟨ne, ndF, ndL, disj, bound, cnt, cap⟩ := h
  refine ⟨ne, ndF, ?_, ?_, ?_, ?_, cap⟩
  · show (slots (updItem s.live x f)).Nodup
    rw [slots_updItem _ _ _ hf]; exact ndL
  · intro z hz
    show z ∉ slots (updItem s.live x f)
    rw [slots_updItem _ _ _ hf]; exact disj z hz
  · intro z
    show (z ∈ s.free ∨ z ∈ slots (updItem s.live x f)) ↔ _
    rw [slots_updItem _ _ _ hf]; exact bound z
  · show s.items = (updItem s.live x f).length
    rw [length_updItem]; exact cnt

theorem upd_itemInv {l : List Item} {x : Nat} {i0 : Item} (f : Item → Item)
    (hn : (slots l).Nodup) (hfi : findItem l x = some i0) (h : ItemInv l)
    (hf : (f i0).rc = (f i0).nInt + (f i0).nExt ∧ 0 < (f i0).rc) : ItemInv (updItem l x f) := by
  intro j hj
  rcases mem_updItem hj with ⟨hm, _⟩ | ⟨i, hi, hx, e⟩
  · exact h j hm
  · have := item_unique hn hfi hi hx
    subst this; subst e; exact hf

theorem rem_itemInv {l : List Item} (x : Nat) (h : ItemInv l) : ItemInv (remItem l x) :=
  fun j hj => h j (mem_remItem hj)

end OxiddModel.ArcSlab
