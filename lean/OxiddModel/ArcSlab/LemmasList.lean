import OxiddModel.ArcSlab.Model

/-! List lemmas about `slots`, `findItem`, `updItem`, `remItem`, `extTotal`, `intTotal`. -/
namespace OxiddModel.ArcSlab

theorem mem_slots {l : List Item} {x : Nat} : x ∈ slots l ↔ ∃ i ∈ l, i.slot = x := by
  simp [slots]

theorem findItem_some {l : List Item} {x : Nat} {i : Item} (h : findItem l x = some i) :
    i ∈ l ∧ i.slot = x := by
  unfold findItem at h
  have h1 := List.mem_of_find?_eq_some h
  have h2 := List.find?_some h
  simp at h2
  exact ⟨h1, h2⟩

theorem findItem_none {l : List Item} {x : Nat} (h : findItem l x = none) : x ∉ slots l := by
  unfold findItem at h
  rw [List.find?_eq_none] at h
  intro hm
  obtain ⟨i, hi, hx⟩ := mem_slots.1 hm
  have := h i hi
  simp [hx] at this

theorem findItem_isSome_of_mem {l : List Item} {x : Nat} (h : x ∈ slots l) :
    ∃ i, findItem l x = some i := by
  cases hf : findItem l x with
  | none => exact absurd h (findItem_none hf)
  | some i => exact ⟨i, rfl⟩

theorem findItem_cons (i : Item) (l : List Item) (x : Nat) :
    findItem (i :: l) x = if i.slot = x then some i else findItem l x := by
  unfold findItem
  by_cases h : i.slot = x <;> simp [List.find?_cons, h]

theorem updItem_not_mem {l : List Item} {x : Nat} (f : Item → Item) (h : x ∉ slots l) :
    updItem l x f = l := by
  induction l with
  | nil => rfl
  | cons i l ih =>
    simp [slots] at h
    have h1 : ¬ i.slot = x := fun e => h.1 e.symm
    have h2 : x ∉ slots l := by simp [slots]; exact h.2
    simp only [updItem, List.map_cons, h1, if_false]
    have := ih h2
    simp only [updItem] at this
    rw [this]

theorem remItem_cons_eq {i : Item} {x : Nat} (l : List Item) (h : i.slot = x) :
    remItem (i :: l) x = remItem l x := by simp [remItem, h]

theorem remItem_cons_ne {i : Item} {x : Nat} (l : List Item) (h : i.slot ≠ x) :
    remItem (i :: l) x = i :: remItem l x := by simp [remItem, h]

theorem remItem_not_mem {l : List Item} {x : Nat} (h : x ∉ slots l) : remItem l x = l := by
  induction l with
  | nil => rfl
  | cons i l ih =>
    simp [slots] at h
    have h1 : i.slot ≠ x := fun e => h.1 e.symm
    have h2 : x ∉ slots l := by simp [slots]; exact h.2
    rw [remItem_cons_ne l h1, ih h2]

theorem slots_updItem (l : List Item) (x : Nat) (f : Item → Item)
    (hf : ∀ i, (f i).slot = i.slot) : slots (updItem l x f) = slots l := by
  induction l with
  | nil => rfl
  | cons i l ih =>
    simp only [slots, updItem, List.map_cons] at ih ⊢
    rw [ih]
    by_cases h : i.slot = x <;> simp [h, hf]

theorem length_updItem (l : List Item) (x : Nat) (f : Item → Item) :
    (updItem l x f).length = l.length := by
  simp [updItem]

theorem mem_slots_remItem {l : List Item} {x z : Nat} :
    z ∈ slots (remItem l x) ↔ z ∈ slots l ∧ z ≠ x := by
  simp only [mem_slots, remItem, List.mem_filter]
  constructor
  · rintro ⟨i, ⟨hi, hp⟩, rfl⟩
    simp at hp
    exact ⟨⟨i, hi, rfl⟩, hp⟩
  · rintro ⟨⟨i, hi, rfl⟩, hz⟩
    exact ⟨i, ⟨hi, by simp [hz]⟩, rfl⟩

theorem nodup_slots_remItem {l : List Item} (x : Nat) (h : (slots l).Nodup) :
    (slots (remItem l x)).Nodup := by
  induction l with
  | nil => simp [remItem, slots]
  | cons i l ih =>
    simp only [slots, List.map_cons, List.nodup_cons] at h
    have ih' := ih h.2
    by_cases hx : i.slot = x
    · have : remItem (i :: l) x = remItem l x := by simp [remItem, List.filter_cons, hx]
      rw [this]; exact ih'
    · have : remItem (i :: l) x = i :: remItem l x := by simp [remItem, List.filter_cons, hx]
      rw [this]
      simp only [slots, List.map_cons, List.nodup_cons]
      refine ⟨?_, ih'⟩
      intro hm
      have := (mem_slots_remItem (l := l) (x := x) (z := i.slot)).1 hm
      exact h.1 this.1

theorem length_remItem {l : List Item} {x : Nat} (hn : (slots l).Nodup) (hm : x ∈ slots l) :
    (remItem l x).length + 1 = l.length := by
  induction l with
  | nil => simp [slots] at hm
  | cons i l ih =>
    simp only [slots, List.map_cons, List.nodup_cons] at hn
    by_cases hx : i.slot = x
    · have hnm : x ∉ slots l := by rw [← hx]; exact hn.1
      rw [remItem_cons_eq l hx, remItem_not_mem hnm]; simp
    · have : remItem (i :: l) x = i :: remItem l x := by simp [remItem, List.filter_cons, hx]
      rw [this]
      have hm' : x ∈ slots l := by
        simp only [slots, List.map_cons, List.mem_cons] at hm
        rcases hm with h | h
        · exact absurd h.symm hx
        · exact h
      have := ih hn.2 hm'
      simp only [List.length_cons]; omega

/-- with pairwise different slots, `findItem` determines the item with that slot -/
theorem item_unique {l : List Item} {x : Nat} {i0 i : Item} (hn : (slots l).Nodup)
    (hf : findItem l x = some i0) (hi : i ∈ l) (hx : i.slot = x) : i = i0 := by
  induction l with
  | nil => simp at hi
  | cons j l ih =>
    simp only [slots, List.map_cons, List.nodup_cons] at hn
    rw [findItem_cons] at hf
    by_cases hj : j.slot = x
    · simp [hj] at hf
      subst hf
      rcases List.mem_cons.1 hi with h | h
      · exact h
      · exfalso; apply hn.1; rw [hj, ← hx]; exact mem_slots.2 ⟨i, h, rfl⟩
    · simp [hj] at hf
      rcases List.mem_cons.1 hi with h | h
      · subst h; exact absurd hx hj
      · exact ih hn.2 hf h

theorem extTotal_updItem {l : List Item} {x : Nat} {i0 : Item} (f : Item → Item)
    (hn : (slots l).Nodup) (hf : findItem l x = some i0) :
    extTotal (updItem l x f) + i0.nExt = extTotal l + (f i0).nExt := by
  induction l with
  | nil => simp [findItem] at hf
  | cons j l ih =>
    simp only [slots, List.map_cons, List.nodup_cons] at hn
    rw [findItem_cons] at hf
    by_cases hj : j.slot = x
    · simp [hj] at hf
      subst hf
      have hnm : x ∉ slots l := by rw [← hj]; exact hn.1
      have := updItem_not_mem f hnm
      simp only [updItem, List.map_cons, hj, if_true] at this ⊢
      rw [this]; simp only [extTotal]; omega
    · simp [hj] at hf
      have := ih hn.2 hf
      simp only [updItem, List.map_cons, hj, if_false] at this ⊢
      simp only [extTotal]; omega

theorem intTotal_updItem {l : List Item} {x : Nat} {i0 : Item} (f : Item → Item)
    (hn : (slots l).Nodup) (hf : findItem l x = some i0) :
    intTotal (updItem l x f) + i0.nInt = intTotal l + (f i0).nInt := by
  induction l with
  | nil => simp [findItem] at hf
  | cons j l ih =>
    simp only [slots, List.map_cons, List.nodup_cons] at hn
    rw [findItem_cons] at hf
    by_cases hj : j.slot = x
    · simp [hj] at hf
      subst hf
      have hnm : x ∉ slots l := by rw [← hj]; exact hn.1
      have := updItem_not_mem f hnm
      simp only [updItem, List.map_cons, hj, if_true] at this ⊢
      rw [this]; simp only [intTotal]; omega
    · simp [hj] at hf
      have := ih hn.2 hf
      simp only [updItem, List.map_cons, hj, if_false] at this ⊢
      simp only [intTotal]; omega

theorem extTotal_remItem {l : List Item} {x : Nat} {i0 : Item}
    (hn : (slots l).Nodup) (hf : findItem l x = some i0) :
    extTotal (remItem l x) + i0.nExt = extTotal l := by
  induction l with
  | nil => simp [findItem] at hf
  | cons j l ih =>
    simp only [slots, List.map_cons, List.nodup_cons] at hn
    rw [findItem_cons] at hf
    by_cases hj : j.slot = x
    · simp [hj] at hf
      subst hf
      have hnm : x ∉ slots l := by rw [← hj]; exact hn.1
      rw [remItem_cons_eq l hj, remItem_not_mem hnm]
      simp only [extTotal]; omega
    · simp [hj] at hf
      have := ih hn.2 hf
      rw [remItem_cons_ne l hj]
      simp only [extTotal]; omega

theorem intTotal_remItem {l : List Item} {x : Nat} {i0 : Item}
    (hn : (slots l).Nodup) (hf : findItem l x = some i0) :
    intTotal (remItem l x) + i0.nInt = intTotal l := by
  induction l with
  | nil => simp [findItem] at hf
  | cons j l ih =>
    simp only [slots, List.map_cons, List.nodup_cons] at hn
    rw [findItem_cons] at hf
    by_cases hj : j.slot = x
    · simp [hj] at hf
      subst hf
      have hnm : x ∉ slots l := by rw [← hj]; exact hn.1
      rw [remItem_cons_eq l hj, remItem_not_mem hnm]
      simp only [intTotal]; omega
    · simp [hj] at hf
      have := ih hn.2 hf
      rw [remItem_cons_ne l hj]
      simp only [intTotal]; omega

theorem mem_updItem {l : List Item} {x : Nat} {f : Item → Item} {j : Item}
    (h : j ∈ updItem l x f) : (j ∈ l ∧ j.slot ≠ x) ∨ (∃ i ∈ l, i.slot = x ∧ j = f i) := by
  simp only [updItem, List.mem_map] at h
  obtain ⟨i, hi, he⟩ := h
  by_cases hx : i.slot = x
  · simp [hx] at he; exact Or.inr ⟨i, hi, hx, he.symm⟩
  · simp [hx] at he; subst he; exact Or.inl ⟨hi, hx⟩

theorem mem_remItem {l : List Item} {x : Nat} {j : Item} (h : j ∈ remItem l x) : j ∈ l :=
  (List.mem_filter.1 h).1

theorem le_extTotal {l : List Item} {i : Item} (h : i ∈ l) : i.nExt ≤ extTotal l := by
  induction l with
  | nil => simp at h
  | cons j l ih =>
    rcases List.mem_cons.1 h with e | e
    · subst e; simp only [extTotal]; omega
    · have := ih e; simp only [extTotal]; omega

theorem le_intTotal {l : List Item} {i : Item} (h : i ∈ l) : i.nInt ≤ intTotal l := by
  induction l with
  | nil => simp at h
  | cons j l ih =>
    rcases List.mem_cons.1 h with e | e
    · subst e; simp only [intTotal]; omega
    · have := ih e; simp only [intTotal]; omega

end OxiddModel.ArcSlab
