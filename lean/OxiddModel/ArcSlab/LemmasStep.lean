import OxiddModel.ArcSlab.LemmasInv

/-! Every admissible operation preserves `Inv`. -/
namespace OxiddModel.ArcSlab

theorem slotInv_congr {s t : Slab} (h : SlotInv s) (h1 : t.free = s.free) (h2 : t.live = s.live)
    (h3 : t.pages = s.pages) (h4 : t.K = s.K) (h5 : t.items = s.items) :
    SlotInv t := by
  obtain ⟨ne, ndF, ndL, disj, bound, cnt, cap⟩ := h
  refine ⟨?_, ?_, ?_, ?_, ?_, ?_, ?_⟩
  · rw [h1]; exact ne
  · rw [h1]; exact ndF
  · rw [h2]; exact ndL
  · rw [h1, h2]; exact disj
  · rw [h1, h2, h3, h4]; exact bound
  · rw [h2, h5]; exact cnt
  · rw [h1, h3, h4, h5]; exact cap

/-- what `Slot::retain` does to the state -/
theorem itemRetain_spec {s : Slab} {x : Nat} {i0 : Item} (ext : Bool)
    (hS : SlotInv s) (hI : ItemInv s.live) (hf : findItem s.live x = some i0) :
    SlotInv (itemRetain s x ext) ∧ ItemInv (itemRetain s x ext).live ∧
    extTotal (itemRetain s x ext).live = extTotal s.live + (if ext then 1 else 0) ∧
    intTotal (itemRetain s x ext).live = intTotal s.live + (if ext then 0 else 1) := by
  have hi0 := hI i0 (findItem_some hf).1
  refine ⟨upd_slotInv x _ (fun _ => rfl) hS, upd_itemInv _ hS.ndL hf hI ?_, ?_, ?_⟩
  · cases ext <;> simp [retF] <;> omega
  · have := extTotal_updItem (retF ext) hS.ndL hf
    simp only [itemRetain]
    cases ext <;> simp [retF] at this ⊢ <;> omega
  · have := intTotal_updItem (retF ext) hS.ndL hf
    simp only [itemRetain]
    cases ext <;> simp [retF] at this ⊢ <;> omega

/-- what `Slot::release` / `release_move` / `force_into_inner` do when the slot is freed -/
theorem free_spec {s : Slab} {x : Nat} {i0 : Item}
    (hS : SlotInv s) (hI : ItemInv s.live) (hf : findItem s.live x = some i0) :
    SlotInv (freeSlot (takeItem s x) x) ∧ ItemInv (freeSlot (takeItem s x) x).live ∧
    extTotal (freeSlot (takeItem s x) x).live + i0.nExt = extTotal s.live ∧
    intTotal (freeSlot (takeItem s x) x).live + i0.nInt = intTotal s.live := by
  have hx : x ∈ slots s.live := mem_slots.2 ⟨i0, findItem_some hf⟩
  obtain ⟨_, _, _, _, _, _, e7, _⟩ := free_fields s x
  refine ⟨free_slotInv hS hx, ?_, ?_, ?_⟩
  · rw [e7]; exact rem_itemInv x hI
  · rw [e7]; exact extTotal_remItem hS.ndL hf
  · rw [e7]; exact intTotal_remItem hS.ndL hf

theorem itemRelease_fields (s : Slab) (x : Nat) (ext : Bool) :
    (itemRelease s x ext).2.K = s.K ∧ (itemRelease s x ext).2.rc = s.rc ∧
    (itemRelease s x ext).2.dead = s.dead ∧ (itemRelease s x ext).2.refs = s.refs ∧
    (itemRelease s x ext).2.pages = s.pages := by
  unfold itemRelease
  cases findItem s.live x with
  | none => simp
  | some i =>
    by_cases h : i.rc = 1
    · simp only [h, if_true]
      obtain ⟨a, b, c, d, e, _⟩ := free_fields s x
      exact ⟨a, b, c, d, e⟩
    · simp [h]

theorem itemRelease_spec {s : Slab} {x : Nat} {i0 : Item} (ext : Bool)
    (hS : SlotInv s) (hI : ItemInv s.live) (hf : findItem s.live x = some i0)
    (hh : if ext then 0 < i0.nExt else 0 < i0.nInt) :
    SlotInv (itemRelease s x ext).2 ∧ ItemInv (itemRelease s x ext).2.live ∧
    extTotal (itemRelease s x ext).2.live + (if ext then 1 else 0) = extTotal s.live ∧
    intTotal (itemRelease s x ext).2.live + (if ext then 0 else 1) = intTotal s.live ∧
    (itemRelease s x ext).1 = decide (i0.rc = 1) := by
  have hi0 := hI i0 (findItem_some hf).1
  unfold itemRelease
  rw [hf]
  by_cases h : i0.rc = 1
  · simp only [h, if_true, decide_true]
    obtain ⟨a, b, c, d⟩ := free_spec hS hI hf
    refine ⟨a, b, ?_, ?_, trivial⟩
    · cases ext <;> simp at hh ⊢ <;> omega
    · cases ext <;> simp at hh ⊢ <;> omega
  · simp only [h, if_false, decide_false]
    refine ⟨upd_slotInv x _ (fun _ => rfl) hS, upd_itemInv _ hS.ndL hf hI ?_, ?_, ?_, trivial⟩
    · cases ext <;> simp [relF] at hh ⊢ <;> omega
    · have := extTotal_updItem (relF ext) hS.ndL hf
      cases ext <;> simp [relF] at hh this ⊢ <;> omega
    · have := intTotal_updItem (relF ext) hS.ndL hf
      cases ext <;> simp [relF] at hh this ⊢ <;> omega

/-- no handle of any kind on any item: there is no item -/
theorem live_nil_of_totals {l : List Item} (hI : ItemInv l) (he : extTotal l = 0)
    (hi : intTotal l = 0) : l = [] := by
  cases l with
  | nil => rfl
  | cons i l =>
    have h := hI i (by simp)
    have h1 := le_extTotal (l := i :: l) (i := i) (by simp)
    have h2 := le_intTotal (l := i :: l) (i := i) (by simp)
    omega

/-- `ArcSlab::release` after the ghost count of the reference given up was decremented -/
theorem slabRelease_inv {t : Slab} (hK : 0 < t.K) (hd : t.dead = false) (hS : SlotInv t)
    (hI : ItemInv t.live) (hrc : t.rc = t.refs + extTotal t.live + 1)
    (hint : t.refs + extTotal t.live = 0 → intTotal t.live = 0) :
    Inv (slabRelease t) ∧ ((slabRelease t).dead = true ↔ t.refs + extTotal t.live = 0) := by
  unfold slabRelease
  by_cases h : t.rc = 1
  · simp only [h, if_true]
    have h0 : t.refs + extTotal t.live = 0 := by omega
    have hl := live_nil_of_totals hI (by omega) (hint h0)
    refine ⟨⟨hK, fun hd' => by simp at hd', fun _ => ⟨rfl, by simp; omega, hl, ?_⟩⟩, by simp [h0]⟩
    have := hS.cnt
    rw [hl] at this; simpa using this
  · simp only [h, if_false]
    have h0 : ¬ (t.refs + extTotal t.live = 0) := by omega
    refine ⟨⟨hK, fun _ => ⟨slotInv_congr hS rfl rfl rfl rfl rfl, hI, ?_, ?_⟩,
      fun hd' => by simp [hd] at hd'⟩, by simp [hd]; omega⟩
    · simp only; omega
    · simp only; omega

theorem legal_alive {s : Slab} {op : Op} (h : legal s op = true) : s.dead = false := by
  cases op <;> simp [legal] at h <;> (try exact h.1) <;> (try exact h.1.1) <;> (try exact h)

theorem inv_exec {s : Slab} {op : Op} (hinv : Inv s) (hl : legal s op = true) :
    Inv (exec s op).1 := by
  have hd := legal_alive hl
  obtain ⟨hS, hI, hrc, hpos⟩ := hinv.alive hd
  have hK := hinv.kpos
  cases op with
  | retain =>
    refine ⟨hK, fun _ => ⟨slotInv_congr hS rfl rfl rfl rfl rfl, hI, ?_, ?_⟩, fun h => ?_⟩
    · simp only [exec, slabRetain]; omega
    · simp only [exec, slabRetain]; omega
    · simp [exec, slabRetain, hd] at h
  | release =>
    simp only [legal, Bool.and_eq_true, Bool.or_eq_true, decide_eq_true_eq, bne_iff_ne,
      Bool.not_eq_true'] at hl
    simp only [exec]
    refine (slabRelease_inv (t := { s with refs := s.refs - 1 }) hK hd
      (slotInv_congr hS rfl rfl rfl rfl rfl) hI ?_ ?_).1
    · simp only; omega
    · simp only; intro h0
      rcases hl.2 with h | h
      · simp at h; omega
      · exact h
  | add =>
    simp only [exec]
    obtain ⟨a, b, c, d, e, f⟩ := addItem_fields s
    obtain ⟨hS', _, _⟩ := addItem_slotInv hK hS
    refine ⟨by rw [a]; exact hK, fun _ => ⟨hS', ?_, ?_, by rw [b]; exact hpos⟩,
      fun h => by rw [c, hd] at h; simp at h⟩
    · rw [f]; intro i hi
      rcases List.mem_cons.1 hi with h | h
      · subst h; simp
      · exact hI i h
    · rw [b, d, f]; simp only [extTotal]; omega
  | numItems => exact hinv
  | iclone x =>
    simp only [legal, Bool.and_eq_true] at hl
    cases hf : findItem s.live x with
    | none => rw [hf] at hl; simp at hl
    | some i0 =>
      obtain ⟨a, b, c, _⟩ := itemRetain_spec false hS hI hf
      refine ⟨hK, fun _ => ⟨a, b, ?_, hpos⟩, fun h => by simp [exec, itemRetain, hd] at h⟩
      simp only [exec]; rw [c]; simpa [itemRetain] using hrc
  | idrop x =>
    simp only [legal, Bool.and_eq_true] at hl
    cases hf : findItem s.live x with
    | none => rw [hf] at hl; simp at hl
    | some i0 =>
      rw [hf] at hl
      obtain ⟨a, b, c, _, _⟩ := itemRelease_spec false hS hI hf (by simpa using hl.2)
      obtain ⟨e1, e2, e3, e4, _⟩ := itemRelease_fields s x false
      simp only [exec]
      refine ⟨by rw [e1]; exact hK, fun _ => ⟨a, b, ?_, by rw [e2]; exact hpos⟩,
        fun h => by rw [e3, hd] at h; simp at h⟩
      rw [e2, e4]; simp at c; omega
  | iinto x =>
    simp only [legal, Bool.and_eq_true] at hl
    cases hf : findItem s.live x with
    | none => rw [hf] at hl; simp at hl
    | some i0 =>
      rw [hf] at hl
      obtain ⟨a, b, c, _, _⟩ := itemRelease_spec false hS hI hf (by simpa using hl.2)
      obtain ⟨e1, e2, e3, e4, _⟩ := itemRelease_fields s x false
      simp only [exec]
      refine ⟨by rw [e1]; exact hK, fun _ => ⟨a, b, ?_, by rw [e2]; exact hpos⟩,
        fun h => by rw [e3, hd] at h; simp at h⟩
      rw [e2, e4]; simp at c; omega
  | iforce x =>
    simp only [legal, Bool.and_eq_true] at hl
    cases hf : findItem s.live x with
    | none => rw [hf] at hl; simp at hl
    | some i0 =>
      rw [hf] at hl
      obtain ⟨a, b, c, _⟩ := free_spec hS hI hf
      obtain ⟨e1, e2, e3, e4, _⟩ := free_fields s x
      simp only [exec]
      refine ⟨by rw [e1]; exact hK, fun _ => ⟨a, b, ?_, by rw [e2]; exact hpos⟩,
        fun h => by rw [e3, hd] at h; simp at h⟩
      have := hl.2
      simp at this
      rw [e2, e4]; omega
  | toExt x =>
    simp only [legal, Bool.and_eq_true] at hl
    cases hf : findItem s.live x with
    | none => rw [hf] at hl; simp at hl
    | some i0 =>
      rw [hf] at hl
      have hn : 0 < i0.nInt := by simpa using hl.2
      have hi0 := hI i0 (findItem_some hf).1
      have hu := upd_slotInv x convF
        (fun _ => rfl) hS
      have hi := upd_itemInv convF
        hS.ndL hf hI (by simp [convF]; omega)
      have he := extTotal_updItem convF
        hS.ndL hf
      simp only [exec, slabRetain]
      refine ⟨hK, fun _ => ⟨slotInv_congr hu rfl rfl rfl rfl rfl, hi, ?_, ?_⟩,
        fun h => by simp [hd] at h⟩
      · simp only [convF] at he ⊢; omega
      · simp only; omega
  | eclone x =>
    simp only [legal, Bool.and_eq_true] at hl
    cases hf : findItem s.live x with
    | none => rw [hf] at hl; simp at hl
    | some i0 =>
      obtain ⟨a, b, c, _⟩ := itemRetain_spec true hS hI hf
      simp only [exec, slabRetain]
      refine ⟨hK, fun _ => ⟨slotInv_congr a rfl rfl rfl rfl rfl, b, ?_, ?_⟩,
        fun h => by simp [itemRetain, hd] at h⟩
      · simp only; rw [c]; simp [itemRetain]; omega
      · simp only [itemRetain]; omega
  | edrop x =>
    simp only [legal, Bool.and_eq_true, Bool.or_eq_true, decide_eq_true_eq, bne_iff_ne] at hl
    cases hf : findItem s.live x with
    | none => rw [hf] at hl; simp at hl
    | some i0 =>
      rw [hf] at hl
      obtain ⟨a, b, c, d, _⟩ := itemRelease_spec true hS hI hf (by simpa using hl.1.2)
      obtain ⟨e1, e2, e3, e4, _⟩ := itemRelease_fields s x true
      simp only [exec]
      refine (slabRelease_inv (by rw [e1]; exact hK) (by rw [e3]; exact hd) a b ?_ ?_).1
      · rw [e2, e4]; simp at c; omega
      · rw [e4]; intro h0
        simp at c d
        rcases hl.2 with h | h
        · simp at h; omega
        · omega
  | einto x =>
    simp only [legal, Bool.and_eq_true, Bool.or_eq_true, decide_eq_true_eq, bne_iff_ne] at hl
    cases hf : findItem s.live x with
    | none => rw [hf] at hl; simp at hl
    | some i0 =>
      rw [hf] at hl
      obtain ⟨a, b, c, d, _⟩ := itemRelease_spec true hS hI hf (by simpa using hl.1.2)
      obtain ⟨e1, e2, e3, e4, _⟩ := itemRelease_fields s x true
      simp only [exec]
      refine (slabRelease_inv (by rw [e1]; exact hK) (by rw [e3]; exact hd) a b ?_ ?_).1
      · rw [e2, e4]; simp at c; omega
      · rw [e4]; intro h0
        simp at c d
        rcases hl.2 with h | h
        · simp at h; omega
        · omega

theorem inv_step {s s' : Slab} {op : Op} {o : Obs} (hinv : Inv s)
    (h : step s op = some (s', o)) : Inv s' := by
  unfold step at h
  by_cases hl : legal s op = true
  · simp [hl] at h
    have e : s' = (exec s op).1 := by rw [h]
    rw [e]; exact inv_exec hinv hl
  · simp [hl] at h

theorem inv_reach {K : Nat} (hK : 0 < K) {s : Slab} (h : Reach K s) : Inv s := by
  induction h with
  | new => exact inv_new hK
  | step _ hs ih => exact inv_step ih hs

end OxiddModel.ArcSlab
