/-!
Model of the LOGIC of `ArcSlab` (`/repo/crates/arcslab/src/lib.rs`), the reference-counted slab in
which the pointer-based manager (`oxidd-manager-pointer`) keeps its nodes (C20 / C05).

What the code has (and what is modelled, in the same case structure):

* An `ArcSlab` owns a singly linked list of *pages* (`Page::prev`), each page holds `K ≥ 1` slots
  (`K = (PAGE_SIZE - header) / size_of::<Slot<I>>()`, the `assert!` in `Page::layout` demands
  `K ≥ 1`). Pages are never given back before the slab itself is deallocated
  (`PageList::drop → Page::dealloc` walks the whole chain). A slab is therefore UNBOUNDED: when it
  is "full" it allocates one more page.
* The free list is an *intrusive LIFO list* through the free slots (`Slot::next_free`), its head is
  `PageList::free_slot`, guarded by ONE `parking_lot::Mutex` (`ArcSlabInt::pages`); there are no
  per-thread caches. SAFETY invariant of the code: `free_slot` always points to a valid free slot,
  i.e. the list is never empty: `PageList::get_slot` takes the head and, when the head was the last
  free slot (`next_free` null), allocates the next page AT ONCE (eagerly), whose slots are linked in
  address order (`Page::new`).
* `add_item` = `lock; get_slot; unlock`, then `items.fetch_add(1)`, then the item is written.
* `Page::free_slot` = `items.fetch_sub(1)`, then `lock; slot.next_free = head; head = slot; unlock`.
* An item carries its own counter (`AtomicRefCounted`, here `ArcItem::rc`, initially 1).
  `IntHandle::clone`/`ExtHandle::clone` = `retain`; `drop`/`drop_with`/`into_inner` = `release`
  (`fetch_sub`), and the thread that reads the old value 1 moves the item out and calls
  `free_slot`. `force_into_inner` moves the item out WITHOUT touching the counter.
* The slab's own counter `ArcSlabInt::rc` (initially 1) counts `ArcSlabRef`s plus `ExtHandle`s
  (`From<IntHandle> for ExtHandle` and `ExtHandle::clone` call `ArcSlab::retain`, every way of
  giving up an `ExtHandle` calls `ArcSlab::release` AFTER releasing the item). `ArcSlab::release`
  deallocates the slab (data `D`, then all pages) iff it read the old value 1. Items still in slots
  are NOT dropped at that moment (`ManuallyDrop` in a union).

A slot is identified by the natural number `page * K + index` (pages numbered in allocation
order, slots in address order); `Properties.first_handout_order` shows that this is exactly the
order of first hand-out, which is what the harness observes.

Ghost fields (`refs`, `Item.nInt`, `Item.nExt`) count the handles that exist; they are never read by
the transition functions of the code, only by `legal` (the documented preconditions of the API:
one may only use a handle one has, `force_into_inner` needs the last reference, an `IntHandle`
must not outlive the slab).
-/
namespace OxiddModel.ArcSlab

structure Item where
  slot : Nat
  /-- `ArcItem::rc` -/
  rc : Nat
  /-- ghost: `IntHandle`s in existence -/
  nInt : Nat
  /-- ghost: `ExtHandle`s in existence -/
  nExt : Nat
deriving Repr, DecidableEq

structure Slab where
  /-- slots per page -/
  K : Nat
  /-- number of pages allocated (`current_page` and its `prev` chain) -/
  pages : Nat
  /-- the intrusive free list from `free_slot` along `next_free` -/
  free : List Nat
  /-- occupied slots -/
  live : List Item
  /-- `ArcSlabInt::items` -/
  items : Nat
  /-- `ArcSlabInt::rc` -/
  rc : Nat
  /-- the `Box` was dropped (data and all pages deallocated) -/
  dead : Bool
  /-- ghost: `ArcSlabRef`s in existence -/
  refs : Nat
deriving Repr, DecidableEq

/-- `ArcSlab::new` (`PageList::new`, `Page::new`: slots linked in address order) -/
def Slab.new (K : Nat) : Slab :=
  { K := K, pages := 1, free := List.range' 0 K, live := [], items := 0, rc := 1, dead := false,
    refs := 1 }

def slots (l : List Item) : List Nat := l.map (·.slot)

def findItem (l : List Item) (x : Nat) : Option Item := l.find? (fun i => i.slot = x)

def updItem (l : List Item) (x : Nat) (f : Item → Item) : List Item :=
  l.map (fun i => if i.slot = x then f i else i)

def remItem (l : List Item) (x : Nat) : List Item := l.filter (fun i => i.slot ≠ x)

def extTotal : List Item → Nat
  | [] => 0
  | i :: l => i.nExt + extTotal l

def intTotal : List Item → Nat
  | [] => 0
  | i :: l => i.nInt + intTotal l

/-! ### the atomic actions of the code -/

/-- `PageList::get_slot` (runs under the mutex) -/
def getSlot (s : Slab) : Nat × Slab :=
  match s.free with
  | [] => (0, s) -- excluded by the SAFETY invariant of `PageList::free_slot` (see `Inv`)
  | x :: y :: r => (x, { s with free := y :: r })
  | [x] => (x, { s with free := List.range' (s.pages * s.K) s.K, pages := s.pages + 1 })

/-- `items.fetch_add(1)` -/
def itemsInc (s : Slab) : Slab := { s with items := s.items + 1 }

/-- `items.fetch_sub(1)` -/
def itemsDec (s : Slab) : Slab := { s with items := s.items - 1 }

/-- the locked part of `Page::free_slot` -/
def pushFree (s : Slab) (x : Nat) : Slab := { s with free := x :: s.free }

/-- `ptr::write(slot, item)`: the slot becomes occupied by a fresh `ArcItem` (counter 1), the
caller holds one `IntHandle` -/
def writeItem (s : Slab) (x : Nat) : Slab :=
  { s with live := { slot := x, rc := 1, nInt := 1, nExt := 0 } :: s.live }

/-- `ManuallyDrop::take(&mut slot.item)`: the item is moved out of the slot -/
def takeItem (s : Slab) (x : Nat) : Slab := { s with live := remItem s.live x }

/-- `Page::free_slot` -/
def freeSlot (s : Slab) (x : Nat) : Slab := pushFree (itemsDec s) x

/-- `ArcSlab::add_item` -/
def addItem (s : Slab) : Nat × Slab :=
  let r := getSlot s
  (r.1, writeItem (itemsInc r.2) r.1)

/-- `fetch_add(1)` on the item counter; ghost: one more handle of the given kind -/
def retF (ext : Bool) (i : Item) : Item :=
  { i with rc := i.rc + 1, nInt := if ext then i.nInt else i.nInt + 1,
           nExt := if ext then i.nExt + 1 else i.nExt }

/-- `fetch_sub(1)` on the item counter; ghost: one handle of the given kind less -/
def relF (ext : Bool) (i : Item) : Item :=
  { i with rc := i.rc - 1, nInt := if ext then i.nInt else i.nInt - 1,
           nExt := if ext then i.nExt - 1 else i.nExt }

/-- ghost only: an `IntHandle` becomes an `ExtHandle` (the item counter is not touched) -/
def convF (i : Item) : Item := { i with nInt := i.nInt - 1, nExt := i.nExt + 1 }

/-- `Slot::retain` together with the ghost count of the new handle -/
def itemRetain (s : Slab) (x : Nat) (ext : Bool) : Slab :=
  { s with live := updItem s.live x (retF ext) }

/-- `Slot::release` / `Slot::release_move` together with the ghost count of the handle given up;
the result says whether this was the last reference (the item was moved out, the slot freed) -/
def itemRelease (s : Slab) (x : Nat) (ext : Bool) : Bool × Slab :=
  match findItem s.live x with
  | none => (false, s) -- excluded by `legal`
  | some i =>
    if i.rc = 1 then (true, freeSlot (takeItem s x) x)
    else (false, { s with live := updItem s.live x (relF ext) })

/-- `ArcSlab::retain` -/
def slabRetain (s : Slab) : Slab := { s with rc := s.rc + 1 }

/-- `ArcSlab::release`: the slab is deallocated iff the old value of the counter is 1 -/
def slabRelease (s : Slab) : Slab :=
  if s.rc = 1 then { s with rc := 0, dead := true } else { s with rc := s.rc - 1 }

/-! ### the operations of the public API -/

inductive Op where
  /-- `ArcSlabRef::clone` (`ArcSlab::retain`) -/
  | retain
  /-- `ArcSlabRef::drop` (`ArcSlab::release`) -/
  | release
  /-- `ArcSlab::add_item` -/
  | add
  /-- `ArcSlab::num_items` -/
  | numItems
  /-- `IntHandle::clone` -/
  | iclone (x : Nat)
  /-- `IntHandle::drop` / `IntHandle::drop_with` -/
  | idrop (x : Nat)
  /-- `IntHandle::into_inner` -/
  | iinto (x : Nat)
  /-- `IntHandle::force_into_inner` -/
  | iforce (x : Nat)
  /-- `ExtHandle::from(IntHandle)` -/
  | toExt (x : Nat)
  /-- `ExtHandle::clone` -/
  | eclone (x : Nat)
  /-- `ExtHandle::drop` / `ExtHandle::drop_with` -/
  | edrop (x : Nat)
  /-- `ExtHandle::into_inner` -/
  | einto (x : Nat)
deriving Repr, DecidableEq

inductive Obs where
  | unit
  /-- the slot handed out by `add_item` -/
  | slot (x : Nat)
  /-- result of `num_items` -/
  | num (n : Nat)
  /-- an item reference was given up: was it the last one (item moved out, `into_inner` = `Some`),
  and was the slab deallocated -/
  | gone (freed dead : Bool)
deriving Repr, DecidableEq

/-- ghost predicate: the documented preconditions of the API hold for `op` in `s`.

* every operation needs an `&ArcSlab`/a handle, which exists only while the slab does;
* `release` needs an `ArcSlabRef` to drop; operations on handles need such a handle;
* `force_into_inner`: "the caller must ensure that `this` is the last reference";
* SAFETY invariant of `IntHandle<'a>`: "the `ArcSlab` outlives `'a`" — the operation that gives up
  the last reference to the slab is admissible only if no `IntHandle` is left. -/
def legal (s : Slab) : Op → Bool
  | .retain => !s.dead && 0 < s.refs
  | .release => !s.dead && 0 < s.refs && (s.refs + extTotal s.live ≠ 1 || intTotal s.live = 0)
  | .add => !s.dead
  | .numItems => !s.dead
  | .iclone x | .idrop x | .iinto x | .toExt x =>
    !s.dead && (match findItem s.live x with | some i => 0 < i.nInt | none => false)
  | .iforce x =>
    !s.dead && (match findItem s.live x with | some i => i.nInt = 1 && i.nExt = 0 | none => false)
  | .eclone x =>
    !s.dead && (match findItem s.live x with | some i => 0 < i.nExt | none => false)
  | .edrop x | .einto x =>
    !s.dead && (match findItem s.live x with | some i => 0 < i.nExt | none => false)
      && (s.refs + extTotal s.live ≠ 1 || intTotal s.live = 0)

/-- one operation of the API as the code executes it -/
def exec (s : Slab) : Op → Slab × Obs
  | .retain => ({ slabRetain s with refs := s.refs + 1 }, .unit)
  | .release =>
    let s1 := slabRelease { s with refs := s.refs - 1 }
    (s1, .gone false s1.dead)
  | .add => let r := addItem s; (r.2, .slot r.1)
  | .numItems => (s, .num s.items)
  | .iclone x => (itemRetain s x false, .unit)
  | .idrop x | .iinto x => let r := itemRelease s x false; (r.2, .gone r.1 false)
  | .iforce x => (freeSlot (takeItem s x) x, .gone true false)
  | .toExt x =>
    (slabRetain { s with live := updItem s.live x convF }, .unit)
  | .eclone x => (slabRetain (itemRetain s x true), .unit)
  | .edrop x | .einto x =>
    let r := itemRelease s x true
    let s1 := slabRelease r.2
    (s1, .gone r.1 s1.dead)

/-- a step of a history: defined iff the operation is admissible -/
def step (s : Slab) (op : Op) : Option (Slab × Obs) :=
  if legal s op then some (exec s op) else none

/-- the states reachable from a fresh slab with `K` slots per page by admissible histories -/
inductive Reach (K : Nat) : Slab → Prop where
  | new : Reach K (Slab.new K)
  | step {s s' : Slab} {op : Op} {o : Obs} : Reach K s → step s op = some (s', o) → Reach K s'

/-- run a history; `none` as soon as an operation is not admissible -/
def run (s : Slab) : List Op → Option (Slab × List Obs)
  | [] => some (s, [])
  | op :: ops =>
    match step s op with
    | none => none
    | some (s1, o) =>
      match run s1 ops with
      | none => none
      | some (s2, os) => some (s2, o :: os)

end OxiddModel.ArcSlab
