import OxiddModel.ArcSlab.LemmasStep

/-!
Headline theorems about `ArcSlab` (C20: the pointer-based manager's node storage; C05: counts are
exact and exactly the unreferenced items are freed). All statements are about EVERY state reachable
from a fresh slab (`Reach K s`, any number of slots per page `K ≥ 1`) by ANY admissible history of
API operations (`Model.step`, admissible = the documented preconditions hold, `Model.legal`).
-/
namespace OxiddModel.ArcSlab

/-- The invariant (`LemmasInv.Inv`) holds after every admissible history. -/
theorem reach_inv {K : Nat} (hK : 0 < K) {s : Slab} (h : Reach K s) : Inv s := inv_reach hK h

theorem reach_K {K : Nat} {s : Slab} (h : Reach K s) : s.K = K := by
  induction h with
  | new => rfl
  | @step s s' op o _ hs ih =>
    unfold step at hs
    by_cases hl : legal s op = true
    · simp [hl] at hs
      have e : s' = (exec s op).1 := by rw [hs]
      rw [e, ← ih]
      cases op <;> simp [exec, slabRetain, slabRelease, itemRetain] <;>
        first
        | rfl
        | (split <;> rfl)
        | exact (addItem_fields s).1
        | exact (itemRelease_fields s _ _).1
        | exact (free_fields s _).1
        | (split <;> exact (itemRelease_fields s _ _).1)
    · simp [hl] at hs

/-- **(a) No live slot is handed out again.** The slot returned by `add_item` was free and is not
occupied by any live item; afterwards it is occupied, and the occupied slots stay pairwise
different. -/
theorem add_fresh {K : Nat} (hK : 0 < K) {s s' : Slab} {o : Obs} (h : Reach K s)
    (hs : step s .add = some (s', o)) :
    ∃ x, o = .slot x ∧ x ∈ s.free ∧ x ∉ slots s.live ∧ x ∈ slots s'.live ∧
      (slots s'.live).Nodup := by
  have hinv := reach_inv hK h
  unfold step at hs
  by_cases hl : legal s .add = true
  · simp only [hl, if_true, Option.some.injEq, exec, Prod.mk.injEq] at hs
    have hd := legal_alive hl
    obtain ⟨hS, _⟩ := hinv.alive hd
    obtain ⟨hS', h1, h2⟩ := addItem_slotInv hinv.kpos hS
    have e1 : s' = (addItem s).2 := hs.1.symm
    have e2 : o = .slot (addItem s).1 := hs.2.symm
    refine ⟨(addItem s).1, e2, h1, h2, ?_, ?_⟩
    · rw [e1, (addItem_fields s).2.2.2.2.2]; simp [slots]
    · rw [e1]; exact hS'.ndL
  · simp [hl] at hs

/-- (a), as a state invariant: at any time the occupied slots are pairwise different, none of them
is on the free list, and the free list has no repetition. -/
theorem live_slots_distinct {K : Nat} (hK : 0 < K) {s : Slab} (h : Reach K s)
    (hd : s.dead = false) :
    (slots s.live).Nodup ∧ s.free.Nodup ∧ ∀ x ∈ s.free, x ∉ slots s.live := by
  obtain ⟨hS, _⟩ := (reach_inv hK h).alive hd
  exact ⟨hS.ndL, hS.ndF, hS.disj⟩

/-- histories that `run` accepts are admissible histories (used by the non-vacuity examples) -/
theorem reach_run {K : Nat} {s s' : Slab} {ops : List Op} {os : List Obs} (h : Reach K s)
    (hr : run s ops = some (s', os)) : Reach K s' := by
  induction ops generalizing s os with
  | nil => simp [run] at hr; rw [← hr.1]; exact h
  | cons op ops ih =>
    simp only [run] at hr
    cases hs : step s op with
    | none => rw [hs] at hr; simp at hr
    | some p =>
      obtain ⟨s1, o⟩ := p
      rw [hs] at hr
      simp only at hr
      cases hr2 : run s1 ops with
      | none => rw [hr2] at hr; simp at hr
      | some q =>
        obtain ⟨s2, os2⟩ := q
        rw [hr2] at hr
        simp at hr
        have e : s2 = s' := hr.1
        subst e
        exact ih (Reach.step h hs) hr2

-- three slots handed out, the middle one freed and handed out again (K = 2: a second page)
example : (run (Slab.new 2) [.add, .add, .add, .idrop 1, .add]).map (·.2) =
    some [.slot 0, .slot 1, .slot 2, .gone true false, .slot 1] := by decide

/-- **(b) Capacity is never lost.** While the slab exists, the slots of the allocated pages are
exactly the free ones and the occupied ones (each once), `num_items + |free list| = pages * K`, and
the free list is never empty (the SAFETY invariant of `PageList::free_slot`). -/
theorem capacity {K : Nat} (hK : 0 < K) {s : Slab} (h : Reach K s) (hd : s.dead = false) :
    s.items + s.free.length = s.pages * K ∧ s.free ≠ [] ∧
    (∀ x, (x ∈ s.free ∨ x ∈ slots s.live) ↔ x < s.pages * K) := by
  obtain ⟨hS, _⟩ := (reach_inv hK h).alive hd
  have := reach_K h
  rw [← this]
  exact ⟨hS.cap, hS.ne, hS.bound⟩

/-- (b) A freed slot is available again: whenever an operation reports that the item was moved out
(`Obs.gone true _`) and the slab still exists, the item's slot is the head of the free list and not
occupied, so the very next `add_item` hands out exactly this slot (LIFO). -/
theorem freed_slot_available {K : Nat} (hK : 0 < K) {s s' : Slab} {op : Op} {d : Bool}
    (h : Reach K s) (hs : step s op = some (s', .gone true d)) (hd : s'.dead = false) :
    ∃ x, (op = .idrop x ∨ op = .iinto x ∨ op = .iforce x ∨ op = .edrop x ∨ op = .einto x) ∧
      s'.free = x :: s.free ∧ x ∉ slots s'.live ∧ x ∈ slots s.live ∧
      (exec s' .add).2 = .slot x := by
  have hinv := reach_inv hK h
  unfold step at hs
  by_cases hl : legal s op = true
  · simp only [hl, if_true, Option.some.injEq] at hs
    have hd0 := legal_alive hl
    obtain ⟨hS, hI, hrc, hpos⟩ := hinv.alive hd0
    have key : ∀ x, x ∈ slots s.live →
        (freeSlot (takeItem s x) x).free = x :: s.free ∧
        x ∉ slots (freeSlot (takeItem s x) x).live := by
      intro x hx
      obtain ⟨_, _, _, _, _, _, e7, e8⟩ := free_fields s x
      refine ⟨e8, ?_⟩
      rw [e7]; intro hm; exact (mem_slots_remItem.1 hm).2 rfl
    have addx : ∀ (t : Slab) (x : Nat), t.free = x :: s.free → s.free ≠ [] →
        (exec t .add).2 = .slot x := by
      intro t x ht hne
      simp only [exec, addItem, getSlot, ht]
      cases hf : s.free with
      | nil => exact absurd hf hne
      | cons y r => rfl
    have rel : ∀ x ext, (itemRelease s x ext).1 = true → x ∈ slots s.live ∧
        (itemRelease s x ext).2 = freeSlot (takeItem s x) x := by
      intro x ext hr
      unfold itemRelease at hr ⊢
      cases hf : findItem s.live x with
      | none => rw [hf] at hr; simp at hr
      | some i0 =>
        rw [hf] at hr
        by_cases h1 : i0.rc = 1
        · simp [h1]; exact mem_slots.2 ⟨i0, findItem_some hf⟩
        · simp [h1] at hr
    have srel : ∀ t : Slab, (slabRelease t).dead = false → (slabRelease t).free = t.free ∧
        (slabRelease t).live = t.live := by
      intro t _; unfold slabRelease; split <;> simp
    cases op with
    | retain => simp [exec] at hs
    | release => simp [exec] at hs
    | add => simp [exec] at hs
    | numItems => simp [exec] at hs
    | iclone x => simp [exec] at hs
    | toExt x => simp [exec] at hs
    | eclone x => simp [exec] at hs
    | idrop x =>
      simp only [exec, Prod.mk.injEq, Obs.gone.injEq] at hs
      obtain ⟨hx, e⟩ := rel x false hs.2.1
      rw [e] at hs
      obtain ⟨k1, k2⟩ := key x hx
      rw [← hs.1]
      exact ⟨x, by simp, k1, k2, hx, addx _ x k1 hS.ne⟩
    | iinto x =>
      simp only [exec, Prod.mk.injEq, Obs.gone.injEq] at hs
      obtain ⟨hx, e⟩ := rel x false hs.2.1
      rw [e] at hs
      obtain ⟨k1, k2⟩ := key x hx
      rw [← hs.1]
      exact ⟨x, by simp, k1, k2, hx, addx _ x k1 hS.ne⟩
    | iforce x =>
      simp only [exec, Prod.mk.injEq, Obs.gone.injEq] at hs
      have hx : x ∈ slots s.live := by
        simp only [legal, Bool.and_eq_true] at hl
        cases hf : findItem s.live x with
        | none => rw [hf] at hl; simp at hl
        | some i0 => exact mem_slots.2 ⟨i0, findItem_some hf⟩
      obtain ⟨k1, k2⟩ := key x hx
      rw [← hs.1]
      exact ⟨x, by simp, k1, k2, hx, addx _ x k1 hS.ne⟩
    | edrop x =>
      simp only [exec, Prod.mk.injEq, Obs.gone.injEq] at hs
      obtain ⟨hx, e⟩ := rel x true hs.2.1
      rw [e] at hs
      obtain ⟨k1, k2⟩ := key x hx
      rw [← hs.1] at hd ⊢
      obtain ⟨f1, f2⟩ := srel _ hd
      rw [f2]
      exact ⟨x, by simp, f1.trans k1, k2, hx, addx _ x (f1.trans k1) hS.ne⟩
    | einto x =>
      simp only [exec, Prod.mk.injEq, Obs.gone.injEq] at hs
      obtain ⟨hx, e⟩ := rel x true hs.2.1
      rw [e] at hs
      obtain ⟨k1, k2⟩ := key x hx
      rw [← hs.1] at hd ⊢
      obtain ⟨f1, f2⟩ := srel _ hd
      rw [f2]
      exact ⟨x, by simp, f1.trans k1, k2, hx, addx _ x (f1.trans k1) hS.ne⟩
  · simp [hl] at hs

example : (run (Slab.new 2) [.add, .idrop 0]).map (·.1.free) = some [0, 1] := by decide

/-- (b) Pages are allocated only when needed: `add_item` allocates a page iff it takes the last
free slot, i.e. iff afterwards every slot of every older page is occupied
(`num_items = (pages - 1) * K`); no other operation changes the number of pages. -/
theorem page_allocated_iff_full {K : Nat} (hK : 0 < K) {s s' : Slab} {o : Obs} (h : Reach K s)
    (hs : step s .add = some (s', o)) :
    (s'.pages = s.pages + 1 ∧ s'.items = s.pages * K) ∨
    (s'.pages = s.pages ∧ s'.items < s.pages * K) := by
  have hinv := reach_inv hK h
  have hk := reach_K h
  unfold step at hs
  by_cases hl : legal s .add = true
  · simp only [hl, if_true, Option.some.injEq, exec, Prod.mk.injEq] at hs
    have hd := legal_alive hl
    obtain ⟨hS, _⟩ := hinv.alive hd
    have e1 : s' = (addItem s).2 := hs.1.symm
    have hp := addItem_pages s
    have hi := (addItem_fields s).2.2.2.2.1
    have hcap := hS.cap
    have hne := hS.ne
    rw [hk] at hcap
    rw [e1, hp, hi]
    by_cases hlen : s.free.length = 1
    · left; simp [hlen]; omega
    · right; simp [hlen]
      have : 0 < s.free.length := by
        cases hf : s.free with
        | nil => exact absurd hf hne
        | cons a r => simp
      omega
  · simp [hl] at hs

/-- **(c) `num_items` is the number of live items** after any history (single-threaded: no
operation is in flight). -/
theorem num_items_exact {K : Nat} (hK : 0 < K) {s : Slab} (h : Reach K s) :
    s.items = s.live.length := by
  have hinv := reach_inv hK h
  cases hd : s.dead with
  | false => exact ((hinv.alive hd).1).cnt
  | true =>
    obtain ⟨_, _, hl, hi⟩ := hinv.deadc hd
    rw [hl, hi]; rfl

theorem num_items_obs {K : Nat} (hK : 0 < K) {s s' : Slab} {o : Obs} (h : Reach K s)
    (hs : step s .numItems = some (s', o)) : o = .num s.live.length ∧ s' = s := by
  unfold step at hs
  by_cases hl : legal s .numItems = true
  · simp only [hl, if_true, Option.some.injEq, exec, Prod.mk.injEq] at hs
    rw [← hs.2, ← hs.1, num_items_exact hK h]; exact ⟨rfl, rfl⟩
  · simp [hl] at hs

/-- **(d) The counters are exact**: while the slab exists, its counter is the number of
`ArcSlabRef`s plus the number of `ExtHandle`s, and every item's counter is the number of its
handles (and is positive: an occupied slot has a handle). -/
theorem counters_exact {K : Nat} (hK : 0 < K) {s : Slab} (h : Reach K s) (hd : s.dead = false) :
    s.rc = s.refs + extTotal s.live ∧ ∀ i ∈ s.live, i.rc = i.nInt + i.nExt ∧ 0 < i.rc := by
  obtain ⟨_, hI, hrc, _⟩ := (reach_inv hK h).alive hd
  exact ⟨hrc, hI⟩

/-- **(d) The slab is deallocated exactly when the last `ArcSlabRef`/`ExtHandle` is gone**, never
while a reference to it or an `ExtHandle` exists; and when it is deallocated no item is left in it
(the `SAFETY: rc and items are 0` comment of `ArcSlab::release`). -/
theorem dead_iff {K : Nat} (hK : 0 < K) {s : Slab} (h : Reach K s) :
    (s.dead = true ↔ s.refs + extTotal s.live = 0) ∧
    (s.dead = true → s.live = [] ∧ s.items = 0 ∧ s.rc = 0) := by
  have hinv := reach_inv hK h
  cases hd : s.dead with
  | false =>
    obtain ⟨_, _, hrc, hpos⟩ := hinv.alive hd
    refine ⟨⟨fun h => by simp at h, fun h => by omega⟩, fun h => by simp at h⟩
  | true =>
    obtain ⟨h1, h2, h3, h4⟩ := hinv.deadc hd
    refine ⟨⟨fun _ => by rw [h2, h3]; rfl, fun _ => rfl⟩, fun _ => ⟨h3, h4, h1⟩⟩

/-- (d) No operation is admissible on a deallocated slab: nothing is used after free. -/
theorem dead_final {s s' : Slab} {op : Op} {o : Obs} (hs : step s op = some (s', o)) :
    s.dead = false := by
  unfold step at hs
  by_cases hl : legal s op = true
  · exact legal_alive hl
  · simp [hl] at hs

-- the slab survives its last `ArcSlabRef` while an `ExtHandle` exists, and dies with that handle
example : (run (Slab.new 1) [.add, .toExt 0, .release, .numItems, .edrop 0]).map (·.2) =
    some [.slot 0, .unit, .gone false false, .num 1, .gone true true] := by decide

-- giving up the last reference while an `IntHandle` exists is not admissible
example : run (Slab.new 1) [.add, .release] = none := by decide

end OxiddModel.ArcSlab
