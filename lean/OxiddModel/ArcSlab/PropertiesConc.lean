import OxiddModel.ArcSlab.ConcInv

/-!
Headline theorems about `ArcSlab` under interleaving (any number of threads, any schedule of the
atomic actions of `add_item`, `IntHandle::clone`, `drop`/`into_inner`/`force_into_inner`,
`Page::free_slot`, `num_items`; see `Conc`).
-/
namespace OxiddModel.ArcSlab

/-- no operation in flight -/
def CState.quiescent (c : CState) : Prop :=
  c.got = [] ∧ c.counted = [] ∧ c.taken = [] ∧ c.decd = []

/-- **(a), (b) under interleaving.** In every reachable state every slot of an allocated page is in
EXACTLY ONE place — on the free list, occupied by a live item, or owned by one operation in flight
(once) — and no other number is anywhere; the free list is never empty; the places add up to the
capacity. -/
theorem conc_partition {K : Nat} (hK : 0 < K) {c : CState} (h : CReach K c) :
    (∀ x, occ c x = if x < c.sl.pages * c.sl.K then 1 else 0) ∧ c.sl.free ≠ [] ∧
    c.sl.free.length + c.sl.live.length + c.got.length + c.counted.length + c.taken.length +
      c.decd.length = c.sl.pages * c.sl.K := by
  have := cinv_reach hK h
  exact ⟨this.part, this.ne, this.card⟩

/-- (a) The slot that `get_slot` hands to a thread was on the free list and is owned by nobody:
not occupied, and not held by any other operation in flight (neither an `add_item` that has not
returned yet nor a `free_slot` that has not pushed yet). -/
theorem conc_handout_exclusive {K : Nat} (hK : 0 < K) {c c' : CState} {o : Obs}
    (h : CReach K c) (hs : cstep c .addLock = some (c', o)) :
    ∃ x, c'.got = x :: c.got ∧ x ∈ c.sl.free ∧ x ∉ slots c.sl.live ∧ x ∉ c.got ∧
      x ∉ c.counted ∧ x ∉ c.taken ∧ x ∉ c.decd ∧ x ∉ c'.sl.free := by
  have hinv := cinv_reach hK h
  have hinv' : CInv c' := cinv_reach hK (CReach.step h hs)
  simp only [cstep, clegal, if_true, Option.some.injEq] at hs
  have e : c' = (cexec c .addLock).1 := by rw [hs]
  obtain ⟨r, hr⟩ := getSlot_head hinv.ne
  have hx : (getSlot c.sl).1 ∈ c.sl.free := by rw [hr]; simp
  have hgot : c'.got = (getSlot c.sl).1 :: c.got := by rw [e]; rfl
  have p := hinv.part (getSlot c.sl).1
  have p' := hinv'.part (getSlot c.sl).1
  simp only [occ] at p p'
  rw [hgot] at p'
  have h1 := List.count_pos_iff.2 hx
  have h2 : 0 < ((getSlot c.sl).1 :: c.got).count (getSlot c.sl).1 := by simp
  refine ⟨_, hgot, hx, ?_, ?_, ?_, ?_, ?_, ?_⟩ <;>
    (intro hm; have := List.count_pos_iff.2 hm; split at p <;> split at p' <;> omega)

/-- **(c) under interleaving.** What `num_items` reads is the number of live items plus the
operations in flight that have incremented but not yet handed out the item, or taken the item out
but not yet decremented: it never under-counts the live items, over-counts by at most the number of
operations in flight, and is exact whenever no operation is in flight. -/
theorem conc_num_items {K : Nat} (hK : 0 < K) {c : CState} (h : CReach K c) :
    c.sl.items = c.sl.live.length + c.counted.length + c.taken.length ∧
    (c.quiescent → c.sl.items = c.sl.live.length ∧
      c.sl.items + c.sl.free.length = c.sl.pages * c.sl.K) := by
  have hinv := cinv_reach hK h
  refine ⟨hinv.cnt, fun hq => ?_⟩
  obtain ⟨q1, q2, q3, q4⟩ := hq
  have := hinv.cnt
  have := hinv.card
  simp only [q1, q2, q3, q4, List.length_nil] at *
  omega

/-- the counters of the items stay exact under interleaving -/
theorem conc_item_counters {K : Nat} (hK : 0 < K) {c : CState} (h : CReach K c) :
    ∀ i ∈ c.sl.live, i.rc = i.nInt + i.nExt ∧ 0 < i.rc := (cinv_reach hK h).items

/-- Whenever no operation is in flight the sequential slot invariant holds again. -/
theorem conc_quiescent_slotInv {K : Nat} (hK : 0 < K) {c : CState} (h : CReach K c)
    (hq : c.quiescent) : SlotInv c.sl := by
  have hinv := cinv_reach hK h
  obtain ⟨q1, q2, q3, q4⟩ := hq
  have part : ∀ x, c.sl.free.count x + (slots c.sl.live).count x =
      if x < c.sl.pages * c.sl.K then 1 else 0 := by
    intro x
    have := hinv.part x
    simpa [occ, q1, q2, q3, q4] using this
  obtain ⟨_, hi⟩ := conc_num_items hK h
  obtain ⟨hi1, hi2⟩ := hi ⟨q1, q2, q3, q4⟩
  refine ⟨hinv.ne, ?_, cinv_nodup_slots hinv, ?_, ?_, hi1, hi2⟩
  · rw [List.nodup_iff_count]; intro z
    have := part z; split at this <;> omega
  · intro x hx hm
    have := part x
    have h1 := List.count_pos_iff.2 hx
    have h2 := List.count_pos_iff.2 hm
    split at this <;> omega
  · intro x
    have := part x
    constructor
    · rintro (hx | hx)
      · have h1 := List.count_pos_iff.2 hx
        split at this
        · assumption
        · omega
      · have h1 := List.count_pos_iff.2 hx
        split at this
        · assumption
        · omega
    · intro hx
      rw [if_pos hx] at this
      by_cases hf : 0 < c.sl.free.count x
      · exact Or.inl (List.count_pos_iff.1 hf)
      · exact Or.inr (List.count_pos_iff.1 (by omega))

/-- The sequential `add_item` of `Model` is the uninterrupted schedule of its three atomic
actions. -/
theorem addItem_is_schedule (s : Slab) :
    let c0 : CState := { sl := s, got := [], counted := [], taken := [], decd := [] }
    let x := (getSlot s).1
    let c1 := (cexec c0 .addLock).1
    let c2 := (cexec c1 (.addCount x)).1
    cexec c2 (.addWrite x) =
      ({ sl := (addItem s).2, got := [], counted := [], taken := [], decd := [] },
        .slot (addItem s).1) := by
  simp [cexec, addItem]

/-- Giving up the last reference (`Model.itemRelease` in the case `rc = 1`) is the uninterrupted
schedule `fetch_sub` on the item, `fetch_sub` on `items`, locked push. -/
theorem release_is_schedule (s : Slab) (x : Nat) (i0 : Item) (hf : findItem s.live x = some i0)
    (h1 : i0.rc = 1) :
    let c0 : CState := { sl := s, got := [], counted := [], taken := [], decd := [] }
    let c1 := (cexec c0 (.relDecr x)).1
    let c2 := (cexec c1 (.relCount x)).1
    (cexec c2 (.relPush x)).1 =
      { sl := (itemRelease s x false).2, got := [], counted := [], taken := [], decd := [] } := by
  simp [cexec, itemRelease, hf, h1, freeSlot]

/-- interleavings as runs (for the examples) -/
def crun (c : CState) : List Act → Option CState
  | [] => some c
  | a :: as => match cstep c a with
    | none => none
    | some (c1, _) => crun c1 as

theorem creach_crun {K : Nat} {c c' : CState} {as : List Act} (h : CReach K c)
    (hr : crun c as = some c') : CReach K c' := by
  induction as generalizing c with
  | nil => simp [crun] at hr; rw [← hr]; exact h
  | cons a as ih =>
    simp only [crun] at hr
    cases hs : cstep c a with
    | none => rw [hs] at hr; simp at hr
    | some p =>
      obtain ⟨c1, o⟩ := p
      rw [hs] at hr
      exact ih (CReach.step h hs) hr

-- two `add_item`s overlap (both hold a slot before either has counted; the second one takes the
-- last slot of page 0, so page 1 is allocated), then item 0 is given up while a third `add_item` is
-- between its lock and its `fetch_add`: afterwards slot 0 is the head of the free list again, slot 2
-- is owned by the operation in flight, one item is live and `num_items` reads 1
example : (crun (CState.new 2) [.addLock, .addLock, .addCount 1, .addCount 0, .addWrite 0,
    .addWrite 1, .relDecr 0, .addLock, .relCount 0, .relPush 0]).map
      (fun c => (c.sl.free, slots c.sl.live, c.got, c.sl.items)) =
    some ([0, 3], [1], [2], 1) := by decide

-- a state with operations in flight in which `num_items` over-counts the live items
example : (crun (CState.new 2) [.addLock, .addCount 0]).map
    (fun c => (c.sl.items, c.sl.live.length, c.counted)) = some (1, 0, [0]) := by decide

end OxiddModel.ArcSlab
