import OxiddModel.ArcSlab.Properties

/-!
The slot numbers of the model are the ORDER OF FIRST HAND-OUT (what the harness prints as `slot`).

`add_item` never hands out a slot that was never handed out before as long as a slot that was
handed out and freed is waiting (the free list is `freed slots ++ untouched rest of the newest
page`, LIFO), and the untouched slots are taken in address order, page after page. Hence in every
history the `k`-th DISTINCT slot that `add_item` returns is the number `k`.
-/
namespace OxiddModel.ArcSlab

/-- the slots returned by `add_item` in a history -/
def slotObs : List Obs → List Nat
  | [] => []
  | .slot x :: os => x :: slotObs os
  | .unit :: os => slotObs os
  | .num _ :: os => slotObs os
  | .gone _ _ :: os => slotObs os

/-- every element is either one of the `m` values `0, …, m-1` seen so far or the new value `m` -/
def inOrder : Nat → List Nat → Prop
  | _, [] => True
  | m, x :: xs => (x < m ∧ inOrder m xs) ∨ (x = m ∧ inOrder (m + 1) xs)

/-- high-water mark `m`: the slots `< m` have been handed out, the others are the untouched rest
of the newest page at the end of the free list -/
def HW (s : Slab) (m : Nat) : Prop :=
  ∃ pre, s.free = pre ++ List.range' m (s.pages * s.K - m) ∧ (∀ x ∈ pre, x < m) ∧
    (∀ x ∈ slots s.live, x < m) ∧ m ≤ s.pages * s.K

theorem hw_new (K : Nat) : HW (Slab.new K) 0 :=
  ⟨[], by simp [Slab.new], by simp, by simp [Slab.new, slots], by simp⟩

theorem slabRelease_fields (t : Slab) :
    (slabRelease t).free = t.free ∧ (slabRelease t).live = t.live ∧
    (slabRelease t).pages = t.pages ∧ (slabRelease t).K = t.K := by
  unfold slabRelease; split <;> simp

/-- an item reference is given up: either the slot goes to the head of the free list or nothing
moves -/
theorem itemRelease_shape (s : Slab) (x : Nat) (ext : Bool) (hx : x ∈ slots s.live) :
    ((itemRelease s x ext).2.free = x :: s.free ∧
      ∀ z ∈ slots (itemRelease s x ext).2.live, z ∈ slots s.live) ∨
    ((itemRelease s x ext).2.free = s.free ∧
      slots (itemRelease s x ext).2.live = slots s.live) := by
  unfold itemRelease
  obtain ⟨i0, hf⟩ := findItem_isSome_of_mem hx
  rw [hf]
  by_cases h1 : i0.rc = 1
  · left
    simp only [h1, if_true]
    obtain ⟨_, _, _, _, _, _, e7, e8⟩ := free_fields s x
    refine ⟨e8, ?_⟩
    rw [e7]; intro z hz; exact (mem_slots_remItem.1 hz).1
  · right
    simp only [h1, if_false, true_and]
    exact slots_updItem _ _ _ (fun _ => rfl)

/-- the three shapes of an admissible operation with respect to the free list -/
theorem exec_shape {s : Slab} {op : Op} (hl : legal s op = true) :
    op = .add ∨
    ((∀ y, (exec s op).2 ≠ .slot y) ∧ (exec s op).1.pages = s.pages ∧ (exec s op).1.K = s.K ∧
      ((∃ x, x ∈ slots s.live ∧ (exec s op).1.free = x :: s.free ∧
          ∀ z ∈ slots (exec s op).1.live, z ∈ slots s.live) ∨
        ((exec s op).1.free = s.free ∧ slots (exec s op).1.live = slots s.live))) := by
  cases op with
  | add => exact Or.inl rfl
  | retain => right; exact ⟨by simp [exec], rfl, rfl, Or.inr ⟨rfl, rfl⟩⟩
  | release =>
    right
    obtain ⟨a, b, c, d⟩ := slabRelease_fields { s with refs := s.refs - 1 }
    exact ⟨by simp [exec], c, d, Or.inr ⟨a, by show slots (slabRelease _).live = _; rw [b]⟩⟩
  | numItems => right; exact ⟨by simp [exec], rfl, rfl, Or.inr ⟨rfl, rfl⟩⟩
  | iclone x =>
    right
    exact ⟨by simp [exec], rfl, rfl, Or.inr ⟨rfl, slots_updItem _ _ _ (fun _ => rfl)⟩⟩
  | idrop x =>
    right
    have hx : x ∈ slots s.live := by
      cases hf : findItem s.live x with
      | none => simp [legal, hf] at hl
      | some i0 => exact mem_slots.2 ⟨i0, findItem_some hf⟩
    obtain ⟨e1, _, _, _, e5⟩ := itemRelease_fields s x false
    refine ⟨by simp [exec], e5, e1, ?_⟩
    rcases itemRelease_shape s x false hx with h | h
    · exact Or.inl ⟨x, hx, h⟩
    · exact Or.inr h
  | iinto x =>
    right
    have hx : x ∈ slots s.live := by
      cases hf : findItem s.live x with
      | none => simp [legal, hf] at hl
      | some i0 => exact mem_slots.2 ⟨i0, findItem_some hf⟩
    obtain ⟨e1, _, _, _, e5⟩ := itemRelease_fields s x false
    refine ⟨by simp [exec], e5, e1, ?_⟩
    rcases itemRelease_shape s x false hx with h | h
    · exact Or.inl ⟨x, hx, h⟩
    · exact Or.inr h
  | iforce x =>
    right
    have hx : x ∈ slots s.live := by
      cases hf : findItem s.live x with
      | none => simp [legal, hf] at hl
      | some i0 => exact mem_slots.2 ⟨i0, findItem_some hf⟩
    obtain ⟨e1, _, _, _, e5, _, e7, e8⟩ := free_fields s x
    refine ⟨by simp [exec], e5, e1, Or.inl ⟨x, hx, e8, ?_⟩⟩
    show ∀ z ∈ slots (freeSlot (takeItem s x) x).live, z ∈ slots s.live
    rw [e7]; intro z hz; exact (mem_slots_remItem.1 hz).1
  | toExt x =>
    right
    exact ⟨by simp [exec], rfl, rfl, Or.inr ⟨rfl, slots_updItem _ _ _ (fun _ => rfl)⟩⟩
  | eclone x =>
    right
    exact ⟨by simp [exec], rfl, rfl, Or.inr ⟨rfl, slots_updItem _ _ _ (fun _ => rfl)⟩⟩
  | edrop x =>
    right
    have hx : x ∈ slots s.live := by
      cases hf : findItem s.live x with
      | none => simp [legal, hf] at hl
      | some i0 => exact mem_slots.2 ⟨i0, findItem_some hf⟩
    obtain ⟨e1, _, _, _, e5⟩ := itemRelease_fields s x true
    obtain ⟨a, b, c, d⟩ := slabRelease_fields (itemRelease s x true).2
    refine ⟨by simp [exec], c.trans e5, d.trans e1, ?_⟩
    show (∃ x_1, x_1 ∈ slots s.live ∧ (slabRelease (itemRelease s x true).2).free = x_1 :: s.free ∧
        ∀ z ∈ slots (slabRelease (itemRelease s x true).2).live, z ∈ slots s.live) ∨
      ((slabRelease (itemRelease s x true).2).free = s.free ∧
        slots (slabRelease (itemRelease s x true).2).live = slots s.live)
    rw [a, b]
    rcases itemRelease_shape s x true hx with h | h
    · exact Or.inl ⟨x, hx, h⟩
    · exact Or.inr h
  | einto x =>
    right
    have hx : x ∈ slots s.live := by
      cases hf : findItem s.live x with
      | none => simp [legal, hf] at hl
      | some i0 => exact mem_slots.2 ⟨i0, findItem_some hf⟩
    obtain ⟨e1, _, _, _, e5⟩ := itemRelease_fields s x true
    obtain ⟨a, b, c, d⟩ := slabRelease_fields (itemRelease s x true).2
    refine ⟨by simp [exec], c.trans e5, d.trans e1, ?_⟩
    show (∃ x_1, x_1 ∈ slots s.live ∧ (slabRelease (itemRelease s x true).2).free = x_1 :: s.free ∧
        ∀ z ∈ slots (slabRelease (itemRelease s x true).2).live, z ∈ slots s.live) ∨
      ((slabRelease (itemRelease s x true).2).free = s.free ∧
        slots (slabRelease (itemRelease s x true).2).live = slots s.live)
    rw [a, b]
    rcases itemRelease_shape s x true hx with h | h
    · exact Or.inl ⟨x, hx, h⟩
    · exact Or.inr h

/-- `add_item` at high-water mark `m`: an old slot, or exactly `m` -/
theorem hw_add {s : Slab} {m : Nat} (hK : 0 < s.K) (hne : s.free ≠ []) (h : HW s m) :
    ((addItem s).1 < m ∧ HW (addItem s).2 m) ∨ ((addItem s).1 = m ∧ HW (addItem s).2 (m + 1)) := by
  obtain ⟨pre, hfree, hpre, hlive, hm⟩ := h
  have hmul : (s.pages + 1) * s.K = s.pages * s.K + s.K := by rw [Nat.add_mul, Nat.one_mul]
  obtain ⟨_, _, _, _, _, elive⟩ := addItem_fields s
  have hlive' : ∀ m', m ≤ m' → (addItem s).1 < m' → ∀ x ∈ slots (addItem s).2.live, x < m' := by
    intro m' hmm hx x hxm
    rw [elive] at hxm
    simp only [slots, List.map_cons, List.mem_cons] at hxm
    rcases hxm with e | e
    · rw [e]; exact hx
    · have := hlive x e; omega
  cases pre with
  | cons a pre' =>
    left
    have ha : a < m := hpre a (by simp)
    cases hn : s.pages * s.K - m with
    | zero =>
      rw [hn] at hfree
      simp only [List.range'_zero, List.append_nil] at hfree
      cases pre' with
      | nil =>
        have e1 : (addItem s).1 = a := by simp [addItem, getSlot, hfree]
        have e2 : (addItem s).2.free = List.range' (s.pages * s.K) s.K := by
          simp [addItem, getSlot, hfree, writeItem, itemsInc]
        have e3 : (addItem s).2.pages = s.pages + 1 := by
          simp [addItem, getSlot, hfree, writeItem, itemsInc]
        have e4 := (addItem_fields s).1
        refine ⟨by rw [e1]; exact ha, [], ?_, by simp, hlive' m (Nat.le_refl _) (by rw [e1]; exact ha), ?_⟩
        · rw [e2, e3, e4, hmul]
          have : m = s.pages * s.K := by omega
          rw [this]; simp
        · rw [e3, e4, hmul]; omega
      | cons b pre'' =>
        have e1 : (addItem s).1 = a := by simp [addItem, getSlot, hfree]
        have e2 : (addItem s).2.free = b :: pre'' := by
          simp [addItem, getSlot, hfree, writeItem, itemsInc]
        have e3 : (addItem s).2.pages = s.pages := by
          simp [addItem, getSlot, hfree, writeItem, itemsInc]
        have e4 := (addItem_fields s).1
        refine ⟨by rw [e1]; exact ha, b :: pre'', ?_, ?_, hlive' m (Nat.le_refl _) (by rw [e1]; exact ha), ?_⟩
        · rw [e2, e3, e4, hn]; simp
        · intro x hx; exact hpre x (List.mem_cons_of_mem _ hx)
        · rw [e3, e4]; exact hm
    | succ n =>
      rw [hn, List.range'_succ] at hfree
      have hfree' : s.free = a :: (pre' ++ m :: List.range' (m + 1) n) := by rw [hfree]; simp
      have e1 : (addItem s).1 = a := by
        simp only [addItem, getSlot, hfree']
        cases pre' <;> rfl
      have e2 : (addItem s).2.free = pre' ++ m :: List.range' (m + 1) n ∧
          (addItem s).2.pages = s.pages := by
        simp only [addItem, getSlot, hfree']
        cases pre' <;> simp [writeItem, itemsInc]
      have e4 := (addItem_fields s).1
      refine ⟨by rw [e1]; exact ha, pre', ?_, ?_, hlive' m (Nat.le_refl _) (by rw [e1]; exact ha), ?_⟩
      · rw [e2.1, e2.2, e4, hn, List.range'_succ]
      · intro x hx; exact hpre x (List.mem_cons_of_mem _ hx)
      · rw [e2.2, e4]; exact hm
  | nil =>
    right
    simp only [List.nil_append] at hfree
    cases hn : s.pages * s.K - m with
    | zero => rw [hn] at hfree; simp at hfree; exact absurd hfree hne
    | succ n =>
      rw [hn, List.range'_succ] at hfree
      have e4 := (addItem_fields s).1
      cases n with
      | zero =>
        simp only [List.range'_zero] at hfree
        have e1 : (addItem s).1 = m := by simp [addItem, getSlot, hfree]
        have e2 : (addItem s).2.free = List.range' (s.pages * s.K) s.K := by
          simp [addItem, getSlot, hfree, writeItem, itemsInc]
        have e3 : (addItem s).2.pages = s.pages + 1 := by
          simp [addItem, getSlot, hfree, writeItem, itemsInc]
        refine ⟨e1, [], ?_, by simp, hlive' (m + 1) (by omega) (by rw [e1]; omega), ?_⟩
        · rw [e2, e3, e4, hmul]
          have : s.pages * s.K = m + 1 := by omega
          rw [this]; simp
        · rw [e3, e4, hmul]; omega
      | succ n' =>
        rw [List.range'_succ] at hfree
        have e1 : (addItem s).1 = m := by simp [addItem, getSlot, hfree]
        have e2 : (addItem s).2.free = (m + 1) :: List.range' (m + 1 + 1) n' := by
          simp [addItem, getSlot, hfree, writeItem, itemsInc]
        have e3 : (addItem s).2.pages = s.pages := by
          simp [addItem, getSlot, hfree, writeItem, itemsInc]
        refine ⟨e1, [], ?_, by simp, hlive' (m + 1) (by omega) (by rw [e1]; omega), ?_⟩
        · rw [e2, e3, e4]
          have : s.pages * s.K - (m + 1) = n' + 1 := by omega
          rw [this, List.range'_succ]; simp
        · rw [e3, e4]; omega

/-- one admissible step at high-water mark `m` -/
theorem hw_step {s s' : Slab} {op : Op} {o : Obs} {m : Nat} (hinv : Inv s) (h : HW s m)
    (hs : step s op = some (s', o)) :
    (∃ x, o = .slot x ∧ ((x < m ∧ HW s' m) ∨ (x = m ∧ HW s' (m + 1)))) ∨
    ((∀ x, o ≠ .slot x) ∧ HW s' m) := by
  unfold step at hs
  by_cases hl : legal s op = true
  · simp only [hl, if_true, Option.some.injEq] at hs
    have e1 : s' = (exec s op).1 := by rw [hs]
    have e2 : o = (exec s op).2 := by rw [hs]
    subst e1 e2
    have hd := legal_alive hl
    obtain ⟨hS, _⟩ := hinv.alive hd
    rcases exec_shape hl with e | ⟨hno, hp, hk, hsh⟩
    · subst e
      left
      exact ⟨(addItem s).1, rfl, hw_add hinv.kpos hS.ne h⟩
    · right
      refine ⟨hno, ?_⟩
      obtain ⟨pre, hfree, hpre, hlive, hm⟩ := h
      rcases hsh with ⟨x, hx, hf, hsub⟩ | ⟨hf, hsl⟩
      · refine ⟨x :: pre, ?_, ?_, fun z hz => hlive z (hsub z hz), by rw [hp, hk]; exact hm⟩
        · rw [hf, hp, hk, hfree]; simp
        · intro z hz
          rcases List.mem_cons.1 hz with e | e
          · rw [e]; exact hlive x hx
          · exact hpre z e
      · exact ⟨pre, by rw [hf, hp, hk, hfree], hpre, by rw [hsl]; exact hlive,
          by rw [hp, hk]; exact hm⟩
  · simp [hl] at hs

theorem hw_run {K : Nat} {s s' : Slab} {ops : List Op} {os : List Obs} {m : Nat}
    (hK : 0 < K) (hr : Reach K s) (h : HW s m) (hrun : run s ops = some (s', os)) :
    inOrder m (slotObs os) := by
  induction ops generalizing s os m with
  | nil => simp [run] at hrun; rw [hrun.2]; simp [slotObs, inOrder]
  | cons op ops ih =>
    simp only [run] at hrun
    cases hs : step s op with
    | none => rw [hs] at hrun; simp at hrun
    | some p =>
      obtain ⟨s1, o⟩ := p
      rw [hs] at hrun
      simp only at hrun
      cases hr2 : run s1 ops with
      | none => rw [hr2] at hrun; simp at hrun
      | some q =>
        obtain ⟨s2, os2⟩ := q
        rw [hr2] at hrun
        simp at hrun
        have e : os = o :: os2 := hrun.2.symm
        have e' : s2 = s' := hrun.1
        subst e e'
        have hr1 := Reach.step hr hs
        rcases hw_step (reach_inv hK hr) h hs with ⟨x, ho, hcase⟩ | ⟨hno, hw⟩
        · subst ho
          simp only [slotObs, inOrder]
          rcases hcase with ⟨hx, hw⟩ | ⟨hx, hw⟩
          · exact Or.inl ⟨hx, ih hr1 hw hr2⟩
          · exact Or.inr ⟨hx, ih hr1 hw hr2⟩
        · have : slotObs (o :: os2) = slotObs os2 := by
            cases o with
            | slot x => exact absurd rfl (hno x)
            | unit => rfl
            | num n => rfl
            | gone a b => rfl
          rw [this]; exact ih hr1 hw hr2

/-- **Slot numbers are the order of first hand-out.** In every admissible history from a fresh slab
(any `K ≥ 1`), each slot returned by `add_item` is either one of the slots `0, …, m-1` returned
before or it is `m`, the number of distinct slots returned so far. -/
theorem first_handout_order {K : Nat} (hK : 0 < K) {s' : Slab} {ops : List Op} {os : List Obs}
    (hrun : run (Slab.new K) ops = some (s', os)) : inOrder 0 (slotObs os) :=
  hw_run hK Reach.new (hw_new K) hrun

example : (run (Slab.new 2) [.add, .add, .idrop 0, .add, .add, .add]).map (fun r => slotObs r.2) =
    some [0, 1, 0, 2, 3] := by decide

end OxiddModel.ArcSlab
