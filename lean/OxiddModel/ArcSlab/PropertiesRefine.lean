import OxiddModel.ArcSlab.Properties

/-!
**(e) Refinement to the "bag of live items" specification.**

The specification knows nothing about pages, free lists or counters: a slab is the number of
`ArcSlabRef`s, a bag of live items (each with the numbers of its `IntHandle`s and `ExtHandle`s) and
a flag "still exists". `add_item` puts a fresh identity into the bag; giving up the last handle of an
item removes it; `num_items` is the size of the bag; the slab ceases to exist when the last
`ArcSlabRef`/`ExtHandle` goes. `refines` shows that every admissible step of the model of the code
is exactly the step of the specification on the abstraction of the state, with the same observation,
and that the identity chosen by `add_item` is fresh for the bag.
-/
namespace OxiddModel.ArcSlab

structure AItem where
  id : Nat
  nInt : Nat
  nExt : Nat
deriving Repr, DecidableEq

structure Bag where
  refs : Nat
  items : List AItem
  alive : Bool
deriving Repr, DecidableEq

def aexts : List AItem → Nat
  | [] => 0
  | i :: l => i.nExt + aexts l

def afind (l : List AItem) (x : Nat) : Option AItem := l.find? (fun i => i.id = x)

def aupd (l : List AItem) (x : Nat) (f : AItem → AItem) : List AItem :=
  l.map (fun i => if i.id = x then f i else i)

def arem (l : List AItem) (x : Nat) : List AItem := l.filter (fun i => i.id ≠ x)

/-- the slab goes when nobody can reach it any more -/
def Bag.settle (b : Bag) : Bag × Bool :=
  let d := decide (b.refs + aexts b.items = 0)
  ({ b with alive := !d }, d)

/-- giving up one handle of item `x` (`ext`: an `ExtHandle`) -/
def Bag.giveUp (b : Bag) (x : Nat) (ext : Bool) : Bag × Bool :=
  match afind b.items x with
  | none => (b, false)
  | some i =>
    if i.nInt + i.nExt = 1 then ({ b with items := arem b.items x }, true)
    else ({ b with items := aupd b.items x (fun i =>
      { i with nInt := if ext then i.nInt else i.nInt - 1,
               nExt := if ext then i.nExt - 1 else i.nExt }) }, false)

/-- the specification; `fresh` is the identity `add_item` chooses -/
def aexec (b : Bag) (fresh : Nat) : Op → Bag × Obs
  | .retain => ({ b with refs := b.refs + 1 }, .unit)
  | .release => let r := Bag.settle { b with refs := b.refs - 1 }; (r.1, .gone false r.2)
  | .add => ({ b with items := { id := fresh, nInt := 1, nExt := 0 } :: b.items }, .slot fresh)
  | .numItems => (b, .num b.items.length)
  | .iclone x => ({ b with items := aupd b.items x (fun i => { i with nInt := i.nInt + 1 }) }, .unit)
  | .idrop x | .iinto x => let r := b.giveUp x false; (r.1, .gone r.2 false)
  | .iforce x => ({ b with items := arem b.items x }, .gone true false)
  | .toExt x =>
    ({ b with items := aupd b.items x (fun i => { i with nInt := i.nInt - 1, nExt := i.nExt + 1 }) },
      .unit)
  | .eclone x => ({ b with items := aupd b.items x (fun i => { i with nExt := i.nExt + 1 }) }, .unit)
  | .edrop x | .einto x =>
    let r := b.giveUp x true
    let r2 := Bag.settle r.1
    (r2.1, .gone r.2 r2.2)

def absItem (i : Item) : AItem := { id := i.slot, nInt := i.nInt, nExt := i.nExt }

/-- the abstraction function -/
def abs (s : Slab) : Bag := { refs := s.refs, items := s.live.map absItem, alive := !s.dead }

theorem aexts_map (l : List Item) : aexts (l.map absItem) = extTotal l := by
  induction l with
  | nil => rfl
  | cons i l ih => simp only [List.map_cons, aexts, extTotal, ih, absItem]

theorem afind_map (l : List Item) (x : Nat) :
    afind (l.map absItem) x = (findItem l x).map absItem := by
  induction l with
  | nil => rfl
  | cons i l ih =>
    simp only [afind, findItem] at ih
    by_cases h : i.slot = x <;> simp [afind, findItem, List.find?_cons, absItem, h, ih]

theorem arem_map (l : List Item) (x : Nat) : arem (l.map absItem) x = (remItem l x).map absItem := by
  induction l with
  | nil => rfl
  | cons i l ih =>
    simp only [arem, remItem, List.map_cons, List.filter_cons] at ih ⊢
    by_cases h : i.slot = x
    · simpa [absItem, h] using ih
    · simpa [absItem, h] using ih

theorem aupd_map (l : List Item) (x : Nat) (f : Item → Item) (g : AItem → AItem)
    (h : ∀ i, absItem (f i) = g (absItem i)) :
    aupd (l.map absItem) x g = (updItem l x f).map absItem := by
  induction l with
  | nil => rfl
  | cons i l ih =>
    simp only [aupd, updItem] at ih
    by_cases hx : i.slot = x
    · simp [aupd, updItem, hx, ih, h, absItem]
      have := h i; simp [absItem] at this; rw [this]; simp [hx]
    · simp [aupd, updItem, hx, ih, absItem]

theorem abs_settle {t : Slab} (hK : 0 < t.K) (hd : t.dead = false) (hS : SlotInv t)
    (hI : ItemInv t.live) (hrc : t.rc = t.refs + extTotal t.live + 1)
    (hint : t.refs + extTotal t.live = 0 → intTotal t.live = 0) :
    Bag.settle (abs t) = (abs (slabRelease t), (slabRelease t).dead) := by
  have hiff := (slabRelease_inv hK hd hS hI hrc hint).2
  have hl : (slabRelease t).live = t.live ∧ (slabRelease t).refs = t.refs := by
    unfold slabRelease; split <;> simp
  simp only [Bag.settle, abs, aexts_map, hl.1, hl.2]
  cases hdd : (slabRelease t).dead with
  | true =>
    have := hiff.1 hdd
    simp [this]
  | false =>
    have : ¬ (t.refs + extTotal t.live = 0) := fun h => by
      have := hiff.2 h; rw [hdd] at this; simp at this
    simp
    omega

theorem abs_giveUp {s : Slab} {x : Nat} {i0 : Item} (ext : Bool) (hd : s.dead = false)
    (hI : ItemInv s.live) (hf : findItem s.live x = some i0) :
    (abs s).giveUp x ext = (abs (itemRelease s x ext).2, (itemRelease s x ext).1) := by
  have hi0 := hI i0 (findItem_some hf).1
  have e3 := (itemRelease_fields s x ext).2.2.1
  have e4 := (itemRelease_fields s x ext).2.2.2.1
  unfold Bag.giveUp
  simp only [abs, afind_map, hf, Option.map_some, e3, e4]
  unfold itemRelease
  rw [hf]
  by_cases h1 : i0.rc = 1
  · have h2 : (absItem i0).nInt + (absItem i0).nExt = 1 := by simp [absItem]; omega
    simp only [h1, h2, if_true]
    simp [(free_fields s x).2.2.2.2.2.2.1, arem_map]
  · have h2 : ¬ ((absItem i0).nInt + (absItem i0).nExt = 1) := by simp [absItem]; omega
    simp only [h1, h2, if_false]
    have := aupd_map s.live x (relF ext) (fun i =>
      { i with nInt := if ext then i.nInt else i.nInt - 1,
               nExt := if ext then i.nExt - 1 else i.nExt }) (by intro i; simp [absItem, relF])
    simp [this]

/-- **(e)** Every admissible step of the code's model is the step of the bag specification on the
abstract state, with the same observation; the identity handed out by `add_item` is not in the
bag. -/
theorem refines {K : Nat} (hK : 0 < K) {s s' : Slab} {op : Op} {o : Obs} (h : Reach K s)
    (hs : step s op = some (s', o)) :
    aexec (abs s) (addItem s).1 op = (abs s', o) ∧
    (op = .add → ∀ a ∈ (abs s).items, a.id ≠ (addItem s).1) := by
  have hinv := reach_inv hK h
  unfold step at hs
  by_cases hl : legal s op = true
  · simp only [hl, if_true, Option.some.injEq] at hs
    have hd := legal_alive hl
    obtain ⟨hS, hI, hrc, hpos⟩ := hinv.alive hd
    have hK' := hinv.kpos
    have e1 : s' = (exec s op).1 := by rw [hs]
    have e2 : o = (exec s op).2 := by rw [hs]
    subst e1 e2
    refine ⟨?_, ?_⟩
    · cases op with
      | retain => simp [aexec, exec, abs, slabRetain]
      | release =>
        simp only [legal, Bool.and_eq_true, Bool.or_eq_true, decide_eq_true_eq, bne_iff_ne,
          Bool.not_eq_true'] at hl
        have := abs_settle (t := { s with refs := s.refs - 1 }) hK' hd
          (slotInv_congr hS rfl rfl rfl rfl rfl) hI (by simp only; omega) (by
            simp only; intro h0
            rcases hl.2 with h | h
            · simp at h; omega
            · exact h)
        simp only [aexec, exec]
        have e : ({ abs s with refs := (abs s).refs - 1 } : Bag) = abs { s with refs := s.refs - 1 } := rfl
        rw [e, this]
      | add =>
        obtain ⟨_, _, c, d, _, f⟩ := addItem_fields s
        simp only [aexec, exec, abs, c, d, f, List.map_cons, absItem]
      | numItems =>
        simp only [aexec, exec, abs, List.length_map, (hS.cnt)]
      | iclone x =>
        have := aupd_map s.live x (retF false) (fun i => { i with nInt := i.nInt + 1 })
          (by intro i; simp [absItem, retF])
        simp [aexec, exec, abs, itemRetain, this]
      | idrop x =>
        simp only [legal, Bool.and_eq_true] at hl
        cases hf : findItem s.live x with
        | none => rw [hf] at hl; simp at hl
        | some i0 => simp only [aexec, exec, abs_giveUp false hd hI hf]
      | iinto x =>
        simp only [legal, Bool.and_eq_true] at hl
        cases hf : findItem s.live x with
        | none => rw [hf] at hl; simp at hl
        | some i0 => simp only [aexec, exec, abs_giveUp false hd hI hf]
      | iforce x =>
        obtain ⟨_, _, c, d, _, _, f, _⟩ := free_fields s x
        simp only [aexec, exec, abs, c, d, f, arem_map]
      | toExt x =>
        have := aupd_map s.live x convF (fun i => { i with nInt := i.nInt - 1, nExt := i.nExt + 1 })
          (by intro i; simp [absItem, convF])
        simp [aexec, exec, abs, slabRetain, this]
      | eclone x =>
        have := aupd_map s.live x (retF true) (fun i => { i with nExt := i.nExt + 1 })
          (by intro i; simp [absItem, retF])
        simp [aexec, exec, abs, slabRetain, itemRetain, this]
      | edrop x =>
        simp only [legal, Bool.and_eq_true, Bool.or_eq_true, decide_eq_true_eq, bne_iff_ne] at hl
        cases hf : findItem s.live x with
        | none => rw [hf] at hl; simp at hl
        | some i0 =>
          rw [hf] at hl
          obtain ⟨a, b, c, d, _⟩ := itemRelease_spec true hS hI hf (by simpa using hl.1.2)
          obtain ⟨e1, e2, e3, e4, _⟩ := itemRelease_fields s x true
          have := abs_settle (t := (itemRelease s x true).2) (by rw [e1]; exact hK')
            (by rw [e3]; exact hd) a b (by rw [e2, e4]; simp at c; omega) (by
              rw [e4]; intro h0
              simp at c d
              rcases hl.2 with h | h
              · simp at h; omega
              · omega)
          simp only [aexec, exec, abs_giveUp true hd hI hf, this]
      | einto x =>
        simp only [legal, Bool.and_eq_true, Bool.or_eq_true, decide_eq_true_eq, bne_iff_ne] at hl
        cases hf : findItem s.live x with
        | none => rw [hf] at hl; simp at hl
        | some i0 =>
          rw [hf] at hl
          obtain ⟨a, b, c, d, _⟩ := itemRelease_spec true hS hI hf (by simpa using hl.1.2)
          obtain ⟨e1, e2, e3, e4, _⟩ := itemRelease_fields s x true
          have := abs_settle (t := (itemRelease s x true).2) (by rw [e1]; exact hK')
            (by rw [e3]; exact hd) a b (by rw [e2, e4]; simp at c; omega) (by
              rw [e4]; intro h0
              simp at c d
              rcases hl.2 with h | h
              · simp at h; omega
              · omega)
          simp only [aexec, exec, abs_giveUp true hd hI hf, this]
    · intro _ a ha e
      obtain ⟨_, _, h2⟩ := addItem_slotInv hK' hS
      apply h2
      simp only [abs, List.mem_map] at ha
      obtain ⟨i, hi, rfl⟩ := ha
      exact mem_slots.2 ⟨i, hi, by simpa [absItem] using e⟩
  · simp [hl] at hs

-- the specification on a history: two items, one given up, the slab outlives its `ArcSlabRef`
example : (aexec (abs (Slab.new 3)) 0 .add).1.items = [{ id := 0, nInt := 1, nExt := 0 }] := by
  decide

example : ((abs (Slab.new 3)).giveUp 0 false).2 = false := by decide

end OxiddModel.ArcSlab
