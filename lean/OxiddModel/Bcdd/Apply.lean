import OxiddModel.Bcdd.Lemmas

/-! `apply_bin::<And|Xor>` and the eight derived connectives: pointwise semantics and normal-form
preservation, for all edges. -/
namespace OxiddModel.Bcdd
open CNode

theorem applyBin_eval (op : BOp) (f g : Edge) (σ : Nat → Bool) :
    (applyBin op f g).eval σ = op.sem (f.eval σ) (g.eval σ) := by
  fun_induction applyBin op f g with
  | case1 f g h hd =>
    have := terminalOp_spec op f g
    rw [hd] at this
    exact this.1 σ
  | case2 fneg fl ft fen fe gneg gl gt gen ge l hn ih1 ih2 =>
    simp only [dite_eq_ite] at ih1 ih2
    rw [mk_eval, ih1, ih2]
    cases hσ : σ l
    · simp only [Bool.false_eq_true, if_false]
      rw [cof_eval_false σ l fl fneg fen ft fe hσ, cof_eval_false σ l gl gneg gen gt ge hσ]
    · simp only [if_true]
      rw [cof_eval_true σ l fl fneg fen ft fe hσ, cof_eval_true σ l gl gneg gen gt ge hσ]
  | case3 f g hn hne =>
    exfalso
    have := terminalOp_spec op f g
    rw [hn] at this
    obtain ⟨fneg, fn⟩ := f
    obtain ⟨gneg, gn⟩ := g
    cases fn <;> cases gn <;> simp [isTop] at this
    exact hne _ _ _ _ _ _ _ _ _ _ rfl rfl

theorem applyBin_nf (op : BOp) (f g : Edge) (n : Nat) (hf : f.NF n) (hg : g.NF n) :
    (applyBin op f g).NF n := by
  fun_induction applyBin op f g generalizing n with
  | case1 f g h hd =>
    have := terminalOp_spec op f g
    rw [hd] at this
    exact this.2.nf hf hg
  | case2 fneg fl ft fen fe gneg gl gt gen ge l hn ih1 ih2 =>
    simp only [dite_eq_ite] at ih1 ih2
    have hlf : l ≤ fl := Nat.min_le_left _ _
    have hlg : l ≤ gl := Nat.min_le_right _ _
    have hn : n ≤ l := Nat.le_min.mpr ⟨nf_node_le hf, nf_node_le hg⟩
    exact mk_nf hn
      (ih1 _ (cof_nf_t hlf hf) (cof_nf_t hlg hg))
      (ih2 _ (cof_nf_e hlf hf) (cof_nf_e hlg hg))
  | case3 f g hn hne => exact terminal_nf n false

theorem applyAnd_eval (f g : Edge) (σ : Nat → Bool) :
    (applyAnd f g).eval σ = (f.eval σ && g.eval σ) := applyBin_eval .and f g σ

theorem applyAnd_nf (f g : Edge) (n : Nat) (hf : f.NF n) (hg : g.NF n) : (applyAnd f g).NF n :=
  applyBin_nf .and f g n hf hg

/-- the derivation of all eight connectives from `and`/`xor` through complement tags is correct -/
theorem applyOp_eval (op : Op) (f g : Edge) (σ : Nat → Bool) :
    (applyOp op f g).eval σ = op.sem (f.eval σ) (g.eval σ) := by
  cases op <;> simp only [applyOp, applyNot_eval, applyAnd_eval, applyBin_eval, Op.sem, BOp.sem] <;>
    cases f.eval σ <;> cases g.eval σ <;> rfl

theorem applyOp_nf (op : Op) (f g : Edge) (n : Nat) (hf : f.NF n) (hg : g.NF n) :
    (applyOp op f g).NF n := by
  cases op <;> simp only [applyOp] <;>
    first
    | exact applyAnd_nf _ _ n (by first | exact hf | exact applyNot_nf hf) (by first | exact hg | exact applyNot_nf hg)
    | exact applyNot_nf (applyAnd_nf _ _ n (by first | exact hf | exact applyNot_nf hf) (by first | exact hg | exact applyNot_nf hg))
    | exact applyBin_nf _ _ _ n hf hg
    | exact applyNot_nf (applyBin_nf _ _ _ n hf hg)

end OxiddModel.Bcdd
