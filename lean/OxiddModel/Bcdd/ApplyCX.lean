import OxiddModel.Bcdd.CacheCX

/-!
# `apply_bin::<And|Xor>`, the eight connectives and `apply_ite` on a cache that also holds the
extended entry kinds (complement-edge rules)

`quant`, `apply_quant` and `substitute` call `apply_and`, `apply_bin::<Xor>` and `apply_ite` on the
*same* apply cache into which they put their own entries. The specifications of `ApplyS.lean` /
`IteS.lean` are stated for `CacheOKC` (entries of `And`/`Xor`/`Ite` only); here they are
re-established, for the unchanged definitions `binS`, `applyOpS`, `iteS`, under the extended
invariant `InvCX reg st = Unique ∧ CacheOKCX reg` of `CacheCX.lean`, with the same canonicity
(`PostCX`: store and result are `internE s T`). The proofs are those of `ApplyS.lean`/`IteS.lean`;
the only facts about cache entries they use are `EntryOKCX.hit` and `KeyMeansC.of` for the keys
`binKey`/`iteKey`.
-/
namespace OxiddModel.Bcdd.Refine
open OxiddModel.Bcdd OxiddModel.Bcdd.CNode
open OxiddModel.Bdd.Refine (Policy OpTag Key Cache)

/-! ## `apply_bin::<OP>` -/

theorem binS_specX {p : Policy} (pok : p.OK) (reg : Nat → List Edge) (op : BOp) (fuel : Nat) :
    ∀ (st : StC) (f g : EdgeC) (a b : Edge),
    InvCX reg st → DenotesC st.store f a → DenotesC st.store g b → a.size + b.size ≤ fuel →
    PostCX reg st.store (applyBin op a b) (binS p op fuel st f g) := by
  induction fuel with
  | zero =>
    intro st f g a b _ _ _ hsz
    have := size_pos a.n
    simp only [Edge.size] at hsz
    omega
  | succ fuel ih =>
    intro st f g a b hinv hf hg hsz
    have hc := terminalOpS_corr op hinv.1 hf hg
    simp only [binS]
    cases hS : terminalOpS op f g with
    | done e =>
      cases hT : terminalOp op a b with
      | done t =>
        rw [hS, hT] at hc
        rw [applyBin_done hT]
        exact PostCX.done hinv hc
      | nodes => rw [hS, hT] at hc; exact hc.elim
    | nodes =>
      cases hT : terminalOp op a b with
      | done t => rw [hS, hT] at hc; exact hc.elim
      | nodes =>
        -- the ordered pair denotes the operands in one or the other order
        have hk : ∃ a' b', DenotesC st.store (orderPair f g).1 a' ∧
            DenotesC st.store (orderPair f g).2 b' ∧ applyBin op a b = applyBin op a' b' ∧
            terminalOp op a' b' = .nodes ∧ a'.size + b'.size ≤ fuel + 1 := by
          rcases orderPair_cases f g with h | h <;> rw [h]
          · exact ⟨a, b, hf, hg, rfl, hT, hsz⟩
          · exact ⟨b, a, hg, hf, applyBin_comm op a b, by rw [terminalOp_comm]; exact hT,
              by omega⟩
        obtain ⟨a', b', hk1, hk2, hab, hT', hsz'⟩ := hk
        rw [hab]
        generalize orderPair f g = k at hk1 hk2 ⊢
        have hkd : DenotesLC st.store [k.1, k.2] [a', b'] := DenotesLC.two hk1 hk2
        simp only
        split
        · -- cache hit
          rename_i r hr
          have hent := hinv.2 _ _ (pok.get_mem _ _ _ _ hr)
          rw [← encKeyC_binKey] at hent
          exact PostCX.done (st := st.tickd) hinv.tickd
            (EntryOKCX.hit hent (binKey_wf _ _ _) hkd (specCX_ofB reg op a' b'))
        · -- cache miss: both operands are inner nodes
          have hsp := terminalOp_spec op a' b'
          rw [hT'] at hsp
          obtain ⟨hla, hlb⟩ := hsp
          obtain ⟨an, a'⟩ := a'
          obtain ⟨bn, b'⟩ := b'
          cases a' with
          | top => simp [isTop] at hla
          | node lf ft fen fe =>
          cases b' with
          | top => simp [isTop] at hlb
          | node lg gt gen ge =>
          rw [level?_denotes hk1, level?_denotes hk2]
          simp only
          rw [applyBin_nodes hT']
          have hmin : min lf lg = lf ∨ min lf lg = lg := by omega
          simp only [Edge.size] at hsz'
          have sz1 : (tcofT (min lf lg) ⟨an, .node lf ft fen fe⟩).size +
              (tcofT (min lf lg) ⟨bn, .node lg gt gen ge⟩).size ≤ fuel := by
            have h1 := tcofT_size_le (min lf lg) ⟨an, .node lf ft fen fe⟩
            have h2 := tcofT_size_le (min lf lg) ⟨bn, .node lg gt gen ge⟩
            simp only [Edge.size] at h1 h2 ⊢
            rcases hmin with h | h <;> rw [h] at h1 h2 ⊢
            · have := tcofT_size_lt lf an fen ft fe; simp only [Edge.size] at this; omega
            · have := tcofT_size_lt lg bn gen gt ge; simp only [Edge.size] at this; omega
          have sz0 : (tcofE (min lf lg) ⟨an, .node lf ft fen fe⟩).size +
              (tcofE (min lf lg) ⟨bn, .node lg gt gen ge⟩).size ≤ fuel := by
            have h1 := tcofE_size_le (min lf lg) ⟨an, .node lf ft fen fe⟩
            have h2 := tcofE_size_le (min lf lg) ⟨bn, .node lg gt gen ge⟩
            simp only [Edge.size] at h1 h2 ⊢
            rcases hmin with h | h <;> rw [h] at h1 h2 ⊢
            · have := tcofE_size_lt lf an fen ft fe; simp only [Edge.size] at this; omega
            · have := tcofE_size_lt lg bn gen gt ge; simp only [Edge.size] at this; omega
          have p1 := ih st.tickd _ _ _ _ hinv.tickd (cofT_denotes (min lf lg) hk1)
            (cofT_denotes (min lf lg) hk2) sz1
          have p0 := ih _ _ _ _ _ p1.inv ((cofE_denotes (min lf lg) hk1).mono p1.le)
            ((cofE_denotes (min lf lg) hk2).mono p1.le) sz0
          refine finishC_postX pok p1 p0 (keyOf op k.1 k.2) (min lf lg) ?_
          rw [← encKeyC_binKey]
          refine KeyMeansC.of (binKey_wf _ _ _) hkd ?_
          show specCX reg (.ofB op) _ [] = _
          rw [specCX_ofB, applyBin_nodes hT']

/-! ## `not` and the derived connectives -/

/-! ## `not` and the derived connectives -/

/-- `not` refines `applyNot` and leaves the state alone -/
theorem notS_specX (reg : Nat → List Edge) (st : StC) (f : EdgeC) (a : Edge) (hinv : InvCX reg st) (hf : DenotesC st.store f a) :
    PostCX reg st.store (applyNot a) (notS st f) := PostCX.done hinv hf.not

/-- the eight connectives refine `applyOp` -/
theorem applyOpS_specX {p : Policy} (pok : p.OK) (reg : Nat → List Edge) (op : Op) (fuel : Nat) (st : StC) (f g : EdgeC)
    (a b : Edge) (hinv : InvCX reg st) (hf : DenotesC st.store f a) (hg : DenotesC st.store g b)
    (hsz : a.size + b.size ≤ fuel) :
    PostCX reg st.store (applyOp op a b) (applyOpS p op fuel st f g) := by
  have hsa : (applyNot a).size = a.size := rfl
  have hsb : (applyNot b).size = b.size := rfl
  cases op <;> simp only [applyOpS, applyOp, applyAnd, andS, xorS]
  · exact binS_specX pok reg .and fuel st f g a b hinv hf hg hsz
  · exact (binS_specX pok reg .and fuel st _ _ _ _ hinv hf.not hg.not (by omega)).not
  · exact (binS_specX pok reg .and fuel st f g a b hinv hf hg hsz).not
  · exact binS_specX pok reg .and fuel st _ _ _ _ hinv hf.not hg.not (by omega)
  · exact binS_specX pok reg .xor fuel st f g a b hinv hf hg hsz
  · exact (binS_specX pok reg .xor fuel st f g a b hinv hf hg hsz).not
  · exact (binS_specX pok reg .and fuel st _ _ _ _ hinv hf hg.not (by omega)).not
  · exact binS_specX pok reg .and fuel st _ _ _ _ hinv hf.not hg (by omega)

/-! ## `apply_ite` -/

theorem iteS_specX {p : Policy} (pok : p.OK) (reg : Nat → List Edge) (fuel : Nat) :
    ∀ (st : StC) (f g h : EdgeC) (a b c : Edge),
    InvCX reg st → DenotesC st.store f a → DenotesC st.store g b → DenotesC st.store h c →
    a.size + b.size + c.size ≤ fuel →
    PostCX reg st.store (applyIte a b c) (iteS p fuel st f g h) := by
  induction fuel with
  | zero =>
    intro st f g h a b c _ _ _ _ hsz
    have := size_pos a.n
    simp only [Edge.size] at hsz
    omega
  | succ fuel ih =>
    intro st f g h a b c hinv hf hg hh hsz
    have hu := hinv.1
    have igh := denN_eq_iff hu hg.2 hh.2
    have ifg := denN_eq_iff hu hf.2 hg.2
    have ifh := denN_eq_iff hu hf.2 hh.2
    have hsa := size_pos a.n
    have hsb := size_pos b.n
    have hsc := size_pos c.n
    have hna : (applyNot a).size = a.size := rfl
    have hnb : (applyNot b).size = b.size := rfl
    have hnc : (applyNot c).size = c.size := rfl
    simp only [Edge.size] at hsz hna hnb hnc
    have szab : a.size + b.size ≤ fuel := by simp only [Edge.size]; omega
    have szac : a.size + c.size ≤ fuel := by simp only [Edge.size]; omega
    simp only [iteS, andS, xorS]
    by_cases h1 : g.tgt = h.tgt
    · have h1' : b.n = c.n := igh.mp h1
      simp only [h1, if_true]
      by_cases h2 : g.neg = h.neg
      · have h2' : b.neg = c.neg := by rw [← hg.1, ← hh.1]; exact h2
        simp only [h2, if_true]
        rw [applyIte_gh_same h1' h2']
        exact PostCX.done hinv hg
      · have h2' : ¬ b.neg = c.neg := by rw [← hg.1, ← hh.1]; exact h2
        simp only [h2, if_false]
        rw [applyIte_gh_diff h1' h2']
        exact (binS_specX pok reg .xor fuel st f g a b hinv hf hg szab).not
    · have h1' : ¬ b.n = c.n := fun e => h1 (igh.mpr e)
      simp only [h1, if_false]
      by_cases h3 : f.tgt = g.tgt
      · have h3' : a.n = b.n := ifg.mp h3
        simp only [h3, if_true]
        by_cases h4 : f.neg = g.neg
        · have h4' : a.neg = b.neg := by rw [← hf.1, ← hg.1]; exact h4
          simp only [h4, if_true]
          rw [applyIte_fg_same h1' h3' h4']
          exact (binS_specX pok reg .and fuel st _ _ _ _ hinv hf.not hh.not
            (by simp only [Edge.size] at *; omega)).not
        · have h4' : ¬ a.neg = b.neg := by rw [← hf.1, ← hg.1]; exact h4
          simp only [h4, if_false]
          rw [applyIte_fg_diff h1' h3' h4']
          exact binS_specX pok reg .and fuel st _ _ _ _ hinv hf.not hh
            (by simp only [Edge.size] at *; omega)
      · have h3' : ¬ a.n = b.n := fun e => h3 (ifg.mpr e)
        simp only [h3, if_false]
        by_cases h5 : f.tgt = h.tgt
        · have h5' : a.n = c.n := ifh.mp h5
          simp only [h5, if_true]
          by_cases h6 : f.neg = h.neg
          · have h6' : a.neg = c.neg := by rw [← hf.1, ← hh.1]; exact h6
            simp only [h6, if_true]
            rw [applyIte_fh_same h1' h3' h5' h6']
            exact binS_specX pok reg .and fuel st f g a b hinv hf hg szab
          · have h6' : ¬ a.neg = c.neg := by rw [← hf.1, ← hh.1]; exact h6
            simp only [h6, if_false]
            rw [applyIte_fh_diff h1' h3' h5' h6']
            exact (binS_specX pok reg .and fuel st _ _ _ _ hinv hf hg.not
              (by simp only [Edge.size] at *; omega)).not
        · have h5' : ¬ a.n = c.n := fun e => h5 (ifh.mpr e)
          simp only [h5, if_false]
          obtain ⟨fn, ft⟩ := f
          obtain ⟨gn, gt⟩ := g
          obtain ⟨hn, ht⟩ := h
          obtain ⟨an, a⟩ := a
          obtain ⟨bn, b⟩ := b
          obtain ⟨cn, c⟩ := c
          obtain ⟨ef, hf2⟩ := hf
          obtain ⟨eg, hg2⟩ := hg
          obtain ⟨eh, hh2⟩ := hh
          simp only at ef eg eh hf2 hg2 hh2 h1 h3 h5 h1' h3' h5'
          subst ef eg eh
          cases hf2 with
          | term =>
            simp only
            rw [applyIte_ftop h1' h3' h5']
            cases fn
            · exact PostCX.done hinv ⟨rfl, hg2⟩
            · exact PostCX.done hinv ⟨rfl, hh2⟩
          | @inner i l t en e tt te hi hft hfe =>
            have hdf : DenotesC st.store ⟨fn, .inner i⟩ ⟨fn, .node l tt en te⟩ :=
              ⟨rfl, .inner hi hft hfe⟩
            cases hg2 with
            | term =>
              cases hh2 with
              | term => exact absurd rfl h1
              | @inner k l'' t'' en'' e'' tt'' te'' hk hht hhe =>
                have hdh : DenotesC st.store ⟨hn, .inner k⟩ ⟨hn, .node l'' tt'' en'' te''⟩ :=
                  ⟨rfl, .inner hk hht hhe⟩
                simp only
                rw [applyIte_gtop h5']
                cases gn
                · simp only [if_true]
                  exact (binS_specX pok reg .and fuel st _ _ _ _ hinv hdf.not hdh.not
                    (by simp only [Edge.size] at *; omega)).not
                · simp only [Bool.true_eq_false, if_false]
                  exact binS_specX pok reg .and fuel st _ _ _ _ hinv hdf.not hdh
                    (by simp only [Edge.size] at *; omega)
            | @inner j l' t' en' e' tt' te' hj hgt hge =>
              have hdg : DenotesC st.store ⟨gn, .inner j⟩ ⟨gn, .node l' tt' en' te'⟩ :=
                ⟨rfl, .inner hj hgt hge⟩
              cases hh2 with
              | term =>
                simp only
                rw [applyIte_htop (g := ⟨gn, .node l' tt' en' te'⟩) (by simp) h3']
                cases hn
                · simp only [if_true]
                  exact (binS_specX pok reg .and fuel st _ _ _ _ hinv hdf hdg.not
                    (by simp only [Edge.size] at *; omega)).not
                · simp only [Bool.true_eq_false, if_false]
                  exact binS_specX pok reg .and fuel st _ _ _ _ hinv hdf hdg
                    (by simp only [Edge.size] at *; omega)
              | @inner k l'' t'' en'' e'' tt'' te'' hk hht hhe =>
                have hdh : DenotesC st.store ⟨hn, .inner k⟩ ⟨hn, .node l'' tt'' en'' te''⟩ :=
                  ⟨rfl, .inner hk hht hhe⟩
                simp only
                split
                · -- cache hit
                  rename_i r hr
                  have hent := hinv.2 _ _ (pok.get_mem _ _ _ _ hr)
                  exact PostCX.done (st := st.tickd) hinv.tickd
                    (EntryOKCX.hit (ck := iteKey ⟨fn, .inner i⟩ ⟨gn, .inner j⟩ ⟨hn, .inner k⟩) hent
                      (iteKey_wf _ _ _) (DenotesLC.three hdf hdg hdh) rfl)
                · -- cache miss
                  rw [level?_denotes hdf, level?_denotes hdg, level?_denotes hdh]
                  simp only
                  rw [applyIte_rec h1' h3' h5']
                  generalize hl : min (min l l') l'' = m
                  have hmin : m = l ∨ m = l' ∨ m = l'' := by omega
                  have ha1 := tcofT_size_le m ⟨fn, .node l tt en te⟩
                  have hb1 := tcofT_size_le m ⟨gn, .node l' tt' en' te'⟩
                  have hc1 := tcofT_size_le m ⟨hn, .node l'' tt'' en'' te''⟩
                  have ha0 := tcofE_size_le m ⟨fn, .node l tt en te⟩
                  have hb0 := tcofE_size_le m ⟨gn, .node l' tt' en' te'⟩
                  have hc0 := tcofE_size_le m ⟨hn, .node l'' tt'' en'' te''⟩
                  have sz : (tcofT m ⟨fn, .node l tt en te⟩).size +
                      (tcofT m ⟨gn, .node l' tt' en' te'⟩).size +
                      (tcofT m ⟨hn, .node l'' tt'' en'' te''⟩).size ≤ fuel ∧
                      (tcofE m ⟨fn, .node l tt en te⟩).size +
                      (tcofE m ⟨gn, .node l' tt' en' te'⟩).size +
                      (tcofE m ⟨hn, .node l'' tt'' en'' te''⟩).size ≤ fuel := by
                    simp only [Edge.size] at ha1 hb1 hc1 ha0 hb0 hc0 hsz ⊢
                    rcases hmin with h | h | h <;> subst h
                    · have h1 := tcofT_size_lt m fn en tt te
                      have h2 := tcofE_size_lt m fn en tt te
                      simp only [Edge.size] at h1 h2; omega
                    · have h1 := tcofT_size_lt m gn en' tt' te'
                      have h2 := tcofE_size_lt m gn en' tt' te'
                      simp only [Edge.size] at h1 h2; omega
                    · have h1 := tcofT_size_lt m hn en'' tt'' te''
                      have h2 := tcofE_size_lt m hn en'' tt'' te''
                      simp only [Edge.size] at h1 h2; omega
                  have p1 := ih st.tickd _ _ _ _ _ _ hinv.tickd (cofT_denotes m hdf)
                    (cofT_denotes m hdg) (cofT_denotes m hdh) sz.1
                  have p0 := ih _ _ _ _ _ _ _ p1.inv ((cofE_denotes m hdf).mono p1.le)
                    ((cofE_denotes m hdg).mono p1.le) ((cofE_denotes m hdh).mono p1.le) sz.2
                  refine finishC_postX pok p1 p0
                    (.ite, [enc ⟨fn, .inner i⟩, enc ⟨gn, .inner j⟩, enc ⟨hn, .inner k⟩]) m
                    (KeyMeansC.of (ck := iteKey ⟨fn, .inner i⟩ ⟨gn, .inner j⟩ ⟨hn, .inner k⟩)
                      (iteKey_wf _ _ _) (DenotesLC.three hdf hdg hdh) ?_)
                  show some (applyIte _ _ _) = _
                  rw [applyIte_rec h1' h3' h5', hl]

end OxiddModel.Bcdd.Refine
