import OxiddModel.Bcdd.Quant

/-! `apply_quant::<Q, OP>` and its dispatch tables: the combined operation denotes the
quantification of the plain operator application, hence (by canonicity) returns the same diagram
as `quant ∘ apply`. -/
namespace OxiddModel.Bcdd
open CNode

theorem qsem_cof_gen (q : Quant) (vs : List Nat) (l : Nat) (b : Bool) (F G : (Nat → Bool) → Bool)
    (hl : l ∉ vs) (hFG : ∀ τ, τ l = b → F τ = G τ) (hG : DepGE (l+1) G) (σ : Nat → Bool) :
    qsem q vs F (upd σ l b) = qsem q vs G σ := by
  rw [qsem_congr q vs F G (upd σ l b) (fun τ hτ => hFG τ (by rw [hτ l hl, upd_same]))]
  exact qsem_upd_lt q vs hG (Nat.lt_succ_self _) b σ

theorem qsem_shannon_gen (q : Quant) (vs : List Nat) (l : Nat) (F Gt Ge : (Nat → Bool) → Bool)
    (hl : l ∉ vs) (ht : ∀ τ, τ l = true → F τ = Gt τ) (he : ∀ τ, τ l = false → F τ = Ge τ)
    (σ : Nat → Bool) :
    qsem q vs F σ = if σ l then qsem q vs Gt σ else qsem q vs Ge σ := by
  cases hσ : σ l
  · simp only [Bool.false_eq_true, if_false]
    exact qsem_congr q vs _ _ σ (fun τ hτ => he τ (by rw [hτ l hl, hσ]))
  · simp only [if_true]
    exact qsem_congr q vs _ _ σ (fun τ hτ => ht τ (by rw [hτ l hl, hσ]))

theorem QOp.apply_eval (op : QOp) (f g : Edge) (σ : Nat → Bool) :
    (op.apply f g).eval σ = op.sem (f.eval σ) (g.eval σ) := by
  cases op <;> simp only [QOp.apply, QOp.sem, applyNot_eval, applyAnd_eval, applyBin_eval, BOp.sem]

theorem QOp.apply_nf (op : QOp) (f g : Edge) (n : Nat) (hf : f.NF n) (hg : g.NF n) : (op.apply f g).NF n := by
  cases op <;> simp only [QOp.apply]
  · exact applyBin_nf _ _ _ n hf hg
  · exact applyBin_nf _ _ _ n hf hg
  · exact applyNot_nf (applyAnd_nf _ _ n hf hg)

/-- the terminal cases of `apply_quant`: `Done(h)` is handed to `quant` (negated for `UniqueNand`) -/
theorem termQ_spec (op : QOp) (f g h : Edge)
    (hd : (if op = .and ∨ op = .uniqueNand then terminalAnd f g else terminalXor f g) = .done h) :
    (∀ σ, (if op = .uniqueNand then applyNot h else h).eval σ = op.sem (f.eval σ) (g.eval σ)) ∧ Shape f g h := by
  cases op
  · simp only [true_or, if_true] at hd
    have := terminalAnd_spec f g; rw [hd] at this
    refine ⟨fun σ => ?_, this.2⟩
    simp only [reduceCtorEq, if_false, this.1 σ, QOp.sem]
  · simp only [reduceCtorEq, or_self, if_false] at hd
    have := terminalXor_spec f g; rw [hd] at this
    refine ⟨fun σ => ?_, this.2⟩
    simp only [reduceCtorEq, if_false, this.1 σ, QOp.sem]
  · simp only [or_true, if_true] at hd
    have := terminalAnd_spec f g; rw [hd] at this
    refine ⟨fun σ => ?_, this.2⟩
    simp only [if_true, applyNot_eval, this.1 σ, QOp.sem]

theorem termQ_nodes (op : QOp) (f g : Edge)
    (hn : (if op = .and ∨ op = .uniqueNand then terminalAnd f g else terminalXor f g) = .nodes) :
    f.n.isTop = false ∧ g.n.isTop = false := by
  cases op
  · simp only [true_or, if_true] at hn
    have := terminalAnd_spec f g; rw [hn] at this; exact this
  · simp only [reduceCtorEq, or_self, if_false] at hn
    have := terminalXor_spec f g; rw [hn] at this; exact this
  · simp only [or_true, if_true] at hn
    have := terminalAnd_spec f g; rw [hn] at this; exact this

theorem quant_eval' (q : Quant) (f vars : Edge) (n m : Nat) (hf : Ordered n f.n) (hv : Ordered m vars.n)
    (σ : Nat → Bool) : (quant q f vars).eval σ = qsem q (varsOf vars.n) (fun τ => f.eval τ) σ :=
  quant_eval q f.n f.neg vars n m hf hv σ

theorem quant_nf' (q : Quant) (f vars : Edge) (n : Nat) (hf : f.NF n) : (quant q f vars).NF n :=
  quant_nf q f.n f.neg vars n hf

theorem min_eq_left_iff (a b : Nat) : (a ≤ b) = (a = min a b) := propext ⟨fun h => by omega, fun h => by omega⟩
theorem min_eq_right_iff (a b : Nat) : (a ≥ b) = (b = min a b) := propext ⟨fun h => by omega, fun h => by omega⟩

theorem depGE_op (S : Bool → Bool → Bool) {f g : Edge} {a b l : Nat} (hf : Ordered a f.n) (hg : Ordered b g.n)
    (ha : l ≤ a) (hb : l ≤ b) : DepGE l (fun τ => S (f.eval τ) (g.eval τ)) := by
  intro σ τ hστ
  show S (f.eval σ) (g.eval σ) = S (f.eval τ) (g.eval τ)
  rw [Edge.eval_indep hf σ τ (fun v hv => hστ v (by omega)), Edge.eval_indep hg σ τ (fun v hv => hστ v (by omega))]

theorem applyQuant_eval (q : Quant) (op : QOp) (f g vars : Edge) :
    ∀ (n m : Nat), f.NF n → g.NF n → Ordered m vars.n → ∀ σ,
    (applyQuant q op f g vars).eval σ =
      qsem q (varsOf vars.n) (fun τ => op.sem (f.eval τ) (g.eval τ)) σ := by
  fun_induction applyQuant q op f g vars with
  | case1 f g vars h hd hop =>
    intro n m hf hg hv σ
    simp only [dite_eq_ite] at hd
    have hs := termQ_spec op f g h hd
    rw [quant_eval' q _ vars n m (hs.2.applyNot.nf hf hg).1 hv σ]
    have := hs.1
    simp only [hop, if_true] at this
    exact qsem_congr q _ _ _ σ (fun τ _ => by rw [this τ, hop])
  | case2 f g vars h hd hop =>
    intro n m hf hg hv σ
    simp only [dite_eq_ite] at hd
    have hs := termQ_spec op f g h hd
    rw [quant_eval' q _ vars n m (hs.2.nf hf hg).1 hv σ]
    have := hs.1
    simp only [hop, if_false] at this
    exact qsem_congr q _ _ _ σ (fun τ _ => this τ)
  | case8 f g vars hn hno =>
    intro n m hf hg hv σ
    exfalso
    simp only [dite_eq_ite] at hn
    have h := termQ_nodes op f g hn
    obtain ⟨fneg, fn⟩ := f
    obtain ⟨gneg, gn⟩ := g
    cases fn <;> cases gn <;> simp [isTop] at h
    exact hno _ _ _ _ _ _ _ _ _ _ rfl rfl
  | case3 vars fneg fl ft fen fe gneg gl gt gen ge minl vars_1 neg hv1 hn =>
    intro n m hf hg hv σ
    have hF := depGE_op op.sem (f := ⟨fneg, .node fl ft fen fe⟩) (g := ⟨gneg, .node gl gt gen ge⟩)
      hf.1.node_self hg.1.node_self (Nat.min_le_left fl gl) (Nat.min_le_right fl gl)
    have hpv : vars_1 = popVars q vars minl := by simp [vars_1, popVars]
    rw [QOp.apply_eval, ← popVars_qsem q vars minl hF σ, ← hpv, hv1]
    rfl
  | case4 vars fneg fl ft fen fe gneg gl gt gen ge minl vars_1 neg vl vt ven ve hv1 hu hn =>
    intro n m hf hg hv σ
    have hF := depGE_op op.sem (f := ⟨fneg, .node fl ft fen fe⟩) (g := ⟨gneg, .node gl gt gen ge⟩)
      hf.1.node_self hg.1.node_self (Nat.min_le_left fl gl) (Nat.min_le_right fl gl)
    have hpv : vars_1 = popVars q vars minl := by simp [vars_1, popVars]
    rw [terminal_eval, ← popVars_qsem q vars minl hF σ, ← hpv, hv1, hu.2]
    exact (qsem_unique_skip _ hF hu.1 σ).symm
  | case5 vars fneg fl ft fen fe gneg gl gt gen ge minl vars_1 neg vl vt ven ve hv1 hu hgt hn =>
    intro n m hf hg hv σ
    exfalso
    have hpv : vars_1 = popVars q vars minl := by simp [vars_1, popVars]
    have := popVars_ge q vars minl (hpv ▸ hv1) (fun h => hu ⟨h.2, h.1⟩)
    omega
  | case6 vars fneg fl ft fen fe gneg gl gt gen ge minl vars_1 neg vt ven ve hn hv1 hu hgt vt' t e ih1 ih2 =>
    intro n m hf hg hv σ
    have hF := depGE_op op.sem (f := ⟨fneg, .node fl ft fen fe⟩) (g := ⟨gneg, .node gl gt gen ge⟩)
      hf.1.node_self hg.1.node_self (Nat.min_le_left fl gl) (Nat.min_le_right fl gl)
    have hpv : vars_1 = popVars q vars minl := by simp [vars_1, popVars]
    have hpo := popVars_ordered q vars minl m hv
    rw [← hpv, hv1] at hpo
    rw [← popVars_qsem q vars minl hF σ, ← hpv, hv1]
    cases hpo with
    | node hm hvt hve =>
    have hvs : ∀ v ∈ varsOf vt, minl < v := fun v hv => varsOf_ge hvt v hv
    have hnot : minl ∉ varsOf vt := fun hm => Nat.lt_irrefl _ (hvs _ hm)
    have hvt' : vt' = ⟨false, vt⟩ := by simp [vt']
    simp only [dite_eq_ite, min_eq_left_iff fl gl, min_eq_right_iff fl gl] at ih1 ih2
    have hlf : minl ≤ fl := Nat.min_le_left _ _
    have hlg : minl ≤ gl := Nat.min_le_right _ _
    have hft := cof_nf_t hlf hf
    have hgt' := cof_nf_t hlg hg
    have hfe := cof_nf_e hlf hf
    have hge := cof_nf_e hlg hg
    rw [combine_eval]
    simp only [t, e, dite_eq_ite, min_eq_left_iff fl gl, min_eq_right_iff fl gl]
    rw [ih1 _ _ hft hgt' (by rw [hvt']; exact hvt) σ, ih2 _ _ hfe hge (by rw [hvt']; exact hvt) σ, hvt']
    simp only [varsOf, qsem]
    rw [qsem_cof_gen q _ minl true _ _ hnot (fun τ hτ => by
        rw [cof_eval_true τ minl fl fneg fen ft fe hτ, cof_eval_true τ minl gl gneg gen gt ge hτ])
      (depGE_op op.sem hft.1 hgt'.1 (Nat.le_refl _) (Nat.le_refl _)) σ]
    rw [qsem_cof_gen q _ minl false _ _ hnot (fun τ hτ => by
        rw [cof_eval_false τ minl fl fneg fen ft fe hτ, cof_eval_false τ minl gl gneg gen gt ge hτ])
      (depGE_op op.sem hfe.1 hge.1 (Nat.le_refl _) (Nat.le_refl _)) σ]
  | case7 vars fneg fl ft fen fe gneg gl gt gen ge minl vars_1 neg vl vt ven ve hv1 hu hgt vt' t e hne hn ih1 ih2 =>
    intro n m hf hg hv σ
    have hF := depGE_op op.sem (f := ⟨fneg, .node fl ft fen fe⟩) (g := ⟨gneg, .node gl gt gen ge⟩)
      hf.1.node_self hg.1.node_self (Nat.min_le_left fl gl) (Nat.min_le_right fl gl)
    have hpv : vars_1 = popVars q vars minl := by simp [vars_1, popVars]
    have hpo := popVars_ordered q vars minl m hv
    rw [← hpv, hv1] at hpo
    rw [← popVars_qsem q vars minl hF σ, ← hpv, hv1]
    have hlt : minl < vl := by omega
    have hvo : Ordered (minl + 1) (CNode.node vl vt ven ve) := by
      cases hpo with
      | node hm hvt hve => exact .node (by omega) hvt hve
    have hvs : ∀ v ∈ varsOf (CNode.node vl vt ven ve), minl < v := fun v hv => varsOf_ge hvo v hv
    have hnot : minl ∉ varsOf (CNode.node vl vt ven ve) := fun hm => Nat.lt_irrefl _ (hvs _ hm)
    have hvt' : vt' = ⟨neg, .node vl vt ven ve⟩ := by
      have : ¬vl = minl := by omega
      simp [vt', this, hv1]
    simp only [dite_eq_ite, min_eq_left_iff fl gl, min_eq_right_iff fl gl] at ih1 ih2
    have hlf : minl ≤ fl := Nat.min_le_left _ _
    have hlg : minl ≤ gl := Nat.min_le_right _ _
    have hft := cof_nf_t hlf hf
    have hgt' := cof_nf_t hlg hg
    have hfe := cof_nf_e hlf hf
    have hge := cof_nf_e hlg hg
    rw [mk_eval]
    simp only [t, e, dite_eq_ite, min_eq_left_iff fl gl, min_eq_right_iff fl gl]
    rw [ih1 _ _ hft hgt' (by rw [hvt']; exact hvo) σ, ih2 _ _ hfe hge (by rw [hvt']; exact hvo) σ, hvt']
    exact (qsem_shannon_gen q _ minl _ _ _ hnot
      (fun τ hτ => by
        show op.sem _ _ = op.sem _ _
        rw [cof_eval_true τ minl fl fneg fen ft fe hτ, cof_eval_true τ minl gl gneg gen gt ge hτ])
      (fun τ hτ => by
        show op.sem _ _ = op.sem _ _
        rw [cof_eval_false τ minl fl fneg fen ft fe hτ, cof_eval_false τ minl gl gneg gen gt ge hτ]) σ).symm

theorem applyQuant_nf (q : Quant) (op : QOp) (f g vars : Edge) :
    ∀ (n : Nat), f.NF n → g.NF n → (applyQuant q op f g vars).NF n := by
  fun_induction applyQuant q op f g vars with
  | case1 f g vars h hd hop =>
    intro n hf hg
    simp only [dite_eq_ite] at hd
    exact quant_nf' q _ vars n ((termQ_spec op f g h hd).2.applyNot.nf hf hg)
  | case2 f g vars h hd hop =>
    intro n hf hg
    simp only [dite_eq_ite] at hd
    exact quant_nf' q _ vars n ((termQ_spec op f g h hd).2.nf hf hg)
  | case3 => intro n hf hg; exact QOp.apply_nf op _ _ n hf hg
  | case4 => intro n hf hg; exact terminal_nf n false
  | case5 => intro n hf hg; exact QOp.apply_nf op _ _ n hf hg
  | case6 vars fneg fl ft fen fe gneg gl gt gen ge minl vars_1 neg vt ven ve hn hv1 hu hgt vt' t e ih1 ih2 =>
    intro n hf hg
    simp only [dite_eq_ite, min_eq_left_iff fl gl, min_eq_right_iff fl gl] at ih1 ih2
    have hlf : minl ≤ fl := Nat.min_le_left _ _
    have hlg : minl ≤ gl := Nat.min_le_right _ _
    have hnl : n ≤ minl := Nat.le_min.mpr ⟨nf_node_le hf, nf_node_le hg⟩
    have h1 := ih1 _ (cof_nf_t hlf hf) (cof_nf_t hlg hg)
    have h2 := ih2 _ (cof_nf_e hlf hf) (cof_nf_e hlg hg)
    have ht : t.NF (minl + 1) := by
      simp only [t, dite_eq_ite, min_eq_left_iff fl gl, min_eq_right_iff fl gl]; exact h1
    have he : e.NF (minl + 1) := by
      simp only [e, dite_eq_ite, min_eq_left_iff fl gl, min_eq_right_iff fl gl]; exact h2
    exact (combine_nf q t e _ ht he).mono (by omega)
  | case7 vars fneg fl ft fen fe gneg gl gt gen ge minl vars_1 neg vl vt ven ve hv1 hu hgt vt' t e hne hn ih1 ih2 =>
    intro n hf hg
    simp only [dite_eq_ite, min_eq_left_iff fl gl, min_eq_right_iff fl gl] at ih1 ih2
    have hlf : minl ≤ fl := Nat.min_le_left _ _
    have hlg : minl ≤ gl := Nat.min_le_right _ _
    have hnl : n ≤ minl := Nat.le_min.mpr ⟨nf_node_le hf, nf_node_le hg⟩
    have h1 := ih1 _ (cof_nf_t hlf hf) (cof_nf_t hlg hg)
    have h2 := ih2 _ (cof_nf_e hlf hf) (cof_nf_e hlg hg)
    have ht : t.NF (minl + 1) := by
      simp only [t, dite_eq_ite, min_eq_left_iff fl gl, min_eq_right_iff fl gl]; exact h1
    have he : e.NF (minl + 1) := by
      simp only [e, dite_eq_ite, min_eq_left_iff fl gl, min_eq_right_iff fl gl]; exact h2
    exact mk_nf hnl ht he
  | case8 => intro n hf hg; exact terminal_nf n false

/-! ## the dispatch tables -/

/-- one row of `apply_quant_dispatch` / `apply_quant_unique_dispatch`: the quantifier and native
operator actually run, and which of `f`, `g` and the result are complemented -/
structure Disp where
  q : Quant
  op : QOp
  nf : Bool
  ng : Bool
  nout : Bool
deriving DecidableEq, Repr

def Quant.dual : Quant → Quant
  | .forall_ => .exists_
  | .exists_ => .forall_
  | .unique => .unique

/-- the tables of `apply_quant_dispatch::<Q, QN>` and `apply_quant_unique_dispatch` as data -/
def dispatch : Quant → Op → Disp
  | .unique, .and => ⟨.unique, .and, false, false, false⟩
  | .unique, .or => ⟨.unique, .uniqueNand, true, true, false⟩
  | .unique, .xor => ⟨.unique, .xor, false, false, false⟩
  | .unique, .equiv => ⟨.unique, .xor, true, false, false⟩
  | .unique, .nand => ⟨.unique, .uniqueNand, false, false, false⟩
  | .unique, .nor => ⟨.unique, .and, true, true, false⟩
  | .unique, .imp => ⟨.unique, .uniqueNand, false, true, false⟩
  | .unique, .impStrict => ⟨.unique, .and, true, false, false⟩
  | q, .and => ⟨q, .and, false, false, false⟩
  | q, .or => ⟨q.dual, .and, true, true, true⟩
  | q, .xor => ⟨q, .xor, false, false, false⟩
  | q, .equiv => ⟨q.dual, .xor, false, false, true⟩
  | q, .nand => ⟨q.dual, .and, false, false, true⟩
  | q, .nor => ⟨q, .and, true, true, false⟩
  | q, .imp => ⟨q.dual, .and, false, true, true⟩
  | q, .impStrict => ⟨q, .and, true, false, false⟩

def tagIf (b : Bool) (f : Edge) : Edge := if b then applyNot f else f

@[simp] theorem tagIf_eval (b : Bool) (f : Edge) (σ : Nat → Bool) : (tagIf b f).eval σ = (b != f.eval σ) := by
  cases b <;> simp [tagIf]

theorem tagIf_nf (b : Bool) {f : Edge} {n : Nat} (h : f.NF n) : (tagIf b f).NF n := by
  cases b <;> exact h

/-- the code of the three `apply_*_edge` entry points is exactly the table -/
theorem applyQuantOp_eq_dispatch (q : Quant) (op : Op) (f g vars : Edge) :
    applyQuantOp q op f g vars =
      tagIf (dispatch q op).nout
        (applyQuant (dispatch q op).q (dispatch q op).op (tagIf (dispatch q op).nf f) (tagIf (dispatch q op).ng g) vars) := by
  cases q <;> cases op <;> rfl

/-- every row of the tables is a Boolean identity (finite table, by `decide`): the requested
connective is the native operator on possibly complemented operands, possibly complemented; a
complemented result goes with the dual quantifier and never occurs for `∃!` -/
theorem dispatch_table : ∀ (q : Quant) (op : Op),
    (∀ a b, op.sem a b = ((dispatch q op).nout != (dispatch q op).op.sem ((dispatch q op).nf != a) ((dispatch q op).ng != b))) ∧
    ((dispatch q op).q = if (dispatch q op).nout then q.dual else q) ∧
    (q = .unique → (dispatch q op).nout = false) := by
  intro q op
  cases q <;> cases op <;> decide

/-- De Morgan for the iterated quantifiers: `¬ Q̄ vs. F = Q vs. ¬F` for `∀`/`∃` -/
theorem qsem_dual (q : Quant) (hq : q ≠ .unique) (vs : List Nat) (F : (Nat → Bool) → Bool) (σ : Nat → Bool) :
    (!qsem q.dual vs F σ) = qsem q vs (fun τ => !F τ) σ := by
  induction vs generalizing σ with
  | nil => rfl
  | cons v vs ih =>
    simp only [qsem, ← ih]
    cases q <;> simp_all [Quant.sem, Quant.dual]

theorem applyQuantOp_eval (q : Quant) (op : Op) (f g vars : Edge) (n m : Nat)
    (hf : f.NF n) (hg : g.NF n) (hv : Ordered m vars.n) (σ : Nat → Bool) :
    (applyQuantOp q op f g vars).eval σ =
      qsem q (varsOf vars.n) (fun τ => op.sem (f.eval τ) (g.eval τ)) σ := by
  rw [applyQuantOp_eq_dispatch, tagIf_eval,
    applyQuant_eval _ _ _ _ vars n m (tagIf_nf _ hf) (tagIf_nf _ hg) hv σ]
  obtain ⟨hsem, hq, hu⟩ := dispatch_table q op
  rw [hq]
  cases hout : (dispatch q op).nout
  · simp only [Bool.false_eq_true, if_false, Bool.false_bne]
    exact qsem_congr q _ _ _ σ (fun τ _ => by
      rw [hsem, hout, tagIf_eval, tagIf_eval, Bool.false_bne])
  · have hqu : q ≠ .unique := fun h => by rw [hu h] at hout; cases hout
    simp only [if_true, Bool.true_bne]
    rw [qsem_dual q hqu]
    exact qsem_congr q _ _ _ σ (fun τ _ => by
      rw [hsem, hout, tagIf_eval, tagIf_eval, Bool.true_bne])

theorem applyQuantOp_nf (q : Quant) (op : Op) (f g vars : Edge) (n : Nat) (hf : f.NF n) (hg : g.NF n) :
    (applyQuantOp q op f g vars).NF n := by
  rw [applyQuantOp_eq_dispatch]
  exact tagIf_nf _ (applyQuant_nf _ _ _ _ vars n (tagIf_nf _ hf) (tagIf_nf _ hg))

end OxiddModel.Bcdd
