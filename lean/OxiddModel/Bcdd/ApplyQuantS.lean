import OxiddModel.Bcdd.QuantS

/-!
# `apply_quant::<Q, OP>` and its dispatchers on the BCDD store, with the apply cache

`applyQuantS` follows `apply_quant` of
`crates/oxidd-rules-bdd/src/complement_edge/apply_rec.rs`
(`Q ∈ {Forall, Exists, Unique}`, `OP ∈ {And, Xor, UniqueNand}`):

* `terminal_and(f, g)` (for `And` and `UniqueNand`) / `terminal_xor(f, g)`: `Done(h)` ⇒
  `quant::<Q>(h, vars)`, for `UniqueNand` `quant::<Q>(not(h), vars)`; `Nodes` ⇒ **continue with the
  operands ordered by `f < g`** (for the key, the cofactors and the recursion);
* `set_pop(vars, min_level)` (not for `Unique`); empty set or all variables below ⇒
  `apply_bin::<OP>(f, g)` (`not(apply_and(f, g))` for `UniqueNand`); `Unique` with a variable above
  both ⇒ `⊥`;
* cache query under `(from_apply_quant(Q, OP), [f, g, vars])` — three edge operands **with their
  complement tags**, quantifier and native operator folded into the `BCDDOp` — with the ordered
  `f`, `g` and the popped `vars`;
* cofactors (`collect_cofactors(tag, node)` for the operand(s) at the top level), recursion, then
  `apply_and` / `not(apply_and(not, not))` / `apply_bin::<Xor>` on the two results or `reduce`;
  cache add.

`applyQuantDispatchS` / `applyQuantUniqueDispatchS` / `applyQuantOpS` are
`apply_quant_dispatch::<Q, QN>`, `apply_quant_unique_dispatch` and the three `apply_*_edge` entry
points: the row of the dispatch table (`Bcdd.dispatch`, re-proved on the table extracted from the
source in `Generated/ObBcdd.lean`) says which operands and whether the result are complemented and
which quantifier / native operator run.

Tree level: unfolding lemmas for `applyQuant`, and `applyQuant_comm` (the operand order is
irrelevant, for all trees), which is what makes the operand ordering sound.

`applyQuantS_spec`: for all tree edges `a`, `b`, `v` there is a fuel bound `N` (depending on the
trees only) such that for every admissible policy, every sound cache, every store and all edges
denoting `a`, `b`, `v`: the result denotes `applyQuant q op a b v`, the store is only extended, and
`Unique`, `CacheOKCX`, `NoRed` are preserved. `applyQuantOpS_spec`: the same for the entry points
and `applyQuantOp q op` (all eight connectives).
-/
namespace OxiddModel.Bcdd.Refine
open OxiddModel.Bcdd OxiddModel.Bcdd.CNode
open OxiddModel.Bdd.Refine (Policy OpTag Key Cache)

/-! ## tree level -/

/-- the terminal-case function `apply_quant::<_, OP>` uses: `terminal_and` for `And` and
`UniqueNand`, `terminal_xor` for `Xor` -/
def _root_.OxiddModel.Bcdd.QOp.bop : QOp → BOp
  | .and => .and
  | .xor => .xor
  | .uniqueNand => .and

theorem qop_term (op : QOp) (f g : Edge) :
    (if op = .and ∨ op = .uniqueNand then terminalAnd f g else terminalXor f g) =
      terminalOp op.bop f g := by
  cases op <;> simp [QOp.bop, terminalOp]

/-- `h` resp. `not(h)` for `UniqueNand` -/
def qopDone (op : QOp) (h : Edge) : Edge := if op = .uniqueNand then applyNot h else h

theorem applyQuant_done {q : Quant} {op : QOp} {f g h : Edge} (vars : Edge)
    (hb : terminalOp op.bop f g = .done h) :
    applyQuant q op f g vars = quant q (qopDone op h) vars := by
  rw [applyQuant.eq_def]; simp only [qop_term, hb, qopDone]
  split <;> rfl

/-- the operand of the then-recursion (`if flevel <= glevel { cofactor } else { f }`); `ol` is the
level of the other operand -/
def aqT (f : Edge) (ol : Nat) : Edge :=
  match f with
  | ⟨neg, .node l t en e⟩ => if l ≤ ol then ⟨neg, t⟩ else ⟨neg, .node l t en e⟩
  | ⟨neg, .top⟩ => ⟨neg, .top⟩

/-- the operand of the else-recursion -/
def aqE (f : Edge) (ol : Nat) : Edge :=
  match f with
  | ⟨neg, .node l t en e⟩ => if l ≤ ol then ⟨neg != en, e⟩ else ⟨neg, .node l t en e⟩
  | ⟨neg, .top⟩ => ⟨neg, .top⟩

/-- the variable set handed to the recursive calls -/
def aqVt (vars' : Edge) (minl : Nat) : Edge :=
  match vars' with
  | ⟨n, .top⟩ => ⟨n, .top⟩
  | ⟨n, .node vl vt ven ve⟩ => if vl = minl then ⟨false, vt⟩ else ⟨n, .node vl vt ven ve⟩

/-- the body of `apply_quant` for two inner nodes (levels `fl`, `gl`), after the (optional)
`set_pop` -/
def aqStep (q : Quant) (op : QOp) (f g : Edge) (fl gl : Nat) (vars' : Edge) : Edge :=
  match vars' with
  | ⟨_, .top⟩ => op.apply f g
  | ⟨vneg, .node vl vt ven ve⟩ =>
    if vl < min fl gl ∧ q = .unique then terminal false else
    if min fl gl > vl then op.apply f g else
    if min fl gl = vl then
      applyOp q.toOp
        (applyQuant q op (aqT f gl) (aqT g fl) (aqVt ⟨vneg, .node vl vt ven ve⟩ (min fl gl)))
        (applyQuant q op (aqE f gl) (aqE g fl) (aqVt ⟨vneg, .node vl vt ven ve⟩ (min fl gl)))
    else
      mk (min fl gl)
        (applyQuant q op (aqT f gl) (aqT g fl) (aqVt ⟨vneg, .node vl vt ven ve⟩ (min fl gl)))
        (applyQuant q op (aqE f gl) (aqE g fl) (aqVt ⟨vneg, .node vl vt ven ve⟩ (min fl gl)))

theorem applyQuant_nodes {q : Quant} {op : QOp} {fneg gneg fen gen : Bool} {fl gl : Nat}
    {ft fe gt ge : CNode} (vars : Edge)
    (hb : terminalOp op.bop ⟨fneg, .node fl ft fen fe⟩ ⟨gneg, .node gl gt gen ge⟩ = .nodes) :
    applyQuant q op ⟨fneg, .node fl ft fen fe⟩ ⟨gneg, .node gl gt gen ge⟩ vars =
      aqStep q op ⟨fneg, .node fl ft fen fe⟩ ⟨gneg, .node gl gt gen ge⟩ fl gl
        (popVars q vars (min fl gl)) := by
  rw [applyQuant.eq_def]; simp only [qop_term, hb]
  unfold popVars
  generalize (if q ≠ .unique then setPop vars (min fl gl) else vars) = vars'
  obtain ⟨vneg, vn⟩ := vars'
  cases vn with
  | top => rfl
  | node vl vt ven ve =>
    simp only [aqStep, aqT, aqE, aqVt, ge_iff_le, combine_eq_applyOp]

/-- the cache key is normalised soundly: the popped set gives the same result -/
theorem applyQuant_popVars {q : Quant} {op : QOp} {fneg gneg fen gen : Bool} {fl gl : Nat}
    {ft fe gt ge : CNode} (vars : Edge)
    (hb : terminalOp op.bop ⟨fneg, .node fl ft fen fe⟩ ⟨gneg, .node gl gt gen ge⟩ = .nodes) :
    applyQuant q op ⟨fneg, .node fl ft fen fe⟩ ⟨gneg, .node gl gt gen ge⟩
        (popVars q vars (min fl gl)) =
      applyQuant q op ⟨fneg, .node fl ft fen fe⟩ ⟨gneg, .node gl gt gen ge⟩ vars := by
  rw [applyQuant_nodes _ hb, applyQuant_nodes _ hb, popVars_idem]

theorem terminalOp_nodes_shape {op : BOp} {f g : Edge} (hb : terminalOp op f g = .nodes) :
    ∃ fneg fl ft fen fe gneg gl gt gen ge,
      f = ⟨fneg, .node fl ft fen fe⟩ ∧ g = ⟨gneg, .node gl gt gen ge⟩ := by
  have := terminalOp_spec op f g
  rw [hb] at this
  obtain ⟨fneg, fn⟩ := f
  obtain ⟨gneg, gn⟩ := g
  cases fn <;> cases gn <;> simp [isTop] at this
  exact ⟨_, _, _, _, _, _, _, _, _, _, rfl, rfl⟩

theorem aqT_size_le (f : Edge) (ol : Nat) : (aqT f ol).size ≤ f.size := by
  obtain ⟨neg, n⟩ := f
  cases n with
  | top => simp [aqT]
  | node l t en e => simp only [aqT]; split <;> simp only [Edge.size, CNode.size] <;> omega

theorem aqE_size_le (f : Edge) (ol : Nat) : (aqE f ol).size ≤ f.size := by
  obtain ⟨neg, n⟩ := f
  cases n with
  | top => simp [aqE]
  | node l t en e => simp only [aqE]; split <;> simp only [Edge.size, CNode.size] <;> omega

theorem aq_sizes (fneg gneg fen gen : Bool) (fl gl : Nat) (ft fe gt ge : CNode) :
    (aqT ⟨fneg, .node fl ft fen fe⟩ gl).size + (aqT ⟨gneg, .node gl gt gen ge⟩ fl).size <
      (CNode.node fl ft fen fe).size + (CNode.node gl gt gen ge).size ∧
    (aqE ⟨fneg, .node fl ft fen fe⟩ gl).size + (aqE ⟨gneg, .node gl gt gen ge⟩ fl).size <
      (CNode.node fl ft fen fe).size + (CNode.node gl gt gen ge).size := by
  simp only [aqT, aqE]
  by_cases h : fl ≤ gl
  · by_cases h' : gl ≤ fl <;> simp only [h, h', if_true, if_false, Edge.size, CNode.size] <;> omega
  · have h' : gl ≤ fl := by omega
    simp only [h, h', if_true, if_false, Edge.size, CNode.size]; omega

theorem qop_apply_comm (op : QOp) (f g : Edge) : op.apply f g = op.apply g f := by
  cases op <;> simp only [QOp.apply, applyAnd] <;> rw [applyBin_comm]

/-- **the operand order of `apply_quant` is irrelevant** (all trees, all three native operators)
— the reason why `apply_quant` may continue with the operands ordered by `f < g` and memoise under
them -/
theorem applyQuant_comm (q : Quant) (op : QOp) (n : Nat) :
    ∀ (f g vars : Edge), f.size + g.size ≤ n →
      applyQuant q op f g vars = applyQuant q op g f vars := by
  induction n with
  | zero => intro f g _ h; have := size_pos f.n; simp only [Edge.size] at h; omega
  | succ n ih =>
    intro f g vars hsz
    have hcm := terminalOp_comm op.bop f g
    cases hb : terminalOp op.bop f g with
    | done h =>
      rw [hb] at hcm
      rw [applyQuant_done _ hb, applyQuant_done _ hcm]
    | nodes =>
      rw [hb] at hcm
      obtain ⟨fneg, fl, ft, fen, fe, gneg, gl, gt, gen, ge, rfl, rfl⟩ := terminalOp_nodes_shape hb
      rw [applyQuant_nodes _ hb, applyQuant_nodes _ hcm, Nat.min_comm gl fl]
      generalize popVars q vars (min fl gl) = v'
      have hab := qop_apply_comm op ⟨fneg, .node fl ft fen fe⟩ ⟨gneg, .node gl gt gen ge⟩
      have hs := aq_sizes fneg gneg fen gen fl gl ft fe gt ge
      simp only [Edge.size] at hsz
      obtain ⟨vneg, vn⟩ := v'
      cases vn with
      | top => simp only [aqStep]; exact hab
      | node vl vt ven ve =>
        simp only [aqStep, Nat.min_comm gl fl]
        rw [hab, ih (aqT ⟨fneg, .node fl ft fen fe⟩ gl) (aqT ⟨gneg, .node gl gt gen ge⟩ fl) _
            (by omega),
          ih (aqE ⟨fneg, .node fl ft fen fe⟩ gl) (aqE ⟨gneg, .node gl gt gen ge⟩ fl) _ (by omega)]

/-! ## the algorithm -/

/-- the plain application `apply_quant` falls back to: `apply_bin::<OP>(f, g)`, for `UniqueNand`
`not_owned(apply_and(f, g))` -/
def qopApplyS (p : Policy) (op : QOp) (af : Nat) (st : StC) (f g : EdgeC) : StC × EdgeC :=
  match op with
  | .and => binS p .and af st f g
  | .xor => binS p .xor af st f g
  | .uniqueNand => let r := binS p .and af st f g; (r.1, notE r.2)

/-- the part of `apply_quant` after the terminal cases returned `Nodes` and the operands have
been ordered; `rec` is the recursive call. The cache key is a parameter (`aqBodyS` below
instantiates it with the key of the Rust code) so that `WitnessC04S.lean` can run the *same* code
with a defective key. -/
def aqBodyK (key : Quant → QOp → EdgeC → EdgeC → EdgeC → Key) (p : Policy) (q : Quant) (op : QOp) (af : Nat)
    (rec : StC → EdgeC → EdgeC → EdgeC → StC × EdgeC) (st : StC) (f g vars : EdgeC) : StC × EdgeC :=
  match f.tgt, g.tgt with
  | .inner i, .inner k =>
    match st.store.get? i, st.store.get? k with
    | some fn, some gn =>
      let minl := min fn.level gn.level
      let vars := if q ≠ .unique then st.store.setPopC af vars minl else vars
      match vars.tgt with
      | .term =>
        -- empty variable set: just apply operation
        qopApplyS p op af st f g
      | .inner j =>
        match st.store.get? j with
        | none => (st, f) -- dangling edge (excluded by `DenotesC`)
        | some vn =>
          if vn.level < minl ∧ q = .unique then (st, termC false) else
          if minl > vn.level then
            -- beyond the variables to be quantified, so simply apply
            qopApplyS p op af st f g
          else
          -- query the cache
          match p.get st.tick st.cache (key q op f g vars) with
          | some r => (st.tickd, dec r)
          | none =>
            let vt : EdgeC := if vn.level = minl then ⟨false, vn.t⟩ else vars
            let fte : EdgeC × EdgeC :=
              if fn.level ≤ gn.level then (⟨f.neg, fn.t⟩, ⟨f.neg != fn.e.neg, fn.e.tgt⟩) else (f, f)
            let gte : EdgeC × EdgeC :=
              if gn.level ≤ fn.level then (⟨g.neg, gn.t⟩, ⟨g.neg != gn.e.neg, gn.e.tgt⟩) else (g, g)
            let r1 := rec st.tickd fte.1 gte.1 vt
            let r0 := rec r1.1 fte.2 gte.2 vt
            if minl = vn.level then
              let r := applyOpS p q.toOp af r0.1 r1.2 r0.2
              addC p r.1 (key q op f g vars) r.2
            else
              finishC p r0.1 (key q op f g vars) minl r1.2 r0.2
    | _, _ => (st, f) -- dangling edge
  | _, _ => (st, f) -- unreachable: `Nodes` is returned only for two inner nodes

/-- `apply_quant` after the terminal cases, with the key of the Rust code:
`(from_apply_quant(Q, OP), [f, g, vars])` -/
def aqBodyS (p : Policy) (q : Quant) (op : QOp) (af : Nat)
    (rec : StC → EdgeC → EdgeC → EdgeC → StC × EdgeC) (st : StC) (f g vars : EdgeC) : StC × EdgeC :=
  aqBodyK (fun q op f g vars => encKeyC (applyQuantKey q op f g vars)) p q op af rec st f g vars

/-- `apply_quant::<Q, OP>` -/
def applyQuantS (p : Policy) (q : Quant) (op : QOp) (af : Nat) :
    Nat → StC → EdgeC → EdgeC → EdgeC → StC × EdgeC
  | 0, st, f, _, _ => (st, f)
  | fuel+1, st, f, g, vars =>
    match terminalOpS op.bop f g with
    | .nodes =>
      -- `if f < g { (f, g) } else { (g, f) }`
      let k := orderPair f g
      aqBodyS p q op af (applyQuantS p q op af fuel) st k.1 k.2 vars
    | .done h =>
      if op = .uniqueNand then quantS p q af af st (notE h) vars else quantS p q af af st h vars

/-- `apply_quant_dispatch::<Q, QN>` / `apply_quant_unique_dispatch` through the table
`Bcdd.dispatch` (`applyQuantOp_eq_dispatch`: the tree-level code *is* the table) -/
def applyQuantOpS (p : Policy) (q : Quant) (op : Op) (af fuel : Nat) (st : StC) (f g vars : EdgeC) :
    StC × EdgeC :=
  let d := dispatch q op
  let r := applyQuantS p d.q d.op af fuel st (if d.nf then notE f else f) (if d.ng then notE g else g)
    vars
  (r.1, if d.nout then notE r.2 else r.2)

/-! ## specification -/

theorem applyQuantKey_means {reg : Nat → List Edge} {s : StoreC} {q : Quant} {op : QOp}
    {f g vars : EdgeC} {a b v : Edge} (hf : DenotesC s f a) (hg : DenotesC s g b)
    (hv : DenotesC s vars v) :
    KeyMeansC reg s (encKeyC (applyQuantKey q op f g vars)) (applyQuant q op a b v) :=
  KeyMeansC.of (applyQuantKey_wf q op f g vars) (DenotesLC.three hf hg hv) rfl

theorem qopApplyS_spec {p : Policy} (pok : p.OK) (reg : Nat → List Edge) (op : QOp) (af : Nat)
    (st : StC) (f g : EdgeC) (a b : Edge) (hinv : InvCX reg st) (hf : DenotesC st.store f a)
    (hg : DenotesC st.store g b) (hsz : a.size + b.size ≤ af) :
    PostCW reg st.store (op.apply a b) (qopApplyS p op af st f g) := by
  cases op <;> simp only [qopApplyS, QOp.apply, applyAnd]
  · exact (binS_specX pok reg .and af st f g a b hinv hf hg hsz).toPostCW
  · exact (binS_specX pok reg .xor af st f g a b hinv hf hg hsz).toPostCW
  · exact (binS_specX pok reg .and af st f g a b hinv hf hg hsz).toPostCW.not

/-- what is required of the recursive call for operand tree edges `a`, `b`, `v` -/
def RecOKC (reg : Nat → List Edge) (q : Quant) (op : QOp)
    (rec : StC → EdgeC → EdgeC → EdgeC → StC × EdgeC) (a b v : Edge) : Prop :=
  ∀ (st : StC) (f g vars : EdgeC), InvCX reg st → DenotesC st.store f a → DenotesC st.store g b →
    DenotesC st.store vars v → PostCW reg st.store (applyQuant q op a b v) (rec st f g vars)

/-- the body, given correct recursive calls and enough fuel for the inner calls -/
theorem aqBodyS_post {p : Policy} (pok : p.OK) (reg : Nat → List Edge) (q : Quant) (op : QOp)
    (af : Nat) (rec : StC → EdgeC → EdgeC → EdgeC → StC × EdgeC)
    {fneg gneg fen gen : Bool} {fl gl : Nat} {ft fe gt ge : CNode} {v : Edge}
    (hb : terminalOp op.bop ⟨fneg, .node fl ft fen fe⟩ ⟨gneg, .node gl gt gen ge⟩ = .nodes)
    (hrec1 : RecOKC reg q op rec (aqT ⟨fneg, .node fl ft fen fe⟩ gl)
      (aqT ⟨gneg, .node gl gt gen ge⟩ fl) (aqVt (popVars q v (min fl gl)) (min fl gl)))
    (hrec0 : RecOKC reg q op rec (aqE ⟨fneg, .node fl ft fen fe⟩ gl)
      (aqE ⟨gneg, .node gl gt gen ge⟩ fl) (aqVt (popVars q v (min fl gl)) (min fl gl)))
    (hv : v.size ≤ af)
    (hfg : (CNode.node fl ft fen fe).size + (CNode.node gl gt gen ge).size ≤ af)
    (hte : (applyQuant q op (aqT ⟨fneg, .node fl ft fen fe⟩ gl) (aqT ⟨gneg, .node gl gt gen ge⟩ fl)
        (aqVt (popVars q v (min fl gl)) (min fl gl))).size +
      (applyQuant q op (aqE ⟨fneg, .node fl ft fen fe⟩ gl) (aqE ⟨gneg, .node gl gt gen ge⟩ fl)
        (aqVt (popVars q v (min fl gl)) (min fl gl))).size ≤ af)
    (st : StC) (f g vars : EdgeC) (hinv : InvCX reg st)
    (hf : DenotesC st.store f ⟨fneg, .node fl ft fen fe⟩)
    (hg : DenotesC st.store g ⟨gneg, .node gl gt gen ge⟩)
    (hvars : DenotesC st.store vars v) :
    PostCW reg st.store (applyQuant q op ⟨fneg, .node fl ft fen fe⟩ ⟨gneg, .node gl gt gen ge⟩ v)
      (aqBodyS p q op af rec st f g vars) := by
  obtain ⟨fn, ftg⟩ := f
  obtain ⟨gn, gtg⟩ := g
  obtain ⟨hf1, hf2⟩ := hf
  obtain ⟨hg1, hg2⟩ := hg
  simp only at hf1 hf2 hg1 hg2
  subst hf1 hg1
  cases hf2 with
  | @inner i _ t _ e _ _ hi hft hfe =>
  cases hg2 with
  | @inner k _ t' _ e' _ _ hk hgt hge =>
  have hdf : DenotesC st.store ⟨fn, .inner i⟩ ⟨fn, .node fl ft fen fe⟩ := ⟨rfl, .inner hi hft hfe⟩
  have hdg : DenotesC st.store ⟨gn, .inner k⟩ ⟨gn, .node gl gt gen ge⟩ := ⟨rfl, .inner hk hgt hge⟩
  have hpop : DenotesC st.store
      (if q ≠ .unique then st.store.setPopC af vars (min fl gl) else vars)
      (popVars q v (min fl gl)) := by
    unfold popVars
    split
    · exact setPopC_denotes _ af hvars hv
    · exact hvars
  have happly := qopApplyS_spec pok reg op af st _ _ _ _ hinv hdf hdg
    (by simp only [Edge.size]; exact hfg)
  rw [applyQuant_nodes _ hb]
  simp only [aqBodyS, aqBodyK, hi, hk]
  generalize (if q ≠ .unique then st.store.setPopC af vars (min fl gl) else vars) = vars' at hpop ⊢
  generalize hv' : popVars q v (min fl gl) = v' at hpop hrec1 hrec0 hte
  obtain ⟨vsn, vst⟩ := vars'
  obtain ⟨vn', v'⟩ := v'
  obtain ⟨hp1, hp2⟩ := hpop
  simp only at hp1 hp2
  subst hp1
  cases hp2 with
  | term => simp only [aqStep]; exact happly
  | @inner j vl vt ven ve vtt vte hj hvt hve =>
    have hdv : DenotesC st.store ⟨vsn, .inner j⟩ ⟨vsn, .node vl vtt ven vte⟩ :=
      ⟨rfl, .inner hj hvt hve⟩
    simp only [hj, aqStep]
    by_cases hu : vl < min fl gl ∧ q = .unique
    · simp only [hu, and_self, if_true]
      exact PostCW.done hinv (DenotesC.term _ false)
    · simp only [hu, if_false]
      by_cases hbey : min fl gl > vl
      · simp only [hbey, if_true]
        exact happly
      · simp only [hbey, if_false]
        have hkey : KeyMeansC reg st.store
            (encKeyC (applyQuantKey q op ⟨fn, .inner i⟩ ⟨gn, .inner k⟩ ⟨vsn, .inner j⟩))
            (aqStep q op ⟨fn, .node fl ft fen fe⟩ ⟨gn, .node gl gt gen ge⟩ fl gl
              ⟨vsn, .node vl vtt ven vte⟩) := by
          have := applyQuantKey_means (reg := reg) (q := q) (op := op) hdf hdg hdv
          rw [applyQuant_nodes _ hb, ← hv', popVars_idem, hv'] at this
          exact this
        simp only [aqStep, hbey, if_false] at hkey
        cases hget : p.get st.tick st.cache
            (encKeyC (applyQuantKey q op ⟨fn, .inner i⟩ ⟨gn, .inner k⟩ ⟨vsn, .inner j⟩)) with
        | some r =>
          have hent := hinv.2 _ _ (pok.get_mem _ _ _ _ hget)
          have := hent.hit (applyQuantKey_wf q op _ _ _) (DenotesLC.three hdf hdg hdv) rfl
          rw [applyQuant_nodes _ hb, ← hv', popVars_idem, hv'] at this
          simp only [aqStep, hbey, if_false] at this
          exact PostCW.done (st := st.tickd) hinv.tickd this
        | none =>
          simp only
          -- the operands of the recursive calls
          have hvt' : DenotesC st.store (if vl = min fl gl then ⟨false, vt⟩ else ⟨vsn, .inner j⟩)
              (aqVt ⟨vsn, .node vl vtt ven vte⟩ (min fl gl)) := by
            simp only [aqVt]; split
            · exact ⟨rfl, hvt⟩
            · exact hdv
          have hf1 : DenotesC st.store
              (if fl ≤ gl then ((⟨fn, t⟩ : EdgeC), (⟨fn != fen, e⟩ : EdgeC))
                else (⟨fn, .inner i⟩, ⟨fn, .inner i⟩)).1
              (aqT ⟨fn, .node fl ft fen fe⟩ gl) := by
            simp only [aqT]; split
            · exact ⟨rfl, hft⟩
            · exact hdf
          have hf0 : DenotesC st.store
              (if fl ≤ gl then ((⟨fn, t⟩ : EdgeC), (⟨fn != fen, e⟩ : EdgeC))
                else (⟨fn, .inner i⟩, ⟨fn, .inner i⟩)).2
              (aqE ⟨fn, .node fl ft fen fe⟩ gl) := by
            simp only [aqE]; split
            · exact ⟨rfl, hfe⟩
            · exact hdf
          have hg1 : DenotesC st.store
              (if gl ≤ fl then ((⟨gn, t'⟩ : EdgeC), (⟨gn != gen, e'⟩ : EdgeC))
                else (⟨gn, .inner k⟩, ⟨gn, .inner k⟩)).1
              (aqT ⟨gn, .node gl gt gen ge⟩ fl) := by
            simp only [aqT]; split
            · exact ⟨rfl, hgt⟩
            · exact hdg
          have hg0 : DenotesC st.store
              (if gl ≤ fl then ((⟨gn, t'⟩ : EdgeC), (⟨gn != gen, e'⟩ : EdgeC))
                else (⟨gn, .inner k⟩, ⟨gn, .inner k⟩)).2
              (aqE ⟨gn, .node gl gt gen ge⟩ fl) := by
            simp only [aqE]; split
            · exact ⟨rfl, hge⟩
            · exact hdg
          by_cases hlv : min fl gl = vl
          · subst hlv
            simp only [if_true] at hkey hvt' ⊢
            have p1 := hrec1 st.tickd _ _ _ hinv.tickd hf1 hg1 hvt'
            have p0 := hrec0 _ _ _ _ p1.inv (hf0.mono p1.le) (hg0.mono p1.le) (hvt'.mono p1.le)
            have pa := (applyOpS_specX pok reg q.toOp af _ _ _ _ _ p0.inv (p1.den.mono p0.le)
              p0.den hte).toPostCW
            have pa' : PostCW reg st.store _ _ :=
              PostCW.trans (p1.le.trans p0.le) (fun hr => p0.nored (p1.nored hr)) pa
            exact addC_postW pok pa' _ hkey
          · have hvl : ¬ vl = min fl gl := fun h => hlv h.symm
            simp only [hlv, hvl, if_false] at hkey hvt' ⊢
            have p1 := hrec1 st.tickd _ _ _ hinv.tickd hf1 hg1 hvt'
            have p0 := hrec0 _ _ _ _ p1.inv (hf0.mono p1.le) (hg0.mono p1.le) (hvt'.mono p1.le)
            exact finishC_postW pok p1 p0 _ _ hkey

/-- **`apply_quant::<Q, OP>` with cache refines `applyQuant q op`.** -/
theorem applyQuantS_spec (reg : Nat → List Edge) (q : Quant) (op : QOp) (n : Nat) :
    ∀ (a b v : Edge), a.size + b.size ≤ n →
    ∃ N, ∀ (p : Policy), p.OK → ∀ (af fuel : Nat), N ≤ af → a.size + b.size ≤ fuel →
      ∀ (st : StC) (f g vars : EdgeC), InvCX reg st → DenotesC st.store f a →
        DenotesC st.store g b → DenotesC st.store vars v →
        PostCW reg st.store (applyQuant q op a b v) (applyQuantS p q op af fuel st f g vars) := by
  induction n with
  | zero => intro a b _ h; have := size_pos a.n; simp only [Edge.size] at h; omega
  | succ n ih =>
    intro a b v hsz
    cases hT : terminalOp op.bop a b with
    | done t =>
      refine ⟨max (qopDone op t).size (quantNeed q (qopDone op t).neg (qopDone op t).n v), ?_⟩
      intro p pok af fuel hN hfuel st f g vars hinv hf hg hv
      have hsa := size_pos a.n
      simp only [Edge.size] at hfuel
      obtain ⟨fuel, rfl⟩ : ∃ k, fuel = k + 1 := ⟨fuel - 1, by omega⟩
      have hc := terminalOpS_corr op.bop hinv.1 hf hg
      rw [hT] at hc
      rw [applyQuant_done _ hT]
      simp only [applyQuantS]
      cases hS : terminalOpS op.bop f g with
      | done e =>
        rw [hS] at hc
        simp only
        by_cases hop : op = .uniqueNand
        · simp only [qopDone, hop, if_true] at hN ⊢
          exact quantS_spec pok reg q af af st _ vars _ v hinv hc.not hv (by omega) (by omega)
        · simp only [qopDone, hop, if_false] at hN ⊢
          exact quantS_spec pok reg q af af st e vars t v hinv hc hv (by omega) (by omega)
      | nodes => rw [hS] at hc; exact hc.elim
    | nodes =>
      obtain ⟨fneg, fl, ft, fen, fe, gneg, gl, gt, gen, ge, rfl, rfl⟩ := terminalOp_nodes_shape hT
      have hTc : terminalOp op.bop ⟨gneg, .node gl gt gen ge⟩ ⟨fneg, .node fl ft fen fe⟩ = .nodes := by
        rw [terminalOp_comm]; exact hT
      have hs := aq_sizes fneg gneg fen gen fl gl ft fe gt ge
      have hs' := aq_sizes gneg fneg gen fen gl fl gt ge ft fe
      simp only [Edge.size] at hsz
      -- bounds for the recursive calls, in both operand orders
      obtain ⟨N1, h1⟩ := ih (aqT ⟨fneg, .node fl ft fen fe⟩ gl) (aqT ⟨gneg, .node gl gt gen ge⟩ fl)
        (aqVt (popVars q v (min fl gl)) (min fl gl)) (by omega)
      obtain ⟨N0, h0⟩ := ih (aqE ⟨fneg, .node fl ft fen fe⟩ gl) (aqE ⟨gneg, .node gl gt gen ge⟩ fl)
        (aqVt (popVars q v (min fl gl)) (min fl gl)) (by omega)
      obtain ⟨N1', h1'⟩ := ih (aqT ⟨gneg, .node gl gt gen ge⟩ fl) (aqT ⟨fneg, .node fl ft fen fe⟩ gl)
        (aqVt (popVars q v (min gl fl)) (min gl fl)) (by omega)
      obtain ⟨N0', h0'⟩ := ih (aqE ⟨gneg, .node gl gt gen ge⟩ fl) (aqE ⟨fneg, .node fl ft fen fe⟩ gl)
        (aqVt (popVars q v (min gl fl)) (min gl fl)) (by omega)
      refine ⟨max (max (max N1 N0) (max N1' N0'))
        (max (max v.size ((CNode.node fl ft fen fe).size + (CNode.node gl gt gen ge).size))
          (max ((applyQuant q op (aqT ⟨fneg, .node fl ft fen fe⟩ gl)
                (aqT ⟨gneg, .node gl gt gen ge⟩ fl)
                (aqVt (popVars q v (min fl gl)) (min fl gl))).size +
              (applyQuant q op (aqE ⟨fneg, .node fl ft fen fe⟩ gl)
                (aqE ⟨gneg, .node gl gt gen ge⟩ fl)
                (aqVt (popVars q v (min fl gl)) (min fl gl))).size)
            ((applyQuant q op (aqT ⟨gneg, .node gl gt gen ge⟩ fl)
                (aqT ⟨fneg, .node fl ft fen fe⟩ gl)
                (aqVt (popVars q v (min gl fl)) (min gl fl))).size +
              (applyQuant q op (aqE ⟨gneg, .node gl gt gen ge⟩ fl)
                (aqE ⟨fneg, .node fl ft fen fe⟩ gl)
                (aqVt (popVars q v (min gl fl)) (min gl fl))).size))), ?_⟩
      intro p pok af fuel hN hfuel st f g vars hinv hf hg hv
      have hsa := size_pos (CNode.node fl ft fen fe)
      simp only [Edge.size] at hfuel
      obtain ⟨fuel, rfl⟩ : ∃ k, fuel = k + 1 := ⟨fuel - 1, by omega⟩
      have hc := terminalOpS_corr op.bop hinv.1 hf hg
      rw [hT] at hc
      simp only [applyQuantS]
      cases hS : terminalOpS op.bop f g with
      | done e => rw [hS] at hc; exact hc.elim
      | nodes =>
        simp only
        rcases orderPair_cases f g with hk | hk <;> rw [hk]
        · refine aqBodyS_post pok reg q op af _ hT ?_ ?_ (by omega) (by omega) (by omega)
            st _ _ vars hinv hf hg hv
          · intro st' f' g' vars' hinv' hf' hg' hv'
            exact h1 p pok af fuel (by omega) (by omega) st' f' g' vars'
              hinv' hf' hg' hv'
          · intro st' f' g' vars' hinv' hf' hg' hv'
            exact h0 p pok af fuel (by omega) (by omega) st' f' g' vars'
              hinv' hf' hg' hv'
        · rw [applyQuant_comm q op _ _ _ _ (Nat.le_refl _)]
          refine aqBodyS_post pok reg q op af _ hTc ?_ ?_ (by omega) (by omega) (by omega)
            st _ _ vars hinv hg hf hv
          · intro st' f' g' vars' hinv' hf' hg' hv'
            exact h1' p pok af fuel (by omega) (by omega) st' f' g' vars'
              hinv' hf' hg' hv'
          · intro st' f' g' vars' hinv' hf' hg' hv'
            exact h0' p pok af fuel (by omega) (by omega) st' f' g' vars'
              hinv' hf' hg' hv'

/-! ## the dispatchers -/

theorem denotes_tagIf {s : StoreC} {x : EdgeC} {a : Edge} (b : Bool) (h : DenotesC s x a) :
    DenotesC s (if b then notE x else x) (tagIf b a) := by
  cases b
  · exact h
  · exact h.not

theorem tagIf_size (b : Bool) (a : Edge) : (tagIf b a).size = a.size := by
  cases b <;> rfl

/-- **`apply_forall_edge` / `apply_exists_edge` / `apply_unique_edge` (through
`apply_quant_dispatch` / `apply_quant_unique_dispatch`) refine `applyQuantOp q op`** for the three
quantifiers and the eight connectives. -/
theorem applyQuantOpS_spec (reg : Nat → List Edge) (q : Quant) (op : Op) (a b v : Edge) :
    ∃ N, ∀ (p : Policy), p.OK → ∀ (af fuel : Nat), N ≤ af → a.size + b.size ≤ fuel →
      ∀ (st : StC) (f g vars : EdgeC), InvCX reg st → DenotesC st.store f a →
        DenotesC st.store g b → DenotesC st.store vars v →
        PostCW reg st.store (applyQuantOp q op a b v) (applyQuantOpS p q op af fuel st f g vars) := by
  obtain ⟨N, h⟩ := applyQuantS_spec reg (dispatch q op).q (dispatch q op).op _
    (tagIf (dispatch q op).nf a) (tagIf (dispatch q op).ng b) v (Nat.le_refl _)
  refine ⟨N, fun p pok af fuel hN hfuel st f g vars hinv hf hg hv => ?_⟩
  rw [applyQuantOp_eq_dispatch]
  have P := h p pok af fuel hN (by rw [tagIf_size, tagIf_size]; exact hfuel) st _ _ vars hinv
    (denotes_tagIf (dispatch q op).nf hf) (denotes_tagIf (dispatch q op).ng hg) hv
  simp only [applyQuantOpS]
  cases hout : (dispatch q op).nout
  · simpa [tagIf] using P
  · simpa [tagIf] using P.not

end OxiddModel.Bcdd.Refine
