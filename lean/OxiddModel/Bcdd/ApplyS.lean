import OxiddModel.Bcdd.StoreRefine
import OxiddModel.Bdd.CacheS

/-!
# `apply_bin::<And|Xor>`, `not` and the eight derived connectives on the BCDD store, with apply cache

`binS p op` follows `apply_bin::<OP>` of
`crates/oxidd-rules-bdd/src/complement_edge/apply_rec.rs` step by step:

1. `terminal_and` / `terminal_xor` on edges (`terminalAndS`, `terminalXorS`: comparison of the
   *untagged* edges first, then of the tags, then the node/terminal cases),
2. the operand swap `if f < g {(f, g)} else {(g, f)}` — the swapped pair is used for the cache key
   **and** for the cofactors and the recursion, as in the code,
3. cache query on the key `(op, [f, g])` (`keyOf`; the operands keep their complement tags — the
   code as it is in `/repo` does *not* strip the tags of the `Xor` operands),
4. cofactors via `collect_cofactors(tag, node)` (`StoreC.cofT`/`cofE`: the tag of the incoming edge
   is pushed to the children), recursion then-branch first, `reduce` (`StoreC.mkNodeC`), cache add.

`notS` is `not`/`not_owned`: a tag flip that touches neither store nor cache. `applyOpS` are the
`*_edge` methods of `BooleanFunction`: `and`/`xor` directly, the other six through `not` around
`apply_and` / `apply_bin::<Xor>`.

The cache machinery (`Policy`, `Policy.OK`, `Policy.exact/none/dm`, `OpTag`, `Key`, `Cache`) is the
one of `Bdd/CacheS.lean`; a BCDD edge enters a key as the machine word `enc` (tag bit + node id,
a bijection `EdgeC ≃ Bdd.Refine.Edge`).

`PostC s T R` is the common postcondition (invariant, store only extended, result denotes `T`,
store and result are those of `internE s T`); `binS_spec`, `applyOpS_spec` establish it for every
policy with `Policy.OK`, every sound cache, all operands, all stores.
-/
namespace OxiddModel.Bcdd.Refine
open OxiddModel.Bcdd OxiddModel.Bcdd.CNode
open OxiddModel.Bdd.Refine (Policy OpTag Key Cache)

/-! ## tree level: commutativity, unfolding equations, cofactors, tag push -/

/-- then-cofactor with respect to level `l` as selected by `apply_bin` -/
def tcofT (l : Nat) (f : Edge) : Edge :=
  match f with
  | ⟨neg, .node la t en e⟩ => if la = l then ⟨neg, t⟩ else ⟨neg, .node la t en e⟩
  | ⟨neg, .top⟩ => ⟨neg, .top⟩

/-- else-cofactor with respect to level `l` -/
def tcofE (l : Nat) (f : Edge) : Edge :=
  match f with
  | ⟨neg, .node la t en e⟩ => if la = l then ⟨neg != en, e⟩ else ⟨neg, .node la t en e⟩
  | ⟨neg, .top⟩ => ⟨neg, .top⟩

theorem tcofT_size_le (l : Nat) (a : Edge) : (tcofT l a).size ≤ a.size := by
  obtain ⟨neg, n⟩ := a
  cases n with
  | top => simp [tcofT]
  | node la t en e =>
    simp only [tcofT]; split <;> simp only [Edge.size, CNode.size] <;> omega

theorem tcofE_size_le (l : Nat) (a : Edge) : (tcofE l a).size ≤ a.size := by
  obtain ⟨neg, n⟩ := a
  cases n with
  | top => simp [tcofE]
  | node la t en e =>
    simp only [tcofE]; split <;> simp only [Edge.size, CNode.size] <;> omega

theorem tcofT_size_lt (l : Nat) (neg en : Bool) (t e : CNode) :
    (tcofT l ⟨neg, .node l t en e⟩).size < (⟨neg, .node l t en e⟩ : Edge).size := by
  simp only [tcofT, if_true, Edge.size, CNode.size]; omega

theorem tcofE_size_lt (l : Nat) (neg en : Bool) (t e : CNode) :
    (tcofE l ⟨neg, .node l t en e⟩).size < (⟨neg, .node l t en e⟩ : Edge).size := by
  simp only [tcofE, if_true, Edge.size, CNode.size]; omega

theorem terminalOp_comm (op : BOp) (f g : Edge) : terminalOp op g f = terminalOp op f g := by
  obtain ⟨fneg, fn⟩ := f
  obtain ⟨gneg, gn⟩ := g
  cases op <;> simp only [terminalOp, terminalAnd, terminalXor] <;>
  (by_cases h : fn = gn
   · subst h; cases fneg <;> cases gneg <;> simp
   · have h' : ¬ gn = fn := fun e => h e.symm
     simp only [h, h', if_false]
     cases fn <;> cases gn <;> simp_all)

theorem applyBin_done {op : BOp} {a b r : Edge} (h : terminalOp op a b = .done r) :
    applyBin op a b = r := by
  rw [applyBin.eq_def]; simp [h]

theorem applyBin_nodes {op : BOp} {fneg gneg fen gen : Bool} {fl gl : Nat} {ft fe gt ge : CNode}
    (h : terminalOp op ⟨fneg, .node fl ft fen fe⟩ ⟨gneg, .node gl gt gen ge⟩ = .nodes) :
    applyBin op ⟨fneg, .node fl ft fen fe⟩ ⟨gneg, .node gl gt gen ge⟩ =
      mk (min fl gl)
        (applyBin op (tcofT (min fl gl) ⟨fneg, .node fl ft fen fe⟩)
          (tcofT (min fl gl) ⟨gneg, .node gl gt gen ge⟩))
        (applyBin op (tcofE (min fl gl) ⟨fneg, .node fl ft fen fe⟩)
          (tcofE (min fl gl) ⟨gneg, .node gl gt gen ge⟩)) := by
  rw [applyBin.eq_def]; simp only [h, tcofT, tcofE]

/-- `apply_bin::<And|Xor>` is commutative on all trees, which is why using the swapped pair
`(min f g, max f g)` for key, cofactors and recursion is sound -/
theorem applyBin_comm (op : BOp) (f g : Edge) : applyBin op f g = applyBin op g f := by
  fun_induction applyBin op f g with
  | case1 f g h hd =>
    rw [applyBin.eq_def, terminalOp_comm, hd]
  | case2 fneg fl ft fen fe gneg gl gt gen ge l hn ih1 ih2 =>
    simp only [dite_eq_ite] at ih1 ih2
    rw [applyBin.eq_def op ⟨gneg, .node gl gt gen ge⟩, terminalOp_comm, hn]
    simp only
    rw [Nat.min_comm gl fl, ← ih1, ← ih2]
  | case3 f g hn hne =>
    exfalso
    have := terminalOp_spec op f g
    rw [hn] at this
    obtain ⟨fneg, fn⟩ := f
    obtain ⟨gneg, gn⟩ := g
    cases fn <;> cases gn <;> simp [isTop] at this
    exact hne _ _ _ _ _ _ _ _ _ _ rfl rfl

theorem mk_not (l : Nat) (t e : Edge) : mk l (applyNot t) (applyNot e) = applyNot (mk l t e) := by
  obtain ⟨tn, t⟩ := t
  obtain ⟨en, e⟩ := e
  unfold mk
  by_cases h : (⟨tn, t⟩ : Edge) = ⟨en, e⟩
  · injection h with h1 h2; subst h1 h2; simp
  · have h' : applyNot ⟨tn, t⟩ ≠ applyNot ⟨en, e⟩ := by
      intro e'
      apply h
      rw [← applyNot_applyNot ⟨tn, t⟩, ← applyNot_applyNot ⟨en, e⟩, e']
    simp only [h, h', if_false]
    cases tn <;> simp [applyNot]

theorem terminalXor_not_left (f g : Edge) :
    terminalXor (applyNot f) g =
      match terminalXor f g with
      | .done h => .done (applyNot h)
      | .nodes => .nodes := by
  obtain ⟨fneg, fn⟩ := f
  obtain ⟨gneg, gn⟩ := g
  simp only [terminalXor, applyNot]
  by_cases h : fn = gn
  · subst h; cases fneg <;> cases gneg <;> simp [terminal]
  · simp only [h, if_false]
    cases fn <;> cases gn <;> cases fneg <;> cases gneg <;> simp_all

/-- **complement tags commute with `xor`**: `(¬f) ⊕ g = ¬(f ⊕ g)` as *trees* (same node, flipped
tag), for all operands. This is the fact a tag-free `Xor` cache key would rest on. -/
theorem applyBin_xor_not_left (f g : Edge) :
    applyBin .xor (applyNot f) g = applyNot (applyBin .xor f g) := by
  generalize hop : BOp.xor = op
  fun_induction applyBin op f g with
  | case1 f g h hd =>
    subst hop
    have := terminalXor_not_left f g
    simp only [terminalOp] at hd
    rw [hd] at this
    exact applyBin_done this
  | case2 fneg fl ft fen fe gneg gl gt gen ge l hn ih1 ih2 =>
    subst hop
    simp only [dite_eq_ite] at ih1 ih2
    have hx := terminalXor_not_left ⟨fneg, .node fl ft fen fe⟩ ⟨gneg, .node gl gt gen ge⟩
    simp only [terminalOp] at hn
    rw [hn] at hx
    have e1 : (if fl = l then (⟨!fneg, ft⟩ : Edge) else ⟨!fneg, .node fl ft fen fe⟩) =
        applyNot (if fl = l then ⟨fneg, ft⟩ else ⟨fneg, .node fl ft fen fe⟩) := by
      split <;> rfl
    have e0 : (if fl = l then (⟨(!fneg) != fen, fe⟩ : Edge) else ⟨!fneg, .node fl ft fen fe⟩) =
        applyNot (if fl = l then ⟨fneg != fen, fe⟩ else ⟨fneg, .node fl ft fen fe⟩) := by
      split
      · cases fneg <;> cases fen <;> rfl
      · rfl
    show applyBin .xor ⟨!fneg, .node fl ft fen fe⟩ ⟨gneg, .node gl gt gen ge⟩ = _
    rw [applyBin.eq_def]
    simp only [terminalOp]
    have hx' : terminalXor ⟨!fneg, .node fl ft fen fe⟩ ⟨gneg, .node gl gt gen ge⟩ = .nodes := hx
    rw [hx']
    simp only
    rw [e1, e0, ih1, ih2, mk_not]
  | case3 f g hn hne =>
    exfalso
    have := terminalOp_spec op f g
    rw [hn] at this
    obtain ⟨fneg, fn⟩ := f
    obtain ⟨gneg, gn⟩ := g
    cases fn <;> cases gn <;> simp [isTop] at this
    exact hne _ _ _ _ _ _ _ _ _ _ rfl rfl

/-! ## edges as cache words -/

/-- an edge as stored in an apply-cache entry: the tag bit next to the node id -/
def enc : EdgeC → Bdd.Refine.Edge
  | ⟨b, .term⟩ => .term b
  | ⟨b, .inner i⟩ => .inner (2 * i + b.toNat)

def dec : Bdd.Refine.Edge → EdgeC
  | .term b => ⟨b, .term⟩
  | .inner n => ⟨n % 2 == 1, .inner (n / 2)⟩

theorem dec_enc (x : EdgeC) : dec (enc x) = x := by
  obtain ⟨b, t⟩ := x
  cases t with
  | term => rfl
  | inner i =>
    cases b
    · simp only [enc, dec, Bool.toNat_false, Nat.add_zero]
      have h1 : 2 * i % 2 = 0 := by omega
      have h2 : 2 * i / 2 = i := by omega
      simp [h1, h2]
    · simp only [enc, dec, Bool.toNat_true]
      have h1 : (2 * i + 1) % 2 = 1 := by omega
      have h2 : (2 * i + 1) / 2 = i := by omega
      simp [h1, h2]

theorem enc_dec (x : Bdd.Refine.Edge) : enc (dec x) = x := by
  cases x with
  | term b => rfl
  | inner n =>
    simp only [dec, enc]
    rcases Nat.mod_two_eq_zero_or_one n with h | h
    · simp only [h]
      have : 2 * (n / 2) + (0 == 1 : Bool).toNat = n := by
        show 2 * (n / 2) + 0 = n
        omega
      exact congrArg _ this
    · simp only [h]
      have : 2 * (n / 2) + (1 == 1 : Bool).toNat = n := by
        show 2 * (n / 2) + 1 = n
        omega
      exact congrArg _ this

theorem enc_inj {x y : EdgeC} (h : enc x = enc y) : x = y := by
  rw [← dec_enc x, ← dec_enc y, h]

theorem map_enc_inj {xs ys : List EdgeC} (h : xs.map enc = ys.map enc) : xs = ys := by
  have := congrArg (List.map dec) h
  simpa [List.map_map, Function.comp_def, dec_enc] using this

/-! ## what a cache entry must mean -/

/-- the tree-level function a `BCDDOp` tag stands for in the apply cache of `apply_bin` and
`apply_ite` (`none`: wrong operand count or a tag these algorithms never use) -/
def specC : OpTag → List Edge → Option Edge
  | .and, [a, b] => some (applyBin .and a b)
  | .xor, [a, b] => some (applyBin .xor a b)
  | .ite, [a, b, c] => some (applyIte a b c)
  | _, _ => none

/-- `OP as BCDDOp` -/
def opTag : BOp → OpTag
  | .and => .and
  | .xor => .xor

theorem opTag_inj {a b : BOp} (h : opTag a = opTag b) : a = b := by
  cases a <;> cases b <;> first | rfl | cases h

theorem specC_opTag (op : BOp) (a b : Edge) : specC (opTag op) [a, b] = some (applyBin op a b) := by
  cases op <;> rfl

inductive DenotesLC (s : StoreC) : List EdgeC → List Edge → Prop
  | nil : DenotesLC s [] []
  | cons : DenotesC s e t → DenotesLC s es ts → DenotesLC s (e :: es) (t :: ts)

theorem DenotesLC.functional {s : StoreC} {es : List EdgeC} {ts ts' : List Edge}
    (h : DenotesLC s es ts) (h' : DenotesLC s es ts') : ts = ts' := by
  induction h generalizing ts' with
  | nil => cases h'; rfl
  | cons hd _ ih =>
    cases h' with
    | cons hd' htl' => rw [DenotesC.functional hd hd', ih htl']

theorem DenotesLC.mono {s s' : StoreC} (hle : s.Le s') {es : List EdgeC} {ts : List Edge}
    (h : DenotesLC s es ts) : DenotesLC s' es ts := by
  induction h with
  | nil => exact .nil
  | cons hd _ ih => exact .cons (hd.mono hle) ih

theorem DenotesLC.two {s : StoreC} {e1 e2 : EdgeC} {t1 t2 : Edge} (h1 : DenotesC s e1 t1)
    (h2 : DenotesC s e2 t2) : DenotesLC s [e1, e2] [t1, t2] := .cons h1 (.cons h2 .nil)
theorem DenotesLC.three {s : StoreC} {e1 e2 e3 : EdgeC} {t1 t2 t3 : Edge} (h1 : DenotesC s e1 t1)
    (h2 : DenotesC s e2 t2) (h3 : DenotesC s e3 t3) : DenotesLC s [e1, e2, e3] [t1, t2, t3] :=
  .cons h1 (.cons h2 (.cons h3 .nil))

/-- the entry `k ↦ r` is sound in store `s`: the key words are edges denoting trees, and `r` is
an edge denoting the result of the tagged operator on them -/
def EntryOKC (s : StoreC) (k : Key) (r : Bdd.Refine.Edge) : Prop :=
  ∃ es ts T, k.2 = es.map enc ∧ DenotesLC s es ts ∧ specC k.1 ts = some T ∧ DenotesC s (dec r) T

def CacheOKC (s : StoreC) (c : Cache) : Prop := ∀ k r, (k, r) ∈ c → EntryOKC s k r

theorem EntryOKC.mono {s s' : StoreC} {k : Key} {r : Bdd.Refine.Edge} (h : EntryOKC s k r)
    (hle : s.Le s') : EntryOKC s' k r := by
  obtain ⟨es, ts, T, h0, h1, h2, h3⟩ := h
  exact ⟨es, ts, T, h0, h1.mono hle, h2, h3.mono hle⟩

theorem CacheOKC.mono {s s' : StoreC} {c : Cache} (h : CacheOKC s c) (hle : s.Le s') :
    CacheOKC s' c := fun k r hm => (h k r hm).mono hle

/-- what a hit means: the returned word is an edge denoting the specified result for the queried
operands -/
theorem EntryOKC.hit {s : StoreC} {tag : OpTag} {es : List EdgeC} {r : Bdd.Refine.Edge}
    {ts : List Edge} {T : Edge} (h : EntryOKC s (tag, es.map enc) r) (hd : DenotesLC s es ts)
    (hs : specC tag ts = some T) : DenotesC s (dec r) T := by
  obtain ⟨es', ts', T', h0, h1, h2, h3⟩ := h
  have := map_enc_inj h0
  subst this
  have := DenotesLC.functional h1 hd
  subst this
  simp only at h2
  rw [hs] at h2; cases h2
  exact h3

theorem CacheOKC.nil (s : StoreC) : CacheOKC s [] := fun _ _ h => by cases h

theorem CacheOKC.sub {s : StoreC} {c c' : Cache} (h : CacheOKC s c) (hs : ∀ x, x ∈ c' → x ∈ c) :
    CacheOKC s c' := fun k r hm => h k r (hs _ hm)

theorem CacheOKC.add {p : Policy} (pok : p.OK) {s : StoreC} {c : Cache} (h : CacheOKC s c)
    {k : Key} {r : Bdd.Refine.Edge} (he : EntryOKC s k r) (n : Nat) :
    CacheOKC s (p.add n c k r) := by
  intro k' r' hm
  rcases pok.add_sub n c k r _ hm with h' | h'
  · exact h k' r' h'
  · cases h'; exact he

/-! ## state, reading nodes -/

structure StC where
  store : StoreC
  cache : Cache
  tick : Nat

/-- the state after one cache access -/
def StC.tickd (st : StC) : StC := { st with tick := st.tick + 1 }

@[simp] theorem StC.tickd_store (st : StC) : st.tickd.store = st.store := rfl
@[simp] theorem StC.tickd_cache (st : StC) : st.tickd.cache = st.cache := rfl

/-- the invariant: hash consing + sound cache -/
def InvC (st : StC) : Prop := st.store.Unique ∧ CacheOKC st.store st.cache

theorem InvC.tickd {st : StC} (h : InvC st) : InvC st.tickd := h

/-- level of the node an edge points to (`None` for the terminal) -/
def StoreC.level? (s : StoreC) (f : EdgeC) : Option Nat :=
  match f.tgt with
  | .term => none
  | .inner i => (s.get? i).map (·.level)

/-- then-cofactor for the expansion at level `l`: `collect_cofactors(f.tag(), fnode).0` if the
node is at level `l` (the then-child is regular, so the result carries `f`'s tag), else `f` -/
def StoreC.cofT (s : StoreC) (l : Nat) (f : EdgeC) : EdgeC :=
  match f.tgt with
  | .term => f
  | .inner i =>
    match s.get? i with
    | some n => if n.level = l then ⟨f.neg, n.t⟩ else f
    | none => f

/-- else-cofactor: `collect_cofactors(f.tag(), fnode).1`, tag `f.tag ⊕ child(1).tag` -/
def StoreC.cofE (s : StoreC) (l : Nat) (f : EdgeC) : EdgeC :=
  match f.tgt with
  | .term => f
  | .inner i =>
    match s.get? i with
    | some n => if n.level = l then ⟨f.neg != n.e.neg, n.e.tgt⟩ else f
    | none => f

theorem level?_denotes {s : StoreC} {f : EdgeC} {neg en : Bool} {l : Nat} {tt te : CNode}
    (h : DenotesC s f ⟨neg, .node l tt en te⟩) : s.level? f = some l := by
  obtain ⟨fn, ft⟩ := f
  obtain ⟨_, h2⟩ := h
  cases h2 with
  | inner hi _ _ => simp [StoreC.level?, hi]

theorem cofT_denotes {s : StoreC} {f : EdgeC} {a : Edge} (l : Nat) (h : DenotesC s f a) :
    DenotesC s (s.cofT l f) (tcofT l a) := by
  obtain ⟨fn, ft⟩ := f
  obtain ⟨an, a⟩ := a
  obtain ⟨h1, h2⟩ := h
  simp only at h1 h2
  subst h1
  cases h2 with
  | term => exact ⟨rfl, .term⟩
  | @inner i l' t en e tt te hi ht he =>
    simp only [StoreC.cofT, hi, tcofT]
    split
    · exact ⟨rfl, ht⟩
    · exact ⟨rfl, .inner hi ht he⟩

theorem cofE_denotes {s : StoreC} {f : EdgeC} {a : Edge} (l : Nat) (h : DenotesC s f a) :
    DenotesC s (s.cofE l f) (tcofE l a) := by
  obtain ⟨fn, ft⟩ := f
  obtain ⟨an, a⟩ := a
  obtain ⟨h1, h2⟩ := h
  simp only at h1 h2
  subst h1
  cases h2 with
  | term => exact ⟨rfl, .term⟩
  | @inner i l' t en e tt te hi ht he =>
    simp only [StoreC.cofE, hi, tcofE]
    split
    · exact ⟨rfl, he⟩
    · exact ⟨rfl, .inner hi ht he⟩

/-! ## `terminal_and`, `terminal_xor` on edges -/

/-- `NodesOrDone` at edge level -/
inductive NodesOrDoneS where
  | nodes : NodesOrDoneS
  | done : EdgeC → NodesOrDoneS
deriving Repr, DecidableEq

/-- `terminal_and` (complement_edge/mod.rs) -/
def terminalAndS (f g : EdgeC) : NodesOrDoneS :=
  if f.tgt = g.tgt then
    if f.neg = g.neg then .done g else .done (termC false)
  else
    match f.tgt, g.tgt with
    | .inner _, .inner _ => .nodes
    | .inner _, .term => if g.neg then .done (termC false) else .done f
    | .term, .inner _ => if f.neg then .done (termC false) else .done g
    | .term, .term => .done (termC (!f.neg && !g.neg))

/-- `terminal_xor` (complement_edge/mod.rs) -/
def terminalXorS (f g : EdgeC) : NodesOrDoneS :=
  if f.tgt = g.tgt then .done (termC (f.neg != g.neg))
  else
    match f.tgt, g.tgt with
    | .inner _, .inner _ => .nodes
    | .inner _, .term => if g.neg then .done f else .done (notE f)
    | .term, .inner _ => if f.neg then .done g else .done (notE g)
    | .term, .term => .done (termC (f.neg != g.neg))

def terminalOpS : BOp → EdgeC → EdgeC → NodesOrDoneS
  | .and => terminalAndS
  | .xor => terminalXorS

/-- correspondence of an edge-level and a tree-level terminal-case result -/
def TermCorr (s : StoreC) : NodesOrDoneS → NodesOrDone → Prop
  | .done e, .done t => DenotesC s e t
  | .nodes, .nodes => True
  | _, _ => False

/-- **`terminal_and`/`terminal_xor` on edges refine the tree-level ones** in every hash-consed
store (where comparing untagged edges is comparing nodes) -/
theorem terminalOpS_corr (op : BOp) {s : StoreC} (hu : s.Unique) {f g : EdgeC} {a b : Edge}
    (hf : DenotesC s f a) (hg : DenotesC s g b) :
    TermCorr s (terminalOpS op f g) (terminalOp op a b) := by
  have hiff := denN_eq_iff hu hf.2 hg.2
  obtain ⟨fn, ft⟩ := f
  obtain ⟨gn, gt⟩ := g
  obtain ⟨an, a⟩ := a
  obtain ⟨bn, b⟩ := b
  obtain ⟨h1, hf2⟩ := hf
  obtain ⟨h2, hg2⟩ := hg
  simp only at h1 h2 hf2 hg2 hiff
  subst h1 h2
  by_cases htg : ft = gt
  · have hab : a = b := hiff.mp htg
    subst htg hab
    cases op
    · simp only [terminalOpS, terminalOp, terminalAndS, terminalAnd, if_true]
      by_cases hn : fn = gn
      · subst hn; simp only [if_true, TermCorr]; exact ⟨rfl, hg2⟩
      · simp only [hn, if_false, TermCorr]; exact DenotesC.term s false
    · simp only [terminalOpS, terminalOp, terminalXorS, terminalXor, if_true, TermCorr]
      exact DenotesC.term s _
  · have hab : a ≠ b := fun h => htg (hiff.mpr h)
    cases hf2 with
    | term =>
      cases hg2 with
      | term => exact absurd rfl htg
      | @inner j l t en e tt te hj hgt hge =>
        have hg' : DenN s (.inner j) (.node l tt en te) := .inner hj hgt hge
        cases op
        · simp only [terminalOpS, terminalOp, terminalAndS, terminalAnd, htg, hab, if_false]
          cases fn
          · simp only [Bool.false_eq_true, if_false, TermCorr]; exact ⟨rfl, hg'⟩
          · simp only [if_true, TermCorr]; exact DenotesC.term s false
        · simp only [terminalOpS, terminalOp, terminalXorS, terminalXor, htg, hab, if_false]
          cases fn
          · simp only [Bool.false_eq_true, if_false, TermCorr]
            exact (DenotesC.mk (b := gn) hg').not
          · simp only [if_true, TermCorr]; exact ⟨rfl, hg'⟩
    | @inner i l t en e tt te hi hft hfe =>
      have hf' : DenN s (.inner i) (.node l tt en te) := .inner hi hft hfe
      cases hg2 with
      | term =>
        cases op
        · simp only [terminalOpS, terminalOp, terminalAndS, terminalAnd, htg, hab, if_false]
          cases gn
          · simp only [Bool.false_eq_true, if_false, TermCorr]; exact ⟨rfl, hf'⟩
          · simp only [if_true, TermCorr]; exact DenotesC.term s false
        · simp only [terminalOpS, terminalOp, terminalXorS, terminalXor, htg, hab, if_false]
          cases gn
          · simp only [Bool.false_eq_true, if_false, TermCorr]
            exact (DenotesC.mk (b := fn) hf').not
          · simp only [if_true, TermCorr]; exact ⟨rfl, hf'⟩
      | @inner j l' t' en' e' tt' te' hj hgt hge =>
        cases op <;>
          simp only [terminalOpS, terminalOp, terminalAndS, terminalAnd, terminalXorS, terminalXor,
            htg, hab, if_false, TermCorr]

/-- `Nodes` is returned exactly for two inner nodes -/
theorem terminalOpS_nodes {op : BOp} {f g : EdgeC} (h : terminalOpS op f g = .nodes) :
    (∃ i, f.tgt = .inner i) ∧ (∃ j, g.tgt = .inner j) := by
  obtain ⟨fn, ft⟩ := f
  obtain ⟨gn, gt⟩ := g
  cases op <;> simp only [terminalOpS, terminalAndS, terminalXorS] at h <;>
    (split at h
     · (try split at h) <;> cases h
     · cases ft <;> cases gt <;> simp at h ⊢ <;> (try split at h) <;> cases h)

/-! ## the operand order and the cache key -/

/-- `f < g` on edges of the index-based manager: the tag sits in the most significant bit of the
edge word, the node id below. (The proofs use nothing about this order; any other one gives the
same theorems.) -/
def EdgeC.lt (f g : EdgeC) : Bool :=
  (!f.neg && g.neg) ||
    (f.neg == g.neg &&
      match f.tgt, g.tgt with
      | .inner i, .inner j => decide (i < j)
      | .term, .inner _ => true
      | _, _ => false)

/-- `if f < g { (f, g) } else { (g, f) }` -/
def orderPair (f g : EdgeC) : EdgeC × EdgeC := if f.lt g then (f, g) else (g, f)

theorem orderPair_cases (f g : EdgeC) : orderPair f g = (f, g) ∨ orderPair f g = (g, f) := by
  unfold orderPair; split <;> simp

/-- for distinct edges the order is antisymmetric and total, so both operand orders are
normalised to the same pair -/
theorem EdgeC.lt_asymm {f g : EdgeC} (h : f ≠ g) : g.lt f = !f.lt g := by
  obtain ⟨fn, ft⟩ := f
  obtain ⟨gn, gt⟩ := g
  cases fn <;> cases gn <;> cases ft <;> cases gt <;> simp_all [EdgeC.lt] <;>
    (rename_i i j; by_cases hlt : i < j <;> simp [hlt] <;> omega)

theorem orderPair_comm {f g : EdgeC} (h : f ≠ g) : orderPair g f = orderPair f g := by
  unfold orderPair
  rw [EdgeC.lt_asymm h]
  cases f.lt g <;> simp

/-- the apply-cache key of `apply_bin::<OP>`: operator tag and the two (tagged) operand words -/
def keyOf (op : BOp) (f g : EdgeC) : Key := (opTag op, [enc f, enc g])

/-! ## the algorithms -/

/-- the common tail: `reduce`, then `apply_cache().add(..)` -/
def finishC (p : Policy) (st : StC) (key : Key) (l : Nat) (e1 e0 : EdgeC) : StC × EdgeC :=
  let m := st.store.mkNodeC l e1 e0
  (⟨m.1, p.add st.tick st.cache key (enc m.2), st.tick + 1⟩, m.2)

/-- `not_edge` / `not_owned`: the tag flip; the state is returned untouched -/
def notS (st : StC) (f : EdgeC) : StC × EdgeC := (st, notE f)

/-- `apply_bin::<OP>` for `OP ∈ {And, Xor}` -/
def binS (p : Policy) (op : BOp) : Nat → StC → EdgeC → EdgeC → StC × EdgeC
  | 0, st, f, _ => (st, f)
  | fuel+1, st, f, g =>
    match terminalOpS op f g with
    | .done h => (st, h)
    | .nodes =>
      -- `if f < g { (f, g) } else { (g, f) }`
      let k := orderPair f g
      -- query apply cache
      match p.get st.tick st.cache (keyOf op k.1 k.2) with
      | some h => (st.tickd, dec h)
      | none =>
        match st.store.level? k.1, st.store.level? k.2 with
        | some lf, some lg =>
          let l := min lf lg
          let r1 := binS p op fuel st.tickd (st.store.cofT l k.1) (st.store.cofT l k.2)
          let r0 := binS p op fuel r1.1 (st.store.cofE l k.1) (st.store.cofE l k.2)
          finishC p r0.1 (keyOf op k.1 k.2) l r1.2 r0.2
        | _, _ => (st.tickd, k.1) -- dangling edge (excluded by `DenotesC`)

/-- `apply_and` -/
def andS (p : Policy) := binS p .and
/-- `apply_bin::<Xor>` -/
def xorS (p : Policy) := binS p .xor

/-- `and_edge`, `or_edge`, `nand_edge`, `nor_edge`, `xor_edge`, `equiv_edge`, `imp_edge`,
`imp_strict_edge` -/
def applyOpS (p : Policy) (op : Op) (fuel : Nat) (st : StC) (f g : EdgeC) : StC × EdgeC :=
  match op with
  | .and => andS p fuel st f g
  | .or => let r := andS p fuel st (notE f) (notE g); (r.1, notE r.2)
  | .nand => let r := andS p fuel st f g; (r.1, notE r.2)
  | .nor => andS p fuel st (notE f) (notE g)
  | .xor => xorS p fuel st f g
  | .equiv => let r := xorS p fuel st f g; (r.1, notE r.2)
  | .imp => let r := andS p fuel st f (notE g); (r.1, notE r.2)
  | .impStrict => andS p fuel st (notE f) g

/-! ## syntactic facts about `binS`: operand order, tags of the entries it creates -/

theorem terminalOpS_comm (op : BOp) (f g : EdgeC) : terminalOpS op g f = terminalOpS op f g := by
  obtain ⟨fn, ft⟩ := f
  obtain ⟨gn, gt⟩ := g
  cases op <;> simp only [terminalOpS, terminalAndS, terminalXorS] <;>
  (by_cases h : ft = gt
   · subst h; cases fn <;> cases gn <;> simp
   · have h' : ¬ gt = ft := fun e => h e.symm
     simp only [h, h', if_false]
     cases ft <;> cases gt <;> simp_all)

/-- **the operand order is normalised away**: `apply_bin(g, f)` is *the same run* as
`apply_bin(f, g)` — same terminal case, same cache key, same recursion, hence the same result,
store, cache and time stamp -/
theorem binS_comm (p : Policy) (op : BOp) (fuel : Nat) (st : StC) (f g : EdgeC) :
    binS p op (fuel+1) st g f = binS p op (fuel+1) st f g := by
  by_cases h : f = g
  · subst h; rfl
  · simp only [binS, terminalOpS_comm op f g, orderPair_comm h]

/-- every entry in the cache after `apply_bin::<OP>` was there before or carries the tag of `OP` -/
theorem binS_cache_tags {p : Policy} (pok : p.OK) (op : BOp) (fuel : Nat) :
    ∀ (st : StC) (f g : EdgeC) (x : Key × Bdd.Refine.Edge),
      x ∈ (binS p op fuel st f g).1.cache → x ∈ st.cache ∨ x.1.1 = opTag op := by
  induction fuel with
  | zero => intro st f g x hx; exact .inl hx
  | succ fuel ih =>
    intro st f g x hx
    simp only [binS] at hx
    split at hx
    · exact .inl hx
    · split at hx
      · exact .inl hx
      · split at hx
        · simp only [finishC] at hx
          rcases pok.add_sub _ _ _ _ _ hx with h | h
          · rcases ih _ _ _ _ h with h' | h'
            · rcases ih _ _ _ _ h' with h'' | h''
              · exact .inl h''
              · exact .inr h''
            · exact .inr h'
          · right; rw [h]; rfl
        · exact .inl hx

/-! ## the postcondition -/

/-- what every operation guarantees when started in store `s` to compute the tree edge `T` -/
structure PostC (s : StoreC) (T : Edge) (R : StC × EdgeC) : Prop where
  /-- hash consing and cache soundness hold afterwards -/
  inv : InvC R.1
  /-- the store is only extended -/
  le : s.Le R.1.store
  /-- the result edge denotes the specified tree edge -/
  den : DenotesC R.1.store R.2 T
  /-- store and result are the canonical ones, whatever the cache did -/
  canon : s.NoRed → (R.1.store, R.2) = internE s T

theorem PostC.done {st : StC} {e : EdgeC} {T : Edge} (hinv : InvC st) (hd : DenotesC st.store e T) :
    PostC st.store T (st, e) where
  inv := hinv
  le := StoreC.Le.refl _
  den := hd
  canon hr := (internE_of_denotes hinv.1 hr hd).symm

theorem PostC.nored {s : StoreC} {T : Edge} {R : StC × EdgeC} (h : PostC s T R) (hr : s.NoRed) :
    R.1.store.NoRed := by
  have := h.canon hr
  have h1 : R.1.store = (internE s T).1 := congrArg Prod.fst this
  rw [h1]; exact internE_nored s T hr

/-- a complemented result: `not_owned` of the result of a run -/
theorem PostC.not {s : StoreC} {T : Edge} {R : StC × EdgeC} (h : PostC s T R) :
    PostC s (applyNot T) (R.1, notE R.2) where
  inv := h.inv
  le := h.le
  den := h.den.not
  canon hr := by
    have c := h.canon hr
    have h1 : R.1.store = (internE s T).1 := congrArg Prod.fst c
    have h2 : R.2 = (internE s T).2 := congrArg Prod.snd c
    show (R.1.store, notE R.2) = internE s (applyNot T)
    rw [h1, h2]
    rfl

/-- interning `mk l T1 T0` is interning `T1`, then `T0`, then `reduce` -/
theorem internE_mk (s : StoreC) (l : Nat) (T1 T0 : Edge) (hne : T1 ≠ T0) :
    internE s (mk l T1 T0) =
      (internE (internE s T1).1 T0).1.mkNodeC l (internE s T1).2 (internE (internE s T1).1 T0).2 := by
  obtain ⟨n1, t1⟩ := T1
  obtain ⟨n0, t0⟩ := T0
  unfold mk
  simp only [hne, if_false]
  cases n1
  · simp only [Bool.false_eq_true, if_false, internE, internN]
    have := mkNodeC_neg_regular (internN (internN s t1).1 t0).1 l ⟨false, (internN s t1).2⟩
      ⟨n0, (internN (internN s t1).1 t0).2⟩ rfl
    generalize (internN (internN s t1).1 t0).1.mkNodeC l ⟨false, (internN s t1).2⟩
      ⟨n0, (internN (internN s t1).1 t0).2⟩ = m at this ⊢
    obtain ⟨ms, ⟨mn, mt⟩⟩ := m
    simp only at this
    subst this
    rfl
  · simp only [if_true, internE, internN]
    have hnot := mkNodeC_not (internN (internN s t1).1 t0).1 l ⟨false, (internN s t1).2⟩
      ⟨!n0, (internN (internN s t1).1 t0).2⟩
    have e1 : notE ⟨false, (internN s t1).2⟩ = ⟨true, (internN s t1).2⟩ := rfl
    have e0 : notE ⟨!n0, (internN (internN s t1).1 t0).2⟩ = ⟨n0, (internN (internN s t1).1 t0).2⟩ := by
      simp [notE]
    rw [e1, e0] at hnot
    rw [hnot]
    have := mkNodeC_neg_regular (internN (internN s t1).1 t0).1 l ⟨false, (internN s t1).2⟩
      ⟨!n0, (internN (internN s t1).1 t0).2⟩ rfl
    generalize (internN (internN s t1).1 t0).1.mkNodeC l ⟨false, (internN s t1).2⟩
      ⟨!n0, (internN (internN s t1).1 t0).2⟩ = m at this ⊢
    obtain ⟨ms, ⟨mn, mt⟩⟩ := m
    simp only at this
    subst this
    rfl

/-- the two recursive results are combined by `reduce` + cache add -/
theorem finishC_post {p : Policy} (pok : p.OK) {s : StoreC} {R1 R0 : StC × EdgeC} {T1 T0 : Edge}
    (h1 : PostC s T1 R1) (h0 : PostC R1.1.store T0 R0) (key : Key) (l : Nat)
    (hkey : ∃ es ts, key.2 = es.map enc ∧ DenotesLC s es ts ∧
      specC key.1 ts = some (mk l T1 T0)) :
    PostC s (mk l T1 T0) (finishC p R0.1 key l R1.2 R0.2) := by
  have denm := mkNodeC_denotes R0.1.store l R1.2 R0.2 T1 T0 (h1.den.mono h0.le) h0.den h0.inv.1
  have lem := mkNodeC_le R0.1.store l R1.2 R0.2
  have hle : s.Le (R0.1.store.mkNodeC l R1.2 R0.2).1 := h1.le.trans (h0.le.trans lem)
  refine ⟨⟨mkNodeC_unique _ _ _ _ h0.inv.1, ?_⟩, hle, denm, ?_⟩
  · obtain ⟨es, ts, hk, hd, hs⟩ := hkey
    refine CacheOKC.add pok (h0.inv.2.mono lem) ⟨es, ts, _, hk, hd.mono hle, hs, ?_⟩ _
    rw [dec_enc]; exact denm
  · intro hr
    have c1 := h1.canon hr
    have hr1 := h1.nored hr
    have c0 := h0.canon hr1
    show ((R0.1.store.mkNodeC l R1.2 R0.2).1, (R0.1.store.mkNodeC l R1.2 R0.2).2) =
      internE s (mk l T1 T0)
    have e1s : R1.1.store = (internE s T1).1 := congrArg Prod.fst c1
    have e1e : R1.2 = (internE s T1).2 := congrArg Prod.snd c1
    have e0s : R0.1.store = (internE R1.1.store T0).1 := congrArg Prod.fst c0
    have e0e : R0.2 = (internE R1.1.store T0).2 := congrArg Prod.snd c0
    by_cases hT : T1 = T0
    · subst hT
      have hmk : mk l T1 T1 = T1 := by unfold mk; simp
      rw [hmk]
      have hi := internE_of_denotes h1.inv.1 hr1 h1.den
      rw [hi] at e0s e0e
      simp only at e0s e0e
      rw [e0s, e0e]
      simp only [StoreC.mkNodeC, if_true]
      rw [← c1]
    · rw [internE_mk s l T1 T0 hT, ← e1s, ← e1e, ← e0s, ← e0e]

/-! ## `apply_bin::<OP>` -/

theorem binS_spec {p : Policy} (pok : p.OK) (op : BOp) (fuel : Nat) :
    ∀ (st : StC) (f g : EdgeC) (a b : Edge),
    InvC st → DenotesC st.store f a → DenotesC st.store g b → a.size + b.size ≤ fuel →
    PostC st.store (applyBin op a b) (binS p op fuel st f g) := by
  induction fuel with
  | zero =>
    intro st f g a b _ _ _ hsz
    have := size_pos a.n
    simp only [Edge.size] at hsz
    omega
  | succ fuel ih =>
    intro st f g a b hinv hf hg hsz
    have hc := terminalOpS_corr op hinv.1 hf hg
    simp only [binS]
    cases hS : terminalOpS op f g with
    | done e =>
      cases hT : terminalOp op a b with
      | done t =>
        rw [hS, hT] at hc
        rw [applyBin_done hT]
        exact PostC.done hinv hc
      | nodes => rw [hS, hT] at hc; exact hc.elim
    | nodes =>
      cases hT : terminalOp op a b with
      | done t => rw [hS, hT] at hc; exact hc.elim
      | nodes =>
        -- the ordered pair denotes the operands in one or the other order
        have hk : ∃ a' b', DenotesC st.store (orderPair f g).1 a' ∧
            DenotesC st.store (orderPair f g).2 b' ∧ applyBin op a b = applyBin op a' b' ∧
            terminalOp op a' b' = .nodes ∧ a'.size + b'.size ≤ fuel + 1 := by
          rcases orderPair_cases f g with h | h <;> rw [h]
          · exact ⟨a, b, hf, hg, rfl, hT, hsz⟩
          · exact ⟨b, a, hg, hf, applyBin_comm op a b, by rw [terminalOp_comm]; exact hT,
              by omega⟩
        obtain ⟨a', b', hk1, hk2, hab, hT', hsz'⟩ := hk
        rw [hab]
        generalize orderPair f g = k at hk1 hk2 ⊢
        have hkd : DenotesLC st.store [k.1, k.2] [a', b'] := DenotesLC.two hk1 hk2
        simp only
        split
        · -- cache hit
          rename_i r hr
          have hent := hinv.2 _ _ (pok.get_mem _ _ _ _ hr)
          exact PostC.done (st := st.tickd) hinv.tickd
            (EntryOKC.hit (es := [k.1, k.2]) hent hkd (specC_opTag op a' b'))
        · -- cache miss: both operands are inner nodes
          have hsp := terminalOp_spec op a' b'
          rw [hT'] at hsp
          obtain ⟨hla, hlb⟩ := hsp
          obtain ⟨an, a'⟩ := a'
          obtain ⟨bn, b'⟩ := b'
          cases a' with
          | top => simp [isTop] at hla
          | node lf ft fen fe =>
          cases b' with
          | top => simp [isTop] at hlb
          | node lg gt gen ge =>
          rw [level?_denotes hk1, level?_denotes hk2]
          simp only
          rw [applyBin_nodes hT']
          have hmin : min lf lg = lf ∨ min lf lg = lg := by omega
          simp only [Edge.size] at hsz'
          have sz1 : (tcofT (min lf lg) ⟨an, .node lf ft fen fe⟩).size +
              (tcofT (min lf lg) ⟨bn, .node lg gt gen ge⟩).size ≤ fuel := by
            have h1 := tcofT_size_le (min lf lg) ⟨an, .node lf ft fen fe⟩
            have h2 := tcofT_size_le (min lf lg) ⟨bn, .node lg gt gen ge⟩
            simp only [Edge.size] at h1 h2 ⊢
            rcases hmin with h | h <;> rw [h] at h1 h2 ⊢
            · have := tcofT_size_lt lf an fen ft fe; simp only [Edge.size] at this; omega
            · have := tcofT_size_lt lg bn gen gt ge; simp only [Edge.size] at this; omega
          have sz0 : (tcofE (min lf lg) ⟨an, .node lf ft fen fe⟩).size +
              (tcofE (min lf lg) ⟨bn, .node lg gt gen ge⟩).size ≤ fuel := by
            have h1 := tcofE_size_le (min lf lg) ⟨an, .node lf ft fen fe⟩
            have h2 := tcofE_size_le (min lf lg) ⟨bn, .node lg gt gen ge⟩
            simp only [Edge.size] at h1 h2 ⊢
            rcases hmin with h | h <;> rw [h] at h1 h2 ⊢
            · have := tcofE_size_lt lf an fen ft fe; simp only [Edge.size] at this; omega
            · have := tcofE_size_lt lg bn gen gt ge; simp only [Edge.size] at this; omega
          have p1 := ih st.tickd _ _ _ _ hinv.tickd (cofT_denotes (min lf lg) hk1)
            (cofT_denotes (min lf lg) hk2) sz1
          have p0 := ih _ _ _ _ _ p1.inv ((cofE_denotes (min lf lg) hk1).mono p1.le)
            ((cofE_denotes (min lf lg) hk2).mono p1.le) sz0
          refine finishC_post pok p1 p0 (keyOf op k.1 k.2) (min lf lg) ⟨[k.1, k.2], _, rfl, hkd, ?_⟩
          show specC (opTag op) _ = _
          rw [specC_opTag, applyBin_nodes hT']

/-! ## `not` and the derived connectives -/

/-- `not` refines `applyNot` and leaves the state alone -/
theorem notS_spec (st : StC) (f : EdgeC) (a : Edge) (hinv : InvC st) (hf : DenotesC st.store f a) :
    PostC st.store (applyNot a) (notS st f) := PostC.done hinv hf.not

/-- the eight connectives refine `applyOp` -/
theorem applyOpS_spec {p : Policy} (pok : p.OK) (op : Op) (fuel : Nat) (st : StC) (f g : EdgeC)
    (a b : Edge) (hinv : InvC st) (hf : DenotesC st.store f a) (hg : DenotesC st.store g b)
    (hsz : a.size + b.size ≤ fuel) :
    PostC st.store (applyOp op a b) (applyOpS p op fuel st f g) := by
  have hsa : (applyNot a).size = a.size := rfl
  have hsb : (applyNot b).size = b.size := rfl
  cases op <;> simp only [applyOpS, applyOp, applyAnd, andS, xorS]
  · exact binS_spec pok .and fuel st f g a b hinv hf hg hsz
  · exact (binS_spec pok .and fuel st _ _ _ _ hinv hf.not hg.not (by omega)).not
  · exact (binS_spec pok .and fuel st f g a b hinv hf hg hsz).not
  · exact binS_spec pok .and fuel st _ _ _ _ hinv hf.not hg.not (by omega)
  · exact binS_spec pok .xor fuel st f g a b hinv hf hg hsz
  · exact (binS_spec pok .xor fuel st f g a b hinv hf hg hsz).not
  · exact (binS_spec pok .and fuel st _ _ _ _ hinv hf hg.not (by omega)).not
  · exact binS_spec pok .and fuel st _ _ _ _ hinv hf.not hg (by omega)

end OxiddModel.Bcdd.Refine
