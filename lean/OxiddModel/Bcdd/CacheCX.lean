import OxiddModel.Bcdd.IteS
import OxiddModel.Bcdd.ApplyQuant
import OxiddModel.Bcdd.Subst

/-!
# Extended apply-cache keys of the complement-edge rules: every `BCDDOp`, edge and numeric operands

`Bcdd/ApplyS.lean` and `Bcdd/IteS.lean` model the apply-cache keys of `apply_bin::<And|Xor>` and
`apply_ite` (`(And|Xor, [f, g])`, `(Ite, [f, g, h])`, operands with their complement tags). The
remaining recursive algorithms of `crates/oxidd-rules-bdd/src/complement_edge/apply_rec.rs` use the
other `BCDDOp` values and, for `substitute`, a numeric operand:

| Rust call                                           | `CKey`                                   |
|-----------------------------------------------------|------------------------------------------|
| `get(Forall/Exists/Unique, &[f, vars])`             | `⟨.quant q, [f, vars], []⟩`              |
| `get(from_apply_quant(Q, OP), &[f, g, vars])`       | `⟨.applyQuant q op, [f, g, vars], []⟩`   |
| `get(Restrict, &[f_untagged, vars])`                | `⟨.restrict, [f_untagged, vars], []⟩`    |
| `get_extended(Substitute, (&[f], &[cache_id]))`     | `⟨.substitute, [f], [id]⟩`               |
| `get(And/Xor/Ite, operands)`                        | `⟨.and/.xor/.ite, operands, []⟩`         |

An operand is an `EdgeC` = complement tag + target, i.e. exactly the edge word the cache compares.
A `CKey` is what `EntryGuard::get` of `crates/oxidd-cache/src/direct.rs` compares: operator, edge
operands, numeric operands (and their counts). The cache, its `Policy` and `Policy.OK` are the ones
of `Bdd/CacheS.lean`; a `CKey` is stored as a generic `Key` by `encKeyC`:

* backwards compatible: `encKeyC ⟨.and, [f, g], []⟩ = keyOf .and f g` and likewise for `xor`/`ite`, so
  `binS`/`iteS` run unchanged on a cache that also holds the new kinds of entries;
* every other key is `(Not, [#code, #|es|, es…, nums…])` with `code = BCDDOp as u8` (the generic key
  type has ten tags; BCDDs never use `Not` as a cache operator, so there is no clash);
* `encKeyC_inj`: on well-formed keys (`CKey.WF`: `And/Xor/Ite` have no numeric operands) the
  encoding is injective — operator, every edge operand **with its complement tag**, every numeric
  operand are recovered.

`EntryOKCX reg s k r`: `k` encodes a well-formed `CKey` whose operands denote tree edges and `r`
denotes `specCX reg` of them; `reg : Nat → List Edge` is the substitution registry (id ↦ vector).
-/
namespace OxiddModel.Bcdd.Refine
open OxiddModel.Bcdd OxiddModel.Bcdd.CNode
open OxiddModel.Bdd.Refine (Policy OpTag Key Cache)

/-! ## operators and their discriminants -/

/-- all values of `BCDDOp` (complement_edge/mod.rs); `applyQuant q op` is
`BCDDOp::from_apply_quant(Q, OP)` (`ForallAnd` … `UniqueXor`; the two combinations
`Forall/Exists` with `UniqueNand` do not exist in the enum — `from_apply_quant` panics at compile
time — they get the unused discriminants 15, 16 here) -/
inductive COp where
  | and | xor | ite
  | substitute
  | restrict
  | quant (q : Quant)
  | applyQuant (q : Quant) (op : QOp)
deriving DecidableEq, Repr, Inhabited

/-- `BCDDOp as u8` -/
def COp.code : COp → Nat
  | .and => 0 | .xor => 1 | .ite => 2 | .substitute => 3 | .restrict => 4
  | .quant .forall_ => 5 | .quant .exists_ => 6 | .quant .unique => 7
  | .applyQuant .forall_ .and => 8 | .applyQuant .forall_ .xor => 9
  | .applyQuant .exists_ .and => 10 | .applyQuant .exists_ .xor => 11
  | .applyQuant .unique .and => 12 | .applyQuant .unique .uniqueNand => 13
  | .applyQuant .unique .xor => 14
  | .applyQuant .forall_ .uniqueNand => 15 | .applyQuant .exists_ .uniqueNand => 16

def COp.ofCode : Nat → COp
  | 0 => .and | 1 => .xor | 2 => .ite | 3 => .substitute | 4 => .restrict
  | 5 => .quant .forall_ | 6 => .quant .exists_ | 7 => .quant .unique
  | 8 => .applyQuant .forall_ .and | 9 => .applyQuant .forall_ .xor
  | 10 => .applyQuant .exists_ .and | 11 => .applyQuant .exists_ .xor
  | 12 => .applyQuant .unique .and | 13 => .applyQuant .unique .uniqueNand
  | 14 => .applyQuant .unique .xor
  | 15 => .applyQuant .forall_ .uniqueNand | _ => .applyQuant .exists_ .uniqueNand

theorem COp.ofCode_code (a : COp) : COp.ofCode a.code = a := by
  rcases a with _ | _ | _ | _ | _ | ⟨_ | _ | _⟩ | ⟨_ | _ | _, _ | _ | _⟩ <;> rfl

/-- distinct operators have distinct discriminants -/
theorem COp.code_inj {a b : COp} (h : a.code = b.code) : a = b := by
  rw [← COp.ofCode_code a, ← COp.ofCode_code b, h]

/-- the tag under which `apply_bin` / `apply_ite` (`ApplyS.lean`, `IteS.lean`) store their keys -/
def COp.base? : COp → Option OpTag
  | .and => some .and
  | .xor => some .xor
  | .ite => some .ite
  | _ => none

def COp.ofB : BOp → COp
  | .and => .and
  | .xor => .xor

/-! ## keys -/

/-- a cache key as passed to `get`/`add`/`get_extended`/`add_extended` -/
structure CKey where
  op : COp
  operands : List EdgeC
  nums : List Nat
deriving DecidableEq, Repr

/-- `And`/`Xor`/`Ite` are used without numeric operands (always the case for the keys built) -/
def CKey.WF (k : CKey) : Prop := k.op.base?.isSome → k.nums = []

instance (k : CKey) : Decidable k.WF := by unfold CKey.WF; infer_instance

/-- the key as one key of the generic cache of `Bdd/CacheS.lean` -/
def encKeyC (k : CKey) : Key :=
  match k.op.base?, k.nums with
  | some t, [] => (t, k.operands.map enc)
  | _, _ => (.not, .inner k.op.code :: .inner k.operands.length ::
      (k.operands.map enc ++ k.nums.map .inner))

theorem encKeyC_bin (op : BOp) (f g : EdgeC) : encKeyC ⟨.ofB op, [f, g], []⟩ = keyOf op f g := by
  cases op <;> rfl

theorem encKeyC_ite (f g h : EdgeC) : encKeyC ⟨.ite, [f, g, h], []⟩ = (.ite, [enc f, enc g, enc h]) :=
  rfl

theorem encKeyC_ext {k : CKey} (h : k.op.base? = none) :
    encKeyC k = (.not, .inner k.op.code :: .inner k.operands.length ::
      (k.operands.map enc ++ k.nums.map .inner)) := by
  unfold encKeyC; rw [h]

theorem encKeyC_base {k : CKey} {t : OpTag} (h : k.op.base? = some t) (hn : k.nums = []) :
    encKeyC k = (t, k.operands.map enc) := by
  unfold encKeyC; rw [h, hn]

theorem base?_ne_not {o : COp} {t : OpTag} (h : o.base? = some t) : t ≠ .not := by
  cases o <;> simp [COp.base?] at h <;> subst h <;> decide

theorem base?_inj {o o' : COp} {t : OpTag} (h : o.base? = some t) (h' : o'.base? = some t) :
    o = o' := by
  cases o <;> cases o' <;> simp only [COp.base?] at h h' <;>
    first | rfl | (cases h; cases h') | cases h | cases h'

theorem map_innerC_inj {xs ys : List Nat}
    (h : xs.map Bdd.Refine.Edge.inner = ys.map Bdd.Refine.Edge.inner) : xs = ys := by
  have := congrArg (List.map (fun e => match e with
    | Bdd.Refine.Edge.inner i => i | Bdd.Refine.Edge.term _ => 0)) h
  simpa [List.map_map, Function.comp_def] using this

/-- **the encoding is injective** on well-formed keys: two keys are equal as cache keys only if
operator, every edge operand (target *and* complement tag) and every numeric operand agree -/
theorem encKeyC_inj {k k' : CKey} (hk : k.WF) (hk' : k'.WF) (h : encKeyC k = encKeyC k') :
    k = k' := by
  obtain ⟨op, es, ns⟩ := k
  obtain ⟨op', es', ns'⟩ := k'
  cases hb : op.base? with
  | some t =>
    have hn : ns = [] := hk (by simp [hb])
    subst hn
    rw [encKeyC_base (k := ⟨op, es, []⟩) hb rfl] at h
    cases hb' : op'.base? with
    | some t' =>
      have hn' : ns' = [] := hk' (by simp [hb'])
      subst hn'
      rw [encKeyC_base (k := ⟨op', es', []⟩) hb' rfl] at h
      simp only [Prod.mk.injEq] at h
      obtain ⟨ht, he⟩ := h
      subst ht
      rw [base?_inj hb hb', map_enc_inj he]
    | none =>
      rw [encKeyC_ext (k := ⟨op', es', ns'⟩) hb'] at h
      simp only [Prod.mk.injEq] at h
      exact absurd h.1 (base?_ne_not hb)
  | none =>
    rw [encKeyC_ext (k := ⟨op, es, ns⟩) hb] at h
    cases hb' : op'.base? with
    | some t' =>
      have hn' : ns' = [] := hk' (by simp [hb'])
      subst hn'
      rw [encKeyC_base (k := ⟨op', es', []⟩) hb' rfl] at h
      simp only [Prod.mk.injEq] at h
      exact absurd h.1.symm (base?_ne_not hb')
    | none =>
      rw [encKeyC_ext (k := ⟨op', es', ns'⟩) hb'] at h
      simp only [Prod.mk.injEq, List.cons.injEq, Bdd.Refine.Edge.inner.injEq, true_and] at h
      obtain ⟨h1, h2, h3⟩ := h
      have hl : (es.map enc).length = (es'.map enc).length := by simpa using h2
      obtain ⟨h4, h5⟩ := List.append_inj h3 hl
      rw [COp.code_inj h1, map_enc_inj h4, map_innerC_inj h5]

/-! ## what a cache entry must mean -/

/-- the tree-level function an operator stands for; `reg` maps a substitution id to the
replacement vector it was created for (`none`: wrong operand counts) -/
def specCX (reg : Nat → List Edge) : COp → List Edge → List Nat → Option Edge
  | .and, [a, b], [] => some (applyBin .and a b)
  | .xor, [a, b], [] => some (applyBin .xor a b)
  | .ite, [a, b, c], [] => some (applyIte a b c)
  | .substitute, [a], [id] => some (substitute (reg id) a)
  | .restrict, [a, v], [] => some (restrict a v)
  | .quant q, [a, v], [] => some (quant q a v)
  | .applyQuant q op, [a, b, v], [] => some (applyQuant q op a b v)
  | _, _, _ => none

theorem specCX_ofB (reg : Nat → List Edge) (op : BOp) (a b : Edge) :
    specCX reg (.ofB op) [a, b] [] = some (applyBin op a b) := by cases op <;> rfl

/-- the entry `k ↦ r` is sound in store `s` (relative to the substitution registry `reg`) -/
def EntryOKCX (reg : Nat → List Edge) (s : StoreC) (k : Key) (r : Bdd.Refine.Edge) : Prop :=
  ∃ ck ts T, k = encKeyC ck ∧ ck.WF ∧ DenotesLC s ck.operands ts ∧
    specCX reg ck.op ts ck.nums = some T ∧ DenotesC s (dec r) T

def CacheOKCX (reg : Nat → List Edge) (s : StoreC) (c : Cache) : Prop :=
  ∀ k r, (k, r) ∈ c → EntryOKCX reg s k r

theorem EntryOKCX.mono {reg : Nat → List Edge} {s s' : StoreC} {k : Key} {r : Bdd.Refine.Edge}
    (h : EntryOKCX reg s k r) (hle : s.Le s') : EntryOKCX reg s' k r := by
  obtain ⟨ck, ts, T, h0, hw, h1, h2, h3⟩ := h
  exact ⟨ck, ts, T, h0, hw, h1.mono hle, h2, h3.mono hle⟩

theorem CacheOKCX.mono {reg : Nat → List Edge} {s s' : StoreC} {c : Cache}
    (h : CacheOKCX reg s c) (hle : s.Le s') : CacheOKCX reg s' c :=
  fun k r hm => (h k r hm).mono hle

/-- what a hit means: the returned word is an edge denoting the specified result for the queried
operands -/
theorem EntryOKCX.hit {reg : Nat → List Edge} {s : StoreC} {ck : CKey} {r : Bdd.Refine.Edge}
    {ts : List Edge} {T : Edge} (h : EntryOKCX reg s (encKeyC ck) r) (hw : ck.WF)
    (hd : DenotesLC s ck.operands ts) (hs : specCX reg ck.op ts ck.nums = some T) :
    DenotesC s (dec r) T := by
  obtain ⟨ck', ts', T', h0, hw', h1, h2, h3⟩ := h
  have := encKeyC_inj hw hw' h0
  subst this
  have := DenotesLC.functional h1 hd
  subst this
  rw [hs] at h2; cases h2
  exact h3

theorem EntryOKCX.intro {reg : Nat → List Edge} {s : StoreC} {ck : CKey} {r : Bdd.Refine.Edge}
    {ts : List Edge} {T : Edge} (hw : ck.WF) (hd : DenotesLC s ck.operands ts)
    (hs : specCX reg ck.op ts ck.nums = some T) (hr : DenotesC s (dec r) T) :
    EntryOKCX reg s (encKeyC ck) r := ⟨ck, ts, T, rfl, hw, hd, hs, hr⟩

theorem specC_toX (reg : Nat → List Edge) {t : OpTag} {ts : List Edge} {T : Edge}
    (h : specC t ts = some T) : ∃ o : COp, o.base? = some t ∧ specCX reg o ts [] = some T := by
  rcases ts with _ | ⟨a, _ | ⟨b, _ | ⟨c, _ | ⟨d, l⟩⟩⟩⟩ <;> cases t <;> simp [specC] at h
  · exact ⟨.and, rfl, by simp [specCX, h]⟩
  · exact ⟨.xor, rfl, by simp [specCX, h]⟩
  · exact ⟨.ite, rfl, by simp [specCX, h]⟩

/-- an entry that is sound in the sense of `ApplyS.lean` (`EntryOKC`) is sound in the extended
sense, so every cache produced by `binS`/`iteS` is an admissible starting point -/
theorem EntryOKC.toX (reg : Nat → List Edge) {s : StoreC} {k : Key} {r : Bdd.Refine.Edge}
    (h : EntryOKC s k r) : EntryOKCX reg s k r := by
  obtain ⟨es, ts, T, h0, h1, h2, h3⟩ := h
  obtain ⟨o, hb, hs⟩ := specC_toX reg h2
  refine ⟨⟨o, es, []⟩, ts, T, ?_, fun _ => rfl, h1, hs, h3⟩
  rw [encKeyC_base (k := ⟨o, es, []⟩) hb rfl, ← h0]

theorem CacheOKC.toX (reg : Nat → List Edge) {s : StoreC} {c : Cache} (h : CacheOKC s c) :
    CacheOKCX reg s c := fun k r hm => (h k r hm).toX reg

theorem CacheOKCX.nil (reg : Nat → List Edge) (s : StoreC) : CacheOKCX reg s [] :=
  fun _ _ h => by cases h

/-- evicting entries keeps the cache sound -/
theorem CacheOKCX.sub {reg : Nat → List Edge} {s : StoreC} {c c' : Cache}
    (h : CacheOKCX reg s c) (hs : ∀ x, x ∈ c' → x ∈ c) : CacheOKCX reg s c' :=
  fun k r hm => h k r (hs _ hm)

/-- adding through any admissible policy keeps the cache sound if the new entry is sound -/
theorem CacheOKCX.add {p : Policy} (pok : p.OK) {reg : Nat → List Edge} {s : StoreC} {c : Cache}
    (h : CacheOKCX reg s c) {k : Key} {r : Bdd.Refine.Edge} (he : EntryOKCX reg s k r) (n : Nat) :
    CacheOKCX reg s (p.add n c k r) := by
  intro k' r' hm
  rcases pok.add_sub n c k r _ hm with h' | h'
  · exact h k' r' h'
  · cases h'; exact he

/-- the key stands for the tree edge `T`: in every extension of the store, an edge denoting `T`
makes a sound entry under this key -/
def KeyMeansC (reg : Nat → List Edge) (s : StoreC) (key : Key) (T : Edge) : Prop :=
  ∀ s' r, s.Le s' → DenotesC s' r T → EntryOKCX reg s' key (enc r)

theorem KeyMeansC.of {reg : Nat → List Edge} {s : StoreC} {ck : CKey} {ts : List Edge} {T : Edge}
    (hw : ck.WF) (hd : DenotesLC s ck.operands ts) (hs : specCX reg ck.op ts ck.nums = some T) :
    KeyMeansC reg s (encKeyC ck) T :=
  fun _ r hle hr => EntryOKCX.intro hw (hd.mono hle) hs (by rw [dec_enc]; exact hr)

theorem KeyMeansC.mono {reg : Nat → List Edge} {s s' : StoreC} {key : Key} {T : Edge}
    (h : KeyMeansC reg s key T) (hle : s.Le s') : KeyMeansC reg s' key T :=
  fun s'' r hle' hr => h s'' r (hle.trans hle') hr

/-! ## the keys the algorithms build -/

/-- `apply_bin::<OP>`: `get(And|Xor, &[f, g])` -/
def binKey (op : BOp) (f g : EdgeC) : CKey := ⟨.ofB op, [f, g], []⟩
/-- `apply_ite`: `get(Ite, &[f, g, h])` -/
def iteKey (f g h : EdgeC) : CKey := ⟨.ite, [f, g, h], []⟩
/-- `quant::<Q>`: `get(Forall|Exists|Unique, &[f, vars])` -/
def quantKey (q : Quant) (f vars : EdgeC) : CKey := ⟨.quant q, [f, vars], []⟩
/-- `apply_quant::<Q, OP>`: `get(from_apply_quant(Q, OP), &[f, g, vars])` -/
def applyQuantKey (q : Quant) (op : QOp) (f g vars : EdgeC) : CKey :=
  ⟨.applyQuant q op, [f, g, vars], []⟩
/-- `restrict`: `get(Restrict, &[f_untagged, vars])` -/
def restrictKey (f vars : EdgeC) : CKey := ⟨.restrict, [f, vars], []⟩
/-- `substitute`: `get_extended(Substitute, (&[f], &[cache_id]))` -/
def substKey (f : EdgeC) (id : Nat) : CKey := ⟨.substitute, [f], [id]⟩

theorem binKey_wf (op : BOp) (f g : EdgeC) : (binKey op f g).WF := fun _ => rfl
theorem iteKey_wf (f g h : EdgeC) : (iteKey f g h).WF := fun _ => rfl
theorem quantKey_wf (q : Quant) (f vars : EdgeC) : (quantKey q f vars).WF := fun _ => rfl
theorem applyQuantKey_wf (q : Quant) (op : QOp) (f g vars : EdgeC) :
    (applyQuantKey q op f g vars).WF := fun _ => rfl
theorem restrictKey_wf (f vars : EdgeC) : (restrictKey f vars).WF := fun _ => rfl
theorem substKey_wf (f : EdgeC) (id : Nat) : (substKey f id).WF := fun h => by cases h

theorem encKeyC_binKey (op : BOp) (f g : EdgeC) : encKeyC (binKey op f g) = keyOf op f g :=
  encKeyC_bin op f g

/-! ## state invariant and postconditions -/

/-- the invariant: hash consing + sound cache (extended entry kinds) -/
def InvCX (reg : Nat → List Edge) (st : StC) : Prop :=
  st.store.Unique ∧ CacheOKCX reg st.store st.cache

theorem InvCX.tickd {reg : Nat → List Edge} {st : StC} (h : InvCX reg st) : InvCX reg st.tickd := h

theorem InvC.toX (reg : Nat → List Edge) {st : StC} (h : InvC st) : InvCX reg st :=
  ⟨h.1, h.2.toX reg⟩

/-- postcondition without canonicity of the store: what `quant`, `apply_quant`, `substitute`
guarantee (they create intermediate results that are not part of the final diagram) -/
structure PostCW (reg : Nat → List Edge) (s : StoreC) (T : Edge) (R : StC × EdgeC) : Prop where
  /-- hash consing and cache soundness hold afterwards -/
  inv : InvCX reg R.1
  /-- the store is only extended -/
  le : s.Le R.1.store
  /-- the result edge denotes the specified tree edge -/
  den : DenotesC R.1.store R.2 T
  /-- the reduction rule (with regular then-edges by construction) is kept as a store invariant -/
  nored : s.NoRed → R.1.store.NoRed

/-- postcondition with canonicity: store and result are `internE s T` -/
structure PostCX (reg : Nat → List Edge) (s : StoreC) (T : Edge) (R : StC × EdgeC) : Prop
    extends PostCW reg s T R where
  /-- store and result are the canonical ones, whatever the cache did -/
  canon : s.NoRed → (R.1.store, R.2) = internE s T

theorem PostCX.done {reg : Nat → List Edge} {st : StC} {e : EdgeC} {T : Edge} (hinv : InvCX reg st)
    (hd : DenotesC st.store e T) : PostCX reg st.store T (st, e) where
  inv := hinv
  le := StoreC.Le.refl _
  den := hd
  nored hr := hr
  canon hr := (internE_of_denotes hinv.1 hr hd).symm

theorem PostCW.done {reg : Nat → List Edge} {st : StC} {e : EdgeC} {T : Edge} (hinv : InvCX reg st)
    (hd : DenotesC st.store e T) : PostCW reg st.store T (st, e) := (PostCX.done hinv hd).toPostCW

/-- a result obtained in a later store is a result for the earlier one -/
theorem PostCW.trans {reg : Nat → List Edge} {s s' : StoreC} {T : Edge} {R : StC × EdgeC}
    (hle : s.Le s') (hnr : s.NoRed → s'.NoRed) (h : PostCW reg s' T R) : PostCW reg s T R :=
  ⟨h.inv, hle.trans h.le, h.den, fun hr => h.nored (hnr hr)⟩

/-- a complemented result: `not_owned` of the result of a run -/
theorem PostCW.not {reg : Nat → List Edge} {s : StoreC} {T : Edge} {R : StC × EdgeC}
    (h : PostCW reg s T R) : PostCW reg s (applyNot T) (R.1, notE R.2) :=
  ⟨h.inv, h.le, h.den.not, h.nored⟩

theorem PostCX.not {reg : Nat → List Edge} {s : StoreC} {T : Edge} {R : StC × EdgeC}
    (h : PostCX reg s T R) : PostCX reg s (applyNot T) (R.1, notE R.2) where
  toPostCW := h.toPostCW.not
  canon hr := by
    have c := h.canon hr
    have h1 : R.1.store = (internE s T).1 := congrArg Prod.fst c
    have h2 : R.2 = (internE s T).2 := congrArg Prod.snd c
    show (R.1.store, notE R.2) = internE s (applyNot T)
    rw [h1, h2]
    rfl

/-- `apply_cache().add(key, r)` after the result `r` has been computed -/
def addC (p : Policy) (st : StC) (key : Key) (r : EdgeC) : StC × EdgeC :=
  (⟨st.store, p.add st.tick st.cache key (enc r), st.tick + 1⟩, r)

theorem addC_postW {p : Policy} (pok : p.OK) {reg : Nat → List Edge} {s : StoreC} {T : Edge}
    {R : StC × EdgeC} (h : PostCW reg s T R) (key : Key) (hkey : KeyMeansC reg s key T) :
    PostCW reg s T (addC p R.1 key R.2) :=
  ⟨⟨h.inv.1, CacheOKCX.add pok h.inv.2 (hkey _ _ h.le h.den) _⟩, h.le, h.den, h.nored⟩

/-- the two recursive results are combined by `reduce` + cache add (no canonicity claim) -/
theorem finishC_postW {p : Policy} (pok : p.OK) {reg : Nat → List Edge} {s : StoreC}
    {R1 R0 : StC × EdgeC} {T1 T0 : Edge}
    (h1 : PostCW reg s T1 R1) (h0 : PostCW reg R1.1.store T0 R0) (key : Key) (l : Nat)
    (hkey : KeyMeansC reg s key (mk l T1 T0)) :
    PostCW reg s (mk l T1 T0) (finishC p R0.1 key l R1.2 R0.2) := by
  have denm := mkNodeC_denotes R0.1.store l R1.2 R0.2 T1 T0 (h1.den.mono h0.le) h0.den h0.inv.1
  have lem := mkNodeC_le R0.1.store l R1.2 R0.2
  have hle : s.Le (R0.1.store.mkNodeC l R1.2 R0.2).1 := h1.le.trans (h0.le.trans lem)
  refine ⟨⟨mkNodeC_unique _ _ _ _ h0.inv.1, ?_⟩, hle, denm, ?_⟩
  · exact CacheOKCX.add pok (h0.inv.2.mono lem) (hkey _ _ hle denm) _
  · intro hr
    exact mkNodeC_nored _ _ _ _ (h0.nored (h1.nored hr))

/-- the two recursive results are combined by `reduce` + cache add -/
theorem finishC_postX {p : Policy} (pok : p.OK) {reg : Nat → List Edge} {s : StoreC}
    {R1 R0 : StC × EdgeC} {T1 T0 : Edge}
    (h1 : PostCX reg s T1 R1) (h0 : PostCX reg R1.1.store T0 R0) (key : Key) (l : Nat)
    (hkey : KeyMeansC reg s key (mk l T1 T0)) :
    PostCX reg s (mk l T1 T0) (finishC p R0.1 key l R1.2 R0.2) := by
  refine ⟨finishC_postW pok h1.toPostCW h0.toPostCW key l hkey, ?_⟩
  intro hr
  have c1 := h1.canon hr
  have hr1 := h1.nored hr
  have c0 := h0.canon hr1
  show ((R0.1.store.mkNodeC l R1.2 R0.2).1, (R0.1.store.mkNodeC l R1.2 R0.2).2) =
    internE s (mk l T1 T0)
  have e1s : R1.1.store = (internE s T1).1 := congrArg Prod.fst c1
  have e1e : R1.2 = (internE s T1).2 := congrArg Prod.snd c1
  have e0s : R0.1.store = (internE R1.1.store T0).1 := congrArg Prod.fst c0
  have e0e : R0.2 = (internE R1.1.store T0).2 := congrArg Prod.snd c0
  by_cases hT : T1 = T0
  · subst hT
    have hmk : mk l T1 T1 = T1 := by unfold mk; simp
    rw [hmk]
    have hi := internE_of_denotes h1.inv.1 hr1 h1.den
    rw [hi] at e0s e0e
    simp only at e0s e0e
    rw [e0s, e0e]
    simp only [StoreC.mkNodeC, if_true]
    rw [← c1]
  · rw [internE_mk s l T1 T0 hT, ← e1s, ← e1e, ← e0s, ← e0e]

end OxiddModel.Bcdd.Refine
