import OxiddModel.Bcdd.Lemmas

/-! Canonicity of reduced ordered complement-edge BDDs whose then-edges are regular: two
normal-form edges with the same denotation are equal (same tag, same node). The relative
complement between two nodes denoting the same function up to negation is forced to be `false`
by the all-true assignment. -/
namespace OxiddModel.Bcdd
open CNode

def upd (σ : Nat → Bool) (v : Nat) (b : Bool) : Nat → Bool := fun w => if w = v then b else σ w

theorem upd_ne (σ : Nat → Bool) {v w : Nat} (b : Bool) (h : w ≠ v) : upd σ v b w = σ w := by
  simp [upd, h]

@[simp] theorem upd_same (σ : Nat → Bool) (v : Nat) (b : Bool) : upd σ v b v = b := by
  simp [upd]

theorem eval_upd_true {l : Nat} {t e : CNode} {en : Bool} (ht : Ordered (l+1) t) (σ : Nat → Bool) :
    (node l t en e).eval (upd σ l true) = t.eval σ := by
  simp only [eval, upd, if_true]
  exact eval_indep ht _ _ (fun w hw => upd_ne σ true (by omega))

theorem eval_upd_false {l : Nat} {t e : CNode} {en : Bool} (he : Ordered (l+1) e) (σ : Nat → Bool) :
    (node l t en e).eval (upd σ l false) = (en != e.eval σ) := by
  simp only [eval, upd, if_true]
  simp
  rw [eval_indep he _ σ (fun w hw => upd_ne σ false (by omega))]

theorem cfalse (a b : CNode) (c : Bool) (h : ∀ σ, a.eval σ = (c != b.eval σ)) : c = false := by
  have := h (fun _ => true)
  simp [eval_alltrue] at this
  exact this

/-- Canonicity on nodes with a relative complement `c`:
    if `a.eval σ = (c != b.eval σ)` for all σ then `c = false` and `a = b`. -/
theorem canon_node (a b : CNode) (c : Bool) (n : Nat) (ha : Ordered n a) (hb : Ordered n b)
    (ra : Reduced a) (rb : Reduced b)
    (h : ∀ σ, a.eval σ = (c != b.eval σ)) : c = false ∧ a = b := by
  have hc : c = false := cfalse a b c h
  refine ⟨hc, ?_⟩
  match a, b with
  | .top, .top => rfl
  | .top, .node l t en e =>
    subst hc; simp only [Bool.false_bne] at h
    exfalso
    cases hb with
    | node hl ht he =>
      have h1 := canon_node .top t false (l+1) .top ht trivial rb.2.1 (fun σ => by
        rw [Bool.false_bne, ← eval_upd_true (e := e) (en := en) ht σ, ← h]; rfl)
      have h2 := canon_node .top e en (l+1) .top he trivial rb.2.2 (fun σ => by
        rw [← eval_upd_false (t := t) he σ, ← h]; rfl)
      exact rb.1 ⟨h2.1, h1.2 ▸ h2.2⟩
  | .node l t en e, .top =>
    subst hc; simp only [Bool.false_bne] at h
    exfalso
    cases ha with
    | node hl ht he =>
      have h1 := canon_node t .top false (l+1) ht .top ra.2.1 trivial (fun σ => by
        rw [Bool.false_bne, ← eval_upd_true (e := e) (en := en) ht σ, h]; rfl)
      have h2 := canon_node .top e en (l+1) .top he trivial ra.2.2 (fun σ => by
        rw [← eval_upd_false (t := t) he σ, h]; rfl)
      exact ra.1 ⟨h2.1, h1.2 ▸ h2.2⟩
  | .node l t en e, .node l' t' en' e' =>
    subst hc; simp only [Bool.false_bne] at h
    cases ha with
    | node hl ht he =>
    cases hb with
    | node hl' ht' he' =>
      rcases Nat.lt_trichotomy l l' with hlt | heq | hgt
      · exfalso
        have hb' : Ordered (l+1) (node l' t' en' e') := .node (by omega) ht' he'
        have h1 := canon_node t (node l' t' en' e') false (l+1) ht hb' ra.2.1 rb (fun σ => by
          rw [Bool.false_bne, ← eval_upd_true (e := e) (en := en) ht σ, h]
          exact eval_indep hb' _ _ (fun u hu => by simp [upd]; omega))
        -- e with complement en denotes b as well:  b = (en != e)  i.e.  e = (en != b)
        have h2 := canon_node e (node l' t' en' e') en (l+1) he hb' ra.2.2 rb (fun σ => by
          have := h (upd σ l false)
          rw [eval_upd_false (t := t) he σ] at this
          rw [eval_indep hb' _ σ (fun u hu => by simp [upd]; omega)] at this
          cases hen : en <;> simp [hen] at this ⊢ <;> simp [this])
        exact ra.1 ⟨h2.1, h1.2 ▸ h2.2.symm ▸ rfl⟩
      · subst heq
        have h1 := canon_node t t' false (l+1) ht ht' ra.2.1 rb.2.1 (fun σ => by
          rw [Bool.false_bne, ← eval_upd_true (e := e) (en := en) ht σ, h, eval_upd_true ht'])
        -- (en != e) = (en' != e')  ⇒  e = ((en != en') != e')
        have h2 := canon_node e e' (en != en') (l+1) he he' ra.2.2 rb.2.2 (fun σ => by
          have := h (upd σ l false)
          rw [eval_upd_false (t := t) he σ, eval_upd_false (t := t') he' σ] at this
          cases hen : en <;> cases hen' : en' <;> simp [hen, hen'] at this ⊢ <;> simp [this])
        have hen : en = en' := by
          have := h2.1; cases en <;> cases en' <;> simp at this ⊢
        rw [h1.2, h2.2, hen]
      · exfalso
        have ha' : Ordered (l'+1) (node l t en e) := .node (by omega) ht he
        have h1 := canon_node (node l t en e) t' false (l'+1) ha' ht' ra rb.2.1 (fun σ => by
          rw [Bool.false_bne, ← eval_upd_true (e := e') (en := en') ht' σ, ← h]
          exact eval_indep ha' _ _ (fun u hu => by simp [upd]; omega))
        have h2 := canon_node (node l t en e) e' en' (l'+1) ha' he' ra rb.2.2 (fun σ => by
          have := h (upd σ l' false)
          rw [eval_upd_false (t := t') he' σ] at this
          rw [eval_indep ha' _ σ (fun u hu => by simp [upd]; omega)] at this
          exact this)
        exact rb.1 ⟨h2.1, h1.2 ▸ h2.2 ▸ rfl⟩
termination_by a.size + b.size
decreasing_by all_goals simp_wf <;> simp [CNode.size] <;> omega

/-- **Canonicity** of normal-form edges -/
theorem canon (x y : Edge) (n : Nat) (hx : x.NF n) (hy : y.NF n)
    (h : ∀ σ, x.eval σ = y.eval σ) : x = y := by
  obtain ⟨nx, a⟩ := x
  obtain ⟨ny, b⟩ := y
  have := canon_node a b (nx != ny) n hx.1 hy.1 hx.2 hy.2 (fun σ => by
    have := h σ
    simp only [Edge.eval] at this
    cases nx <;> cases ny <;> simp at this ⊢ <;> simp [this])
  have hn : nx = ny := by
    have := this.1; cases nx <;> cases ny <;> simp at this ⊢
  rw [this.2, hn]

/-- handles are equal iff they denote the same function (tree level) -/
theorem nf_eq_iff (a b : Edge) (n : Nat) (ha : a.NF n) (hb : b.NF n) :
    a = b ↔ ∀ σ, a.eval σ = b.eval σ :=
  ⟨fun h _ => h ▸ rfl, canon a b n ha hb⟩

/-- a normal-form edge is `¬⊤` iff it is unsatisfiable, `⊤` iff it is valid -/
theorem nf_false_iff (a : Edge) (n : Nat) (ha : a.NF n) : a = terminal false ↔ ∀ σ, a.eval σ = false := by
  rw [nf_eq_iff a (terminal false) n ha (terminal_nf n false)]
  simp

theorem nf_true_iff (a : Edge) (n : Nat) (ha : a.NF n) : a = terminal true ↔ ∀ σ, a.eval σ = true := by
  rw [nf_eq_iff a (terminal true) n ha (terminal_nf n true)]
  simp

end OxiddModel.Bcdd
