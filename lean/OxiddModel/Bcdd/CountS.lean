import OxiddModel.Bcdd.StoreRefine
import OxiddModel.Bcdd.SatCount

/-!
# `sat_count_edge` of the complement-edge rules on the id store, with the reused cache

Store-level model of `crates/oxidd-rules-bdd/src/complement_edge/apply_rec.rs`, `sat_count_edge`
and its `inner` recursion, over the id store of `Bcdd/StoreRefine.lean`:

* a terminal edge yields `terminal_val` when its tag is `None` and `0` when it is complemented;
* the cache key is `node_id | (tag << (NodeID::BITS - 1))`: the pair `(tag, id)` — the same node
  reached through a regular and through a complemented edge has two entries;
* `do_cache = cache_all || ref_count() > 1`; lookup only if `do_cache`; `collect_cofactors(tag,
  node)` = (then-child with the incoming tag, else-child with `tag ⊕` its own tag), then-branch
  first, `(t + e) >> 1`; insert only if `do_cache`;
* `clear_if_invalid` is the one of `SatCountCache` (same struct for all rule sets).

Numbers are exact naturals (`MIN_EXP = 0` for the integer instances: no rescaling).

`satCountC_spec`: with a cache that is valid if its epoch is current, the memoised run returns the
tree-level `satCount` of the denoted edge (`Bcdd/Model.lean`), which by `satCount_exact`
(`Bcdd/SatCount.lean`) is the number of models, and leaves the cache valid — for every store,
cache content, flag, `vars` and reference-count function. `CacheOKC.mono`: store extension keeps
validity; `clearIfInvalidC_spec`: a changed epoch or `vars` empties the map. The history argument
(`valid_preserved`, `count_history_exact`) is the one of `Bdd/PropertiesC12S.lean` verbatim: it
uses nothing about the store but `Denotes.mono`, functionality, and these three facts.
-/
namespace OxiddModel.Bcdd.CountS
open OxiddModel.Bcdd OxiddModel.Bcdd.CNode OxiddModel.Bcdd.Refine

/-- `SatCountCache`; keys are `(tag, node id)` -/
structure CountCacheC where
  map : List ((Bool × Nat) × Nat)
  vars : Nat
  epoch : Nat
  cacheAll : Bool
deriving Repr, DecidableEq

def CountCacheC.new : CountCacheC := ⟨[], 0, 0, false⟩

def CountCacheC.clearIfInvalid (c : CountCacheC) (gcCount vars : Nat) : CountCacheC :=
  if gcCount ≠ c.epoch ∨ vars ≠ c.vars then { c with epoch := gcCount, vars := vars, map := [] }
  else c

def CountCacheC.insert (c : CountCacheC) (k : Bool × Nat) (n : Nat) : CountCacheC :=
  { c with map := (k, n) :: c.map }

/-- `inner` of `sat_count_edge` (complement edges) -/
def innerC (s : StoreC) (rc : Nat → Nat) (tv : Nat) : Nat → CountCacheC → EdgeC → CountCacheC × Nat
  | 0, c, _ => (c, 0)
  | _+1, c, ⟨tag, .term⟩ => (c, if tag then 0 else tv)
  | fuel+1, c, ⟨tag, .inner i⟩ =>
    match s.get? i with
    | none => (c, 0)
    | some n =>
      let doCache := c.cacheAll || decide (rc i > 1)
      match (if doCache then c.map.lookup (tag, i) else none) with
      | some v => (c, v)
      | none =>
        let r1 := innerC s rc tv fuel c ⟨tag, n.t⟩
        let r0 := innerC s rc tv fuel r1.1 ⟨tag != n.e.neg, n.e.tgt⟩
        let v := (r1.2 + r0.2) >>> 1
        (if doCache then r0.1.insert (tag, i) v else r0.1, v)

def satCountC (s : StoreC) (rc : Nat → Nat) (gcCount : Nat) (fuel : Nat) (c : CountCacheC)
    (e : EdgeC) (vars : Nat) : CountCacheC × Nat :=
  innerC s rc (2 ^ vars) fuel (c.clearIfInvalid gcCount vars) e

/-! ## validity -/

/-- every entry `(tag, id) ↦ n` is the count, under that tag, of the node `id` denotes -/
def CacheOKC (s : StoreC) (c : CountCacheC) : Prop :=
  ∀ tag id n, ((tag, id), n) ∈ c.map → ∃ nd, DenN s (.inner id) nd ∧ n = satCountGo c.vars tag nd

theorem CacheOKC.mono {s s' : StoreC} {c : CountCacheC} (h : CacheOKC s c) (hle : s.Le s') :
    CacheOKC s' c := by
  intro tag id n hm
  obtain ⟨nd, hd, hn⟩ := h tag id n hm
  exact ⟨nd, hd.mono hle, hn⟩

theorem CacheOKC.empty (s : StoreC) (v ep : Nat) (b : Bool) : CacheOKC s ⟨[], v, ep, b⟩ := by
  intro _ _ _ hm; cases hm

theorem lookup_mem {α β} [BEq α] [LawfulBEq α] {l : List (α × β)} {k : α} {v : β}
    (h : l.lookup k = some v) : (k, v) ∈ l := by
  induction l with
  | nil => simp [List.lookup] at h
  | cons p ps ih =>
    obtain ⟨k', v'⟩ := p
    simp only [List.lookup] at h
    split at h
    · rename_i heq
      have := beq_iff_eq.mp heq
      cases h; subst this; exact List.mem_cons_self
    · exact List.mem_cons_of_mem _ (ih h)

structure InnerPostC (s : StoreC) (c : CountCacheC) (tag : Bool) (nd : CNode)
    (r : CountCacheC × Nat) : Prop where
  val : r.2 = satCountGo c.vars tag nd
  ok : CacheOKC s r.1
  vars : r.1.vars = c.vars
  epoch : r.1.epoch = c.epoch
  all : r.1.cacheAll = c.cacheAll
  sub : ∀ x, x ∈ c.map → x ∈ r.1.map

theorem innerC_spec (s : StoreC) (rc : Nat → Nat) : ∀ (fuel : Nat) (c : CountCacheC) (tag : Bool)
    (x : Tgt) (nd : CNode) (tv : Nat), tv = 2 ^ c.vars → CacheOKC s c → DenN s x nd →
    nd.size ≤ fuel → InnerPostC s c tag nd (innerC s rc tv fuel c ⟨tag, x⟩) := by
  intro fuel
  induction fuel with
  | zero =>
    intro c tag x nd tv _ _ _ hsz
    have := CNode.size_pos nd
    omega
  | succ fuel ih =>
    intro c tag x nd tv htv hok hd hsz
    cases hd with
    | term =>
      simp only [innerC]
      refine ⟨?_, hok, rfl, rfl, rfl, fun _ h => h⟩
      cases tag <;> simp [satCountGo, htv]
    | @inner i l t en e tt te hi ht he =>
      simp only [CNode.size] at hsz
      simp only [innerC, hi]
      cases hl : (if (c.cacheAll || decide (rc i > 1)) = true then c.map.lookup (tag, i) else none) with
      | some v =>
        simp only
        split at hl
        · obtain ⟨nd', hd', hv⟩ := hok tag i v (lookup_mem hl)
          have := DenN.functional hd' (DenN.inner hi ht he)
          subst this
          exact ⟨hv, hok, rfl, rfl, rfl, fun _ h => h⟩
        · cases hl
      | none =>
        simp only
        have P1 := ih c tag t tt tv htv hok ht (by omega)
        have P0 := ih (innerC s rc tv fuel c ⟨tag, t⟩).1 (tag != en) e te tv
          (by rw [P1.vars]; exact htv) P1.ok he (by omega)
        have hval : ((innerC s rc tv fuel c ⟨tag, t⟩).2 +
            (innerC s rc tv fuel (innerC s rc tv fuel c ⟨tag, t⟩).1 ⟨tag != en, e⟩).2) >>> 1 =
            satCountGo c.vars tag (.node l tt en te) := by
          rw [P1.val, P0.val, P1.vars]; rfl
        rw [hval]
        split
        · refine ⟨rfl, ?_, ?_, ?_, ?_, ?_⟩
          · intro tag' id n hm
            simp only [CountCacheC.insert, List.mem_cons] at hm
            rcases hm with hm | hm
            · cases hm
              exact ⟨.node l tt en te, .inner hi ht he, by
                simp only [CountCacheC.insert]; rw [P0.vars, P1.vars]⟩
            · obtain ⟨nd', hd', hn⟩ := P0.ok tag' id n hm
              exact ⟨nd', hd', by simpa [CountCacheC.insert] using hn⟩
          · simp only [CountCacheC.insert]; rw [P0.vars, P1.vars]
          · simp only [CountCacheC.insert]; rw [P0.epoch, P1.epoch]
          · simp only [CountCacheC.insert]; rw [P0.all, P1.all]
          · intro x hx
            simp only [CountCacheC.insert]
            exact List.mem_cons_of_mem _ (P0.sub x (P1.sub x hx))
        · exact ⟨rfl, P0.ok, by rw [P0.vars, P1.vars], by rw [P0.epoch, P1.epoch],
            by rw [P0.all, P1.all], fun x hx => P0.sub x (P1.sub x hx)⟩

theorem clearIfInvalidC_spec (s : StoreC) (c : CountCacheC) (gcCount vars : Nat)
    (h : c.epoch = gcCount → CacheOKC s c) :
    CacheOKC s (c.clearIfInvalid gcCount vars) ∧ (c.clearIfInvalid gcCount vars).epoch = gcCount ∧
    (c.clearIfInvalid gcCount vars).vars = vars ∧
    (c.clearIfInvalid gcCount vars).cacheAll = c.cacheAll := by
  unfold CountCacheC.clearIfInvalid
  split
  · exact ⟨CacheOKC.empty _ _ _ _, rfl, rfl, rfl⟩
  · rename_i hne
    have h1 : gcCount = c.epoch := Classical.byContradiction fun x => hne (.inl x)
    have h2 : vars = c.vars := Classical.byContradiction fun x => hne (.inr x)
    exact ⟨h h1.symm, h1.symm, h2.symm, rfl⟩

/-- C12 for complement edges, one call of `sat_count_edge` with a reused cache: for every store,
every cache that is valid if its epoch is current, every flag, `vars`, reference-count function and
every edge `e` denoting the tree edge `a`: the result is the tree-level `satCount vars a`; if `a`
is ordered with all levels `< N ≤ vars` it is `2^(vars-N)` times the number of satisfying
assignments of the `N` variables (`satCount_exact`); the cache is valid afterwards with the current
epoch and `vars`. -/
theorem satCountC_spec (s : StoreC) (rc : Nat → Nat) (gcCount fuel : Nat) (c : CountCacheC)
    (e : EdgeC) (vars : Nat) (a : Edge) (hc : c.epoch = gcCount → CacheOKC s c)
    (hd : DenotesC s e a) (hf : a.n.size ≤ fuel) :
    (satCountC s rc gcCount fuel c e vars).2 = satCount vars a ∧
    (∀ N σ, N ≤ vars → Ordered 0 a.n → Below N a.n →
      (satCountC s rc gcCount fuel c e vars).2 = 2 ^ (vars - N) * cntF (fun τ => a.eval τ) σ 0 N) ∧
    CacheOKC s (satCountC s rc gcCount fuel c e vars).1 ∧
    (satCountC s rc gcCount fuel c e vars).1.epoch = gcCount ∧
    (satCountC s rc gcCount fuel c e vars).1.vars = vars ∧
    (satCountC s rc gcCount fuel c e vars).1.cacheAll = c.cacheAll := by
  obtain ⟨h1, h2, h3, h4⟩ := clearIfInvalidC_spec s c gcCount vars hc
  obtain ⟨etag, etgt⟩ := e
  obtain ⟨hneg, hden⟩ := hd
  have P := innerC_spec s rc fuel (c.clearIfInvalid gcCount vars) etag etgt a.n (2 ^ vars)
    (by rw [h3]) h1 hden hf
  unfold satCountC
  have hv := P.val
  rw [h3] at hv
  have hv' : (innerC s rc (2 ^ vars) fuel (c.clearIfInvalid gcCount vars) ⟨etag, etgt⟩).2 =
      satCount vars a := by
    rw [hv]; simp only at hneg; rw [hneg]; rfl
  refine ⟨hv', ?_, P.ok, P.epoch.trans h2, P.vars.trans h3, P.all.trans h4⟩
  intro N σ hN ho hb
  rw [hv']
  exact satCount_exact vars N hN a ho hb σ

/-! ## non-vacuity and the role of the tag in the key -/

/-- `x0 ∧ x1` with complement edges: `#0 = (1, ⊤, ¬⊤)`, `#1 = (0, #0, ¬⊤)` -/
def exS : StoreC := ⟨#[some ⟨1, .term, ⟨true, .term⟩⟩, some ⟨0, .inner 0, ⟨true, .term⟩⟩]⟩

def exAnd : CNode := .node 0 (.node 1 .top true .top) true .top

theorem exS_den : DenN exS (.inner 1) exAnd :=
  .inner (l := 0) (t := .inner 0) (en := true) (e := .term) (by decide +kernel)
    (.inner (l := 1) (t := .term) (en := true) (e := .term) (by decide +kernel) .term .term) .term

example := satCountC_spec exS (fun _ => 2) 0 5 CountCacheC.new ⟨false, .inner 1⟩ 2 ⟨false, exAnd⟩
  (fun _ => CacheOKC.empty _ _ _ _) ⟨rfl, exS_den⟩ (by decide)

/-- `x0 ∧ x1` has 1 model, its complement 3: the same node id is cached twice, once per tag -/
example :
    let r1 := satCountC exS (fun _ => 2) 0 5 CountCacheC.new ⟨false, .inner 1⟩ 2
    let r2 := satCountC exS (fun _ => 2) 0 5 r1.1 ⟨true, .inner 1⟩ 2
    r1.2 = 1 ∧ r2.2 = 3 ∧
    r2.1.map = [((true, 1), 3), ((true, 0), 2), ((false, 1), 1), ((false, 0), 2)] := by
  decide +kernel

/-- a key without the tag (`node_id` alone) would be wrong: the complemented edge would be answered
with the entry of the regular one -/
example :
    let r1 := satCountC exS (fun _ => 2) 0 5 CountCacheC.new ⟨false, .inner 1⟩ 2
    r1.1.map.lookup (false, 1) = some 1 ∧ satCount 2 ⟨true, exAnd⟩ = 3 := by decide +kernel

end OxiddModel.Bcdd.CountS
