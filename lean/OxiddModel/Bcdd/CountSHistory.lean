import OxiddModel.Bcdd.CountS

/-!
# Managers with a gc epoch and histories through ONE `SatCountCache`, complement-edge rules

`Bcdd/CountS.lean` models one call of `sat_count_edge` of
`crates/oxidd-rules-bdd/src/complement_edge/apply_rec.rs` over the id store `StoreC`
(`innerC` / `satCountC`; key `node_id | (tag << 31)` = the pair `(tag, id)`; the entry is the count
of the *tagged* edge, which is why the tag has to be part of the key). This file adds what
`Bdd/CountS.lean` has for the simple rules:

* `parentsC`, `Mgr.rc` — `ref_count()` = live handles + stored parent edges (tags are irrelevant
  for the count; dead parents included until collected): the in-degree rule `cache_all ||
  ref_count() > 1` of the real code is evaluated with this function;
* `Mgr` = store + `gcCount` + number of variables + live handles (root edges *with their tag*);
* `HOp`, the steps of a history (`ext`, `clone`, `drop`, `gc`, `gcBegin`/`gcFree`/`gcEnd`,
  `reorder`, `addVars`, `setCacheAll`, `count`), `HOp.run`, `runAll`, the side conditions
  `HOp.Valid` (what the operations of the library guarantee: `StoreC.Le` for store-extending
  operations — which may fill free slots, i.e. recycle ids —, `StableOnC` on the live handles for a
  collection) and `HOp.Atomic` (no bare `gcFree`: collections are atomic, the assumption under
  which the history theorems hold; the interleaving of a count with a running collection is the
  known finding `KF-countcache-during-collection`, which is independent of the rule set since
  `Manager::gc` and `SatCountCache` are shared by all of them);
* `sweepC` (one collection pass), `sweepN`/`gcS` (its iteration = the cascade of a collection) with
  `sweepC_stable`, `gcS_valid`;
* executable checks of the side conditions (`unfoldC?`, `validAllB`) and their soundness.
-/
namespace OxiddModel.Bcdd.CountS
open OxiddModel.Bcdd OxiddModel.Bcdd.CNode OxiddModel.Bcdd.Refine

/-! ## reference counts -/

/-- number of stored edges pointing to slot `j` (whatever their tag) -/
def parentsC (s : StoreC) (j : Nat) : Nat :=
  (s.nodes.toList.map fun o =>
    match o with
    | some n => (if n.t = .inner j then 1 else 0) + (if n.e.tgt = .inner j then 1 else 0)
    | none => 0).sum

/-! ## the manager -/

instance : DecidableEq StoreC := fun a b =>
  decidable_of_iff (a.nodes = b.nodes) ⟨fun h => by cases a; cases b; simp_all, fun h => h ▸ rfl⟩

structure Mgr where
  store : StoreC
  gcCount : Nat
  numVars : Nat
  handles : List EdgeC
deriving DecidableEq

def Mgr.new : Mgr := ⟨⟨#[]⟩, 0, 0, []⟩

/-- `ref_count()`: live handles (regular or complemented) + stored parent edges -/
def Mgr.rc (m : Mgr) (j : Nat) : Nat :=
  (m.handles.filter fun e => e.tgt == .inner j).length + parentsC m.store j

/-- state of a history: the manager and the one long-lived cache -/
structure HState where
  mgr : Mgr
  cache : CountCacheC
deriving DecidableEq

def HState.new : HState := ⟨Mgr.new, CountCacheC.new⟩

inductive HOp where
  /-- any store-extending operation returning the handle `e` -/
  | ext (s' : StoreC) (e : EdgeC)
  | clone (i : Nat)
  | drop (i : Nat)
  /-- atomic collection -/
  | gc (s' : StoreC)
  /-- first half of a collection: `gc_count.fetch_add(1)` -/
  | gcBegin
  /-- second half of a collection: nodes are freed -/
  | gcFree (s' : StoreC)
  | gcEnd
  | reorder (s' : StoreC) (hs' : List EdgeC)
  | addVars (k : Nat)
  | setCacheAll (b : Bool)
  /-- `sat_count(vars)` of handle `i` through the long-lived cache, with recursion fuel -/
  | count (i : Nat) (vars : Nat) (fuel : Nat)

/-- one step; the second component is the result of a `count` -/
def HOp.run : HOp → HState → HState × Option Nat
  | .ext s' e, st => (⟨{ st.mgr with store := s', handles := st.mgr.handles ++ [e] }, st.cache⟩, none)
  | .clone i, st =>
    (⟨{ st.mgr with handles := st.mgr.handles ++ (st.mgr.handles[i]?).toList }, st.cache⟩, none)
  | .drop i, st => (⟨{ st.mgr with handles := st.mgr.handles.eraseIdx i }, st.cache⟩, none)
  | .gc s', st => (⟨{ st.mgr with store := s', gcCount := st.mgr.gcCount + 1 }, st.cache⟩, none)
  | .gcBegin, st => (⟨{ st.mgr with gcCount := st.mgr.gcCount + 1 }, st.cache⟩, none)
  | .gcFree s', st => (⟨{ st.mgr with store := s' }, st.cache⟩, none)
  | .gcEnd, st => (st, none)
  | .reorder s' hs', st =>
    (⟨{ st.mgr with store := s', handles := hs', gcCount := st.mgr.gcCount + 1 }, st.cache⟩, none)
  | .addVars k, st => (⟨{ st.mgr with numVars := st.mgr.numVars + k }, st.cache⟩, none)
  | .setCacheAll b, st => (⟨st.mgr, { st.cache with cacheAll := b }⟩, none)
  | .count i vars fuel, st =>
    match st.mgr.handles[i]? with
    | none => (st, none)
    | some e =>
      let r := satCountC st.mgr.store st.mgr.rc st.mgr.gcCount fuel st.cache e vars
      (⟨st.mgr, r.1⟩, some r.2)

/-- every live handle denotes a tree edge -/
def Mgr.HandlesOK (m : Mgr) : Prop := ∀ e, e ∈ m.handles → ∃ a, DenotesC m.store e a

/-- the edges in `H` keep their denotation -/
def StableOnC (H : List EdgeC) (s s' : StoreC) : Prop :=
  ∀ e, e ∈ H → ∀ a, DenotesC s e a → DenotesC s' e a

theorem StableOnC.refl (H : List EdgeC) (s : StoreC) : StableOnC H s s := fun _ _ _ h => h
theorem StableOnC.trans {H : List EdgeC} {a b c : StoreC} (h1 : StableOnC H a b)
    (h2 : StableOnC H b c) : StableOnC H a c := fun e he t hd => h2 e he t (h1 e he t hd)

/-- side conditions of a step (what the operations of the library guarantee) -/
def HOp.Valid : HOp → HState → Prop
  | .ext s' e, st => st.mgr.store.Le s' ∧ ∃ a, DenotesC s' e a
  | .gc s', st => StableOnC st.mgr.handles st.mgr.store s'
  | .gcFree s', st => StableOnC st.mgr.handles st.mgr.store s'
  | .reorder s' hs', _ => ∀ e, e ∈ hs' → ∃ a, DenotesC s' e a
  | .count i _ fuel, st =>
    ∀ e a, st.mgr.handles[i]? = some e → DenotesC st.mgr.store e a → a.n.size ≤ fuel
  | _, _ => True

/-- collections are atomic: the history does not free nodes outside `gc` / `reorder` -/
def HOp.Atomic : HOp → Prop
  | .gcFree _ => False
  | _ => True

def runAll : List HOp → HState → HState × List (Option Nat)
  | [], st => (st, [])
  | o :: os, st =>
    let r := o.run st
    let rs := runAll os r.1
    (rs.1, r.2 :: rs.2)

def ValidAll : List HOp → HState → Prop
  | [], _ => True
  | o :: os, st => o.Valid st ∧ ValidAll os (o.run st).1

/-! ## the collector -/

/-- is slot `j` referenced by a stored node? -/
def refdC (s : StoreC) (j : Nat) : Bool :=
  s.nodes.any fun o =>
    match o with
    | some n => n.t == .inner j || n.e.tgt == .inner j
    | none => false

/-- is slot `j` the target of one of the root edges? -/
def rootedC (roots : List EdgeC) (j : Nat) : Bool := roots.any fun e => e.tgt == .inner j

/-- one collection pass: every node that is referenced neither by a stored node nor by a root is
removed, all at once -/
def sweepC (s : StoreC) (roots : List EdgeC) : StoreC :=
  ⟨s.nodes.mapIdx fun j o => if rootedC roots j || refdC s j then o else none⟩

theorem get?_sweepC (s : StoreC) (roots : List EdgeC) (j : Nat) :
    (sweepC s roots).get? j = if rootedC roots j || refdC s j then s.get? j else none := by
  simp only [StoreC.get?, sweepC, Array.getElem?_mapIdx]
  cases s.nodes[j]? with
  | none => simp
  | some o => split <;> simp [*]

theorem refdC_of_child {s : StoreC} {i j : Nat} {n : NodeC} (hi : s.get? i = some n)
    (hc : n.t = .inner j ∨ n.e.tgt = .inner j) : refdC s j = true := by
  unfold StoreC.get? at hi
  cases hx : s.nodes[i]? with
  | none => simp [hx] at hi
  | some o =>
    simp [hx] at hi
    subst hi
    obtain ⟨hlt, hget⟩ := Array.getElem?_eq_some_iff.mp hx
    unfold refdC
    rw [Array.any_eq_true]
    refine ⟨i, hlt, ?_⟩
    rw [hget]
    rcases hc with h | h <;> simp [h]

theorem sweepC_den {s : StoreC} (roots : List EdgeC) {x : Tgt} {a : CNode} (h : DenN s x a) :
    (∀ j, x = .inner j → (rootedC roots j || refdC s j) = true) → DenN (sweepC s roots) x a := by
  induction h with
  | term => intro _; exact .term
  | @inner i l t en e tt te hi _ _ iht ihe =>
    intro hk
    have hki := hk i rfl
    refine .inner (by rw [get?_sweepC, hki]; simpa using hi) (iht ?_) (ihe ?_)
    · intro j hj
      rw [refdC_of_child hi (.inl hj)]; simp
    · intro j hj
      rw [refdC_of_child hi (.inr hj)]; simp

theorem sweepC_stable (s : StoreC) (roots : List EdgeC) : StableOnC roots s (sweepC s roots) := by
  intro e he a hd
  refine ⟨hd.1, sweepC_den roots hd.2 ?_⟩
  intro j hj
  have : rootedC roots j = true := by
    unfold rootedC
    rw [List.any_eq_true]
    exact ⟨e, he, by simp [hj]⟩
  simp [this]

/-- iterate `sweepC` until nothing changes (at most `k` times): the cascade of a collection -/
def sweepN (roots : List EdgeC) : Nat → StoreC → StoreC
  | 0, s => s
  | k+1, s =>
    let s' := sweepC s roots
    if s'.nodes = s.nodes then s else sweepN roots k s'

/-- the collection of the index manager on the id store -/
def gcS (m : Mgr) : StoreC := sweepN m.handles m.store.nodes.size m.store

theorem sweepN_stable (roots : List EdgeC) : ∀ (k : Nat) (s : StoreC),
    StableOnC roots s (sweepN roots k s)
  | 0, _ => StableOnC.refl _ _
  | k+1, s => by
    simp only [sweepN]
    split
    · exact StableOnC.refl _ _
    · exact (sweepC_stable s roots).trans (sweepN_stable roots k _)

theorem gcS_valid (st : HState) : (HOp.gc (gcS st.mgr)).Valid st := sweepN_stable _ _ _

/-! ## executable checks of the side conditions (for concrete histories: witnesses, driver) -/

/-- unfold a target into the tree node it denotes (`none`: dangling or fuel exhausted) -/
def unfoldC? (s : StoreC) : Nat → Tgt → Option CNode
  | _, .term => some .top
  | 0, .inner _ => none
  | fuel+1, .inner i =>
    match s.get? i with
    | none => none
    | some n =>
      match unfoldC? s fuel n.t, unfoldC? s fuel n.e.tgt with
      | some t, some e => some (.node n.level t n.e.neg e)
      | _, _ => none

/-- `s.Le s'`, checked slot by slot -/
def leB (s s' : StoreC) : Bool :=
  (List.range s.nodes.size).all fun i =>
    match s.get? i with
    | none => true
    | some n => s'.get? i == some n

/-- the edges of `H` unfold to the same trees in `s` and `s'` -/
def stableB (F : Nat) (H : List EdgeC) (s s' : StoreC) : Bool :=
  H.all fun e =>
    match unfoldC? s F e.tgt with
    | none => false
    | some t => unfoldC? s' F e.tgt == some t

/-- `HOp.Valid`, decided with unfolding fuel `F` -/
def HOp.validB (F : Nat) : HOp → HState → Bool
  | .ext s' e, st => leB st.mgr.store s' && (unfoldC? s' F e.tgt).isSome
  | .gc s', st => stableB F st.mgr.handles st.mgr.store s'
  | .gcFree s', st => stableB F st.mgr.handles st.mgr.store s'
  | .reorder s' hs', _ => hs'.all fun e => (unfoldC? s' F e.tgt).isSome
  | .count i _ fuel, st =>
    match st.mgr.handles[i]? with
    | none => true
    | some e =>
      match unfoldC? st.mgr.store F e.tgt with
      | none => false
      | some t => decide (t.size ≤ fuel)
  | _, _ => true

def validAllB (F : Nat) : List HOp → HState → Bool
  | [], _ => true
  | o :: os, st => o.validB F st && validAllB F os (o.run st).1

theorem unfoldC?_sound {s : StoreC} (fuel : Nat) : ∀ {x : Tgt} {a : CNode},
    unfoldC? s fuel x = some a → DenN s x a := by
  induction fuel with
  | zero =>
    intro x a h
    cases x with
    | term => simp only [unfoldC?, Option.some.injEq] at h; subst h; exact .term
    | inner i => simp [unfoldC?] at h
  | succ fuel ih =>
    intro x a h
    cases x with
    | term => simp only [unfoldC?, Option.some.injEq] at h; subst h; exact .term
    | inner i =>
      simp only [unfoldC?] at h
      cases hi : s.get? i with
      | none => simp [hi] at h
      | some n =>
        simp only [hi] at h
        cases ht : unfoldC? s fuel n.t with
        | none => simp [ht] at h
        | some t =>
          cases he : unfoldC? s fuel n.e.tgt with
          | none => simp [ht, he] at h
          | some e =>
            simp only [ht, he, Option.some.injEq] at h
            subst h
            obtain ⟨l, nt, ⟨en, ne⟩⟩ := n
            exact .inner hi (ih ht) (ih he)

/-- an edge whose target unfolds denotes the tree edge with the same tag -/
theorem unfoldC?_denotes {s : StoreC} {F : Nat} {e : EdgeC} {t : CNode}
    (h : unfoldC? s F e.tgt = some t) : DenotesC s e ⟨e.neg, t⟩ := ⟨rfl, unfoldC?_sound F h⟩

theorem leB_sound {s s' : StoreC} (h : leB s s' = true) : s.Le s' := by
  intro i n hi
  have hlt : i < s.nodes.size := by
    apply Classical.byContradiction
    intro hge
    have : s.nodes[i]? = none := Array.getElem?_eq_none (by omega)
    simp [StoreC.get?, this] at hi
  have := List.all_eq_true.mp h i (List.mem_range.mpr hlt)
  simp only [hi] at this
  exact beq_iff_eq.mp this

theorem stableB_sound {F : Nat} {H : List EdgeC} {s s' : StoreC} (h : stableB F H s s' = true) :
    StableOnC H s s' := by
  intro e he a hd
  have := List.all_eq_true.mp h e he
  cases hu : unfoldC? s F e.tgt with
  | none => simp [hu] at this
  | some t' =>
    simp only [hu] at this
    have h1 := unfoldC?_sound F hu
    have h2 := unfoldC?_sound F (beq_iff_eq.mp this)
    refine ⟨hd.1, ?_⟩
    rw [DenN.functional hd.2 h1]
    exact h2

theorem HOp.validB_sound {F : Nat} (o : HOp) (st : HState) (h : o.validB F st = true) :
    o.Valid st := by
  cases o with
  | ext s' e =>
    simp only [HOp.validB, Bool.and_eq_true] at h
    refine ⟨leB_sound h.1, ?_⟩
    cases hu : unfoldC? s' F e.tgt with
    | none => simp [hu] at h
    | some t => exact ⟨_, unfoldC?_denotes hu⟩
  | gc s' => exact stableB_sound h
  | gcFree s' => exact stableB_sound h
  | reorder s' hs' =>
    intro e he
    have := List.all_eq_true.mp h e he
    cases hu : unfoldC? s' F e.tgt with
    | none => simp [hu] at this
    | some t => exact ⟨_, unfoldC?_denotes hu⟩
  | count i vars fuel =>
    intro e a hg hd
    simp only [HOp.validB, hg] at h
    cases hu : unfoldC? st.mgr.store F e.tgt with
    | none => simp [hu] at h
    | some t' =>
      simp only [hu, decide_eq_true_eq] at h
      rw [DenN.functional hd.2 (unfoldC?_sound F hu)]
      exact h
  | _ => trivial

theorem validAllB_sound {F : Nat} : ∀ (ops : List HOp) (st : HState), validAllB F ops st = true →
    ValidAll ops st := by
  intro ops
  induction ops with
  | nil => intro _ _; trivial
  | cons o os ih =>
    intro st h
    simp only [validAllB, Bool.and_eq_true] at h
    exact ⟨o.validB_sound st h.1, ih _ h.2⟩

end OxiddModel.Bcdd.CountS
