import OxiddModel.Util.Proto
import OxiddModel.Bcdd.Model
import OxiddModel.Reorder.Model
import Std.Data.HashMap
import Std.Data.HashSet

/-!
Line-protocol driver for the BCDD tree model (protocol `bcdd`, DESIGN.md Appendix A).
It keeps the variable↔level maps and the live handles and prints diagrams with *variable
numbers*, exactly like the Rust scenario `bf --kind bcdd` (`bcdd_tree` in kinds.rs): the single
terminal is `T`, a complemented edge is prefixed `~`, nodes are `(v<var> <then> <else>)`.
-/
namespace OxiddModel.Bcdd

open OxiddModel

structure St where
  n : Nat := 0
  l2v : Array Nat := #[]
  v2l : Array Nat := #[]
  h : Std.HashMap String Edge := {}
  substs : Std.HashMap String (List (Nat × Edge)) := {}

namespace St

def lvl (s : St) (v : Nat) : Nat := s.v2l.getD v v
def vr (s : St) (l : Nat) : Nat := s.l2v.getD l l

mutual
partial def showN (s : St) : CNode → String
  | .top => "T"
  | .node l t en e => s!"(v{s.vr l} {s.showN t} {s.showE ⟨en, e⟩})"
partial def showE (s : St) (x : Edge) : String :=
  (if x.neg then "~" else "") ++ s.showN x.n
end

def put (s : St) (name : String) (t : Edge) : St × String :=
  ({ s with h := s.h.insert name t }, s.showE t)

/-- assignment of the levels from the bits of `a` (bit `v` = value of variable `v`) -/
def sigma (s : St) (a : Nat) : Nat → Bool := fun l => a.testBit (s.vr l)

end St

def parseOp : String → Option Op
  | "and" => some .and | "or" => some .or | "nand" => some .nand | "nor" => some .nor
  | "xor" => some .xor | "equiv" => some .equiv | "imp" => some .imp | "imp_strict" => some .impStrict
  | _ => none

def parseQuant : String → Option Quant
  | "forall" => some .forall_ | "exists" => some .exists_ | "unique" => some .unique
  | _ => none

def parseBin (s : String) : Nat := s.foldl (fun a c => 2 * a + (if c == '1' then 1 else 0)) 0

def parseHex (s : String) : Nat :=
  s.foldl (fun a c =>
    let d := if c.isDigit then c.toNat - '0'.toNat
      else if 'a' ≤ c ∧ c ≤ 'f' then c.toNat - 'a'.toNat + 10
      else if 'A' ≤ c ∧ c ≤ 'F' then c.toNat - 'A'.toNat + 10 else 0
    16 * a + d) 0

def toHex (n : Nat) : String :=
  if n = 0 then "0" else String.ofList (Nat.toDigits 16 n)

/-- build the function with truth table `tt` (bit `a` = value under assignment `a`) as a sum of
minterms with the model's own operators — the same route as the harness op `tt` -/
def buildMinterms (s : St) (tt : Nat) : Edge := Id.run do
  let mut f : Edge := terminal false
  for a in [0 : 2 ^ s.n] do
    if tt.testBit a then
      let mut c : Edge := terminal true
      for v in [0 : s.n] do
        let x := if a.testBit v then var (s.lvl v) else notVar (s.lvl v)
        c := applyOp .and c x
      f := applyOp .or f c
  return f

/-- Shannon `ite` chain — the route of the harness op `ttb` -/
def buildShannon (s : St) (tt : Nat) : Nat → Nat → Nat → Edge
  | 0, _, fixed => terminal (tt.testBit fixed)
  | fuel + 1, v, fixed =>
    if v ≥ s.n then terminal (tt.testBit fixed) else
    let hi := buildShannon s tt fuel (v + 1) (fixed ||| (1 <<< v))
    let lo := buildShannon s tt fuel (v + 1) fixed
    applyIte (var (s.lvl v)) hi lo

/-- literal cube built by an and-chain, as the harness op `cube` does -/
def cubeOf (s : St) (lits : List String) : Option Edge :=
  lits.foldlM (fun acc l =>
    match (l.drop 1).toString.toNat? with
    | some v =>
      let x := if l.startsWith "-" then notVar (s.lvl v) else var (s.lvl v)
      some (applyOp .and acc x)
    | none => none) (terminal true)

/-- rebuild a tree for a new variable order: `old` maps old levels to variables, the state holds
the new maps. The result of the real level swaps is the canonical diagram of the same function. -/
partial def reorderNode (s : St) (old : Array Nat) : CNode → Edge
  | .top => terminal true
  | .node l t en e =>
    let e' := reorderNode s old e
    applyIte (var (s.lvl (old.getD l l))) (reorderNode s old t) (if en then applyNot e' else e')

def reorderEdge (s : St) (old : Array Nat) (x : Edge) : Edge :=
  let r := reorderNode s old x.n
  if x.neg then applyNot r else r

/-- distinct inner nodes reachable from the given roots (shared modulo the complement bit) -/
partial def collectNodes (n : CNode) (acc : Std.HashSet CNode) : Std.HashSet CNode :=
  match n with
  | .top => acc
  | .node l t en e =>
    if acc.contains n then acc
    else collectNodes e (collectNodes t (acc.insert (.node l t en e)))

/-- saturating machine integers as used by `sat_count` (`Saturating<u64>` / `<u128>`) -/
def satCountSat (bits vars : Nat) (f : Edge) : Nat :=
  let mx := 2 ^ bits - 1
  let shl (a k : Nat) : Nat := if k ≥ bits then mx else (a <<< k) % 2 ^ bits
  let add (a b : Nat) : Nat := min (a + b) mx
  let shr1 (a : Nat) : Nat := if a = mx then mx else a >>> 1
  let tv := shl 1 vars
  let rec go : Bool → CNode → Nat
    | tag, .top => if tag then 0 else tv
    | tag, .node _ t en e => shr1 (add (go tag t) (go (tag != en) e))
  go f.neg f.n

/-- arbitrary-precision naturals: `>> 1` is exact or NaN -/
def satCountNat (vars : Nat) : Bool → CNode → Option Nat
  | tag, .top => some (if tag then 0 else 2 ^ vars)
  | tag, .node _ t en e =>
    match satCountNat vars tag t, satCountNat vars (tag != en) e with
    | some a, some b => if (a + b) % 2 = 0 then some ((a + b) / 2) else none
    | _, _ => none

def kv (ws : List String) (key : String) : Option String :=
  ws.findSome? fun w => if w.startsWith (key ++ "=") then some (w.drop (key.length + 1)).toString else none

def step1 (s : St) (line : String) : St × String :=
  let ws := words line
  match ws with
  | ["pargc"] => (s, "ok")
  | "ballast" :: _ => (s, "ok")
  | "substids" :: _ => (s, "ok")
  | "satrace" :: _ => (s, "ok")
  | "bigcount" :: _ => (s, "ok")
  | ["dropballast"] => (s, "ok")
  | ["nodes"] => (s, "-")
  | "mgr" :: rest =>
    let vars := ((kv rest "vars").bind String.toNat?).getD 0
    ({ n := vars, l2v := Array.range vars, v2l := Array.range vars }, "ok")
  | "addvars" :: k :: _ =>
    match k.toNat? with
    | some k =>
      let n2 := s.n + k
      ({ s with n := n2, l2v := s.l2v ++ (Array.range' s.n k), v2l := s.v2l ++ (Array.range' s.n k) },
        s!"{s.n}..{n2}")
    | none => (s, "bad-op")
  | "order" :: rest =>
    -- `order v…` lists *variables*; partial orders are completed like `set_var_order` does
    -- (`Reorder.newL2v`); `seq=1` selects `set_var_order_seq`, which establishes the same order
    let order := (rest.filter (fun w => !w.contains '=')).filterMap String.toNat?
    if order.all (· < s.n) && order.eraseDups.length = order.length then
      let l2v := if order.length ≤ 1 then s.l2v else Reorder.newL2v s.l2v s.v2l order
      let v2l := Id.run do
        let mut a := Array.replicate s.n 0
        for l in [0 : s.n] do
          a := a.set! (l2v.getD l 0) l
        return a
      let s' : St := { s with l2v := l2v, v2l := v2l }
      let h' := s.h.fold (fun acc k t => acc.insert k (reorderEdge s' s.l2v t)) ({} : Std.HashMap String Edge)
      let substs' := s.substs.fold (fun acc k ps => acc.insert k (ps.map fun p => (p.1, reorderEdge s' s.l2v p.2)))
        ({} : Std.HashMap String (List (Nat × Edge)))
      ({ s' with h := h', substs := substs' }, joinSp (l2v.toList.map toString))
    else (s, "bad-op")
  | ["const", name, v] => s.put name (terminal (v == "T"))
  | ["var", name, v] =>
    match v.toNat? with
    | some v => s.put name (var (s.lvl v))
    | none => (s, "bad-op")
  | ["notvar", name, v] =>
    match v.toNat? with
    | some v => s.put name (notVar (s.lvl v))
    | none => (s, "bad-op")
  | "cube" :: name :: lits =>
    match cubeOf s lits with
    | some c => s.put name c
    | none => (s, "bad-op")
  | ["tt", name, hex] => s.put name (buildMinterms s (parseHex hex))
  | ["ttb", name, hex] => s.put name (buildShannon s (parseHex hex) (s.n + 1) 0 0)
  | ["op", name, "not", a] =>
    match s.h[a]? with
    | some f => s.put name (applyNot f)
    | none => (s, "bad-op")
  | ["op", name, "ite", a, b, c] =>
    match s.h[a]?, s.h[b]?, s.h[c]? with
    | some f, some g, some h => s.put name (applyIte f g h)
    | _, _, _ => (s, "bad-op")
  | ["op", name, op, a, b] =>
    match parseOp op, s.h[a]?, s.h[b]? with
    | some op, some f, some g => s.put name (applyOp op f g)
    | _, _, _ => (s, "bad-op")
  | ["clone", name, a] =>
    match s.h[a]? with
    | some f => ({ s with h := s.h.insert name f }, "ok")
    | none => (s, "bad-op")
  | ["drop", a] =>
    if s.h.contains a then ({ s with h := s.h.erase a }, "ok") else (s, "bad-op")
  | ["dropall"] => ({ s with h := {} }, "ok")
  | ["eq", a, b] =>
    match s.h[a]?, s.h[b]? with
    | some f, some g => (s, boolStr (f == g))
    | _, _ => (s, "bad-op")
  | ["eval", a, bits] =>
    match s.h[a]? with
    | some f => (s, boolStr (evalEdge (s.sigma (parseBin bits)) f))
    | none => (s, "bad-op")
  | ["sat", a] =>
    match s.h[a]? with
    | some f => (s, boolStr (f != terminal false))
    | none => (s, "bad-op")
  | ["valid", a] =>
    match s.h[a]? with
    | some f => (s, boolStr (f == terminal true))
    | none => (s, "bad-op")
  | ["count", a] =>
    match s.h[a]? with
    | some f => (s, toString (nodeCount f))
    | none => (s, "bad-op")
  | ["cofchk", a] | ["cof", a] =>
    match s.h[a]? with
    | some f =>
      match f.n with
      | .node .. => (s, s!"{s.showE (cofT f)} {s.showE (cofE f)}")
      | .top => (s, "none")
    | none => (s, "bad-op")
  | ["show", a] =>
    match s.h[a]? with
    | some f => (s, s.showE f)
    | none => (s, "bad-op")
  | ["pickvec", a, bits] =>
    match s.h[a]? with
    | some f =>
      let choice := fun l => (parseBin bits).testBit l
      match pickCube choice f with
      | none => (s, "NONE")
      | some path =>
        let str := String.ofList ((List.range s.n).map fun v =>
          match path.lookup (s.lvl v) with
          | some true => '1'
          | some false => '0'
          | none => '-')
        (s, str)
    | none => (s, "bad-op")
  | ["pick", name, a, bits] =>
    match s.h[a]? with
    | some f => s.put name (pickCubeDD (fun l => (parseBin bits).testBit l) f)
    | none => (s, "bad-op")
  | ["pickset", name, a, b] =>
    match s.h[a]?, s.h[b]? with
    | some f, some ls => s.put name (pickCubeDDSet f ls)
    | _, _ => (s, "bad-op")
  | "pickuni" :: _ => (s, "ok")
  | ["gc"] =>
    -- nodes reachable from live handles and from the replacement functions held by
    -- substitution objects
    let roots := s.h.fold (fun acc _ t => collectNodes t.n acc) ({} : Std.HashSet CNode)
    let roots := s.substs.fold (fun acc _ ps => ps.foldl (fun acc p => collectNodes p.2.n acc) acc) roots
    (s, toString roots.size)
  | ["audit"] => (s, "ok")
  | ["rcchk"] => (s, "ok")
  | ["dump"] =>
    -- meaningful directly after `gc`: the store is exactly the set of reachable inner nodes.
    -- A node (not an edge) is printed, so there is no leading complement mark; its count is the
    -- number of live handles and substitution replacements whose root node it is plus the number
    -- of stored parent edges (then or else, complemented or not) pointing to it.
    let roots := s.h.fold (fun acc _ t => t.n :: acc) []
    let roots := s.substs.fold (fun acc _ ps => ps.foldl (fun acc p => p.2.n :: acc) acc) roots
    let store := (roots.foldl (fun acc r => collectNodes r acc) ({} : Std.HashSet CNode)).toList
    let rcs : Std.HashMap CNode Nat := roots.foldl (fun m r => if r.isTop then m else m.insert r (m.getD r 0 + 1)) {}
    let rcs := store.foldl (fun m p =>
      match p with
      | .node _ t _ e =>
        let m := if t.isTop then m else m.insert t (m.getD t 0 + 1)
        if e.isTop then m else m.insert e (m.getD e 0 + 1)
      | .top => m) rcs
    let items := (store.map fun n => s!"{s.showN n}:{rcs.getD n 0}").toArray.qsort (· < ·)
    (s, s!"{items.size} {" | ".intercalate items.toList}")
  | ["restrict", name, a, b] =>
    match s.h[a]?, s.h[b]? with
    | some f, some c => s.put name (restrict f c)
    | _, _ => (s, "bad-op")
  | "satcount" :: a :: vars :: ty :: _ =>
    match s.h[a]?, vars.toNat? with
    | some f, some vars =>
      match ty with
      | "u64" => (s, toString (satCountSat 64 vars f))
      | "u128" => (s, toString (satCountSat 128 vars f))
      | "nat" =>
        match satCountNat vars f.neg f.n with
        | some c => (s, "0x" ++ toHex c)
        | none => (s, "NaN")
      | "f64" => (s, "ok")
      | _ => (s, "bad-op")
    | _, _ => (s, "bad-op")
  | ["quant", name, q, a, vs] =>
    match parseQuant q, s.h[a]?, s.h[vs]? with
    | some q, some f, some vars => s.put name (quant q f vars)
    | _, _, _ => (s, "bad-op")
  | ["applyq", name, q, op, a, b, vs] =>
    match parseQuant q, parseOp op, s.h[a]?, s.h[b]?, s.h[vs]? with
    | some q, some op, some f, some g, some vars => s.put name (applyQuantOp q op f g vars)
    | _, _, _, _, _ => (s, "bad-op")
  | "mksubst" :: sid :: pairs =>
    let ps := pairs.filterMap fun p =>
      match p.splitOn "=" with
      | [v, hn] =>
        match v.toNat?, s.h[hn]? with
        | some v, some t => some (v, t)
        | _, _ => none
      | _ => none
    if ps.length = pairs.length then ({ s with substs := s.substs.insert sid ps }, "ok") else (s, "bad-op")
  | ["subst", name, a, sid] =>
    match s.h[a]?, s.substs[sid]? with
    | some f, some ps =>
      -- `substitute_prepare` works on levels
      let sv := substPrepare (ps.map fun p => (s.lvl p.1, p.2))
      s.put name (substitute sv f)
    | _, _ => (s, "bad-op")
  | ["dropsubst", sid] =>
    if s.substs.contains sid then ({ s with substs := s.substs.erase sid }, "ok") else (s, "bad-op")
  | _ => (s, "bad-op")

/-- `par t0:<line> ; t1:<line> ; …`: the items run concurrently in the implementation; threads only
define and drop handles of their own, so the sequential execution in item order is the reference
(C07) -/
def step (s : St) (line : String) : St × String :=
  if line.startsWith "par " then
    let items := (line.drop 4).toString.splitOn " ; "
    let (s', outs) := items.foldl (fun (acc : St × List String) it =>
      let body := match it.trimAscii.toString.splitOn ":" with
        | _ :: rest => ":".intercalate rest
        | [] => it
      let (s2, o) := step1 acc.1 body
      (s2, o :: acc.2)) (s, [])
    (s', " ; ".intercalate outs.reverse)
  else step1 s line

def proto : Proto := { σ := St, init := {}, step := step }

end OxiddModel.Bcdd
