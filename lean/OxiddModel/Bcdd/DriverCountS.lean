import OxiddModel.Util.Proto
import OxiddModel.Bdd.DriverCountS
import OxiddModel.Bcdd.CountSHistory

/-!
# Driver of the protocol `countcache-bcdd` (C12, cache half, complement-edge rules)

Runs the id-store model of `Bcdd/CountS.lean` + `Bcdd/CountSHistory.lean` — the very `HOp.run` /
`satCountC` / `innerC` / `CountCacheC.clearIfInvalid` that `Bcdd/PropertiesC12S.lean` is about — on
the operation lines of `harness/src/bin/c12_cache_kinds.rs --kind bcdd` and prints, after every
`count`, the result, the size of the cache map before and after, and the canonicalised content of
the map: for every key `id | tag << 31` the level and structural hash of the tree of node `id`,
the tag, and the stored number, sorted.

Model of the harness operations in terms of `HOp`:
* `build h tt` — Shannon expansion in the current level order with the complement-edge `reduce`
  (`Bcdd.mk`); the Rust side (`var(v).ite(hi, lo)` bottom-up) creates the nodes of the result and
  the variable nodes `(l, ⊤, ¬⊤)` of the levels the result mentions: `HOp.ext s' e` with `s'` =
  those variable nodes and the tree interned into the store (`internE`: the then-edge of every
  stored node is regular, a complement moves to the returned edge);
* `not h h2` — the handle `h2` is the complemented edge of `h` (no node is created: `HOp.ext` with
  the same store);
* `clone`, `drop` — `HOp.clone`, `HOp.drop`;
* `gc` — `HOp.gc (gcS mgr)` (iterated `sweepC` from the live handles);
* `reorder o` — nothing if the order is unchanged (the library returns early, `gc_count` stays);
  otherwise `HOp.reorder s' hs'` with the handles' functions re-expanded in the new order and
  interned into an empty store (the generator collects before it reorders, and `level_swap`
  removes orphans at once, so the real store holds exactly the reachable nodes afterwards:
  `nodes=` is compared);
* `addvars k` — `HOp.addVars k`; `cacheall b` — `HOp.setCacheAll b`;
* `newcache` — the cache object is replaced by `CountCacheC.new` (flag kept, as the harness does);
* `count h vars` — `HOp.count i vars fuel`;
* `racegc p r` — oracle-only (suite `race`: the interleaving of `count_during_collection_wrong`
  on the real code): answered `ok`.
-/
namespace OxiddModel.Bcdd.CountS.Driver
open OxiddModel OxiddModel.Bcdd OxiddModel.Bcdd.CNode OxiddModel.Bcdd.Refine OxiddModel.Bcdd.CountS
open OxiddModel.Bdd.CountS.Driver (parseTT mix hex16 sortStr idxOf parseOrder isPerm)

structure DState where
  st : Option HState := none
  names : List String := []
  /-- level → variable -/
  order : List Nat := []

/-- Shannon expansion along the level order, with the complement-edge reduction rule (`mk`) -/
def shannon (f : Nat → Bool) : Nat → List Nat → Nat → Edge
  | _, [], a => terminal (f a)
  | l, v :: vs, a => mk l (shannon f (l + 1) vs (a ||| (1 <<< v))) (shannon f (l + 1) vs a)

def levelsOf : CNode → List Nat → List Nat
  | .top, acc => acc
  | .node l t _ e, acc =>
    let acc := if acc.contains l then acc else l :: acc
    levelsOf e (levelsOf t acc)

/-- value of a tree edge (over levels) under an assignment of the variables, given level → variable -/
def evalVars (order : List Nat) (x : Edge) (a : Nat) : Bool :=
  x.eval fun l => a.testBit (order.getD l 0)

/-! ## canonical printing -/

mutual
  def nodeStr : CNode → String
    | .top => "T"
    | .node l t en e => s!"({l} {nodeStr t} {if en then "~" else ""}{nodeStr e})"
end

def edgeStr (x : Edge) : String := (if x.neg then "~" else "") ++ nodeStr x.n

/-- structural hash of a node: the else-tag enters through the first argument of `mix` -/
def nodeHash : CNode → UInt64
  | .top => 1
  | .node l t en e => mix (2 * l.toUInt64 + (if en then 1 else 0)) (nodeHash t) (nodeHash e)

def occupied (s : StoreC) : Nat := (s.nodes.toList.filter Option.isSome).length

def entryStr (s : StoreC) (p : (Bool × Nat) × Nat) : String :=
  match unfoldC? s 64 (.inner p.1.2) with
  | some (.node l t en e) =>
    s!"{l}:{hex16 (nodeHash (.node l t en e))}:{if p.1.1 then 1 else 0}={p.2}"
  | _ => s!"dangling={p.2}"

/-! ## the steps -/

def step (d : DState) (line : String) : DState × String :=
  let bad := (d, "bad-op")
  match words line, d.st with
  | ["mgr", n], none =>
    match n.toNat? with
    | some n =>
      if n > 12 then bad
      else ({ st := some ⟨{ Mgr.new with numVars := n }, CountCacheC.new⟩, names := [],
              order := List.range n }, "ok")
    | none => bad
  | ["racegc", p, r], _ =>
    -- oracle-only operation of the harness (a count inside a collection on another thread, on a
    -- manager of its own: `KF-countcache-during-collection`); nothing to predict
    match p.toNat?, r.toNat? with
    | some p, some _ => if p < 2 ∨ p > 20 then bad else (d, "ok")
    | _, _ => bad
  | _, none => bad
  | ["build", h, hex], some st =>
    match parseTT hex st.mgr.numVars with
    | none => bad
    | some tt =>
      if d.names.contains h then bad else
      let t := shannon tt.testBit 0 d.order 0
      -- the variable nodes touched by `BCDDFunction::var`, then the result
      let s1 := (levelsOf t.n []).foldl (fun s l => (internN s (.node l .top true .top)).1)
        st.mgr.store
      let r := internE s1 t
      let st' := ((HOp.ext r.1 r.2).run st).1
      ({ d with st := some st', names := d.names ++ [h] }, s!"{edgeStr t} nodes={occupied r.1}")
  | ["not", h, h2], some st =>
    match idxOf d.names h with
    | none => bad
    | some i =>
      if d.names.contains h2 then bad else
      match st.mgr.handles[i]? with
      | none => bad
      | some e =>
        ({ d with st := some ((HOp.ext st.mgr.store (notE e)).run st).1, names := d.names ++ [h2] },
          "ok")
  | ["clone", h, h2], some st =>
    match idxOf d.names h with
    | none => bad
    | some i =>
      if d.names.contains h2 then bad else
      ({ d with st := some ((HOp.clone i).run st).1, names := d.names ++ [h2] }, "ok")
  | ["drop", h], some st =>
    match idxOf d.names h with
    | none => bad
    | some i => ({ d with st := some ((HOp.drop i).run st).1, names := d.names.eraseIdx i }, "ok")
  | ["gc"], some st =>
    let s' := gcS st.mgr
    ({ d with st := some ((HOp.gc s').run st).1 }, s!"nodes={occupied s'} bump=1")
  | ["reorder", o], some st =>
    match parseOrder o with
    | none => bad
    | some o =>
      if !isPerm o st.mgr.numVars then bad else
      if o = d.order then
        (d, s!"nodes={occupied st.mgr.store} bump=0 order={",".intercalate (o.map toString)}")
      else
        -- re-expand every handle's function in the new order, into an empty store
        let trees := st.mgr.handles.map fun e =>
          match unfoldC? st.mgr.store 64 e.tgt with
          | some t => shannon (evalVars d.order ⟨e.neg, t⟩) 0 o 0
          | none => terminal false
        let r := trees.foldl (fun (acc : StoreC × List EdgeC) t =>
          let x := internE acc.1 t; (x.1, acc.2 ++ [x.2])) (⟨#[]⟩, [])
        let st' := ((HOp.reorder r.1 r.2).run st).1
        ({ d with st := some st', order := o },
          s!"nodes={occupied r.1} bump=1 order={",".intercalate (o.map toString)}")
  | ["addvars", k], some st =>
    match k.toNat? with
    | none => bad
    | some k =>
      if st.mgr.numVars + k > 12 then bad else
      let st' := ((HOp.addVars k).run st).1
      ({ d with st := some st', order := d.order ++ (List.range k).map (· + st.mgr.numVars) },
        s!"n={st'.mgr.numVars} bump=0")
  | ["cacheall", b], some st =>
    ({ d with st := some ((HOp.setCacheAll (b == "1")).run st).1 }, "ok")
  | ["newcache"], some st =>
    ({ d with st := some ⟨st.mgr, { CountCacheC.new with cacheAll := st.cache.cacheAll }⟩ }, "ok")
  | ["count", h, vars], some st =>
    match idxOf d.names h, vars.toNat? with
    | some i, some vars =>
      if vars < st.mgr.numVars ∨ vars > 40 then bad else
      let before := st.cache.map.length
      let r := (HOp.count i vars 64).run st
      let c := r.1.cache
      let entries := sortStr (c.map.map (entryStr st.mgr.store))
      ({ d with st := some r.1 },
        s!"count={r.2.getD 0} before={before} after={c.map.length} cache={",".intercalate entries}")
    | _, _ => bad
  | _, _ => bad

def proto : Proto := { σ := DState, init := {}, step := step }

end OxiddModel.Bcdd.CountS.Driver
