import OxiddModel.Util.Proto
import OxiddModel.Bcdd.PickSO
import OxiddModel.Zbdd.PickSO

/-!
# Drivers `pickord-bcdd` / `pickord-zbdd`: the store-level `pick_cube` / `pick_cube_dd` models
under an arbitrary variable order, line by line against the real managers

Lines (the run side is the shared `Bf<K>` scenario of the harness wrapped by `c13_pickord`):

* `mgr … vars=<n>` → `ok`
* `order <v0> <v1> …` (variable at level 0, 1, …; a complete permutation) → the `level_to_var` list
* `tt <h> <hex>` → the canonical diagram of the truth table (bit `a` = value under the assignment
  whose bit `v` is variable `v`) printed as a tree labelled by **variables**
* `pickvec <h> <bits>` → `pickCubeS` / `pickCubeZ` on a fresh store holding all handles: the vector
  indexed by variable (`0`/`1`/`-`), or `NONE`; `bits` is the choice function by **level**
* `pick <r> <h> <bits>` → `pickCubeDdS` / `pickCubeDdZ`; the result is read back from the store and
  printed as a tree; handle `r` is (re)bound
* `picknew <h> <bits>` → `new=<k>`: number of slots allocated by `pick_cube_dd` in the store that
  holds exactly the nodes of all handles (for ZBDD also the tautology chain)
-/
namespace OxiddModel.PickO.Driver
open OxiddModel OxiddModel.PickO

def parseBin (s : String) : Option Nat :=
  s.toList.foldl (fun acc c => match acc with
    | none => none
    | some a => if c = '0' then some (2*a) else if c = '1' then some (2*a+1) else none) (some 0)

def hexDigit (c : Char) : Option Nat :=
  if '0' ≤ c ∧ c ≤ '9' then some (c.toNat - '0'.toNat)
  else if 'a' ≤ c ∧ c ≤ 'f' then some (c.toNat - 'a'.toNat + 10)
  else if 'A' ≤ c ∧ c ≤ 'F' then some (c.toNat - 'A'.toNat + 10)
  else none

def parseHex (s : String) : Option Nat :=
  if s.isEmpty then none else
  s.toList.foldl (fun acc c => match acc, hexDigit c with
    | some a, some d => some (16*a + d)
    | _, _ => none) (some 0)

def kv (ws : List String) (key : String) : Option String :=
  ws.findSome? fun w => if w.startsWith (key ++ "=") then some ((w.drop (key.length + 1)).toString) else none

def parseNats (ws : List String) : Option (List Nat) :=
  ws.foldr (fun w acc => match w.toNat?, acc with
    | some n, some l => some (n :: l)
    | _, _ => none) (some [])

def isPerm (l : List Nat) : Bool :=
  (List.range l.length).all fun v => l.count v == 1

def vecStr (v : Vec) : String :=
  String.ofList (v.map fun x => match x with
    | none => '-'
    | some true => '1'
    | some false => '0')

def l2vOf (order : List Nat) (l : Nat) : Nat := order.getD l l

/-! ## BCDD -/
namespace C
open OxiddModel.Bcdd OxiddModel.Bcdd.Refine OxiddModel.Bcdd.PickSO

structure St where
  n : Nat := 0
  order : List Nat := []
  hs : List (String × Edge) := []

/-- canonical diagram of a truth table under the order: Shannon expansion level by level, `mk` =
`reduce` -/
def build (tt : Nat) (l2v : Nat → Nat) : Nat → Nat → Nat → Edge
  | 0, _, a => terminal (tt.testBit a)
  | c+1, k, a => mk k (build tt l2v c (k+1) (a ||| (1 <<< l2v k))) (build tt l2v c (k+1) a)

partial def treeN (l2v : Nat → Nat) : CNode → String
  | .top => "T"
  | .node l t en e =>
    s!"(v{l2v l} {treeN l2v t} {if en then "~" else ""}{treeN l2v e})"

def tree (l2v : Nat → Nat) (f : Edge) : String := (if f.neg then "~" else "") ++ treeN l2v f.n

def readN (s : StoreC) : Nat → Tgt → CNode
  | 0, _ => .top
  | _+1, .term => .top
  | f+1, .inner i =>
    match s.get? i with
    | some nd => .node nd.level (readN s f nd.t) nd.e.neg (readN s f nd.e.tgt)
    | none => .top

def count (s : StoreC) : Nat := s.nodes.toList.countP Option.isSome

/-- the store holding exactly the nodes of the given diagrams -/
def storeOf (hs : List Edge) : StoreC := hs.foldl (fun s a => (internE s a).1) ⟨#[]⟩

def put (st : St) (h : String) (a : Edge) : St :=
  { st with hs := (h, a) :: st.hs.filter (·.1 ≠ h) }

def step (st : St) (line : String) : St × String :=
  let ws := words line
  let l2v := l2vOf st.order
  match ws with
  | "mgr" :: rest =>
    match (kv rest "vars").bind String.toNat? with
    | some n => ({ n := n, order := List.range n, hs := [] }, "ok")
    | none => (st, "bad-op")
  | "order" :: rest =>
    match parseNats rest with
    | some o => if o.length = st.n ∧ isPerm o ∧ st.hs.isEmpty then
        ({ st with order := o }, joinSp (o.map toString)) else (st, "bad-op")
    | none => (st, "bad-op")
  | ["tt", h, hex] =>
    match parseHex hex with
    | some tt => let a := build tt l2v st.n 0 0; (put st h a, tree l2v a)
    | none => (st, "bad-op")
  | ["pickvec", h, bits] =>
    match st.hs.lookup h, parseBin bits with
    | some a, some ch =>
      let r := internE (storeOf (st.hs.map (·.2))) a
      match pickCubeS r.1 l2v st.n (fun l => ch.testBit l) (a.n.size + 1) r.2 with
      | none => (st, "NONE")
      | some v => (st, vecStr v)
    | _, _ => (st, "bad-op")
  | ["pick", rname, h, bits] =>
    match st.hs.lookup h, parseBin bits with
    | some a, some ch =>
      let r := internE (storeOf (st.hs.map (·.2))) a
      let p := pickCubeDdS (fun l => ch.testBit l) (a.n.size + 1) r.1 r.2
      let c : Edge := ⟨p.2.neg, readN p.1 (st.n + 2) p.2.tgt⟩
      (put st rname c, tree l2v c)
    | _, _ => (st, "bad-op")
  | ["picknew", h, bits] =>
    match st.hs.lookup h, parseBin bits with
    | some a, some ch =>
      let r := internE (storeOf (st.hs.map (·.2))) a
      let p := pickCubeDdS (fun l => ch.testBit l) (a.n.size + 1) r.1 r.2
      (st, s!"new={count p.1 - count r.1}")
    | _, _ => (st, "bad-op")
  | _ => (st, "bad-op")

def proto : Proto := { σ := St, init := {}, step := step }
end C

/-! ## ZBDD -/
namespace Z
open OxiddModel.Zbdd OxiddModel.Zbdd.ZDD OxiddModel.Zbdd.Refine OxiddModel.Zbdd.PickSO

structure St where
  n : Nat := 0
  order : List Nat := []
  hs : List (String × ZDD) := []

/-- canonical ZBDD of the characteristic function: every level gets a node unless the
zero-suppression rule removes it (`mk`); a level whose variable does not matter keeps its node with
two equal children -/
def build (tt : Nat) (l2v : Nat → Nat) : Nat → Nat → Nat → ZDD
  | 0, _, a => if tt.testBit a then .base else .empty
  | c+1, k, a => mk k (build tt l2v c (k+1) (a ||| (1 <<< l2v k))) (build tt l2v c (k+1) a)

partial def tree (l2v : Nat → Nat) : ZDD → String
  | .empty => "E"
  | .base => "B"
  | .node l hi lo => s!"(v{l2v l} {tree l2v hi} {tree l2v lo})"

def readZ (s : Store) : Nat → ZEdge → ZDD
  | 0, _ => .empty
  | _+1, .empty => .empty
  | _+1, .base => .base
  | f+1, .inner i =>
    match s.get? i with
    | some nd => .node nd.level (readZ s f nd.hi) (readZ s f nd.lo)
    | none => .empty

def count (s : Store) : Nat := s.nodes.toList.countP Option.isSome

/-- the store holding exactly the tautology chain of `n` levels and the nodes of the diagrams -/
def storeOf (n : Nat) (hs : List ZDD) : Store :=
  hs.foldl (fun s a => (intern s a).1) (intern ⟨#[]⟩ (taut n 0)).1

def put (st : St) (h : String) (a : ZDD) : St :=
  { st with hs := (h, a) :: st.hs.filter (·.1 ≠ h) }

def step (st : St) (line : String) : St × String :=
  let ws := words line
  let l2v := l2vOf st.order
  match ws with
  | "mgr" :: rest =>
    match (kv rest "vars").bind String.toNat? with
    | some n => ({ n := n, order := List.range n, hs := [] }, "ok")
    | none => (st, "bad-op")
  | "order" :: rest =>
    match parseNats rest with
    | some o => if o.length = st.n ∧ isPerm o ∧ st.hs.isEmpty then
        ({ st with order := o }, joinSp (o.map toString)) else (st, "bad-op")
    | none => (st, "bad-op")
  | ["tt", h, hex] =>
    match parseHex hex with
    | some tt => let a := build tt l2v st.n 0 0; (put st h a, tree l2v a)
    | none => (st, "bad-op")
  | ["pickvec", h, bits] =>
    match st.hs.lookup h, parseBin bits with
    | some a, some ch =>
      let r := intern (storeOf st.n (st.hs.map (·.2))) a
      match pickCubeZ r.1 l2v st.n (fun l => ch.testBit l) (a.size + 1) r.2 with
      | none => (st, "NONE")
      | some v => (st, vecStr v)
    | _, _ => (st, "bad-op")
  | ["pick", rname, h, bits] =>
    match st.hs.lookup h, parseBin bits with
    | some a, some ch =>
      let r := intern (storeOf st.n (st.hs.map (·.2))) a
      let p := pickCubeDdZ (fun l => ch.testBit l) (a.size + 1) r.1 r.2
      let c := readZ p.1 (st.n + 2) p.2
      (put st rname c, tree l2v c)
    | _, _ => (st, "bad-op")
  | ["picknew", h, bits] =>
    match st.hs.lookup h, parseBin bits with
    | some a, some ch =>
      let r := intern (storeOf st.n (st.hs.map (·.2))) a
      let p := pickCubeDdZ (fun l => ch.testBit l) (a.size + 1) r.1 r.2
      (st, s!"new={count p.1 - count r.1}")
    | _, _ => (st, "bad-op")
  | _ => (st, "bad-op")

def proto : Proto := { σ := St, init := {}, step := step }
end Z

end OxiddModel.PickO.Driver
