import OxiddModel.Util.Proto
import OxiddModel.Bcdd.RcS
import OxiddModel.Bcdd.ThresholdS
import Std.Data.HashMap

/-!
Line-protocol driver `bcdd-rc`: the operation lines of the `bcdd` protocol (`mgr`, `const`, `var`,
`notvar`, `op … not|<binary>|ite`, `clone`, `drop`, `dropall`, `gc`, `dump`, `show`, `eq`, `rc`,
`ninner`, `rcchk`, `audit`) executed on the **BCDD counter model** `Bcdd/RcS.lean` (id store with
complement tags and one `rc` field per node, capacity `nodes=` of the `mgr` line, exact apply
cache). Differences to the tree-level `bcdd` driver:

* an operation may print `OOM` (the store holds `nodes=` nodes and a fresh one is needed);
* `dump` prints the **complete** store, garbage included — every stored node as canonical tree
  (`T`, `~` for a complemented edge, `(v<level> <then> <else>)`) with `ref_count()` (= `rc - 1`),
  sorted — at any point, not only after a `gc`;
* `gc` is the counter-driven level-wise sweep (`gcR`);
* `needed <not|binary|ite> <operands>` prints the model's `needed` (`ThresholdS.lean`: the growth of
  the *uncapped* run from the current state — by `C14T.needed_eq_fresh` the number of nodes of the
  result that are not stored) without changing the state;
* `rc <h>` prints `ref_count()` of the node a handle points to (`-` for the terminal), `ninner` the
  number of stored nodes (`num_inner_nodes`).

The variable order is the identity (no `order` lines in this protocol).
-/
namespace OxiddModel.Bcdd.DriverRc
open OxiddModel OxiddModel.Bcdd OxiddModel.Bcdd.Refine OxiddModel.Bcdd.Rc
open OxiddModel.Bdd.Refine (Policy)

structure DSt where
  n : Nat := 0
  cap : Nat := 0
  r : RStC := RStC.empty
  h : Std.HashMap String EdgeC := {}

def kv (ws : List String) (key : String) : Option String :=
  ws.findSome? fun w => if w.startsWith (key ++ "=") then some (w.drop (key.length + 1)).toString else none

def parseOp : String → Option Op
  | "and" => some .and | "or" => some .or | "nand" => some .nand | "nor" => some .nor
  | "xor" => some .xor | "equiv" => some .equiv | "imp" => some .imp | "imp_strict" => some .impStrict
  | _ => none

mutual
/-- canonical tree of a target (levels = variable numbers) -/
partial def showT (s : StoreC) : Tgt → String
  | .term => "T"
  | .inner i =>
    match s.get? i with
    | some n => s!"(v{n.level} {showT s n.t} {showE s n.e})"
    | none => "?"
/-- canonical tree of an edge: `~` marks the complement tag -/
partial def showE (s : StoreC) (x : EdgeC) : String :=
  (if x.neg then "~" else "") ++ showT s x.tgt
end

/-- the recursion descends at least one level per call (plus the hand-over `ite → and/xor`) -/
def fuelOf (d : DSt) : Nat := 2 * d.n + 16

/-- register a result under `name`: an existing handle of that name is dropped *after* the
operation (`HashMap::insert` in the harness); on OutOfMemory nothing is registered -/
def put (d : DSt) (name : String) (res : Option EdgeC × RStC) : DSt × String :=
  match res with
  | (none, r') => ({ d with r := r' }, "OOM")
  | (some e, r') =>
    let out := showE r'.st.store e
    let r'' := match d.h[name]? with
      | some old => dropEdge r' old
      | none => r'
    ({ d with r := r'', h := d.h.insert name e }, out)

def step (d : DSt) (line : String) : DSt × String :=
  let ws := words line
  match ws with
  | "mgr" :: rest =>
    let vars := ((kv rest "vars").bind String.toNat?).getD 0
    let cap := ((kv rest "nodes").bind String.toNat?).getD 65536
    ({ n := vars, cap := cap }, "ok")
  | ["const", name, v] => put d name (some (termC (v == "T")), d.r)
  | ["var", name, v] =>
    match v.toNat? with
    | some v => put d name (varR d.cap d.r v false)
    | none => (d, "bad-op")
  | ["notvar", name, v] =>
    match v.toNat? with
    | some v => put d name (varR d.cap d.r v true)
    | none => (d, "bad-op")
  | ["op", name, "not", a] =>
    match d.h[a]? with
    | some f => put d name (notR d.r f)
    | none => (d, "bad-op")
  | ["op", name, "ite", a, b, c] =>
    match d.h[a]?, d.h[b]?, d.h[c]? with
    | some f, some g, some h => put d name (iteR d.cap Policy.exact (fuelOf d) d.r f g h)
    | _, _, _ => (d, "bad-op")
  | ["op", name, op, a, b] =>
    match parseOp op, d.h[a]?, d.h[b]? with
    | some op, some f, some g => put d name (applyOpR d.cap Policy.exact op (fuelOf d) d.r f g)
    | _, _, _ => (d, "bad-op")
  | ["needed", "not", a] =>
    match d.h[a]? with
    | some f => (d, toString (neededNot d.r.st f))
    | none => (d, "bad-op")
  | ["needed", "ite", a, b, c] =>
    match d.h[a]?, d.h[b]?, d.h[c]? with
    | some f, some g, some h => (d, toString (neededIte Policy.exact (fuelOf d) d.r.st f g h))
    | _, _, _ => (d, "bad-op")
  | ["needed", op, a, b] =>
    match parseOp op, d.h[a]?, d.h[b]? with
    | some op, some f, some g => (d, toString (neededApply Policy.exact op (fuelOf d) d.r.st f g))
    | _, _, _ => (d, "bad-op")
  | ["clone", name, a] =>
    match d.h[a]? with
    | some f =>
      let r1 := cloneEdge d.r f
      let r2 := match d.h[name]? with
        | some old => dropEdge r1 old
        | none => r1
      ({ d with r := r2, h := d.h.insert name f }, "ok")
    | none => (d, "bad-op")
  | ["drop", a] =>
    match d.h[a]? with
    | some f => ({ d with r := dropEdge d.r f, h := d.h.erase a }, "ok")
    | none => (d, "bad-op")
  | ["dropall"] =>
    ({ d with r := d.h.fold (fun r _ e => dropEdge r e) d.r, h := {} }, "ok")
  | ["gc"] =>
    let r' := gcR d.n d.r
    ({ d with r := r' }, toString r'.st.store.count)
  | ["dump"] =>
    let s := d.r.st.store
    let items := ((List.range s.nodes.size).filterMap fun i =>
      match s.get? i with
      | some _ => some s!"{showT s (.inner i)}:{d.r.refCount i}"
      | none => none).toArray.qsort (· < ·)
    (d, s!"{items.size} {" | ".intercalate items.toList}")
  | ["rc", a] =>
    match d.h[a]? with
    | some ⟨_, .inner i⟩ => (d, toString (d.r.refCount i))
    | some ⟨_, .term⟩ => (d, "-")
    | none => (d, "bad-op")
  | ["ninner"] => (d, toString d.r.st.store.count)
  | ["show", a] =>
    match d.h[a]? with
    | some f => (d, showE d.r.st.store f)
    | none => (d, "bad-op")
  | ["eq", a, b] =>
    match d.h[a]?, d.h[b]? with
    | some f, some g => (d, boolStr (f == g))
    | _, _ => (d, "bad-op")
  | ["rcchk"] => (d, "ok")
  | ["audit"] => (d, "ok")
  | ["nodes"] => (d, "-")
  | _ => (d, "bad-op")

def proto : Proto := { σ := DSt, init := {}, step := step }

end OxiddModel.Bcdd.DriverRc
