import OxiddModel.Util.Proto
import OxiddModel.Bcdd.DriverRc
import OxiddModel.Bcdd.PropertiesC14TV

/-!
Line-protocol driver `c14tcv` (stream `c14-threshold-rest-bcdd`): the `bcdd-rc` protocol
(`Bcdd/DriverRc.lean`: BCDD counter model with node capacity `nodes=` of the `mgr` line) extended
by `try <operation line>` for

  `var <name> <v>`, `notvar <name> <v>`, `op <name> not a`, `op <name> <binary> a b`,
  `op <name> ite a b c`

with a fresh `<name>`. Answer `need=<k> free=<j> thr=<oom|ok> OOM` or
`need=<k> free=<j> thr=<oom|ok> <tree> +<d>` exactly as in `c14tz` (`Zbdd/DriverThreshold.lean`):
`k` = `C14T.neededVar` / `Rc.neededNot` / `Rc.neededApply` / `Rc.neededIte` (capacity-free run from
the current state), `thr` = the closed form of `C14T.var_oom_iff_needed` / `oom_iff_needed` /
`oom_iff_needed_ite`, then the outcome of the capacity-bounded counter model. `need=?` while the
reference manager of the harness is out of step (flags `hard` / `soft`, functions of the output
stream).
-/
namespace OxiddModel.Bcdd.ThresholdDriverV
open OxiddModel OxiddModel.Bcdd OxiddModel.Bcdd.Refine OxiddModel.Bcdd.Rc OxiddModel.Bcdd.DriverRc
open OxiddModel.Bdd.Refine (Policy)

structure TSt where
  d : DSt := {}
  hard : Bool := false
  soft : Bool := false

def needOf (d : DSt) : List String → Option (String × Nat)
  | ["var", name, v] =>
    match v.toNat? with
    | some v => if v < d.n then some (name, C14T.neededVar d.r.st.store v) else none
    | none => none
  | ["notvar", name, v] =>
    match v.toNat? with
    | some v => if v < d.n then some (name, C14T.neededVar d.r.st.store v) else none
    | none => none
  | ["op", name, "not", a] =>
    match d.h[a]? with
    | some f => some (name, neededNot d.r.st f)
    | none => none
  | ["op", name, "ite", a, b, c] =>
    match d.h[a]?, d.h[b]?, d.h[c]? with
    | some f, some g, some h => some (name, neededIte Policy.exact (fuelOf d) d.r.st f g h)
    | _, _, _ => none
  | ["op", name, op, a, b] =>
    match parseOp op, d.h[a]?, d.h[b]? with
    | some op, some f, some g => some (name, neededApply Policy.exact op (fuelOf d) d.r.st f g)
    | _, _, _ => none
  | _ => none

def step (t : TSt) (line : String) : TSt × String :=
  match words line with
  | "try" :: rest =>
    match needOf t.d rest with
    | none => (t, "bad-op")
    | some (name, k) =>
      if t.d.h.contains name then (t, "bad-op") else
      let c0 := t.d.r.st.store.count
      let needS := if t.hard || t.soft then "?" else toString k
      let thr := if 0 < k ∧ t.d.cap < c0 + k then "oom" else "ok"
      let (d', out) := DriverRc.step t.d (joinSp rest)
      let pre := s!"need={needS} free={t.d.cap - c0} thr={thr}"
      if out == "OOM" then ({ t with d := d', soft := true }, s!"{pre} OOM")
      else ({ t with d := d' }, s!"{pre} {out} +{d'.r.st.store.count - c0}")
  | "mgr" :: _ =>
    let (d', out) := DriverRc.step {} line
    ({ d := d', hard := out != "ok", soft := false }, out)
  | ["gc"] =>
    let (d', out) := DriverRc.step t.d line
    ({ t with d := d', soft := false }, out)
  | _ =>
    let (d', out) := DriverRc.step t.d line
    ({ t with d := d', hard := t.hard || out == "OOM" }, out)

def proto : Proto := { σ := TSt, init := {}, step := step }

end OxiddModel.Bcdd.ThresholdDriverV
