import OxiddModel.Bcdd.RcSHistory
import OxiddModel.Reorder.SwapStoreC
import OxiddModel.Bdd.GlobalS

/-!
# ONE manager state for BCDDs (complement edges): operations, handles, gc, `add_vars`, reordering

The complement-edge counterpart of `Bdd/GlobalS.lean`, composed of `Bcdd/RcS.lean` (id store with
tagged edges and one counter per node: `var`, `not` (O(1), cannot fail), the eight binary operators
through `apply_and` / `apply_bin::<Xor>` and tags, `ite`, each under a node capacity, `clone_edge`,
`drop_edge`, `Manager::gc`) and `Reorder/SwapStoreC.lean` (`level_swap` / `set_var_order` with the
complement-edge rules `Rules.bcdd`: tags pushed into the cofactors, `reduce` normalising a
complemented then-edge). Everything said in `Bdd/GlobalS.lean` applies; what is different:

* a handle is an edge `(tag, target)`; `f` and `¬f` are two handles on the same node;
* the bridge `toS`/`ofS`: a stored `NodeC` keeps only the *target* of its then-edge (it is always
  regular), a slot of `SwapStoreC` holds two tagged edges. `toS` writes the regular tag, `ofS`
  forgets it — faithful because `SwapStoreC.Inv.thenReg` is part of the proved invariant.
-/
namespace OxiddModel.Bcdd.Global
open OxiddModel.Bcdd OxiddModel.Bcdd.Refine OxiddModel.Bcdd.Rc
open OxiddModel.Bdd.Refine (Policy OpTag Key Cache)
open OxiddModel.Bdd.Rc (rcGet rcSet)
open OxiddModel.Bdd.Global (bubbleSortK bubbleSortK_eq fuelOf invPerm)
open OxiddModel.Reorder
open OxiddModel.Reorder.SwapStore (chainLe)
open OxiddModel.Reorder.SwapStoreC (Heap SNode SStore Rules setVarOrderS RState levelSwapG step2
  updateLevels)

/-- `SwapStoreC.setVarOrderS Rules.bcdd` with the kernel-reducible `bubbleSortK` -/
def setVarOrderK (al : Heap → Nat) (ord : List Nat → List Nat) (s : SStore) (l2v : List Nat)
    (order : List Nat) : SStore × List Nat :=
  let n := s.tables.length
  let target := sortOrder n (order.map fun v => l2v.idxOf v)
  let levels := List.range n
  let fromNe := levels.filter fun l => !(s.table l).isEmpty
  let neTarget := fromNe.map fun l => target.getD l l
  let sorted := levels.all fun l => target.getD l l == l
  if sorted then (s, l2v)
  else
    let r0 : RState := ⟨s, levels, l2v⟩
    let neSorted := chainLe 0 neTarget
    let r1 : RState × List Nat × Bool :=
      if !neSorted then
        let bs := bubbleSortK neTarget.length neTarget
        let r := bs.2.foldl
          (fun r i => levelSwapG Rules.bcdd al ord r (fromNe.getD i 0) (fromNe.getD (i + 1) 0)) r0
        if fromNe.length = n then (r, target, true)
        else (r, (fromNe.zip bs.1).foldl (fun t p => t.set p.1 p.2) target, false)
      else (r0, target, false)
    let r2 := if r1.2.2 then r1.1 else step2 (n * n + n) 0 r1.1 r1.2.1
    (updateLevels r2, r2.l2v)

theorem setVarOrderK_eq (al : Heap → Nat) (ord : List Nat → List Nat) (s : SStore)
    (l2v order : List Nat) :
    setVarOrderK al ord s l2v order = setVarOrderS Rules.bcdd al ord s l2v order := by
  unfold setVarOrderK setVarOrderS
  simp only [bubbleSortK_eq]

/-! ## the bridge -/

/-- slot `i` holds the node of the store (regular then-edge) together with its counter -/
def toHeap (r : RStC) : Heap :=
  ⟨(List.range r.st.store.nodes.size).map fun i =>
    (r.st.store.get? i).map fun nd => (⟨nd.level, ⟨false, nd.t⟩, nd.e, rcGet r.rc i⟩ : SNode)⟩

def tableOf (s : StoreC) (l : Nat) : List Nat :=
  (List.range s.nodes.size).filter fun i =>
    match s.get? i with
    | some nd => nd.level == l
    | none => false

def toS (r : RStC) (n : Nat) : SStore := ⟨toHeap r, (List.range n).map (tableOf r.st.store)⟩

def slotRc : Option SNode → Nat
  | some nd => nd.rc
  | none => 0

/-- forget the counters and the (regular) tag of the then-edges: `Heap.absC` of
`SwapStoreCSeq.lean` (`absS_eq`) -/
def absS (h : Heap) : StoreC :=
  ⟨(h.slots.map (Option.map fun n => (⟨n.level, n.t.tgt, n.e⟩ : NodeC))).toArray⟩

def ofS (s : SStore) (tick : Nat) : RStC := ⟨⟨absS s.h, [], tick⟩, (s.h.slots.map slotRc).toArray⟩

/-! ## the machine -/

structure Cfg where
  p : Policy
  al : Heap → Nat
  ord : List Nat → List Nat

structure Cfg.OK (c : Cfg) : Prop where
  p : c.p.OK
  al : ∀ h : Heap, h.get? (c.al h) = none
  ord : ∀ l, (c.ord l).Perm l

def Cfg.std : Cfg := ⟨Policy.exact, Heap.firstFree, id⟩

structure GSt where
  r : RStC
  n : Nat
  v2l : List Nat
  l2v : List Nat
  gcCount : Nat
  hs : List EdgeC

def GSt.empty : GSt := ⟨RStC.empty, 0, [], [], 0, []⟩

inductive Step where
  | var (cap v : Nat) (neg : Bool)
  /-- `not`: a clone with the tag flipped; no allocation, cannot fail -/
  | not (a : Nat)
  | bin (cap : Nat) (op : Op) (a b : Nat)
  | ite (cap a b c : Nat)
  | clone (a : Nat)
  | drop (a : Nat)
  | gc
  | addVars (k : Nat)
  | setVarOrder (order : List Nat)
deriving DecidableEq, Repr

def opRes (c : Cfg) (g : GSt) : Step → Option (Option EdgeC × RStC)
  | .var cap v neg => if v < g.n then some (varR cap g.r (g.v2l.getD v 0) neg) else none
  | .not a =>
    match g.hs[a]? with
    | some f => some (notR g.r f)
    | none => none
  | .bin cap op a b =>
    match g.hs[a]?, g.hs[b]? with
    | some f, some h => some (applyOpR cap c.p op (fuelOf g.n) g.r f h)
    | _, _ => none
  | .ite cap a b d =>
    match g.hs[a]?, g.hs[b]?, g.hs[d]? with
    | some f, some h, some k => some (iteR cap c.p (fuelOf g.n) g.r f h k)
    | _, _, _ => none
  | _ => none

def reorderValid (g : GSt) (order : List Nat) : Bool :=
  decide order.Nodup && order.all fun v => decide (v < g.n)

def reorderSorted (g : GSt) (order : List Nat) : Bool :=
  let target := sortOrder g.n (order.map fun v => g.l2v.idxOf v)
  (List.range g.n).all fun l => target.getD l l == l

def reorder (c : Cfg) (g : GSt) (order : List Nat) : GSt :=
  if order.length ≤ 1 || !reorderValid g order || reorderSorted g order then g
  else
    let res := setVarOrderK c.al c.ord (toS g.r g.n) g.l2v order
    { r := ofS res.1 g.r.st.tick, n := g.n, v2l := invPerm g.n res.2, l2v := res.2,
      gcCount := g.gcCount + 1, hs := g.hs }

def pushOp (g : GSt) : Option (Option EdgeC × RStC) → GSt
  | some (some x, r') => { g with r := r', hs := x :: g.hs }
  | some (none, r') => { g with r := r' }
  | none => g

def step (c : Cfg) (g : GSt) : Step → GSt
  | .clone a =>
    match g.hs[a]? with
    | some f => { g with r := cloneEdge g.r f, hs := f :: g.hs }
    | none => g
  | .drop a =>
    match g.hs[a]? with
    | some f => { g with r := dropEdge g.r f, hs := g.hs.eraseIdx a }
    | none => g
  | .gc => { g with r := gcR g.n g.r, gcCount := g.gcCount + 1 }
  | .addVars k =>
    { g with n := g.n + k, v2l := g.v2l ++ List.range' g.n k, l2v := g.l2v ++ List.range' g.n k }
  | .setVarOrder order => reorder c g order
  | .var cap v neg => pushOp g (opRes c g (.var cap v neg))
  | .not a => pushOp g (opRes c g (.not a))
  | .bin cap op a b => pushOp g (opRes c g (.bin cap op a b))
  | .ite cap a b d => pushOp g (opRes c g (.ite cap a b d))

def run (c : Cfg) (hist : List Step) : GSt := hist.foldl (step c) GSt.empty

/-! ## the ghost -/

inductive Expr where
  | var (v : Nat) (neg : Bool)
  | not (e : Expr)
  | bin (op : Op) (e₁ e₂ : Expr)
  | ite (e₁ e₂ e₃ : Expr)
deriving DecidableEq, Repr, Inhabited

def Expr.fn : Expr → (Nat → Bool) → Bool
  | .var v neg, ρ => if neg then !ρ v else ρ v
  | .not e, ρ => !e.fn ρ
  | .bin op e₁ e₂, ρ => op.sem (e₁.fn ρ) (e₂.fn ρ)
  | .ite e₁ e₂ e₃, ρ => if e₁.fn ρ then e₂.fn ρ else e₃.fn ρ

def newExpr (es : List Expr) : Step → Expr
  | .var _ v neg => .var v neg
  | .not a => .not (es.getD a default)
  | .bin _ op a b => .bin op (es.getD a default) (es.getD b default)
  | .ite _ a b d => .ite (es.getD a default) (es.getD b default) (es.getD d default)
  | _ => default

def track (c : Cfg) (g : GSt) (es : List Expr) : Step → List Expr
  | .clone a => if a < g.hs.length then es.getD a default :: es else es
  | .drop a => es.eraseIdx a
  | .gc => es
  | .addVars _ => es
  | .setVarOrder _ => es
  | s =>
    match opRes c g s with
    | some (some _, _) => newExpr es s :: es
    | _ => es

def runT (c : Cfg) (hist : List Step) : GSt × List Expr :=
  hist.foldl (fun x s => (step c x.1 s, track c x.1 x.2 s)) (GSt.empty, [])

theorem runT_fst (c : Cfg) (hist : List Step) : (runT c hist).1 = run c hist := by
  unfold runT run
  generalize GSt.empty = g0
  generalize ([] : List Expr) = e0
  induction hist generalizing g0 e0 with
  | nil => rfl
  | cons s rest ih => exact ih _ _

/-- value of a tree edge under an assignment of the VARIABLES -/
def evalL (l2v : List Nat) (ρ : Nat → Bool) (a : Edge) : Bool := a.eval (fun l => ρ (l2v.getD l l))

end OxiddModel.Bcdd.Global
