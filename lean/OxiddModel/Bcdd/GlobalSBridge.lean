import OxiddModel.Bcdd.GlobalS
import OxiddModel.Bcdd.PropertiesC05R
import OxiddModel.Reorder.PropertiesStoreC
import OxiddModel.Bdd.GlobalSBridge

/-!
# The bridge between `Bcdd.Rc.RStC` and `SwapStoreC.SStore`

As `Bdd/GlobalSBridge.lean`, for tagged edges. `toHeap_absC`: `toS` followed by `Heap.absC` is the
identity on the node array; `toS_inv`: `RcInv` + `ShapeInv` ⇒ `SwapStoreC.Inv` (including regular
then-edges, by construction of `toS`) for the handle multiset `extCnt hs`; `ofS_rc` / `ofS_shape`:
back.
-/
namespace OxiddModel.Bcdd.Global
open OxiddModel.Bcdd OxiddModel.Bcdd.Refine OxiddModel.Bcdd.Rc
open OxiddModel.Bdd.Refine (Policy OpTag Key Cache)
open OxiddModel.Bdd.Rc (rcGet rcSet)
open OxiddModel.Bdd.Global (sum_zero_of_all)
open OxiddModel.Reorder
open OxiddModel.Reorder.SwapStoreC (Heap SNode SStore)

/-- the handle multiset as the `ext` function of `SwapStoreC.Inv`: handles on slot `k`, whatever
their tag -/
def extOfHs (hs : List EdgeC) : Nat → Nat := fun k => extCnt hs k

theorem absS_eq (h : Heap) : absS h = h.absC := rfl

theorem get?_lt {s : StoreC} {i : Nat} {nd : NodeC} (h : s.get? i = some nd) : i < s.nodes.size := by
  apply Classical.byContradiction
  intro hlt
  simp [StoreC.get?, hlt] at h

theorem toHeap_get? (r : RStC) (i : Nat) :
    (toHeap r).get? i =
      (r.st.store.get? i).map fun nd => (⟨nd.level, ⟨false, nd.t⟩, nd.e, rcGet r.rc i⟩ : SNode) := by
  unfold toHeap Heap.get?
  simp only [List.getElem?_map]
  by_cases hi : i < r.st.store.nodes.size
  · simp [hi]
  · have : r.st.store.get? i = none := by simp [StoreC.get?, hi]
    simp [hi, this]

theorem toHeap_sh (r : RStC) (i : Nat) :
    (toHeap r).sh i =
      (r.st.store.get? i).map fun nd => (⟨nd.level, ⟨false, nd.t⟩, nd.e⟩ : SwapStoreC.Node) := by
  unfold Heap.sh
  rw [toHeap_get?]
  cases r.st.store.get? i <;> rfl

theorem toHeap_sh_some {r : RStC} {i : Nat} {n : SwapStoreC.Node} (h : (toHeap r).sh i = some n) :
    ∃ nd, r.st.store.get? i = some nd ∧ n = ⟨nd.level, ⟨false, nd.t⟩, nd.e⟩ := by
  rw [toHeap_sh] at h
  cases hg : r.st.store.get? i with
  | none => rw [hg] at h; cases h
  | some nd => rw [hg] at h; cases h; exact ⟨nd, rfl, rfl⟩

theorem toHeap_rcOf (r : RStC) (i : Nat) :
    (toHeap r).rcOf i = if (r.st.store.get? i).isSome then rcGet r.rc i else 0 := by
  unfold Heap.rcOf
  rw [toHeap_get?]
  cases r.st.store.get? i <;> rfl

theorem toHeap_absC (r : RStC) : (toHeap r).absC = r.st.store := by
  have h : ∀ i, (toHeap r).absC.get? i = r.st.store.get? i := fun i => by
    rw [SwapStoreC.absC_get?, toHeap_sh]
    cases r.st.store.get? i with
    | none => rfl
    | some nd => cases nd; rfl
  have hsz : (toHeap r).absC.nodes.size = r.st.store.nodes.size := by
    simp [Heap.absC, toHeap]
  cases hs : r.st.store with
  | mk nodes =>
    cases ha : (toHeap r).absC with
    | mk nodes' =>
      rw [hs, ha] at h hsz
      congr 1
      apply Array.ext hsz
      intro i h1 h2
      have := h i
      simp only [StoreC.get?, h1, h2, Array.getElem?_eq_getElem, Option.join_some] at this
      exact this

theorem refs_eq_parents (h : Heap) (i : Nat) : h.refs i = parents h.absC i := by
  unfold Heap.refs parents Heap.absC
  simp only [List.map_map]
  congr 1
  apply List.map_congr_left
  intro o _
  cases o with
  | none => rfl
  | some nd => simp [SwapStoreC.cntO, SwapStoreC.cntN, SwapStoreC.pt, refsOpt, cnt, cntT]

theorem toS_table (r : RStC) (n l : Nat) :
    (toS r n).table l = if l < n then tableOf r.st.store l else [] := by
  unfold SStore.table toS
  simp only [List.getD_eq_getElem?_getD, List.getElem?_map]
  by_cases hl : l < n <;> simp [hl]

theorem mem_tableOf {s : StoreC} {l i : Nat} :
    i ∈ tableOf s l ↔ ∃ nd, s.get? i = some nd ∧ nd.level = l := by
  unfold tableOf
  simp only [List.mem_filter, List.mem_range]
  constructor
  · rintro ⟨_, h⟩
    cases hg : s.get? i with
    | none => simp [hg] at h
    | some nd => exact ⟨nd, rfl, by simpa [hg] using h⟩
  · rintro ⟨nd, hg, hl⟩
    exact ⟨get?_lt hg, by simp [hg, hl]⟩

theorem parents_zero_of_free {r : RStC} {ext : List EdgeC} (h : RcInv r ext) {j : Nat}
    (hj : r.st.store.get? j = none) : parents r.st.store j = 0 := by
  unfold parents
  apply sum_zero_of_all
  intro x hx
  obtain ⟨o, ho, rfl⟩ := List.mem_map.mp hx
  cases o with
  | none => rfl
  | some nd =>
    obtain ⟨k, hk, hko⟩ := List.mem_iff_getElem.mp ho
    have hg : r.st.store.get? k = some nd := by
      have hk' : k < r.st.store.nodes.size := by simpa using hk
      simp only [StoreC.get?, hk', Array.getElem?_eq_getElem, Option.join_some]
      simpa using hko
    obtain ⟨h1, h2⟩ := h.kids_ok k nd hg
    have c1 : cntT nd.t j = 0 := by
      unfold cntT; split
      · rename_i heq; rw [heq] at h1; obtain ⟨m, hm⟩ := h1; rw [hj] at hm; cases hm
      · rfl
    have c2 : cnt nd.e j = 0 := by
      unfold cnt cntT; split
      · rename_i heq
        have : r.st.store.hasT nd.e.tgt := h2
        rw [heq] at this; obtain ⟨m, hm⟩ := this; rw [hj] at hm; cases hm
      · rfl
    simp [refsOpt, c1, c2]

/-- **`toS_inv`** -/
theorem toS_inv {r : RStC} {hs : List EdgeC} {n : Nat} (hrc : RcInv r hs) (ho : ShapeInv n r) :
    SwapStoreC.Inv (extOfHs hs) (toS r n) where
  tbl_iff l i := by
    rw [toS_table]
    show _ ↔ ∃ nd, (toHeap r).sh i = some nd ∧ nd.level = l
    by_cases hl : l < n
    · simp only [hl, if_true]
      rw [mem_tableOf]
      constructor
      · rintro ⟨nd, hg, hlv⟩
        exact ⟨_, by rw [toHeap_sh, hg]; rfl, hlv⟩
      · rintro ⟨nd', hg, hlv⟩
        obtain ⟨nd, hnd, rfl⟩ := toHeap_sh_some hg
        exact ⟨nd, hnd, hlv⟩
    · simp only [hl, if_false]
      constructor
      · intro h; cases h
      · rintro ⟨nd', hg, hlv⟩
        obtain ⟨nd, hnd, rfl⟩ := toHeap_sh_some hg
        have := ho.bound i nd hnd
        simp only at hlv
        omega
  tbl_nodup l := by
    rw [toS_table]
    split
    · exact List.Nodup.sublist List.filter_sublist List.nodup_range
    · exact List.nodup_nil
  ordered i nd' hi k hk := by
    change (toHeap r).sh i = some nd' at hi
    obtain ⟨nd, hnd, rfl⟩ := toHeap_sh_some hi
    show ∃ m, (toHeap r).sh k = some m ∧ _
    obtain ⟨h1, h2⟩ := hrc.kids_ok i nd hnd
    have hk' : nd.t = .inner k ∨ nd.e.tgt = .inner k := hk
    have : r.st.store.hasT (.inner k) := by
      rcases hk' with hk' | hk'
      · rw [hk'] at h1; exact h1
      · have : r.st.store.hasT nd.e.tgt := h2
        rw [hk'] at this; exact this
    obtain ⟨m, hm⟩ := this
    exact ⟨_, by rw [toHeap_sh, hm]; rfl, ho.ord i nd k m hnd hk' hm⟩
  nored i nd' hi := by
    change (toHeap r).sh i = some nd' at hi
    obtain ⟨nd, hnd, rfl⟩ := toHeap_sh_some hi
    exact ho.nored i nd hnd
  uniq i j nd' hi hj := by
    change (toHeap r).sh i = some nd' at hi
    change (toHeap r).sh j = some nd' at hj
    obtain ⟨a, ha, rfl⟩ := toHeap_sh_some hi
    obtain ⟨b, hb, hab⟩ := toHeap_sh_some hj
    have : a = b := by
      cases a; cases b
      simp only [SwapStoreC.Node.mk.injEq, EdgeC.mk.injEq, true_and] at hab
      simp [hab.1, hab.2.1, hab.2.2]
    subst this
    exact ho.uniq i j a ha hb
  thenReg i nd' hi := by
    change (toHeap r).sh i = some nd' at hi
    obtain ⟨nd, _, rfl⟩ := toHeap_sh_some hi
    rfl
  rc j := by
    show (toHeap r).rcOf j = SwapStoreC.live01 (toHeap r) j + extOfHs hs j + (toHeap r).refs j
    rw [toHeap_rcOf, refs_eq_parents, toHeap_absC]
    unfold SwapStoreC.live01
    rw [toHeap_sh]
    cases hg : r.st.store.get? j with
    | some nd =>
      simp only [Option.isSome_some, if_true, Option.map]
      rw [hrc.rc_eq j nd hg]; rfl
    | none =>
      simp only [Option.isSome_none, Option.map]
      have h1 : extOfHs hs j = 0 := by
        unfold extOfHs
        apply extCnt_zero_of_not_mem
        intro x hx htgt
        have := hrc.ext_ok x hx
        unfold StoreC.has at this
        rw [htgt] at this
        obtain ⟨m, hm⟩ := this
        rw [hg] at hm; cases hm
      rw [h1, parents_zero_of_free hrc hg]
      rfl

theorem toS_len (r : RStC) (n : Nat) : (toS r n).tables.length = n := by simp [toS]

/-! ## `ofS` -/

theorem ofS_rcGet (s : SStore) (tick i : Nat) : rcGet (ofS s tick).rc i = s.h.rcOf i := by
  unfold rcGet ofS Heap.rcOf Heap.get?
  simp only [Array.getD_eq_getD_getElem?, List.getElem?_toArray, List.getElem?_map]
  cases s.h.slots[i]? with
  | none => rfl
  | some o => cases o <;> rfl

theorem ofS_get? (s : SStore) (tick i : Nat) :
    (ofS s tick).st.store.get? i =
      (s.h.sh i).map fun n => (⟨n.level, n.t.tgt, n.e⟩ : NodeC) :=
  SwapStoreC.absC_get? s.h i

theorem ofS_get?_some {s : SStore} {tick i : Nat} {nd : NodeC}
    (h : (ofS s tick).st.store.get? i = some nd) :
    ∃ n, s.h.sh i = some n ∧ nd = ⟨n.level, n.t.tgt, n.e⟩ := by
  rw [ofS_get?] at h
  cases hs : s.h.sh i with
  | none => rw [hs] at h; cases h
  | some n => rw [hs] at h; cases h; exact ⟨n, rfl, rfl⟩

theorem extCnt_pos_of_mem {hs : List EdgeC} {e : EdgeC} {k : Nat} (he : e ∈ hs)
    (htg : e.tgt = .inner k) : 0 < extCnt hs k := by
  induction hs with
  | nil => cases he
  | cons x xs ih =>
    rw [extCnt_cons]
    rcases List.mem_cons.mp he with rfl | he
    · have : cnt e k = 1 := by simp [cnt, cntT, htg]
      omega
    · have := ih he; omega

theorem ofS_rc {s : SStore} {hs : List EdgeC} (hinv : SwapStoreC.Inv (extOfHs hs) s) (tick : Nat) :
    RcInv (ofS s tick) hs where
  ext_ok e he := by
    show (ofS s tick).st.store.hasT e.tgt
    cases htg : e.tgt with
    | term => trivial
    | inner k =>
      have hpos : 0 < extOfHs hs k := extCnt_pos_of_mem he htg
      have := hinv.live_of_ext hpos
      obtain ⟨nd, hnd⟩ := Option.ne_none_iff_exists'.mp this
      exact ⟨_, by rw [ofS_get?, hnd]; rfl⟩
  kids_ok i nd hi := by
    obtain ⟨n, hn, rfl⟩ := ofS_get?_some hi
    have key : ∀ c : Tgt, (n.t.tgt = c ∨ n.e.tgt = c) → (ofS s tick).st.store.hasT c := by
      intro c hc
      cases c with
      | term => trivial
      | inner k =>
        obtain ⟨m, hm, _⟩ := hinv.ordered i n hn k hc
        exact ⟨_, by rw [ofS_get?, hm]; rfl⟩
    exact ⟨key _ (Or.inl rfl), key _ (Or.inr rfl)⟩
  cache_ok _ _ h := by cases h
  rc_eq i nd hi := by
    obtain ⟨n, hn, rfl⟩ := ofS_get?_some hi
    rw [ofS_rcGet]
    have := hinv.rc i
    simp only [SwapStoreC.live01, hn, Option.isSome_some, if_true] at this
    rw [this, refs_eq_parents]
    rfl

theorem ofS_level_lt {ext : Nat → Nat} {s : SStore} (hinv : SwapStoreC.Inv ext s) {i : Nat}
    {n : SwapStoreC.Node} (hi : s.h.sh i = some n) : n.level < s.tables.length := by
  apply Classical.byContradiction
  intro hc
  have := (hinv.tbl_iff n.level i).mpr ⟨n, hi, rfl⟩
  rw [SwapStoreC.table_of_ge (by omega)] at this
  cases this

theorem ofS_shape {ext : Nat → Nat} {s : SStore} (hinv : SwapStoreC.Inv ext s) (tick : Nat) :
    ShapeInv s.tables.length (ofS s tick) where
  ord i nd j m hi hc hj := by
    obtain ⟨n, hn, rfl⟩ := ofS_get?_some hi
    obtain ⟨n', hn', rfl⟩ := ofS_get?_some hj
    obtain ⟨m', hm', hlt⟩ := hinv.ordered i n hn j hc
    rw [hn'] at hm'; cases hm'; exact hlt
  bound i nd hi := by
    obtain ⟨n, hn, rfl⟩ := ofS_get?_some hi
    exact ofS_level_lt hinv hn
  cache _ _ h := by cases h
  uniq := hinv.absC_unique
  nored i nd hi := by
    obtain ⟨n, hn, rfl⟩ := ofS_get?_some hi
    have h1 := hinv.nored i n hn
    have h2 := hinv.thenReg i n hn
    intro heq
    apply h1
    obtain ⟨l, ⟨tn, tt⟩, e⟩ := n
    simp only at h2 heq ⊢
    subst h2
    exact heq

end OxiddModel.Bcdd.Global
