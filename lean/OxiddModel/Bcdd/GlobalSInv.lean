import OxiddModel.Bcdd.GlobalSBridge
import OxiddModel.Bcdd.RcSHistoryInv
import OxiddModel.Bdd.GlobalSOrder

/-!
# BCDD global machine: the invariant, the meaning of handles, sizes, the order maps

As `Bdd/GlobalSInv.lean` + `Bdd/GlobalSOrder.lean` (whose list and order-map lemmas are reused).
-/
namespace OxiddModel.Bcdd.Global
open OxiddModel.Bcdd OxiddModel.Bcdd.Refine OxiddModel.Bcdd.Rc
open OxiddModel.Bdd.Refine (Policy OpTag Key Cache)
open OxiddModel.Bdd.Rc (rcGet rcSet)
open OxiddModel.Bdd.Global (All2 forall₂_length forall₂_get forall₂_getD forall₂_eraseIdx
  forall₂_imp_mem OrdOK getD_lt getD_ge ordOK_empty ordOK_addVars getD_append_range' fuelOf invPerm
  swapIdx_len foldl_l2v_len)
open OxiddModel.Reorder
open OxiddModel.Reorder.SwapStore (swapIdx)
open OxiddModel.Reorder.SwapStoreC (Heap SNode SStore Rules setVarOrderS RState levelSwapG step2)

theorem perm_cons_eraseIdx {l : List EdgeC} {a : Nat} {f : EdgeC} (h : l[a]? = some f) :
    (f :: l.eraseIdx a).Perm l := by
  induction l generalizing a with
  | nil => simp at h
  | cons y tl ih =>
    cases a with
    | zero => simp at h; subst h; simp
    | succ a =>
      simp at h
      simp only [List.eraseIdx_cons_succ]
      exact (List.Perm.swap y f _).trans ((ih h).cons y)

/-! ## the invariant -/

structure GInv (g : GSt) : Prop where
  /-- counters exact: `rc = 1 + handles (either tag) + stored parent edges`; no dangling edge -/
  rc : RcInv g.r g.hs
  /-- ordered, all levels `< n`, hash consed, reduced (then-edges regular by the node type) -/
  shape : ShapeInv g.n g.r
  /-- every cache entry is the result of its key -/
  cache : CacheOKC g.r.st.store g.r.st.cache
  /-- the var/level maps are mutually inverse -/
  perm : OrdOK g.n g.v2l g.l2v

theorem GInv.invC {g : GSt} (h : GInv g) : InvC g.r.st := ⟨h.shape.uniq, h.cache⟩

def HDen (s : StoreC) (l2v : List Nat) (x : EdgeC) (e : Expr) : Prop :=
  ∃ a, DenotesC s x a ∧ ∀ ρ, evalL l2v ρ a = e.fn ρ

def Sem (g : GSt) (es : List Expr) : Prop := All2 (HDen g.r.st.store g.l2v) g.hs es

theorem HDen.mono {s s' : StoreC} {l2v : List Nat} {x : EdgeC} {e : Expr} (h : HDen s l2v x e)
    (hle : s.Le s') : HDen s' l2v x e := by
  obtain ⟨a, hd, he⟩ := h
  exact ⟨a, hd.mono hle, he⟩

theorem GInv.sinv {g : GSt} (h : GInv g) : SwapStoreC.Inv (extOfHs g.hs) (toS g.r g.n) :=
  toS_inv h.rc h.shape

theorem GInv.nf {g : GSt} (h : GInv g) {x : EdgeC} {a : Edge} (hd : DenotesC g.r.st.store x a) :
    a.NF 0 := by
  have hd' : DenN (toS g.r g.n).h.absC x.tgt a.n := by
    show DenN (toHeap g.r).absC _ _
    rw [toHeap_absC]; exact hd.2
  have := h.sinv.nfN hd'
  exact ⟨this.1 0 (fun _ _ _ _ => Nat.zero_le _), this.2⟩

/-! ## levels and sizes -/

def LvlLt (n : Nat) : CNode → Prop
  | .top => True
  | .node l t _ e => l < n ∧ LvlLt n t ∧ LvlLt n e

theorem denN_lvlLt {s : StoreC} {n : Nat} (hb : ∀ i nd, s.get? i = some nd → nd.level < n)
    {x : Tgt} {a : CNode} (hd : DenN s x a) : LvlLt n a := by
  induction hd with
  | term => trivial
  | inner hi _ _ iht ihe => exact ⟨hb _ _ hi, iht, ihe⟩

theorem GInv.lvl {g : GSt} (h : GInv g) {x : EdgeC} {a : Edge} (hd : DenotesC g.r.st.store x a) :
    LvlLt g.n a.n := denN_lvlLt h.shape.bound hd.2

theorem size_lt_of_ordered {n : Nat} : ∀ {t : CNode} {k : Nat}, CNode.Ordered k t → LvlLt n t →
    t.size + 1 ≤ 2 ^ (n - k + 1) := by
  intro t
  induction t with
  | top =>
    intro k _ _
    have : 2 ^ 1 ≤ 2 ^ (n - k + 1) := Nat.pow_le_pow_right (by omega) (by omega)
    simp [CNode.size]; omega
  | node l a en b iha ihb =>
    intro k ho hl
    cases ho with
    | node hkl hoa hob =>
      obtain ⟨hln, hla, hlb⟩ := hl
      have h1 := iha hoa hla
      have h2 := ihb hob hlb
      have e : n - (l + 1) + 1 = n - l := by omega
      rw [e] at h1 h2
      have h3 : 2 ^ (n - l + 1) ≤ 2 ^ (n - k + 1) := Nat.pow_le_pow_right (by omega) (by omega)
      have h4 : 2 ^ (n - l + 1) = 2 * 2 ^ (n - l) := by rw [Nat.pow_succ]; omega
      simp only [CNode.size]
      omega

theorem GInv.size_lt {g : GSt} (h : GInv g) {x : EdgeC} {a : Edge}
    (hd : DenotesC g.r.st.store x a) : a.size < 2 ^ (g.n + 1) := by
  have := size_lt_of_ordered (h.nf hd).1 (h.lvl hd)
  simp only [Nat.sub_zero] at this
  unfold Edge.size
  omega

theorem fuel2 {g : GSt} (h : GInv g) {x y : EdgeC} {t u : Edge} (hx : DenotesC g.r.st.store x t)
    (hy : DenotesC g.r.st.store y u) : t.size + u.size ≤ fuelOf g.n := by
  have := h.size_lt hx; have := h.size_lt hy; unfold fuelOf; omega

theorem fuel3 {g : GSt} (h : GInv g) {x y z : EdgeC} {t u w : Edge} (hx : DenotesC g.r.st.store x t)
    (hy : DenotesC g.r.st.store y u) (hz : DenotesC g.r.st.store z w) :
    t.size + u.size + w.size ≤ fuelOf g.n := by
  have := h.size_lt hx; have := h.size_lt hy; have := h.size_lt hz; unfold fuelOf; omega

/-! ## evaluation under the order -/

theorem eval_congr_lvl {n : Nat} {σ σ' : Nat → Bool} (h : ∀ l, l < n → σ l = σ' l) :
    ∀ {t : CNode}, LvlLt n t → t.eval σ = t.eval σ' := by
  intro t
  induction t with
  | top => intro _; rfl
  | node l a en b iha ihb =>
    intro hl
    obtain ⟨hln, hla, hlb⟩ := hl
    simp only [CNode.eval, h l hln, iha hla, ihb hlb]

theorem evalL_eq_zero {n : Nat} {l2v : List Nat} (hlen : l2v.length = n) (ρ : Nat → Bool) {a : Edge}
    (hl : LvlLt n a.n) : evalL l2v ρ a = a.eval (fun l => ρ (l2v.getD l 0)) := by
  unfold evalL Edge.eval
  rw [eval_congr_lvl (fun l hln => by rw [getD_lt (d' := 0) (hlen ▸ hln)]) hl]

theorem evalL_addVars (l2v : List Nat) (k : Nat) (ρ : Nat → Bool) (a : Edge) :
    evalL (l2v ++ List.range' l2v.length k) ρ a = evalL l2v ρ a := by
  unfold evalL
  congr 1
  funext l
  rw [getD_append_range']

theorem eval_of_evalL {n : Nat} {v2l l2v : List Nat} (h : OrdOK n v2l l2v) {t t' : Edge}
    (he : ∀ ρ, evalL l2v ρ t = evalL l2v ρ t') (σ : Nat → Bool) : t.eval σ = t'.eval σ := by
  have key : (fun l => (fun v => σ (v2l.getD v v)) (l2v.getD l l)) = σ := by
    funext l; simp only [h.v2l_l2v l]
  have := he (fun v => σ (v2l.getD v v))
  unfold evalL at this
  rw [key] at this
  exact this

/-! ## `set_var_order` keeps the length of the level→variable map -/

theorem levelSwapG_l2v_len (ru : Rules) (al : Heap → Nat) (ord : List Nat → List Nat) (r : RState)
    (u l : Nat) : (levelSwapG ru al ord r u l).l2v.length = r.l2v.length := by
  simp [levelSwapG, swapIdx_len]

theorem foldlC_l2v_len {F : RState → Nat → RState} (hF : ∀ r i, (F r i).l2v.length = r.l2v.length) :
    ∀ (is : List Nat) (r : RState), (is.foldl F r).l2v.length = r.l2v.length := by
  intro is
  induction is with
  | nil => intro r; rfl
  | cons i is ih => intro r; simp only [List.foldl_cons]; rw [ih, hF]

theorem step2_l2v_len : ∀ (fuel i : Nat) (r : RState) (tgt : List Nat),
    (step2 fuel i r tgt).l2v.length = r.l2v.length
  | 0, _, _, _ => rfl
  | fuel + 1, i, r, tgt => by
    unfold step2
    split
    · rfl
    · split
      · exact step2_l2v_len fuel _ _ _
      · rw [step2_l2v_len fuel]; simp [swapIdx_len]

theorem setVarOrderS_l2v_len (ru : Rules) (al : Heap → Nat) (ord : List Nat → List Nat) (s : SStore)
    (l2v order : List Nat) : (setVarOrderS ru al ord s l2v order).2.length = l2v.length := by
  have key : ∀ (k : Nat) (r1 : RState × List Nat × Bool), r1.1.l2v.length = l2v.length →
      (if r1.2.2 then r1.1 else step2 k 0 r1.1 r1.2.1).l2v.length = l2v.length := by
    intro k r1 h
    split
    · exact h
    · rw [step2_l2v_len]; exact h
  unfold setVarOrderS
  simp only
  split
  · rfl
  · apply key
    split
    · split
      · exact foldlC_l2v_len (fun r i => levelSwapG_l2v_len ru al ord r _ _) _ _
      · exact foldlC_l2v_len (fun r i => levelSwapG_l2v_len ru al ord r _ _) _ _
    · rfl

end OxiddModel.Bcdd.Global
