import OxiddModel.Bcdd.GlobalSInv

/-!
# BCDD global machine: every step keeps the invariant and the meaning of every handle

`step_inv`, as in `Bdd/GlobalSSteps.lean`. The operation steps use `Bcdd/RcSLemmas*`
(`applyOpR_rc`, `applyOpR_ord`, `applyOpR_fail_inv`, …) and, for successful runs,
`C05R.applyR_correct` / `iteR_correct` (erasure to `applyOpS` / `iteS`, `Bcdd.PropertiesC06`);
`setVarOrder` goes through the bridge to `SwapStoreC.setVarOrderC_correct`.
-/
namespace OxiddModel.Bcdd.Global
open OxiddModel.Bcdd OxiddModel.Bcdd.Refine OxiddModel.Bcdd.Rc
open OxiddModel.Bdd.Refine (Policy OpTag Key Cache)
open OxiddModel.Bdd.Rc (rcGet rcSet)
open OxiddModel.Bdd.Global (All2 forall₂_length forall₂_get forall₂_getD forall₂_eraseIdx
  forall₂_imp_mem OrdOK getD_lt getD_ge ordOK_empty ordOK_addVars fuelOf invPerm ordOK_of_bij)
open OxiddModel.Reorder
open OxiddModel.Reorder.SwapStoreC (Heap SNode SStore Rules setVarOrderS)

theorem getD_mem {l : List Nat} {i : Nat} (h : i < l.length) : l.getD i 0 ∈ l := by
  rw [List.getD_eq_getElem?_getD, List.getElem?_eq_getElem h, Option.getD_some]
  exact List.getElem_mem _

structure OpPost (g : GSt) (res : Option EdgeC × RStC) (e : Expr) : Prop where
  rc : match res with
    | (some x, r') => RcInv r' (x :: g.hs)
    | (none, r') => RcInv r' g.hs
  shape : ShapeInv g.n res.2
  cache : CacheOKC res.2.st.store res.2.st.cache
  le : g.r.st.store.Le res.2.st.store
  den : ∀ x, res.1 = some x → HDen res.2.st.store g.l2v x e

def pushE (es : List Expr) (e : Expr) : Option (Option EdgeC × RStC) → List Expr
  | some (some _, _) => e :: es
  | _ => es

theorem pushOp_inv {g : GSt} {es : List Expr} {res : Option EdgeC × RStC} {e : Expr} (hi : GInv g)
    (hs : Sem g es) (hp : OpPost g res e) :
    GInv (pushOp g (some res)) ∧ Sem (pushOp g (some res)) (pushE es e (some res)) := by
  obtain ⟨o, r'⟩ := res
  have hmono : All2 (HDen r'.st.store g.l2v) g.hs es :=
    forall₂_imp_mem hs (fun x y _ h => h.mono hp.le)
  cases o with
  | none => exact ⟨⟨hp.rc, hp.shape, hp.cache, hi.perm⟩, hmono⟩
  | some x => exact ⟨⟨hp.rc, hp.shape, hp.cache, hi.perm⟩, .cons (hp.den x rfl) hmono⟩

/-- `var(v)` / `not_var(v)` -/
theorem var_post {g : GSt} (hi : GInv g) (cap v : Nat) (neg : Bool) (hv : v < g.n) :
    OpPost g (varR cap g.r (g.v2l.getD v 0) neg) (.var v neg) := by
  have hlv := (hi.perm.vl v hv).1
  have hrc := varR_rc (cap := cap) (level := g.v2l.getD v 0) (neg := neg) hi.rc
  have hord := varR_ord (cap := cap) (neg := neg) hi.rc hi.shape hlv
  have hinv := mkNodeR_inv (cap := cap) (l := g.v2l.getD v 0) (t := termC true) (e := termC false)
    hi.invC
  have hst : (varR cap g.r (g.v2l.getD v 0) neg).2 =
      (mkNodeR cap g.r (g.v2l.getD v 0) (termC true) (termC false)).2 := by
    unfold varR; simp only; split <;> rfl
  refine ⟨hrc.2, hord.1, by rw [hst]; exact hinv.2, hrc.1, ?_⟩
  intro x hx
  rw [hst]
  obtain ⟨_, _, hm⟩ := mkNodeR_erase cap g.r (g.v2l.getD v 0) (termC true) (termC false)
  have hden := mkNodeC_denotes g.r.st.store (g.v2l.getD v 0) (termC true) (termC false)
    (terminal true) (terminal false) (DenotesC.term _ true) (DenotesC.term _ false) hi.shape.uniq
  have hev : ∀ ρ, evalL g.l2v ρ (mk (g.v2l.getD v 0) (terminal true) (terminal false)) = ρ v := by
    intro ρ
    have hl := hi.perm.l2v_v2l hv
    have hmk : mk (g.v2l.getD v 0) (terminal true) (terminal false) =
        ⟨false, .node (g.v2l.getD v 0) .top true .top⟩ := by simp [mk, terminal]
    unfold evalL
    rw [hmk]
    simp only [Edge.eval, CNode.eval, hl]
    cases ρ v <;> rfl
  cases hR : (mkNodeR cap g.r (g.v2l.getD v 0) (termC true) (termC false)).1 with
  | none =>
    exfalso
    have : (varR cap g.r (g.v2l.getD v 0) neg).1 = none := by
      unfold varR
      simp only
      split
      · simp only [mapNot, hR, Option.map_none]
      · exact hR
    rw [this] at hx; cases hx
  | some h =>
    rw [hR] at hm
    simp only at hm
    rw [hm] at hden
    simp only at hden
    unfold varR at hx
    simp only at hx
    cases neg with
    | true =>
      simp only [if_true, mapNot, hR, Option.map_some, Option.some.injEq] at hx
      subst hx
      refine ⟨_, hden.not, fun ρ => ?_⟩
      have := hev ρ
      unfold evalL at this ⊢
      rw [applyNot_eval, this]; rfl
    | false =>
      simp only [Bool.false_eq_true, if_false, hR, Option.some.injEq] at hx
      subst hx
      exact ⟨_, hden, fun ρ => by rw [hev ρ]; rfl⟩

/-- `not` -/
theorem not_post {g : GSt} (hi : GInv g) {f : EdgeC} {ef : Expr} (hf : f ∈ g.hs)
    (hdf : HDen g.r.st.store g.l2v f ef) : OpPost g (notR g.r f) (.not ef) := by
  obtain ⟨tf, hdf, hef⟩ := hdf
  have hrc := notR_rc hi.rc (hi.rc.ext_ok f hf)
  refine ⟨hrc.2, hi.shape.of_st (cloneEdge_st _ _), ?_, hrc.1, ?_⟩
  · show CacheOKC (cloneEdge g.r f).st.store (cloneEdge g.r f).st.cache
    rw [cloneEdge_st]; exact hi.cache
  · intro x hx
    simp only [notR, Option.some.injEq] at hx
    subst hx
    show HDen (cloneEdge g.r f).st.store _ _ _
    rw [cloneEdge_st]
    refine ⟨_, hdf.not, fun ρ => ?_⟩
    have := hef ρ
    unfold evalL at this ⊢
    rw [applyNot_eval, this]; rfl

/-- the eight binary operators -/
theorem bin_post {c : Cfg} (hc : c.OK) {g : GSt} (hi : GInv g) (cap : Nat) (op : Op) {f h : EdgeC}
    {ef eh : Expr} (hf : f ∈ g.hs) (hh : h ∈ g.hs) (hdf : HDen g.r.st.store g.l2v f ef)
    (hdh : HDen g.r.st.store g.l2v h eh) :
    OpPost g (applyOpR cap c.p op (fuelOf g.n) g.r f h) (.bin op ef eh) := by
  obtain ⟨tf, hdf, hef⟩ := hdf
  obtain ⟨th, hdh, heh⟩ := hdh
  have hfu := fuel2 hi hdf hdh
  have hrc := applyOpR_rc hc.p cap op (fuelOf g.n) g.r f h g.hs hi.rc (hi.rc.ext_ok f hf)
    (hi.rc.ext_ok h hh)
  have hord := applyOpR_ord hc.p g.n cap op (fuelOf g.n) g.r f h g.hs 0 hi.rc hi.shape
    (has_above_zero (hi.rc.ext_ok f hf)) (has_above_zero (hi.rc.ext_ok h hh))
  have hinv := applyOpR_fail_inv hc.p cap op (fuelOf g.n) g.r f h tf th hi.invC hdf hdh hfu
  refine ⟨hrc.2, hord.1, hinv.2, hrc.1, ?_⟩
  intro x hx
  have hD := (C05R.applyR_correct hc.p cap op (fuelOf g.n) g.r f h tf th x hi.invC hdf hdh hfu hx).1
  refine ⟨_, hD, fun ρ => ?_⟩
  unfold evalL at hef heh ⊢
  rw [applyOp_eval, hef, heh]; rfl

/-- `ite` -/
theorem ite_post {c : Cfg} (hc : c.OK) {g : GSt} (hi : GInv g) (cap : Nat) {f h k : EdgeC}
    {ef eh ek : Expr} (hf : f ∈ g.hs) (hh : h ∈ g.hs) (hk : k ∈ g.hs)
    (hdf : HDen g.r.st.store g.l2v f ef) (hdh : HDen g.r.st.store g.l2v h eh)
    (hdk : HDen g.r.st.store g.l2v k ek) :
    OpPost g (iteR cap c.p (fuelOf g.n) g.r f h k) (.ite ef eh ek) := by
  obtain ⟨tf, hdf, hef⟩ := hdf
  obtain ⟨th, hdh, heh⟩ := hdh
  obtain ⟨tk, hdk, hek⟩ := hdk
  have hfu := fuel3 hi hdf hdh hdk
  have hrc := iteR_rc hc.p cap (fuelOf g.n) g.r f h k g.hs hi.rc (hi.rc.ext_ok f hf)
    (hi.rc.ext_ok h hh) (hi.rc.ext_ok k hk)
  have hord := iteR_ord hc.p g.n cap (fuelOf g.n) g.r f h k g.hs 0 hi.rc hi.shape
    (has_above_zero (hi.rc.ext_ok f hf)) (has_above_zero (hi.rc.ext_ok h hh))
    (has_above_zero (hi.rc.ext_ok k hk))
  have hinv := iteR_fail_inv hc.p cap (fuelOf g.n) g.r f h k tf th tk hi.invC hdf hdh hdk hfu
  refine ⟨hrc.2, hord.1, hinv.2, hrc.1, ?_⟩
  intro x hx
  have hD := (C05R.iteR_correct hc.p cap (fuelOf g.n) g.r f h k tf th tk x hi.invC hdf hdh hdk hfu
    hx).1
  refine ⟨_, hD, fun ρ => ?_⟩
  unfold evalL at hef heh hek ⊢
  rw [applyIte_eval, hef, heh, hek]; rfl

/-! ## `gc`, `add_vars` -/

theorem gc_inv {g : GSt} {es : List Expr} (hi : GInv g) (hs : Sem g es) :
    GInv { g with r := gcR g.n g.r, gcCount := g.gcCount + 1 } ∧
    Sem { g with r := gcR g.n g.r, gcCount := g.gcCount + 1 } es := by
  obtain ⟨h1, h2, _, _, h5⟩ := C05R.gcR_sound g.n g.r g.hs hi.rc
  refine ⟨⟨h1, gcR_ord g.n hi.shape, ?_, hi.perm⟩, ?_⟩
  · show CacheOKC _ (gcR g.n g.r).st.cache
    rw [h2]; exact CacheOKC.nil _
  · refine forall₂_imp_mem hs (fun x e hx hd => ?_)
    obtain ⟨t, hd, he⟩ := hd
    exact ⟨t, h5 x t hx hd, he⟩

theorem addVars_inv {g : GSt} {es : List Expr} (hi : GInv g) (hs : Sem g es) (k : Nat) :
    GInv { g with n := g.n + k, v2l := g.v2l ++ List.range' g.n k, l2v := g.l2v ++ List.range' g.n k } ∧
    Sem { g with n := g.n + k, v2l := g.v2l ++ List.range' g.n k,
                 l2v := g.l2v ++ List.range' g.n k } es := by
  refine ⟨⟨hi.rc, ⟨hi.shape.ord, fun i nd h => ?_, hi.shape.cache, hi.shape.uniq, hi.shape.nored⟩,
    hi.cache, ordOK_addVars hi.perm k⟩, ?_⟩
  · have := hi.shape.bound i nd h
    show nd.level < g.n + k
    omega
  · refine forall₂_imp_mem hs (fun x e _ hd => ?_)
    obtain ⟨t, hd, he⟩ := hd
    refine ⟨t, hd, fun ρ => ?_⟩
    show evalL (g.l2v ++ List.range' g.n k) ρ t = _
    have := evalL_addVars g.l2v k ρ t
    rw [hi.perm.lenL] at this
    rw [this]; exact he ρ

/-! ## `set_var_order` -/

theorem reorder_inv {c : Cfg} (hc : c.OK) {g : GSt} {es : List Expr} (hi : GInv g) (hs : Sem g es)
    (order : List Nat) : GInv (reorder c g order) ∧ Sem (reorder c g order) es := by
  unfold reorder
  split
  · exact ⟨hi, hs⟩
  · rename_i hcond
    simp only [Bool.or_eq_true, Bool.not_eq_true', decide_eq_true_eq, not_or] at hcond
    obtain ⟨⟨_, hvalid⟩, _⟩ := hcond
    have hvalid : reorderValid g order = true := by
      cases hv : reorderValid g order
      · exact absurd hv hvalid
      · rfl
    simp only [reorderValid, Bool.and_eq_true, decide_eq_true_eq, List.all_eq_true] at hvalid
    obtain ⟨hnd, hrange⟩ := hvalid
    have hL := hi.perm.lenL
    have hmem : ∀ v ∈ order, v ∈ g.l2v := by
      intro v hv
      have hvn := hrange v hv
      obtain ⟨h2, h3⟩ := hi.perm.vl v hvn
      rw [← h3]
      exact getD_mem (hL ▸ h2)
    have sinv := hi.sinv
    have hlen : g.l2v.length = (toS g.r g.n).tables.length := by rw [toS_len]; exact hL
    rw [setVarOrderK_eq]
    have hcor := SwapStoreC.setVarOrderC_correct hc.al hc.ord sinv g.l2v order hlen hnd hmem
    obtain ⟨h1, h2⟩ := SwapStoreC.order_levels_ok hnd hmem
    rw [hlen] at h2
    have hspec := SwapStoreC.setVarOrderS_spec hc.al hc.ord sinv g.l2v order hlen h1 h2
    obtain ⟨htlen, htlt, htnd⟩ := sortOrder_perm (toS g.r g.n).tables.length _ h1 h2
    have hreslen := setVarOrderS_l2v_len Rules.bcdd c.al c.ord (toS g.r g.n) g.l2v order
    generalize hres : setVarOrderS Rules.bcdd c.al c.ord (toS g.r g.n) g.l2v order = res
      at hcor hspec hreslen
    generalize htg : sortOrder (toS g.r g.n).tables.length (order.map fun v => g.l2v.idxOf v) = target
      at hspec htlen htlt htnd
    rw [toS_len] at htlen htlt hspec
    obtain ⟨⟨hinv', hlen'⟩, _, hden⟩ := hcor
    rw [toS_len] at hlen'
    have hgetD : ∀ a (ha : a < g.n), target.getD a 0 = target[a]'(htlen ▸ ha) :=
      fun a ha => by simp [List.getD_eq_getElem?_getD, List.getElem?_eq_getElem (htlen ▸ ha)]
    have htlt' : ∀ a, a < g.n → target.getD a 0 < g.n := fun a ha => by
      rw [hgetD a ha]; exact htlt _ (List.getElem_mem _)
    have htinj : ∀ a b, a < g.n → b < g.n → target.getD a 0 = target.getD b 0 → a = b := by
      intro a b ha hb e
      rw [hgetD a ha, hgetD b hb] at e
      have hpw := List.pairwise_iff_getElem.mp (List.nodup_iff_pairwise_ne.mp htnd)
      rcases Nat.lt_trichotomy a b with c | c | c
      · exact absurd e (hpw a b _ _ c)
      · exact c
      · exact absurd e.symm (hpw b a _ _ c)
    have hperm : OrdOK g.n (invPerm g.n res.2) res.2 := by
      obtain ⟨lab, hlab⟩ := hspec.placed
      refine ordOK_of_bij (by rw [hreslen]; exact hL) ?_ ?_ ?_
      · intro p hp
        obtain ⟨a1, _, a3⟩ := hlab p hp
        rw [a3]; exact (hi.perm.lv _ a1).1
      · intro p q hp hq e
        obtain ⟨a1, a2, a3⟩ := hlab p hp
        obtain ⟨b1, b2, b3⟩ := hlab q hq
        rw [a3, b3] at e
        have : lab.getD p 0 = lab.getD q 0 := by
          rw [← (hi.perm.lv _ a1).2, ← (hi.perm.lv _ b1).2, e]
        rw [← a2, ← b2, this]
      · intro v hv
        obtain ⟨a1, a2⟩ := hi.perm.vl v hv
        exact ⟨target.getD (g.v2l.getD v 0) 0, htlt' _ a1, by
          rw [hspec.placed' htlt' htinj a1]; exact a2⟩
    have hshape' := ofS_shape hinv' g.r.st.tick
    rw [hlen'] at hshape'
    refine ⟨⟨ofS_rc hinv' _, hshape', CacheOKC.nil _, hperm⟩, ?_⟩
    refine forall₂_imp_mem hs (fun x e hx hd => ?_)
    obtain ⟨t, hd, he⟩ := hd
    obtain ⟨xn, xt⟩ := x
    cases xt with
    | term =>
      obtain ⟨tneg, tn⟩ := t
      have h2 : DenN g.r.st.store .term tn := hd.2
      cases h2
      exact ⟨⟨tneg, .top⟩, ⟨hd.1, .term⟩, he⟩
    | inner k =>
      have hd0 : DenotesC (toS g.r g.n).h.absC ⟨xn, .inner k⟩ t := by
        show DenotesC (toHeap g.r).absC _ _
        rw [toHeap_absC]; exact hd
      obtain ⟨t', hd', _, hev⟩ := hden xn k t (extCnt_pos_of_mem hx rfl) hd0
      refine ⟨t', hd', fun ρ => ?_⟩
      have hl' : LvlLt g.n t'.n := denN_lvlLt hshape'.bound hd'.2
      show evalL res.2 ρ t' = _
      rw [evalL_eq_zero (by rw [hreslen]; exact hL) ρ hl', hev ρ, ← he ρ,
        evalL_eq_zero hL ρ (hi.lvl hd)]

/-! ## all steps -/

theorem step_inv {c : Cfg} (hc : c.OK) {g : GSt} {es : List Expr} (hi : GInv g) (hs : Sem g es)
    (s : Step) : GInv (step c g s) ∧ Sem (step c g s) (track c g es s) := by
  cases s with
  | var cap v neg =>
    simp only [step, track, opRes]
    by_cases hv : v < g.n
    · simp only [hv, if_true]
      have := pushOp_inv hi hs (var_post hi cap v neg hv)
      cases hR : varR cap g.r (g.v2l.getD v 0) neg with
      | mk o r' => rw [hR] at this; cases o <;> exact this
    · simp only [hv, if_false]; exact ⟨hi, hs⟩
  | not a =>
    simp only [step, track, opRes]
    cases ha : g.hs[a]? with
    | none => exact ⟨hi, hs⟩
    | some f =>
      simp only
      have := pushOp_inv hi hs (not_post hi (List.mem_of_getElem? ha) (forall₂_getD hs ha))
      cases hR : notR g.r f with
      | mk o r' => rw [hR] at this; cases o <;> exact this
  | bin cap op a b =>
    simp only [step, track, opRes]
    cases ha : g.hs[a]? with
    | none => exact ⟨hi, hs⟩
    | some f =>
      cases hb : g.hs[b]? with
      | none => exact ⟨hi, hs⟩
      | some h =>
        simp only
        have := pushOp_inv hi hs (bin_post hc hi cap op (List.mem_of_getElem? ha)
          (List.mem_of_getElem? hb) (forall₂_getD hs ha) (forall₂_getD hs hb))
        cases hR : applyOpR cap c.p op (fuelOf g.n) g.r f h with
        | mk o r' => rw [hR] at this; cases o <;> exact this
  | ite cap a b d =>
    simp only [step, track, opRes]
    cases ha : g.hs[a]? with
    | none => exact ⟨hi, hs⟩
    | some f =>
      cases hb : g.hs[b]? with
      | none => exact ⟨hi, hs⟩
      | some h =>
        cases hd : g.hs[d]? with
        | none => exact ⟨hi, hs⟩
        | some k =>
          simp only
          have := pushOp_inv hi hs (ite_post hc hi cap (List.mem_of_getElem? ha)
            (List.mem_of_getElem? hb) (List.mem_of_getElem? hd) (forall₂_getD hs ha)
            (forall₂_getD hs hb) (forall₂_getD hs hd))
          cases hR : iteR cap c.p (fuelOf g.n) g.r f h k with
          | mk o r' => rw [hR] at this; cases o <;> exact this
  | clone a =>
    simp only [step, track]
    cases ha : g.hs[a]? with
    | none =>
      have : ¬ a < g.hs.length := fun h => by simp [List.getElem?_eq_getElem h] at ha
      simp only [this, if_false]; exact ⟨hi, hs⟩
    | some f =>
      have hlt : a < g.hs.length := by
        apply Classical.byContradiction; intro h
        rw [List.getElem?_eq_none (Nat.le_of_not_lt h)] at ha; cases ha
      simp only [hlt, if_true]
      have hmem := List.mem_of_getElem? ha
      refine ⟨⟨cloneEdge_rc hi.rc (hi.rc.ext_ok f hmem), hi.shape.of_st (cloneEdge_st _ _), ?_,
        hi.perm⟩, ?_⟩
      · show CacheOKC (cloneEdge g.r f).st.store (cloneEdge g.r f).st.cache
        rw [cloneEdge_st]; exact hi.cache
      · show All2 (HDen (cloneEdge g.r f).st.store g.l2v) (f :: g.hs) _
        rw [cloneEdge_st]
        exact .cons (forall₂_getD hs ha) hs
  | drop a =>
    simp only [step, track]
    cases ha : g.hs[a]? with
    | none =>
      have hge : g.hs.length ≤ a := by
        apply Classical.byContradiction; intro h
        simp [List.getElem?_eq_getElem (Nat.lt_of_not_le h)] at ha
      have : es.eraseIdx a = es := List.eraseIdx_of_length_le (by rw [forall₂_length hs]; exact hge)
      rw [this]; exact ⟨hi, hs⟩
    | some f =>
      have hrc : RcInv (dropEdge g.r f) (g.hs.eraseIdx a) :=
        dropEdge_rc (hi.rc.perm (perm_cons_eraseIdx ha).symm)
      refine ⟨⟨hrc, hi.shape.of_st (dropEdge_st _ _), ?_, hi.perm⟩, ?_⟩
      · show CacheOKC (dropEdge g.r f).st.store (dropEdge g.r f).st.cache
        rw [dropEdge_st]; exact hi.cache
      · show All2 (HDen (dropEdge g.r f).st.store g.l2v) (g.hs.eraseIdx a) _
        rw [dropEdge_st]
        exact forall₂_eraseIdx hs a
  | gc => exact gc_inv hi hs
  | addVars k => exact addVars_inv hi hs k
  | setVarOrder order => exact reorder_inv hc hi hs order

end OxiddModel.Bcdd.Global
