import OxiddModel.Bcdd.KeysCX
import OxiddModel.Bcdd.HistoryS

/-!
# Histories over all cached BCDD operations: every result is the specified tree edge, whatever
the cache does

`Bcdd/HistoryS.lean` treats histories of `not`/`bin`/`ite` whose operands are fixed edges and shows
that results *and stores* are independent of the cache. With `quant`, `apply_quant` and
`substitute` the slot in which a new node is allocated may depend on cache hits (a hit skips the
creation of intermediate results), so a later command cannot name an earlier result by its slot.
Here operands are **registers**: register `i` is the `i`-th entry of the list consisting of the
initial edges followed by the results of the commands executed so far. The reference semantics
`runAllCT` computes the same history on tree edges with the tree-level functions of
`Bcdd/Model.lean`.

`historyCX_spec`: for every history there is a fuel bound `N` (depending on the denoted trees only)
such that every run — any admissible policy, any eviction choices at the `cacheOp` points, any
sound initial cache, any hash-consed initial store whose registers denote the given tree edges —
keeps `Unique ∧ CacheOKCX` (and `NoRed`), only extends the store, and ends with registers denoting
exactly `runAllCT`. `historyCX_transparent`: two such runs (even from different stores) yield,
register by register, edges denoting the same tree edges; in a common hash-consed extension of the
two final stores the register lists are equal edge by edge.

Substitution ids: a `subst id pairs f` command is valid only if `reg id` is the vector prepared
from `pairs` (`ValidCT`), i.e. along the history an id is used for one substitution only.
-/
namespace OxiddModel.Bcdd.Refine
open OxiddModel.Bcdd OxiddModel.Bcdd.CNode
open OxiddModel.Bdd.Refine (Policy OpTag Key Cache)

inductive CmdCX where
  | not (f : Nat)
  | bin (op : Op) (f g : Nat)
  | ite (f g h : Nat)
  /-- `forall_edge` / `exists_edge` / `unique_edge` -/
  | quant (q : Quant) (f vars : Nat)
  /-- `apply_forall_edge` / `apply_exists_edge` / `apply_unique_edge` with any of the eight
  connectives (through the dispatch tables) -/
  | applyQuant (q : Quant) (op : Op) (f g vars : Nat)
  | restrict (f vars : Nat)
  /-- `substitute_edge` with the pairs `(level, register)` and substitution id `id` -/
  | subst (id : Nat) (pairs : List (Nat × Nat)) (f : Nat)
  /-- the cache may drop entries here (which ones is decided by the run's `ev n`) -/
  | cacheOp (n : Nat)
deriving Repr

/-- register access (out of range: ⊥) -/
def regEC (env : List EdgeC) (i : Nat) : EdgeC := env.getD i (termC false)
def regTC (envT : List Edge) (i : Nat) : Edge := envT.getD i (terminal false)

theorem regC_denotes {s : StoreC} {env : List EdgeC} {envT : List Edge} (h : DenotesLC s env envT)
    (i : Nat) : DenotesC s (regEC env i) (regTC envT i) := by
  induction h generalizing i with
  | nil => simp only [regEC, regTC, List.getD_nil]; exact DenotesC.term s false
  | cons hd _ ih =>
    cases i with
    | zero => simpa [regEC, regTC] using hd
    | succ i => simpa [regEC, regTC] using ih i

theorem DenotesLC.snoc {s : StoreC} {es : List EdgeC} {ts : List Edge} {e : EdgeC} {t : Edge}
    (h : DenotesLC s es ts) (he : DenotesC s e t) : DenotesLC s (es ++ [e]) (ts ++ [t]) := by
  induction h with
  | nil => exact .cons he .nil
  | cons hd _ ih => exact .cons hd ih

theorem pairsC_denotes {s : StoreC} {env : List EdgeC} {envT : List Edge} (h : DenotesLC s env envT)
    (pairs : List (Nat × Nat)) :
    DenotesPC s (pairs.map fun p => (p.1, regEC env p.2))
      (pairs.map fun p => (p.1, regTC envT p.2)) := by
  induction pairs with
  | nil => exact .nil
  | cons p ps ih => exact .cons (regC_denotes h p.2) ih

/-- one command on the store; `fuel` is used for the main recursion and for the inner calls -/
def CmdCX.run (cfg : CacheCfgC) (fuel : Nat) : CmdCX → StC × List EdgeC → StC × List EdgeC
  | .not f, (st, env) =>
    let r := notS st (regEC env f); (r.1, env ++ [r.2])
  | .bin op f g, (st, env) =>
    let r := applyOpS cfg.policy op fuel st (regEC env f) (regEC env g); (r.1, env ++ [r.2])
  | .ite f g h, (st, env) =>
    let r := iteS cfg.policy fuel st (regEC env f) (regEC env g) (regEC env h); (r.1, env ++ [r.2])
  | .quant q f vars, (st, env) =>
    let r := quantS cfg.policy q fuel fuel st (regEC env f) (regEC env vars); (r.1, env ++ [r.2])
  | .applyQuant q op f g vars, (st, env) =>
    let r := applyQuantOpS cfg.policy q op fuel fuel st (regEC env f) (regEC env g) (regEC env vars)
    (r.1, env ++ [r.2])
  | .restrict f vars, (st, env) =>
    let r := restrictS cfg.policy fuel st (regEC env f) (regEC env vars); (r.1, env ++ [r.2])
  | .subst id pairs f, (st, env) =>
    let r := substituteEdgeS cfg.policy (pairs.map fun p => (p.1, regEC env p.2)) id fuel fuel st
      (regEC env f)
    (r.1, env ++ [r.2])
  | .cacheOp n, (st, env) => (⟨st.store, st.cache.filter (cfg.ev n), st.tick⟩, env)

/-- the reference semantics on tree edges -/
def CmdCX.runT : CmdCX → List Edge → List Edge
  | .not f, envT => envT ++ [applyNot (regTC envT f)]
  | .bin op f g, envT => envT ++ [applyOp op (regTC envT f) (regTC envT g)]
  | .ite f g h, envT => envT ++ [applyIte (regTC envT f) (regTC envT g) (regTC envT h)]
  | .quant q f vars, envT => envT ++ [Bcdd.quant q (regTC envT f) (regTC envT vars)]
  | .applyQuant q op f g vars, envT =>
    envT ++ [Bcdd.applyQuantOp q op (regTC envT f) (regTC envT g) (regTC envT vars)]
  | .restrict f vars, envT => envT ++ [Bcdd.restrict (regTC envT f) (regTC envT vars)]
  | .subst _ pairs f, envT =>
    envT ++ [substitute (substPrepare (pairs.map fun p => (p.1, regTC envT p.2))) (regTC envT f)]
  | .cacheOp _, envT => envT

/-- a substitution id is used for the substitution it is registered for -/
def CmdCX.ValidT (reg : Nat → List Edge) : CmdCX → List Edge → Prop
  | .subst id pairs _, envT => reg id = substPrepare (pairs.map fun p => (p.1, regTC envT p.2))
  | _, _ => True

def runAllCX (cfg : CacheCfgC) (fuel : Nat) : List CmdCX → StC × List EdgeC → StC × List EdgeC
  | [], x => x
  | c :: cs, x => runAllCX cfg fuel cs (c.run cfg fuel x)

def runAllCT : List CmdCX → List Edge → List Edge
  | [], envT => envT
  | c :: cs, envT => runAllCT cs (c.runT envT)

def ValidAllCT (reg : Nat → List Edge) : List CmdCX → List Edge → Prop
  | [], _ => True
  | c :: cs, envT => c.ValidT reg envT ∧ ValidAllCT reg cs (c.runT envT)

/-- what a run of a (list of) command(s) guarantees -/
structure HPostC (reg : Nat → List Edge) (s : StoreC) (envT : List Edge) (R : StC × List EdgeC) :
    Prop where
  inv : InvCX reg R.1
  le : s.Le R.1.store
  nored : s.NoRed → R.1.store.NoRed
  den : DenotesLC R.1.store R.2 envT

theorem HPostC.ofW {reg : Nat → List Edge} {st : StC} {env : List EdgeC} {envT : List Edge}
    {T : Edge} {R : StC × EdgeC} (henv : DenotesLC st.store env envT)
    (h : PostCW reg st.store T R) :
    HPostC reg st.store (envT ++ [T]) (R.1, env ++ [R.2]) :=
  ⟨h.inv, h.le, h.nored, (henv.mono h.le).snoc h.den⟩

/-- one command -/
theorem CmdCX.run_spec (reg : Nat → List Edge) (c : CmdCX) (envT : List Edge)
    (hv : c.ValidT reg envT) :
    ∃ N, ∀ (cfg : CacheCfgC), cfg.policy.OK → ∀ fuel, N ≤ fuel →
      ∀ (st : StC) (env : List EdgeC), InvCX reg st → DenotesLC st.store env envT →
        HPostC reg st.store (c.runT envT) (c.run cfg fuel (st, env)) := by
  cases c with
  | not f =>
    refine ⟨0, fun cfg pok fuel hN st env hinv henv => ?_⟩
    exact HPostC.ofW henv (notS_specX reg st _ _ hinv (regC_denotes henv f)).toPostCW
  | bin op f g =>
    refine ⟨(regTC envT f).size + (regTC envT g).size, fun cfg pok fuel hN st env hinv henv => ?_⟩
    exact HPostC.ofW henv (applyOpS_specX pok reg op fuel st _ _ _ _ hinv (regC_denotes henv f)
      (regC_denotes henv g) hN).toPostCW
  | ite f g h =>
    refine ⟨(regTC envT f).size + (regTC envT g).size + (regTC envT h).size,
      fun cfg pok fuel hN st env hinv henv => ?_⟩
    exact HPostC.ofW henv (iteS_specX pok reg fuel st _ _ _ _ _ _ hinv (regC_denotes henv f)
      (regC_denotes henv g) (regC_denotes henv h) hN).toPostCW
  | quant q f vars =>
    refine ⟨max (regTC envT f).size
        (quantNeed q (regTC envT f).neg (regTC envT f).n (regTC envT vars)),
      fun cfg pok fuel hN st env hinv henv => ?_⟩
    exact HPostC.ofW henv (quantS_spec pok reg q fuel fuel st _ _ _ _ hinv (regC_denotes henv f)
      (regC_denotes henv vars) (by omega) (by omega))
  | applyQuant q op f g vars =>
    obtain ⟨N, h⟩ := applyQuantOpS_spec reg q op (regTC envT f) (regTC envT g) (regTC envT vars)
    refine ⟨max N ((regTC envT f).size + (regTC envT g).size),
      fun cfg pok fuel hN st env hinv henv => ?_⟩
    exact HPostC.ofW henv (h cfg.policy pok fuel fuel (by omega) (by omega) st _ _ _ hinv
      (regC_denotes henv f) (regC_denotes henv g) (regC_denotes henv vars))
  | restrict f vars =>
    refine ⟨(regTC envT f).size + (regTC envT vars).size,
      fun cfg pok fuel hN st env hinv henv => ?_⟩
    exact HPostC.ofW henv (restrictS_spec pok reg fuel st _ _ _ _ hinv (regC_denotes henv f)
      (regC_denotes henv vars) hN).toPostCW
  | subst id pairs f =>
    refine ⟨max (regTC envT f).size
      (substNeed (substPrepare (pairs.map fun p => (p.1, regTC envT p.2)))
        (regTC envT f).neg (regTC envT f).n),
      fun cfg pok fuel hN st env hinv henv => ?_⟩
    exact HPostC.ofW henv (substituteEdgeS_spec pok reg _ _ id fuel fuel st _ _ hinv
      (pairsC_denotes henv pairs) hv (regC_denotes henv f) (by omega) (by omega))
  | cacheOp n =>
    refine ⟨0, fun cfg pok fuel _ st env hinv henv => ?_⟩
    exact ⟨⟨hinv.1, hinv.2.sub (fun x hx => (List.mem_filter.mp hx).1)⟩, StoreC.Le.refl _, id, henv⟩

/-- **every run of a history computes the reference semantics** -/
theorem historyCX_spec (reg : Nat → List Edge) (cs : List CmdCX) : ∀ (envT : List Edge),
    ValidAllCT reg cs envT →
    ∃ N, ∀ (cfg : CacheCfgC), cfg.policy.OK → ∀ fuel, N ≤ fuel →
      ∀ (st : StC) (env : List EdgeC), InvCX reg st → DenotesLC st.store env envT →
        HPostC reg st.store (runAllCT cs envT) (runAllCX cfg fuel cs (st, env)) := by
  induction cs with
  | nil =>
    intro envT _
    exact ⟨0, fun cfg _ fuel _ st env hinv henv => ⟨hinv, StoreC.Le.refl _, id, henv⟩⟩
  | cons c cs ih =>
    intro envT hv
    obtain ⟨N1, h1⟩ := CmdCX.run_spec reg c envT hv.1
    obtain ⟨N2, h2⟩ := ih (c.runT envT) hv.2
    refine ⟨max N1 N2, fun cfg pok fuel hN st env hinv henv => ?_⟩
    have P1 := h1 cfg pok fuel (by omega) st env hinv henv
    have P2 := h2 cfg pok fuel (by omega) (c.run cfg fuel (st, env)).1 (c.run cfg fuel (st, env)).2
      P1.inv P1.den
    exact ⟨P2.inv, P1.le.trans P2.le, fun hr => P2.nored (P1.nored hr), P2.den⟩

/-- **History transparency.** Two runs of the same history with arbitrary (different) admissible
policies, eviction choices, sound initial caches, time stamps — and even different hash-consed
initial stores, as long as the initial registers denote the same tree edges: the final registers
(initial edges and all results) denote, position by position, the same tree edges
`runAllCT cs envT`; and in every common hash-consed extension `s'` of the two final stores the two
register lists are equal edge by edge. -/
theorem historyCX_transparent (reg1 reg2 : Nat → List Edge) (cs : List CmdCX) (envT : List Edge)
    (hv1 : ValidAllCT reg1 cs envT) (hv2 : ValidAllCT reg2 cs envT) :
    ∃ N, ∀ (cfg1 cfg2 : CacheCfgC), cfg1.policy.OK → cfg2.policy.OK → ∀ fuel1 fuel2, N ≤ fuel1 →
      N ≤ fuel2 → ∀ (st1 st2 : StC) (env1 env2 : List EdgeC), InvCX reg1 st1 → InvCX reg2 st2 →
        DenotesLC st1.store env1 envT → DenotesLC st2.store env2 envT →
        DenotesLC (runAllCX cfg1 fuel1 cs (st1, env1)).1.store (runAllCX cfg1 fuel1 cs (st1, env1)).2
          (runAllCT cs envT) ∧
        DenotesLC (runAllCX cfg2 fuel2 cs (st2, env2)).1.store (runAllCX cfg2 fuel2 cs (st2, env2)).2
          (runAllCT cs envT) ∧
        ∀ s', (runAllCX cfg1 fuel1 cs (st1, env1)).1.store.Le s' →
          (runAllCX cfg2 fuel2 cs (st2, env2)).1.store.Le s' → s'.Unique →
          (runAllCX cfg1 fuel1 cs (st1, env1)).2 = (runAllCX cfg2 fuel2 cs (st2, env2)).2 := by
  obtain ⟨N1, h1⟩ := historyCX_spec reg1 cs envT hv1
  obtain ⟨N2, h2⟩ := historyCX_spec reg2 cs envT hv2
  refine ⟨max N1 N2, ?_⟩
  intro cfg1 cfg2 ok1 ok2 fuel1 fuel2 hf1 hf2 st1 st2 env1 env2 i1 i2 d1 d2
  have P1 := h1 cfg1 ok1 fuel1 (by omega) st1 env1 i1 d1
  have P2 := h2 cfg2 ok2 fuel2 (by omega) st2 env2 i2 d2
  refine ⟨P1.den, P2.den, fun s' l1 l2 hu => ?_⟩
  have e1 := P1.den.mono l1
  have e2 := P2.den.mono l2
  generalize (runAllCX cfg1 fuel1 cs (st1, env1)).2 = r1 at e1
  generalize (runAllCX cfg2 fuel2 cs (st2, env2)).2 = r2 at e2
  generalize runAllCT cs envT = ts at e1 e2
  induction e1 generalizing r2 with
  | nil => cases e2; rfl
  | cons hd _ ih =>
    cases e2 with
    | cons hd' tl' => rw [denotesC_inj hu hd hd', ih _ tl']

end OxiddModel.Bcdd.Refine
