import OxiddModel.Bcdd.IteS

/-!
# Histories of BCDD operations: results and stores do not depend on the cache

A history is a list of commands: `not`, one of the eight connectives, `ite`, and `cacheOp n`, a
point at which the cache implementation may throw away any entries it likes (eviction, `clear`).
A *run* is parameterised by everything cache related: the `Policy`, the eviction choices `ev`, and
the initial cache. `history_transparent`: two runs of the same history from the same (hash-consed,
reduced) store return the same edges and end in the same store, whatever the cache parameters are.
-/
namespace OxiddModel.Bcdd.Refine
open OxiddModel.Bcdd OxiddModel.Bcdd.CNode
open OxiddModel.Bdd.Refine (Policy OpTag Key Cache)

inductive CmdC where
  | not (f : EdgeC)
  | bin (op : Op) (f g : EdgeC)
  | ite (f g h : EdgeC)
  /-- the cache may drop entries here (which ones is decided by the run's `ev n`) -/
  | cacheOp (n : Nat)
deriving Repr

/-- cache-related parameters of a run -/
structure CacheCfgC where
  policy : Policy
  ev : Nat → Key × Bdd.Refine.Edge → Bool

def CmdC.run (cfg : CacheCfgC) (fuel : Nat) : CmdC → StC → StC × Option EdgeC
  | .not f, st => let r := notS st f; (r.1, some r.2)
  | .bin op f g, st => let r := applyOpS cfg.policy op fuel st f g; (r.1, some r.2)
  | .ite f g h, st => let r := iteS cfg.policy fuel st f g h; (r.1, some r.2)
  | .cacheOp n, st => (⟨st.store, st.cache.filter (cfg.ev n), st.tick⟩, none)

/-- the operands are edges of the store, and the fuel suffices -/
def CmdC.Valid (fuel : Nat) (s : StoreC) : CmdC → Prop
  | .not f => ∃ a, DenotesC s f a
  | .bin _ f g => ∃ a b, DenotesC s f a ∧ DenotesC s g b ∧ a.size + b.size ≤ fuel
  | .ite f g h => ∃ a b c, DenotesC s f a ∧ DenotesC s g b ∧ DenotesC s h c ∧
      a.size + b.size + c.size ≤ fuel
  | .cacheOp _ => True

def runAllC (cfg : CacheCfgC) (fuel : Nat) : List CmdC → StC → StC × List (Option EdgeC)
  | [], st => (st, [])
  | c :: cs, st =>
    let r := c.run cfg fuel st
    let rs := runAllC cfg fuel cs r.1
    (rs.1, r.2 :: rs.2)

/-- every command is valid in the store in which it is executed -/
def ValidAllC (cfg : CacheCfgC) (fuel : Nat) : List CmdC → StC → Prop
  | [], _ => True
  | c :: cs, st => c.Valid fuel st.store ∧ ValidAllC cfg fuel cs (c.run cfg fuel st).1

/-- one command: invariant kept, and result and store determined by the store alone -/
theorem CmdC.run_spec {cfg : CacheCfgC} (pok : cfg.policy.OK) (fuel : Nat) (c : CmdC) (st : StC)
    (hinv : InvC st) (hr : st.store.NoRed) (hv : c.Valid fuel st.store) :
    InvC (c.run cfg fuel st).1 ∧ (c.run cfg fuel st).1.store.NoRed ∧
    st.store.Le (c.run cfg fuel st).1.store ∧
    ∃ F : StoreC → StoreC × Option EdgeC,
      (∀ (cfg' : CacheCfgC) (st' : StC), cfg'.policy.OK → InvC st' → st'.store = st.store →
        ((c.run cfg' fuel st').1.store, (c.run cfg' fuel st').2) = F st.store) := by
  cases c with
  | not f =>
    obtain ⟨a, hf⟩ := hv
    have P := notS_spec st f a hinv hf
    refine ⟨P.inv, P.nored hr, P.le,
      fun s => ((internE s (applyNot a)).1, some (internE s (applyNot a)).2), ?_⟩
    intro cfg' st' pok' hinv' hs
    have P' := notS_spec st' f a hinv' (hs ▸ hf)
    have := P'.canon (hs ▸ hr)
    simp only [CmdC.run]
    rw [← hs, ← this]
  | bin op f g =>
    obtain ⟨a, b, hf, hg, hsz⟩ := hv
    have P := applyOpS_spec pok op fuel st f g a b hinv hf hg hsz
    refine ⟨P.inv, P.nored hr, P.le,
      fun s => ((internE s (applyOp op a b)).1, some (internE s (applyOp op a b)).2), ?_⟩
    intro cfg' st' pok' hinv' hs
    have P' := applyOpS_spec pok' op fuel st' f g a b hinv' (hs ▸ hf) (hs ▸ hg) hsz
    have := P'.canon (hs ▸ hr)
    simp only [CmdC.run]
    rw [← hs, ← this]
  | ite f g h =>
    obtain ⟨a, b, c, hf, hg, hh, hsz⟩ := hv
    have P := iteS_spec pok fuel st f g h a b c hinv hf hg hh hsz
    refine ⟨P.inv, P.nored hr, P.le,
      fun s => ((internE s (applyIte a b c)).1, some (internE s (applyIte a b c)).2), ?_⟩
    intro cfg' st' pok' hinv' hs
    have P' := iteS_spec pok' fuel st' f g h a b c hinv' (hs ▸ hf) (hs ▸ hg) (hs ▸ hh) hsz
    have := P'.canon (hs ▸ hr)
    simp only [CmdC.run]
    rw [← hs, ← this]
  | cacheOp n =>
    refine ⟨⟨hinv.1, hinv.2.sub (fun x hx => (List.mem_filter.mp hx).1)⟩, hr, StoreC.Le.refl _,
      fun s => (s, none), ?_⟩
    intro cfg' st' _ _ hs
    simp only [CmdC.run, hs]

/-- **History independence.** Two runs of the same history from the same store, with arbitrary
(different) policies, eviction choices, initial caches and time stamps: all returned edges are
equal, the final stores are equal, the invariant holds in both, and the second run is valid
whenever the first is. -/
theorem history_transparent {cfg1 cfg2 : CacheCfgC} (ok1 : cfg1.policy.OK) (ok2 : cfg2.policy.OK)
    (fuel : Nat) (cs : List CmdC) : ∀ (st1 st2 : StC), st1.store = st2.store → InvC st1 →
    InvC st2 → st1.store.NoRed → ValidAllC cfg1 fuel cs st1 →
    (runAllC cfg1 fuel cs st1).2 = (runAllC cfg2 fuel cs st2).2 ∧
    (runAllC cfg1 fuel cs st1).1.store = (runAllC cfg2 fuel cs st2).1.store ∧
    InvC (runAllC cfg1 fuel cs st1).1 ∧ InvC (runAllC cfg2 fuel cs st2).1 ∧
    (runAllC cfg1 fuel cs st1).1.store.NoRed ∧ ValidAllC cfg2 fuel cs st2 := by
  induction cs with
  | nil => intro st1 st2 hs i1 i2 hr _; exact ⟨rfl, hs, i1, i2, hr, trivial⟩
  | cons c cs ih =>
    intro st1 st2 hs i1 i2 hr hv
    obtain ⟨hv1, hvs⟩ := hv
    obtain ⟨j1, r1, _, F, hF⟩ := CmdC.run_spec ok1 fuel c st1 i1 hr hv1
    have hv2 : c.Valid fuel st2.store := hs ▸ hv1
    obtain ⟨j2, _, _, _, _⟩ := CmdC.run_spec ok2 fuel c st2 i2 (hs ▸ hr) hv2
    have e1 := hF cfg1 st1 ok1 i1 rfl
    have e2 := hF cfg2 st2 ok2 i2 hs.symm
    have es : (c.run cfg1 fuel st1).1.store = (c.run cfg2 fuel st2).1.store :=
      (congrArg Prod.fst e1).trans (congrArg Prod.fst e2).symm
    have er : (c.run cfg1 fuel st1).2 = (c.run cfg2 fuel st2).2 :=
      (congrArg Prod.snd e1).trans (congrArg Prod.snd e2).symm
    obtain ⟨h1, h2, h3, h4, h5, h6⟩ := ih _ _ es j1 j2 r1 hvs
    simp only [runAllC]
    exact ⟨by rw [er, h1], h2, h3, h4, h5, hv2, h6⟩

end OxiddModel.Bcdd.Refine
