import OxiddModel.Bcdd.Apply

/-! `apply_ite` with its tagged shortcuts: semantics and normal form, for all operand triples. -/
namespace OxiddModel.Bcdd
open CNode

theorem same_node_eq {f g : Edge} (h : f.n = g.n) (ht : f.neg = g.neg) (σ : Nat → Bool) :
    f.eval σ = g.eval σ := by
  rw [eval_same_node h σ, ht]; cases g.neg <;> cases g.eval σ <;> rfl

theorem same_node_ne {f g : Edge} (h : f.n = g.n) (ht : ¬f.neg = g.neg) (σ : Nat → Bool) :
    f.eval σ = !g.eval σ := by
  rw [eval_same_node h σ]
  cases hf : f.neg <;> cases hg : g.neg <;> simp_all

theorem applyIte_eval (f g h : Edge) (σ : Nat → Bool) :
    (applyIte f g h).eval σ = if f.eval σ then g.eval σ else h.eval σ := by
  fun_induction applyIte f g h
  case case9 fneg fl ft fen fe gneg gl gt gen ge hneg hl ht hen he l _ _ _ ih1 ih2 =>
    simp only [dite_eq_ite] at ih1 ih2
    rw [mk_eval, ih1, ih2]
    cases hσ : σ l
    · simp only [Bool.false_eq_true, if_false]
      rw [cof_eval_false σ l fl fneg fen ft fe hσ, cof_eval_false σ l gl gneg gen gt ge hσ,
        cof_eval_false σ l hl hneg hen ht he hσ]
    · simp only [if_true]
      rw [cof_eval_true σ l fl fneg fen ft fe hσ, cof_eval_true σ l gl gneg gen gt ge hσ,
        cof_eval_true σ l hl hneg hen ht he hσ]
  case case1 f g h h1 h2 =>
    rw [same_node_eq h1 h2 σ]
    cases f.eval σ <;> simp
  case case2 f g h h1 h2 =>
    simp only [applyNot_eval, applyBin_eval, BOp.sem]
    rw [same_node_ne h1 h2 σ]
    cases f.eval σ <;> cases h.eval σ <;> rfl
  case case3 f g h _ h1 h2 =>
    simp only [applyNot_eval, applyAnd_eval]
    rw [same_node_eq h1 h2 σ]
    cases g.eval σ <;> cases h.eval σ <;> rfl
  case case4 f g h _ h1 h2 =>
    simp only [applyNot_eval, applyAnd_eval]
    rw [same_node_ne h1 h2 σ]
    cases g.eval σ <;> cases h.eval σ <;> rfl
  case case5 f g h _ _ h1 h2 =>
    simp only [applyAnd_eval]
    rw [same_node_eq h1 h2 σ]
    cases g.eval σ <;> cases h.eval σ <;> rfl
  case case6 f g h _ _ h1 h2 =>
    simp only [applyNot_eval, applyAnd_eval]
    rw [same_node_ne h1 h2 σ]
    cases g.eval σ <;> cases h.eval σ <;> rfl
  case case7 => simp [Edge.eval, CNode.eval]
  case case8 g h _ fneg hf _ _ =>
    cases fneg
    · exact absurd rfl hf
    · simp [Edge.eval, CNode.eval]
  case case10 =>
    simp only [applyNot_eval, applyAnd_eval]
    rw [show Edge.eval σ ⟨false, CNode.top⟩ = true from rfl]
    generalize Edge.eval σ _ = a
    generalize Edge.eval σ _ = b
    cases a <;> cases b <;> rfl
  case case11 neg a a_1 a_2 a_3 gneg neg_1 a_4 a_5 a_6 a_7 hg _ _ _ =>
    cases gneg
    · exact absurd rfl hg
    · simp only [applyNot_eval, applyAnd_eval]
      rw [show Edge.eval σ ⟨true, CNode.top⟩ = false from rfl]
      generalize Edge.eval σ _ = a
      generalize Edge.eval σ _ = b
      cases a <;> cases b <;> rfl
  case case12 g neg a a_1 a_2 a_3 _ _ _ =>
    simp only [applyNot_eval, applyAnd_eval]
    rw [show Edge.eval σ ⟨false, CNode.top⟩ = true from rfl]
    generalize Edge.eval σ _ = a
    generalize Edge.eval σ _ = b
    cases a <;> cases b <;> rfl
  case case13 g neg a a_1 a_2 a_3 hneg hh _ _ _ =>
    cases hneg
    · exact absurd rfl hh
    · simp only [applyAnd_eval]
      rw [show Edge.eval σ ⟨true, CNode.top⟩ = false from rfl]
      generalize Edge.eval σ _ = a
      generalize Edge.eval σ _ = b
      cases a <;> cases b <;> rfl

theorem applyIte_nf (f g h : Edge) (n : Nat) (hf : f.NF n) (hg : g.NF n) (hh : h.NF n) :
    (applyIte f g h).NF n := by
  fun_induction applyIte f g h generalizing n
  case case9 fneg fl ft fen fe gneg gl gt gen ge hneg hl ht hen he l _ _ _ ih1 ih2 =>
    simp only [dite_eq_ite] at ih1 ih2
    have hlf : l ≤ fl := Nat.le_trans (Nat.min_le_left _ _) (Nat.min_le_left _ _)
    have hlg : l ≤ gl := Nat.le_trans (Nat.min_le_left _ _) (Nat.min_le_right _ _)
    have hlh : l ≤ hl := Nat.min_le_right _ _
    have hn : n ≤ l := Nat.le_min.mpr ⟨Nat.le_min.mpr ⟨nf_node_le hf, nf_node_le hg⟩, nf_node_le hh⟩
    exact mk_nf hn
      (ih1 _ (cof_nf_t hlf hf) (cof_nf_t hlg hg) (cof_nf_t hlh hh))
      (ih2 _ (cof_nf_e hlf hf) (cof_nf_e hlg hg) (cof_nf_e hlh hh))
  all_goals first
    | assumption
    | exact applyAnd_nf _ _ n (by first | assumption | exact applyNot_nf (by assumption)) (by first | assumption | exact applyNot_nf (by assumption))
    | exact applyNot_nf (applyAnd_nf _ _ n (by first | assumption | exact applyNot_nf (by assumption)) (by first | assumption | exact applyNot_nf (by assumption)))
    | exact applyNot_nf (applyBin_nf _ _ _ n (by assumption) (by assumption))

end OxiddModel.Bcdd
