import OxiddModel.Bcdd.ApplyS

/-!
# `apply_ite` on the BCDD store, with apply cache

`iteS` follows `apply_ite` of `crates/oxidd-rules-bdd/src/complement_edge/apply_rec.rs`: the three
comparisons of *untagged* edges (`gu == hu`, `fu == gu`, `fu == hu`) each followed by the tag
comparison and the delegation to `apply_bin::<Xor>` / `apply_and` through `not` tags, the terminal
`f`, the terminal `g` / terminal `h` cases, then cache query on `(Ite, [f, g, h])` (tagged
operands, no normalisation), cofactors with `collect_cofactors`, recursion, `reduce`, cache add.

`iteS_spec`: for every admissible policy the result denotes `applyIte a b c`, the store is only
extended, `Unique ∧ CacheOKC` is kept, and store and result are `internE s (applyIte a b c)`.
-/
namespace OxiddModel.Bcdd.Refine
open OxiddModel.Bcdd OxiddModel.Bcdd.CNode
open OxiddModel.Bdd.Refine (Policy OpTag Key Cache)

/-! ## tree level: unfolding equations of `applyIte` -/

theorem applyIte_gh_same {f g h : Edge} (h1 : g.n = h.n) (h2 : g.neg = h.neg) :
    applyIte f g h = g := by
  rw [applyIte.eq_def]; simp [h1, h2]

theorem applyIte_gh_diff {f g h : Edge} (h1 : g.n = h.n) (h2 : ¬ g.neg = h.neg) :
    applyIte f g h = applyNot (applyBin .xor f g) := by
  rw [applyIte.eq_def]; simp [h1, h2]

theorem applyIte_fg_same {f g h : Edge} (h0 : ¬ g.n = h.n) (h1 : f.n = g.n) (h2 : f.neg = g.neg) :
    applyIte f g h = applyNot (applyAnd (applyNot f) (applyNot h)) := by
  rw [applyIte.eq_def]; simp [h0, h1, h2]

theorem applyIte_fg_diff {f g h : Edge} (h0 : ¬ g.n = h.n) (h1 : f.n = g.n) (h2 : ¬ f.neg = g.neg) :
    applyIte f g h = applyAnd (applyNot f) h := by
  rw [applyIte.eq_def]; simp [h0, h1, h2]

theorem applyIte_fh_same {f g h : Edge} (h0 : ¬ g.n = h.n) (h0' : ¬ f.n = g.n) (h1 : f.n = h.n)
    (h2 : f.neg = h.neg) : applyIte f g h = applyAnd f g := by
  rw [applyIte.eq_def, if_neg h0, if_neg h0', if_pos h1, if_pos h2]

theorem applyIte_fh_diff {f g h : Edge} (h0 : ¬ g.n = h.n) (h0' : ¬ f.n = g.n) (h1 : f.n = h.n)
    (h2 : ¬ f.neg = h.neg) : applyIte f g h = applyNot (applyAnd f (applyNot g)) := by
  rw [applyIte.eq_def, if_neg h0, if_neg h0', if_pos h1, if_neg h2]

theorem applyIte_ftop {fneg : Bool} {g h : Edge} (h0 : ¬ g.n = h.n) (h1 : ¬ CNode.top = g.n)
    (h2 : ¬ CNode.top = h.n) : applyIte ⟨fneg, .top⟩ g h = if fneg = false then g else h := by
  rw [applyIte.eq_def]; simp [h0, h1, h2]

theorem applyIte_gtop {fneg gneg hneg fen hen : Bool} {fl hl : Nat} {ft fe ht he : CNode}
    (h2 : ¬ CNode.node fl ft fen fe = .node hl ht hen he) :
    applyIte ⟨fneg, .node fl ft fen fe⟩ ⟨gneg, .top⟩ ⟨hneg, .node hl ht hen he⟩ =
      if gneg = false then
        applyNot (applyAnd (applyNot ⟨fneg, .node fl ft fen fe⟩) (applyNot ⟨hneg, .node hl ht hen he⟩))
      else applyAnd (applyNot ⟨fneg, .node fl ft fen fe⟩) ⟨hneg, .node hl ht hen he⟩ := by
  rw [applyIte.eq_def]; simp [h2]

theorem applyIte_htop {fneg hneg fen : Bool} {fl : Nat} {ft fe : CNode} {g : Edge}
    (h0 : ¬ g.n = .top) (h1 : ¬ CNode.node fl ft fen fe = g.n) :
    applyIte ⟨fneg, .node fl ft fen fe⟩ g ⟨hneg, .top⟩ =
      if hneg = false then applyNot (applyAnd ⟨fneg, .node fl ft fen fe⟩ (applyNot g))
      else applyAnd ⟨fneg, .node fl ft fen fe⟩ g := by
  obtain ⟨gneg, gn⟩ := g
  cases gn with
  | top => exact absurd rfl h0
  | node gl gt gen ge =>
    have h2 : ¬ (⟨fneg, .node fl ft fen fe⟩ : Edge).n = (⟨hneg, .top⟩ : Edge).n := by simp
    rw [applyIte.eq_def, if_neg h0, if_neg h1, if_neg h2]

theorem applyIte_rec {fneg gneg hneg fen gen hen : Bool} {fl gl hl : Nat}
    {ft fe gt ge ht he : CNode}
    (h0 : ¬ CNode.node gl gt gen ge = .node hl ht hen he)
    (h1 : ¬ CNode.node fl ft fen fe = .node gl gt gen ge)
    (h2 : ¬ CNode.node fl ft fen fe = .node hl ht hen he) :
    applyIte ⟨fneg, .node fl ft fen fe⟩ ⟨gneg, .node gl gt gen ge⟩ ⟨hneg, .node hl ht hen he⟩ =
      mk (min (min fl gl) hl)
        (applyIte (tcofT (min (min fl gl) hl) ⟨fneg, .node fl ft fen fe⟩)
          (tcofT (min (min fl gl) hl) ⟨gneg, .node gl gt gen ge⟩)
          (tcofT (min (min fl gl) hl) ⟨hneg, .node hl ht hen he⟩))
        (applyIte (tcofE (min (min fl gl) hl) ⟨fneg, .node fl ft fen fe⟩)
          (tcofE (min (min fl gl) hl) ⟨gneg, .node gl gt gen ge⟩)
          (tcofE (min (min fl gl) hl) ⟨hneg, .node hl ht hen he⟩)) := by
  rw [applyIte.eq_def]; simp only [h0, h1, h2, if_false, tcofT, tcofE]

/-! ## the algorithm -/

/-- `apply_ite` -/
def iteS (p : Policy) : Nat → StC → EdgeC → EdgeC → EdgeC → StC × EdgeC
  | 0, st, f, _, _ => (st, f)
  | fuel+1, st, f, g, h =>
    if g.tgt = h.tgt then
      (if g.neg = h.neg then (st, g)
       else let r := xorS p fuel st f g; (r.1, notE r.2))                       -- f ↔ g
    else if f.tgt = g.tgt then
      (if f.neg = g.neg then
         let r := andS p fuel st (notE f) (notE h); (r.1, notE r.2)             -- f ∨ h
       else andS p fuel st (notE f) h)                                          -- f < h
    else if f.tgt = h.tgt then
      (if f.neg = h.neg then andS p fuel st f g
       else let r := andS p fuel st f (notE g); (r.1, notE r.2))                -- f → g
    else
      match f.tgt with
      | .term => (st, if f.neg = false then g else h)
      | .inner _ =>
        match g.tgt, h.tgt with
        | .term, .inner _ =>
          if g.neg = false then
            let r := andS p fuel st (notE f) (notE h); (r.1, notE r.2)          -- f ∨ h
          else andS p fuel st (notE f) h                                        -- f < h
        | _, .term =>
          if h.neg = false then
            let r := andS p fuel st f (notE g); (r.1, notE r.2)                 -- f → g
          else andS p fuel st f g
        | .inner _, .inner _ =>
          -- query apply cache
          match p.get st.tick st.cache (.ite, [enc f, enc g, enc h]) with
          | some r => (st.tickd, dec r)
          | none =>
            match st.store.level? f, st.store.level? g, st.store.level? h with
            | some lf, some lg, some lh =>
              let l := min (min lf lg) lh
              let r1 := iteS p fuel st.tickd (st.store.cofT l f) (st.store.cofT l g) (st.store.cofT l h)
              let r0 := iteS p fuel r1.1 (st.store.cofE l f) (st.store.cofE l g) (st.store.cofE l h)
              finishC p r0.1 (.ite, [enc f, enc g, enc h]) l r1.2 r0.2
            | _, _, _ => (st.tickd, f) -- dangling edge (excluded by `DenotesC`)

/-! ## `apply_ite` refines `applyIte` -/

theorem iteS_spec {p : Policy} (pok : p.OK) (fuel : Nat) :
    ∀ (st : StC) (f g h : EdgeC) (a b c : Edge),
    InvC st → DenotesC st.store f a → DenotesC st.store g b → DenotesC st.store h c →
    a.size + b.size + c.size ≤ fuel →
    PostC st.store (applyIte a b c) (iteS p fuel st f g h) := by
  induction fuel with
  | zero =>
    intro st f g h a b c _ _ _ _ hsz
    have := size_pos a.n
    simp only [Edge.size] at hsz
    omega
  | succ fuel ih =>
    intro st f g h a b c hinv hf hg hh hsz
    have hu := hinv.1
    have igh := denN_eq_iff hu hg.2 hh.2
    have ifg := denN_eq_iff hu hf.2 hg.2
    have ifh := denN_eq_iff hu hf.2 hh.2
    have hsa := size_pos a.n
    have hsb := size_pos b.n
    have hsc := size_pos c.n
    have hna : (applyNot a).size = a.size := rfl
    have hnb : (applyNot b).size = b.size := rfl
    have hnc : (applyNot c).size = c.size := rfl
    simp only [Edge.size] at hsz hna hnb hnc
    have szab : a.size + b.size ≤ fuel := by simp only [Edge.size]; omega
    have szac : a.size + c.size ≤ fuel := by simp only [Edge.size]; omega
    simp only [iteS, andS, xorS]
    by_cases h1 : g.tgt = h.tgt
    · have h1' : b.n = c.n := igh.mp h1
      simp only [h1, if_true]
      by_cases h2 : g.neg = h.neg
      · have h2' : b.neg = c.neg := by rw [← hg.1, ← hh.1]; exact h2
        simp only [h2, if_true]
        rw [applyIte_gh_same h1' h2']
        exact PostC.done hinv hg
      · have h2' : ¬ b.neg = c.neg := by rw [← hg.1, ← hh.1]; exact h2
        simp only [h2, if_false]
        rw [applyIte_gh_diff h1' h2']
        exact (binS_spec pok .xor fuel st f g a b hinv hf hg szab).not
    · have h1' : ¬ b.n = c.n := fun e => h1 (igh.mpr e)
      simp only [h1, if_false]
      by_cases h3 : f.tgt = g.tgt
      · have h3' : a.n = b.n := ifg.mp h3
        simp only [h3, if_true]
        by_cases h4 : f.neg = g.neg
        · have h4' : a.neg = b.neg := by rw [← hf.1, ← hg.1]; exact h4
          simp only [h4, if_true]
          rw [applyIte_fg_same h1' h3' h4']
          exact (binS_spec pok .and fuel st _ _ _ _ hinv hf.not hh.not
            (by simp only [Edge.size] at *; omega)).not
        · have h4' : ¬ a.neg = b.neg := by rw [← hf.1, ← hg.1]; exact h4
          simp only [h4, if_false]
          rw [applyIte_fg_diff h1' h3' h4']
          exact binS_spec pok .and fuel st _ _ _ _ hinv hf.not hh
            (by simp only [Edge.size] at *; omega)
      · have h3' : ¬ a.n = b.n := fun e => h3 (ifg.mpr e)
        simp only [h3, if_false]
        by_cases h5 : f.tgt = h.tgt
        · have h5' : a.n = c.n := ifh.mp h5
          simp only [h5, if_true]
          by_cases h6 : f.neg = h.neg
          · have h6' : a.neg = c.neg := by rw [← hf.1, ← hh.1]; exact h6
            simp only [h6, if_true]
            rw [applyIte_fh_same h1' h3' h5' h6']
            exact binS_spec pok .and fuel st f g a b hinv hf hg szab
          · have h6' : ¬ a.neg = c.neg := by rw [← hf.1, ← hh.1]; exact h6
            simp only [h6, if_false]
            rw [applyIte_fh_diff h1' h3' h5' h6']
            exact (binS_spec pok .and fuel st _ _ _ _ hinv hf hg.not
              (by simp only [Edge.size] at *; omega)).not
        · have h5' : ¬ a.n = c.n := fun e => h5 (ifh.mpr e)
          simp only [h5, if_false]
          obtain ⟨fn, ft⟩ := f
          obtain ⟨gn, gt⟩ := g
          obtain ⟨hn, ht⟩ := h
          obtain ⟨an, a⟩ := a
          obtain ⟨bn, b⟩ := b
          obtain ⟨cn, c⟩ := c
          obtain ⟨ef, hf2⟩ := hf
          obtain ⟨eg, hg2⟩ := hg
          obtain ⟨eh, hh2⟩ := hh
          simp only at ef eg eh hf2 hg2 hh2 h1 h3 h5 h1' h3' h5'
          subst ef eg eh
          cases hf2 with
          | term =>
            simp only
            rw [applyIte_ftop h1' h3' h5']
            cases fn
            · exact PostC.done hinv ⟨rfl, hg2⟩
            · exact PostC.done hinv ⟨rfl, hh2⟩
          | @inner i l t en e tt te hi hft hfe =>
            have hdf : DenotesC st.store ⟨fn, .inner i⟩ ⟨fn, .node l tt en te⟩ :=
              ⟨rfl, .inner hi hft hfe⟩
            cases hg2 with
            | term =>
              cases hh2 with
              | term => exact absurd rfl h1
              | @inner k l'' t'' en'' e'' tt'' te'' hk hht hhe =>
                have hdh : DenotesC st.store ⟨hn, .inner k⟩ ⟨hn, .node l'' tt'' en'' te''⟩ :=
                  ⟨rfl, .inner hk hht hhe⟩
                simp only
                rw [applyIte_gtop h5']
                cases gn
                · simp only [if_true]
                  exact (binS_spec pok .and fuel st _ _ _ _ hinv hdf.not hdh.not
                    (by simp only [Edge.size] at *; omega)).not
                · simp only [Bool.true_eq_false, if_false]
                  exact binS_spec pok .and fuel st _ _ _ _ hinv hdf.not hdh
                    (by simp only [Edge.size] at *; omega)
            | @inner j l' t' en' e' tt' te' hj hgt hge =>
              have hdg : DenotesC st.store ⟨gn, .inner j⟩ ⟨gn, .node l' tt' en' te'⟩ :=
                ⟨rfl, .inner hj hgt hge⟩
              cases hh2 with
              | term =>
                simp only
                rw [applyIte_htop (g := ⟨gn, .node l' tt' en' te'⟩) (by simp) h3']
                cases hn
                · simp only [if_true]
                  exact (binS_spec pok .and fuel st _ _ _ _ hinv hdf hdg.not
                    (by simp only [Edge.size] at *; omega)).not
                · simp only [Bool.true_eq_false, if_false]
                  exact binS_spec pok .and fuel st _ _ _ _ hinv hdf hdg
                    (by simp only [Edge.size] at *; omega)
              | @inner k l'' t'' en'' e'' tt'' te'' hk hht hhe =>
                have hdh : DenotesC st.store ⟨hn, .inner k⟩ ⟨hn, .node l'' tt'' en'' te''⟩ :=
                  ⟨rfl, .inner hk hht hhe⟩
                simp only
                split
                · -- cache hit
                  rename_i r hr
                  have hent := hinv.2 _ _ (pok.get_mem _ _ _ _ hr)
                  exact PostC.done (st := st.tickd) hinv.tickd
                    (EntryOKC.hit (es := [⟨fn, .inner i⟩, ⟨gn, .inner j⟩, ⟨hn, .inner k⟩]) hent
                      (DenotesLC.three hdf hdg hdh) rfl)
                · -- cache miss
                  rw [level?_denotes hdf, level?_denotes hdg, level?_denotes hdh]
                  simp only
                  rw [applyIte_rec h1' h3' h5']
                  generalize hl : min (min l l') l'' = m
                  have hmin : m = l ∨ m = l' ∨ m = l'' := by omega
                  have ha1 := tcofT_size_le m ⟨fn, .node l tt en te⟩
                  have hb1 := tcofT_size_le m ⟨gn, .node l' tt' en' te'⟩
                  have hc1 := tcofT_size_le m ⟨hn, .node l'' tt'' en'' te''⟩
                  have ha0 := tcofE_size_le m ⟨fn, .node l tt en te⟩
                  have hb0 := tcofE_size_le m ⟨gn, .node l' tt' en' te'⟩
                  have hc0 := tcofE_size_le m ⟨hn, .node l'' tt'' en'' te''⟩
                  have sz : (tcofT m ⟨fn, .node l tt en te⟩).size +
                      (tcofT m ⟨gn, .node l' tt' en' te'⟩).size +
                      (tcofT m ⟨hn, .node l'' tt'' en'' te''⟩).size ≤ fuel ∧
                      (tcofE m ⟨fn, .node l tt en te⟩).size +
                      (tcofE m ⟨gn, .node l' tt' en' te'⟩).size +
                      (tcofE m ⟨hn, .node l'' tt'' en'' te''⟩).size ≤ fuel := by
                    simp only [Edge.size] at ha1 hb1 hc1 ha0 hb0 hc0 hsz ⊢
                    rcases hmin with h | h | h <;> subst h
                    · have h1 := tcofT_size_lt m fn en tt te
                      have h2 := tcofE_size_lt m fn en tt te
                      simp only [Edge.size] at h1 h2; omega
                    · have h1 := tcofT_size_lt m gn en' tt' te'
                      have h2 := tcofE_size_lt m gn en' tt' te'
                      simp only [Edge.size] at h1 h2; omega
                    · have h1 := tcofT_size_lt m hn en'' tt'' te''
                      have h2 := tcofE_size_lt m hn en'' tt'' te''
                      simp only [Edge.size] at h1 h2; omega
                  have p1 := ih st.tickd _ _ _ _ _ _ hinv.tickd (cofT_denotes m hdf)
                    (cofT_denotes m hdg) (cofT_denotes m hdh) sz.1
                  have p0 := ih _ _ _ _ _ _ _ p1.inv ((cofE_denotes m hdf).mono p1.le)
                    ((cofE_denotes m hdg).mono p1.le) ((cofE_denotes m hdh).mono p1.le) sz.2
                  refine finishC_post pok p1 p0
                    (.ite, [enc ⟨fn, .inner i⟩, enc ⟨gn, .inner j⟩, enc ⟨hn, .inner k⟩]) m
                    ⟨[⟨fn, .inner i⟩, ⟨gn, .inner j⟩, ⟨hn, .inner k⟩], _, rfl,
                      DenotesLC.three hdf hdg hdh, ?_⟩
                  show some (applyIte _ _ _) = _
                  rw [applyIte_rec h1' h3' h5', hl]

end OxiddModel.Bcdd.Refine
