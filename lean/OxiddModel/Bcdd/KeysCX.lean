import OxiddModel.Bcdd.ApplyQuantS
import OxiddModel.Bcdd.RestrictS
import OxiddModel.Bcdd.SubstS

/-!
# Which entries a BCDD operation can add to the apply cache

`GrowsC P c c'`: every entry of `c'` is an entry of `c` or has a key satisfying `P`. For each
algorithm the keys of the entries it (and everything it calls) can create are determined:

* `binS`, `applyOpS`, `iteS`: base keys (`IsBaseKeyC`: `And`/`Xor` with two, `Ite` with three
  tagged operands);
* `quantS q`: base keys (inner `apply_and` / `apply_bin::<Xor>`) and `(quant q, [·, ·])`;
* `restrictS`: `(Restrict, [untagged ·, ·])` only;
* `substituteS … id`: base keys (inner `apply_ite`) and `(Substitute, [·], [id])` — **this id**;
* `applyQuantS q op`: base keys, `(quant q, [·, ·])` and `(applyQuant q op, [·, ·, ·])`.

Together with `encKeyC_inj` this is "each operator is memoised under its own operator value, with
all its operands".
-/
namespace OxiddModel.Bcdd.Refine
open OxiddModel.Bcdd OxiddModel.Bcdd.CNode
open OxiddModel.Bdd.Refine (Policy OpTag Key Cache)

/-- every entry of `c'` is an entry of `c` or has a key satisfying `P` -/
def GrowsC (P : Key → Prop) (c c' : Cache) : Prop := ∀ x, x ∈ c' → x ∈ c ∨ P x.1

theorem GrowsC.refl (P : Key → Prop) (c : Cache) : GrowsC P c c := fun _ h => .inl h

theorem GrowsC.trans {P : Key → Prop} {a b c : Cache} (h1 : GrowsC P a b) (h2 : GrowsC P b c) :
    GrowsC P a c := by
  intro x hx
  rcases h2 x hx with h | h
  · exact h1 x h
  · exact .inr h

theorem GrowsC.mono {P Q : Key → Prop} {a b : Cache} (hpq : ∀ k, P k → Q k) (h : GrowsC P a b) :
    GrowsC Q a b := fun x hx => (h x hx).imp id (hpq _)

theorem GrowsC.add {p : Policy} (pok : p.OK) {P : Key → Prop} {key : Key} (hk : P key) (t : Nat)
    (c : Cache) (r : Bdd.Refine.Edge) : GrowsC P c (p.add t c key r) := by
  intro x hx
  rcases pok.add_sub t c key r x hx with h | h
  · exact .inl h
  · subst h; exact .inr hk

theorem finishC_grows {p : Policy} (pok : p.OK) {P : Key → Prop} {key : Key} (hk : P key)
    (st : StC) (l : Nat) (e1 e0 : EdgeC) : GrowsC P st.cache (finishC p st key l e1 e0).1.cache :=
  GrowsC.add pok hk _ _ _

theorem addC_grows {p : Policy} (pok : p.OK) {P : Key → Prop} {key : Key} (hk : P key)
    (st : StC) (r : EdgeC) : GrowsC P st.cache (addC p st key r).1.cache :=
  GrowsC.add pok hk _ _ _

/-! ## base operations -/

/-- a key of `apply_bin::<And|Xor>` / `apply_ite` -/
def IsBaseKeyC (k : Key) : Prop :=
  (∃ op f g, k = encKeyC (binKey op f g)) ∨ ∃ f g h, k = encKeyC (iteKey f g h)

theorem binS_grows {p : Policy} (pok : p.OK) (op : BOp) (fuel : Nat) : ∀ (st : StC) (f g : EdgeC),
    GrowsC IsBaseKeyC st.cache (binS p op fuel st f g).1.cache := by
  induction fuel with
  | zero => intro st f g; exact GrowsC.refl _ _
  | succ fuel ih =>
    intro st f g
    simp only [binS]
    split
    · exact GrowsC.refl _ _
    · split
      · exact GrowsC.refl _ _
      · split
        · exact ((ih st.tickd _ _).trans (ih _ _ _)).trans
            (finishC_grows pok (.inl ⟨op, _, _, (encKeyC_binKey _ _ _).symm⟩) _ _ _ _)
        · exact GrowsC.refl _ _

theorem applyOpS_grows {p : Policy} (pok : p.OK) (op : Op) (fuel : Nat) (st : StC) (f g : EdgeC) :
    GrowsC IsBaseKeyC st.cache (applyOpS p op fuel st f g).1.cache := by
  cases op <;> simp only [applyOpS, andS, xorS] <;> exact binS_grows pok _ _ _ _ _

theorem iteS_grows {p : Policy} (pok : p.OK) (fuel : Nat) : ∀ (st : StC) (f g h : EdgeC),
    GrowsC IsBaseKeyC st.cache (iteS p fuel st f g h).1.cache := by
  induction fuel with
  | zero => intro st f g h; exact GrowsC.refl _ _
  | succ fuel ih =>
    intro st f g h
    simp only [iteS, andS, xorS]
    repeat' split
    all_goals first
      | exact GrowsC.refl _ _
      | exact binS_grows pok _ _ _ _ _
      | exact ((ih st.tickd _ _ _).trans (ih _ _ _ _)).trans
          (finishC_grows pok (.inr ⟨_, _, _, (encKeyC_ite _ _ _).symm⟩) _ _ _ _)

/-! ## the extended operations -/

def IsQuantKeyC (q : Quant) (k : Key) : Prop := ∃ f v, k = encKeyC (quantKey q f v)
/-- a `Restrict` key: the first operand is untagged -/
def IsRestrictKeyC (k : Key) : Prop := ∃ f v, k = encKeyC (restrictKey ⟨false, f⟩ v)
def IsSubstKeyC (id : Nat) (k : Key) : Prop := ∃ f, k = encKeyC (substKey f id)
def IsApplyQuantKeyC (q : Quant) (op : QOp) (k : Key) : Prop :=
  ∃ f g v, k = encKeyC (applyQuantKey q op f g v)

theorem quantS_grows {p : Policy} (pok : p.OK) (q : Quant) (af : Nat) (fuel : Nat) :
    ∀ (st : StC) (f vars : EdgeC),
    GrowsC (fun k => IsBaseKeyC k ∨ IsQuantKeyC q k) st.cache
      (quantS p q af fuel st f vars).1.cache := by
  induction fuel with
  | zero => intro st f vars; exact GrowsC.refl _ _
  | succ fuel ih =>
    intro st f vars
    simp only [quantS]
    generalize (if q ≠ .unique then st.store.setPopC af vars _ else vars) = vars'
    repeat' split
    all_goals first
      | exact GrowsC.refl _ _
      | exact (((ih st.tickd _ _).trans (ih _ _ _)).trans
          ((applyOpS_grows pok _ af _ _ _).mono (fun _ h => .inl h))).trans
          (addC_grows pok (.inr ⟨_, _, rfl⟩) _ _)
      | exact ((ih st.tickd _ _).trans (ih _ _ _)).trans
          (finishC_grows pok (.inr ⟨_, _, rfl⟩) _ _ _ _)

theorem restrictS_grows {p : Policy} (pok : p.OK) (fuel : Nat) : ∀ (st : StC) (f vars : EdgeC),
    GrowsC IsRestrictKeyC st.cache (restrictS p fuel st f vars).1.cache := by
  induction fuel with
  | zero => intro st f vars; exact GrowsC.refl _ _
  | succ fuel ih =>
    intro st f vars
    simp only [restrictS]
    repeat' split
    all_goals first
      | exact GrowsC.refl _ _
      | exact ((ih st.tickd _ _).trans (ih _ _ _)).trans
          (finishC_grows pok ⟨_, _, rfl⟩ _ _ _ _)

theorem substituteS_grows {p : Policy} (pok : p.OK) (subst : List EdgeC) (id af : Nat) (fuel : Nat) :
    ∀ (st : StC) (f : EdgeC),
    GrowsC (fun k => IsBaseKeyC k ∨ IsSubstKeyC id k) st.cache
      (substituteS p subst id af fuel st f).1.cache := by
  induction fuel with
  | zero => intro st f; exact GrowsC.refl _ _
  | succ fuel ih =>
    intro st f
    simp only [substituteS]
    repeat' split
    all_goals first
      | exact GrowsC.refl _ _
      | exact (((ih st.tickd _).trans (ih _ _)).trans
          ((iteS_grows pok af _ _ _ _).mono (fun _ h => .inl h))).trans
          (addC_grows pok (.inr ⟨_, rfl⟩) _ _)

theorem qopApplyS_grows {p : Policy} (pok : p.OK) (op : QOp) (af : Nat) (st : StC) (f g : EdgeC) :
    GrowsC IsBaseKeyC st.cache (qopApplyS p op af st f g).1.cache := by
  cases op <;> simp only [qopApplyS] <;> exact binS_grows pok _ _ _ _ _

theorem aqBodyS_grows {p : Policy} (pok : p.OK) (q : Quant) (op : QOp) (af : Nat)
    (rec : StC → EdgeC → EdgeC → EdgeC → StC × EdgeC)
    (hrec : ∀ st f g vars,
      GrowsC (fun k => IsBaseKeyC k ∨ IsQuantKeyC q k ∨ IsApplyQuantKeyC q op k)
        st.cache (rec st f g vars).1.cache) (st : StC) (f g vars : EdgeC) :
    GrowsC (fun k => IsBaseKeyC k ∨ IsQuantKeyC q k ∨ IsApplyQuantKeyC q op k) st.cache
      (aqBodyS p q op af rec st f g vars).1.cache := by
  simp only [aqBodyS, aqBodyK]
  repeat' split
  all_goals first
    | exact GrowsC.refl _ _
    | exact (qopApplyS_grows pok op af _ _ _).mono (fun _ h => .inl h)
    | exact (((hrec st.tickd _ _ _).trans (hrec _ _ _ _)).trans
        ((applyOpS_grows pok _ af _ _ _).mono (fun _ h => .inl h))).trans
        (addC_grows pok (Or.inr (Or.inr ⟨_, _, _, rfl⟩)) _ _)
    | exact ((hrec st.tickd _ _ _).trans (hrec _ _ _ _)).trans
        (finishC_grows pok (Or.inr (Or.inr ⟨_, _, _, rfl⟩)) _ _ _ _)

theorem applyQuantS_grows {p : Policy} (pok : p.OK) (q : Quant) (op : QOp) (af : Nat) (fuel : Nat) :
    ∀ (st : StC) (f g vars : EdgeC),
    GrowsC (fun k => IsBaseKeyC k ∨ IsQuantKeyC q k ∨ IsApplyQuantKeyC q op k) st.cache
      (applyQuantS p q op af fuel st f g vars).1.cache := by
  induction fuel with
  | zero => intro st f g vars; exact GrowsC.refl _ _
  | succ fuel ih =>
    intro st f g vars
    have hq : ∀ (st' : StC) (x y : EdgeC),
        GrowsC (fun k => IsBaseKeyC k ∨ IsQuantKeyC q k ∨ IsApplyQuantKeyC q op k) st'.cache
          (quantS p q af af st' x y).1.cache :=
      fun st' x y => (quantS_grows pok q af af st' x y).mono
        (fun _ h => h.elim .inl (fun h => .inr (.inl h)))
    simp only [applyQuantS]
    split
    · exact aqBodyS_grows pok q op af _ ih st _ _ vars
    · split
      · exact hq _ _ _
      · exact hq _ _ _

end OxiddModel.Bcdd.Refine
