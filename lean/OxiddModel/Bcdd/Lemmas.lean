import OxiddModel.Bcdd.Model

/-! Semantics and normal-form lemmas for the BCDD tree model. -/
namespace OxiddModel.Bcdd
open CNode

/-! ## basic facts -/

theorem CNode.Ordered.mono {n m : Nat} {a : CNode} (h : Ordered n a) (hmn : m ≤ n) : Ordered m a := by
  cases h with
  | top => exact .top
  | node hv ht he => exact .node (Nat.le_trans hmn hv) ht he

theorem CNode.Ordered.node_self {m l : Nat} {t e : CNode} {en : Bool} (h : Ordered m (.node l t en e)) :
    Ordered l (.node l t en e) := by
  cases h with
  | node _ ht he => exact .node (Nat.le_refl _) ht he

/-- every node is true under the all-true assignment (then-edges are regular) -/
theorem CNode.eval_alltrue (n : CNode) : n.eval (fun _ => true) = true := by
  induction n with
  | top => rfl
  | node l t en e iht _ => simp [eval, iht]

theorem CNode.eval_indep {n : Nat} {a : CNode} (h : Ordered n a) (σ τ : Nat → Bool)
    (hστ : ∀ v, n ≤ v → σ v = τ v) : a.eval σ = a.eval τ := by
  induction h with
  | top => rfl
  | node hv _ _ iht ihe =>
    simp only [eval]
    rw [hστ _ hv]
    rw [iht (fun w hw => hστ w (by omega)), ihe (fun w hw => hστ w (by omega))]

theorem Edge.eval_indep {n : Nat} {a : Edge} (h : Ordered n a.n) (σ τ : Nat → Bool)
    (hστ : ∀ v, n ≤ v → σ v = τ v) : a.eval σ = a.eval τ := by
  simp only [Edge.eval, CNode.eval_indep h σ τ hστ]

theorem Edge.NF.mono {n m : Nat} {a : Edge} (h : a.NF n) (hmn : m ≤ n) : a.NF m :=
  ⟨h.1.mono hmn, h.2⟩

@[simp] theorem Edge.eval_mk' (σ : Nat → Bool) (b : Bool) (n : CNode) :
    Edge.eval σ ⟨b, n⟩ = (b != n.eval σ) := rfl

@[simp] theorem terminal_eval (σ : Nat → Bool) (b : Bool) : (terminal b).eval σ = b := by
  cases b <;> rfl

@[simp] theorem applyNot_eval (σ : Nat → Bool) (f : Edge) : (applyNot f).eval σ = !f.eval σ := by
  obtain ⟨neg, n⟩ := f
  simp only [applyNot, Edge.eval]
  cases neg <;> cases n.eval σ <;> rfl

@[simp] theorem applyNot_n (f : Edge) : (applyNot f).n = f.n := rfl
@[simp] theorem applyNot_neg (f : Edge) : (applyNot f).neg = !f.neg := rfl
@[simp] theorem terminal_n (b : Bool) : (terminal b).n = .top := rfl

theorem applyNot_applyNot (f : Edge) : applyNot (applyNot f) = f := by
  obtain ⟨neg, n⟩ := f
  simp [applyNot]

theorem applyNot_nf {n : Nat} {f : Edge} (h : f.NF n) : (applyNot f).NF n := h

theorem terminal_nf (n : Nat) (b : Bool) : (terminal b).NF n := ⟨.top, trivial⟩

theorem isFalse_iff (e : Edge) : isFalse e = true ↔ e = terminal false := by
  obtain ⟨neg, n⟩ := e
  cases n <;> cases neg <;> simp [isFalse, isTop, terminal]

/-! ## `reduce` -/

@[simp] theorem mk_eval (σ : Nat → Bool) (l : Nat) (t e : Edge) :
    (mk l t e).eval σ = if σ l then t.eval σ else e.eval σ := by
  unfold mk
  split
  · rename_i h; subst h; simp
  · obtain ⟨tn, t⟩ := t
    obtain ⟨en, e⟩ := e
    cases tn <;> cases en <;> cases h : σ l <;> simp [Edge.eval, CNode.eval, h]

theorem mk_ordered {n l : Nat} {t e : Edge} (hl : n ≤ l) (ht : Ordered (l+1) t.n) (he : Ordered (l+1) e.n) :
    Ordered n (mk l t e).n := by
  unfold mk
  split
  · exact ht.mono (by omega)
  · split
    · exact .node hl ht he
    · exact .node hl ht he

theorem mk_reduced {l : Nat} {t e : Edge} (ht : Reduced t.n) (he : Reduced e.n) : Reduced (mk l t e).n := by
  unfold mk
  split
  · exact ht
  · rename_i hne
    obtain ⟨tn, t⟩ := t
    obtain ⟨en, e⟩ := e
    split
    · rename_i h
      refine ⟨?_, ht, he⟩
      rintro ⟨h1, h2⟩
      simp at h h1 h2
      exact hne (by rw [h, h1, h2])
    · rename_i h
      refine ⟨?_, ht, he⟩
      rintro ⟨h1, h2⟩
      simp at h h1 h2
      exact hne (by rw [h, h1, h2])

theorem mk_nf {n l : Nat} {t e : Edge} (hl : n ≤ l) (ht : t.NF (l+1)) (he : e.NF (l+1)) :
    (mk l t e).NF n := ⟨mk_ordered hl ht.1 he.1, mk_reduced ht.2 he.2⟩

/-! ## variables -/

@[simp] theorem var_eval (σ : Nat → Bool) (l : Nat) : (var l).eval σ = σ l := by
  cases h : σ l <;> simp [var, Edge.eval, CNode.eval, h]

@[simp] theorem notVar_eval (σ : Nat → Bool) (l : Nat) : (notVar l).eval σ = !σ l := by
  cases h : σ l <;> simp [notVar, Edge.eval, CNode.eval, h]

theorem var_nf (l : Nat) : (var l).NF l :=
  ⟨.node (Nat.le_refl _) .top .top, by simp [var, Reduced]⟩

theorem notVar_nf (l : Nat) : (notVar l).NF l := var_nf l

/-! ## terminal cases -/

/-- the node of a `Done` result is the node of an operand or the terminal -/
def Shape (f g h : Edge) : Prop := h.n = f.n ∨ h.n = g.n ∨ h.n = .top

theorem Shape.nf {f g h : Edge} {n : Nat} (hs : Shape f g h) (hf : f.NF n) (hg : g.NF n) : h.NF n := by
  rcases hs with h1 | h1 | h1
  · exact ⟨h1 ▸ hf.1, h1 ▸ hf.2⟩
  · exact ⟨h1 ▸ hg.1, h1 ▸ hg.2⟩
  · exact ⟨h1 ▸ .top, h1 ▸ trivial⟩

theorem Shape.applyNot {f g h : Edge} (hs : Shape f g h) : Shape f g (applyNot h) := hs

/-- both operands denote the same node function up to the tags -/
theorem eval_same_node {f g : Edge} (h : f.n = g.n) (σ : Nat → Bool) :
    f.eval σ = ((f.neg != g.neg) != g.eval σ) := by
  obtain ⟨fneg, fn⟩ := f
  obtain ⟨gneg, gn⟩ := g
  simp only at h
  subst h
  simp only [Edge.eval]
  cases fneg <;> cases gneg <;> cases fn.eval σ <;> rfl

/-- every `Done` arm of `terminal_and` is the conjunction, and `Nodes` means two inner nodes -/
theorem terminalAnd_spec (f g : Edge) :
    match terminalAnd f g with
    | .done h => (∀ σ, h.eval σ = (f.eval σ && g.eval σ)) ∧ Shape f g h
    | .nodes => f.n.isTop = false ∧ g.n.isTop = false := by
  obtain ⟨fneg, fn⟩ := f
  obtain ⟨gneg, gn⟩ := g
  unfold terminalAnd
  by_cases hfg : fn = gn
  · subst hfg
    simp only [if_true]
    by_cases hn : fneg = gneg
    · subst hn; simp [Shape]
    · simp only [hn, if_false]
      refine ⟨fun σ => ?_, Or.inr (Or.inr rfl)⟩
      cases fneg <;> cases gneg <;> simp_all [Edge.eval, terminal, CNode.eval]
  · simp only [hfg, if_false]
    cases fn with
    | top =>
      cases gn with
      | top => exact absurd rfl hfg
      | node gl gt gen ge =>
        cases fneg <;> simp [Shape, Edge.eval, CNode.eval, terminal]
    | node fl ft fen fe =>
      cases gn with
      | top => cases gneg <;> simp [Shape, Edge.eval, CNode.eval, terminal]
      | node gl gt gen ge => simp [isTop]

/-- every `Done` arm of `terminal_xor` is the exclusive or, and `Nodes` means two inner nodes -/
theorem terminalXor_spec (f g : Edge) :
    match terminalXor f g with
    | .done h => (∀ σ, h.eval σ = (f.eval σ != g.eval σ)) ∧ Shape f g h
    | .nodes => f.n.isTop = false ∧ g.n.isTop = false := by
  obtain ⟨fneg, fn⟩ := f
  obtain ⟨gneg, gn⟩ := g
  unfold terminalXor
  by_cases hfg : fn = gn
  · subst hfg
    simp only [if_true]
    refine ⟨fun σ => ?_, Or.inr (Or.inr rfl)⟩
    cases fneg <;> cases gneg <;> cases h : fn.eval σ <;> simp [Edge.eval, h, terminal, CNode.eval]
  · simp only [hfg, if_false]
    cases fn with
    | top =>
      cases gn with
      | top => exact absurd rfl hfg
      | node gl gt gen ge =>
        cases fneg <;> simp [Shape, Edge.eval, CNode.eval, applyNot]
    | node fl ft fen fe =>
      cases gn with
      | top => cases gneg <;> simp [Shape, Edge.eval, CNode.eval, applyNot]
      | node gl gt gen ge => simp [isTop]

theorem terminalOp_spec (op : BOp) (f g : Edge) :
    match terminalOp op f g with
    | .done h => (∀ σ, h.eval σ = op.sem (f.eval σ) (g.eval σ)) ∧ Shape f g h
    | .nodes => f.n.isTop = false ∧ g.n.isTop = false := by
  cases op
  · exact terminalAnd_spec f g
  · exact terminalXor_spec f g

/-! ## cofactor selection -/

/-- the then-cofactor `apply_bin` selects for an operand at level `fl` when expanding at level `l` -/
theorem cof_eval_true (σ : Nat → Bool) (l fl : Nat) (fneg fen : Bool) (ft fe : CNode)
    (hσ : σ l = true) :
    (if fl = l then (⟨fneg, ft⟩ : Edge) else ⟨fneg, .node fl ft fen fe⟩).eval σ
      = (⟨fneg, .node fl ft fen fe⟩ : Edge).eval σ := by
  split
  · rename_i h; subst h; simp [Edge.eval, CNode.eval, hσ]
  · rfl

theorem cof_eval_false (σ : Nat → Bool) (l fl : Nat) (fneg fen : Bool) (ft fe : CNode)
    (hσ : σ l = false) :
    (if fl = l then (⟨fneg != fen, fe⟩ : Edge) else ⟨fneg, .node fl ft fen fe⟩).eval σ
      = (⟨fneg, .node fl ft fen fe⟩ : Edge).eval σ := by
  split
  · rename_i h; subst h
    simp only [Edge.eval, CNode.eval, hσ]
    cases fneg <;> cases fen <;> cases fe.eval σ <;> rfl
  · rfl

theorem node_eval_true {fneg fen : Bool} {fl : Nat} {ft fe : CNode} {τ : Nat → Bool} (h : τ fl = true) :
    (⟨fneg, .node fl ft fen fe⟩ : Edge).eval τ = (⟨fneg, ft⟩ : Edge).eval τ := by
  simp [Edge.eval, CNode.eval, h]

theorem node_eval_false {fneg fen : Bool} {fl : Nat} {ft fe : CNode} {τ : Nat → Bool} (h : τ fl = false) :
    (⟨fneg, .node fl ft fen fe⟩ : Edge).eval τ = (⟨fneg != fen, fe⟩ : Edge).eval τ := by
  simp only [Edge.eval, CNode.eval, h]
  cases fneg <;> cases fen <;> cases fe.eval τ <;> rfl

theorem cof_nf_t {n l fl : Nat} {fneg fen : Bool} {ft fe : CNode} (hl : l ≤ fl)
    (h : (⟨fneg, .node fl ft fen fe⟩ : Edge).NF n) :
    (if fl = l then (⟨fneg, ft⟩ : Edge) else ⟨fneg, .node fl ft fen fe⟩).NF (l+1) := by
  obtain ⟨ho, hr⟩ := h
  cases ho with
  | node hn ht he =>
    split
    · rename_i h; subst h; exact ⟨ht, hr.2.1⟩
    · exact ⟨.node (by omega) ht he, hr⟩

theorem cof_nf_e {n l fl : Nat} {fneg fen : Bool} {ft fe : CNode} (hl : l ≤ fl)
    (h : (⟨fneg, .node fl ft fen fe⟩ : Edge).NF n) :
    (if fl = l then (⟨fneg != fen, fe⟩ : Edge) else ⟨fneg, .node fl ft fen fe⟩).NF (l+1) := by
  obtain ⟨ho, hr⟩ := h
  cases ho with
  | node hn ht he =>
    split
    · rename_i h; subst h; exact ⟨he, hr.2.2⟩
    · exact ⟨.node (by omega) ht he, hr⟩

theorem nf_node_le {n fl : Nat} {fneg fen : Bool} {ft fe : CNode}
    (h : (⟨fneg, .node fl ft fen fe⟩ : Edge).NF n) : n ≤ fl := by
  cases h.1 with
  | node hn _ _ => exact hn

theorem nf_cofT {n fl : Nat} {fneg fen : Bool} {ft fe : CNode}
    (h : (⟨fneg, .node fl ft fen fe⟩ : Edge).NF n) (b : Bool) : (⟨b, ft⟩ : Edge).NF (fl+1) := by
  cases h.1 with
  | node _ ht _ => exact ⟨ht, h.2.2.1⟩

theorem nf_cofE {n fl : Nat} {fneg fen : Bool} {ft fe : CNode}
    (h : (⟨fneg, .node fl ft fen fe⟩ : Edge).NF n) (b : Bool) : (⟨b, fe⟩ : Edge).NF (fl+1) := by
  cases h.1 with
  | node _ _ he => exact ⟨he, h.2.2.2⟩

end OxiddModel.Bcdd
