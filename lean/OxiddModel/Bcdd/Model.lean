/-!
# Tree-level model of the complement-edge BDD rules (`crates/oxidd-rules-bdd/src/complement_edge`)

A BCDD has a single terminal `⊤`; an *edge* carries a complement tag (`EdgeTag`), and `reduce`
moves a complement on the then-edge to the incoming edge, so that in every stored node the
then-edge is regular (`EdgeTag::None`). The model bakes this normal form into the node type: a
node is the terminal or `node level thenNode elseTag elseNode`, an edge is `(neg, node)`.
A diagram is modelled by its unfolding into a tree over *levels*; the variable↔level maps are kept
by the driver. Every function mirrors the case structure of the Rust function named in its doc
comment (same terminal cases in the same order, same cofactor selection with the incoming tag
pushed down, same delegation between operators through complement tags) but without store, apply
cache and reference counts.

Where the Rust code compares edges (`f == g`, i.e. same node id and same tag) the model compares
trees and tags; this is justified by canonicity (`OxiddModel.Bcdd.canon` + hash consing).
-/
namespace OxiddModel.Bcdd

/-- a node: the terminal `⊤`, or `node level then elseTag else` (the then-edge is always regular) -/
inductive CNode where
  | top : CNode
  | node : Nat → CNode → Bool → CNode → CNode
deriving DecidableEq, Repr, Inhabited, Hashable

/-- an edge: `neg = true` is `EdgeTag::Complemented` -/
structure Edge where
  neg : Bool
  n : CNode
deriving DecidableEq, Repr, Inhabited

namespace CNode

/-- value of a node under an assignment of the *levels* -/
def eval (σ : Nat → Bool) : CNode → Bool
  | top => true
  | node l t en e => if σ l then t.eval σ else (en != e.eval σ)

def size : CNode → Nat
  | top => 1
  | node _ t _ e => 1 + t.size + e.size

theorem size_pos (a : CNode) : 0 < a.size := by cases a <;> simp [size] <;> omega

/-- all levels on every path are ≥ `n` and strictly increase -/
inductive Ordered : Nat → CNode → Prop
  | top : Ordered n top
  | node : n ≤ l → Ordered (l+1) t → Ordered (l+1) e → Ordered n (node l t en e)

/-- the BCDD reduction rule: no node has identical children (same node *and* same tag; the
then-edge has tag `None`) -/
def Reduced : CNode → Prop
  | top => True
  | node _ t en e => ¬(en = false ∧ t = e) ∧ Reduced t ∧ Reduced e

def isTop : CNode → Bool
  | top => true
  | node .. => false

end CNode

namespace Edge

/-- denotation of an edge: the tag negates the node's function -/
def eval (σ : Nat → Bool) (x : Edge) : Bool := x.neg != x.n.eval σ

def size (x : Edge) : Nat := x.n.size

/-- normal form: ordered from level `n` on and reduced (then-edges are regular by construction) -/
def NF (n : Nat) (x : Edge) : Prop := x.n.Ordered n ∧ x.n.Reduced

end Edge

open CNode

/-- `get_terminal(manager, val)` -/
def terminal (val : Bool) : Edge := ⟨!val, .top⟩

/-- `not` / `not_owned`: flip the tag -/
def applyNot (e : Edge) : Edge := ⟨!e.neg, e.n⟩

/-- `is_false` -/
def isFalse (e : Edge) : Bool := e.neg && e.n.isTop

/-- `collect_cofactors(tag, node)`, then-cofactor: the incoming tag is pushed to the child
(`child(0)` has tag `None`) -/
def cofT (f : Edge) : Edge :=
  match f.n with
  | .node _ t _ _ => ⟨f.neg, t⟩
  | .top => f

/-- `collect_cofactors(tag, node)`, else-cofactor: `tag ⊕ child(1).tag` -/
def cofE (f : Edge) : Edge :=
  match f.n with
  | .node _ _ en e => ⟨f.neg != en, e⟩
  | .top => f

/-- `reduce` (complement_edge/mod.rs): the reduction rule, then-edge normalisation, and hash
consing (the identity on trees) -/
def mk (l : Nat) (t e : Edge) : Edge :=
  if t = e then t
  else if t.neg then ⟨true, .node l t.n (!e.neg) e.n⟩
  else ⟨false, .node l t.n e.neg e.n⟩

/-- the two native binary operators `BCDDOp::And`, `BCDDOp::Xor` that `apply_bin` is instantiated with -/
inductive BOp where
  | and | xor
deriving DecidableEq, Repr, Inhabited

def BOp.sem : BOp → Bool → Bool → Bool
  | .and, a, b => a && b
  | .xor, a, b => a != b

/-- `NodesOrDone` -/
inductive NodesOrDone where
  | nodes : NodesOrDone
  | done : Edge → NodesOrDone
deriving Repr

/-- `terminal_and` -/
def terminalAnd (f g : Edge) : NodesOrDone :=
  if f.n = g.n then
    if f.neg = g.neg then .done g else .done (terminal false)
  else
    match f.n, g.n with
    | .node .., .node .. => .nodes
    | .node .., .top => if g.neg then .done (terminal false) else .done f
    | .top, .node .. => if f.neg then .done (terminal false) else .done g
    | .top, .top => .done (terminal (!f.neg && !g.neg))

/-- `terminal_xor` -/
def terminalXor (f g : Edge) : NodesOrDone :=
  if f.n = g.n then .done (terminal (f.neg != g.neg))
  else
    match f.n, g.n with
    | .node .., .node .. => .nodes
    | .node .., .top => if g.neg then .done f else .done (applyNot f)
    | .top, .node .. => if f.neg then .done g else .done (applyNot g)
    | .top, .top => .done (terminal (f.neg != g.neg))

def terminalOp : BOp → Edge → Edge → NodesOrDone
  | .and => terminalAnd
  | .xor => terminalXor

/-- `apply_bin::<OP>` for `OP ∈ {And, Xor}`. The operand swap `f < g` only affects the apply-cache
key; it is not visible at tree level. -/
def applyBin (op : BOp) (f g : Edge) : Edge :=
  match terminalOp op f g with
  | .done h => h
  | .nodes =>
    match f, g with
    | ⟨fneg, .node fl ft fen fe⟩, ⟨gneg, .node gl gt gen ge⟩ =>
      let l := min fl gl
      mk l
        (applyBin op (if fl = l then ⟨fneg, ft⟩ else ⟨fneg, .node fl ft fen fe⟩)
          (if gl = l then ⟨gneg, gt⟩ else ⟨gneg, .node gl gt gen ge⟩))
        (applyBin op (if fl = l then ⟨fneg != fen, fe⟩ else ⟨fneg, .node fl ft fen fe⟩)
          (if gl = l then ⟨gneg != gen, ge⟩ else ⟨gneg, .node gl gt gen ge⟩))
    | _, _ => terminal false -- unreachable: `Nodes` is returned only for two inner nodes
termination_by f.size + g.size
decreasing_by
  all_goals simp_wf
  all_goals (split <;> split <;> simp only [Edge.size, CNode.size] <;> omega)

/-- `apply_and` -/
def applyAnd (f g : Edge) : Edge := applyBin .and f g

/-- the eight operators of `BooleanOperator` / the `*_edge` methods of `BooleanFunction` -/
inductive Op where
  | and | or | nand | nor | xor | equiv | imp | impStrict
deriving DecidableEq, Repr, Inhabited

def Op.sem : Op → Bool → Bool → Bool
  | .and, a, b => a && b
  | .or, a, b => a || b
  | .nand, a, b => !(a && b)
  | .nor, a, b => !(a || b)
  | .xor, a, b => a != b
  | .equiv, a, b => a == b
  | .imp, a, b => !a || b
  | .impStrict, a, b => !a && b

/-- `and_edge`, `or_edge`, `nand_edge`, `nor_edge`, `xor_edge`, `equiv_edge`, `imp_edge`,
`imp_strict_edge`: everything is `apply_and`/`apply_bin::<Xor>` plus complement tags -/
def applyOp : Op → Edge → Edge → Edge
  | .and, f, g => applyAnd f g
  | .or, f, g => applyNot (applyAnd (applyNot f) (applyNot g))    -- not(nor)
  | .nand, f, g => applyNot (applyAnd f g)
  | .nor, f, g => applyAnd (applyNot f) (applyNot g)
  | .xor, f, g => applyBin .xor f g
  | .equiv, f, g => applyNot (applyBin .xor f g)
  | .imp, f, g => applyNot (applyAnd f (applyNot g))
  | .impStrict, f, g => applyAnd (applyNot f) g

/-- `apply_ite` -/
def applyIte (f g h : Edge) : Edge :=
  if g.n = h.n then
    (if g.neg = h.neg then g else applyNot (applyBin .xor f g))            -- f ↔ g
  else if f.n = g.n then
    (if f.neg = g.neg then applyNot (applyAnd (applyNot f) (applyNot h))   -- f ∨ h
     else applyAnd (applyNot f) h)                                         -- f < h
  else if f.n = h.n then
    (if f.neg = h.neg then applyAnd f g
     else applyNot (applyAnd f (applyNot g)))                              -- f → g
  else
    match f, g, h with
    | ⟨fneg, .top⟩, _, _ => if fneg = false then g else h
    | ⟨fneg, .node fl ft fen fe⟩, ⟨gneg, .node gl gt gen ge⟩, ⟨hneg, .node hl ht hen he⟩ =>
      let l := min (min fl gl) hl
      mk l
        (applyIte (if fl = l then ⟨fneg, ft⟩ else ⟨fneg, .node fl ft fen fe⟩)
          (if gl = l then ⟨gneg, gt⟩ else ⟨gneg, .node gl gt gen ge⟩)
          (if hl = l then ⟨hneg, ht⟩ else ⟨hneg, .node hl ht hen he⟩))
        (applyIte (if fl = l then ⟨fneg != fen, fe⟩ else ⟨fneg, .node fl ft fen fe⟩)
          (if gl = l then ⟨gneg != gen, ge⟩ else ⟨gneg, .node gl gt gen ge⟩)
          (if hl = l then ⟨hneg != hen, he⟩ else ⟨hneg, .node hl ht hen he⟩))
    | ⟨_, .node ..⟩, ⟨gneg, .top⟩, ⟨_, .node ..⟩ =>
      if gneg = false then applyNot (applyAnd (applyNot f) (applyNot h))   -- f ∨ h
      else applyAnd (applyNot f) h                                         -- f < h
    | ⟨_, .node ..⟩, _, ⟨hneg, .top⟩ =>
      if hneg = false then applyNot (applyAnd f (applyNot g))              -- f → g
      else applyAnd f g
termination_by f.size + g.size + h.size
decreasing_by
  all_goals simp_wf
  all_goals (split <;> split <;> split <;> simp only [Edge.size, CNode.size] <;> omega)

/-- `set_pop` (lib.rs): drop the variables of the set (a conjunction of positive literals) above
level `until`, following `child(0)` (raw child: the tag of the set edge is *not* pushed down) -/
def setPop (set : Edge) (until_ : Nat) : Edge :=
  match set with
  | ⟨_, .top⟩ => set
  | ⟨_, .node l t _ _⟩ => if l ≥ until_ then set else setPop ⟨false, t⟩ until_
termination_by set.size
decreasing_by simp_wf; simp only [Edge.size, CNode.size]; omega

/-- quantifier kinds `BCDDOp::Forall`, `Exists`, `Unique` -/
inductive Quant where
  | forall_ | exists_ | unique
deriving DecidableEq, Repr, Inhabited

/-- how `quant`/`apply_quant` combine the two sub-results at a quantified level -/
def Quant.combine : Quant → Edge → Edge → Edge
  | .forall_, t, e => applyAnd t e
  | .exists_, t, e => applyNot (applyAnd (applyNot t) (applyNot e))
  | .unique, t, e => applyBin .xor t e

def Quant.sem : Quant → Bool → Bool → Bool
  | .forall_, a, b => a && b
  | .exists_, a, b => a || b
  | .unique, a, b => a != b

/-- `quant::<Q>` -/
def quant (q : Quant) (f vars : Edge) : Edge :=
  match f with
  | ⟨_, .top⟩ =>
    if q ≠ .unique || vars.n.isTop then f else terminal false
  | ⟨fneg, .node fl ft fen fe⟩ =>
    let vars := if q ≠ .unique then setPop vars fl else vars
    match vars with
    | ⟨_, .top⟩ => f
    | ⟨_, .node vl vt _ _⟩ =>
      if q = .unique ∧ vl < fl then terminal false else
      let vt' : Edge := if vl = fl then ⟨false, vt⟩ else vars
      let t := quant q ⟨fneg, ft⟩ vt'
      let e := quant q ⟨fneg != fen, fe⟩ vt'
      if fl = vl then q.combine t e else mk fl t e
termination_by f.size
decreasing_by all_goals (simp_wf; simp only [Edge.size, CNode.size]; omega)

/-- the `OP` parameter of `apply_quant`: `And`, `Xor`, or the special `UniqueNand` -/
inductive QOp where
  | and | xor | uniqueNand
deriving DecidableEq, Repr, Inhabited

def QOp.sem : QOp → Bool → Bool → Bool
  | .and, a, b => a && b
  | .xor, a, b => a != b
  | .uniqueNand, a, b => !(a && b)

/-- the plain application `apply_quant` falls back to when no variable is left to quantify -/
def QOp.apply : QOp → Edge → Edge → Edge
  | .and, f, g => applyBin .and f g
  | .xor, f, g => applyBin .xor f g
  | .uniqueNand, f, g => applyNot (applyAnd f g)

/-- `apply_quant::<Q, OP>` -/
def applyQuant (q : Quant) (op : QOp) (f g vars : Edge) : Edge :=
  match (if op = .and ∨ op = .uniqueNand then terminalAnd f g else terminalXor f g) with
  | .done h => if op = .uniqueNand then quant q (applyNot h) vars else quant q h vars
  | .nodes =>
    match f, g with
    | ⟨fneg, .node fl ft fen fe⟩, ⟨gneg, .node gl gt gen ge⟩ =>
      let minl := min fl gl
      let vars := if q ≠ .unique then setPop vars minl else vars
      match vars with
      | ⟨_, .top⟩ => op.apply f g
      | ⟨_, .node vl vt _ _⟩ =>
        if vl < minl ∧ q = .unique then terminal false else
        if minl > vl then op.apply f g else
        let vt' : Edge := if vl = minl then ⟨false, vt⟩ else vars
        let t := applyQuant q op (if fl ≤ gl then ⟨fneg, ft⟩ else ⟨fneg, .node fl ft fen fe⟩)
          (if fl ≥ gl then ⟨gneg, gt⟩ else ⟨gneg, .node gl gt gen ge⟩) vt'
        let e := applyQuant q op (if fl ≤ gl then ⟨fneg != fen, fe⟩ else ⟨fneg, .node fl ft fen fe⟩)
          (if fl ≥ gl then ⟨gneg != gen, ge⟩ else ⟨gneg, .node gl gt gen ge⟩) vt'
        if minl = vl then q.combine t e else mk minl t e
    | _, _ => terminal false -- unreachable
termination_by f.size + g.size
decreasing_by
  all_goals simp_wf
  all_goals (split <;> split <;> simp only [Edge.size, CNode.size] <;> omega)

/-- `apply_quant_dispatch::<Q, QN>` for `Q ∈ {Forall, Exists}`; `qn` is the dual quantifier -/
def applyQuantDispatch (q qn : Quant) (op : Op) (f g vars : Edge) : Edge :=
  match op with
  | .and => applyQuant q .and f g vars
  | .or => applyNot (applyQuant qn .and (applyNot f) (applyNot g) vars)
  | .xor => applyQuant q .xor f g vars
  | .equiv => applyNot (applyQuant qn .xor f g vars)
  | .nand => applyNot (applyQuant qn .and f g vars)
  | .nor => applyQuant q .and (applyNot f) (applyNot g) vars
  | .imp => applyNot (applyQuant qn .and f (applyNot g) vars)
  | .impStrict => applyQuant q .and (applyNot f) g vars

/-- `apply_quant_unique_dispatch` -/
def applyQuantUniqueDispatch (op : Op) (f g vars : Edge) : Edge :=
  match op with
  | .and => applyQuant .unique .and f g vars
  | .or => applyQuant .unique .uniqueNand (applyNot f) (applyNot g) vars
  | .xor => applyQuant .unique .xor f g vars
  | .equiv => applyQuant .unique .xor (applyNot f) g vars
  | .nand => applyQuant .unique .uniqueNand f g vars
  | .nor => applyQuant .unique .and (applyNot f) (applyNot g) vars
  | .imp => applyQuant .unique .uniqueNand f (applyNot g) vars
  | .impStrict => applyQuant .unique .and (applyNot f) g vars

/-- `apply_forall_edge`, `apply_exists_edge`, `apply_unique_edge` -/
def applyQuantOp (q : Quant) (op : Op) (f g vars : Edge) : Edge :=
  match q with
  | .forall_ => applyQuantDispatch .forall_ .exists_ op f g vars
  | .exists_ => applyQuantDispatch .exists_ .forall_ op f g vars
  | .unique => applyQuantUniqueDispatch op f g vars

/-- `restrict` including its tail-recursive `inner` walk over the literal cube `vars`.
`fneg`/`vneg` are the accumulated polarities `f_neg`/`vars_neg`; only the *nodes* of `f` and
`vars` matter once the polarities are tracked. A terminal `f` or `vars` returns `f` (first lines
of `restrict`; inside `inner` the last `if let Node::Inner(fnode)` test). -/
def restrictGo (fn : CNode) (fneg : Bool) (vn : CNode) (vneg : Bool) : Edge :=
  match fn, vn with
  | .node fl ft fen fe, .node vl vt ven ve =>
    if vl > fl then
      -- `InnerResult::Rec`: f above the top-most restrict variable; the children are the raw
      -- `fnode.child(0|1)`, the polarity of `f` is applied to the result
      let t := restrictGo ft false (.node vl vt ven ve) vneg
      let e := restrictGo fe fen (.node vl vt ven ve) vneg
      let r := mk fl t e
      ⟨r.neg != fneg, r.n⟩
    else if vl < fl then
      -- vars above f
      match vt with
      | .node l1 a1 b1 c1 => restrictGo (.node fl ft fen fe) fneg (.node l1 a1 b1 c1) vneg  -- x ∧ φ (`vt.tag` is `None`)
      | .top =>
        if vneg then
          -- shape ¬x ∧ φ
          match ve with
          | .node l2 a2 b2 c2 => restrictGo (.node fl ft fen fe) fneg (.node l2 a2 b2 c2) (!ven)  -- `ve.tag != Complemented`
          | .top => ⟨fneg, .node fl ft fen fe⟩                                                 -- shape ¬x
        else ⟨fneg, .node fl ft fen fe⟩                                                        -- shape x
    else
      -- top var at the level of f ⇒ select accordingly
      match vt with
      | .node l1 a1 b1 c1 =>
        -- shape x ∧ φ ⇒ then branch `fnode.child(0)` (tag `None`)
        restrictGo ft fneg (.node l1 a1 b1 c1) vneg
      | .top =>
        if !vneg then ⟨fneg, ft⟩                    -- shape x ⇒ then branch
        else
          -- shape ¬x ∧ φ ⇒ else branch `fnode.child(1)`
          match ve with
          | .node l2 a2 b2 c2 => restrictGo fe (fneg != fen) (.node l2 a2 b2 c2) (!ven)
          | .top => ⟨fneg != fen, fe⟩               -- shape ¬x
  | _, _ => ⟨fneg, fn⟩
termination_by fn.size + vn.size
decreasing_by
  all_goals simp_wf
  all_goals simp only [CNode.size]
  all_goals omega

/-- `restrict_edge` -/
def restrict (f vars : Edge) : Edge := restrictGo f.n f.neg vars.n vars.neg

/-- the function of the variable at level `l` (`var_edge`): then `⊤`, else `¬⊤` -/
def var (l : Nat) : Edge := ⟨false, .node l .top true .top⟩
/-- `not_var` = `not(var)` -/
def notVar (l : Nat) : Edge := ⟨true, .node l .top true .top⟩

/-- `substitute` with the vector built by `substitute_prepare` (level ↦ replacement) -/
def substitute (subst : List Edge) (f : Edge) : Edge :=
  match f with
  | ⟨_, .top⟩ => f
  | ⟨fneg, .node l t en e⟩ =>
    match subst[l]? with
    | none => f                       -- `level >= subst.len()`
    | some r => applyIte r (substitute subst ⟨fneg, t⟩) (substitute subst ⟨fneg != en, e⟩)
termination_by f.size
decreasing_by all_goals (simp_wf; simp only [Edge.size, CNode.size]; omega)

/-- `substitute_prepare`: levels not mentioned are mapped to the variable of that level -/
def substPrepare (pairs : List (Nat × Edge)) : List Edge :=
  let len := pairs.foldl (fun m p => max m (p.1 + 1)) 0
  (List.range len).map fun l =>
    match pairs.lookup l with
    | some r => r
    | none => var l

/-- the choice made by `pick_cube*` at a node whose cofactors (tag pushed down) are `t`, `e` -/
def pickChoice (t e : Edge) (c : Bool) : Bool :=
  if isFalse t then false else if isFalse e then true else c

/-- `pick_cube_edge::inner`: the list of `(level, value)` decisions along the single path.
`tag` is the tag of the incoming edge. -/
def pickPath (choice : Nat → Bool) : Bool → CNode → List (Nat × Bool)
  | _, .top => []
  | tag, .node l t en e =>
    let c := pickChoice ⟨tag, t⟩ ⟨tag != en, e⟩ (choice l)
    if c then (l, true) :: pickPath choice tag t else (l, false) :: pickPath choice (tag != en) e

/-- `pick_cube_edge`: `none` for ⊥, the all-don't-care vector for ⊤ -/
def pickCube (choice : Nat → Bool) (f : Edge) : Option (List (Nat × Bool)) :=
  match f.n with
  | .top => if f.neg then none else some []
  | .node .. => some (pickPath choice f.neg f.n)

/-- `add_literal_to_cube` (complement_edge/mod.rs) -/
def addLiteralToCube (sub : Edge) (level : Nat) (positive : Bool) : Edge :=
  if positive then
    if sub.neg then ⟨true, .node level sub.n false .top⟩       -- children `[sub untagged, ⊤]`, tag kept
    else ⟨false, .node level sub.n true .top⟩                  -- children `[sub, ¬⊤]`
  else ⟨true, .node level .top (!sub.neg) sub.n⟩               -- children `[⊤, not(sub)]`, complemented

/-- `pick_cube_dd_edge::inner` -/
def pickCubeDDGo (choice : Nat → Bool) : Bool → CNode → Edge
  | tag, .top => ⟨tag, .top⟩
  | tag, .node l t en e =>
    let c := pickChoice ⟨tag, t⟩ ⟨tag != en, e⟩ (choice l)
    let sub := if c then pickCubeDDGo choice tag t else pickCubeDDGo choice (tag != en) e
    addLiteralToCube sub l c

def pickCubeDD (choice : Nat → Bool) (f : Edge) : Edge := pickCubeDDGo choice f.neg f.n

/-- `literal_set_pop` (local to `pick_cube_dd_set_edge`): drop the literals above level `until`,
following the cofactor that is not ⊥ -/
def literalSetPop : Bool → CNode → Nat → Edge
  | tag, .top, _ => ⟨tag, .top⟩
  | tag, .node l t en e, until_ =>
    if l < until_ then
      (if isFalse ⟨tag, t⟩ then literalSetPop (tag != en) e until_ else literalSetPop tag t until_)
    else ⟨tag, .node l t en e⟩

/-- the literal-set step of `pick_cube_dd_set_edge::inner` at a node of level `level`: the
remaining literal set and the requested polarity -/
def literalStep (ls : Edge) (level : Nat) : Edge × Bool :=
  let ls := literalSetPop ls.neg ls.n level
  match ls with
  | ⟨stag, .node sl st sen se⟩ =>
    if sl = level then
      (if isFalse ⟨stag != sen, se⟩ then (⟨stag, st⟩, true) else (⟨stag != sen, se⟩, false))
    else (ls, false)
  | ⟨_, .top⟩ => (ls, false)

/-- `pick_cube_dd_set_edge::inner` -/
def pickCubeDDSetGo : Bool → CNode → Edge → Edge
  | tag, .top, _ => ⟨tag, .top⟩
  | tag, .node l t en e, literalSet =>
    let (ls', c) := literalStep literalSet l
    let c := pickChoice ⟨tag, t⟩ ⟨tag != en, e⟩ c
    let sub := if c then pickCubeDDSetGo tag t ls' else pickCubeDDSetGo (tag != en) e ls'
    addLiteralToCube sub l c

def pickCubeDDSet (f literalSet : Edge) : Edge := pickCubeDDSetGo f.neg f.n literalSet

/-- `eval_edge::inner`: walk with the accumulated complement; `σ l = true` selects `child(0)` -/
def evalGo (σ : Nat → Bool) : Bool → Bool → CNode → Bool
  | complement, tag, .top => !(complement != tag)
  | complement, tag, .node l t en e =>
    if σ l then evalGo σ (complement != tag) false t else evalGo σ (complement != tag) en e

/-- `eval_edge` -/
def evalEdge (σ : Nat → Bool) (f : Edge) : Bool := evalGo σ false f.neg f.n

/-- `sat_count_edge::inner` over exact naturals: terminal value `2^vars` for `⊤`, `0` for `¬⊤`,
`(c_t + c_e) >> 1` with the tag pushed into the cofactors (no subtraction is used) -/
def satCountGo (vars : Nat) : Bool → CNode → Nat
  | tag, .top => if tag then 0 else 2 ^ vars
  | tag, .node _ t en e => (satCountGo vars tag t + satCountGo vars (tag != en) e) >>> 1

def satCount (vars : Nat) (f : Edge) : Nat := satCountGo vars f.neg f.n

/-- all distinct inner nodes (the nodes of the shared diagram: shared modulo the complement bit) -/
def innerNodes : CNode → List CNode → List CNode
  | .top, acc => acc
  | .node l t en e, acc =>
    if acc.contains (.node l t en e) then acc
    else .node l t en e :: innerNodes e (innerNodes t acc)

/-- `node_count`: distinct inner nodes plus the single terminal -/
def nodeCount (f : Edge) : Nat := (innerNodes f.n []).length + 1

end OxiddModel.Bcdd
