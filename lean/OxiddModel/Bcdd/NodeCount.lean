import OxiddModel.Bcdd.Canon

/-! `node_count`: the accumulating traversal returns every inner node (distinct subterm; nodes are
shared modulo the complement bit, which lives on the edges) exactly once. -/
namespace OxiddModel.Bcdd
open CNode

/-- `x` is an inner node occurring in the diagram rooted at `n` (`n` itself included) -/
def Sub (x : CNode) : CNode → Prop
  | .top => False
  | .node l t en e => x = .node l t en e ∨ Sub x t ∨ Sub x e

theorem Sub.size_le {x n : CNode} (h : Sub x n) : x.size ≤ n.size := by
  induction n with
  | top => cases h
  | node l t en e iht ihe =>
    rcases h with rfl | h | h
    · exact Nat.le_refl _
    · have := iht h; simp only [size]; omega
    · have := ihe h; simp only [size]; omega

theorem Sub.trans {a b c : CNode} (hab : Sub a b) (hbc : Sub b c) : Sub a c := by
  induction c with
  | top => cases hbc
  | node l t en e iht ihe =>
    rcases hbc with rfl | h | h
    · exact hab
    · exact .inr (.inl (iht h))
    · exact .inr (.inr (ihe h))

/-- a list of nodes is closed under taking inner sub-nodes -/
def SubClosed (acc : List CNode) : Prop := ∀ x ∈ acc, ∀ y, Sub y x → y ∈ acc

/-- the invariant of the accumulating traversal -/
theorem innerNodes_spec (n : CNode) : ∀ acc : List CNode, acc.Nodup → SubClosed acc →
    (innerNodes n acc).Nodup ∧ SubClosed (innerNodes n acc) ∧
      ∀ x, x ∈ innerNodes n acc ↔ x ∈ acc ∨ Sub x n := by
  induction n with
  | top =>
    intro acc hn hc
    refine ⟨hn, hc, fun x => ⟨.inl, ?_⟩⟩
    rintro (h | h)
    · exact h
    · cases h
  | node l t en e iht ihe =>
    intro acc hn hc
    simp only [innerNodes]
    split
    · rename_i h
      rw [List.contains_iff_mem] at h
      refine ⟨hn, hc, fun x => ⟨.inl, ?_⟩⟩
      rintro (h' | h')
      · exact h'
      · exact hc _ h x h'
    · rename_i h
      rw [List.contains_iff_mem] at h
      obtain ⟨n1, c1, m1⟩ := iht acc hn hc
      obtain ⟨n2, c2, m2⟩ := ihe (innerNodes t acc) n1 c1
      have hnot : CNode.node l t en e ∉ innerNodes e (innerNodes t acc) := by
        intro hm
        rcases (m2 _).mp hm with hm | hm
        · rcases (m1 _).mp hm with hm | hm
          · exact h hm
          · have := hm.size_le; simp only [size] at this; omega
        · have := hm.size_le; simp only [size] at this; omega
      refine ⟨List.nodup_cons.mpr ⟨hnot, n2⟩, ?_, ?_⟩
      · intro x hx y hy
        rcases List.mem_cons.mp hx with rfl | hx
        · rcases hy with rfl | hy | hy
          · exact List.mem_cons_self
          · exact List.mem_cons_of_mem _ ((m2 y).mpr (.inl ((m1 y).mpr (.inr hy))))
          · exact List.mem_cons_of_mem _ ((m2 y).mpr (.inr hy))
        · exact List.mem_cons_of_mem _ (c2 x hx y hy)
      · intro x
        simp only [List.mem_cons, m2, m1, Sub]
        constructor
        · rintro (h' | (h' | h') | h')
          · exact .inr (.inl h')
          · exact .inl h'
          · exact .inr (.inr (.inl h'))
          · exact .inr (.inr (.inr h'))
        · rintro (h' | h' | h' | h')
          · exact .inr (.inl (.inl h'))
          · exact .inl h'
          · exact .inr (.inl (.inr h'))
          · exact .inr (.inr h')

end OxiddModel.Bcdd
