import OxiddModel.Bcdd.Canon

/-! `pick_cube`, `pick_cube_dd`, `pick_cube_dd_set`: the picked cube is an implicant, the vector
and the diagram describe the same cube, and unforced decisions follow the caller's choice. -/
namespace OxiddModel.Bcdd
open CNode

/-- an assignment satisfies the literals of a path -/
def Sat (σ : Nat → Bool) (path : List (Nat × Bool)) : Prop := ∀ p ∈ path, σ p.1 = p.2

theorem isFalse_false_iff (e : Edge) : isFalse e = false ↔ e ≠ terminal false := by
  rw [Ne, ← isFalse_iff]; cases isFalse e <;> simp

/-- in a reduced diagram the two cofactors of a node are not both `⊥` -/
theorem cof_not_both_false {l : Nat} {t e : CNode} {en tag : Bool} (hr : Reduced (.node l t en e))
    (ht : isFalse ⟨tag, t⟩ = true) (he : isFalse ⟨tag != en, e⟩ = true) : False := by
  rw [isFalse_iff] at ht he
  simp only [terminal, Edge.mk.injEq] at ht he
  obtain ⟨h1, h2⟩ := ht
  obtain ⟨h3, h4⟩ := he
  subst h1 h2 h4
  exact hr.1 ⟨by cases en <;> simp_all, rfl⟩

/-- the edge taken by `pick_cube*` is never `⊥` -/
theorem pickChoice_child_ne_false {l : Nat} {t e : CNode} {en tag : Bool} (hr : Reduced (.node l t en e)) (c0 : Bool) :
    (if pickChoice ⟨tag, t⟩ ⟨tag != en, e⟩ c0 then (⟨tag, t⟩ : Edge) else ⟨tag != en, e⟩) ≠ terminal false := by
  unfold pickChoice
  cases ht : isFalse ⟨tag, t⟩
  · cases he : isFalse ⟨tag != en, e⟩
    · simp only [Bool.false_eq_true, if_false]
      cases c0
      · simp only [Bool.false_eq_true, if_false]; exact (isFalse_false_iff _).mp he
      · simp only [if_true]; exact (isFalse_false_iff _).mp ht
    · simp only [Bool.false_eq_true, if_false, if_true]
      exact (isFalse_false_iff _).mp ht
  · simp only [if_true, Bool.false_eq_true, if_false]
    cases he : isFalse ⟨tag != en, e⟩
    · exact (isFalse_false_iff _).mp he
    · exact (cof_not_both_false hr ht he).elim

/-! ## `pick_cube` -/

/-- C13: `pick_cube` returns `None` exactly for the edge `¬⊤` -/
theorem pickCube_none_iff (choice : Nat → Bool) (f : Edge) : pickCube choice f = none ↔ f = terminal false := by
  obtain ⟨neg, n⟩ := f
  cases n <;> cases neg <;> simp [pickCube, terminal]

/-- the cube picked from a reduced edge other than `⊥` implies the function -/
theorem pickPath_implies (choice : Nat → Bool) (n : CNode) : ∀ (tag : Bool), Reduced n →
    (⟨tag, n⟩ : Edge) ≠ terminal false → ∀ σ, Sat σ (pickPath choice tag n) → (⟨tag, n⟩ : Edge).eval σ = true := by
  induction n with
  | top =>
    intro tag _ hne σ _
    cases tag
    · rfl
    · exact absurd rfl hne
  | node l t en e iht ihe =>
    intro tag hr hne σ hs
    have hch := pickChoice_child_ne_false (tag := tag) hr (choice l)
    simp only [pickPath] at hs
    cases hc : pickChoice ⟨tag, t⟩ ⟨tag != en, e⟩ (choice l)
    · rw [hc] at hs hch
      simp only [Bool.false_eq_true, if_false] at hs hch
      have hl : σ l = false := hs (l, false) List.mem_cons_self
      rw [node_eval_false hl]
      exact ihe (tag != en) hr.2.2 hch σ (fun p hp => hs p (List.mem_cons_of_mem _ hp))
    · rw [hc] at hs hch
      simp only [if_true] at hs hch
      have hl : σ l = true := hs (l, true) List.mem_cons_self
      rw [node_eval_true hl]
      exact iht tag hr.2.1 hch σ (fun p hp => hs p (List.mem_cons_of_mem _ hp))

/-- unforced decisions follow the choice function: for every decision `p` on the path, either it is
the caller's choice for that level, or it is forced — keeping the decisions above `p` and flipping
`p` leaves no model of `f` -/
theorem pickPath_choice (choice : Nat → Bool) (n : CNode) : ∀ (tag : Bool) (pre : List (Nat × Bool))
    (p : Nat × Bool) (post : List (Nat × Bool)), pickPath choice tag n = pre ++ p :: post →
    p.2 = choice p.1 ∨ ∀ σ, Sat σ pre → σ p.1 = (!p.2) → (⟨tag, n⟩ : Edge).eval σ = false := by
  induction n with
  | top => intro tag pre p post h; simp [pickPath] at h
  | node l t en e iht ihe =>
    intro tag pre p post h
    simp only [pickPath] at h
    cases pre with
    | nil =>
      simp only [List.nil_append] at h
      unfold pickChoice at h
      cases ht : isFalse ⟨tag, t⟩
      · cases he : isFalse ⟨tag != en, e⟩
        · rw [ht, he] at h
          simp only [Bool.false_eq_true, if_false] at h
          left
          cases hc : choice l <;> rw [hc] at h <;> simp at h <;> rw [← h.1] <;> simp [hc]
        · rw [ht, he] at h
          simp only [Bool.false_eq_true, if_false, if_true, List.cons.injEq] at h
          right
          intro σ _ hσ
          rw [← h.1] at hσ
          simp only [Bool.not_true] at hσ
          rw [isFalse_iff] at he
          rw [node_eval_false hσ, he, terminal_eval]
      · rw [ht] at h
        simp only [if_true, Bool.false_eq_true, if_false, List.cons.injEq] at h
        right
        intro σ _ hσ
        rw [← h.1] at hσ
        simp only [Bool.not_false] at hσ
        rw [isFalse_iff] at ht
        rw [node_eval_true hσ, ht, terminal_eval]
    | cons r pre' =>
      cases hc : pickChoice ⟨tag, t⟩ ⟨tag != en, e⟩ (choice l)
      · rw [hc] at h
        simp only [Bool.false_eq_true, if_false, List.cons_append, List.cons.injEq] at h
        rcases ihe (tag != en) pre' p post h.2 with h1 | h1
        · exact Or.inl h1
        · right
          intro σ hs hσ
          have hl : σ l = false := by
            have := hs r List.mem_cons_self; rw [← h.1] at this; exact this
          rw [node_eval_false hl]
          exact h1 σ (fun x hx => hs x (List.mem_cons_of_mem _ hx)) hσ
      · rw [hc] at h
        simp only [if_true, List.cons_append, List.cons.injEq] at h
        rcases iht tag pre' p post h.2 with h1 | h1
        · exact Or.inl h1
        · right
          intro σ hs hσ
          have hl : σ l = true := by
            have := hs r List.mem_cons_self; rw [← h.1] at this; exact this
          rw [node_eval_true hl]
          exact h1 σ (fun x hx => hs x (List.mem_cons_of_mem _ hx)) hσ

/-! ## `pick_cube_dd` -/

theorem addLiteralToCube_eval (sub : Edge) (l : Nat) (c : Bool) (σ : Nat → Bool) :
    (addLiteralToCube sub l c).eval σ = ((σ l == c) && sub.eval σ) := by
  obtain ⟨sneg, sn⟩ := sub
  unfold addLiteralToCube
  cases c <;> cases sneg <;> cases h : σ l <;> simp [Edge.eval, CNode.eval, h]

/-- the diagram built by `pick_cube_dd` denotes exactly the cube of the vector of `pick_cube` -/
theorem pickCubeDDGo_eval (choice : Nat → Bool) (n : CNode) : ∀ (tag : Bool), Reduced n →
    (⟨tag, n⟩ : Edge) ≠ terminal false → ∀ σ,
    (pickCubeDDGo choice tag n).eval σ = (pickPath choice tag n).all (fun p => σ p.1 == p.2) := by
  induction n with
  | top =>
    intro tag _ hne σ
    cases tag
    · rfl
    · exact absurd rfl hne
  | node l t en e iht ihe =>
    intro tag hr hne σ
    have hch := pickChoice_child_ne_false (tag := tag) hr (choice l)
    simp only [pickCubeDDGo, pickPath]
    rw [addLiteralToCube_eval]
    cases hc : pickChoice ⟨tag, t⟩ ⟨tag != en, e⟩ (choice l)
    · rw [hc] at hch
      simp only [Bool.false_eq_true, if_false, List.all_cons] at hch ⊢
      rw [ihe (tag != en) hr.2.2 hch σ]
    · rw [hc] at hch
      simp only [if_true, List.all_cons] at hch ⊢
      rw [iht tag hr.2.1 hch σ]

theorem pickCubeDDGo_false (choice : Nat → Bool) : pickCubeDDGo choice true .top = terminal false := rfl

theorem addLiteralToCube_nf {sub : Edge} {l n : Nat} (c : Bool) (hn : n ≤ l) (hs : sub.NF (l+1))
    (hne : sub ≠ terminal false) : (addLiteralToCube sub l c).NF n := by
  obtain ⟨sneg, sn⟩ := sub
  unfold addLiteralToCube
  cases c <;> cases sneg <;>
    simp only [Bool.false_eq_true, if_false, if_true] <;>
    refine ⟨.node hn (by first | exact hs.1 | exact .top) (by first | exact hs.1 | exact .top), ?_, ?_, ?_⟩ <;>
    first
      | exact hs.2
      | trivial
      | (rintro ⟨h1, h2⟩
         simp only [terminal, Bool.not_false, Bool.not_true, ne_eq, Edge.mk.injEq, not_and, true_and] at *
         first | exact hne h2.symm | exact hne h2 | cases h1)

theorem addLiteralToCube_ne_false (sub : Edge) (l : Nat) (c : Bool) : addLiteralToCube sub l c ≠ terminal false := by
  unfold addLiteralToCube terminal
  cases c <;> cases sub.neg <;> simp

/-- the picked cube diagram is again ordered, reduced, then-edge regular -/
theorem pickCubeDDGo_nf (choice : Nat → Bool) (n : CNode) : ∀ (tag : Bool) (k : Nat), (⟨tag, n⟩ : Edge).NF k →
    (⟨tag, n⟩ : Edge) ≠ terminal false →
    (pickCubeDDGo choice tag n).NF k ∧ pickCubeDDGo choice tag n ≠ terminal false := by
  induction n with
  | top => intro tag k h hne; exact ⟨h, hne⟩
  | node l t en e iht ihe =>
    intro tag k h hne
    have hch := pickChoice_child_ne_false (tag := tag) h.2 (choice l)
    simp only [pickCubeDDGo]
    refine ⟨?_, addLiteralToCube_ne_false _ _ _⟩
    cases hc : pickChoice ⟨tag, t⟩ ⟨tag != en, e⟩ (choice l)
    · rw [hc] at hch
      simp only [Bool.false_eq_true, if_false] at hch ⊢
      have := ihe (tag != en) (l+1) (nf_cofE h _) hch
      exact addLiteralToCube_nf false (nf_node_le h) this.1 this.2
    · rw [hc] at hch
      simp only [if_true] at hch ⊢
      have := iht tag (l+1) (nf_cofT h _) hch
      exact addLiteralToCube_nf true (nf_node_le h) this.1 this.2

end OxiddModel.Bcdd
