import OxiddModel.Bcdd.PropertiesC13O

/-!
# BCDD: the `choice` callback may depend on the edge it is given

`pick_cube_edge` / `pick_cube_dd_edge` call `choice(manager, &edge, level)`. `PickSO.lean` models
callbacks that look at the level only. Here the callback is an arbitrary function of the edge and
the level (`pickWalkSE`, `pickCubeSE`, `pickCubeDdSE`), and it is shown that on ordered diagrams
this is no more general: because the levels strictly increase along the walk, the run with an
edge-dependent callback **is** the run with the level-only callback `levelChoice` that answers,
for each level, what the edge-dependent callback answers at the node of that level on the walk
(`pickSE_reduces`). All theorems of `PropertiesC13O.lean` transfer (`pickCubeSE_implicant`).
-/
namespace OxiddModel.Bcdd.PickEO
open OxiddModel.Bcdd OxiddModel.Bcdd.CNode OxiddModel.Bcdd.Refine OxiddModel.PickO
open OxiddModel.Bcdd.PickSO

/-- `pick_cube_edge::inner` with `choice(manager, &edge, level)` -/
def pickWalkSE (s : StoreC) (ce : EdgeC → Nat → Bool) : Nat → EdgeC → List (Nat × Bool)
  | 0, _ => []
  | fuel+1, x =>
    match x.tgt with
    | .term => []
    | .inner i =>
      match s.get? i with
      | none => []
      | some nd =>
        let t : EdgeC := ⟨x.neg, nd.t⟩
        let e : EdgeC := ⟨x.neg != nd.e.neg, nd.e.tgt⟩
        let c := decideS t e (ce x nd.level)
        (nd.level, c) :: pickWalkSE s ce fuel (if c then t else e)

def pickCubeSE (s : StoreC) (l2v : Nat → Nat) (n : Nat) (ce : EdgeC → Nat → Bool) (fuel : Nat)
    (x : EdgeC) : Option Vec :=
  match x.tgt with
  | .term => if x.neg then none else some (List.replicate n none)
  | .inner _ => some (writeVec l2v (toPath (pickWalkSE s ce fuel x)) (List.replicate n none))

/-- `pick_cube_dd_edge::inner` with `choice(manager, &edge, level)` -/
def pickCubeDdSE (ce : EdgeC → Nat → Bool) : Nat → StoreC → EdgeC → StoreC × EdgeC
  | 0, s, x => (s, x)
  | fuel+1, s, x =>
    match x.tgt with
    | .term => (s, x)
    | .inner i =>
      match s.get? i with
      | none => (s, x)
      | some nd =>
        let t : EdgeC := ⟨x.neg, nd.t⟩
        let e : EdgeC := ⟨x.neg != nd.e.neg, nd.e.tgt⟩
        let c := decideS t e (ce x nd.level)
        let sub := pickCubeDdSE ce fuel s (if c then t else e)
        addLiteralS sub.1 sub.2 nd.level c

/-- the level-only callback that reproduces the answers of `ce` along the walk from `x` -/
def levelChoice (s : StoreC) (ce : EdgeC → Nat → Bool) : Nat → EdgeC → Nat → Bool
  | 0, _ => fun _ => false
  | fuel+1, x =>
    match x.tgt with
    | .term => fun _ => false
    | .inner i =>
      match s.get? i with
      | none => fun _ => false
      | some nd =>
        let t : EdgeC := ⟨x.neg, nd.t⟩
        let e : EdgeC := ⟨x.neg != nd.e.neg, nd.e.tgt⟩
        let c := decideS t e (ce x nd.level)
        fun l => if l = nd.level then ce x nd.level else levelChoice s ce fuel (if c then t else e) l

/-- the walk reads the level callback only at levels of the (ordered) diagram -/
theorem pickWalkS_congr {s : StoreC} (ch ch' : Nat → Bool) : ∀ (fuel : Nat) (tg : Tgt) (a : CNode)
    (k : Nat) (tag : Bool), DenN s tg a → Ordered k a → (∀ l, k ≤ l → ch l = ch' l) →
    pickWalkS s ch fuel ⟨tag, tg⟩ = pickWalkS s ch' fuel ⟨tag, tg⟩ := by
  intro fuel
  induction fuel with
  | zero => intros; rfl
  | succ fuel ih =>
    intro tg a k tag hd ho hag
    cases hd with
    | term => rfl
    | @inner i l t en e tt te hi ht he =>
      cases ho with
      | node hk ot oe =>
        simp only [pickWalkS, hi]
        rw [hag l hk]
        cases decideS ⟨tag, t⟩ ⟨tag != en, e⟩ (ch' l)
        · simp only [Bool.false_eq_true, if_false]
          rw [ih e te (l+1) (tag != en) he oe (fun l' hl' => hag l' (by omega))]
        · simp only [if_true]
          rw [ih t tt (l+1) tag ht ot (fun l' hl' => hag l' (by omega))]

theorem pickCubeDdS_congr (ch ch' : Nat → Bool) : ∀ (fuel : Nat) (s : StoreC) (tg : Tgt) (a : CNode)
    (k : Nat) (tag : Bool), DenN s tg a → Ordered k a → (∀ l, k ≤ l → ch l = ch' l) →
    pickCubeDdS ch fuel s ⟨tag, tg⟩ = pickCubeDdS ch' fuel s ⟨tag, tg⟩ := by
  intro fuel
  induction fuel with
  | zero => intros; rfl
  | succ fuel ih =>
    intro s tg a k tag hd ho hag
    cases hd with
    | term => rfl
    | @inner i l t en e tt te hi ht he =>
      cases ho with
      | node hk ot oe =>
        simp only [pickCubeDdS, hi]
        rw [hag l hk]
        cases decideS ⟨tag, t⟩ ⟨tag != en, e⟩ (ch' l)
        · simp only [Bool.false_eq_true, if_false]
          rw [ih s e te (l+1) (tag != en) he oe (fun l' hl' => hag l' (by omega))]
        · simp only [if_true]
          rw [ih s t tt (l+1) tag ht ot (fun l' hl' => hag l' (by omega))]

/-- the edge-dependent walk is the level-only walk with `levelChoice` -/
theorem pickWalkSE_eq {s : StoreC} (ce : EdgeC → Nat → Bool) : ∀ (fuel : Nat) (tg : Tgt) (a : CNode)
    (k : Nat) (tag : Bool), DenN s tg a → Ordered k a →
    pickWalkSE s ce fuel ⟨tag, tg⟩ = pickWalkS s (levelChoice s ce fuel ⟨tag, tg⟩) fuel ⟨tag, tg⟩ := by
  intro fuel
  induction fuel with
  | zero => intros; rfl
  | succ fuel ih =>
    intro tg a k tag hd ho
    cases hd with
    | term => rfl
    | @inner i l t en e tt te hi ht he =>
      cases ho with
      | node hk ot oe =>
        simp only [pickWalkSE, pickWalkS, levelChoice, hi, if_true]
        cases decideS ⟨tag, t⟩ ⟨tag != en, e⟩ (ce ⟨tag, .inner i⟩ l)
        · simp only [Bool.false_eq_true, if_false]
          rw [ih e te (l+1) (tag != en) he oe]
          rw [pickWalkS_congr _ _ fuel e te (l+1) (tag != en) he oe]
          intro l' hl'
          have : ¬ l' = l := by omega
          simp [this]
        · simp only [if_true]
          rw [ih t tt (l+1) tag ht ot]
          rw [pickWalkS_congr _ _ fuel t tt (l+1) tag ht ot]
          intro l' hl'
          have : ¬ l' = l := by omega
          simp [this]

theorem pickCubeDdSE_eq (ce : EdgeC → Nat → Bool) : ∀ (fuel : Nat) (s : StoreC) (tg : Tgt) (a : CNode)
    (k : Nat) (tag : Bool), DenN s tg a → Ordered k a →
    pickCubeDdSE ce fuel s ⟨tag, tg⟩ = pickCubeDdS (levelChoice s ce fuel ⟨tag, tg⟩) fuel s ⟨tag, tg⟩ := by
  intro fuel
  induction fuel with
  | zero => intros; rfl
  | succ fuel ih =>
    intro s tg a k tag hd ho
    cases hd with
    | term => rfl
    | @inner i l t en e tt te hi ht he =>
      cases ho with
      | node hk ot oe =>
        simp only [pickCubeDdSE, pickCubeDdS, levelChoice, hi, if_true]
        cases decideS ⟨tag, t⟩ ⟨tag != en, e⟩ (ce ⟨tag, .inner i⟩ l)
        · simp only [Bool.false_eq_true, if_false]
          rw [ih s e te (l+1) (tag != en) he oe]
          rw [pickCubeDdS_congr _ _ fuel s e te (l+1) (tag != en) he oe]
          intro l' hl'
          have : ¬ l' = l := by omega
          simp [this]
        · simp only [if_true]
          rw [ih s t tt (l+1) tag ht ot]
          rw [pickCubeDdS_congr _ _ fuel s t tt (l+1) tag ht ot]
          intro l' hl'
          have : ¬ l' = l := by omega
          simp [this]

/-- **Edge-dependent callbacks add nothing**: for every callback `ce` of the edge and the level
there is a level-only callback with which `pick_cube` and `pick_cube_dd` behave identically on
this input (store, result edge, vector). -/
theorem pickSE_reduces (s : StoreC) (l2v : Nat → Nat) (n : Nat) (ce : EdgeC → Nat → Bool)
    (fuel : Nat) (x : EdgeC) (a : Edge) (hd : DenotesC s x a) (k : Nat) (ho : Ordered k a.n) :
    ∃ ch : Nat → Bool,
      pickWalkSE s ce fuel x = pickWalkS s ch fuel x ∧
      pickCubeSE s l2v n ce fuel x = pickCubeS s l2v n ch fuel x ∧
      pickCubeDdSE ce fuel s x = pickCubeDdS ch fuel s x := by
  obtain ⟨xn, xt⟩ := x
  obtain ⟨an, at'⟩ := a
  obtain ⟨e1, e2⟩ := hd
  simp only at e1 e2 ho
  subst e1
  have hw := pickWalkSE_eq ce fuel xt at' k xn e2 ho
  refine ⟨levelChoice s ce fuel ⟨xn, xt⟩, hw, ?_, pickCubeDdSE_eq ce fuel s xt at' k xn e2 ho⟩
  cases xt with
  | term => rfl
  | inner i => simp only [pickCubeSE, pickCubeS, hw]

/-- the implicant theorem for arbitrary callbacks -/
theorem pickCubeSE_implicant (s : StoreC) (l2v : Nat → Nat) (n : Nat) (ho : OrderOK l2v n)
    (ce : EdgeC → Nat → Bool) (fuel : Nat) (x : EdgeC) (a : Edge) (hd : DenotesC s x a) (ha : a.NF 0)
    (hb : LevelsBelow n a.n) (hf : a.n.size ≤ fuel) (vec : Vec)
    (h : pickCubeSE s l2v n ce fuel x = some vec) (ρ : Nat → Bool) (hag : Agree ρ vec) :
    a.eval (fun l => ρ (l2v l)) = true := by
  obtain ⟨ch, _, h2, _⟩ := pickSE_reduces s l2v n ce fuel x a hd 0 ha.1
  rw [h2] at h
  exact C13O.pickCubeS_implicant s l2v n ho ch fuel x a hd ha hb hf vec h ρ hag

/-- non-vacuity: a callback that looks at the tag of the edge it is given -/
example : pickCubeSE C13O.sXor C13O.cyc3 3 (fun y _ => y.neg) 7 ⟨true, .inner 1⟩ =
    some [none, some true, some false] := by decide

end OxiddModel.Bcdd.PickEO
