import OxiddModel.Bcdd.RcSLemmasAlg
import OxiddModel.Bcdd.PickSO

/-!
# BCDD `pick_cube_dd` with reference counters and node capacity

`pickCubeDdR cap choice` is `pick_cube_dd_edge::inner` of
`crates/oxidd-rules-bdd/src/complement_edge/apply_rec.rs` on the counted store of `Bcdd/RcS.lean`:

* terminal: `Ok(manager.clone_edge(&edge))`;
* node: `let sub = inner(child)?; add_literal_to_cube(manager, sub, level, c)`;
* `add_literal_to_cube` (`addLiteralR`): `sub` is owned (`EdgeDropGuard`), `get_terminal` is the
  static terminal (no counter), the children `[sub↓, ⊤]` / `[sub, ¬⊤]` / `[⊤, ¬sub]` with the result
  tag are exactly what `reduceRaw` builds from the pair `(sub, ⊥)` resp. `(⊥, sub)`, then
  `LevelView::get_or_insert` with its three outcomes (hit: children dropped, found node cloned;
  miss with room: children move into the node; miss without room: children dropped,
  `OutOfMemory`). This is `mkNodeR` for a pair of *different* edges; the `t == e` branch of
  `mkNodeR` has no counterpart in `add_literal_to_cube` and would be reached only for `sub = ⊥`,
  which `pickCubeDdR_ne_false` excludes (the code: `debug_assert!(!is_false(manager, &sub))`).

Theorems: `pickCubeDdR_rc` (counters exact on success and on OutOfMemory, for every capacity and
fuel, no semantic hypothesis), `pickCubeDdR_ne_false`, `pickCubeDdR_erase` (forgetting the
counters a successful run is the run of `pickCubeDdS` of `PickSO.lean`; cache and time stamp are
untouched).
-/
namespace OxiddModel.Bcdd.PickRO
open OxiddModel.Bcdd OxiddModel.Bcdd.Refine OxiddModel.Bcdd.Rc OxiddModel.Bcdd.PickSO

/-- `add_literal_to_cube` with counters -/
def addLiteralR (cap : Nat) (r : RStC) (sub : EdgeC) (level : Nat) (c : Bool) : Option EdgeC × RStC :=
  mkNodeR cap r level (if c then sub else termC false) (if c then termC false else sub)

/-- `let sub = inner(..)?; add_literal_to_cube(manager, sub, level, c)` -/
def pickNodeR (cap : Nat) (level : Nat) (c : Bool) : Option EdgeC × RStC → Option EdgeC × RStC
  | (none, r1) => (none, r1)
  | (some x, r1) => addLiteralR cap r1 x level c

/-- `pick_cube_dd_edge::inner` with counters -/
def pickCubeDdR (cap : Nat) (choice : Nat → Bool) : Nat → RStC → EdgeC → Option EdgeC × RStC
  | 0, r, x => (some x, cloneEdge r x)
  | fuel+1, r, x =>
    match x.tgt with
    | .term => (some x, cloneEdge r x)
    | .inner i =>
      match r.st.store.get? i with
      | none => (some x, cloneEdge r x)
      | some nd =>
        let t : EdgeC := ⟨x.neg, nd.t⟩
        let e : EdgeC := ⟨x.neg != nd.e.neg, nd.e.tgt⟩
        let c := decideS t e (choice nd.level)
        pickNodeR cap nd.level c (pickCubeDdR cap choice fuel r (if c then t else e))

/-! ## counters -/

theorem addLiteralR_rc {cap : Nat} {r : RStC} {sub : EdgeC} {l : Nat} {c : Bool} {ext : List EdgeC}
    (h : RcInv r (sub :: ext)) :
    match addLiteralR cap r sub l c with
    | (some x, r') => RcInv r' (x :: ext)
    | (none, r') => RcInv r' ext := by
  have h2 : RcInv r (termC false :: sub :: ext) := cloneEdge_rc (x := termC false) h trivial
  unfold addLiteralR
  cases c
  · exact mkNodeR_rc h2
  · exact mkNodeR_rc h2.swap

theorem addLiteralR_le (cap : Nat) (r : RStC) (sub : EdgeC) (l : Nat) (c : Bool) :
    r.st.store.Le (addLiteralR cap r sub l c).2.st.store := mkNodeR_le _ _ _ _ _

/-- **counters exact**: from a state with exact counters for the caller's edges `ext`, a run of
`pick_cube_dd` ends with exact counters for `result :: ext` on success and for `ext` on
OutOfMemory; the store is only extended. For every capacity, choice, fuel and stored edge. -/
theorem pickCubeDdR_rc (cap : Nat) (choice : Nat → Bool) (fuel : Nat) : ∀ (r : RStC) (x : EdgeC)
    (ext : List EdgeC), RcInv r ext → r.st.store.has x → RcPost r ext (pickCubeDdR cap choice fuel r x) := by
  induction fuel with
  | zero => intro r x ext h hx; exact RcPost.clone h hx
  | succ fuel ih =>
    intro r x ext h hx
    unfold pickCubeDdR
    cases hxt : x.tgt with
    | term => exact RcPost.clone h hx
    | inner i =>
      simp only
      cases hi : r.st.store.get? i with
      | none => exact RcPost.clone h hx
      | some nd =>
        simp only
        have hk := h.kids_ok i nd hi
        have hchild : r.st.store.has (if decideS ⟨x.neg, nd.t⟩ ⟨x.neg != nd.e.neg, nd.e.tgt⟩ (choice nd.level) = true
            then (⟨x.neg, nd.t⟩ : EdgeC) else ⟨x.neg != nd.e.neg, nd.e.tgt⟩) := by
          split
          · exact hk.1
          · exact hk.2
        have hs := ih r _ ext h hchild
        revert hs
        generalize pickCubeDdR cap choice fuel r _ = R
        obtain ⟨o, r1⟩ := R
        intro hs
        cases o with
        | none => exact hs
        | some y =>
          simp only [pickNodeR]
          have := addLiteralR_rc (cap := cap) (l := nd.level)
            (c := decideS ⟨x.neg, nd.t⟩ ⟨x.neg != nd.e.neg, nd.e.tgt⟩ (choice nd.level)) hs.2
          refine ⟨hs.1.trans (addLiteralR_le _ _ _ _ _), ?_⟩
          exact this

/-! ## the result is never `⊥`, so `mkNodeR` is only used on different edges -/

theorem decideS_child_ne_false {t e : EdgeC} (h : ¬(isFalseS t = true ∧ isFalseS e = true)) (c : Bool) :
    isFalseS (if decideS t e c = true then t else e) = false := by
  unfold decideS
  cases ht : isFalseS t <;> cases he : isFalseS e <;> simp_all
  cases c <;> simp [ht, he]

theorem nored_cof {s : StoreC} (hr : s.NoRed) {i : Nat} {nd : NodeC} (hi : s.get? i = some nd) (tag : Bool) :
    ¬(isFalseS ⟨tag, nd.t⟩ = true ∧ isFalseS ⟨tag != nd.e.neg, nd.e.tgt⟩ = true) := by
  intro ⟨h1, h2⟩
  apply hr i nd hi
  obtain ⟨l, t, ⟨en, et⟩⟩ := nd
  cases t <;> cases et <;> cases tag <;> cases en <;> simp_all [isFalseS]

theorem isFalseS_termC_false : isFalseS (termC false) = true := rfl

theorem mkNodeR_inner {cap : Nat} {r : RStC} {l : Nat} {t e : EdgeC} (hte : t ≠ e) (y : EdgeC)
    (h : (mkNodeR cap r l t e).1 = some y) : isFalseS y = false := by
  unfold mkNodeR at h
  simp only [hte, if_false] at h
  split at h
  · cases h; rfl
  · split at h
    · cases h; rfl
    · cases h

theorem addLiteralR_ne_false {cap : Nat} {r : RStC} {sub : EdgeC} {l : Nat} {c : Bool}
    (hs : isFalseS sub = false) (y : EdgeC) (h : (addLiteralR cap r sub l c).1 = some y) :
    isFalseS y = false := by
  have hne : sub ≠ termC false := fun he => by rw [he] at hs; cases hs
  unfold addLiteralR at h
  cases c
  · exact mkNodeR_inner (fun he => hne he.symm) y h
  · exact mkNodeR_inner hne y h

/-- in a reduced store the result of `pick_cube_dd` on an edge other than `⊥` is not `⊥`: the
precondition `!is_false(sub)` of `add_literal_to_cube` holds at every call -/
theorem pickCubeDdR_ne_false (cap : Nat) (choice : Nat → Bool) (fuel : Nat) : ∀ (r : RStC) (x : EdgeC),
    r.st.store.NoRed → isFalseS x = false → ∀ y, (pickCubeDdR cap choice fuel r x).1 = some y →
    isFalseS y = false := by
  induction fuel with
  | zero => intro r x _ hx y h; simp only [pickCubeDdR, Option.some.injEq] at h; rw [← h]; exact hx
  | succ fuel ih =>
    intro r x hr hx y h
    unfold pickCubeDdR at h
    cases hxt : x.tgt with
    | term => simp only [hxt, Option.some.injEq] at h; rw [← h]; exact hx
    | inner i =>
      simp only [hxt] at h
      cases hi : r.st.store.get? i with
      | none => simp only [hi, Option.some.injEq] at h; rw [← h]; exact hx
      | some nd =>
        simp only [hi] at h
        have hch := decideS_child_ne_false (nored_cof hr hi x.neg) (choice nd.level)
        have hs := ih r _ hr hch
        revert h hs
        generalize pickCubeDdR cap choice fuel r _ = R
        obtain ⟨o, r1⟩ := R
        intro h hs
        cases o with
        | none => simp [pickNodeR] at h
        | some z =>
          simp only [pickNodeR] at h
          exact addLiteralR_ne_false (hs z rfl) y h

/-! ## erasure -/

theorem addLiteralS_eq_mkNodeC (s : StoreC) (sub : EdgeC) (l : Nat) (c : Bool)
    (hs : isFalseS sub = false) :
    addLiteralS s sub l c =
      s.mkNodeC l (if c then sub else termC false) (if c then termC false else sub) := by
  have hne : sub ≠ termC false := fun he => by rw [he] at hs; cases hs
  obtain ⟨sneg, stg⟩ := sub
  unfold addLiteralS StoreC.mkNodeC
  cases c
  · have : ¬ ((⟨true, .term⟩ : EdgeC) = ⟨sneg, stg⟩) := fun he => hne he.symm
    simp only [Bool.false_eq_true, if_false, termC, Bool.not_false, if_true, this]
  · simp only [if_true, hne, if_false]
    cases sneg <;> simp [termC]

/-- **a successful counted run is the plain run**: same store, same result edge; cache and time
stamp are not touched (`pick_cube_dd` does not use the apply cache) -/
theorem pickCubeDdR_erase (cap : Nat) (choice : Nat → Bool) (fuel : Nat) : ∀ (r : RStC) (x : EdgeC),
    r.st.store.NoRed → isFalseS x = false →
    (pickCubeDdR cap choice fuel r x).2.st.cache = r.st.cache ∧
    (pickCubeDdR cap choice fuel r x).2.st.tick = r.st.tick ∧
    ∀ y, (pickCubeDdR cap choice fuel r x).1 = some y →
      pickCubeDdS choice fuel r.st.store x = ((pickCubeDdR cap choice fuel r x).2.st.store, y) := by
  induction fuel with
  | zero =>
    intro r x _ _
    simp only [pickCubeDdR, pickCubeDdS, cloneEdge_st, Option.some.injEq, true_and]
    intro y h; rw [h]
  | succ fuel ih =>
    intro r x hr hx
    unfold pickCubeDdR pickCubeDdS
    cases hxt : x.tgt with
    | term =>
      simp only [cloneEdge_st, Option.some.injEq, true_and]
      intro y h; rw [h]
    | inner i =>
      simp only
      cases hi : r.st.store.get? i with
      | none =>
        simp only [cloneEdge_st, Option.some.injEq, true_and]
        intro y h; rw [h]
      | some nd =>
        simp only
        have hch := decideS_child_ne_false (nored_cof hr hi x.neg) (choice nd.level)
        obtain ⟨c1, c2, c3⟩ := ih r _ hr hch
        have hnf := pickCubeDdR_ne_false cap choice fuel r _ hr hch
        revert c1 c2 c3 hnf
        generalize pickCubeDdR cap choice fuel r _ = R
        obtain ⟨o, r1⟩ := R
        intro c1 c2 c3 hnf
        cases o with
        | none => simp only [pickNodeR]; exact ⟨c1, c2, fun y h => by cases h⟩
        | some z =>
          simp only [pickNodeR, addLiteralR]
          have hz := c3 z rfl
          simp only at hz
          obtain ⟨m1, m2, m3⟩ := mkNodeR_erase cap r1 nd.level
            (if decideS ⟨x.neg, nd.t⟩ ⟨x.neg != nd.e.neg, nd.e.tgt⟩ (choice nd.level) = true then z else termC false)
            (if decideS ⟨x.neg, nd.t⟩ ⟨x.neg != nd.e.neg, nd.e.tgt⟩ (choice nd.level) = true then termC false else z)
          refine ⟨m1.trans c1, m2.trans c2, ?_⟩
          intro y hy
          rw [hz]
          simp only
          rw [addLiteralS_eq_mkNodeC _ _ _ _ (hnf z rfl)]
          rw [hy] at m3
          exact m3

end OxiddModel.Bcdd.PickRO
