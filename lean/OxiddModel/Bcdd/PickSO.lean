import OxiddModel.Bcdd.Pick
import OxiddModel.Bcdd.StoreRefine
import OxiddModel.Bcdd.PickVecO

/-!
# BCDD `pick_cube` / `pick_cube_dd` over the node store, under an arbitrary variable order

Store-level mirror of `pick_cube_edge` and `pick_cube_dd_edge` of
`crates/oxidd-rules-bdd/src/complement_edge/apply_rec.rs`:

* `pickWalkS`: `pick_cube_edge::inner` — `get_node`, `collect_cofactors(tag, node)` (the tag of
  the incoming edge is pushed to both cofactors, `tag ⊕ child(1).tag` on the else side),
  `is_false(t)` → `false`, else `is_false(e)` → `true`, else `choice(level)`; the decision
  `(level, c)` is recorded and the walk continues in the selected cofactor;
* `pickCubeS l2v n`: `pick_cube_edge` — terminal case on the tag (`None` ⇒ all don't-care,
  `Complemented` ⇒ `None`), otherwise a vector of `num_levels` entries `OptBool::None` into which
  the decisions are written **at index `level_to_var(level)`** (`PickO.writeVec l2v`);
* `pickCubeByLevelS`: the defective variant that writes at index `level`;
* `addLiteralS`: `add_literal_to_cube` (complement_edge/mod.rs) with `get_or_insert` on the store;
* `pickCubeDdS`: `pick_cube_dd_edge::inner`.

The recursion on the store is by fuel (the code recurses on the acyclic node graph); every theorem
holds for every fuel that is at least the size of the denoted tree.

Bridges: under `DenN s x.tgt a` the store walk is the tree walk `pickPath` of `Bcdd/Model.lean`
(`pickWalkS_eq`), and `pickCubeDdS` returns an edge denoting `pickCubeDDGo` in an extended store
that stays duplicate-free (`pickCubeDdS_spec`).
-/
namespace OxiddModel.Bcdd.PickSO
open OxiddModel.Bcdd OxiddModel.Bcdd.CNode OxiddModel.Bcdd.Refine OxiddModel.PickO

/-- `is_false(manager, edge)`: complemented edge to the terminal -/
def isFalseS (x : EdgeC) : Bool :=
  match x.tgt with
  | .term => x.neg
  | .inner _ => false

/-- the decision taken at a node: forced by a `⊥` cofactor, else the caller's choice -/
def decideS (t e : EdgeC) (c : Bool) : Bool :=
  if isFalseS t then false else if isFalseS e then true else c

/-- `pick_cube_edge::inner` on the store -/
def pickWalkS (s : StoreC) (choice : Nat → Bool) : Nat → EdgeC → List (Nat × Bool)
  | 0, _ => []
  | fuel+1, x =>
    match x.tgt with
    | .term => []
    | .inner i =>
      match s.get? i with
      | none => []
      | some nd =>
        let t : EdgeC := ⟨x.neg, nd.t⟩
        let e : EdgeC := ⟨x.neg != nd.e.neg, nd.e.tgt⟩
        let c := decideS t e (choice nd.level)
        (nd.level, c) :: pickWalkS s choice fuel (if c then t else e)

/-- the decisions as writes into the cube vector -/
def toPath (w : List (Nat × Bool)) : Path := w.map fun p => (p.1, some p.2)

/-- `pick_cube_edge`: vector indexed by variable -/
def pickCubeS (s : StoreC) (l2v : Nat → Nat) (n : Nat) (choice : Nat → Bool) (fuel : Nat)
    (x : EdgeC) : Option Vec :=
  match x.tgt with
  | .term => if x.neg then none else some (List.replicate n none)
  | .inner _ => some (writeVec l2v (toPath (pickWalkS s choice fuel x)) (List.replicate n none))

/-- the defective variant: entries written at index `level` -/
def pickCubeByLevelS (s : StoreC) (n : Nat) (choice : Nat → Bool) (fuel : Nat) (x : EdgeC) :
    Option Vec := pickCubeS s id n choice fuel x

/-- `add_literal_to_cube`: children `[sub untagged, ⊤]` / `[sub, ¬⊤]` / `[⊤, not(sub)]`, inserted
with `get_or_insert` (no reduction rule needed: the children differ) -/
def addLiteralS (s : StoreC) (sub : EdgeC) (level : Nat) (positive : Bool) : StoreC × EdgeC :=
  if positive then
    if sub.neg then
      let r := s.getOrInsert ⟨level, sub.tgt, ⟨false, .term⟩⟩
      (r.1, ⟨true, .inner r.2⟩)
    else
      let r := s.getOrInsert ⟨level, sub.tgt, ⟨true, .term⟩⟩
      (r.1, ⟨false, .inner r.2⟩)
  else
    let r := s.getOrInsert ⟨level, .term, ⟨!sub.neg, sub.tgt⟩⟩
    (r.1, ⟨true, .inner r.2⟩)

/-- `pick_cube_dd_edge::inner` on the store -/
def pickCubeDdS (choice : Nat → Bool) : Nat → StoreC → EdgeC → StoreC × EdgeC
  | 0, s, x => (s, x)
  | fuel+1, s, x =>
    match x.tgt with
    | .term => (s, x)
    | .inner i =>
      match s.get? i with
      | none => (s, x)
      | some nd =>
        let t : EdgeC := ⟨x.neg, nd.t⟩
        let e : EdgeC := ⟨x.neg != nd.e.neg, nd.e.tgt⟩
        let c := decideS t e (choice nd.level)
        let sub := pickCubeDdS choice fuel s (if c then t else e)
        addLiteralS sub.1 sub.2 nd.level c

/-- all levels of the tree are levels of a manager with `n` levels -/
def LevelsBelow (n : Nat) : CNode → Prop
  | .top => True
  | .node l t _ e => l < n ∧ LevelsBelow n t ∧ LevelsBelow n e

/-! ## bridge to the tree level -/

theorem isFalseS_eq {s : StoreC} {tg : Tgt} {a : CNode} (h : DenN s tg a) (b : Bool) :
    isFalseS ⟨b, tg⟩ = isFalse ⟨b, a⟩ := by
  cases h <;> cases b <;> rfl

theorem decideS_eq {s : StoreC} {tt te : Tgt} {at' ae : CNode} (ht : DenN s tt at')
    (he : DenN s te ae) (b1 b2 c : Bool) :
    decideS ⟨b1, tt⟩ ⟨b2, te⟩ c = pickChoice ⟨b1, at'⟩ ⟨b2, ae⟩ c := by
  unfold decideS pickChoice
  rw [isFalseS_eq ht, isFalseS_eq he]

/-- the store walk is the tree walk -/
theorem pickWalkS_eq {s : StoreC} (choice : Nat → Bool) {tg : Tgt} {a : CNode} (h : DenN s tg a) :
    ∀ (fuel : Nat) (tag : Bool), a.size ≤ fuel →
      pickWalkS s choice fuel ⟨tag, tg⟩ = pickPath choice tag a := by
  induction h with
  | term => intro fuel tag _; cases fuel <;> rfl
  | @inner i l t en e tt te hi ht he iht ihe =>
    intro fuel tag hf
    cases fuel with
    | zero => simp [CNode.size] at hf
    | succ fuel =>
      simp only [CNode.size] at hf
      simp only [pickWalkS, hi, pickPath]
      rw [decideS_eq ht he]
      cases hc : pickChoice ⟨tag, tt⟩ ⟨tag != en, te⟩ (choice l)
      · simp only [Bool.false_eq_true, if_false]
        rw [ihe fuel (tag != en) (by omega)]
      · simp only [if_true]
        rw [iht fuel tag (by omega)]

/-- `add_literal_to_cube` on the store refines the tree-level one -/
theorem addLiteralS_spec (s : StoreC) (sub : EdgeC) (a : Edge) (l : Nat) (c : Bool)
    (hd : DenotesC s sub a) :
    s.Le (addLiteralS s sub l c).1 ∧ (s.Unique → (addLiteralS s sub l c).1.Unique) ∧
    DenotesC (addLiteralS s sub l c).1 (addLiteralS s sub l c).2 (addLiteralToCube a l c) := by
  obtain ⟨sneg, stg⟩ := sub
  obtain ⟨aneg, an⟩ := a
  obtain ⟨h1, h2⟩ := hd
  simp only at h1 h2
  subst h1
  unfold addLiteralS addLiteralToCube
  cases c <;> cases sneg <;>
    simp only [Bool.false_eq_true, if_false, if_true, Bool.not_false, Bool.not_true] <;>
    refine ⟨getOrInsert_le _ _, fun hu => getOrInsert_unique _ _ hu, rfl, ?_⟩ <;>
    exact .inner (getOrInsert_get _ _) (by first | exact .term | exact h2.mono (getOrInsert_le _ _))
      (by first | exact .term | exact h2.mono (getOrInsert_le _ _))

/-- `pick_cube_dd` on the store: the store is only extended, stays duplicate-free, and the
returned edge denotes the tree-level `pickCubeDDGo` -/
theorem pickCubeDdS_spec (choice : Nat → Bool) (a : CNode) :
    ∀ (s : StoreC) (tg : Tgt) (fuel : Nat) (tag : Bool), DenN s tg a → a.size ≤ fuel →
      s.Le (pickCubeDdS choice fuel s ⟨tag, tg⟩).1 ∧
      (s.Unique → (pickCubeDdS choice fuel s ⟨tag, tg⟩).1.Unique) ∧
      DenotesC (pickCubeDdS choice fuel s ⟨tag, tg⟩).1 (pickCubeDdS choice fuel s ⟨tag, tg⟩).2
        (pickCubeDDGo choice tag a) := by
  induction a with
  | top =>
    intro s tg fuel tag h _
    cases h
    cases fuel <;> exact ⟨StoreC.Le.refl _, id, rfl, .term⟩
  | node l t en e iht ihe =>
    intro s tg fuel tag h hf
    cases h with
    | @inner i _ ttg _ etg _ _ hi ht he =>
    cases fuel with
    | zero => simp [CNode.size] at hf
    | succ fuel =>
      simp only [CNode.size] at hf
      simp only [pickCubeDdS, hi, pickCubeDDGo]
      rw [decideS_eq ht he]
      cases hc : pickChoice ⟨tag, t⟩ ⟨tag != en, e⟩ (choice l)
      · simp only [Bool.false_eq_true, if_false]
        obtain ⟨r1, r2, r3⟩ := ihe s etg fuel (tag != en) he (by omega)
        obtain ⟨q1, q2, q3⟩ := addLiteralS_spec _ _ _ l false r3
        exact ⟨r1.trans q1, fun hu => q2 (r2 hu), q3⟩
      · simp only [if_true]
        obtain ⟨r1, r2, r3⟩ := iht s ttg fuel tag ht (by omega)
        obtain ⟨q1, q2, q3⟩ := addLiteralS_spec _ _ _ l true r3
        exact ⟨r1.trans q1, fun hu => q2 (r2 hu), q3⟩

/-- `add_literal_to_cube` keeps the reduction invariant of the store (no node with two identical
children) provided `sub` is not `⊥` — the `debug_assert!(!is_false(manager, &sub))` of the code -/
theorem addLiteralS_nored (s : StoreC) (sub : EdgeC) (l : Nat) (c : Bool) (hr : s.NoRed)
    (hs : isFalseS sub = false) : (addLiteralS s sub l c).1.NoRed := by
  obtain ⟨sneg, stg⟩ := sub
  unfold addLiteralS
  cases c <;> cases sneg <;>
    simp only [Bool.false_eq_true, if_false, if_true, Bool.not_false, Bool.not_true] <;>
    apply getOrInsert_nored _ _ hr <;> simp only [ne_eq, EdgeC.mk.injEq, not_and] <;>
    (try simp) <;> (intro h; subst h; simp [isFalseS] at hs)

theorem pickCubeDDGo_ne_false (choice : Nat → Bool) (tag : Bool) (n : CNode)
    (h : (⟨tag, n⟩ : Edge) ≠ terminal false) : pickCubeDDGo choice tag n ≠ terminal false := by
  cases n with
  | top => exact h
  | node l t en e => simp only [pickCubeDDGo]; exact addLiteralToCube_ne_false _ _ _

/-- the store stays reduced under `pick_cube_dd` (for a reduced, satisfiable input; for `⊥` the
store is not touched at all) -/
theorem pickCubeDdS_nored (choice : Nat → Bool) (a : CNode) :
    ∀ (s : StoreC) (tg : Tgt) (fuel : Nat) (tag : Bool), s.NoRed → DenN s tg a → Reduced a →
      (⟨tag, a⟩ : Edge) ≠ terminal false → a.size ≤ fuel →
      (pickCubeDdS choice fuel s ⟨tag, tg⟩).1.NoRed := by
  induction a with
  | top => intro s tg fuel tag hr h _ _ _; cases h; cases fuel <;> exact hr
  | node l t en e iht ihe =>
    intro s tg fuel tag hr h hred hne hf
    cases h with
    | @inner i _ ttg _ etg _ _ hi ht he =>
    cases fuel with
    | zero => simp [CNode.size] at hf
    | succ fuel =>
      simp only [CNode.size] at hf
      simp only [pickCubeDdS, hi]
      rw [decideS_eq ht he]
      have hch := pickChoice_child_ne_false (tag := tag) hred (choice l)
      cases hc : pickChoice ⟨tag, t⟩ ⟨tag != en, e⟩ (choice l)
      · rw [hc] at hch
        simp only [Bool.false_eq_true, if_false] at hch ⊢
        obtain ⟨_, _, r3⟩ := pickCubeDdS_spec choice e s etg fuel (tag != en) he (by omega)
        apply addLiteralS_nored _ _ _ _ (ihe s etg fuel (tag != en) hr he hred.2.2 hch (by omega))
        have hnf := pickCubeDDGo_ne_false choice (tag != en) e hch
        rw [show (pickCubeDdS choice fuel s ⟨tag != en, etg⟩).2
            = ⟨(pickCubeDdS choice fuel s ⟨tag != en, etg⟩).2.neg,
               (pickCubeDdS choice fuel s ⟨tag != en, etg⟩).2.tgt⟩ from rfl,
          isFalseS_eq r3.2, r3.1]
        exact (isFalse_false_iff _).mpr hnf
      · rw [hc] at hch
        simp only [if_true] at hch ⊢
        obtain ⟨_, _, r3⟩ := pickCubeDdS_spec choice t s ttg fuel tag ht (by omega)
        apply addLiteralS_nored _ _ _ _ (iht s ttg fuel tag hr ht hred.2.1 hch (by omega))
        have hnf := pickCubeDDGo_ne_false choice tag t hch
        rw [show (pickCubeDdS choice fuel s ⟨tag, ttg⟩).2
            = ⟨(pickCubeDdS choice fuel s ⟨tag, ttg⟩).2.neg,
               (pickCubeDdS choice fuel s ⟨tag, ttg⟩).2.tgt⟩ from rfl,
          isFalseS_eq r3.2, r3.1]
        exact (isFalse_false_iff _).mpr hnf

/-! ## shape of the tree walk: levels increase and stay below `n` -/

theorem pickPath_incr (choice : Nat → Bool) (a : CNode) : ∀ (tag : Bool) (k : Nat), Ordered k a →
    Incr k (toPath (pickPath choice tag a)) := by
  induction a with
  | top => intro _ _ _; trivial
  | node l t en e iht ihe =>
    intro tag k h
    cases h with
    | node hk ht he =>
    simp only [pickPath]
    split
    · exact ⟨hk, iht _ _ ht⟩
    · exact ⟨hk, ihe _ _ he⟩

theorem pickPath_below (choice : Nat → Bool) (n : Nat) (a : CNode) : ∀ (tag : Bool),
    LevelsBelow n a → Below n (toPath (pickPath choice tag a)) := by
  induction a with
  | top => intro _ _ p hp; cases hp
  | node l t en e iht ihe =>
    intro tag h p hp
    simp only [pickPath, toPath] at hp
    split at hp
    · cases hp with
      | head => exact h.1
      | tail _ hp => exact iht _ h.2.1 p hp
    · cases hp with
      | head => exact h.1
      | tail _ hp => exact ihe _ h.2.2 p hp

theorem mem_toPath {w : List (Nat × Bool)} {l : Nat} {c : Bool} (h : (l, c) ∈ w) :
    (l, some c) ∈ toPath w := List.mem_map.mpr ⟨(l, c), h, rfl⟩

end OxiddModel.Bcdd.PickSO
