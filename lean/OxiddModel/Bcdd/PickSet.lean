import OxiddModel.Bcdd.Pick

/-! `pick_cube_dd_set`: walking the literal set in lock-step with the function is the same as
`pick_cube_dd` with the choice function "polarity of the level in the literal set, else false". -/
namespace OxiddModel.Bcdd
open CNode

/-- the literals of a literal-set diagram as `literal_set_pop` reads them: a node whose
then-cofactor is `⊥` is a negative literal (continue with the else-cofactor), otherwise positive -/
def setLits : Bool → CNode → List (Nat × Bool)
  | _, .top => []
  | tag, .node l t en e =>
    if isFalse ⟨tag, t⟩ then (l, false) :: setLits (tag != en) e else (l, true) :: setLits tag t

/-- the shape of a literal set: a satisfiable conjunction of literals, i.e. at every node exactly one
cofactor is `⊥` -/
def IsLitSet : Bool → CNode → Prop
  | _, .top => True
  | tag, .node _ t en e =>
    if isFalse ⟨tag, t⟩ then isFalse ⟨tag != en, e⟩ = false ∧ IsLitSet (tag != en) e
    else isFalse ⟨tag != en, e⟩ = true ∧ IsLitSet tag t

/-- the polarity the literal set requests for a level (`false` if the level is not in the set) -/
def setChoice (ls : Edge) (l : Nat) : Bool := ((setLits ls.neg ls.n).lookup l).getD false

theorem setLits_ge {m : Nat} {n : CNode} (h : Ordered m n) (tag : Bool) : ∀ p ∈ setLits tag n, m ≤ p.1 := by
  induction h generalizing tag with
  | top => intro p hp; cases hp
  | @node k l t e en hl _ _ iht ihe =>
    intro p hp
    simp only [setLits] at hp
    split at hp
    · simp only [List.mem_cons] at hp
      rcases hp with rfl | hp
      · exact hl
      · have := ihe _ p hp; omega
    · simp only [List.mem_cons] at hp
      rcases hp with rfl | hp
      · exact hl
      · have := iht _ p hp; omega

theorem lookup_none_of_ge {L : List (Nat × Bool)} {m l : Nat} (h : ∀ p ∈ L, m ≤ p.1) (hl : l < m) :
    L.lookup l = none := by
  induction L with
  | nil => rfl
  | cons p L ih =>
    obtain ⟨v, b⟩ := p
    have : m ≤ v := h (v, b) List.mem_cons_self
    have hne : (l == v) = false := by simp; omega
    simp only [List.lookup_cons, hne]
    exact ih (fun p hp => h p (List.mem_cons_of_mem _ hp))

theorem lookup_cons_ne {L : List (Nat × Bool)} {v l : Nat} {b : Bool} (h : l ≠ v) :
    ((v, b) :: L).lookup l = L.lookup l := by
  have hne : (l == v) = false := by simp [h]
  simp only [List.lookup_cons, hne]

/-- `literal_set_pop` keeps the literals at or below `until`, and the shape -/
theorem literalSetPop_spec (n : CNode) : ∀ (tag : Bool) (u m : Nat), Ordered m n → IsLitSet tag n →
    Ordered m (literalSetPop tag n u).n ∧ IsLitSet (literalSetPop tag n u).neg (literalSetPop tag n u).n ∧
    (∀ l, u ≤ l → (setLits (literalSetPop tag n u).neg (literalSetPop tag n u).n).lookup l = (setLits tag n).lookup l) ∧
    (∀ sl st sen se, (literalSetPop tag n u).n = .node sl st sen se → u ≤ sl) := by
  induction n with
  | top => intro tag u m ho hs; exact ⟨ho, hs, fun _ _ => rfl, fun _ _ _ _ h => by cases h⟩
  | node l t en e iht ihe =>
    intro tag u m ho hs
    cases ho with
    | node hm hot hoe =>
    simp only [literalSetPop]
    split
    · rename_i hlu
      simp only [IsLitSet] at hs
      split
      · rename_i hf
        simp only [hf, if_true] at hs
        obtain ⟨h1, h2, h3, h4⟩ := ihe (tag != en) u _ hoe hs.2
        refine ⟨h1.mono (by omega), h2, fun l' hl' => ?_, h4⟩
        rw [h3 l' hl']
        simp only [setLits, hf, if_true]
        exact (lookup_cons_ne (by omega)).symm
      · rename_i hf
        simp only [hf, Bool.false_eq_true, if_false] at hs
        obtain ⟨h1, h2, h3, h4⟩ := iht tag u _ hot hs.2
        refine ⟨h1.mono (by omega), h2, fun l' hl' => ?_, h4⟩
        rw [h3 l' hl']
        simp only [setLits, hf, Bool.false_eq_true, if_false]
        exact (lookup_cons_ne (by omega)).symm
    · rename_i hlu
      exact ⟨.node hm hot hoe, hs, fun _ _ => rfl, fun sl st sen se h => by cases h; omega⟩

/-- one literal-set step of `pick_cube_dd_set_edge::inner` -/
theorem literalStep_spec (ls : Edge) (l m : Nat) (ho : Ordered m ls.n) (hs : IsLitSet ls.neg ls.n) :
    (literalStep ls l).2 = setChoice ls l ∧
    (∃ m', Ordered m' (literalStep ls l).1.n) ∧ IsLitSet (literalStep ls l).1.neg (literalStep ls l).1.n ∧
    (∀ l', l < l' → setChoice (literalStep ls l).1 l' = setChoice ls l') := by
  obtain ⟨h1, h2, h3, h4⟩ := literalSetPop_spec ls.n ls.neg l m ho hs
  unfold literalStep setChoice
  simp only []
  generalize literalSetPop ls.neg ls.n l = P at h1 h2 h3 h4
  obtain ⟨stag, sn⟩ := P
  cases sn with
  | top =>
    simp only []
    refine ⟨?_, ⟨m, h1⟩, h2, fun l' hl' => by rw [h3 l' (by omega)]⟩
    rw [← h3 l (Nat.le_refl _)]; rfl
  | node sl st sen se =>
    simp only [] at h1 h2 h3 h4 ⊢
    have hge := h4 sl st sen se rfl
    cases h1 with
    | node hm hot hoe =>
    split
    · rename_i heq
      subst heq
      simp only [IsLitSet] at h2
      have hl := h3 sl (Nat.le_refl _)
      simp only [setLits] at hl h3
      by_cases hf : isFalse ⟨stag, st⟩ = true
      · simp only [hf, if_true] at h2 hl h3
        simp only [h2.1, Bool.false_eq_true, if_false]
        refine ⟨?_, ⟨_, hoe⟩, h2.2, fun l' hl' => ?_⟩
        · rw [← hl]; simp
        · rw [← h3 l' (by omega), lookup_cons_ne (by omega)]
      · simp only [hf, Bool.false_eq_true, if_false] at h2 hl h3
        simp only [h2.1, if_true]
        refine ⟨?_, ⟨_, hot⟩, h2.2, fun l' hl' => ?_⟩
        · rw [← hl]; simp
        · rw [← h3 l' (by omega), lookup_cons_ne (by omega)]
    · rename_i hne
      refine ⟨?_, ⟨m, .node hm hot hoe⟩, h2, fun l' hl' => by rw [h3 l' (by omega)]⟩
      rw [← h3 l (Nat.le_refl _)]
      rw [lookup_none_of_ge (setLits_ge (.node (Nat.le_refl sl) hot hoe) stag) (by omega)]
      rfl

/-- `pick_cube_dd` only consults the choice function at the levels of the diagram -/
theorem pickCubeDDGo_congr (c1 c2 : Nat → Bool) (n : CNode) : ∀ (tag : Bool) (k : Nat), Ordered k n →
    (∀ l, k ≤ l → c1 l = c2 l) → pickCubeDDGo c1 tag n = pickCubeDDGo c2 tag n := by
  induction n with
  | top => intro tag k _ _; rfl
  | node l t en e iht ihe =>
    intro tag k ho hc
    cases ho with
    | node hk hot hoe =>
    simp only [pickCubeDDGo]
    rw [hc l hk, iht tag _ hot (fun l' hl' => hc l' (by omega)), ihe (tag != en) _ hoe (fun l' hl' => hc l' (by omega))]

/-- `pick_cube_dd_set(f, s)` = `pick_cube_dd(f, choice)` where `choice` is the polarity of the level
in the literal set `s` (and `false` for levels that `s` does not mention) -/
theorem pickCubeDDSetGo_eq (n : CNode) : ∀ (tag : Bool) (ls : Edge) (k m : Nat), Ordered k n →
    Ordered m ls.n → IsLitSet ls.neg ls.n →
    pickCubeDDSetGo tag n ls = pickCubeDDGo (setChoice ls) tag n := by
  induction n with
  | top => intro tag ls k m _ _ _; rfl
  | node l t en e iht ihe =>
    intro tag ls k m ho hlo hls
    cases ho with
    | node hk hot hoe =>
    obtain ⟨h1, ⟨m', h2⟩, h3, h4⟩ := literalStep_spec ls l m hlo hls
    simp only [pickCubeDDSetGo, pickCubeDDGo]
    rw [h1]
    rw [iht tag _ _ _ hot h2 h3, ihe (tag != en) _ _ _ hoe h2 h3]
    rw [pickCubeDDGo_congr _ (setChoice ls) t tag _ hot (fun l' hl' => h4 l' (by omega)),
      pickCubeDDGo_congr _ (setChoice ls) e (tag != en) _ hoe (fun l' hl' => h4 l' (by omega))]

end OxiddModel.Bcdd
