/-!
# The cube vector of `pick_cube` under an arbitrary variable order (shared by BCDD and ZBDD)

`pick_cube_edge::inner` walks one path of the diagram and executes, per visited node,
`cube[manager.level_to_var(level) as usize] = val`. The vector is indexed by **variable**, the
walk knows **levels**. `writeVec l2v path vec` is exactly that sequence of writes
(`l2v` = `level_to_var`); `writeVec id` is the defective variant that writes at index `level`
(seeded change `R5b-C13`), which coincides with the code only under the identity order.

`OrderOK l2v n`: `level_to_var` maps the `n` levels injectively into the `n` variables (what the
managers maintain: `var_level_map` / `level_var_map` are mutually inverse permutations).

Main facts (for every order with `OrderOK`, every strictly increasing path below `n`):
* `writeVec_get_in`: the entry at `l2v l` is the value decided at level `l`;
* `writeVec_get_off`: the entry at `l2v l` of a level that is not on the path is the initial one.
-/
namespace OxiddModel.PickO

/-- `Vec<OptBool>`: `none` = `OptBool::None` (don't care) -/
abbrev Vec := List (Option Bool)

/-- the decisions of a walk: `(level, value written)` in walk order -/
abbrev Path := List (Nat × Option Bool)

/-- the writes `cube[level_to_var(level)] = val` in walk order -/
def writeVec (l2v : Nat → Nat) : Path → Vec → Vec
  | [], v => v
  | (l, b) :: ps, v => writeVec l2v ps (v.set (l2v l) b)

/-- `level_to_var` restricted to the `n` levels is an injection into the `n` variables -/
def OrderOK (l2v : Nat → Nat) (n : Nat) : Prop :=
  (∀ l, l < n → l2v l < n) ∧ (∀ l l', l < n → l' < n → l2v l = l2v l' → l = l')

/-- levels strictly increase along the path and start at or below `k` -/
def Incr : Nat → Path → Prop
  | _, [] => True
  | k, (l, _) :: ps => k ≤ l ∧ Incr (l+1) ps

/-- all levels of the path are levels of the manager -/
def Below (n : Nat) (ps : Path) : Prop := ∀ p ∈ ps, p.1 < n

/-- a total assignment of the variables agrees with the vector wherever the vector is not
don't-care -/
def Agree (ρ : Nat → Bool) (v : Vec) : Prop := ∀ x b, v[x]? = some (some b) → ρ x = b

theorem writeVec_length (l2v : Nat → Nat) (ps : Path) (v : Vec) :
    (writeVec l2v ps v).length = v.length := by
  induction ps generalizing v with
  | nil => rfl
  | cons p ps ih => obtain ⟨l, b⟩ := p; simp [writeVec, ih]

theorem writeVec_get_notin (l2v : Nat → Nat) (ps : Path) (v : Vec) (j : Nat)
    (h : ∀ p ∈ ps, l2v p.1 ≠ j) : (writeVec l2v ps v)[j]? = v[j]? := by
  induction ps generalizing v with
  | nil => rfl
  | cons p ps ih =>
    obtain ⟨l, b⟩ := p
    simp only [writeVec]
    rw [ih _ (fun q hq => h q (List.mem_cons_of_mem _ hq))]
    have : l2v l ≠ j := h (l, b) List.mem_cons_self
    simp [this]

theorem Incr.ge {k : Nat} {ps : Path} (h : Incr k ps) : ∀ p ∈ ps, k ≤ p.1 := by
  induction ps generalizing k with
  | nil => intro p hp; cases hp
  | cons q ps ih =>
    obtain ⟨l, b⟩ := q
    intro p hp
    cases hp with
    | head => exact h.1
    | tail _ hp => have := ih h.2 p hp; have := h.1; omega

theorem Incr.mono {k k' : Nat} {ps : Path} (h : Incr k ps) (hk : k' ≤ k) : Incr k' ps := by
  cases ps with
  | nil => trivial
  | cons q ps => obtain ⟨l, b⟩ := q; exact ⟨Nat.le_trans hk h.1, h.2⟩

/-- the entry at `level_to_var(l)` is the value decided at level `l` -/
theorem writeVec_get_in {l2v : Nat → Nat} {n k : Nat} (ho : OrderOK l2v n) {ps : Path}
    (hi : Incr k ps) (hb : Below n ps) (v : Vec) (hv : v.length = n) {l : Nat} {b : Option Bool}
    (hm : (l, b) ∈ ps) : (writeVec l2v ps v)[l2v l]? = some b := by
  induction ps generalizing v k with
  | nil => cases hm
  | cons q ps ih =>
    obtain ⟨l0, b0⟩ := q
    simp only [writeVec]
    have hl0 : l0 < n := hb (l0, b0) List.mem_cons_self
    have hb' : Below n ps := fun p hp => hb p (List.mem_cons_of_mem _ hp)
    cases hm with
    | head =>
      rw [writeVec_get_notin]
      · have : l2v l < v.length := by rw [hv]; exact ho.1 _ hl0
        simp [this]
      · intro p hp he
        have h1 := hi.2.ge p hp
        have := ho.2 _ _ (hb' p hp) hl0 he
        omega
    | tail _ hm => exact ih hi.2 hb' _ (by simp [hv]) hm

/-- the entry at `level_to_var(l)` of a level `l` that is not on the path is untouched -/
theorem writeVec_get_off {l2v : Nat → Nat} {n : Nat} (ho : OrderOK l2v n) {ps : Path}
    (hb : Below n ps) (v : Vec) {l : Nat} (hl : l < n) (hoff : ∀ p ∈ ps, p.1 ≠ l) :
    (writeVec l2v ps v)[l2v l]? = v[l2v l]? :=
  writeVec_get_notin l2v ps v _ (fun p hp he => hoff p hp (ho.2 _ _ (hb p hp) hl he))

end OxiddModel.PickO
