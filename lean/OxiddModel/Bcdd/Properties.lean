import OxiddModel.Bcdd.Ite
import OxiddModel.Bcdd.Canon
import OxiddModel.Bcdd.ApplyQuant
import OxiddModel.Bcdd.Restrict
import OxiddModel.Bcdd.Subst
import OxiddModel.Bcdd.PickSet
import OxiddModel.Bcdd.SatCount
import OxiddModel.Bcdd.NodeCount

/-!
# Headline theorems for the complement-edge BDD rules (properties C01–C04, C12, C13; tree level)

`σ` ranges over all assignments of the levels, `f g h` over all edges (tag + node): the statements
hold for every operand tuple and every diagram depth. An edge is in *normal form* `NF n` if its
node is ordered from level `n` on and reduced; then-edges are regular by construction of the node
type (and `reduce`/`add_literal_to_cube`/`var_edge` are shown to produce such nodes simply by being
definable). Together with `bcdd_canonical`, `*_sem` + `*_nf` determine the result *edge* of every
operation: it is the unique normal form of the specified function.
-/
namespace OxiddModel.Bcdd
open CNode

/-! ## C01: canonicity -/

/-- C01 (tree level): two normal-form edges are equal — same node *and* same complement tag — iff
they denote the same function. -/
theorem bcdd_canonical (a b : Edge) (n : Nat) (ha : a.NF n) (hb : b.NF n) :
    a = b ↔ ∀ σ, a.eval σ = b.eval σ := nf_eq_iff a b n ha hb

/-- `satisfiable` (`≠ ¬⊤`) and `valid` (`= ⊤`) are decided correctly by comparing with the terminal edges -/
theorem bcdd_sat_valid (a : Edge) (n : Nat) (ha : a.NF n) :
    (a ≠ terminal false ↔ ∃ σ, a.eval σ = true) ∧ (a = terminal true ↔ ∀ σ, a.eval σ = true) := by
  refine ⟨?_, nf_true_iff a n ha⟩
  rw [Ne, nf_false_iff a n ha]
  constructor
  · intro h
    apply Classical.byContradiction
    intro hne
    exact h (fun σ => by
      cases hv : a.eval σ
      · rfl
      · exact absurd ⟨σ, hv⟩ hne)
  · rintro ⟨σ, hσ⟩ h; rw [h σ] at hσ; cases hσ

/-! ## C02: connectives -/

/-- C02: `not` (a tag flip) is pointwise negation. -/
theorem bcdd_not_sem (f : Edge) (σ : Nat → Bool) : (applyNot f).eval σ = !f.eval σ :=
  applyNot_eval σ f

/-- C02: the two native operators `apply_bin::<And>` and `apply_bin::<Xor>` -/
theorem bcdd_applyBin_sem (op : BOp) (f g : Edge) (σ : Nat → Bool) :
    (applyBin op f g).eval σ = op.sem (f.eval σ) (g.eval σ) := applyBin_eval op f g σ

/-- C02: every binary connective (`and, or, nand, nor, xor, equiv, imp, imp_strict`), as derived in
the code from `apply_and`/`apply_bin::<Xor>` through complement tags, takes under every assignment
the value of the propositional connective applied to the operand values. -/
theorem bcdd_apply_sem (op : Op) (f g : Edge) (σ : Nat → Bool) :
    (applyOp op f g).eval σ = op.sem (f.eval σ) (g.eval σ) :=
  applyOp_eval op f g σ

/-- the connectives' truth tables are the propositional ones (finite table, by `decide`) -/
theorem op_sem_table :
    (∀ a b, Op.and.sem a b = (a && b)) ∧ (∀ a b, Op.or.sem a b = (a || b)) ∧
    (∀ a b, Op.nand.sem a b = !(a && b)) ∧ (∀ a b, Op.nor.sem a b = !(a || b)) ∧
    (∀ a b, Op.xor.sem a b = (a ^^ b)) ∧ (∀ a b, Op.equiv.sem a b = !(a ^^ b)) ∧
    (∀ a b, Op.imp.sem a b = (!a || b)) ∧ (∀ a b, Op.impStrict.sem a b = (!a && b)) := by
  decide

/-- C02: `ite` (with all its tagged shortcuts) is pointwise if-then-else, for every operand triple. -/
theorem bcdd_ite_sem (f g h : Edge) (σ : Nat → Bool) :
    (applyIte f g h).eval σ = if f.eval σ then g.eval σ else h.eval σ :=
  applyIte_eval f g h σ

/-- C02: constants and (negated) variables. -/
theorem bcdd_const_var_sem (l : Nat) (σ : Nat → Bool) :
    (terminal true).eval σ = true ∧ (terminal false).eval σ = false ∧
    (var l).eval σ = σ l ∧ (notVar l).eval σ = !σ l := by
  simp

/-- C02: `eval_edge` (the walk accumulating complement tags) computes the denotation. -/
theorem bcdd_eval_sem (f : Edge) (σ : Nat → Bool) : evalEdge σ f = f.eval σ := by
  have h : ∀ (n : CNode) (c tag : Bool), evalGo σ c tag n = (c != Edge.eval σ ⟨tag, n⟩) := by
    intro n
    induction n with
    | top => intro c tag; cases c <;> cases tag <;> rfl
    | node l t en e iht ihe =>
      intro c tag
      simp only [evalGo, Edge.eval, CNode.eval]
      cases hl : σ l
      · simp only [Bool.false_eq_true, if_false, ihe, Edge.eval]
        cases c <;> cases tag <;> cases en <;> cases e.eval σ <;> rfl
      · simp only [if_true, iht, Edge.eval]
        cases c <;> cases tag <;> cases t.eval σ <;> rfl
  rw [evalEdge, h, Bool.false_bne]

/-- C02: the cofactors returned by `collect_cofactors` (incoming tag pushed to both children) are
the Shannon cofactors with respect to the top-most variable. -/
theorem bcdd_cofactors_shannon (neg en : Bool) (l : Nat) (t e : CNode) (n : Nat)
    (h : (⟨neg, .node l t en e⟩ : Edge).NF n) (σ : Nat → Bool) :
    (cofT ⟨neg, .node l t en e⟩).eval σ = (⟨neg, .node l t en e⟩ : Edge).eval (upd σ l true) ∧
    (cofE ⟨neg, .node l t en e⟩).eval σ = (⟨neg, .node l t en e⟩ : Edge).eval (upd σ l false) := by
  cases h.1 with
  | node _ ht he =>
    simp only [cofT, cofE, Edge.eval]
    refine ⟨?_, ?_⟩
    · rw [eval_upd_true ht σ]
    · rw [eval_upd_false he σ]; cases neg <;> cases en <;> cases e.eval σ <;> rfl

/-! ## C03 (tree level): results are ordered, reduced, then-edge regular -/

/-- `reduce` returns a normal-form edge denoting the Shannon combination of its operands. -/
theorem bcdd_reduce_nf {n l : Nat} {t e : Edge} (hl : n ≤ l) (ht : t.NF (l+1)) (he : e.NF (l+1)) :
    (mk l t e).NF n ∧ ∀ σ, (mk l t e).eval σ = if σ l then t.eval σ else e.eval σ :=
  ⟨mk_nf hl ht he, fun σ => mk_eval σ l t e⟩

theorem bcdd_not_nf (f : Edge) (n : Nat) (hf : f.NF n) : (applyNot f).NF n := applyNot_nf hf
theorem bcdd_apply_nf (op : Op) (f g : Edge) (n : Nat) (hf : f.NF n) (hg : g.NF n) :
    (applyOp op f g).NF n := applyOp_nf op f g n hf hg
theorem bcdd_ite_nf (f g h : Edge) (n : Nat) (hf : f.NF n) (hg : g.NF n) (hh : h.NF n) :
    (applyIte f g h).NF n := applyIte_nf f g h n hf hg hh
theorem bcdd_var_nf (l : Nat) : (var l).NF l ∧ (notVar l).NF l := ⟨var_nf l, notVar_nf l⟩

/-- C01+C02: the result of a connective is *the* normal form of the specified function — any other
normal-form edge of that function is the same edge (so results do not depend on how the operands
were obtained). -/
theorem bcdd_apply_unique (op : Op) (f g r : Edge) (n : Nat) (hf : f.NF n) (hg : g.NF n) (hr : r.NF n)
    (h : ∀ σ, r.eval σ = op.sem (f.eval σ) (g.eval σ)) : r = applyOp op f g :=
  (nf_eq_iff r _ n hr (applyOp_nf op f g n hf hg)).mpr (fun σ => by rw [h, applyOp_eval])

theorem bcdd_ite_unique (f g h r : Edge) (n : Nat) (hf : f.NF n) (hg : g.NF n) (hh : h.NF n) (hr : r.NF n)
    (hs : ∀ σ, r.eval σ = if f.eval σ then g.eval σ else h.eval σ) : r = applyIte f g h :=
  (nf_eq_iff r _ n hr (applyIte_nf f g h n hf hg hh)).mpr (fun σ => by rw [hs, applyIte_eval])

/-! ## C04: quantification, restriction, apply-and-quantify, substitution -/

/-- C04: `forall`/`exists`/`unique` over the variable set `vars` denote the iterated `∧`/`∨`/`⊕` of
the two cofactors for each variable of the set (`varsOf`: the levels along the then-path of the
set diagram, which for a conjunction of positive literals are exactly its variables, see
`bcdd_varset_sem`). -/
theorem bcdd_quant_sem (q : Quant) (f vars : Edge) (n m : Nat) (hf : Ordered n f.n) (hv : Ordered m vars.n)
    (σ : Nat → Bool) : (quant q f vars).eval σ = qsem q (varsOf vars.n) (fun τ => f.eval τ) σ :=
  quant_eval' q f vars n m hf hv σ

theorem bcdd_quant_nf (q : Quant) (f vars : Edge) (n : Nat) (hf : f.NF n) : (quant q f vars).NF n :=
  quant_nf' q f vars n hf

/-- the reference semantics `qsem` unfolds to the propositional combination of the two cofactors -/
theorem qsem_table (vs : List Nat) (v : Nat) (F : (Nat → Bool) → Bool) (σ : Nat → Bool) :
    qsem .forall_ (v :: vs) F σ = (qsem .forall_ vs F (upd σ v true) && qsem .forall_ vs F (upd σ v false)) ∧
    qsem .exists_ (v :: vs) F σ = (qsem .exists_ vs F (upd σ v true) || qsem .exists_ vs F (upd σ v false)) ∧
    qsem .unique (v :: vs) F σ = (qsem .unique vs F (upd σ v true) ^^ qsem .unique vs F (upd σ v false)) ∧
    (∀ q, qsem q [] F σ = F σ) := by
  refine ⟨rfl, rfl, ?_, fun _ => rfl⟩
  simp only [qsem, Quant.sem]
  first | done | (cases qsem .unique vs F (upd σ v true) <;> cases qsem .unique vs F (upd σ v false) <;> rfl)

/-- a variable-set diagram (conjunction of positive literals) is true exactly when all its
variables `varsOf` are true -/
theorem bcdd_varset_sem (vn : CNode) (h : IsVarSet vn) (σ : Nat → Bool) :
    ((⟨false, vn⟩ : Edge).eval σ = true ↔ ∀ v ∈ varsOf vn, σ v = true) := varSet_eval vn h σ

/-- C04: `restrict(f, cube)` is the cofactor of `f` with respect to the partial assignment given by
the literals `litsOf cube` that the polarity-tracking walk reads off the cube diagram. -/
theorem bcdd_restrict_sem (f vars : Edge) (n m : Nat) (hf : Ordered n f.n) (hv : Ordered m vars.n)
    (σ : Nat → Bool) : (restrict f vars).eval σ = f.eval (assign σ (litsOf vars)) :=
  restrict_eval f vars n m hf hv σ

theorem bcdd_restrict_nf (f vars : Edge) (n : Nat) (hf : f.NF n) : (restrict f vars).NF n :=
  restrict_nf f vars n hf

/-- the literals read off a cube diagram of the shape `restrict` assumes are exactly the literals
whose conjunction the diagram denotes -/
theorem bcdd_cube_sem (vars : Edge) (h : IsCube vars.neg vars.n) (σ : Nat → Bool) :
    (vars.eval σ = true ↔ ∀ p ∈ litsOf vars, σ p.1 = p.2) := cube_eval vars.n vars.neg h σ

/-- C04: `apply_forall/apply_exists/apply_unique(op, f, g, vars)`, for all 8 operators through the
dispatch tables, denote the quantification of the operator application. -/
theorem bcdd_applyQuant_sem (q : Quant) (op : Op) (f g vars : Edge) (n m : Nat)
    (hf : f.NF n) (hg : g.NF n) (hv : Ordered m vars.n) (σ : Nat → Bool) :
    (applyQuantOp q op f g vars).eval σ =
      qsem q (varsOf vars.n) (fun τ => op.sem (f.eval τ) (g.eval τ)) σ :=
  applyQuantOp_eval q op f g vars n m hf hg hv σ

theorem bcdd_applyQuant_nf (q : Quant) (op : Op) (f g vars : Edge) (n : Nat) (hf : f.NF n) (hg : g.NF n) :
    (applyQuantOp q op f g vars).NF n := applyQuantOp_nf q op f g vars n hf hg

/-- C04: the combined operation returns the *same edge* as the plain operator followed by the
quantification (by canonicity). -/
theorem bcdd_applyQuant_eq (q : Quant) (op : Op) (f g vars : Edge) (n m : Nat)
    (hf : f.NF n) (hg : g.NF n) (hv : Ordered m vars.n) :
    applyQuantOp q op f g vars = quant q (applyOp op f g) vars := by
  have hfg := applyOp_nf op f g n hf hg
  refine (nf_eq_iff _ _ n (applyQuantOp_nf q op f g vars n hf hg) (quant_nf' q _ vars n hfg)).mpr (fun σ => ?_)
  rw [applyQuantOp_eval q op f g vars n m hf hg hv σ, quant_eval' q _ vars n m hfg.1 hv σ]
  exact qsem_congr q _ _ _ σ (fun τ _ => (applyOp_eval op f g τ).symm)

/-- C04: every row of `apply_quant_dispatch` / `apply_quant_unique_dispatch` is a Boolean identity,
and the code is exactly the table (`applyQuantOp_eq_dispatch`). -/
theorem bcdd_dispatch_table (q : Quant) (op : Op) :
    (∀ a b, op.sem a b = ((dispatch q op).nout != (dispatch q op).op.sem ((dispatch q op).nf != a) ((dispatch q op).ng != b))) ∧
    ((dispatch q op).q = if (dispatch q op).nout then q.dual else q) ∧
    (q = .unique → (dispatch q op).nout = false) := dispatch_table q op

/-- C04: `substitute` replaces all listed variables *simultaneously* by their replacement functions
(evaluated under the original assignment) and leaves every other variable untouched. `pairs` maps
levels to replacements, as `substitute_prepare` receives them. -/
theorem bcdd_subst_sem (pairs : List (Nat × Edge)) (f : Edge) (n : Nat) (hf : Ordered n f.n) (σ : Nat → Bool) :
    (substitute (substPrepare pairs) f).eval σ =
      f.eval (fun l => match pairs.lookup l with
        | some r => r.eval σ
        | none => σ l) := by
  rw [show f = ⟨f.neg, f.n⟩ from rfl, substitute_eval (substPrepare pairs) f.n f.neg n hf σ]
  congr 1
  funext l
  exact substPrepare_assign pairs σ l

theorem bcdd_subst_nf (pairs : List (Nat × Edge)) (hp : ∀ p ∈ pairs, p.2.NF 0) (f : Edge) (n : Nat) (hf : f.NF n) :
    (substitute (substPrepare pairs) f).NF 0 :=
  substitute_nf _ (substPrepare_nf pairs hp) f.n f.neg n hf

/-! ## C13: cube picking -/

/-- C13: `pick_cube` returns `None` exactly for the unsatisfiable function. -/
theorem pick_none_iff_false (choice : Nat → Bool) (f : Edge) (n : Nat) (hf : f.NF n) :
    pickCube choice f = none ↔ ∀ σ, f.eval σ = false := by
  rw [pickCube_none_iff, nf_false_iff f n hf]

/-- C13: the picked cube implies the function: every assignment satisfying the literals of the
returned vector is a model. -/
theorem pick_implies (choice : Nat → Bool) (f : Edge) (n : Nat) (hf : f.NF n) (path : List (Nat × Bool))
    (hp : pickCube choice f = some path) (σ : Nat → Bool) (hs : Sat σ path) : f.eval σ = true := by
  have hne : f ≠ terminal false := fun h => by rw [(pickCube_none_iff choice f).mpr h] at hp; cases hp
  obtain ⟨neg, fn⟩ := f
  cases fn with
  | top =>
    cases neg
    · rfl
    · exact absurd rfl hne
  | node l t en e =>
    simp only [pickCube, Option.some.injEq] at hp
    subst hp
    exact pickPath_implies choice _ neg hf.2 hne σ hs

/-- C13: `pick_cube` and `pick_cube_dd` describe the same cube: the diagram is true exactly under the
assignments satisfying the literals of the vector (and is `⊥` iff the vector is `None`). -/
theorem pick_same_cube (choice : Nat → Bool) (f : Edge) (n : Nat) (hf : f.NF n) :
    (pickCube choice f = none → pickCubeDD choice f = terminal false) ∧
    (∀ path, pickCube choice f = some path → ∀ σ,
      ((pickCubeDD choice f).eval σ = true ↔ Sat σ path)) := by
  constructor
  · intro h
    rw [(pickCube_none_iff choice f).mp h]; rfl
  · intro path hp σ
    have hne : f ≠ terminal false := fun h => by rw [(pickCube_none_iff choice f).mpr h] at hp; cases hp
    have hpath : path = pickPath choice f.neg f.n := by
      obtain ⟨neg, fn⟩ := f
      cases fn with
      | top =>
        cases neg
        · simp only [pickCube, Bool.false_eq_true, if_false, Option.some.injEq] at hp; rw [← hp]; rfl
        · exact absurd rfl hne
      | node l t en e => simp only [pickCube, Option.some.injEq] at hp; exact hp.symm
    rw [pickCubeDD, pickCubeDDGo_eval choice f.n f.neg hf.2 hne σ, hpath, List.all_eq_true]
    simp only [Sat, beq_iff_eq]

/-- the picked cube diagram is in normal form -/
theorem pick_dd_nf (choice : Nat → Bool) (f : Edge) (n : Nat) (hf : f.NF n) : (pickCubeDD choice f).NF n := by
  by_cases hne : f = terminal false
  · subst hne; exact terminal_nf n false
  · exact (pickCubeDDGo_nf choice f.n f.neg n hf hne).1

/-- C13: every decision on the picked path either is the caller's choice for that level or is
forced: keeping the decisions above it and flipping it leaves no model of `f`. -/
theorem choice_followed (choice : Nat → Bool) (f : Edge) (pre : List (Nat × Bool)) (p : Nat × Bool)
    (post : List (Nat × Bool)) (h : pickPath choice f.neg f.n = pre ++ p :: post) :
    p.2 = choice p.1 ∨ ∀ σ, Sat σ pre → σ p.1 = (!p.2) → f.eval σ = false :=
  pickPath_choice choice f.n f.neg pre p post h

/-- C13: `pick_cube_dd_set(f, s)` is `pick_cube_dd` with the choice function "the polarity of the
level in the literal set `s`, `false` if `s` does not mention it" — so by `choice_followed` every
unforced decision follows the literal set, also below negative literals of the set. -/
theorem literal_followed (f ls : Edge) (k m : Nat) (hf : Ordered k f.n) (hl : Ordered m ls.n)
    (hs : IsLitSet ls.neg ls.n) : pickCubeDDSet f ls = pickCubeDD (setChoice ls) f :=
  pickCubeDDSetGo_eq f.n f.neg ls k m hf hl hs

/-! ## C12: model counting -/

/-- C12: over exact naturals, `sat_count(vars)` of a diagram over `N ≤ vars` variables (all levels
`< N`) is `2^(vars−N)` times the number `cntF` of satisfying assignments of the `N` variables. -/
theorem satcount_exact (vars N : Nat) (hN : N ≤ vars) (f : Edge) (ho : Ordered 0 f.n) (hb : Below N f.n)
    (σ : Nat → Bool) : satCount vars f = 2 ^ (vars - N) * cntF (fun τ => f.eval τ) σ 0 N :=
  satCount_exact vars N hN f ho hb σ

/-- C12: the complement handling: counting below a complemented edge (tags pushed into the
cofactors, `0` for the complemented terminal) yields `2^vars − count`. -/
theorem satcount_complement (vars N : Nat) (hN : N ≤ vars) (f : Edge) (ho : Ordered 0 f.n) (hb : Below N f.n) :
    satCount vars (applyNot f) = 2 ^ vars - satCount vars f := satCount_not vars N hN f ho hb

/-! ## C03: node count -/

/-- C03 "the node count of any handle equals the size of the unique reduced diagram of its
function": the traversal behind `node_count` returns every inner node (distinct subterm; a node
reached through a regular and through a complemented edge is one node) exactly once, so
`nodeCount f` is one (the terminal) plus the length of *any* duplicate-free enumeration of the
inner nodes of `f`. -/
theorem nodeCount_innerNodes (f : Edge) :
    (innerNodes f.n []).Nodup ∧ (∀ x, x ∈ innerNodes f.n [] ↔ Sub x f.n) ∧
    ∀ L : List CNode, L.Nodup → (∀ x, x ∈ L ↔ Sub x f.n) → L.length + 1 = nodeCount f := by
  obtain ⟨h1, _, h3⟩ := innerNodes_spec f.n [] List.nodup_nil (fun x hx => by cases hx)
  have h3' : ∀ x, x ∈ innerNodes f.n [] ↔ Sub x f.n := fun x => by simp [h3 x]
  refine ⟨h1, h3', fun L hL hm => ?_⟩
  unfold nodeCount
  rw [((List.perm_ext_iff_of_nodup hL h1).mpr (fun x => by rw [hm, h3'])).length_eq]

/-- … and by canonicity that number depends only on the denoted function (and the order): two
normal-form edges of the same function — and also of complementary functions — have the same
node count. -/
theorem nodeCount_canonical (f g : Edge) (n : Nat) (hf : f.NF n) (hg : g.NF n)
    (h : (∀ σ, f.eval σ = g.eval σ) ∨ (∀ σ, f.eval σ = !g.eval σ)) : nodeCount f = nodeCount g := by
  rcases h with h | h
  · rw [(nf_eq_iff f g n hf hg).mpr h]
  · have : f = applyNot g := (nf_eq_iff f (applyNot g) n hf (applyNot_nf hg)).mpr (fun σ => by rw [h, applyNot_eval])
    rw [this]; rfl

/-! ## non-vacuity -/

/-- a concrete shared, level-skipping diagram with complemented else-edges in normal form:
`~(v0 (v2 T ~T) ~(v1 T (v2 T ~T)))` -/
def exEdge : Edge :=
  ⟨true, .node 0 (.node 2 .top true .top) true (.node 1 .top false (.node 2 .top true .top))⟩

example : exEdge.NF 0 := by
  refine ⟨.node (by omega) (.node (by omega) .top .top) (.node (by omega) .top (.node (by omega) .top .top)), ?_⟩
  simp [exEdge, Reduced]

/-- `x0 ∧ x1 = (v0 (v1 T ~T) ~T)` and `x0 ∨ x1 = ~(v0 ... )`: instances of the operator theorems -/
example : applyOp .and (var 0) (var 1) = ⟨false, .node 0 (.node 1 .top true .top) true .top⟩ := by
  symm
  apply bcdd_apply_unique .and (var 0) (var 1) _ 0 (var_nf 0) ((var_nf 1).mono (by omega))
  · refine ⟨.node (by omega) (.node (by omega) .top .top) .top, ?_⟩
    simp [Reduced]
  · intro σ; cases h0 : σ 0 <;> cases h1 : σ 1 <;> simp [var, Edge.eval, CNode.eval, Op.sem, h0, h1]

example : applyOp .nor (var 0) (var 1) = ⟨true, .node 0 .top false (.node 1 .top true .top)⟩ := by
  symm
  apply bcdd_apply_unique .nor (var 0) (var 1) _ 0 (var_nf 0) ((var_nf 1).mono (by omega))
  · refine ⟨.node (by omega) .top (.node (by omega) .top .top), ?_⟩
    simp [Reduced]
  · intro σ; cases h0 : σ 0 <;> cases h1 : σ 1 <;> simp [var, Edge.eval, CNode.eval, Op.sem, h0, h1]

/-- `∃ x0. x0 ∧ x1 = x1` by canonicity from `bcdd_quant_sem` -/
example : quant .exists_ ⟨false, .node 0 (.node 1 .top true .top) true .top⟩ (var 0) = var 1 := by
  have hf : (⟨false, .node 0 (.node 1 .top true .top) true .top⟩ : Edge).NF 0 :=
    ⟨.node (by omega) (.node (by omega) .top .top) .top, by simp [Reduced]⟩
  refine (bcdd_canonical _ _ 0 (bcdd_quant_nf .exists_ _ (var 0) 0 hf) ((var_nf 1).mono (by omega))).mpr (fun σ => ?_)
  rw [bcdd_quant_sem .exists_ _ (var 0) 0 0 hf.1 (var_nf 0).1 σ]
  cases h1 : σ 1 <;> simp [var, varsOf, qsem, Quant.sem, Edge.eval, CNode.eval, upd, h1]

/-- the cube `¬x0 ∧ x2` as a diagram, the literals `restrict` reads off it, and what it denotes -/
example : IsCube true (.node 0 .top true (.node 2 .top true .top)) ∧
    litsOf ⟨true, .node 0 .top true (.node 2 .top true .top)⟩ = [(0, false), (2, true)] := by
  simp [IsCube, isTop, litsOf, litsGo]

/-- picking from `exEdge` (`= x0 ? ¬x2 : (x1 ∨ x2)`): with the all-true choice the decisions are
`x0 = 1` (choice), `x2 = 0` (forced) -/
example : pickCube (fun _ => true) exEdge = some [(0, true), (2, false)] := by decide
example : pickCubeDD (fun _ => true) exEdge = ⟨true, .node 0 (.node 2 .top true .top) false .top⟩ := by decide
example : setLits true (.node 0 .top true (.node 2 .top true .top)) = [(0, false), (2, true)] ∧
    IsLitSet true (.node 0 .top true (.node 2 .top true .top)) := by
  simp [setLits, IsLitSet, isFalse, isTop]

/-- in `exEdge` the `x2` node is shared: 3 inner nodes + the terminal -/
example : nodeCount exEdge = 4 := by decide
example := nodeCount_innerNodes exEdge

/-- `exEdge` has 5 models over 3 variables, its complement 3 -/
example : satCount 3 exEdge = 5 ∧ satCount 3 (applyNot exEdge) = 3 ∧ Below 3 exEdge.n := by
  refine ⟨by decide, by decide, by simp [exEdge, Below]⟩

end OxiddModel.Bcdd
