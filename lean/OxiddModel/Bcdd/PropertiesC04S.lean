import OxiddModel.Bcdd.HistoryCX
import OxiddModel.Bcdd.WitnessC04S
import OxiddModel.Bcdd.Properties

/-!
# C04 / C06 at store level — quantification, apply-and-quantify, restriction, substitution with
hash-consed nodes, complement edges and the apply cache (complement-edge rules)

Property C04: *"quantification, restriction, apply-and-quantify and substitution are the specified
functions"*; property C06: *"the apply cache is transparent: a memoised result is only served for
exactly the key it was computed for — operator, every operand including variable sets, cubes and
the substitution id"*.

`Bcdd/Properties.lean` proves C04 for the tree-level functions `quant`, `applyQuant(Op)`,
`restrict`, `substitute`/`substPrepare` of `Bcdd/Model.lean`. `Bcdd/PropertiesC06.lean` proves C06
for the store-level `apply_bin::<And|Xor>`, the derived connectives and `apply_ite`. This file
closes the gap for the remaining recursive algorithms of
`crates/oxidd-rules-bdd/src/complement_edge/apply_rec.rs`:

| Rust                                         | store level                         | tree level          |
|----------------------------------------------|-------------------------------------|---------------------|
| `quant::<Q>`                                 | `quantS` (`QuantS`)                 | `quant`             |
| `apply_quant::<Q, OP>`                       | `applyQuantS` (`ApplyQuantS`)       | `applyQuant`        |
| `apply_quant_dispatch`, `…_unique_dispatch`  | `applyQuantOpS` (`ApplyQuantS`)     | `applyQuantOp`      |
| `restrict` (+ `inner`)                       | `restrictS` (`RestrictS`)           | `restrict`          |
| `substitute_prepare`                         | `substPrepareS` (`SubstS`)          | `substPrepare`      |
| `substitute`                                 | `substituteS` (`SubstS`)            | `substitute`        |

The cache is the one of `Bdd/CacheS.lean` (same `Policy`, `Policy.OK`); keys are `CKey`s — operator
(`BCDDOp`), edge operands **with their complement tags**, numeric operands — stored through the
injective encoding `encKeyC` (`CacheCX.lean`). `CacheOKCX reg s c`: every entry denotes `specCX reg`
of its operands; for `Substitute` entries relative to the registry `reg : id ↦ vector`.

What the code does with complement tags (and what the keys therefore contain):
* `quant`: **no dualisation** — the key is `(Q, [f with its tag, popped vars])`; `∃` on `¬g` and `∀`
  on `g` are separate entries (`quant_key_without_tag_unsound`: dropping the tag is unsound);
* `apply_quant`: operands ordered by `f < g`, both with their tags; the dispatchers complement
  operands/result and dualise the quantifier *outside* (`dispatch` table);
* `restrict`: the key holds the **untagged** node the inner walk reached and the cube edge the walk
  reached **retagged with the accumulated polarity**; the polarity of `f` is applied to the cached
  result (`restrict_hit_without_tag_unsound`: forgetting that is unsound);
* `substitute`: `(Substitute, [f with its tag], [id])`.

All `…_spec` theorems hold for every admissible policy (`Policy.OK`: ideal, none, direct mapped
with arbitrary hash / capacity / lock failures), every sound cache, every store and all operands.
No orderedness assumption is needed for the refinement; the `…_sem` theorems compose with
`Bcdd/Properties.lean` (there `Ordered` / `NF` enter).

Fuel: `fuel` bounds the main recursion, `af` the inner calls; `quantNeed`/`substNeed` are explicit
sufficient amounts, for `apply_quant` the bound is existential (`∃ N` depending on the operand
trees only).
-/
namespace OxiddModel.Bcdd.C04S
open OxiddModel.Bcdd OxiddModel.Bcdd.CNode OxiddModel.Bcdd.Refine OxiddModel.Bcdd.C04SW
open OxiddModel.Bdd.Refine (Policy OpTag Key Cache)

/-- the common conclusion: result denotes `T`, store only extended, `Unique ∧ CacheOKCX` (and
`NoRed`) kept -/
def Refines (reg : Nat → List Edge) (s : StoreC) (T : Edge) (R : StC × EdgeC) : Prop :=
  DenotesC R.1.store R.2 T ∧ s.Le R.1.store ∧ R.1.store.Unique ∧
    CacheOKCX reg R.1.store R.1.cache ∧ (s.NoRed → R.1.store.NoRed)

theorem Refines.ofW {reg : Nat → List Edge} {s : StoreC} {T : Edge} {R : StC × EdgeC}
    (P : PostCW reg s T R) : Refines reg s T R := ⟨P.den, P.le, P.inv.1, P.inv.2, P.nored⟩

/-! ## the cached algorithms refine the tree-level functions -/

/-- **`quant::<Q>` with cache refines `quant q`** (`forall`, `exists`, `unique`) on tagged edges.
From any state whose store is hash-consed and whose cache is sound, for every admissible cache
behaviour: the returned tagged edge denotes `quant q a v` for the tree edges denoted by `f` and
`vars` — including the `set_pop` normalisation of `vars` before the cache lookup and the key
`(Q, [f with tag, vars])` —, the store is only extended, and `Unique`, `CacheOKCX`, `NoRed` hold
afterwards. -/
theorem quantS_spec {p : Policy} (pok : p.OK) (reg : Nat → List Edge) (q : Quant) (af fuel : Nat)
    (st : StC) (f vars : EdgeC) (a v : Edge) (hu : st.store.Unique)
    (hc : CacheOKCX reg st.store st.cache) (hf : DenotesC st.store f a)
    (hv : DenotesC st.store vars v) (hfuel : a.size ≤ fuel) (haf : quantNeed q a.neg a.n v ≤ af) :
    Refines reg st.store (quant q a v) (quantS p q af fuel st f vars) :=
  .ofW (Refine.quantS_spec pok reg q af fuel st f vars a v ⟨hu, hc⟩ hf hv hfuel haf)

/-- non-vacuity: `∀{x1}. (x0 ∨ x1)` on `exC` with a 2-bucket direct-mapped cache whose lock fails at
odd time stamps -/
example : Refines regC0 exC (quant .forall_ cOr cX1)
    (quantS (Policy.dm 2 (fun k => k.2.length) (fun t => t % 2 == 0)) .forall_ 10 10
      ⟨exC, [], 0⟩ ⟨false, .inner 2⟩ ⟨false, .inner 0⟩) :=
  quantS_spec (Policy.dm_ok _ _ _) regC0 .forall_ 10 10 ⟨exC, [], 0⟩ _ _ cOr cX1
    exC_unique (CacheOKCX.nil _ _) exC_or exC_x1 (by decide) (by decide +kernel)

example : (quantS Policy.exact .forall_ 10 10 ⟨exC, [], 0⟩ ⟨false, .inner 2⟩ ⟨false, .inner 0⟩).2
      = ⟨false, .inner 3⟩ ∧ quant .forall_ cOr cX1 = cX0 ∧
    -- on the complemented edge: `∀x1. ¬(x0 ∨ x1) = ⊥`
    (quantS Policy.exact .forall_ 10 10 ⟨exC, [], 0⟩ ⟨true, .inner 2⟩ ⟨false, .inner 0⟩).2
      = ⟨true, .term⟩ := by
  refine ⟨by decide +kernel, by decide +kernel, by decide +kernel⟩

/-- **`apply_quant::<Q, OP>` with cache refines `applyQuant q op`**, for the three quantifiers and
the three native operators `And`, `Xor`, `UniqueNand`, including the continuation with the
operands *ordered by `f < g`* (sound by `applyQuant_comm`), the delegations to `quant`,
`apply_bin::<OP>` / `not(apply_and)`, the combination of the two sub-results, and the three-operand
cache key. `N` depends on the operand trees only. -/
theorem applyQuantS_spec (reg : Nat → List Edge) (q : Quant) (op : QOp) (a b v : Edge) :
    ∃ N, ∀ (p : Policy), p.OK → ∀ (af fuel : Nat), N ≤ af → a.size + b.size ≤ fuel →
      ∀ (st : StC) (f g vars : EdgeC), st.store.Unique → CacheOKCX reg st.store st.cache →
        DenotesC st.store f a → DenotesC st.store g b → DenotesC st.store vars v →
        Refines reg st.store (applyQuant q op a b v) (applyQuantS p q op af fuel st f g vars) := by
  obtain ⟨N, h⟩ := Refine.applyQuantS_spec reg q op _ a b v (Nat.le_refl _)
  exact ⟨N, fun p pok af fuel hN hfuel st f g vars hu hc hf hg hv =>
    .ofW (h p pok af fuel hN hfuel st f g vars ⟨hu, hc⟩ hf hg hv)⟩

/-- non-vacuity: the hypotheses are satisfiable on `exC` (`∃{x1}. (x0∨x1) ⊕ (x0∧x1)`; the operands
are given in the order that `f < g` swaps) -/
example : ∃ af fuel, Refines regC0 exC (applyQuant .exists_ .xor cOr cAnd cX1)
    (applyQuantS Policy.exact .exists_ .xor af fuel ⟨exC, [], 0⟩ ⟨false, .inner 2⟩ ⟨false, .inner 1⟩
      ⟨false, .inner 0⟩) := by
  obtain ⟨N, h⟩ := applyQuantS_spec regC0 .exists_ .xor cOr cAnd cX1
  exact ⟨_, _, h Policy.exact Policy.exact_ok N (N + cOr.size + cAnd.size) (Nat.le_refl _) (by omega)
    ⟨exC, [], 0⟩ _ _ _ exC_unique (CacheOKCX.nil _ _) exC_or exC_and exC_x1⟩

/-- a concrete run: the cache afterwards holds an entry under the three-operand key
`(ExistAnd, [#1, #2, #0])` with the operands in `f < g` order, and `∃x1. (x0∨x1) ∧ (x0∧x1) = x0` -/
example :
    (applyQuantS Policy.exact .exists_ .and 20 20 ⟨exC, [], 0⟩ ⟨false, .inner 2⟩ ⟨false, .inner 1⟩
      ⟨false, .inner 0⟩).2 = ⟨false, .inner 3⟩ ∧
    applyQuant .exists_ .and cOr cAnd cX1 = cX0 ∧
    (encKeyC (applyQuantKey .exists_ .and ⟨false, .inner 1⟩ ⟨false, .inner 2⟩ ⟨false, .inner 0⟩),
        enc ⟨false, .inner 3⟩) ∈
      (applyQuantS Policy.exact .exists_ .and 20 20 ⟨exC, [], 0⟩ ⟨false, .inner 2⟩ ⟨false, .inner 1⟩
        ⟨false, .inner 0⟩).1.cache := by
  refine ⟨by decide +kernel, by decide +kernel, by decide +kernel⟩

/-- **`apply_forall_edge` / `apply_exists_edge` / `apply_unique_edge` refine `applyQuantOp q op`**
for all three quantifiers and all eight connectives: operands and result complemented and the
quantifier dualised as the row of `apply_quant_dispatch::<Q, QN>` / `apply_quant_unique_dispatch`
says (`Bcdd.dispatch`; `applyQuantOp_eq_dispatch`: the code is the table; `Generated/ObBcdd.lean`
re-proves the table extracted from the source). -/
theorem applyQuantOpS_spec (reg : Nat → List Edge) (q : Quant) (op : Op) (a b v : Edge) :
    ∃ N, ∀ (p : Policy), p.OK → ∀ (af fuel : Nat), N ≤ af → a.size + b.size ≤ fuel →
      ∀ (st : StC) (f g vars : EdgeC), st.store.Unique → CacheOKCX reg st.store st.cache →
        DenotesC st.store f a → DenotesC st.store g b → DenotesC st.store vars v →
        Refines reg st.store (applyQuantOp q op a b v)
          (applyQuantOpS p q op af fuel st f g vars) := by
  obtain ⟨N, h⟩ := Refine.applyQuantOpS_spec reg q op a b v
  exact ⟨N, fun p pok af fuel hN hfuel st f g vars hu hc hf hg hv =>
    .ofW (h p pok af fuel hN hfuel st f g vars ⟨hu, hc⟩ hf hg hv)⟩

example : (applyQuantOpS Policy.exact .exists_ .or 20 20 ⟨exC, [], 0⟩ ⟨false, .inner 1⟩
      ⟨false, .inner 2⟩ ⟨false, .inner 0⟩).2 = ⟨false, .term⟩ ∧
    applyQuantOp .exists_ .or cAnd cOr cX1 = terminal true := by
  refine ⟨by decide +kernel, by decide +kernel⟩

/-- **`apply_unique_edge` (through `apply_quant_unique_dispatch`, incl. the special `UniqueNand`
operator) refines `applyQuantUniqueDispatch`** — the instance `q = .unique` of
`applyQuantOpS_spec`, stated separately because `∃!` does not commute with negation and has its
own table. -/
theorem applyQuantUniqueS_spec (reg : Nat → List Edge) (op : Op) (a b v : Edge) :
    ∃ N, ∀ (p : Policy), p.OK → ∀ (af fuel : Nat), N ≤ af → a.size + b.size ≤ fuel →
      ∀ (st : StC) (f g vars : EdgeC), st.store.Unique → CacheOKCX reg st.store st.cache →
        DenotesC st.store f a → DenotesC st.store g b → DenotesC st.store vars v →
        Refines reg st.store (applyQuantUniqueDispatch op a b v)
          (applyQuantOpS p .unique op af fuel st f g vars) :=
  applyQuantOpS_spec reg .unique op a b v

/-- `∃!x1. (x0∧x1) → (x0∨x1) = ∃!x1. ⊤ = ⊥` through the `UniqueNand` row -/
example : (applyQuantOpS Policy.exact .unique .imp 20 20 ⟨exC, [], 0⟩ ⟨false, .inner 1⟩
      ⟨false, .inner 2⟩ ⟨false, .inner 0⟩).2 = ⟨true, .term⟩ ∧
    applyQuantUniqueDispatch .imp cAnd cOr cX1 = terminal false ∧
    (dispatch .unique .imp).op = .uniqueNand := by
  refine ⟨by decide +kernel, by decide +kernel, rfl⟩

example : ∃ N : Nat, N = N :=
  have ⟨N, _⟩ := applyQuantUniqueS_spec regC0 .imp cAnd cOr cX1
  ⟨N, rfl⟩

/-- **`restrict` with cache refines `restrict`**: the tail-recursive walk over the cube with
polarity tracking, the cache key `(Restrict, [untagged node the walk stopped at, cube edge the walk
stopped at with the accumulated tag])`, the polarity of `f` applied to the memoised result,
`reduce`. Every node created is a node of the result, so store and result are canonical:
`internE st.store (restrict a v)`. -/
theorem restrictS_spec {p : Policy} (pok : p.OK) (reg : Nat → List Edge) (fuel : Nat) (st : StC)
    (f vars : EdgeC) (a v : Edge) (hu : st.store.Unique) (hc : CacheOKCX reg st.store st.cache)
    (hf : DenotesC st.store f a) (hv : DenotesC st.store vars v) (hfuel : a.size + v.size ≤ fuel) :
    Refines reg st.store (restrict a v) (restrictS p fuel st f vars) ∧
    (st.store.NoRed →
      ((restrictS p fuel st f vars).1.store, (restrictS p fuel st f vars).2) =
        internE st.store (restrict a v)) :=
  have P := Refine.restrictS_spec pok reg fuel st f vars a v ⟨hu, hc⟩ hf hv hfuel
  ⟨.ofW P.toPostCW, P.canon⟩

/-- non-vacuity: `f|x0=⊤,x2=⊤ = x1` on `wC` without cache (the inner walk moves to the then-child) -/
example :
    let R := restrictS Policy.none 20 ⟨wC, [], 0⟩ ⟨false, .inner 3⟩ ⟨false, .inner 4⟩
    Refines regC0 wC (restrict wF wCubeP) R ∧
      (wC.NoRed → (R.1.store, R.2) = internE wC (restrict wF wCubeP)) :=
  restrictS_spec Policy.none_ok regC0 20 ⟨wC, [], 0⟩ _ _ wF wCubeP wC_unique
    (CacheOKCX.nil _ _) wC_f wC_cubeP (by decide)

example : (restrictS Policy.exact 20 ⟨wC, [], 0⟩ ⟨false, .inner 3⟩ ⟨false, .inner 4⟩).2
      = ⟨false, .inner 6⟩ ∧ restrict wF wCubeP = wX1 ∧
    -- the entry is keyed by the node the walk reached (`#1 = x1∧x2`), untagged, and the rest cube `x2`
    (restrictS Policy.exact 20 ⟨wC, [], 0⟩ ⟨false, .inner 3⟩ ⟨false, .inner 4⟩).1.cache =
      [(encKeyC (restrictKey ⟨false, .inner 1⟩ ⟨false, .inner 0⟩), enc ⟨false, .inner 6⟩)] := by
  refine ⟨by decide +kernel, by decide +kernel, by decide +kernel⟩

/-- **`substitute_prepare` refines `substPrepare`**: levels not mentioned get their variable node
(`get_or_insert`), the store is only extended, hash consing and reducedness are kept. -/
theorem substPrepareS_spec (s : StoreC) (pairs : List (Nat × EdgeC)) (pairsT : List (Nat × Edge))
    (hu : s.Unique) (hp : DenotesPC s pairs pairsT) :
    s.Le (substPrepareS s pairs).1 ∧ (substPrepareS s pairs).1.Unique ∧
    (s.NoRed → (substPrepareS s pairs).1.NoRed) ∧
    DenotesLC (substPrepareS s pairs).1 (substPrepareS s pairs).2 (substPrepare pairsT) :=
  Refine.substPrepareS_spec s pairs pairsT hu hp

/-- non-vacuity: the substitution `x1 ↦ ¬x1` on `exC`: level 0 is not mentioned, so the vector is
`[x0, ¬x1]`; the variable node `x0` is found in slot 3 -/
example : (substPrepareS exC [(1, ⟨true, .inner 0⟩)]).2 = [⟨false, .inner 3⟩, ⟨true, .inner 0⟩] ∧
    substPrepare [(1, applyNot cX1)] = [cX0, applyNot cX1] := by
  refine ⟨by decide +kernel, by decide +kernel⟩

example : DenotesPC exC [(1, ⟨true, .inner 0⟩)] [(1, applyNot cX1)] := .cons exC_nx1 .nil

/-- **`substitute` with cache refines `substitute (reg id)`**, where `reg id` is the replacement
vector registered for the substitution id: hypothesis `hsub` says that the vector passed along with
`id` *is* the registered one (uniqueness of `Substitution::id()` made explicit): the cache key is
`(Substitute, [f with tag], [id])` and does not contain the vector. `subst_id_reuse_unsound` shows
that it cannot be dropped. -/
theorem substituteS_spec {p : Policy} (pok : p.OK) (reg : Nat → List Edge) (subst : List EdgeC)
    (id af fuel : Nat) (st : StC) (f : EdgeC) (a : Edge) (hu : st.store.Unique)
    (hc : CacheOKCX reg st.store st.cache) (hsub : DenotesLC st.store subst (reg id))
    (hf : DenotesC st.store f a) (hfuel : a.size ≤ fuel) (haf : substNeed (reg id) a.neg a.n ≤ af) :
    Refines reg st.store (substitute (reg id) a) (substituteS p subst id af fuel st f) :=
  .ofW (Refine.substituteS_spec pok reg subst id af fuel st f a ⟨hu, hc⟩ hsub hf hfuel haf)

/-- non-vacuity: `(x0∨x1)[x0 := ¬x1] = ⊤` on `exC`, id 8 registered for the vector `[¬x1]` -/
example : Refines (fun _ => cSv2) exC (substitute cSv2 cOr)
    (substituteS Policy.exact cSub2 8 10 10 ⟨exC, [], 0⟩ ⟨false, .inner 2⟩) :=
  substituteS_spec Policy.exact_ok (fun _ => cSv2) cSub2 8 10 10 ⟨exC, [], 0⟩ _ cOr
    exC_unique (CacheOKCX.nil _ _) exC_sub2 exC_or (by decide) (by decide +kernel)

/-- **`substitute_edge` = `substitute_prepare` + `substitute`** refines
`substitute (substPrepare pairs)`, provided the id is registered for exactly this substitution. -/
theorem substituteEdgeS_spec {p : Policy} (pok : p.OK) (reg : Nat → List Edge)
    (pairs : List (Nat × EdgeC)) (pairsT : List (Nat × Edge)) (id af fuel : Nat) (st : StC)
    (f : EdgeC) (a : Edge) (hu : st.store.Unique) (hc : CacheOKCX reg st.store st.cache)
    (hp : DenotesPC st.store pairs pairsT) (hreg : reg id = substPrepare pairsT)
    (hf : DenotesC st.store f a) (hfuel : a.size ≤ fuel)
    (haf : substNeed (substPrepare pairsT) a.neg a.n ≤ af) :
    Refines reg st.store (substitute (substPrepare pairsT) a)
      (substituteEdgeS p pairs id af fuel st f) :=
  .ofW (Refine.substituteEdgeS_spec pok reg pairs pairsT id af fuel st f a ⟨hu, hc⟩ hp hreg hf
    hfuel haf)

/-- non-vacuity: `(x0 ∧ x1)[x1 := ¬x1] = x0 ∧ ¬x1` on `exC` -/
example : Refines (fun _ => substPrepare [(1, applyNot cX1)]) exC
    (substitute (substPrepare [(1, applyNot cX1)]) cAnd)
    (substituteEdgeS Policy.exact [(1, ⟨true, .inner 0⟩)] 5 10 10 ⟨exC, [], 0⟩ ⟨false, .inner 1⟩) :=
  substituteEdgeS_spec Policy.exact_ok (fun _ => substPrepare [(1, applyNot cX1)])
    [(1, ⟨true, .inner 0⟩)] [(1, applyNot cX1)] 5 10 10 ⟨exC, [], 0⟩ _ cAnd exC_unique
    (CacheOKCX.nil _ _) (.cons exC_nx1 .nil) rfl exC_and (by decide) (by decide +kernel)

/-- **`apply_bin`, the eight connectives and `apply_ite` stay correct on a cache that also holds
entries of the other operators** (they are called by `quant`/`apply_quant`/`substitute` on the
shared cache): the specifications of `Bcdd/PropertiesC06` hold under the extended invariant, with
the same canonicity (`= internE`); and every cache that is sound in the sense of `PropertiesC06`
is sound in the extended sense. -/
theorem base_ops_on_extended_cache {p : Policy} (pok : p.OK) (reg : Nat → List Edge) (fuel : Nat)
    (st : StC) (hu : st.store.Unique) (hc : CacheOKCX reg st.store st.cache) :
    (∀ op f g a b, DenotesC st.store f a → DenotesC st.store g b → a.size + b.size ≤ fuel →
      PostCX reg st.store (applyBin op a b) (binS p op fuel st f g)) ∧
    (∀ op f g a b, DenotesC st.store f a → DenotesC st.store g b → a.size + b.size ≤ fuel →
      PostCX reg st.store (applyOp op a b) (applyOpS p op fuel st f g)) ∧
    (∀ f g h a b c, DenotesC st.store f a → DenotesC st.store g b → DenotesC st.store h c →
      a.size + b.size + c.size ≤ fuel →
      PostCX reg st.store (applyIte a b c) (iteS p fuel st f g h)) ∧
    (∀ c', CacheOKC st.store c' → CacheOKCX reg st.store c') :=
  ⟨fun op f g a b hf hg hs => binS_specX pok reg op fuel st f g a b ⟨hu, hc⟩ hf hg hs,
   fun op f g a b hf hg hs => applyOpS_specX pok reg op fuel st f g a b ⟨hu, hc⟩ hf hg hs,
   fun f g h a b c hf hg hh hs => iteS_specX pok reg fuel st f g h a b c ⟨hu, hc⟩ hf hg hh hs,
   fun _ h => h.toX reg⟩

/-- non-vacuity: `and` on a cache warmed up by a quantification (it holds `Forall` entries) -/
example :
    let W := (quantS Policy.exact .forall_ 10 10 ⟨exC, [], 0⟩ ⟨false, .inner 2⟩ ⟨false, .inner 0⟩).1
    W.cache ≠ [] ∧ PostCX regC0 W.store (applyBin .and cAnd cOr)
      (binS Policy.exact .and 10 W ⟨false, .inner 1⟩ ⟨false, .inner 2⟩) := by
  intro W
  have P := quantS_spec Policy.exact_ok regC0 .forall_ 10 10 ⟨exC, [], 0⟩ _ _ cOr
    cX1 exC_unique (CacheOKCX.nil _ _) exC_or exC_x1 (by decide) (by decide +kernel)
  refine ⟨by decide +kernel, ?_⟩
  exact (base_ops_on_extended_cache Policy.exact_ok regC0 10 W P.2.2.1 P.2.2.2.1).1 .and _ _ _ _
    (exC_and.mono P.2.1) (exC_or.mono P.2.1) (by decide)

/-! ## the results are the specified functions (composition with `Bcdd/Properties.lean`) -/

/-- C04 at store level: the tagged edge returned by `forall`/`exists`/`unique` denotes a tree edge
whose function is the iterated conjunction / disjunction / exclusive-or of the cofactors over the
variables of the set. -/
theorem quantS_sem {p : Policy} (pok : p.OK) (reg : Nat → List Edge) (q : Quant) (af fuel : Nat)
    (st : StC) (f vars : EdgeC) (a v : Edge) (n m : Nat) (hu : st.store.Unique)
    (hc : CacheOKCX reg st.store st.cache) (hf : DenotesC st.store f a)
    (hv : DenotesC st.store vars v) (hfuel : a.size ≤ fuel) (haf : quantNeed q a.neg a.n v ≤ af)
    (ho : Ordered n a.n) (hvo : Ordered m v.n) :
    ∃ T, DenotesC (quantS p q af fuel st f vars).1.store (quantS p q af fuel st f vars).2 T ∧
      ∀ σ, T.eval σ = qsem q (varsOf v.n) (fun τ => a.eval τ) σ :=
  ⟨_, (quantS_spec pok reg q af fuel st f vars a v hu hc hf hv hfuel haf).1,
    fun σ => bcdd_quant_sem q a v n m ho hvo σ⟩

example (σ : Nat → Bool) : ∃ T,
    DenotesC (quantS Policy.exact .forall_ 10 10 ⟨exC, [], 0⟩ ⟨false, .inner 2⟩ ⟨false, .inner 0⟩).1.store
      (quantS Policy.exact .forall_ 10 10 ⟨exC, [], 0⟩ ⟨false, .inner 2⟩ ⟨false, .inner 0⟩).2 T ∧
    T.eval σ = qsem .forall_ [1] (fun τ => cOr.eval τ) σ := by
  obtain ⟨T, h1, h2⟩ := quantS_sem Policy.exact_ok regC0 .forall_ 10 10 ⟨exC, [], 0⟩ _ _ cOr cX1 0 0
    exC_unique (CacheOKCX.nil _ _) exC_or exC_x1 (by decide) (by decide +kernel)
    (.node (by omega) .top (.node (by omega) .top .top)) (.node (by omega) .top .top)
  exact ⟨T, h1, h2 σ⟩

/-- C04 at store level for `apply_forall`/`apply_exists`/`apply_unique` with any of the eight
connectives: apply, then quantify. -/
theorem applyQuantOpS_sem (reg : Nat → List Edge) (q : Quant) (op : Op) (a b v : Edge) (n m : Nat)
    (ha : a.NF n) (hb : b.NF n) (hvo : Ordered m v.n) :
    ∃ N, ∀ (p : Policy), p.OK → ∀ (af fuel : Nat), N ≤ af → a.size + b.size ≤ fuel →
      ∀ (st : StC) (f g vars : EdgeC), st.store.Unique → CacheOKCX reg st.store st.cache →
        DenotesC st.store f a → DenotesC st.store g b → DenotesC st.store vars v →
        ∃ T, DenotesC (applyQuantOpS p q op af fuel st f g vars).1.store
            (applyQuantOpS p q op af fuel st f g vars).2 T ∧
          T = quant q (applyOp op a b) v ∧
          ∀ σ, T.eval σ = qsem q (varsOf v.n) (fun τ => op.sem (a.eval τ) (b.eval τ)) σ := by
  obtain ⟨N, h⟩ := applyQuantOpS_spec reg q op a b v
  exact ⟨N, fun p pok af fuel hN hfuel st f g vars hu hc hf hg hv =>
    ⟨_, (h p pok af fuel hN hfuel st f g vars hu hc hf hg hv).1,
      bcdd_applyQuant_eq q op a b v n m ha hb hvo,
      fun σ => bcdd_applyQuant_sem q op a b v n m ha hb hvo σ⟩⟩

example : ∃ N : Nat, N = N :=
  have ⟨N, _⟩ := applyQuantOpS_sem regC0 .exists_ .or cAnd cOr cX1 0 0
    ⟨.node (by omega) (.node (by omega) .top .top) .top, by simp [cAnd, CNode.Reduced]⟩
    ⟨.node (by omega) .top (.node (by omega) .top .top), by simp [cOr, CNode.Reduced]⟩ (.node (by omega) .top .top)
  ⟨N, rfl⟩

/-- C04 at store level for `restrict`: the cofactor w.r.t. the partial assignment of the cube. -/
theorem restrictS_sem {p : Policy} (pok : p.OK) (reg : Nat → List Edge) (fuel : Nat) (st : StC)
    (f vars : EdgeC) (a v : Edge) (n m : Nat) (hu : st.store.Unique)
    (hc : CacheOKCX reg st.store st.cache) (hf : DenotesC st.store f a)
    (hv : DenotesC st.store vars v) (hfuel : a.size + v.size ≤ fuel)
    (ho : Ordered n a.n) (hvo : Ordered m v.n) :
    ∃ T, DenotesC (restrictS p fuel st f vars).1.store (restrictS p fuel st f vars).2 T ∧
      ∀ σ, T.eval σ = a.eval (assign σ (litsOf v)) :=
  ⟨_, (restrictS_spec pok reg fuel st f vars a v hu hc hf hv hfuel).1.1,
    fun σ => bcdd_restrict_sem a v n m ho hvo σ⟩

example (σ : Nat → Bool) : ∃ T,
    DenotesC (restrictS Policy.exact 20 ⟨wC, [], 0⟩ ⟨false, .inner 3⟩ ⟨true, .inner 5⟩).1.store
      (restrictS Policy.exact 20 ⟨wC, [], 0⟩ ⟨false, .inner 3⟩ ⟨true, .inner 5⟩).2 T ∧
    T.eval σ = wF.eval (assign σ [(0, false), (2, true)]) := by
  obtain ⟨T, h1, h2⟩ := restrictS_sem Policy.exact_ok regC0 20 ⟨wC, [], 0⟩ _ _ wF wCubeN 0 0
    wC_unique (CacheOKCX.nil _ _) wC_f wC_cubeN (by decide)
    (.node (by omega) (.node (by omega) (.node (by omega) .top .top) .top)
      (.node (by omega) .top (.node (by omega) .top .top)))
    (.node (by omega) .top (.node (by omega) .top .top))
  refine ⟨T, h1, ?_⟩
  rw [h2 σ]
  rfl

/-- C04 at store level for `substitute_edge`: simultaneous substitution of exactly the listed
levels. -/
theorem substituteEdgeS_sem {p : Policy} (pok : p.OK) (reg : Nat → List Edge)
    (pairs : List (Nat × EdgeC)) (pairsT : List (Nat × Edge)) (id af fuel : Nat) (st : StC)
    (f : EdgeC) (a : Edge) (n : Nat) (hu : st.store.Unique) (hc : CacheOKCX reg st.store st.cache)
    (hp : DenotesPC st.store pairs pairsT) (hreg : reg id = substPrepare pairsT)
    (hf : DenotesC st.store f a) (hfuel : a.size ≤ fuel)
    (haf : substNeed (substPrepare pairsT) a.neg a.n ≤ af) (ho : Ordered n a.n) :
    ∃ T, DenotesC (substituteEdgeS p pairs id af fuel st f).1.store
        (substituteEdgeS p pairs id af fuel st f).2 T ∧
      ∀ σ, T.eval σ =
        a.eval (fun l => match pairsT.lookup l with | some r => r.eval σ | none => σ l) :=
  ⟨_, (substituteEdgeS_spec pok reg pairs pairsT id af fuel st f a hu hc hp hreg hf hfuel haf).1,
    fun σ => bcdd_subst_sem pairsT a n ho σ⟩

example (σ : Nat → Bool) : ∃ T,
    DenotesC (substituteEdgeS Policy.exact [(1, ⟨true, .inner 0⟩)] 5 10 10 ⟨exC, [], 0⟩
        ⟨false, .inner 1⟩).1.store
      (substituteEdgeS Policy.exact [(1, ⟨true, .inner 0⟩)] 5 10 10 ⟨exC, [], 0⟩ ⟨false, .inner 1⟩).2 T ∧
    T.eval σ = (σ 0 && !σ 1) := by
  obtain ⟨T, h1, h2⟩ := substituteEdgeS_sem Policy.exact_ok (fun _ => substPrepare [(1, applyNot cX1)])
    [(1, ⟨true, .inner 0⟩)] [(1, applyNot cX1)] 5 10 10 ⟨exC, [], 0⟩ _ cAnd 0 exC_unique
    (CacheOKCX.nil _ _) (.cons exC_nx1 .nil) rfl exC_and (by decide) (by decide +kernel)
    (.node (by omega) (.node (by omega) .top .top) .top)
  refine ⟨T, h1, ?_⟩
  rw [h2 σ]
  cases h0 : σ 0 <;> cases h1 : σ 1 <;>
    simp [cAnd, cX1, var, applyNot, Edge.eval, CNode.eval, List.lookup, h0, h1]

/-! ## cache keys -/

/-- **A hit needs the full key: operator, every edge operand with its complement tag, every
numeric operand.** For every admissible policy a hit for a well-formed key is backed by an entry
whose key — decoded — has the same operator, the same tagged edge operands and the same numeric
operands (`encKeyC` is injective). -/
theorem ckey_full {p : Policy} (pok : p.OK) (t : Nat) (c : Cache) (k : CKey) (hk : k.WF)
    (r : Bdd.Refine.Edge) (h : p.get t c (encKeyC k) = some r) :
    (encKeyC k, r) ∈ c ∧
    ∀ k' : CKey, k'.WF → encKeyC k' = encKeyC k →
      k'.op = k.op ∧ k'.operands = k.operands ∧ k'.nums = k.nums :=
  ⟨pok.get_mem t c _ r h, fun k' hk' e => by rw [encKeyC_inj hk' hk e]; exact ⟨rfl, rfl, rfl⟩⟩

/-- consequently: if no entry carries exactly this key, every admissible policy misses -/
theorem ckey_no_cross_hit {p : Policy} (pok : p.OK) (t : Nat) (c : Cache) (k : Key)
    (h : ∀ x, x ∈ c → x.1 ≠ k) : p.get t c k = none := by
  cases hg : p.get t c k with
  | none => rfl
  | some r => exact absurd rfl (h _ (pok.get_mem t c k r hg))

/-- non-vacuity: after `∀{x0,x1}. x0∨x1` the ideal cache answers the query `(Forall, [#2, #1])` and
misses the same node with another set, another quantifier, **the complemented edge**, and the
`Restrict` key with the same operands -/
example :
    let c := (quantS Policy.exact .forall_ 10 10 ⟨exC, [], 0⟩ ⟨false, .inner 2⟩ ⟨false, .inner 1⟩).1.cache
    Policy.exact.get 0 c (encKeyC (quantKey .forall_ ⟨false, .inner 2⟩ ⟨false, .inner 1⟩))
      = some (enc ⟨true, .term⟩) ∧
    Policy.exact.get 0 c (encKeyC (quantKey .forall_ ⟨false, .inner 2⟩ ⟨false, .inner 0⟩)) = none ∧
    Policy.exact.get 0 c (encKeyC (quantKey .exists_ ⟨false, .inner 2⟩ ⟨false, .inner 1⟩)) = none ∧
    Policy.exact.get 0 c (encKeyC (quantKey .forall_ ⟨true, .inner 2⟩ ⟨false, .inner 1⟩)) = none ∧
    Policy.exact.get 0 c (encKeyC (restrictKey ⟨false, .inner 2⟩ ⟨false, .inner 1⟩)) = none := by
  decide +kernel

/-- **The quantification key contains the variable set (as popped), the quantifier and the
complement tag of `f`.**
1. the meaning of a `Forall/Exists/Unique` entry is relative to *both* operands: it is sound iff
   its value denotes `quant q a v` for the tree edges of `f` **and** `vars`;
2. two quantification keys coincide only if quantifier, `f` (target and tag) and the `vars` edge
   coincide;
3. hence a query with a variable-set edge `vars` is never answered from an entry stored for
   another set: if no quantification entry of the cache carries `vars`, every admissible policy
   misses;
4. every entry `quant::<Q>` creates is keyed by `(Q's operator, [·, ·])` or is an entry of an
   inner `apply_and` / `apply_bin::<Xor>`.
Negative witnesses: `quant_key_without_vars_unsound`, `quant_key_shadowed_unsound`,
`quant_key_without_tag_unsound`, `quant_key_without_quantifier_unsound`. -/
theorem quant_key_has_vars {p : Policy} (pok : p.OK) :
    (∀ (reg : Nat → List Edge) (s : StoreC) (q : Quant) (f vars : EdgeC) (a v : Edge)
      (r : Bdd.Refine.Edge), DenotesC s f a → DenotesC s vars v →
      (EntryOKCX reg s (encKeyC (quantKey q f vars)) r ↔ DenotesC s (dec r) (quant q a v))) ∧
    (∀ (q q' : Quant) (f f' vars vars' : EdgeC),
      encKeyC (quantKey q' f' vars') = encKeyC (quantKey q f vars) →
        q' = q ∧ f'.neg = f.neg ∧ f'.tgt = f.tgt ∧ vars' = vars) ∧
    (∀ (t : Nat) (c : Cache) (q : Quant) (f vars : EdgeC),
      (∀ x q' f' w, x ∈ c → x.1 = encKeyC (quantKey q' f' w) → w ≠ vars) →
      p.get t c (encKeyC (quantKey q f vars)) = none) ∧
    (∀ (q : Quant) (af fuel : Nat) (st : StC) (f vars : EdgeC) (x : Key × Bdd.Refine.Edge),
      x ∈ (quantS p q af fuel st f vars).1.cache →
      x ∈ st.cache ∨ IsBaseKeyC x.1 ∨ ∃ f' v', x.1 = encKeyC (quantKey q f' v')) := by
  refine ⟨?_, ?_, ?_, fun q af fuel st f vars x hx => quantS_grows pok q af fuel st f vars x hx⟩
  · intro reg s q f vars a v r hf hv
    exact ⟨fun h => h.hit (quantKey_wf q f vars) (DenotesLC.two hf hv) rfl,
      fun h => EntryOKCX.intro (quantKey_wf q f vars) (DenotesLC.two hf hv) rfl h⟩
  · intro q q' f f' vars vars' e
    have := encKeyC_inj (quantKey_wf _ _ _) (quantKey_wf _ _ _) e
    simp only [quantKey, CKey.mk.injEq, COp.quant.injEq, List.cons.injEq, and_true] at this
    obtain ⟨h1, h2, h3⟩ := this
    subst h2
    exact ⟨h1, rfl, rfl, h3⟩
  · intro t c q f vars hall
    apply ckey_no_cross_hit pok
    intro x hx heq
    exact hall x q f vars hx heq rfl

/-- **The `apply_quant` key contains all three operands with their tags, the native operator and
the quantifier.**
1. an entry is sound iff its value denotes `applyQuant q op a b v` for the tree edges of `f`, `g`
   **and** `vars`;
2. two keys coincide only if quantifier, native operator and all three edges coincide;
3. an `apply_quant` key never coincides with a `quant`, `Restrict`, `Substitute`, `And`/`Xor` or
   `Ite` key (for the same or other operands);
4. every entry `apply_quant::<Q, OP>` creates is keyed by `(from_apply_quant(Q, OP), [·,·,·])`,
   by `(Q's operator, [·,·])` (delegation to `quant`), or is an entry of an inner `apply_bin`.
Negative witnesses: `apply_quant_key_…_unsound`. -/
theorem apply_quant_key_full {p : Policy} (pok : p.OK) :
    (∀ (reg : Nat → List Edge) (s : StoreC) (q : Quant) (op : QOp) (f g vars : EdgeC)
      (a b v : Edge) (r : Bdd.Refine.Edge), DenotesC s f a → DenotesC s g b → DenotesC s vars v →
      (EntryOKCX reg s (encKeyC (applyQuantKey q op f g vars)) r ↔
        DenotesC s (dec r) (applyQuant q op a b v))) ∧
    (∀ (q q' : Quant) (op op' : QOp) (f f' g g' vars vars' : EdgeC),
      encKeyC (applyQuantKey q' op' f' g' vars') = encKeyC (applyQuantKey q op f g vars) →
      q' = q ∧ op' = op ∧ f' = f ∧ g' = g ∧ vars' = vars) ∧
    (∀ (q q' : Quant) (op : QOp) (f g vars x y z : EdgeC) (id : Nat) (bop : BOp),
      encKeyC (applyQuantKey q op f g vars) ≠ encKeyC (quantKey q' x y) ∧
      encKeyC (applyQuantKey q op f g vars) ≠ encKeyC (restrictKey x y) ∧
      encKeyC (applyQuantKey q op f g vars) ≠ encKeyC (substKey x id) ∧
      encKeyC (applyQuantKey q op f g vars) ≠ encKeyC (binKey bop x y) ∧
      encKeyC (applyQuantKey q op f g vars) ≠ encKeyC (iteKey x y z)) ∧
    (∀ (q : Quant) (op : QOp) (af fuel : Nat) (st : StC) (f g vars : EdgeC)
      (x : Key × Bdd.Refine.Edge),
      x ∈ (applyQuantS p q op af fuel st f g vars).1.cache →
      x ∈ st.cache ∨ IsBaseKeyC x.1 ∨ (∃ f' v', x.1 = encKeyC (quantKey q f' v')) ∨
        ∃ f' g' v', x.1 = encKeyC (applyQuantKey q op f' g' v')) := by
  refine ⟨?_, ?_, ?_, fun q op af fuel st f g vars x hx =>
    applyQuantS_grows pok q op af fuel st f g vars x hx⟩
  · intro reg s q op f g vars a b v r hf hg hv
    exact ⟨fun h => h.hit (applyQuantKey_wf q op f g vars) (DenotesLC.three hf hg hv) rfl,
      fun h => EntryOKCX.intro (applyQuantKey_wf q op f g vars) (DenotesLC.three hf hg hv) rfl h⟩
  · intro q q' op op' f f' g g' vars vars' e
    have := encKeyC_inj (applyQuantKey_wf _ _ _ _ _) (applyQuantKey_wf _ _ _ _ _) e
    simp only [applyQuantKey, CKey.mk.injEq, COp.applyQuant.injEq, List.cons.injEq, and_true] at this
    exact ⟨this.1.1, this.1.2, this.2.1, this.2.2.1, this.2.2.2⟩
  · intro q q' op f g vars x y z id bop
    refine ⟨fun e => ?_, fun e => ?_, fun e => ?_, fun e => ?_, fun e => ?_⟩
    · have := encKeyC_inj (applyQuantKey_wf _ _ _ _ _) (quantKey_wf _ _ _) e
      simp [applyQuantKey, quantKey] at this
    · have := encKeyC_inj (applyQuantKey_wf _ _ _ _ _) (restrictKey_wf _ _) e
      simp [applyQuantKey, restrictKey] at this
    · have := encKeyC_inj (applyQuantKey_wf _ _ _ _ _) (substKey_wf _ _) e
      simp [applyQuantKey, substKey] at this
    · have := encKeyC_inj (applyQuantKey_wf _ _ _ _ _) (binKey_wf _ _ _) e
      cases bop <;> simp [applyQuantKey, binKey, COp.ofB] at this
    · have := encKeyC_inj (applyQuantKey_wf _ _ _ _ _) (iteKey_wf _ _ _) e
      simp [applyQuantKey, iteKey] at this

/-- non-vacuity: the entry created by `∃{x1}. (x0∨x1) ∧ (x0∧x1)` is not served for another variable
set, another native operator, another quantifier, the un-ordered operand pair or a complemented
operand -/
example :
    let c := (applyQuantS Policy.exact .exists_ .and 20 20 ⟨exC, [], 0⟩ ⟨false, .inner 2⟩
      ⟨false, .inner 1⟩ ⟨false, .inner 0⟩).1.cache
    Policy.exact.get 0 c (encKeyC (applyQuantKey .exists_ .and ⟨false, .inner 1⟩ ⟨false, .inner 2⟩
      ⟨false, .inner 0⟩)) = some (enc ⟨false, .inner 3⟩) ∧
    Policy.exact.get 0 c (encKeyC (applyQuantKey .exists_ .and ⟨false, .inner 1⟩ ⟨false, .inner 2⟩
      ⟨false, .inner 1⟩)) = none ∧
    Policy.exact.get 0 c (encKeyC (applyQuantKey .exists_ .xor ⟨false, .inner 1⟩ ⟨false, .inner 2⟩
      ⟨false, .inner 0⟩)) = none ∧
    Policy.exact.get 0 c (encKeyC (applyQuantKey .forall_ .and ⟨false, .inner 1⟩ ⟨false, .inner 2⟩
      ⟨false, .inner 0⟩)) = none ∧
    Policy.exact.get 0 c (encKeyC (applyQuantKey .exists_ .and ⟨false, .inner 2⟩ ⟨false, .inner 1⟩
      ⟨false, .inner 0⟩)) = none ∧
    Policy.exact.get 0 c (encKeyC (applyQuantKey .exists_ .and ⟨false, .inner 1⟩ ⟨true, .inner 2⟩
      ⟨false, .inner 0⟩)) = none := by
  decide +kernel

/-- **The `Restrict` key contains the cube (with its accumulated tag) and the node the walk
reached.** An entry `(Restrict, [f, vars]) ↦ r` is sound iff `r` denotes `restrict a v` for the
tree edges of `f` **and** the cube edge; two keys coincide only if both edges coincide; a query
with cube edge `vars` misses unless an entry with exactly this cube edge exists; `restrict` only
creates `(Restrict, [untagged ·, ·])` entries. Negative witnesses:
`restrict_key_without_cube_unsound`, `restrict_key_outer_edge_unsound`,
`restrict_key_without_cube_tag_unsound`, `restrict_hit_without_tag_unsound`. -/
theorem restrict_key_has_cube {p : Policy} (pok : p.OK) :
    (∀ (reg : Nat → List Edge) (s : StoreC) (f vars : EdgeC) (a v : Edge) (r : Bdd.Refine.Edge),
      DenotesC s f a → DenotesC s vars v →
      (EntryOKCX reg s (encKeyC (restrictKey f vars)) r ↔ DenotesC s (dec r) (restrict a v))) ∧
    (∀ (f f' vars vars' : EdgeC),
      encKeyC (restrictKey f' vars') = encKeyC (restrictKey f vars) → f' = f ∧ vars' = vars) ∧
    (∀ (t : Nat) (c : Cache) (f vars : EdgeC),
      (∀ x f' w, x ∈ c → x.1 = encKeyC (restrictKey f' w) → w ≠ vars) →
      p.get t c (encKeyC (restrictKey f vars)) = none) ∧
    (∀ (fuel : Nat) (st : StC) (f vars : EdgeC) (x : Key × Bdd.Refine.Edge),
      x ∈ (restrictS p fuel st f vars).1.cache →
      x ∈ st.cache ∨ ∃ f' v', x.1 = encKeyC (restrictKey ⟨false, f'⟩ v')) := by
  refine ⟨?_, ?_, ?_, fun fuel st f vars x hx => restrictS_grows pok fuel st f vars x hx⟩
  · intro reg s f vars a v r hf hv
    exact ⟨fun h => h.hit (restrictKey_wf f vars) (DenotesLC.two hf hv) rfl,
      fun h => EntryOKCX.intro (restrictKey_wf f vars) (DenotesLC.two hf hv) rfl h⟩
  · intro f f' vars vars' e
    have := encKeyC_inj (restrictKey_wf _ _) (restrictKey_wf _ _) e
    simp only [restrictKey, CKey.mk.injEq, List.cons.injEq, and_true, true_and] at this
    exact this
  · intro t c f vars hall
    apply ckey_no_cross_hit pok
    intro x hx heq
    exact hall x f vars hx heq rfl

/-- non-vacuity: after `restrict(x1∧x2, x2)` a query with the cube `¬x2` (same node, other tag) on
the same node misses -/
example :
    let c := (restrictS Policy.exact 20 ⟨wC, [], 0⟩ ⟨false, .inner 1⟩ ⟨false, .inner 0⟩).1.cache
    c = [(encKeyC (restrictKey ⟨false, .inner 1⟩ ⟨false, .inner 0⟩), enc ⟨false, .inner 6⟩)] ∧
    Policy.exact.get 0 c (encKeyC (restrictKey ⟨false, .inner 1⟩ ⟨true, .inner 0⟩)) = none := by
  decide +kernel

/-- **The `Substitute` key contains the substitution id (and only the id) and `f` with its tag.**
An entry `(Substitute, [f], [id]) ↦ r` is sound iff `r` denotes `substitute (reg id) a` — relative
to the vector *registered* for `id`; two keys coincide only if `f` and `id` coincide; a query under
`id` misses unless an entry with exactly this id exists; `substitute(…, id)` only creates
`(Substitute, [·], [id])` entries and entries of the inner `apply_ite` (which delegates to
`apply_and` / `apply_bin::<Xor>`). Negative witnesses: `subst_key_without_id_unsound`,
`subst_id_reuse_unsound`, `subst_key_without_tag_unsound`. -/
theorem subst_key_has_id {p : Policy} (pok : p.OK) :
    (∀ (reg : Nat → List Edge) (s : StoreC) (f : EdgeC) (id : Nat) (a : Edge)
      (r : Bdd.Refine.Edge), DenotesC s f a →
      (EntryOKCX reg s (encKeyC (substKey f id)) r ↔
        DenotesC s (dec r) (substitute (reg id) a))) ∧
    (∀ (f f' : EdgeC) (id id' : Nat),
      encKeyC (substKey f' id') = encKeyC (substKey f id) → f' = f ∧ id' = id) ∧
    (∀ (t : Nat) (c : Cache) (f : EdgeC) (id : Nat),
      (∀ x f' id', x ∈ c → x.1 = encKeyC (substKey f' id') → id' ≠ id) →
      p.get t c (encKeyC (substKey f id)) = none) ∧
    (∀ (subst : List EdgeC) (id af fuel : Nat) (st : StC) (f : EdgeC) (x : Key × Bdd.Refine.Edge),
      x ∈ (substituteS p subst id af fuel st f).1.cache →
      x ∈ st.cache ∨ IsBaseKeyC x.1 ∨ ∃ f', x.1 = encKeyC (substKey f' id)) := by
  refine ⟨?_, ?_, ?_, fun subst id af fuel st f x hx =>
    substituteS_grows pok subst id af fuel st f x hx⟩
  · intro reg s f id a r hf
    exact ⟨fun h => h.hit (substKey_wf f id) (DenotesLC.one hf) rfl,
      fun h => EntryOKCX.intro (substKey_wf f id) (DenotesLC.one hf) rfl h⟩
  · intro f f' id id' e
    have := encKeyC_inj (substKey_wf _ _) (substKey_wf _ _) e
    simp only [substKey, CKey.mk.injEq, List.cons.injEq, and_true, true_and] at this
    exact this
  · intro t c f id hall
    apply ckey_no_cross_hit pok
    intro x hx heq
    exact hall x f id hx heq rfl

/-- non-vacuity: the entry of substitution 7 is not served for substitution 8 on the same edge -/
example :
    let c := (substituteS Policy.exact cSub1 7 10 10 ⟨exC, [], 0⟩ ⟨false, .inner 2⟩).1.cache
    Policy.exact.get 0 c (encKeyC (substKey ⟨false, .inner 2⟩ 7)) = some (enc ⟨false, .inner 0⟩) ∧
    Policy.exact.get 0 c (encKeyC (substKey ⟨false, .inner 2⟩ 8)) = none := by
  decide +kernel

/-! ## dropping a key component is unsound (concrete witnesses)

Each witness runs *the same code* with one key component dropped or replaced (`…SK` of
`WitnessC04S.lean`; `…SK_real`: with the keys of the Rust code these are `quantS`, `restrictS`,
`applyQuantS`, `substituteS`) twice with the ideal cache and compares with the real key in the
same history. -/

/-- the key-parameterised variants instantiated with the real keys are the algorithms of this
file -/
theorem variants_are_the_code (p : Policy) :
    (∀ q af fuel st f vars, quantSK qkReal qkReal p q af fuel st f vars = quantS p q af fuel st f vars) ∧
    (∀ fuel st f vars, restrictSK rkReal true p fuel st f vars = restrictS p fuel st f vars) ∧
    (∀ q op af fuel st f g vars,
      applyQuantSK akReal p q op af fuel st f g vars = applyQuantS p q op af fuel st f g vars) ∧
    (∀ subst id af fuel st f,
      substituteSK skReal p subst id af fuel st f = substituteS p subst id af fuel st f) :=
  ⟨fun q af fuel => quantSK_real p q af fuel, fun fuel => restrictSK_real p fuel,
   fun q op af fuel => applyQuantSK_real p q op af fuel,
   fun subst id af fuel => substituteSK_real p subst id af fuel⟩

/-- `⊥` denotes the variable `x0` in no store -/
theorem not_denotes_bot_x0 (s : StoreC) : ¬ DenotesC s ⟨true, .term⟩ cX0 := by
  intro h; exact absurd h.1 (by decide)

/-- **Dropping `vars` from the quantification key is unsound** (superset, then subset of the
variables on the same edge, ideal cache): the second query is answered ⊥ from the entry of the
first, but the specified result is `x0`. The real `quantS` answers correctly in the same history. -/
theorem quant_key_without_vars_unsound :
    let K := quantSK qkNoVars qkNoVars Policy.exact .forall_ 10 10
    let R := quantS Policy.exact .forall_ 10 10
    -- defective key
    (K ⟨exC, [], 0⟩ ⟨false, .inner 2⟩ ⟨false, .inner 1⟩).2 = ⟨true, .term⟩ ∧
    (K (K ⟨exC, [], 0⟩ ⟨false, .inner 2⟩ ⟨false, .inner 1⟩).1 ⟨false, .inner 2⟩ ⟨false, .inner 0⟩).2
      = ⟨true, .term⟩ ∧
    -- … which no store can make a correct answer for `∀{x1}. x0∨x1 = x0`
    quant .forall_ cOr cAnd = terminal false ∧ quant .forall_ cOr cX1 = cX0 ∧
    (∀ s : StoreC, ¬ DenotesC s ⟨true, .term⟩ (quant .forall_ cOr cX1)) ∧
    -- real key: the second result is the node `x0`
    (R ⟨exC, [], 0⟩ ⟨false, .inner 2⟩ ⟨false, .inner 1⟩).2 = ⟨true, .term⟩ ∧
    (R (R ⟨exC, [], 0⟩ ⟨false, .inner 2⟩ ⟨false, .inner 1⟩).1 ⟨false, .inner 2⟩ ⟨false, .inner 0⟩).2
      = ⟨false, .inner 3⟩ := by
  have e : quant .forall_ cOr cX1 = cX0 := by decide +kernel
  refine ⟨by decide +kernel, by decide +kernel, by decide +kernel, e, ?_, by decide +kernel,
    by decide +kernel⟩
  intro s; rw [e]; exact not_denotes_bot_x0 s

/-- **The seeded pattern: memoising `quant` under the variable set *without* its popped top
variable while looking up under the full set is unsound.** `∀{x0,x1}. x0∨x1 = ⊥` is inserted under
the key `(Forall, [f, {x1}])` (`vt`, the set handed to the recursive calls, instead of `vars`); the
legitimate later query `∀{x1}. x0∨x1` looks up exactly that key and gets ⊥ instead of `x0`. The
lookups of the defective variant use the real key, so single operations from a cold cache are
correct — the defect needs a second query to show. -/
theorem quant_key_shadowed_unsound :
    let K := quantSK qkReal qkShadow Policy.exact .forall_ 10 10
    let R := quantS Policy.exact .forall_ 10 10
    (K ⟨exC, [], 0⟩ ⟨false, .inner 2⟩ ⟨false, .inner 1⟩).2 = ⟨true, .term⟩ ∧
    (encKeyC (quantKey .forall_ ⟨false, .inner 2⟩ ⟨false, .inner 0⟩), enc ⟨true, .term⟩) ∈
      (K ⟨exC, [], 0⟩ ⟨false, .inner 2⟩ ⟨false, .inner 1⟩).1.cache ∧
    (K (K ⟨exC, [], 0⟩ ⟨false, .inner 2⟩ ⟨false, .inner 1⟩).1 ⟨false, .inner 2⟩ ⟨false, .inner 0⟩).2
      = ⟨true, .term⟩ ∧
    (∀ s : StoreC, ¬ DenotesC s ⟨true, .term⟩ (quant .forall_ cOr cX1)) ∧
    -- the cache of the defective run is *not* sound, that of the real run is
    ¬ CacheOKCX regC0 (K ⟨exC, [], 0⟩ ⟨false, .inner 2⟩ ⟨false, .inner 1⟩).1.store
      (K ⟨exC, [], 0⟩ ⟨false, .inner 2⟩ ⟨false, .inner 1⟩).1.cache ∧
    (R (R ⟨exC, [], 0⟩ ⟨false, .inner 2⟩ ⟨false, .inner 1⟩).1 ⟨false, .inner 2⟩ ⟨false, .inner 0⟩).2
      = ⟨false, .inner 3⟩ := by
  intro K R
  have e : quant .forall_ cOr cX1 = cX0 := by decide +kernel
  have hmem : (encKeyC (quantKey .forall_ ⟨false, .inner 2⟩ ⟨false, .inner 0⟩), enc ⟨true, .term⟩) ∈
      (K ⟨exC, [], 0⟩ ⟨false, .inner 2⟩ ⟨false, .inner 1⟩).1.cache := by decide +kernel
  have hs : (K ⟨exC, [], 0⟩ ⟨false, .inner 2⟩ ⟨false, .inner 1⟩).1.store = exC := by
    show (⟨(K ⟨exC, [], 0⟩ ⟨false, .inner 2⟩ ⟨false, .inner 1⟩).1.store.nodes⟩ : StoreC) = ⟨exC.nodes⟩
    rw [show (K ⟨exC, [], 0⟩ ⟨false, .inner 2⟩ ⟨false, .inner 1⟩).1.store.nodes = exC.nodes by
      decide +kernel]
  refine ⟨by decide +kernel, hmem, by decide +kernel, ?_, ?_, by decide +kernel⟩
  · intro s; rw [e]; exact not_denotes_bot_x0 s
  · intro hc
    have := (hc _ _ hmem).hit (quantKey_wf _ _ _)
      (DenotesLC.two (hs ▸ exC_or) (hs ▸ exC_x1)) rfl
    rw [e, dec_enc] at this
    exact not_denotes_bot_x0 _ this

/-- **Dropping the complement tag of `f` from the quantification key is unsound** (the code does
not dualise the quantifier, so `∀` on `g` and `∀` on `¬g` are different problems):
`∀{x1}. x0∨x1 = x0`, then `∀{x1}. ¬(x0∨x1) = ⊥` is answered `x0`. -/
theorem quant_key_without_tag_unsound :
    let K := quantSK qkNoTag qkNoTag Policy.exact .forall_ 10 10
    let R := quantS Policy.exact .forall_ 10 10
    (K ⟨exC, [], 0⟩ ⟨false, .inner 2⟩ ⟨false, .inner 0⟩).2 = ⟨false, .inner 3⟩ ∧
    (K (K ⟨exC, [], 0⟩ ⟨false, .inner 2⟩ ⟨false, .inner 0⟩).1 ⟨true, .inner 2⟩ ⟨false, .inner 0⟩).2
      = ⟨false, .inner 3⟩ ∧
    quant .forall_ (applyNot cOr) cX1 = terminal false ∧
    (∀ s : StoreC, ¬ DenotesC s ⟨false, .inner 3⟩ (quant .forall_ (applyNot cOr) cX1)) ∧
    (R (R ⟨exC, [], 0⟩ ⟨false, .inner 2⟩ ⟨false, .inner 0⟩).1 ⟨true, .inner 2⟩ ⟨false, .inner 0⟩).2
      = ⟨true, .term⟩ := by
  have e : quant .forall_ (applyNot cOr) cX1 = terminal false := by decide +kernel
  refine ⟨by decide +kernel, by decide +kernel, e, ?_, by decide +kernel⟩
  intro s h; rw [e] at h; exact absurd h.1 (by decide)

/-- **Dropping the quantifier from the key is unsound**: `∀{x1}. x0∨x1 = x0`, then
`∃{x1}. x0∨x1 = ⊤` is answered `x0`. -/
theorem quant_key_without_quantifier_unsound :
    let K := quantSK qkNoQ qkNoQ Policy.exact
    (K .forall_ 10 10 ⟨exC, [], 0⟩ ⟨false, .inner 2⟩ ⟨false, .inner 0⟩).2 = ⟨false, .inner 3⟩ ∧
    (K .exists_ 10 10 (K .forall_ 10 10 ⟨exC, [], 0⟩ ⟨false, .inner 2⟩ ⟨false, .inner 0⟩).1
      ⟨false, .inner 2⟩ ⟨false, .inner 0⟩).2 = ⟨false, .inner 3⟩ ∧
    quant .exists_ cOr cX1 = terminal true ∧
    (∀ s : StoreC, ¬ DenotesC s ⟨false, .inner 3⟩ (quant .exists_ cOr cX1)) ∧
    (quantS Policy.exact .exists_ 10 10
      (quantS Policy.exact .forall_ 10 10 ⟨exC, [], 0⟩ ⟨false, .inner 2⟩ ⟨false, .inner 0⟩).1
      ⟨false, .inner 2⟩ ⟨false, .inner 0⟩).2 = ⟨false, .term⟩ := by
  have e : quant .exists_ cOr cX1 = terminal true := by decide +kernel
  refine ⟨by decide +kernel, by decide +kernel, e, ?_, by decide +kernel⟩
  intro s h; rw [e] at h; cases h.2

/-- **Dropping the cube from the `Restrict` key is unsound**: `restrict(x1∧x2, x2) = x1`, then
`restrict(x1∧x2, ¬x2) = ⊥` is answered `x1`. -/
theorem restrict_key_without_cube_unsound :
    let K := restrictSK rkNoCube true Policy.exact 20
    let R := restrictS Policy.exact 20
    (K ⟨wC, [], 0⟩ ⟨false, .inner 1⟩ ⟨false, .inner 0⟩).2 = ⟨false, .inner 6⟩ ∧
    (K (K ⟨wC, [], 0⟩ ⟨false, .inner 1⟩ ⟨false, .inner 0⟩).1 ⟨false, .inner 1⟩ ⟨true, .inner 0⟩).2
      = ⟨false, .inner 6⟩ ∧
    restrict wG (applyNot (var 2)) = terminal false ∧
    (∀ s : StoreC, ¬ DenotesC s ⟨false, .inner 6⟩ (restrict wG (applyNot (var 2)))) ∧
    (R ⟨wC, [], 0⟩ ⟨false, .inner 1⟩ ⟨false, .inner 0⟩).2 = ⟨false, .inner 6⟩ ∧
    (R (R ⟨wC, [], 0⟩ ⟨false, .inner 1⟩ ⟨false, .inner 0⟩).1 ⟨false, .inner 1⟩ ⟨true, .inner 0⟩).2
      = ⟨true, .term⟩ := by
  have e : restrict wG (applyNot (var 2)) = terminal false := by decide +kernel
  refine ⟨by decide +kernel, by decide +kernel, e, ?_, by decide +kernel, by decide +kernel⟩
  intro s h; rw [e] at h; exact absurd h.1 (by decide)

/-- **The seeded pattern: `restrict` keyed by the edge the outer call started with instead of the
node the inner walk reached is unsound.** `f = x0 ? x1∧x2 : x1∨x2`. `restrict(f, x0∧x2)`: the walk
takes the then-child `x1∧x2` and stops above `x2`; the result `x1` is memoised under
`(f, x2)` instead of `(x1∧x2, x2)`. `restrict(f, ¬x0∧x2)`: the walk takes the else-child `x1∨x2`,
stops above `x2`, looks up `(f, x2)` and returns `x1` instead of `⊤`. -/
theorem restrict_key_outer_edge_unsound :
    let K := restrictSK rkOuter true Policy.exact 20
    let R := restrictS Policy.exact 20
    (K ⟨wC, [], 0⟩ ⟨false, .inner 3⟩ ⟨false, .inner 4⟩).2 = ⟨false, .inner 6⟩ ∧
    (K ⟨wC, [], 0⟩ ⟨false, .inner 3⟩ ⟨false, .inner 4⟩).1.cache =
      [(encKeyC (restrictKey ⟨false, .inner 3⟩ ⟨false, .inner 0⟩), enc ⟨false, .inner 6⟩)] ∧
    (K (K ⟨wC, [], 0⟩ ⟨false, .inner 3⟩ ⟨false, .inner 4⟩).1 ⟨false, .inner 3⟩ ⟨true, .inner 5⟩).2
      = ⟨false, .inner 6⟩ ∧
    restrict wF wCubeP = wX1 ∧ restrict wF wCubeN = terminal true ∧
    (∀ s : StoreC, ¬ DenotesC s ⟨false, .inner 6⟩ (restrict wF wCubeN)) ∧
    -- real key: memoised under the node reached, the second call computes `⊤`
    (R ⟨wC, [], 0⟩ ⟨false, .inner 3⟩ ⟨false, .inner 4⟩).1.cache =
      [(encKeyC (restrictKey ⟨false, .inner 1⟩ ⟨false, .inner 0⟩), enc ⟨false, .inner 6⟩)] ∧
    (R (R ⟨wC, [], 0⟩ ⟨false, .inner 3⟩ ⟨false, .inner 4⟩).1 ⟨false, .inner 3⟩ ⟨true, .inner 5⟩).2
      = ⟨false, .term⟩ := by
  have e : restrict wF wCubeN = terminal true := by decide +kernel
  refine ⟨by decide +kernel, by decide +kernel, by decide +kernel, by decide +kernel, e, ?_,
    by decide +kernel, by decide +kernel⟩
  intro s h; rw [e] at h; cases h.2

/-- **Dropping the accumulated complement tag of the cube from the key is unsound** (the cubes
`x2` and `¬x2` are the same node; this is the key part of the round-1 seeded change
`C04-bcdd-restrict-tag`): same history as `restrict_key_without_cube_unsound`. -/
theorem restrict_key_without_cube_tag_unsound :
    let K := restrictSK rkVarsNoTag true Policy.exact 20
    (K ⟨wC, [], 0⟩ ⟨false, .inner 1⟩ ⟨false, .inner 0⟩).2 = ⟨false, .inner 6⟩ ∧
    (K (K ⟨wC, [], 0⟩ ⟨false, .inner 1⟩ ⟨false, .inner 0⟩).1 ⟨false, .inner 1⟩ ⟨true, .inner 0⟩).2
      = ⟨false, .inner 6⟩ ∧
    (∀ s : StoreC, ¬ DenotesC s ⟨false, .inner 6⟩ (restrict wG (applyNot (var 2)))) :=
  ⟨by decide +kernel, by decide +kernel, restrict_key_without_cube_unsound.2.2.2.1⟩

/-- **The key holds the untagged `f`; the polarity must be applied to a cached result.** Returning
a hit without `^ f_tag` is unsound: `restrict(x1∧x2, x2) = x1`, then `restrict(¬(x1∧x2), x2) = ¬x1`
is answered `x1`. (With the xor — the real code — both polarities share one entry.) -/
theorem restrict_hit_without_tag_unsound :
    let K := restrictSK rkReal false Policy.exact 20
    let R := restrictS Policy.exact 20
    (K (K ⟨wC, [], 0⟩ ⟨false, .inner 1⟩ ⟨false, .inner 0⟩).1 ⟨true, .inner 1⟩ ⟨false, .inner 0⟩).2
      = ⟨false, .inner 6⟩ ∧
    restrict (applyNot wG) (var 2) = applyNot wX1 ∧
    (∀ s : StoreC, ¬ DenotesC s ⟨false, .inner 6⟩ (restrict (applyNot wG) (var 2))) ∧
    (R (R ⟨wC, [], 0⟩ ⟨false, .inner 1⟩ ⟨false, .inner 0⟩).1 ⟨true, .inner 1⟩ ⟨false, .inner 0⟩).2
      = ⟨true, .inner 6⟩ ∧
    -- … served from the single entry of the first call
    (R (R ⟨wC, [], 0⟩ ⟨false, .inner 1⟩ ⟨false, .inner 0⟩).1 ⟨true, .inner 1⟩ ⟨false, .inner 0⟩).1.cache
      = (R ⟨wC, [], 0⟩ ⟨false, .inner 1⟩ ⟨false, .inner 0⟩).1.cache := by
  have e : restrict (applyNot wG) (var 2) = applyNot wX1 := by decide +kernel
  refine ⟨by decide +kernel, e, ?_, by decide +kernel, by decide +kernel⟩
  intro s h; rw [e] at h; exact absurd h.1 (by decide)

/-- **Both operators of `apply_quant` are part of the key.** Memoising `ExistXor` under `ExistAnd`
(native operator dropped): `∃{x1}. (x0∧x1) ∧ (x0∨x1) = x0`, then `∃{x1}. (x0∧x1) ⊕ (x0∨x1) = ⊤` is
answered `x0`. Quantifier dropped: `∀{x1}. (x0∧x1) ∧ (x0∨x1) = ⊥` is answered `x0`. -/
theorem apply_quant_key_without_operator_unsound :
    let A := applyQuantSK akNoOp Policy.exact
    let Q := applyQuantSK akNoQ Policy.exact
    let f : EdgeC := ⟨false, .inner 1⟩
    let g : EdgeC := ⟨false, .inner 2⟩
    let v : EdgeC := ⟨false, .inner 0⟩
    (A .exists_ .and 20 20 ⟨exC, [], 0⟩ f g v).2 = ⟨false, .inner 3⟩ ∧
    (A .exists_ .xor 20 20 (A .exists_ .and 20 20 ⟨exC, [], 0⟩ f g v).1 f g v).2 = ⟨false, .inner 3⟩ ∧
    (∀ s : StoreC, ¬ DenotesC s ⟨false, .inner 3⟩ (applyQuant .exists_ .xor cAnd cOr cX1)) ∧
    (applyQuantS Policy.exact .exists_ .xor 20 20
      (applyQuantS Policy.exact .exists_ .and 20 20 ⟨exC, [], 0⟩ f g v).1 f g v).2 = ⟨false, .term⟩ ∧
    (Q .forall_ .and 20 20 (Q .exists_ .and 20 20 ⟨exC, [], 0⟩ f g v).1 f g v).2 = ⟨false, .inner 3⟩ ∧
    (∀ s : StoreC, ¬ DenotesC s ⟨false, .inner 3⟩ (applyQuant .forall_ .and cAnd cOr cX1)) ∧
    (applyQuantS Policy.exact .forall_ .and 20 20
      (applyQuantS Policy.exact .exists_ .and 20 20 ⟨exC, [], 0⟩ f g v).1 f g v).2 = ⟨true, .term⟩ := by
  have e1 : applyQuant .exists_ .xor cAnd cOr cX1 = terminal true := by decide +kernel
  have e2 : applyQuant .forall_ .and cAnd cOr cX1 = terminal false := by decide +kernel
  refine ⟨by decide +kernel, by decide +kernel, ?_, by decide +kernel, by decide +kernel, ?_,
    by decide +kernel⟩
  · intro s h; rw [e1] at h; cases h.2
  · intro s h; rw [e2] at h; exact absurd h.1 (by decide)

/-- **All three edge operands of `apply_quant`, with their complement tags, are part of the key.**
Variable set dropped: `∃{x0,x1}. … = ⊤` answered `x0`; second operand dropped resp. tags dropped:
`∃{x1}. (x0∧x1) ∧ ¬(x0∨x1) = ⊥` answered `x0`. -/
theorem apply_quant_key_without_operand_unsound :
    let V := applyQuantSK akNoVars Policy.exact .exists_ .and 20 20
    let G := applyQuantSK akNoG Policy.exact .exists_ .and 20 20
    let T := applyQuantSK akNoTags Policy.exact .exists_ .and 20 20
    let R := applyQuantS Policy.exact .exists_ .and 20 20
    let f : EdgeC := ⟨false, .inner 1⟩
    let g : EdgeC := ⟨false, .inner 2⟩
    let v : EdgeC := ⟨false, .inner 0⟩
    (V (V ⟨exC, [], 0⟩ f g v).1 f g ⟨false, .inner 1⟩).2 = ⟨false, .inner 3⟩ ∧
    (∀ s : StoreC, ¬ DenotesC s ⟨false, .inner 3⟩ (applyQuant .exists_ .and cAnd cOr cAnd)) ∧
    (R (R ⟨exC, [], 0⟩ f g v).1 f g ⟨false, .inner 1⟩).2 = ⟨false, .term⟩ ∧
    (G (G ⟨exC, [], 0⟩ f g v).1 f (notE g) v).2 = ⟨false, .inner 3⟩ ∧
    (T (T ⟨exC, [], 0⟩ f g v).1 f (notE g) v).2 = ⟨false, .inner 3⟩ ∧
    (∀ s : StoreC, ¬ DenotesC s ⟨false, .inner 3⟩ (applyQuant .exists_ .and cAnd (applyNot cOr) cX1)) ∧
    (R (R ⟨exC, [], 0⟩ f g v).1 f (notE g) v).2 = ⟨true, .term⟩ := by
  have e1 : applyQuant .exists_ .and cAnd cOr cAnd = terminal true := by decide +kernel
  have e2 : applyQuant .exists_ .and cAnd (applyNot cOr) cX1 = terminal false := by decide +kernel
  refine ⟨by decide +kernel, ?_, by decide +kernel, by decide +kernel, by decide +kernel, ?_,
    by decide +kernel⟩
  · intro s h; rw [e1] at h; cases h.2
  · intro s h; rw [e2] at h; exact absurd h.1 (by decide)

/-- **Dropping the substitution id from the key is unsound**: two substitutions `x0 ↦ x1` (id 7)
and `x0 ↦ ¬x1` (id 8) on `f = x0 ∨ x1`: the second is answered `x1`, the result of the first; the
specified result is ⊤. Dropping the complement tag of `f`: `(¬f)[x0 := x1] = ¬x1` answered `x1`. -/
theorem subst_key_without_id_unsound :
    let K := substituteSK skNoId Policy.exact
    let T := substituteSK skNoTag Policy.exact cSub1 7 10 10
    let R := substituteS Policy.exact
    (K cSub1 7 10 10 ⟨exC, [], 0⟩ ⟨false, .inner 2⟩).2 = ⟨false, .inner 0⟩ ∧
    (K cSub2 8 10 10 (K cSub1 7 10 10 ⟨exC, [], 0⟩ ⟨false, .inner 2⟩).1 ⟨false, .inner 2⟩).2
      = ⟨false, .inner 0⟩ ∧
    substitute cSv1 cOr = cX1 ∧ substitute cSv2 cOr = terminal true ∧
    (∀ s : StoreC, ¬ DenotesC s ⟨false, .inner 0⟩ (substitute cSv2 cOr)) ∧
    (R cSub2 8 10 10 (R cSub1 7 10 10 ⟨exC, [], 0⟩ ⟨false, .inner 2⟩).1 ⟨false, .inner 2⟩).2
      = ⟨false, .term⟩ ∧
    (T (T ⟨exC, [], 0⟩ ⟨false, .inner 2⟩).1 ⟨true, .inner 2⟩).2 = ⟨false, .inner 0⟩ ∧
    (∀ s : StoreC, ¬ DenotesC s ⟨false, .inner 0⟩ (substitute cSv1 (applyNot cOr))) ∧
    (R cSub1 7 10 10 (R cSub1 7 10 10 ⟨exC, [], 0⟩ ⟨false, .inner 2⟩).1 ⟨true, .inner 2⟩).2
      = ⟨true, .inner 0⟩ := by
  have e2 : substitute cSv2 cOr = terminal true := by decide +kernel
  have e3 : substitute cSv1 (applyNot cOr) = applyNot cX1 := by decide +kernel
  refine ⟨by decide +kernel, by decide +kernel, by decide +kernel, e2, ?_, by decide +kernel,
    by decide +kernel, ?_, by decide +kernel⟩
  · intro s h; rw [e2] at h; cases h.2
  · intro s h; rw [e3] at h; exact absurd h.1 (by decide)

/-- **Substitution ids must identify the replacement vector.** The two vectors `x0 ↦ x1` and
`x0 ↦ ¬x1` are used with the *same* id 7 on `f = x0 ∨ x1` by the real `substituteS`, ideal cache:
after the first call the cache is sound for the registry that maps id 7 to the first vector; the
second call hits `(Substitute, [f], [7])` and returns `x1`; the specified result is ⊤, which that
edge denotes in no store; with distinct ids the second call returns ⊤. So the hypothesis
`DenotesLC st.store subst (reg id)` of `substituteS_spec` cannot be dropped. -/
theorem subst_id_reuse_unsound :
    let R1 := substituteS Policy.exact cSub1 7 10 10 ⟨exC, [], 0⟩ ⟨false, .inner 2⟩
    let R2 := substituteS Policy.exact cSub2 7 10 10 R1.1 ⟨false, .inner 2⟩
    let R2' := substituteS Policy.exact cSub2 8 10 10 R1.1 ⟨false, .inner 2⟩
    cSv1 ≠ cSv2 ∧
    Refines (fun _ => cSv1) exC (substitute cSv1 cOr) R1 ∧
    R1.1.cache = [(encKeyC (substKey ⟨false, .inner 2⟩ 7), enc ⟨false, .inner 0⟩)] ∧
    R2.2 = ⟨false, .inner 0⟩ ∧
    (∀ s : StoreC, ¬ DenotesC s R2.2 (substitute cSv2 cOr)) ∧
    R2'.2 = ⟨false, .term⟩ := by
  intro R1 R2 R2'
  have P1 := substituteS_spec Policy.exact_ok (fun _ => cSv1) cSub1 7 10 10 ⟨exC, [], 0⟩
    ⟨false, .inner 2⟩ cOr exC_unique (CacheOKCX.nil _ _) exC_sub1 exC_or (by decide)
    (by decide +kernel)
  have e2 : R2.2 = ⟨false, .inner 0⟩ := by decide +kernel
  refine ⟨by decide, P1, by decide +kernel, e2, ?_, by decide +kernel⟩
  intro s h
  rw [e2, show substitute cSv2 cOr = terminal true by decide +kernel] at h
  cases h.2

/-! ## transparency -/

/-- **The cache is transparent for `restrict`** in the strongest sense: two runs from the same
hash-consed, reduced store with different sound caches, policies, time stamps and fuels return
**equal edges and end in equal stores** (both are `internE s (restrict a v)`). -/
theorem restrict_cache_transparent {p1 p2 : Policy} (ok1 : p1.OK) (ok2 : p2.OK)
    (reg1 reg2 : Nat → List Edge) (s : StoreC) (c1 c2 : Cache) (t1 t2 fuel1 fuel2 : Nat)
    (f vars : EdgeC) (a v : Edge) (hu : s.Unique) (hr : s.NoRed) (h1 : CacheOKCX reg1 s c1)
    (h2 : CacheOKCX reg2 s c2) (hf : DenotesC s f a) (hv : DenotesC s vars v)
    (hfuel1 : a.size + v.size ≤ fuel1) (hfuel2 : a.size + v.size ≤ fuel2) :
    (restrictS p1 fuel1 ⟨s, c1, t1⟩ f vars).2 = (restrictS p2 fuel2 ⟨s, c2, t2⟩ f vars).2 ∧
    (restrictS p1 fuel1 ⟨s, c1, t1⟩ f vars).1.store =
      (restrictS p2 fuel2 ⟨s, c2, t2⟩ f vars).1.store := by
  have P1 := (Refine.restrictS_spec ok1 reg1 fuel1 ⟨s, c1, t1⟩ f vars a v ⟨hu, h1⟩ hf hv hfuel1).canon hr
  have P2 := (Refine.restrictS_spec ok2 reg2 fuel2 ⟨s, c2, t2⟩ f vars a v ⟨hu, h2⟩ hf hv hfuel2).canon hr
  have e := P1.trans P2.symm
  exact ⟨(Prod.mk.inj e).2, (Prod.mk.inj e).1⟩

/-- non-vacuity: no cache vs. ideal cache warmed up by a (sound) quantification entry -/
example :
    (restrictS Policy.none 20 ⟨exC, [], 0⟩ ⟨false, .inner 1⟩ ⟨false, .inner 0⟩).2 =
    (restrictS Policy.exact 22
      ⟨exC, [(encKeyC (quantKey .forall_ ⟨false, .inner 2⟩ ⟨false, .inner 1⟩), enc ⟨true, .term⟩)], 5⟩
      ⟨false, .inner 1⟩ ⟨false, .inner 0⟩).2 :=
  (restrict_cache_transparent Policy.none_ok Policy.exact_ok regC0 regC0 exC [] _ 0 5 20 22
    ⟨false, .inner 1⟩ ⟨false, .inner 0⟩ cAnd cX1 exC_unique exC_nored (CacheOKCX.nil _ _)
    (by
      intro k r hm
      simp only [List.mem_cons, List.not_mem_nil, or_false, Prod.mk.injEq] at hm
      obtain ⟨rfl, rfl⟩ := hm
      refine EntryOKCX.intro (quantKey_wf _ _ _) (DenotesLC.two exC_or exC_and) rfl ?_
      rw [dec_enc, quant_key_without_vars_unsound.2.2.1]; exact DenotesC.term _ false)
    exC_and exC_x1 (by decide) (by decide)).1

/-- what transparency means for an operation that may create intermediate nodes: both results
denote `T`; if `T` is already present as edge `x`, both runs return `x`; in every common
hash-consed extension of the two final stores the two edges are equal -/
def SameResult (s : StoreC) (T : Edge) (R1 R2 : StC × EdgeC) : Prop :=
  DenotesC R1.1.store R1.2 T ∧ DenotesC R2.1.store R2.2 T ∧
  (∀ x, DenotesC s x T → R1.2 = x ∧ R2.2 = x) ∧
  (∀ s', R1.1.store.Le s' → R2.1.store.Le s' → s'.Unique → R1.2 = R2.2)

theorem SameResult.of {reg1 reg2 : Nat → List Edge} {s : StoreC} {T : Edge} {R1 R2 : StC × EdgeC}
    (P1 : PostCW reg1 s T R1) (P2 : PostCW reg2 s T R2) : SameResult s T R1 R2 :=
  ⟨P1.den, P2.den,
    fun _ hx => ⟨denotesC_inj P1.inv.1 P1.den (hx.mono P1.le),
      denotesC_inj P2.inv.1 P2.den (hx.mono P2.le)⟩,
    fun _ l1 l2 hu' => denotesC_inj hu' (P1.den.mono l1) (P2.den.mono l2)⟩

/-- **The cache is transparent for `quant`** (`SameResult`): different sound caches, policies,
time stamps and fuels. (Equality of the final stores and of freshly allocated slots is *not*
claimed: a hit skips the creation of intermediate results, as for the simple BDDs.) -/
theorem quant_cache_transparent {p1 p2 : Policy} (ok1 : p1.OK) (ok2 : p2.OK)
    (reg1 reg2 : Nat → List Edge) (q : Quant) (s : StoreC) (c1 c2 : Cache)
    (t1 t2 af1 af2 fuel1 fuel2 : Nat) (f vars : EdgeC) (a v : Edge) (hu : s.Unique)
    (h1 : CacheOKCX reg1 s c1) (h2 : CacheOKCX reg2 s c2) (hf : DenotesC s f a)
    (hv : DenotesC s vars v) (hfuel1 : a.size ≤ fuel1) (hfuel2 : a.size ≤ fuel2)
    (haf1 : quantNeed q a.neg a.n v ≤ af1) (haf2 : quantNeed q a.neg a.n v ≤ af2) :
    SameResult s (quant q a v) (quantS p1 q af1 fuel1 ⟨s, c1, t1⟩ f vars)
      (quantS p2 q af2 fuel2 ⟨s, c2, t2⟩ f vars) :=
  .of (Refine.quantS_spec ok1 reg1 q af1 fuel1 ⟨s, c1, t1⟩ f vars a v ⟨hu, h1⟩ hf hv hfuel1 haf1)
    (Refine.quantS_spec ok2 reg2 q af2 fuel2 ⟨s, c2, t2⟩ f vars a v ⟨hu, h2⟩ hf hv hfuel2 haf2)

/-- non-vacuity: `∀{x1}. x0∨x1 = x0` is present as `#3`; no cache and a direct-mapped cache both
return `#3` -/
example :
    (quantS Policy.none .forall_ 10 10 ⟨exC, [], 0⟩ ⟨false, .inner 2⟩ ⟨false, .inner 0⟩).2
      = ⟨false, .inner 3⟩ ∧
    (quantS (Policy.dm 1 (fun _ => 0) (fun _ => true)) .forall_ 12 11 ⟨exC, [], 4⟩
      ⟨false, .inner 2⟩ ⟨false, .inner 0⟩).2 = ⟨false, .inner 3⟩ :=
  (quant_cache_transparent Policy.none_ok (Policy.dm_ok _ _ _) regC0 regC0 .forall_ exC [] [] 0 4
    10 12 10 11 _ _ cOr cX1 exC_unique (CacheOKCX.nil _ _) (CacheOKCX.nil _ _) exC_or exC_x1
    (by decide) (by decide) (by decide +kernel) (by decide +kernel)).2.2.1 ⟨false, .inner 3⟩
    (by rw [quant_key_without_vars_unsound.2.2.2.1]; exact exC_x0)

/-- the same for the `apply_*_edge` entry points (all quantifiers, all eight connectives) -/
theorem apply_quant_cache_transparent (reg1 reg2 : Nat → List Edge) (q : Quant) (op : Op)
    (a b v : Edge) :
    ∃ N, ∀ (p1 p2 : Policy), p1.OK → p2.OK → ∀ (af1 af2 fuel1 fuel2 : Nat), N ≤ af1 → N ≤ af2 →
      a.size + b.size ≤ fuel1 → a.size + b.size ≤ fuel2 →
      ∀ (s : StoreC) (c1 c2 : Cache) (t1 t2 : Nat) (f g vars : EdgeC), s.Unique →
        CacheOKCX reg1 s c1 → CacheOKCX reg2 s c2 → DenotesC s f a → DenotesC s g b →
        DenotesC s vars v →
        SameResult s (applyQuantOp q op a b v)
          (applyQuantOpS p1 q op af1 fuel1 ⟨s, c1, t1⟩ f g vars)
          (applyQuantOpS p2 q op af2 fuel2 ⟨s, c2, t2⟩ f g vars) := by
  obtain ⟨N1, h1⟩ := Refine.applyQuantOpS_spec reg1 q op a b v
  obtain ⟨N2, h2⟩ := Refine.applyQuantOpS_spec reg2 q op a b v
  refine ⟨max N1 N2, ?_⟩
  intro p1 p2 ok1 ok2 af1 af2 fuel1 fuel2 ha1 ha2 hf1 hf2 s c1 c2 t1 t2 f g vars hu hc1 hc2 hf hg hv
  exact .of (h1 p1 ok1 af1 fuel1 (by omega) hf1 ⟨s, c1, t1⟩ f g vars ⟨hu, hc1⟩ hf hg hv)
    (h2 p2 ok2 af2 fuel2 (by omega) hf2 ⟨s, c2, t2⟩ f g vars ⟨hu, hc2⟩ hf hg hv)

example : ∃ N : Nat, N = N :=
  have ⟨N, _⟩ := apply_quant_cache_transparent regC0 regC0 .exists_ .nor cOr cAnd cX1
  ⟨N, rfl⟩

/-- the same for `substitute` (both caches sound for registries that agree on the id used) -/
theorem subst_cache_transparent {p1 p2 : Policy} (ok1 : p1.OK) (ok2 : p2.OK)
    (reg1 reg2 : Nat → List Edge) (id : Nat) (hreg : reg1 id = reg2 id) (s : StoreC)
    (c1 c2 : Cache) (t1 t2 af1 af2 fuel1 fuel2 : Nat) (subst : List EdgeC) (f : EdgeC) (a : Edge)
    (hu : s.Unique) (h1 : CacheOKCX reg1 s c1) (h2 : CacheOKCX reg2 s c2)
    (hsub : DenotesLC s subst (reg1 id)) (hf : DenotesC s f a)
    (hfuel1 : a.size ≤ fuel1) (hfuel2 : a.size ≤ fuel2)
    (haf1 : substNeed (reg1 id) a.neg a.n ≤ af1) (haf2 : substNeed (reg1 id) a.neg a.n ≤ af2) :
    SameResult s (substitute (reg1 id) a) (substituteS p1 subst id af1 fuel1 ⟨s, c1, t1⟩ f)
      (substituteS p2 subst id af2 fuel2 ⟨s, c2, t2⟩ f) := by
  have P1 := Refine.substituteS_spec ok1 reg1 subst id af1 fuel1 ⟨s, c1, t1⟩ f a ⟨hu, h1⟩ hsub hf
    hfuel1 haf1
  have P2 := Refine.substituteS_spec ok2 reg2 subst id af2 fuel2 ⟨s, c2, t2⟩ f a ⟨hu, h2⟩
    (hreg ▸ hsub) hf hfuel2 (hreg ▸ haf2)
  rw [← hreg] at P2
  exact .of P1 P2

/-- non-vacuity: `(x0∨x1)[x0 := x1] = x1` is already in the store as `#0` -/
example :
    (substituteS Policy.exact cSub1 7 10 10 ⟨exC, [], 0⟩ ⟨false, .inner 2⟩).2 = ⟨false, .inner 0⟩ ∧
    (substituteS Policy.none cSub1 7 10 10 ⟨exC, [], 3⟩ ⟨false, .inner 2⟩).2 = ⟨false, .inner 0⟩ :=
  (subst_cache_transparent Policy.exact_ok Policy.none_ok (fun _ => cSv1) (fun _ => cSv1) 7 rfl exC
    [] [] 0 3 10 10 10 10 cSub1 ⟨false, .inner 2⟩ cOr exC_unique (CacheOKCX.nil _ _)
    (CacheOKCX.nil _ _) exC_sub1 exC_or (by decide) (by decide) (by decide +kernel)
    (by decide +kernel)).2.2.1 ⟨false, .inner 0⟩
    (by rw [subst_key_without_id_unsound.2.2.1]; exact exC_x1)

/-! ## histories -/

/-- **Every run of a history of cached BCDD operations computes the reference semantics.** A
history is a list of `not` / eight connectives / `ite` / `forall|exists|unique` /
`apply_forall|exists|unique` (eight connectives) / `restrict` / `substitute` commands whose
operands are registers (initial edges and earlier results), interspersed with points at which the
cache may drop arbitrary entries. For every history there is a fuel bound `N` depending on the
denoted trees only such that every run — any admissible policy, any eviction choices, any sound
initial cache, any hash-consed initial store whose registers denote `envT` — keeps
`Unique ∧ CacheOKCX` (and `NoRed`), only extends the store, and ends with registers (handles)
denoting exactly the tree-level `runAllCT cs envT`. `ValidAllCT` only says that each substitution
id is used for the substitution it is registered for. -/
theorem historyCX_spec (reg : Nat → List Edge) (cs : List CmdCX) (envT : List Edge)
    (hv : ValidAllCT reg cs envT) :
    ∃ N, ∀ (cfg : CacheCfgC), cfg.policy.OK → ∀ fuel, N ≤ fuel →
      ∀ (st : StC) (env : List EdgeC), st.store.Unique → CacheOKCX reg st.store st.cache →
        DenotesLC st.store env envT →
        (runAllCX cfg fuel cs (st, env)).1.store.Unique ∧
        CacheOKCX reg (runAllCX cfg fuel cs (st, env)).1.store (runAllCX cfg fuel cs (st, env)).1.cache ∧
        st.store.Le (runAllCX cfg fuel cs (st, env)).1.store ∧
        (st.store.NoRed → (runAllCX cfg fuel cs (st, env)).1.store.NoRed) ∧
        DenotesLC (runAllCX cfg fuel cs (st, env)).1.store (runAllCX cfg fuel cs (st, env)).2
          (runAllCT cs envT) := by
  obtain ⟨N, h⟩ := Refine.historyCX_spec reg cs envT hv
  refine ⟨N, fun cfg pok fuel hN st env hu hc henv => ?_⟩
  have P := h cfg pok fuel hN st env ⟨hu, hc⟩ henv
  exact ⟨P.inv.1, P.inv.2, P.le, P.nored, P.den⟩

/-- **History transparency.** Two runs of the same history with different admissible policies,
eviction choices, sound initial caches, time stamps and fuels (even from different hash-consed
stores whose registers denote the same tree edges): the registers of both runs denote, position by
position, the same tree edges; and in every common hash-consed extension of the two final stores
the two register lists are equal edge by edge. In particular a different operator, variable set,
cube or substitution on the same operands in between — just another history — cannot change a
result. -/
theorem historyCX_transparent (reg1 reg2 : Nat → List Edge) (cs : List CmdCX) (envT : List Edge)
    (hv1 : ValidAllCT reg1 cs envT) (hv2 : ValidAllCT reg2 cs envT) :
    ∃ N, ∀ (cfg1 cfg2 : CacheCfgC), cfg1.policy.OK → cfg2.policy.OK → ∀ fuel1 fuel2, N ≤ fuel1 →
      N ≤ fuel2 → ∀ (st1 st2 : StC) (env1 env2 : List EdgeC),
        st1.store.Unique → CacheOKCX reg1 st1.store st1.cache →
        st2.store.Unique → CacheOKCX reg2 st2.store st2.cache →
        DenotesLC st1.store env1 envT → DenotesLC st2.store env2 envT →
        DenotesLC (runAllCX cfg1 fuel1 cs (st1, env1)).1.store (runAllCX cfg1 fuel1 cs (st1, env1)).2
          (runAllCT cs envT) ∧
        DenotesLC (runAllCX cfg2 fuel2 cs (st2, env2)).1.store (runAllCX cfg2 fuel2 cs (st2, env2)).2
          (runAllCT cs envT) ∧
        ∀ s', (runAllCX cfg1 fuel1 cs (st1, env1)).1.store.Le s' →
          (runAllCX cfg2 fuel2 cs (st2, env2)).1.store.Le s' → s'.Unique →
          (runAllCX cfg1 fuel1 cs (st1, env1)).2 = (runAllCX cfg2 fuel2 cs (st2, env2)).2 := by
  obtain ⟨N, h⟩ := Refine.historyCX_transparent reg1 reg2 cs envT hv1 hv2
  exact ⟨N, fun cfg1 cfg2 ok1 ok2 f1 f2 h1 h2 st1 st2 e1 e2 u1 c1 u2 c2 d1 d2 =>
    h cfg1 cfg2 ok1 ok2 f1 f2 h1 h2 st1 st2 e1 e2 ⟨u1, c1⟩ ⟨u2, c2⟩ d1 d2⟩

/-- the registers of `exC`: `r0 = x1`, `r1 = x0∧x1`, `r2 = x0∨x1`, `r3 = ¬x1` (a complemented
edge to the node of `r0`) -/
def exEnvC : List EdgeC := [⟨false, .inner 0⟩, ⟨false, .inner 1⟩, ⟨false, .inner 2⟩, ⟨true, .inner 0⟩]
def exEnvCT : List Edge := [cX1, cAnd, cOr, applyNot cX1]

theorem exEnvC_ok : DenotesLC exC exEnvC exEnvCT :=
  .cons exC_x1 (.cons exC_and (.cons exC_or (.cons exC_nx1 .nil)))

/-- superset then subset quantification on the same edge, an eviction point, a restriction by the
complemented cube, an apply-and-quantify through the dispatch table (`or` ⇒ dual quantifier), a
substitution (`x0 ↦ ¬x1`, id 7), and base operations on earlier results -/
def exHistoryC : List CmdCX :=
  [.quant .forall_ 2 1, .quant .forall_ 2 0, .cacheOp 0, .restrict 1 3,
   .applyQuant .exists_ .or 2 1 0, .subst 7 [(0, 3)] 2, .bin .and 5 7, .ite 5 0 3, .not 9,
   .applyQuant .unique .imp 1 2 0, .quant .exists_ 12 0]

/-- the registry: id 7 stands for `[¬x1]` -/
def exRegC : Nat → List Edge := fun _ => [applyNot cX1]

theorem exHistoryC_valid : ValidAllCT exRegC exHistoryC exEnvCT := by
  refine ⟨trivial, trivial, trivial, trivial, trivial, ?_, trivial, trivial, trivial, trivial,
    trivial, trivial⟩
  show exRegC 7 = substPrepare _
  decide +kernel

/-- the reference results: `⊥, x0, ⊥, ⊤, ⊤, x0, x0 ? x1 : ¬x1, ¬x0, ⊥, ⊥` -/
example : (runAllCT exHistoryC exEnvCT).drop 4 =
    [terminal false, cX0, terminal false, terminal true, terminal true, cX0,
     ⟨false, .node 0 (.node 1 .top true .top) true (.node 1 .top true .top)⟩,
     applyNot cX0, terminal false, terminal false] := by decide +kernel

/-- two concrete runs: ideal cache that keeps everything vs. a one-bucket direct-mapped cache
with failing locks that drops everything at the eviction point — same result edges here -/
example :
    (runAllCX ⟨Policy.exact, fun _ _ => true⟩ 30 exHistoryC (⟨exC, [], 0⟩, exEnvC)).2 =
    (runAllCX ⟨Policy.dm 1 (fun _ => 0) (fun t => t % 3 != 0), fun _ _ => false⟩ 30 exHistoryC
      (⟨exC, [], 7⟩, exEnvC)).2 := by
  decide +kernel

/-- non-vacuity of `historyCX_spec` / `historyCX_transparent`: their hypotheses hold for
`exHistoryC` on `exC` -/
example : ∃ fuel, DenotesLC
    (runAllCX ⟨Policy.exact, fun _ _ => true⟩ fuel exHistoryC (⟨exC, [], 0⟩, exEnvC)).1.store
    (runAllCX ⟨Policy.exact, fun _ _ => true⟩ fuel exHistoryC (⟨exC, [], 0⟩, exEnvC)).2
    (runAllCT exHistoryC exEnvCT) := by
  obtain ⟨N, h⟩ := historyCX_spec exRegC exHistoryC exEnvCT exHistoryC_valid
  exact ⟨N, (h ⟨Policy.exact, fun _ _ => true⟩ Policy.exact_ok N (Nat.le_refl _) ⟨exC, [], 0⟩ exEnvC
    exC_unique (CacheOKCX.nil _ _) exEnvC_ok).2.2.2.2⟩

example : ∃ N : Nat, N = N :=
  have ⟨N, _⟩ := historyCX_transparent exRegC exRegC exHistoryC exEnvCT exHistoryC_valid
    exHistoryC_valid
  ⟨N, rfl⟩

end OxiddModel.Bcdd.C04S
