import OxiddModel.Bcdd.RcSLemmasAlg
import OxiddModel.Bcdd.RcSHistory
import OxiddModel.Bcdd.RcSLemmasOrd

/-!
# C05 / C14 — complement-edge BDDs: the reference counters are maintained exactly

Property C05: *"the reference count of a node equals the number of live handles plus the number of
stored parent edges; `gc` frees exactly the unreferenced nodes"*. Property C14: *"an operation that
fails with out-of-memory releases everything it had acquired … exact reference counts"*.

The BCDD counterpart of `Bdd/PropertiesC05R.lean`. The counters are **state** of the store-level
model (`Bcdd/RcS.lean`): every `clone_edge` / `drop_edge` / `EdgeDropGuard` of
`complement_edge/apply_rec.rs` (`apply_bin::<And|Xor>`, the eight `*_edge` operators with their
operand/result complementing, `apply_ite` with every tagged shortcut, `not_edge`), of
`complement_edge/mod.rs` (`reduce` with tag normalisation, `terminal_and`, `terminal_xor`), of the
sequential recursor and of `get_or_insert` / `add_node` is a step of the model. The theorems say
that these steps keep `rc = 1 + external references + stored parent edges` (`RcInv`; the `1` is the
unique table's reference, `ref_count()` reports `rc - 1`; an edge counts for its *target* whatever
its tag, so `f` and `¬f` are two references to one node) — after every successful run with the
result added to the caller's references, after every failing run (OutOfMemory at *any* allocation
point, for every capacity) with the caller's references unchanged: nothing leaked, nothing released
twice.

All theorems hold for all stores, counters, caches, cache policies (`Policy.OK`), operands that
point to stored nodes, capacities and **every** fuel (no size bound is needed for the counters).
-/
namespace OxiddModel.Bcdd.C05R
open OxiddModel.Bcdd OxiddModel.Bcdd.Refine OxiddModel.Bcdd.Rc
open OxiddModel.Bdd.Refine (Policy OpTag Key Cache)
open OxiddModel.Bdd.Rc (rcGet rcSet rcGet_rcSet)

/-! ## the primitives -/

/-- the empty manager satisfies the invariant -/
theorem rcinv_empty : RcInv RStC.empty [] where
  ext_ok _ h := by cases h
  kids_ok i n h := by simp [RStC.empty, StoreC.get?] at h
  cache_ok _ _ h := by cases h
  rc_eq i n h := by simp [RStC.empty, StoreC.get?] at h

/-- **`clone_edge`** of an owned edge: one more external reference (for the target node, whatever
the tag). -/
theorem clone_rc {r : RStC} {ext : List EdgeC} {x : EdgeC} (h : RcInv r ext) (hx : x ∈ ext) :
    RcInv (cloneEdge r x) (x :: ext) := cloneEdge_rc h (h.ext_ok x hx)

/-- **`drop_edge`** of an owned edge: one external reference less, and the counter does not
underflow (`debug_assert!(_old_rc > 1)` in `drop_edge` holds). -/
theorem drop_rc {r : RStC} {ext : List EdgeC} {x : EdgeC} (h : RcInv r (x :: ext)) :
    RcInv (dropEdge r x) ext ∧ ∀ b j, x = ⟨b, .inner j⟩ → 2 ≤ rcGet r.rc j :=
  ⟨dropEdge_rc h, fun _ _ hj => dropEdge_no_underflow (hj ▸ h)⟩

/-- **`reduce` keeps the then-edge regular**: the node handed to the unique table never has a
complemented then-edge; the complement moves to the returned edge and to the else-edge. (Stored
nodes keep only the *target* of their then-edge, so the whole store is `ThenRegular` by
construction; this is the fact that justifies the representation.) -/
theorem reduce_then_regular (t e : EdgeC) :
    (reduceRaw t e).1.neg = false ∧ (reduceRaw t e).1.tgt = t.tgt ∧
    (reduceRaw t e).2.1.tgt = e.tgt ∧ (reduceRaw t e).2.1.neg = (t.neg != e.neg) ∧
    (reduceRaw t e).2.2 = t.neg := by
  refine ⟨reduceRaw_then_regular t e, ?_⟩
  unfold reduceRaw
  cases t.neg <;> simp

/-- **`mkNodeR_rc_exact`** (`reduce` = reduction rule + tag normalisation + `get_or_insert` +
`add_node`): the two owned children are consumed. Reduction (`t == e`: `e` dropped), unique-table
hit (both dropped, the found node retained), allocation (both move into the node, `rc = 2`) and
**OutOfMemory** (both dropped) all leave exact counters. -/
theorem mkNodeR_rc_exact (cap : Nat) (r : RStC) (l : Nat) (t e : EdgeC) (ext : List EdgeC)
    (h : RcInv r (t :: e :: ext)) :
    match mkNodeR cap r l t e with
    | (some x, r') => RcInv r' (x :: ext)
    | (none, r') => RcInv r' ext := mkNodeR_rc h

/-! ## the algorithms -/

/-- the two kernels `apply_bin::<And>` / `apply_bin::<Xor>` -/
theorem binR_rc_exact {p : Policy} (pok : p.OK) (cap : Nat) (op : BOp) (fuel : Nat) (r : RStC)
    (f g : EdgeC) (ext : List EdgeC) (h : RcInv r ext) (hf : r.st.store.has f)
    (hg : r.st.store.has g) :
    match binR cap p op fuel r f g with
    | (some x, r') => RcInv r' (x :: ext)
    | (none, r') => RcInv r' ext := (binR_rc pok cap op fuel r f g ext h hf hg).2

/-- **`applyR_rc_exact`.** All eight binary operators (`and`, `xor` directly; `or`, `nand`, `nor`,
`equiv`, `imp`, `imp_strict` through `not(&operand)` / `not_owned(result)` around the two kernels)
with borrowed operands that point to stored nodes: after a successful run the counters are exact
for the caller's references plus the result, after a failing run (OutOfMemory at any of the
allocation points, any capacity) for the caller's references alone. -/
theorem applyR_rc_exact {p : Policy} (pok : p.OK) (cap : Nat) (op : Op) (fuel : Nat) (r : RStC)
    (f g : EdgeC) (ext : List EdgeC) (h : RcInv r ext) (hf : r.st.store.has f)
    (hg : r.st.store.has g) :
    match applyOpR cap p op fuel r f g with
    | (some x, r') => RcInv r' (x :: ext)
    | (none, r') => RcInv r' ext := (applyOpR_rc pok cap op fuel r f g ext h hf hg).2

theorem applyR_rc_owned {p : Policy} (pok : p.OK) (cap : Nat) (op : Op) (fuel : Nat) (r : RStC)
    (f g : EdgeC) (ext : List EdgeC) (h : RcInv r ext) (hf : f ∈ ext) (hg : g ∈ ext) :
    match applyOpR cap p op fuel r f g with
    | (some x, r') => RcInv r' (x :: ext)
    | (none, r') => RcInv r' ext :=
  applyR_rc_exact pok cap op fuel r f g ext h (h.ext_ok f hf) (h.ext_ok g hg)

/-- **`notR`** (`not_edge`) is a tag flip on a clone: it cannot fail, returns the operand's node
with the opposite tag, leaves store, cache and time stamp alone, and changes exactly one counter —
the one of the operand's node, by the returned clone — so the counters are exact for the caller's
references plus the result. -/
theorem notR_rc_exact (r : RStC) (f : EdgeC) (ext : List EdgeC) (h : RcInv r ext)
    (hf : r.st.store.has f) :
    (notR r f).1 = some (notE f) ∧ (notR r f).2.st = r.st ∧
    (∀ k, rcGet (notR r f).2.rc k = rcGet r.rc k + (if f.tgt = .inner k then 1 else 0)) ∧
    RcInv (notR r f).2 (notE f :: ext) :=
  ⟨rfl, cloneEdge_st r f, fun k => rcGet_cloneEdge r f k, (notR_rc h hf).2⟩

/-- **`iteR_rc_exact`** (`apply_ite` with all its tagged shortcuts) -/
theorem iteR_rc_exact {p : Policy} (pok : p.OK) (cap : Nat) (fuel : Nat) (r : RStC)
    (f g k : EdgeC) (ext : List EdgeC) (h : RcInv r ext) (hf : r.st.store.has f)
    (hg : r.st.store.has g) (hk : r.st.store.has k) :
    match iteR cap p fuel r f g k with
    | (some x, r') => RcInv r' (x :: ext)
    | (none, r') => RcInv r' ext := (iteR_rc pok cap fuel r f g k ext h hf hg hk).2

/-- `var_edge` / `not_var_edge` -/
theorem varR_rc_exact (cap : Nat) (r : RStC) (level : Nat) (neg : Bool) (ext : List EdgeC)
    (h : RcInv r ext) :
    match varR cap r level neg with
    | (some x, r') => RcInv r' (x :: ext)
    | (none, r') => RcInv r' ext := (varR_rc h).2

/-! ## erasure: without the counters a successful run is the run of `Bcdd/ApplyS.lean` -/

/-- **`applyR_erase`.** Forgetting the counters, a successful `applyOpR` *is* `applyOpS`: same
result edge, same store, same cache, same time stamp — for all inputs and capacities. Hence every
theorem about `applyOpS` (`Bcdd.PropertiesC06`: refinement of the tree-level operators,
transparency of the cache) holds for the counted, capacity-bounded run. -/
theorem applyR_erase (cap : Nat) (p : Policy) (op : Op) (fuel : Nat) (r : RStC) (f g e : EdgeC)
    (hok : (applyOpR cap p op fuel r f g).1 = some e) :
    applyOpS p op fuel r.st f g = ((applyOpR cap p op fuel r f g).2.st, e) :=
  applyOpR_erase' cap p op fuel r f g e hok

theorem binR_erase_eq (cap : Nat) (p : Policy) (op : BOp) (fuel : Nat) (r : RStC) (f g e : EdgeC)
    (hok : (binR cap p op fuel r f g).1 = some e) :
    binS p op fuel r.st f g = ((binR cap p op fuel r f g).2.st, e) :=
  binR_erase cap p op fuel r f g e hok

theorem notR_erase_eq (r : RStC) (f : EdgeC) :
    notS r.st f = ((notR r f).2.st, notE f) ∧ (notR r f).1 = some (notE f) :=
  ⟨notR_erase r f (notE f) rfl, rfl⟩

theorem iteR_erase (cap : Nat) (p : Policy) (fuel : Nat) (r : RStC) (f g h e : EdgeC)
    (hok : (iteR cap p fuel r f g h).1 = some e) :
    iteS p fuel r.st f g h = ((iteR cap p fuel r f g h).2.st, e) :=
  iteR_erase' cap p fuel r f g h e hok

/-- transfer (C02/C06): a successful counted run returns an edge denoting `applyOp op a b`, keeps
hash consing and cache soundness, and store and result are the canonical ones (`internE`) —
whatever the cache, the policy and the capacity -/
theorem applyR_correct {p : Policy} (pok : p.OK) (cap : Nat) (op : Op) (fuel : Nat) (r : RStC)
    (f g : EdgeC) (a b : Edge) (e : EdgeC) (hinv : InvC r.st) (hf : DenotesC r.st.store f a)
    (hg : DenotesC r.st.store g b) (hfuel : a.size + b.size ≤ fuel)
    (hok : (applyOpR cap p op fuel r f g).1 = some e) :
    DenotesC (applyOpR cap p op fuel r f g).2.st.store e (applyOp op a b) ∧
    InvC (applyOpR cap p op fuel r f g).2.st ∧
    (r.st.store.NoRed →
      ((applyOpR cap p op fuel r f g).2.st.store, e) = internE r.st.store (applyOp op a b)) := by
  have hS := applyOpS_spec pok op fuel r.st f g a b hinv hf hg hfuel
  rw [applyR_erase cap p op fuel r f g e hok] at hS
  exact ⟨hS.den, hS.inv, hS.canon⟩

theorem iteR_correct {p : Policy} (pok : p.OK) (cap : Nat) (fuel : Nat) (r : RStC)
    (f g h : EdgeC) (a b c : Edge) (e : EdgeC) (hinv : InvC r.st) (hf : DenotesC r.st.store f a)
    (hg : DenotesC r.st.store g b) (hh : DenotesC r.st.store h c)
    (hfuel : a.size + b.size + c.size ≤ fuel) (hok : (iteR cap p fuel r f g h).1 = some e) :
    DenotesC (iteR cap p fuel r f g h).2.st.store e (applyIte a b c) ∧
    InvC (iteR cap p fuel r f g h).2.st ∧
    (r.st.store.NoRed →
      ((iteR cap p fuel r f g h).2.st.store, e) = internE r.st.store (applyIte a b c)) := by
  have hS := iteS_spec pok fuel r.st f g h a b c hinv hf hg hh hfuel
  rw [iteR_erase cap p fuel r f g h e hok] at hS
  exact ⟨hS.den, hS.inv, hS.canon⟩

/-- **capacity and cache independence of successful runs** (C14/C06): two successful runs of the
same operation from the same reduced store — under different capacities, policies, caches and
counters — return the same edge and end in the same store -/
theorem applyR_capacity_independent {p1 p2 : Policy} (ok1 : p1.OK) (ok2 : p2.OK) (cap1 cap2 : Nat)
    (op : Op) (fuel : Nat) (r1 r2 : RStC) (f g : EdgeC) (a b : Edge) (e1 e2 : EdgeC)
    (hs : r1.st.store = r2.st.store) (i1 : InvC r1.st) (i2 : InvC r2.st) (hr : r1.st.store.NoRed)
    (hf : DenotesC r1.st.store f a) (hg : DenotesC r1.st.store g b) (hfuel : a.size + b.size ≤ fuel)
    (h1 : (applyOpR cap1 p1 op fuel r1 f g).1 = some e1)
    (h2 : (applyOpR cap2 p2 op fuel r2 f g).1 = some e2) :
    e1 = e2 ∧ (applyOpR cap1 p1 op fuel r1 f g).2.st.store =
      (applyOpR cap2 p2 op fuel r2 f g).2.st.store := by
  have c1 := (applyR_correct ok1 cap1 op fuel r1 f g a b e1 i1 hf hg hfuel h1).2.2 hr
  have c2 := (applyR_correct ok2 cap2 op fuel r2 f g a b e2 i2 (hs ▸ hf) (hs ▸ hg) hfuel h2).2.2
    (hs ▸ hr)
  rw [← hs] at c2
  have := c1.trans c2.symm
  exact ⟨congrArg Prod.snd this, congrArg Prod.fst this⟩

/-! ## negative witness: a leak on OutOfMemory violates the invariant -/

/-- executable necessary condition of `RcInv` (the counter equation on all slots) -/
def rcCheck (r : RStC) (ext : List EdgeC) : Bool :=
  (List.range r.st.store.nodes.size).all fun i =>
    match r.st.store.get? i with
    | none => true
    | some _ => rcGet r.rc i == 1 + extCnt ext i + parents r.st.store i

theorem rcCheck_of_inv {r : RStC} {ext : List EdgeC} (h : RcInv r ext) : rcCheck r ext = true := by
  unfold rcCheck
  rw [List.all_eq_true]
  intro i _
  cases hi : r.st.store.get? i with
  | none => rfl
  | some n => simp [h.rc_eq i n hi]

/-- a full manager (capacity 2) holding `x0` (#0) and `x1` (#1), one handle each; the running
operation `x0 ⊕ x1` owns two clones of `x1` (then-result `¬x1`, else-result `x1`) and is about to
call `reduce(level 0, ¬x1, x1)` -/
def exFull : RStC :=
  ⟨⟨⟨#[some ⟨0, .term, ⟨true, .term⟩⟩, some ⟨1, .term, ⟨true, .term⟩⟩]⟩, [], 0⟩, #[2, 4]⟩

def exHandles : List EdgeC := [⟨false, .inner 0⟩, ⟨false, .inner 1⟩]

example : rcCheck exFull (⟨true, .inner 1⟩ :: ⟨false, .inner 1⟩ :: exHandles) = true := by
  decide +kernel

/-- the real `add_node` drops the children of the rejected node: exact counters after the error -/
example : (mkNodeR 2 exFull 0 ⟨true, .inner 1⟩ ⟨false, .inner 1⟩).1 = none ∧
    rcCheck (mkNodeR 2 exFull 0 ⟨true, .inner 1⟩ ⟨false, .inner 1⟩).2 exHandles = true := by
  decide +kernel

/-- **`leak_violates_rcinv`.** With `add_node` returning the error *without* dropping the children
(the class of the seeded change `C05-oom-leaks-children`) the invariant is violated after the
failed `reduce`: `x1` keeps two references nobody owns. -/
theorem leak_violates_rcinv :
    (mkNodeLeak 2 exFull 0 ⟨true, .inner 1⟩ ⟨false, .inner 1⟩).1 = none ∧
    ¬ RcInv (mkNodeLeak 2 exFull 0 ⟨true, .inner 1⟩ ⟨false, .inner 1⟩).2 exHandles := by
  refine ⟨by decide +kernel, fun h => ?_⟩
  have := rcCheck_of_inv h
  revert this
  decide +kernel

/-! ## non-vacuity -/

theorem eq_of_fst {R : Option EdgeC × RStC} {o : Option EdgeC} (h : R.1 = o) : R = (o, R.2) := by
  cases R; cases h; rfl

/-- `x0`, `x1` built by `var_edge` in the empty manager (capacity 3) -/
def exVars : RStC := (varR 3 (varR 3 RStC.empty 0 false).2 1 false).2

example : exVars.st.store.nodes = #[some ⟨0, .term, ⟨true, .term⟩⟩, some ⟨1, .term, ⟨true, .term⟩⟩]
    ∧ exVars.rc = #[2, 2] := by decide +kernel

theorem exVars_inv : RcInv exVars [⟨false, .inner 1⟩, ⟨false, .inner 0⟩] := by
  have h0 := varR_rc_exact 3 RStC.empty 0 false [] rcinv_empty
  have e0 : varR 3 RStC.empty 0 false = (some ⟨false, .inner 0⟩, (varR 3 RStC.empty 0 false).2) :=
    eq_of_fst (by decide +kernel)
  rw [e0] at h0
  have h1 := varR_rc_exact 3 (varR 3 RStC.empty 0 false).2 1 false _ h0
  have e1 : varR 3 (varR 3 RStC.empty 0 false).2 1 false = (some ⟨false, .inner 1⟩, exVars) :=
    eq_of_fst (by decide +kernel)
  rw [e1] at h1
  exact h1

/-- success: `x0 ⊕ x1` allocates **one** node #2 = (level 0, x1, ¬x1) and returns it through a
complemented edge (the then-edge `¬x1` was normalised); `x1` gets two parent edges -/
example : (applyOpR 3 Policy.exact .xor 10 exVars ⟨false, .inner 0⟩ ⟨false, .inner 1⟩).1 =
      some ⟨true, .inner 2⟩ ∧
    (applyOpR 3 Policy.exact .xor 10 exVars ⟨false, .inner 0⟩ ⟨false, .inner 1⟩).2.rc = #[2, 4, 2] ∧
    (applyOpR 3 Policy.exact .xor 10 exVars ⟨false, .inner 0⟩ ⟨false, .inner 1⟩).2.st.store.get? 2 =
      some ⟨0, .inner 1, ⟨true, .inner 1⟩⟩ := by
  decide +kernel

example : RcInv (applyOpR 3 Policy.exact .xor 10 exVars ⟨false, .inner 0⟩ ⟨false, .inner 1⟩).2
    [⟨true, .inner 2⟩, ⟨false, .inner 1⟩, ⟨false, .inner 0⟩] := by
  have := applyR_rc_owned Policy.exact_ok 3 .xor 10 exVars ⟨false, .inner 0⟩ ⟨false, .inner 1⟩ _
    exVars_inv (by simp) (by simp)
  have e : applyOpR 3 Policy.exact .xor 10 exVars ⟨false, .inner 0⟩ ⟨false, .inner 1⟩ =
      (some ⟨true, .inner 2⟩,
        (applyOpR 3 Policy.exact .xor 10 exVars ⟨false, .inner 0⟩ ⟨false, .inner 1⟩).2) :=
    eq_of_fst (by decide +kernel)
  rw [e] at this
  exact this

/-- failure: the same operation with capacity 2 — OutOfMemory, the counters are those before -/
example : (applyOpR 2 Policy.exact .xor 10 exVars ⟨false, .inner 0⟩ ⟨false, .inner 1⟩).1 = none ∧
    (applyOpR 2 Policy.exact .xor 10 exVars ⟨false, .inner 0⟩ ⟨false, .inner 1⟩).2.rc = #[2, 2] ∧
    RcInv (applyOpR 2 Policy.exact .xor 10 exVars ⟨false, .inner 0⟩ ⟨false, .inner 1⟩).2
      [⟨false, .inner 1⟩, ⟨false, .inner 0⟩] := by
  refine ⟨by decide +kernel, by decide +kernel, ?_⟩
  have := applyR_rc_owned Policy.exact_ok 2 .xor 10 exVars ⟨false, .inner 0⟩ ⟨false, .inner 1⟩ _
    exVars_inv (by simp) (by simp)
  have e : applyOpR 2 Policy.exact .xor 10 exVars ⟨false, .inner 0⟩ ⟨false, .inner 1⟩ =
      (none, (applyOpR 2 Policy.exact .xor 10 exVars ⟨false, .inner 0⟩ ⟨false, .inner 1⟩).2) :=
    eq_of_fst (by decide +kernel)
  rw [e] at this
  exact this

/-- `not` of `x1`: same node, flipped tag, one more reference, nothing else -/
example : (notR exVars ⟨false, .inner 1⟩).1 = some ⟨true, .inner 1⟩ ∧
    (notR exVars ⟨false, .inner 1⟩).2.rc = #[2, 3] := by decide +kernel

/-- the erasure hypothesis is satisfiable: the successful run above is the run of `applyOpS` -/
example : applyOpS Policy.exact .xor 10 exVars.st ⟨false, .inner 0⟩ ⟨false, .inner 1⟩ =
    ((applyOpR 3 Policy.exact .xor 10 exVars ⟨false, .inner 0⟩ ⟨false, .inner 1⟩).2.st,
      ⟨true, .inner 2⟩) :=
  applyR_erase 3 Policy.exact .xor 10 exVars _ _ _ (by decide +kernel)

/-! ## garbage collection driven by the counters -/

/-- **`gcR_sound`** (any store, ordered or not): the level-wise sweep that removes the nodes whose
counter shows only the unique table's reference (`rc == 1`) and releases their children keeps the
counters exact, clears the cache, creates and changes nothing, removes no node reachable from an
external edge, and every external edge denotes what it denoted (tag included). -/
theorem gcR_sound (numLevels : Nat) (r : RStC) (ext : List EdgeC) (h : RcInv r ext) :
    RcInv (gcR numLevels r) ext ∧ (gcR numLevels r).st.cache = [] ∧
    (∀ i n, (gcR numLevels r).st.store.get? i = some n → r.st.store.get? i = some n) ∧
    (∀ i, Reach r.st.store ext i → ∃ n, r.st.store.get? i = some n ∧
      (gcR numLevels r).st.store.get? i = some n) ∧
    (∀ x T, x ∈ ext → DenotesC r.st.store x T → DenotesC (gcR numLevels r).st.store x T) := by
  refine ⟨(gcR_rc numLevels h).1, (gcR_rc numLevels h).2, gcR_sub numLevels r,
    fun i hr => gcR_keeps_reach numLevels h hr, ?_⟩
  intro x T hx hd
  exact gcR_denotes numLevels h hd hx

/-- **`gcR_exact`.** If moreover the store is ordered (children on strictly larger levels — the
reason why `Manager::gc` needs only one pass from the top level down) and every level is visited,
the nodes that remain are **exactly** the nodes reachable from the external edges: a node is
freed iff no handle (regular or complemented) and no surviving parent references it. -/
theorem gcR_exact (numLevels : Nat) (r : RStC) (ext : List EdgeC) (h : RcInv r ext)
    (ho : r.st.store.Ordered) (hl : ∀ i n, r.st.store.get? i = some n → n.level < numLevels) :
    RcInv (gcR numLevels r) ext ∧
    (∀ i, (∃ n, (gcR numLevels r).st.store.get? i = some n) ↔ Reach r.st.store ext i) ∧
    (∀ i n, (gcR numLevels r).st.store.get? i = some n → r.st.store.get? i = some n) ∧
    (∀ x T, x ∈ ext → DenotesC r.st.store x T → DenotesC (gcR numLevels r).st.store x T) := by
  obtain ⟨h1, _, h3, h4, h5⟩ := gcR_sound numLevels r ext h
  refine ⟨h1, fun i => ⟨?_, ?_⟩, h3, h5⟩
  · rintro ⟨n, hn⟩
    exact gcR_complete numLevels h ho hl hn
  · intro hr
    obtain ⟨n, _, hn⟩ := h4 i hr
    exact ⟨n, hn⟩

theorem reach_nil {s : StoreC} {i : Nat} (h : Reach s [] i) : False := by
  induction h with
  | root hm _ => cases hm
  | kid _ _ _ ih => exact ih

/-- **`all_dropped_empty`.** When every handle has been dropped, the collection empties the store
(the manager returns to its initial node count). -/
theorem all_dropped_empty (numLevels : Nat) (r : RStC) (h : RcInv r [])
    (ho : r.st.store.Ordered) (hl : ∀ i n, r.st.store.get? i = some n → n.level < numLevels) :
    (∀ i, (gcR numLevels r).st.store.get? i = none) ∧ (gcR numLevels r).st.store.count = 0 := by
  have hnone : ∀ i, (gcR numLevels r).st.store.get? i = none := by
    intro i
    cases hi : (gcR numLevels r).st.store.get? i with
    | none => rfl
    | some n => exact (reach_nil (gcR_complete numLevels h ho hl hi)).elim
  refine ⟨hnone, ?_⟩
  unfold StoreC.count
  rw [Array.countP_eq_zero]
  intro o ho'
  obtain ⟨k, hk, hko⟩ := Array.mem_iff_getElem.mp ho'
  have := hnone k
  simp only [StoreC.get?, hk, Array.getElem?_eq_getElem, Option.join_some] at this
  rw [hko] at this
  simp [this]

/-! ## histories -/

/-- **`rc_history`.** Starting from a state with exact counters (e.g. the empty manager), after
**every** sequence of commands — variable creation, `not`, the eight binary operators, `ite` (each
under its own capacity: successful or failing with OutOfMemory anywhere), `clone`, `drop`, `gc` —
the counter of every stored node equals `1 + handles (of either polarity) + stored parent edges`. -/
theorem rc_history {p : Policy} (pok : p.OK) (cmds : List Rc.Cmd) (h : HSt) (hi : RcInv h.r h.hs) :
    RcInv (runAll p cmds h).r (runAll p cmds h).hs := runAll_rc pok cmds h hi

theorem rc_history_empty {p : Policy} (pok : p.OK) (cmds : List Rc.Cmd) :
    RcInv (runAll p cmds ⟨RStC.empty, []⟩).r (runAll p cmds ⟨RStC.empty, []⟩).hs :=
  rc_history pok cmds ⟨RStC.empty, []⟩ rcinv_empty

/-! ## shape: ordered, hash-consed, reduced, then-edges regular — along every history -/

theorem shapeinv_empty (N : Nat) : ShapeInv N RStC.empty where
  ord i n j m h := by simp [RStC.empty, StoreC.get?] at h
  bound i n h := by simp [RStC.empty, StoreC.get?] at h
  cache _ _ h := by cases h
  uniq i j n h := by simp [RStC.empty, StoreC.get?] at h
  nored i n h := by simp [RStC.empty, StoreC.get?] at h

/-- **`applyR_shape`.** Each of the eight operators keeps the store ordered (children on strictly
larger levels), all levels below the number of levels, the cache level-respecting, **hash-consed**
(`Unique`: with regular then-edges this is the canonical-tag invariant — a function and its
complement share one node) and **reduced** (`NoRed`) — on success *and after OutOfMemory at any
allocation point*; the result lies on a level `≥` the top level of the operands. (The same for
`iteR`: `iteR_shape`.) -/
theorem applyR_shape {p : Policy} (pok : p.OK) (N cap : Nat) (op : Op) (fuel : Nat) (r : RStC)
    (f g : EdgeC) (ext : List EdgeC) (L : Nat) (h : RcInv r ext) (ho : ShapeInv N r)
    (hf : Above r.st.store L f) (hg : Above r.st.store L g) :
    ShapeInv N (applyOpR cap p op fuel r f g).2 ∧
    ∀ x, (applyOpR cap p op fuel r f g).1 = some x →
      Above (applyOpR cap p op fuel r f g).2.st.store L x :=
  applyOpR_ord pok N cap op fuel r f g ext L h ho hf hg

theorem iteR_shape {p : Policy} (pok : p.OK) (N cap : Nat) (fuel : Nat) (r : RStC)
    (f g k : EdgeC) (ext : List EdgeC) (L : Nat) (h : RcInv r ext) (ho : ShapeInv N r)
    (hf : Above r.st.store L f) (hg : Above r.st.store L g) (hk : Above r.st.store L k) :
    ShapeInv N (iteR cap p fuel r f g k).2 ∧
    ∀ x, (iteR cap p fuel r f g k).1 = some x → Above (iteR cap p fuel r f g k).2.st.store L x :=
  iteR_ord pok N cap fuel r f g k ext L h ho hf hg hk

/-- **`shape_history`.** Along every history whose variables are created on levels `< N`, the
counters stay exact *and* the store stays ordered with all levels `< N`, hash-consed and reduced
(then-edges are regular by `reduce_then_regular`). -/
theorem shape_history {p : Policy} (pok : p.OK) (N : Nat) (cmds : List Rc.Cmd)
    (hok : ∀ c ∈ cmds, c.OK N) :
    RcInv (runAll p cmds ⟨RStC.empty, []⟩).r (runAll p cmds ⟨RStC.empty, []⟩).hs ∧
    ShapeInv N (runAll p cmds ⟨RStC.empty, []⟩).r :=
  runAll_ord pok cmds ⟨RStC.empty, []⟩ hok rcinv_empty (shapeinv_empty N)

/-- the store-level reading of "then-edge regular, canonical tag": in every state reached by a
history two edges are equal iff they denote the same tree edge (tag included) -/
theorem canonical_history {p : Policy} (pok : p.OK) (N : Nat) (cmds : List Rc.Cmd)
    (hok : ∀ c ∈ cmds, c.OK N) {x y : EdgeC} {a b : Edge}
    (hx : DenotesC (runAll p cmds ⟨RStC.empty, []⟩).r.st.store x a)
    (hy : DenotesC (runAll p cmds ⟨RStC.empty, []⟩).r.st.store y b) : x = y ↔ a = b :=
  denotesC_eq_iff (shape_history pok N cmds hok).2.uniq hx hy

/-- **`gc_history_exact`.** After *any* history (operations succeeding or failing with
OutOfMemory, clones, drops, earlier collections) a collection over the `N` levels keeps exactly
the nodes reachable from the live handles, with exact counters, and every handle denotes what it
denoted — no hypothesis on the state is left. -/
theorem gc_history_exact {p : Policy} (pok : p.OK) (N : Nat) (cmds : List Rc.Cmd)
    (hok : ∀ c ∈ cmds, c.OK N) :
    let h := runAll p cmds ⟨RStC.empty, []⟩
    RcInv (gcR N h.r) h.hs ∧
    (∀ i, (∃ n, (gcR N h.r).st.store.get? i = some n) ↔ Reach h.r.st.store h.hs i) ∧
    (∀ i n, (gcR N h.r).st.store.get? i = some n → h.r.st.store.get? i = some n) ∧
    (∀ x T, x ∈ h.hs → DenotesC h.r.st.store x T → DenotesC (gcR N h.r).st.store x T) := by
  intro h
  obtain ⟨hi, ho⟩ := shape_history pok N cmds hok
  exact gcR_exact N h.r h.hs hi ho.ord ho.bound

/-- after any history, dropping all handles and collecting empties the store -/
theorem all_dropped_empty_history {p : Policy} (pok : p.OK) (N : Nat) (cmds : List Rc.Cmd)
    (hok : ∀ c ∈ cmds, c.OK N) (hnone : (runAll p cmds ⟨RStC.empty, []⟩).hs = []) :
    (gcR N (runAll p cmds ⟨RStC.empty, []⟩).r).st.store.count = 0 := by
  obtain ⟨hi, ho⟩ := shape_history pok N cmds hok
  rw [hnone] at hi
  exact (all_dropped_empty N _ hi ho.ord ho.bound).2

/-! ## non-vacuity: a history with a failing operation, garbage, a complement, and a collection -/

/-- `x0`, `x1`, `x2`; `x0 ∧ x1` (capacity 4: ok); `(x0 ∧ x1) ⊕ x2` under capacity 5 — needs
`x1 ⊕ x2` and the root: the first allocation succeeds, the second fails; `¬(x0 ∧ x1)`; drop
`x0 ∧ x1` (its node stays referenced by the complemented handle); collect -/
def exCmds : List Rc.Cmd :=
  [.var 3 0 false, .var 3 1 false, .var 3 2 false, .bin 4 10 .and 2 1, .bin 5 10 .xor 0 1,
   .not 0, .drop 1, .gc 3]

def exRun (k : Nat) : HSt := runAll Policy.exact (exCmds.take k) ⟨RStC.empty, []⟩

/-- after the failed `xor`: five nodes (`x1 ⊕ x2` is garbage holding two edges to `x2`), handles
unchanged, counters exact -/
example : (exRun 5).hs = [⟨false, .inner 3⟩, ⟨false, .inner 2⟩, ⟨false, .inner 1⟩, ⟨false, .inner 0⟩] ∧
    (exRun 5).r.st.store.get? 4 = some ⟨1, .inner 2, ⟨true, .inner 2⟩⟩ ∧
    (exRun 5).r.st.store.count = 5 ∧ (exRun 5).r.rc = #[2, 3, 4, 2, 1] := by decide +kernel

example : RcInv (exRun 5).r (exRun 5).hs := rc_history_empty Policy.exact_ok _

/-- after `not`, `drop`, `gc`: the garbage node is gone, the node of `x0 ∧ x1` survives because
the complemented handle references it -/
example : (exRun 8).hs = [⟨true, .inner 3⟩, ⟨false, .inner 2⟩, ⟨false, .inner 1⟩, ⟨false, .inner 0⟩] ∧
    (exRun 8).r.st.store.count = 4 ∧ (exRun 8).r.st.store.get? 4 = none ∧
    (exRun 8).r.st.store.get? 3 = some ⟨0, .inner 1, ⟨true, .term⟩⟩ ∧
    (exRun 8).r.refCount 3 = 1 ∧ (exRun 8).r.refCount 2 = 1 ∧ (exRun 8).r.refCount 1 = 2 := by
  decide +kernel

/-- the hypothesis of `shape_history` / `gc_history_exact` holds for the example history -/
example : ∀ c ∈ exCmds, c.OK 3 := by
  intro c hc
  simp only [exCmds, List.mem_cons, List.mem_nil_iff, or_false] at hc
  rcases hc with rfl | rfl | rfl | rfl | rfl | rfl | rfl | rfl <;> simp [Rc.Cmd.OK]

/-- the hypotheses of `gcR_exact` hold for the state before the collection -/
example : RcInv (exRun 7).r (exRun 7).hs ∧ (exRun 7).r.st.store.Ordered :=
  ⟨rc_history_empty Policy.exact_ok _, ordered_of_orderedB (by decide +kernel)⟩

/-- dropping everything and collecting empties the store -/
example : (runAll Policy.exact (exCmds ++ [.drop 0, .drop 0, .drop 0, .drop 0, .gc 3])
    ⟨RStC.empty, []⟩).r.st.store.count = 0 := by
  decide +kernel

end OxiddModel.Bcdd.C05R
