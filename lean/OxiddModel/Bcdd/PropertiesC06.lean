import OxiddModel.Bcdd.HistoryS

/-!
# C06 — the apply cache is transparent (complement-edge BDD rules, store level)

Property text: *"The handle returned by an operation is determined by its operator, operands and
the current variable order alone: it is the same whatever operations ran before, whatever the
apply-cache capacity is, and whichever entries were evicted or overwritten. A result memoised for
one operator, operand tuple or substitution is never served for another, and no memoised result
outlives a garbage collection, reordering or variable addition that could invalidate it."*

Modelled code: `reduce`, `terminal_and`, `terminal_xor`, `not`, `collect_cofactors`
(`crates/oxidd-rules-bdd/src/complement_edge/mod.rs`), `apply_bin::<And|Xor>`, `apply_ite` and the
`*_edge` connectives (`complement_edge/apply_rec.rs`), on a store of hash-consed nodes with
complement tags (`StoreRefine.lean`), with the cache discipline of `crates/oxidd-cache/src/direct.rs`
abstracted to the kind-independent `Policy` of `Bdd/CacheS.lean` (a `get` may miss although the key
was added, an `add` may be dropped or evict other entries, behaviour may change with every access;
only `Policy.OK` is used; `Policy.exact`, `Policy.none`, `Policy.dm cap hash lock` satisfy it).

All theorems hold for all stores, caches, operands and every fuel ≥ the sum of operand sizes.

**A remark on the `Xor` key.** The cache key of `apply_bin::<Xor>` in `/repo` is `(Xor, [f, g])`
after the `f < g` swap, *with the complement tags of the operands*: unlike e.g. CUDD, the code does
not strip the tags from the operands and push them to the result. The model follows the code.
Hence "the xor key is tag-free" is **false** of the code (`bcdd_cache_key_not_tag_normalised`);
what is true and proved: the key is *swap*-normalised (`bcdd_cache_key_swap_normalised`), and the
tag normalisation would be sound — a result memoised for `xor(f, g)`, served with a flipped tag,
denotes `xor(¬f, g)` (`bcdd_cache_key_normalised_partial`).

What is *not* covered: the bucket/lock implementation of `DMApplyCache` (abstracted by
`Policy.OK`), quantification/substitution/restrict at store level, reordering.
-/
namespace OxiddModel.Bcdd.C06
open OxiddModel.Bcdd OxiddModel.Bcdd.CNode OxiddModel.Bcdd.Refine
open OxiddModel.Bdd.Refine (Policy OpTag Key Cache)

/-! ## the store justifies tree equality -/

/-- **Edge equality is tree equality.** In a hash-consed store two edges (tag + node id) are equal
iff the tree edges they denote are equal: this is what justifies the use of `=` on trees in
`Bcdd/Model.lean` where the Rust code compares edges. -/
theorem bcdd_edge_eq_iff {s : StoreC} (hu : s.Unique) {x y : EdgeC} {a b : Edge}
    (hx : DenotesC s x a) (hy : DenotesC s y b) : x = y ↔ a = b :=
  denotesC_eq_iff hu hx hy

/-- **`reduce` refines `mk`**: reduction rule, then-edge tag normalisation, lookup-or-allocate;
the store is only extended and stays hash-consed. -/
theorem bcdd_mkNodeC_spec (s : StoreC) (l : Nat) (t e : EdgeC) (tt te : Edge)
    (ht : DenotesC s t tt) (he : DenotesC s e te) (hu : s.Unique) :
    DenotesC (s.mkNodeC l t e).1 (s.mkNodeC l t e).2 (mk l tt te) ∧
    s.Le (s.mkNodeC l t e).1 ∧ (s.mkNodeC l t e).1.Unique :=
  ⟨mkNodeC_denotes s l t e tt te ht he hu, mkNodeC_le s l t e, mkNodeC_unique s l t e hu⟩

/-! ## the cached algorithms refine the tree-level operations, for every cache behaviour -/

/-- **`apply_bin::<And|Xor>` with cache refines `applyBin`.** From any state whose store is
hash-consed (`Unique`) and whose cache is sound (`CacheOKC`), for every admissible cache behaviour
`p`: the returned edge denotes `applyBin op a b`, the store is only extended, and
`Unique ∧ CacheOKC` hold afterwards. Covers the operand swap (key, cofactors and recursion use the
swapped pair) and the pushing of complement tags into the cofactors. -/
theorem bcdd_applyS_spec {p : Policy} (pok : p.OK) (op : BOp) (fuel : Nat) (st : StC)
    (f g : EdgeC) (a b : Edge) (hu : st.store.Unique) (hc : CacheOKC st.store st.cache)
    (hf : DenotesC st.store f a) (hg : DenotesC st.store g b) (hfuel : a.size + b.size ≤ fuel) :
    DenotesC (binS p op fuel st f g).1.store (binS p op fuel st f g).2 (applyBin op a b) ∧
    st.store.Le (binS p op fuel st f g).1.store ∧
    (binS p op fuel st f g).1.store.Unique ∧
    CacheOKC (binS p op fuel st f g).1.store (binS p op fuel st f g).1.cache :=
  have P := binS_spec pok op fuel st f g a b ⟨hu, hc⟩ hf hg hfuel
  ⟨P.den, P.le, P.inv.1, P.inv.2⟩

/-- **the eight connectives refine `applyOp`**: `and`/`xor` directly, `or/nand/nor/imp/imp_strict`
through `not` tags around `apply_and`, `equiv` as `not(xor)`. -/
theorem bcdd_applyOpS_spec {p : Policy} (pok : p.OK) (op : Op) (fuel : Nat) (st : StC)
    (f g : EdgeC) (a b : Edge) (hu : st.store.Unique) (hc : CacheOKC st.store st.cache)
    (hf : DenotesC st.store f a) (hg : DenotesC st.store g b) (hfuel : a.size + b.size ≤ fuel) :
    DenotesC (applyOpS p op fuel st f g).1.store (applyOpS p op fuel st f g).2 (applyOp op a b) ∧
    st.store.Le (applyOpS p op fuel st f g).1.store ∧
    (applyOpS p op fuel st f g).1.store.Unique ∧
    CacheOKC (applyOpS p op fuel st f g).1.store (applyOpS p op fuel st f g).1.cache :=
  have P := applyOpS_spec pok op fuel st f g a b ⟨hu, hc⟩ hf hg hfuel
  ⟨P.den, P.le, P.inv.1, P.inv.2⟩

/-- **`apply_ite` with cache refines `applyIte`**, including all its delegations to
`apply_and` / `apply_bin::<Xor>` through `not` tags. -/
theorem bcdd_iteS_spec {p : Policy} (pok : p.OK) (fuel : Nat) (st : StC) (f g h : EdgeC)
    (a b c : Edge) (hu : st.store.Unique) (hc : CacheOKC st.store st.cache)
    (hf : DenotesC st.store f a) (hg : DenotesC st.store g b) (hh : DenotesC st.store h c)
    (hfuel : a.size + b.size + c.size ≤ fuel) :
    DenotesC (iteS p fuel st f g h).1.store (iteS p fuel st f g h).2 (applyIte a b c) ∧
    st.store.Le (iteS p fuel st f g h).1.store ∧
    (iteS p fuel st f g h).1.store.Unique ∧
    CacheOKC (iteS p fuel st f g h).1.store (iteS p fuel st f g h).1.cache :=
  have P := iteS_spec pok fuel st f g h a b c ⟨hu, hc⟩ hf hg hh hfuel
  ⟨P.den, P.le, P.inv.1, P.inv.2⟩

/-! ## transparency -/

/-- **The cache is transparent (the eight connectives).** Two runs of the same operation from the
same (hash-consed, reduced) store with two *different* sound caches `c1`, `c2` (empty vs. warmed up
vs. after evictions), different cache behaviours `p1`, `p2` (capacity, hash, lock failures),
different time stamps and fuels: the returned **edges are equal (same node id, same complement
tag) and the stores afterwards are equal** (both are `internE s (applyOp op a b)`). -/
theorem bcdd_cache_transparent {p1 p2 : Policy} (ok1 : p1.OK) (ok2 : p2.OK) (op : Op)
    (s : StoreC) (c1 c2 : Cache) (t1 t2 fuel1 fuel2 : Nat) (f g : EdgeC) (a b : Edge)
    (hu : s.Unique) (hr : s.NoRed) (h1 : CacheOKC s c1) (h2 : CacheOKC s c2)
    (hf : DenotesC s f a) (hg : DenotesC s g b)
    (hfuel1 : a.size + b.size ≤ fuel1) (hfuel2 : a.size + b.size ≤ fuel2) :
    (applyOpS p1 op fuel1 ⟨s, c1, t1⟩ f g).2 = (applyOpS p2 op fuel2 ⟨s, c2, t2⟩ f g).2 ∧
    (applyOpS p1 op fuel1 ⟨s, c1, t1⟩ f g).1.store =
      (applyOpS p2 op fuel2 ⟨s, c2, t2⟩ f g).1.store := by
  have P1 := (applyOpS_spec ok1 op fuel1 ⟨s, c1, t1⟩ f g a b ⟨hu, h1⟩ hf hg hfuel1).canon hr
  have P2 := (applyOpS_spec ok2 op fuel2 ⟨s, c2, t2⟩ f g a b ⟨hu, h2⟩ hf hg hfuel2).canon hr
  have e := P1.trans P2.symm
  exact ⟨(Prod.mk.inj e).2, (Prod.mk.inj e).1⟩

/-- the same for the two native operators `apply_bin::<And|Xor>` -/
theorem bcdd_cache_transparent_bin {p1 p2 : Policy} (ok1 : p1.OK) (ok2 : p2.OK) (op : BOp)
    (s : StoreC) (c1 c2 : Cache) (t1 t2 fuel1 fuel2 : Nat) (f g : EdgeC) (a b : Edge)
    (hu : s.Unique) (hr : s.NoRed) (h1 : CacheOKC s c1) (h2 : CacheOKC s c2)
    (hf : DenotesC s f a) (hg : DenotesC s g b)
    (hfuel1 : a.size + b.size ≤ fuel1) (hfuel2 : a.size + b.size ≤ fuel2) :
    (binS p1 op fuel1 ⟨s, c1, t1⟩ f g).2 = (binS p2 op fuel2 ⟨s, c2, t2⟩ f g).2 ∧
    (binS p1 op fuel1 ⟨s, c1, t1⟩ f g).1.store = (binS p2 op fuel2 ⟨s, c2, t2⟩ f g).1.store := by
  have P1 := (binS_spec ok1 op fuel1 ⟨s, c1, t1⟩ f g a b ⟨hu, h1⟩ hf hg hfuel1).canon hr
  have P2 := (binS_spec ok2 op fuel2 ⟨s, c2, t2⟩ f g a b ⟨hu, h2⟩ hf hg hfuel2).canon hr
  have e := P1.trans P2.symm
  exact ⟨(Prod.mk.inj e).2, (Prod.mk.inj e).1⟩

/-- the same for `apply_ite` -/
theorem bcdd_cache_transparent_ite {p1 p2 : Policy} (ok1 : p1.OK) (ok2 : p2.OK)
    (s : StoreC) (c1 c2 : Cache) (t1 t2 fuel1 fuel2 : Nat) (f g h : EdgeC) (a b c : Edge)
    (hu : s.Unique) (hr : s.NoRed) (h1 : CacheOKC s c1) (h2 : CacheOKC s c2)
    (hf : DenotesC s f a) (hg : DenotesC s g b) (hh : DenotesC s h c)
    (hfuel1 : a.size + b.size + c.size ≤ fuel1) (hfuel2 : a.size + b.size + c.size ≤ fuel2) :
    (iteS p1 fuel1 ⟨s, c1, t1⟩ f g h).2 = (iteS p2 fuel2 ⟨s, c2, t2⟩ f g h).2 ∧
    (iteS p1 fuel1 ⟨s, c1, t1⟩ f g h).1.store = (iteS p2 fuel2 ⟨s, c2, t2⟩ f g h).1.store := by
  have P1 := (iteS_spec ok1 fuel1 ⟨s, c1, t1⟩ f g h a b c ⟨hu, h1⟩ hf hg hh hfuel1).canon hr
  have P2 := (iteS_spec ok2 fuel2 ⟨s, c2, t2⟩ f g h a b c ⟨hu, h2⟩ hf hg hh hfuel2).canon hr
  have e := P1.trans P2.symm
  exact ⟨(Prod.mk.inj e).2, (Prod.mk.inj e).1⟩

/-- without the reducedness assumption on the store: if the result is already present in the
initial store as edge `x`, every run returns exactly `x`, whatever the cache does -/
theorem bcdd_cache_transparent_existing {p : Policy} (pok : p.OK) (op : Op) (fuel : Nat)
    (st : StC) (f g x : EdgeC) (a b : Edge) (hu : st.store.Unique)
    (hc : CacheOKC st.store st.cache) (hf : DenotesC st.store f a) (hg : DenotesC st.store g b)
    (hfuel : a.size + b.size ≤ fuel) (hx : DenotesC st.store x (applyOp op a b)) :
    (applyOpS p op fuel st f g).2 = x := by
  have P := applyOpS_spec pok op fuel st f g a b ⟨hu, hc⟩ hf hg hfuel
  exact denotesC_inj P.inv.1 P.den (hx.mono P.le)

/-- **History independence.** The same history of operations (`not` / the eight connectives /
`ite` on arbitrary operands, interspersed with points at which the cache drops arbitrary entries),
run twice from the same store with different cache behaviours, eviction choices, initial caches and
time stamps: every returned edge is the same and the final stores are the same. -/
theorem bcdd_history_transparent {cfg1 cfg2 : CacheCfgC} (ok1 : cfg1.policy.OK)
    (ok2 : cfg2.policy.OK) (fuel : Nat) (cs : List CmdC) (st1 st2 : StC)
    (hs : st1.store = st2.store) (hu : st1.store.Unique) (hr : st1.store.NoRed)
    (h1 : CacheOKC st1.store st1.cache) (h2 : CacheOKC st2.store st2.cache)
    (hv : ValidAllC cfg1 fuel cs st1) :
    (runAllC cfg1 fuel cs st1).2 = (runAllC cfg2 fuel cs st2).2 ∧
    (runAllC cfg1 fuel cs st1).1.store = (runAllC cfg2 fuel cs st2).1.store :=
  have h := Refine.history_transparent ok1 ok2 fuel cs st1 st2 hs ⟨hu, h1⟩ ⟨hs ▸ hu, h2⟩ hr hv
  ⟨h.1, h.2.1⟩

/-! ## keys -/

/-- **A hit needs the full key**: operator tag and every operand word (node id *and* complement
tag). -/
theorem bcdd_cache_key_full {p : Policy} (pok : p.OK) (t : Nat) (c : Cache) (tag : OpTag)
    (operands : List EdgeC) (r : Bdd.Refine.Edge)
    (h : p.get t c (tag, operands.map enc) = some r) :
    ∃ x, x ∈ c ∧ x.1.1 = tag ∧ x.1.2.map dec = operands ∧ x.2 = r :=
  ⟨_, pok.get_mem t c _ r h, rfl,
    by simp [List.map_map, Function.comp_def, dec_enc], rfl⟩

/-- a result memoised for one operator or operand tuple is never served for another -/
theorem bcdd_no_cross_hit {p : Policy} (pok : p.OK) (t : Nat) (c : Cache) (k : Key)
    (h : ∀ x, x ∈ c → x.1 ≠ k) : p.get t c k = none := by
  cases hg : p.get t c k with
  | none => rfl
  | some r => exact absurd rfl (h _ (pok.get_mem t c k r hg))

/-- **The operand order is normalised in the key.** `apply_bin(g, f)` is the very same run as
`apply_bin(f, g)`: same cache key `(OP, [min f g, max f g])`, hence a result memoised for `(f, g)`
serves `(g, f)`, and the returned state (store, cache, time stamp) and edge coincide. -/
theorem bcdd_cache_key_swap_normalised (p : Policy) (op : BOp) (fuel : Nat) (st : StC)
    (f g : EdgeC) : binS p op (fuel+1) st g f = binS p op (fuel+1) st f g :=
  binS_comm p op fuel st f g

/-
The statement asked for, *"the xor key is tag-free and the result tag is recomputed: a hit for
`xor(f, g)` serves `xor(¬f, g)`"*, i.e.

    keyOf .xor (orderPair (notE f) g).1 (orderPair (notE f) g).2
      = keyOf .xor (orderPair f g).1 (orderPair f g).2

is **false** of `apply_bin::<Xor>` as it is in `/repo`: the operands enter the key with their tags.
-/

/-- **The `Xor` key is not tag-normalised** (faithful to the code): for all operands the key of
`xor(¬f, g)` differs from the key of `xor(f, g)`; so by `bcdd_no_cross_hit` an entry memoised for
`xor(f, g)` is never served for `xor(¬f, g)` (a missed sharing opportunity, not a soundness
problem). -/
theorem bcdd_cache_key_not_tag_normalised (op : BOp) (f g : EdgeC) :
    keyOf op (orderPair (notE f) g).1 (orderPair (notE f) g).2 ≠
      keyOf op (orderPair f g).1 (orderPair f g).2 := by
  intro h
  have hneq : notE f ≠ f := by
    obtain ⟨fn, ft⟩ := f
    cases fn <;> simp [notE]
  simp only [keyOf, Prod.mk.injEq, List.cons.injEq, and_true, true_and] at h
  obtain ⟨h1, h2⟩ := h
  have h1 := enc_inj h1
  have h2 := enc_inj h2
  rcases orderPair_cases (notE f) g with e1 | e1 <;> rcases orderPair_cases f g with e2 | e2 <;>
    rw [e1, e2] at h1 h2 <;> simp only at h1 h2
  · exact hneq h1
  · exact hneq (h1.trans h2)
  · exact hneq (h2.trans h1)
  · exact hneq h2

/-- **Tag normalisation of the `Xor` key would be sound** (the semantic half of the statement
above, for all stores and operands): if `r` denotes `a ⊕ b` — e.g. `r` was memoised for
`xor(f, g)` — then `r` with the flipped tag denotes `(¬a) ⊕ b` and `a ⊕ (¬b)`, and `r` itself
denotes `(¬a) ⊕ (¬b)`; all on the *same node*. The code as it is does not exploit this: see
`bcdd_cache_key_not_tag_normalised`. -/
theorem bcdd_cache_key_normalised_partial {s : StoreC} {r : EdgeC} {a b : Edge}
    (h : DenotesC s r (applyBin .xor a b)) :
    DenotesC s (notE r) (applyBin .xor (applyNot a) b) ∧
    DenotesC s (notE r) (applyBin .xor a (applyNot b)) ∧
    DenotesC s r (applyBin .xor (applyNot a) (applyNot b)) := by
  have e1 : applyBin .xor (applyNot a) b = applyNot (applyBin .xor a b) :=
    applyBin_xor_not_left a b
  have e2 : applyBin .xor a (applyNot b) = applyNot (applyBin .xor a b) := by
    rw [applyBin_comm, applyBin_xor_not_left, applyBin_comm]
  have e3 : applyBin .xor (applyNot a) (applyNot b) = applyBin .xor a b := by
    rw [applyBin_xor_not_left, applyBin_comm, applyBin_xor_not_left, applyBin_comm,
      applyNot_applyNot]
  rw [e1, e2, e3]
  exact ⟨h.not, h.not, h⟩

/-- the model policies are admissible: ideal cache, no cache, and the direct-mapped cache for
every capacity, hash function and lock-failure pattern -/
theorem bcdd_policies_admissible (cap : Nat) (hash : Key → Nat) (lock : Nat → Bool) :
    Policy.exact.OK ∧ Policy.none.OK ∧ (Policy.dm cap hash lock).OK :=
  ⟨Policy.exact_ok, Policy.none_ok, Policy.dm_ok cap hash lock⟩

/-- **Each operator is memoised under its own tag.** (1) The key `apply_bin::<OP>` uses for `get`
and `add` carries the tag of `OP` and exactly the two operands (in one or the other order);
(2) every entry in the cache after a run was there before or carries the tag of `OP`; (3) `And`
and `Xor` have distinct tags. -/
theorem bcdd_memo_tag_ok {p : Policy} (pok : p.OK) (op : BOp) (fuel : Nat) (st : StC)
    (f g : EdgeC) :
    ((keyOf op (orderPair f g).1 (orderPair f g).2).1 = opTag op ∧
      ((keyOf op (orderPair f g).1 (orderPair f g).2).2 = [enc f, enc g] ∨
       (keyOf op (orderPair f g).1 (orderPair f g).2).2 = [enc g, enc f])) ∧
    (∀ x, x ∈ (binS p op fuel st f g).1.cache → x ∈ st.cache ∨ x.1.1 = opTag op) ∧
    opTag .and ≠ opTag .xor := by
  refine ⟨⟨rfl, ?_⟩, binS_cache_tags pok op fuel st f g, by decide⟩
  rcases orderPair_cases f g with h | h <;> rw [h]
  · exact .inl rfl
  · exact .inr rfl

/-- **`not` never touches store or cache**: `not_edge` is a tag flip. The state is returned
unchanged (no node access, no cache query, no cache entry, no time stamp), the result denotes the
complement, and it is the same node as the operand. -/
theorem bcdd_not_no_cache (st : StC) (f : EdgeC) :
    (notS st f).1 = st ∧ (notS st f).2.tgt = f.tgt ∧ (notS st f).2.neg = !f.neg ∧
    ∀ a, DenotesC st.store f a → DenotesC (notS st f).1.store (notS st f).2 (applyNot a) :=
  ⟨rfl, rfl, rfl, fun _ h => h.not⟩

/-- consequently the six derived connectives memoise under `And`/`Xor` only: every entry in the
cache after any of the eight connectives was there before or carries the tag `And` or `Xor` -/
theorem bcdd_derived_ops_tags {p : Policy} (pok : p.OK) (op : Op) (fuel : Nat) (st : StC)
    (f g : EdgeC) (x : Key × Bdd.Refine.Edge) (hx : x ∈ (applyOpS p op fuel st f g).1.cache) :
    x ∈ st.cache ∨ x.1.1 = .and ∨ x.1.1 = .xor := by
  cases op <;> simp only [applyOpS, andS, xorS] at hx <;>
    rcases binS_cache_tags pok _ fuel st _ _ x hx with h | h <;>
    first
    | exact .inl h
    | exact .inr (.inl h)
    | exact .inr (.inr h)

/-! ## invalidation -/

/-- **gc / reorder.** Clearing the cache (what `pre_gc` does) establishes `CacheOKC` for *any*
store, in particular for the store after a collection or a level swap. -/
theorem bcdd_cacheok_clear (s' : StoreC) : CacheOKC s' [] := CacheOKC.nil s'

/-- **add_vars / growth.** `CacheOKC` is preserved by every store extension, and neither
`DenotesC` nor `specC` mentions the number of levels. -/
theorem bcdd_cacheok_extend {s s' : StoreC} {c : Cache} (h : CacheOKC s c) (hle : s.Le s') :
    CacheOKC s' c := h.mono hle

/-- evicting or overwriting entries (any sub-collection survives) keeps the cache sound -/
theorem bcdd_cacheok_evict {s : StoreC} {c c' : Cache} (h : CacheOKC s c)
    (hs : ∀ x, x ∈ c' → x ∈ c) : CacheOKC s c' := h.sub hs

/-! ## non-vacuity: a concrete store with a node shared through a regular and a complemented edge -/

/-- the node of `x1` -/
def exX1n : CNode := .node 1 .top true .top
/-- `x1` -/
def exX1 : Edge := ⟨false, exX1n⟩
/-- `x0 ∧ x1` -/
def exAnd : Edge := ⟨false, .node 0 exX1n true .top⟩
/-- `x0 ⊕ x1`: the complement of the node `x0 ? x1 : ¬x1`, whose then-edge reaches the node of
`x1` regularly and whose else-edge reaches it complemented -/
def exXor : Edge := ⟨true, .node 0 exX1n true exX1n⟩
/-- `x0 ∨ x1` -/
def exOr : Edge := ⟨false, .node 0 .top false exX1n⟩

/-- the store holding `x0 ∧ x1` and `x0 ⊕ x1`; node #0 (`x1`) is shared: it is the then-child of
#1 and #2 (regular) and the else-child of #2 through a complemented edge -/
def exStore : StoreC := (internE (internE ⟨#[]⟩ exAnd).1 exXor).1

example : exStore.nodes =
    #[some ⟨1, .term, ⟨true, .term⟩⟩, some ⟨0, .inner 0, ⟨true, .term⟩⟩,
      some ⟨0, .inner 0, ⟨true, .inner 0⟩⟩] := by decide +kernel

theorem empty_unique : (⟨#[]⟩ : StoreC).Unique := by
  intro i j n hi; simp [StoreC.get?] at hi
theorem empty_nored : (⟨#[]⟩ : StoreC).NoRed := by
  intro i n hi; simp [StoreC.get?] at hi

theorem exStore_unique : exStore.Unique := internE_unique _ _ (internE_unique _ _ empty_unique)
theorem exStore_nored : exStore.NoRed := internE_nored _ _ (internE_nored _ _ empty_nored)

theorem exStore_x1n : DenN exStore (.inner 0) exX1n :=
  .inner (by decide +kernel : exStore.get? 0 = some ⟨1, .term, ⟨true, .term⟩⟩) .term .term
/-- `x1` and `¬x1` are the same node #0 under the two tags -/
theorem exStore_x1 : DenotesC exStore ⟨false, .inner 0⟩ exX1 := ⟨rfl, exStore_x1n⟩
theorem exStore_nx1 : DenotesC exStore ⟨true, .inner 0⟩ (applyNot exX1) := exStore_x1.not
theorem exStore_and : DenotesC exStore ⟨false, .inner 1⟩ exAnd :=
  ⟨rfl, .inner (by decide +kernel : exStore.get? 1 = some ⟨0, .inner 0, ⟨true, .term⟩⟩)
    exStore_x1n .term⟩
theorem exStore_xor : DenotesC exStore ⟨true, .inner 2⟩ exXor :=
  ⟨rfl, .inner (by decide +kernel : exStore.get? 2 = some ⟨0, .inner 0, ⟨true, .inner 0⟩⟩)
    exStore_x1n exStore_x1n⟩

/-- non-vacuity of `bcdd_edge_eq_iff`: the two polarities of `x1` are distinct edges denoting
distinct tree edges on the same node -/
example : ((⟨false, .inner 0⟩ : EdgeC) = ⟨true, .inner 0⟩ ↔ exX1 = applyNot exX1) ∧
    (⟨false, .inner 0⟩ : EdgeC) ≠ ⟨true, .inner 0⟩ :=
  ⟨bcdd_edge_eq_iff exStore_unique exStore_x1 exStore_nx1, by decide⟩

/-- non-vacuity of `bcdd_mkNodeC_spec`: `reduce(0, ¬x1, x1)` (complemented then-edge) finds node #2
and returns it through a complemented edge; nothing is allocated -/
example : exStore.mkNodeC 0 ⟨true, .inner 0⟩ ⟨false, .inner 0⟩ = (exStore, ⟨true, .inner 2⟩) ∧
    DenotesC exStore ⟨true, .inner 2⟩ (mk 0 (applyNot exX1) exX1) := by
  have h := (bcdd_mkNodeC_spec exStore 0 _ _ _ _ exStore_nx1 exStore_x1 exStore_unique).1
  have e : exStore.mkNodeC 0 ⟨true, .inner 0⟩ ⟨false, .inner 0⟩ = (exStore, ⟨true, .inner 2⟩) := by
    have e1 : (exStore.mkNodeC 0 ⟨true, .inner 0⟩ ⟨false, .inner 0⟩).1.nodes = exStore.nodes := by
      decide +kernel
    have e2 : (exStore.mkNodeC 0 ⟨true, .inner 0⟩ ⟨false, .inner 0⟩).2 = ⟨true, .inner 2⟩ := by
      decide +kernel
    have e1' : (exStore.mkNodeC 0 ⟨true, .inner 0⟩ ⟨false, .inner 0⟩).1 = exStore :=
      congrArg StoreC.mk e1
    exact Prod.ext e1' e2
  rw [e] at h
  exact ⟨e, h⟩

/-- a warmed-up state: after computing `(x0 ∧ x1) ⊕ (x0 ⊕ x1)` with the ideal cache -/
def exWarm : StC := (xorS Policy.exact 12 ⟨exStore, [], 0⟩ ⟨false, .inner 1⟩ ⟨true, .inner 2⟩).1

/-- the result is `x0 ∨ x1`, a new node #3 whose else-edge reaches the shared node #0 regularly -/
example : (xorS Policy.exact 12 ⟨exStore, [], 0⟩ ⟨false, .inner 1⟩ ⟨true, .inner 2⟩).2 =
    ⟨false, .inner 3⟩ ∧ exWarm.store.get? 3 = some ⟨0, .term, ⟨false, .inner 0⟩⟩ ∧
    applyBin .xor exAnd exXor = exOr := by decide +kernel

/-- the warm cache holds `(Xor, [#1, ¬#2]) ↦ #3` (words: id·2 + tag) -/
example : exWarm.cache = [((.xor, [.inner 2, .inner 5]), .inner 6)] ∧
    enc ⟨false, .inner 1⟩ = .inner 2 ∧ enc ⟨true, .inner 2⟩ = .inner 5 ∧
    dec (.inner 6) = ⟨false, .inner 3⟩ := by decide +kernel

/-- … and it is sound, by `bcdd_applyS_spec` (the hypotheses of the spec are satisfiable) -/
theorem exWarm_ok : exStore.Le exWarm.store ∧ exWarm.store.Unique ∧
    CacheOKC exWarm.store exWarm.cache :=
  have h := bcdd_applyS_spec Policy.exact_ok .xor 12 ⟨exStore, [], 0⟩ ⟨false, .inner 1⟩
    ⟨true, .inner 2⟩ exAnd exXor exStore_unique (CacheOKC.nil _) exStore_and exStore_xor
    (by decide)
  ⟨h.2.1, h.2.2.1, h.2.2.2⟩

/-- a hand-written sound cache on `exStore`: two operators on the same operands -/
def exCache : Cache :=
  [((.and, [enc ⟨false, .inner 1⟩, enc ⟨true, .inner 2⟩]), enc (termC false)),
   ((.xor, [enc ⟨false, .inner 0⟩, enc ⟨true, .inner 0⟩]), enc (termC true))]

theorem exCache_ok : CacheOKC exStore exCache := by
  intro k r hm
  simp only [exCache, List.mem_cons, List.not_mem_nil, or_false] at hm
  have e1 : applyBin .and exAnd exXor = terminal false := by decide +kernel
  have e2 : applyBin .xor exX1 (applyNot exX1) = terminal true := by decide +kernel
  rcases hm with h | h <;> cases h
  · exact ⟨[_, _], _, _, rfl, DenotesLC.two exStore_and exStore_xor, rfl,
      by rw [dec_enc, e1]; exact DenotesC.term _ _⟩
  · exact ⟨[_, _], _, _, rfl, DenotesLC.two exStore_x1 exStore_nx1, rfl,
      by rw [dec_enc, e2]; exact DenotesC.term _ _⟩

/-- an *unsound* entry is rejected by `CacheOKC`: `xor` memoised with the result of `and` -/
example : ¬ CacheOKC exStore
    [((.xor, [enc ⟨false, .inner 1⟩, enc ⟨true, .inner 2⟩]), enc (termC false))] := by
  intro h
  have hent := h _ _ List.mem_cons_self
  have hd := EntryOKC.hit (es := [⟨false, .inner 1⟩, ⟨true, .inner 2⟩]) hent
    (DenotesLC.two exStore_and exStore_xor) rfl
  rw [dec_enc] at hd
  have := DenotesC.functional hd (DenotesC.term exStore false)
  exact absurd this (by decide +kernel)

/-- non-vacuity of `bcdd_applyOpS_spec` and `bcdd_iteS_spec`: hand-written cache, a 2-bucket
direct-mapped policy; `ite(x1, x0 ∧ x1, x0 ⊕ x1)` with the ideal cache -/
example :
    let R := applyOpS (Policy.dm 2 (fun k => k.2.length) (fun _ => true)) .imp 12
      ⟨exStore, exCache, 3⟩ ⟨false, .inner 1⟩ ⟨true, .inner 2⟩
    DenotesC R.1.store R.2 (applyOp .imp exAnd exXor) ∧ exStore.Le R.1.store ∧ R.1.store.Unique ∧
      CacheOKC R.1.store R.1.cache :=
  bcdd_applyOpS_spec (Policy.dm_ok _ _ _) .imp 12 ⟨exStore, exCache, 3⟩ _ _ exAnd exXor
    exStore_unique exCache_ok exStore_and exStore_xor (by decide)

example :
    let R := iteS Policy.exact 15 ⟨exStore, exCache, 0⟩ ⟨false, .inner 0⟩ ⟨false, .inner 1⟩
      ⟨true, .inner 2⟩
    DenotesC R.1.store R.2 (applyIte exX1 exAnd exXor) ∧ exStore.Le R.1.store ∧
      R.1.store.Unique ∧ CacheOKC R.1.store R.1.cache :=
  bcdd_iteS_spec Policy.exact_ok 15 ⟨exStore, exCache, 0⟩ _ _ _ exX1 exAnd exXor
    exStore_unique exCache_ok exStore_x1 exStore_and exStore_xor (by decide)

/-- the concrete `ite` value: `x1 ? x0 ∧ x1 : x0 ⊕ x1 = x0`, a new node #3, one `Ite` entry -/
example : (iteS Policy.exact 15 ⟨exStore, [], 0⟩ ⟨false, .inner 0⟩ ⟨false, .inner 1⟩
      ⟨true, .inner 2⟩).2 = ⟨false, .inner 3⟩ ∧
    (iteS Policy.exact 15 ⟨exStore, [], 0⟩ ⟨false, .inner 0⟩ ⟨false, .inner 1⟩
      ⟨true, .inner 2⟩).1.cache = [((.ite, [.inner 0, .inner 2, .inner 5]), .inner 6)] := by
  decide +kernel

/-- non-vacuity of `bcdd_cache_transparent`: cold start without cache vs. the hand-written cache
with a direct-mapped cache of capacity 1 whose lock fails at every odd time stamp -/
example :
    (applyOpS Policy.none .equiv 12 ⟨exStore, [], 0⟩ ⟨false, .inner 1⟩ ⟨true, .inner 2⟩).2 =
    (applyOpS (Policy.dm 1 (fun _ => 0) (fun t => t % 2 == 0)) .equiv 14 ⟨exStore, exCache, 5⟩
      ⟨false, .inner 1⟩ ⟨true, .inner 2⟩).2 :=
  (bcdd_cache_transparent Policy.none_ok (Policy.dm_ok _ _ _) .equiv exStore [] exCache 0 5 12 14
    _ _ exAnd exXor exStore_unique exStore_nored (CacheOKC.nil _) exCache_ok
    exStore_and exStore_xor (by decide) (by decide)).1

/-- the concrete value: `(x0 ∧ x1) ↔ (x0 ⊕ x1) = ¬(x0 ∨ x1)`: node #3 through a complemented edge -/
example :
    (applyOpS Policy.none .equiv 12 ⟨exStore, [], 0⟩ ⟨false, .inner 1⟩ ⟨true, .inner 2⟩).2 =
      ⟨true, .inner 3⟩ := by decide +kernel

/-- non-vacuity of `bcdd_cache_transparent_existing`: `nor(¬x1, ¬x1) = x1` is present as the
regular edge to the shared node #0 (the operands reach it through the complemented edge) -/
example : (applyOpS Policy.exact .nor 12 ⟨exStore, exCache, 0⟩ ⟨true, .inner 0⟩ ⟨true, .inner 0⟩).2 =
    ⟨false, .inner 0⟩ :=
  bcdd_cache_transparent_existing Policy.exact_ok .nor 12 ⟨exStore, exCache, 0⟩ _ _ _
    (applyNot exX1) (applyNot exX1) exStore_unique exCache_ok exStore_nx1 exStore_nx1 (by decide)
    (by have : applyOp .nor (applyNot exX1) (applyNot exX1) = exX1 := by decide +kernel
        rw [this]; exact exStore_x1)

/-- non-vacuity of `bcdd_cache_key_swap_normalised`: `xor(g, f)` on the warm state hits the entry
created by `xor(f, g)` (both orders give the key `(Xor, [#1, ¬#2])`): the run only advances the
time stamp by one, adds no entry and allocates nothing -/
example :
    let R := xorS Policy.exact 12 exWarm ⟨true, .inner 2⟩ ⟨false, .inner 1⟩
    R.2 = ⟨false, .inner 3⟩ ∧ R.1.tick = exWarm.tick + 1 ∧ R.1.cache = exWarm.cache ∧
      R.1.store.nodes = exWarm.store.nodes := by decide +kernel

/-- non-vacuity of `bcdd_cache_key_not_tag_normalised`: on the warm state `xor(¬f, g)` *misses*
(a second entry is created, two cache accesses more than a hit), although its result is the
memoised node #3 with the flipped tag — exactly what `bcdd_cache_key_normalised_partial` predicts -/
example :
    let R := xorS Policy.exact 12 exWarm ⟨true, .inner 1⟩ ⟨true, .inner 2⟩
    R.2 = ⟨true, .inner 3⟩ ∧ R.1.cache.length = 2 ∧ R.1.tick = exWarm.tick + 2 ∧
      Policy.exact.get 0 exWarm.cache (keyOf .xor ⟨true, .inner 1⟩ ⟨true, .inner 2⟩) = none := by
  decide +kernel

/-- non-vacuity of `bcdd_cache_key_normalised_partial`: the memoised `#3` for `xor(#1, ¬#2)` with
flipped tag denotes `xor(¬#1, ¬#2)` -/
example : DenotesC exWarm.store ⟨true, .inner 3⟩ (applyBin .xor (applyNot exAnd) exXor) := by
  have h := (bcdd_applyS_spec Policy.exact_ok .xor 12 ⟨exStore, [], 0⟩ ⟨false, .inner 1⟩
    ⟨true, .inner 2⟩ exAnd exXor exStore_unique (CacheOKC.nil _) exStore_and exStore_xor
    (by decide)).1
  have e : (binS Policy.exact .xor 12 ⟨exStore, [], 0⟩ ⟨false, .inner 1⟩ ⟨true, .inner 2⟩).2 =
      ⟨false, .inner 3⟩ := by decide +kernel
  rw [e] at h
  exact (bcdd_cache_key_normalised_partial h).1

/-- full key: the warm cache hits for `Xor` on exactly these tagged operands and for nothing else -/
example : Policy.exact.get 0 exWarm.cache (keyOf .xor ⟨false, .inner 1⟩ ⟨true, .inner 2⟩) =
      some (.inner 6) ∧
    Policy.exact.get 0 exWarm.cache (keyOf .and ⟨false, .inner 1⟩ ⟨true, .inner 2⟩) = none ∧
    Policy.exact.get 0 exWarm.cache (keyOf .xor ⟨false, .inner 1⟩ ⟨false, .inner 2⟩) = none := by
  decide +kernel

/-- non-vacuity of `bcdd_memo_tag_ok`: the swap (`¬#2 > #1` in the tag-major order) -/
example : orderPair ⟨true, .inner 2⟩ ⟨false, .inner 1⟩ = (⟨false, .inner 1⟩, ⟨true, .inner 2⟩) ∧
    orderPair ⟨false, .inner 2⟩ ⟨false, .inner 1⟩ = (⟨false, .inner 1⟩, ⟨false, .inner 2⟩) := by
  decide

/-- non-vacuity of `bcdd_not_no_cache` / `bcdd_derived_ops_tags`: `or` on the shared store creates
an `And` entry only (for the complemented operands) -/
example : (applyOpS Policy.exact .or 12 ⟨exStore, [], 0⟩ ⟨false, .inner 1⟩ ⟨true, .inner 2⟩).1.cache =
    [((.and, [enc ⟨false, .inner 2⟩, enc ⟨true, .inner 1⟩]), enc ⟨true, .inner 3⟩)] := by
  decide +kernel

/-- non-vacuity of `bcdd_cacheok_extend` / `bcdd_cacheok_evict` -/
example : CacheOKC exWarm.store exCache := bcdd_cacheok_extend exCache_ok exWarm_ok.1
example : CacheOKC exStore exCache.tail :=
  bcdd_cacheok_evict exCache_ok (fun _ h => List.mem_of_mem_tail h)

/-- non-vacuity of `bcdd_history_transparent`: `xor`, then `and` *on the same operands*, an
eviction point, `xor` with the complemented first operand, `ite`, `not`, `equiv` — with the ideal
cache vs. a capacity-1 direct-mapped one that also drops everything at the eviction point -/
def exHistory : List CmdC :=
  [.bin .xor ⟨false, .inner 1⟩ ⟨true, .inner 2⟩, .bin .and ⟨false, .inner 1⟩ ⟨true, .inner 2⟩,
   .cacheOp 0, .bin .xor ⟨true, .inner 1⟩ ⟨true, .inner 2⟩,
   .ite ⟨false, .inner 0⟩ ⟨false, .inner 1⟩ ⟨true, .inner 2⟩, .not ⟨true, .inner 2⟩,
   .bin .equiv ⟨false, .inner 1⟩ ⟨true, .inner 2⟩]

example : (runAllC ⟨Policy.exact, fun _ _ => true⟩ 15 exHistory ⟨exStore, [], 0⟩).2 =
    [some ⟨false, .inner 3⟩, some ⟨true, .term⟩, none, some ⟨true, .inner 3⟩,
     some ⟨false, .inner 4⟩, some ⟨false, .inner 2⟩, some ⟨true, .inner 3⟩] := by
  decide +kernel

example : (runAllC ⟨Policy.dm 1 (fun _ => 0) (fun _ => true), fun _ _ => false⟩ 15 exHistory
      ⟨exStore, exCache, 7⟩).2 =
    [some ⟨false, .inner 3⟩, some ⟨true, .term⟩, none, some ⟨true, .inner 3⟩,
     some ⟨false, .inner 4⟩, some ⟨false, .inner 2⟩, some ⟨true, .inner 3⟩] := by
  decide +kernel

/-- the validity hypothesis of `bcdd_history_transparent` is satisfiable (second command runs in
the store produced by the first) -/
example : ValidAllC ⟨Policy.exact, fun _ _ => true⟩ 15
    [.bin .xor ⟨false, .inner 1⟩ ⟨true, .inner 2⟩, .bin .or ⟨false, .inner 1⟩ ⟨true, .inner 2⟩,
     .not ⟨true, .inner 0⟩, .cacheOp 3]
    ⟨exStore, [], 0⟩ := by
  have h := bcdd_applyOpS_spec Policy.exact_ok .xor 15 ⟨exStore, [], 0⟩ ⟨false, .inner 1⟩
    ⟨true, .inner 2⟩ exAnd exXor exStore_unique (CacheOKC.nil _) exStore_and exStore_xor
    (by decide)
  have h' := bcdd_applyOpS_spec Policy.exact_ok .or 15
    (applyOpS Policy.exact .xor 15 ⟨exStore, [], 0⟩ ⟨false, .inner 1⟩ ⟨true, .inner 2⟩).1
    ⟨false, .inner 1⟩ ⟨true, .inner 2⟩ exAnd exXor h.2.2.1 h.2.2.2 (exStore_and.mono h.2.1)
    (exStore_xor.mono h.2.1) (by decide)
  exact ⟨⟨exAnd, exXor, exStore_and, exStore_xor, by decide⟩,
    ⟨exAnd, exXor, exStore_and.mono h.2.1, exStore_xor.mono h.2.1, by decide⟩,
    ⟨_, (exStore_nx1.mono h.2.1).mono h'.2.1⟩, trivial, trivial⟩

end OxiddModel.Bcdd.C06
