import OxiddModel.Bcdd.RThreads
import OxiddModel.Bcdd.PropertiesC07T

/-!
# C07 for BCDD with reference counters: the counters are exact after every schedule

The machine of `Bcdd/RThreads.lean` (the interleaving machine of `Bcdd/Threads.lean` on the counted
state `Rc.RStC`, every `clone_edge` / `drop_edge` / `reduce` of the code as part of the atomic
action in which it happens) run on a list of operations:

* `counted_run_erases` — forgetting the counters, every run of the counted machine is the run of
  the plain machine under the same schedule; hence `interleaving_correct`,
  `interleaving_vs_sequential`, `interleaved_inserts_agree`, `enabled_schedule_bounded`, … of
  `PropertiesC07T.lean` hold for it verbatim;
* `counters_exact_always` — (d) after **every** schedule prefix the counter of every stored node
  is exactly `1` (unique table) `+` the number of owned external edges to it (the user's handles
  `hs` and the edges owned by frames of running operations: `EdgeDropGuard`s, finished sub-results,
  the edge returned by `reduce`) `+` the number of stored parent edges; all owned edges and all
  children of stored nodes point to stored nodes (no dangling edge);
* `counters_exact_at_end` — when all operations have returned, the owned edges are exactly the
  handles and one reference per result: nothing leaked, nothing released twice;
* `counters_determined` — exact counters are determined by the store and the owned edges, so they
  do not depend on the schedule either;
* `result_counter_pos` — the node of every result has a counter `≥ 2`, so a collection
  (`rc == 1` ⇒ free) cannot free it.
-/
namespace OxiddModel.Bcdd.Threads
open OxiddModel.Bcdd OxiddModel.Bcdd.CNode OxiddModel.Bcdd.Refine OxiddModel.Bcdd.Rc
open OxiddModel.Bdd.Refine (Policy OpTag Key Cache)
open OxiddModel.Bdd.Rc (rcGet rcSet)

structure RCfg where
  r : RStC
  tasks : List Task

/-- forget the counters -/
def RCfg.erase (c : RCfg) : Cfg := ⟨c.r.st, c.tasks⟩

/-- one step of the counted machine -/
def RCfg.step (p : Policy) (c : RCfg) (s : Sel) : RCfg :=
  match c.tasks[s.tid]? with
  | none => c
  | some t =>
    match t.ret? with
    | some _ => c
    | none =>
      let o := t.rstep p c.r s.path
      ⟨o.1, c.tasks.set s.tid o.2⟩

def RCfg.run (p : Policy) (c : RCfg) : List Sel → RCfg
  | [] => c
  | s :: ss => (c.step p s).run p ss

def RCfg.init (r : RStC) (jobs : List Job) : RCfg := ⟨r, jobs.map Job.task⟩

/-- everything the running operations own -/
def RCfg.owned (c : RCfg) : List EdgeC := c.tasks.flatMap Task.owned

theorem RCfg.step_erase (p : Policy) (c : RCfg) (s : Sel) :
    (c.step p s).erase = c.erase.step p s := by
  unfold RCfg.step Cfg.step RCfg.erase
  simp only
  cases c.tasks[s.tid]? with
  | none => rfl
  | some t =>
    simp only
    cases t.ret? with
    | some _ => rfl
    | none =>
      simp only
      obtain ⟨h1, h2⟩ := Task.rstep_erase p c.r t s.path
      rw [h1, h2]

theorem RCfg.run_erase (p : Policy) (sched : List Sel) : ∀ (c : RCfg),
    (c.run p sched).erase = c.erase.run p sched := by
  induction sched with
  | nil => intro c; rfl
  | cons s ss ih => intro c; simp only [RCfg.run, Cfg.run]; rw [ih, RCfg.step_erase]

/-- replacing task `i` by its successor keeps the counters exact for all owned edges -/
theorem flatMap_set_rc {r r' : RStC} {t t' : Task} : ∀ (ts : List Task) (i : Nat) (ext : List EdgeC),
    ts[i]? = some t →
    (∀ ext', RcInv r (t.owned ++ ext') → RcInv r' (t'.owned ++ ext')) →
    RcInv r (ts.flatMap Task.owned ++ ext) → RcInv r' ((ts.set i t').flatMap Task.owned ++ ext) := by
  intro ts
  induction ts with
  | nil => intro i ext hi; simp at hi
  | cons t0 ts ih =>
    intro i ext hi hstep hrc
    cases i with
    | zero =>
      simp at hi; subst hi
      simp only [List.set_cons_zero, List.flatMap_cons, List.append_assoc] at hrc ⊢
      exact hstep _ hrc
    | succ i =>
      simp at hi
      simp only [List.set_cons_succ, List.flatMap_cons, List.append_assoc] at hrc ⊢
      have h1 : RcInv r (ts.flatMap Task.owned ++ (t0.owned ++ ext)) := by
        refine hrc.perm ?_
        rw [← List.append_assoc, ← List.append_assoc]
        exact List.Perm.append_right _ List.perm_append_comm
      refine (ih i (t0.owned ++ ext) hi hstep h1).perm ?_
      rw [← List.append_assoc, ← List.append_assoc]
      exact List.Perm.append_right _ List.perm_append_comm

/-- the joint invariant of the counted machine -/
structure RGood (s0 : StoreC) (hs : List EdgeC) (c : RCfg) (Ts : List Edge) (N : Nat) : Prop where
  good : GoodFrom s0 c.erase Ts N
  rc : RcInv c.r (c.owned ++ hs)

theorem RCfg.step_good {p : Policy} (pok : p.OK) {s0 : StoreC} {hs : List EdgeC} {c : RCfg}
    {Ts : List Edge} {N : Nat} (h : RGood s0 hs c Ts N) (sel : Sel) :
    ∃ N', RGood s0 hs (c.step p sel) Ts N' ∧ N' ≤ N := by
  obtain ⟨N', hg, hle, _⟩ := Cfg.step_good pok h.good sel
  rw [← RCfg.step_erase] at hg
  refine ⟨N', ⟨hg, ?_⟩, hle⟩
  unfold RCfg.step
  cases hi : c.tasks[sel.tid]? with
  | none => exact h.rc
  | some t =>
    simp only
    cases hr : t.ret? with
    | some _ => exact h.rc
    | none =>
      simp only
      have hi' : c.erase.tasks[sel.tid]? = some t := hi
      obtain ⟨T, n, _, hok⟩ := h.good.tasks.get hi'
      exact flatMap_set_rc c.tasks sel.tid hs hi
        (fun ext' => Task.rstep_rc pok h.good.inv hok sel.path ext' hr) h.rc

theorem RCfg.run_good {p : Policy} (pok : p.OK) {s0 : StoreC} {hs : List EdgeC} {Ts : List Edge}
    (sched : List Sel) : ∀ {c : RCfg} {N : Nat}, RGood s0 hs c Ts N →
      ∃ N', RGood s0 hs (c.run p sched) Ts N' := by
  induction sched with
  | nil => intro c N h; exact ⟨N, h⟩
  | cons s ss ih =>
    intro c N h
    obtain ⟨N1, h1, _⟩ := RCfg.step_good pok h s
    exact ih h1

theorem Job.task_owned (j : Job) : j.task.owned = [] := by
  cases j with
  | bin d op f g => cases op <;> rfl
  | ite d f g h => rfl

theorem init_owned (r : RStC) (jobs : List Job) : (RCfg.init r jobs).owned = [] := by
  unfold RCfg.init RCfg.owned
  induction jobs with
  | nil => rfl
  | cons j js ih => simp only [List.map_cons, List.flatMap_cons, Job.task_owned, List.nil_append]; exact ih

/-! ## headline theorems -/

/-- **Erasure**: the counted machine, with the counters forgotten, is the machine of
`Threads.lean` — under every schedule. All theorems of `PropertiesC07T.lean` are therefore
theorems about the counted machine. -/
theorem counted_run_erases (p : Policy) (r : RStC) (jobs : List Job) (sched : List Sel) :
    ((RCfg.init r jobs).run p sched).erase = (Cfg.init r.st jobs).run p sched :=
  RCfg.run_erase p sched _

/-- **(d) The counters are exact after every schedule.** From a counted state with exact counters
for the user's handles `hs` (`RcInv r hs`), the store invariant, and operations whose operands
denote trees: after *any* schedule prefix, for every stored node
`rc = 1 + (owned external edges to it) + (stored parent edges to it)`, where the owned external
edges are the handles and the edges owned by the frames of the running operations
(`RCfg.owned`); every owned edge, every child of a stored node and every cached result points to a
stored node. -/
theorem counters_exact_always {p : Policy} (pok : p.OK) (r : RStC) (hs : List EdgeC)
    (jobs : List Job) (hinv : InvC r.st) (hrc : RcInv r hs) (hops : OperandsOK r.st.store jobs)
    (sched : List Sel) :
    RcInv ((RCfg.init r jobs).run p sched).r (((RCfg.init r jobs).run p sched).owned ++ hs) := by
  obtain ⟨Ts, N, hj⟩ := jobsOK_of_operands hops
  have h0 : RGood r.st.store hs (RCfg.init r jobs) Ts N :=
    ⟨init_good hinv hj, by rw [init_owned]; exact hrc⟩
  obtain ⟨N', hg⟩ := RCfg.run_good pok sched h0
  exact hg.rc

theorem owned_of_done : ∀ (ts : List Task), ts.all (fun t => t.ret?.isSome) = true →
    ∃ rs, ts = rs.map Task.ret ∧ ts.flatMap Task.owned = rs := by
  intro ts
  induction ts with
  | nil => intro _; exact ⟨[], rfl, rfl⟩
  | cons t ts ih =>
    intro h
    simp only [List.all_cons, Bool.and_eq_true] at h
    obtain ⟨rs, h1, h2⟩ := ih h.2
    cases hr : t.ret? with
    | none => simp [hr] at h
    | some x =>
      have := ret?_some hr
      subst this
      exact ⟨x :: rs, by simp [h1], by simp [Task.owned, h2]⟩

/-- **No leak, no double release.** When the schedule has finished all operations, the tasks are
`ret r_0, …, ret r_k` and the counters are exact for exactly one owned reference per result plus
the handles: every temporary (`EdgeDropGuard`s, rejected nodes' children, duplicates `t == e`) has
been released exactly once, whatever the interleaving was. -/
theorem counters_exact_at_end {p : Policy} (pok : p.OK) (r : RStC) (hs : List EdgeC)
    (jobs : List Job) (hinv : InvC r.st) (hrc : RcInv r hs) (hops : OperandsOK r.st.store jobs)
    (sched : List Sel) (hdone : ((Cfg.init r.st jobs).run p sched).allDone = true) :
    ∃ rs, ((RCfg.init r jobs).run p sched).tasks = rs.map Task.ret ∧
      RcInv ((RCfg.init r jobs).run p sched).r (rs ++ hs) := by
  have he := counted_run_erases p r jobs sched
  have hd : ((RCfg.init r jobs).run p sched).tasks.all (fun t => t.ret?.isSome) = true := by
    have : ((RCfg.init r jobs).run p sched).tasks = ((Cfg.init r.st jobs).run p sched).tasks := by
      rw [← he]; rfl
    rw [this]; exact hdone
  obtain ⟨rs, h1, h2⟩ := owned_of_done _ hd
  refine ⟨rs, h1, ?_⟩
  have := counters_exact_always pok r hs jobs hinv hrc hops sched
  unfold RCfg.owned at this
  rw [h2] at this
  exact this

/-- the node of every result carries at least the unique table's and the result's reference: a
collector that frees nodes with `rc == 1` cannot free it -/
theorem result_counter_pos {p : Policy} (pok : p.OK) (r : RStC) (hs : List EdgeC)
    (jobs : List Job) (hinv : InvC r.st) (hrc : RcInv r hs) (hops : OperandsOK r.st.store jobs)
    (sched : List Sel) (hdone : ((Cfg.init r.st jobs).run p sched).allDone = true)
    (i : Nat) (b : Bool) (k : Nat)
    (hi : ((RCfg.init r jobs).run p sched).tasks[i]? = some (.ret ⟨b, .inner k⟩)) :
    2 ≤ rcGet ((RCfg.init r jobs).run p sched).r.rc k := by
  obtain ⟨rs, h1, h2⟩ := counters_exact_at_end pok r hs jobs hinv hrc hops sched hdone
  have hm : (⟨b, .inner k⟩ : EdgeC) ∈ rs := by
    rw [h1] at hi
    rw [List.getElem?_map] at hi
    cases hx : rs[i]? with
    | none => simp [hx] at hi
    | some x =>
      simp only [hx, Option.map_some, Option.some.injEq, Task.ret.injEq] at hi
      subst hi
      exact List.mem_of_getElem? hx
  obtain ⟨n, hn⟩ := h2.ext_ok ⟨b, .inner k⟩ (List.mem_append_left _ hm)
  have he := h2.rc_eq k n hn
  have hpos : 1 ≤ extCnt (rs ++ hs) k := by
    obtain ⟨l1, l2, hl⟩ := List.append_of_mem (List.mem_append_left hs hm)
    rw [hl]
    have hp : (l1 ++ ⟨b, .inner k⟩ :: l2).Perm (⟨b, .inner k⟩ :: (l1 ++ l2)) := List.perm_middle
    rw [extCnt_perm hp, extCnt_cons]
    simp [cnt, cntT]
  omega

/-- **The counters are a function of the store and of who owns what.** Two counted states with
exact counters for the same owned edges and the same store have the same counter at every stored
node. In particular, after any schedule the counters are those the sequential counted model
(`Rc.applyOpR` / `Rc.iteR`, compared with the code by the stream `bcdd-rc`) has whenever it reaches
the same store with the same owned edges. -/
theorem counters_determined {r r' : RStC} {ext : List EdgeC} (h : RcInv r ext) (h' : RcInv r' ext)
    (hs : r.st.store = r'.st.store) (i : Nat) (n : NodeC) (hi : r.st.store.get? i = some n) :
    rcGet r.rc i = rcGet r'.rc i := by
  have e1 := h.rc_eq i n hi
  have e2 := h'.rc_eq i n (hs ▸ hi)
  rw [← hs] at e2
  omega

/-! ## non-vacuity: the counted version of the example of `PropertiesC07T.lean` -/

theorem rcinv_empty' : RcInv RStC.empty [] where
  ext_ok _ h := by cases h
  kids_ok i n h := by simp [RStC.empty, StoreC.get?] at h
  cache_ok _ _ h := by cases h
  rc_eq i n h := by simp [RStC.empty, StoreC.get?] at h

/-- owning a terminal edge costs nothing -/
theorem rcInv_term {r : RStC} {ext : List EdgeC} (h : RcInv r ext) (b : Bool) :
    RcInv r (termC b :: ext) := cloneEdge_rc (x := termC b) h (has_termC _ b)

theorem rcInv_clone {r : RStC} {ext : List EdgeC} {x : EdgeC} (h : RcInv r (x :: ext)) :
    RcInv (cloneEdge r x) (x :: x :: ext) := cloneEdge_rc h (h.ext_ok x List.mem_cons_self)

/-- the store of `exStore` built with counters: `x2`, three clones, `x1 ∨ x2`, `F`, `x1 ⊕ x2`
(two clones), `G`; the user keeps handles to `G`, `¬(x1 ⊕ x2)` and `F` -/
def exA := mkNodeU RStC.empty 2 (termC true) (termC false)
def exB : RStC := cloneEdge (cloneEdge (cloneEdge exA.2 exA.1) exA.1) exA.1
def exC := mkNodeU exB 1 (termC true) exA.1
def exD := mkNodeU exC.2 0 exC.1 exA.1
def exE := mkNodeU exD.2 1 exA.1 (notE exA.1)
def exFr : RStC := cloneEdge (cloneEdge exE.2 exE.1) exE.1
def exGr := mkNodeU exFr 0 exE.1 (notE exE.1)

def exR : RStC := exGr.2
def exHs : List EdgeC := [exGr.1, notE exE.1, exD.1]

theorem exR_rc : RcInv exR exHs := by
  have hA : RcInv exA.2 [exA.1] := mkNodeU_rc (rcInv_term (rcInv_term rcinv_empty' false) true)
  have hB : RcInv exB [exA.1, exA.1, exA.1, exA.1] := rcInv_clone (rcInv_clone (rcInv_clone hA))
  have hC : RcInv exC.2 [exC.1, exA.1, exA.1, exA.1] := mkNodeU_rc (rcInv_term hB true)
  have hD : RcInv exD.2 [exD.1, exA.1, exA.1] := mkNodeU_rc hC
  have hE : RcInv exE.2 [exE.1, exD.1] := by
    have h1 : RcInv exD.2 [exA.1, exA.1, exD.1] :=
      hD.perm (List.perm_append_comm (l₁ := [exD.1]) (l₂ := [exA.1, exA.1]))
    exact mkNodeU_rc (RcInv.swap (RcInv.notE_head h1))
  have hF : RcInv exFr [exE.1, exE.1, exE.1, exD.1] := rcInv_clone (rcInv_clone hE)
  have hG : RcInv exGr.2 [exGr.1, exE.1, exD.1] := mkNodeU_rc (RcInv.swap (RcInv.notE_head hF))
  have h2 : RcInv exGr.2 [exE.1, exGr.1, exD.1] := RcInv.swap hG
  exact RcInv.swap (RcInv.notE_head h2)

/-- it is the start state of the plain example, with counters `x2: 5, x1∨x2: 2, F: 2, x1⊕x2: 4, G: 2` -/
example : exR.st.store.nodes = exStore.nodes ∧ exR.st.cache = [] ∧ exHs = [eG, eH, eF] ∧
    exR.rc = #[5, 2, 2, 4, 2] := by decide +kernel

theorem exR_store : exR.st.store = exStore := by
  have h : exR.st.store.nodes = exStore.nodes := by decide +kernel
  cases hs : exR.st.store with
  | mk n =>
    cases hs' : exStore with
    | mk n' => rw [hs, hs'] at h; simp only at h; rw [h]

theorem exR_inv : InvC exR.st := by
  refine ⟨?_, ?_⟩
  · rw [exR_store]; exact exStore_unique
  · have : exR.st.cache = [] := by decide +kernel
    rw [this]; exact CacheOKC.nil _

theorem exR_ops : OperandsOK exR.st.store exJobs := by rw [exR_store]; exact exOps

theorem exR_done : ((Cfg.init exR.st exJobs).run exPol exSched).allDone = true := by decide +kernel

/-- `counters_exact_always` in the middle of the run (after 36 selections): the running operations
own four edges (`¬x2` twice, `¬#3`, `F`: `EdgeDropGuard`s and finished sub-results) next to the
three handles -/
example := counters_exact_always exPol_ok exR exHs exJobs exR_inv exR_rc exR_ops (exSched.take 36)
example : ((RCfg.init exR exJobs).run exPol (exSched.take 36)).owned =
      [⟨true, .inner 0⟩, ⟨true, .inner 0⟩, ⟨true, .inner 3⟩, ⟨false, .inner 2⟩] ∧
    ((RCfg.init exR exJobs).run exPol (exSched.take 36)).r.rc = #[7, 2, 3, 5, 2] := by
  decide +kernel

/-- `counters_exact_at_end`, `result_counter_pos`: at the end the results `¬#8, #8, #9, ¬#8, #7, F`
are owned once each; `#8` carries `1 + 3` references, `F = #2` one more than before -/
example := counters_exact_at_end exPol_ok exR exHs exJobs exR_inv exR_rc exR_ops exSched exR_done
example : ((RCfg.init exR exJobs).run exPol exSched).tasks =
      [.ret ⟨true, .inner 8⟩, .ret ⟨false, .inner 8⟩, .ret ⟨false, .inner 9⟩, .ret ⟨true, .inner 8⟩,
       .ret ⟨false, .inner 7⟩, .ret ⟨false, .inner 2⟩] ∧
    ((RCfg.init exR exJobs).run exPol exSched).r.rc = #[6, 3, 3, 5, 2, 3, 2, 2, 4, 2] := by
  decide +kernel
example := result_counter_pos exPol_ok exR exHs exJobs exR_inv exR_rc exR_ops exSched exR_done
  0 true 8 (by decide +kernel)
example := counted_run_erases exPol exR exJobs exSched

end OxiddModel.Bcdd.Threads
