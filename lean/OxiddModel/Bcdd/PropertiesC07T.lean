import OxiddModel.Bcdd.ThreadsSeq

/-!
# C07 for BCDD (complement edges): every interleaving of parallel `apply` ≡ sequential `apply`

Headline theorems about the machine of `Bcdd/Threads.lean` (tasks = resumptions of
`apply_bin::<And|Xor>` and `apply_ite` of `complement_edge/apply_rec.rs` and of the eight `*_edge`
connectives built from `apply_bin` with `not` tags; atomic actions = cache query, `reduce` with
complement-edge normalisation, cache add; scheduler = arbitrary interleaving over all live
sub-tasks of all operations). All statements are for **every** schedule, every admissible cache
policy, every start state with the BCDD store invariant (`InvC` = hash consing + sound cache;
`NoRed` = no node with equal children; "then-edge never complemented" is built into `NodeC`), all
operands that denote trees, every split depth.

* `interleaving_invariant` — (b) after any schedule prefix the store is hash-consed again, has no
  redundant node, extends the start store (no existing node changes), (c) the cache is sound, every
  running task still computes its tree;
* `interleaving_correct` (`interleaving_bin_correct`, `interleaving_ite_correct`) — (a) when a
  schedule has finished all operations, operation `i` holds an edge (node **and tag**) denoting
  the tree-level result `applyOp op a b` / `applyIte a b c`;
* `interleaving_vs_sequential` — (a) the comparison with the sequential store-level model
  `applyOpS` / `iteS`: same tree as the model run from the start state; the *identical edge*
  whenever the result was already present in the start store; and the model re-run in the final
  store returns the identical edge without touching the store;
* `sequential_schedule_is_model` — the machine with one operation and the sequential recursor goes
  through exactly the model's state: same store slot for slot, same cache, same edge;
* `same_function_same_edge` — two operations (of any threads) whose results are the same tree hold
  the same edge;
* `interleaved_inserts_agree` — (c) two sub-tasks anywhere in the machine that are about to insert
  an entry for the same key insert the same value, and it equals whatever the cache holds for that
  key;
* `enabled_schedule_bounded`, `stuck_iff_done`, `complete_schedule_exists` — termination: no
  schedule of enabled selections is longer than `stepBound`; nothing enabled ⇔ all done; a
  complete schedule exists.
-/
namespace OxiddModel.Bcdd.Threads
open OxiddModel.Bcdd OxiddModel.Bcdd.CNode OxiddModel.Bcdd.Refine
open OxiddModel.Bdd.Refine (Policy OpTag Key Cache)

/-- a top-level operation: split depth `d` of its recursor and either a connective with two
operand edges (`and_edge`, `or_edge`, …) or `ite_edge` with three -/
inductive Job where
  | bin (d : Nat) (op : Op) (f g : EdgeC)
  | ite (d : Nat) (f g h : EdgeC)
deriving DecidableEq, Repr

def Job.task : Job → Task
  | .bin d op f g => startOp d op f g
  | .ite d f g h => .call d (.ite f g h)

def Job.depth : Job → Nat
  | .bin d _ _ _ => d
  | .ite d _ _ _ => d

def Job.operands : Job → List EdgeC
  | .bin _ _ f g => [f, g]
  | .ite _ f g h => [f, g, h]

/-- the tree-level (sequential, cache-free) result for operand trees `ts` -/
def Job.result : Job → List Edge → Option Edge
  | .bin _ op _ _, [a, b] => some (applyOp op a b)
  | .ite _ _ _ _, [a, b, c] => some (applyIte a b c)
  | _, _ => none

/-- the sequential store-level model of the operation: `applyOpS` / `iteS` -/
def Job.seq (p : Policy) (fuel : Nat) (st : StC) : Job → StC × EdgeC
  | .bin _ op f g => applyOpS p op fuel st f g
  | .ite _ f g h => iteS p fuel st f g h

def sizeSum (ts : List Edge) : Nat := (ts.map Edge.size).sum

/-- all operations at their entry, on one shared state -/
def Cfg.init (st : StC) (jobs : List Job) : Cfg := ⟨st, jobs.map Job.task⟩

theorem denotesLC_two_inv {s : StoreC} {f g : EdgeC} {ts : List Edge} (h : DenotesLC s [f, g] ts) :
    ∃ a b, ts = [a, b] ∧ DenotesC s f a ∧ DenotesC s g b := by
  cases h with
  | cons ha h1 =>
    cases h1 with
    | cons hb h2 => cases h2; exact ⟨_, _, rfl, ha, hb⟩

theorem denotesLC_three_inv {s : StoreC} {f g h : EdgeC} {ts : List Edge}
    (hd : DenotesLC s [f, g, h] ts) :
    ∃ a b c, ts = [a, b, c] ∧ DenotesC s f a ∧ DenotesC s g b ∧ DenotesC s h c := by
  cases hd with
  | cons ha h1 =>
    cases h1 with
    | cons hb h2 =>
      cases h2 with
      | cons hc h3 => cases h3; exact ⟨_, _, _, rfl, ha, hb, hc⟩

theorem startOp_ok {s : StoreC} (d : Nat) (op : Op) {f g : EdgeC} {a b : Edge}
    (hf : DenotesC s f a) (hg : DenotesC s g b) :
    TaskOK s (startOp d op f g) (applyOp op a b) (W (a.size + b.size) + 1) := by
  have hsa : (applyNot a).size = a.size := rfl
  have hsb : (applyNot b).size = b.size := rfl
  cases op <;> simp only [startOp, applyOp, applyAnd]
  · exact .call ⟨a, b, hf, hg, rfl, Nat.le_refl _⟩ (by omega)
  · exact .neg rfl (.call (k := a.size + b.size) ⟨_, _, hf.not, hg.not, rfl, by omega⟩
      (Nat.le_refl _)) (Nat.le_refl _)
  · exact .neg rfl (.call ⟨a, b, hf, hg, rfl, Nat.le_refl _⟩ (Nat.le_refl _)) (Nat.le_refl _)
  · exact .call (k := a.size + b.size) ⟨_, _, hf.not, hg.not, rfl, by omega⟩ (by omega)
  · exact .call ⟨a, b, hf, hg, rfl, Nat.le_refl _⟩ (by omega)
  · exact .neg rfl (.call ⟨a, b, hf, hg, rfl, Nat.le_refl _⟩ (Nat.le_refl _)) (Nat.le_refl _)
  · exact .neg rfl (.call (k := a.size + b.size) ⟨_, _, hf, hg.not, rfl, by omega⟩
      (Nat.le_refl _)) (Nat.le_refl _)
  · exact .call (k := a.size + b.size) ⟨_, _, hf.not, hg, rfl, by omega⟩ (by omega)

theorem job_ok {s : StoreC} {j : Job} {ts : List Edge} {T : Edge}
    (hts : DenotesLC s j.operands ts) (hT : j.result ts = some T) :
    TaskOK s j.task T (W (sizeSum ts) + 1) := by
  cases j with
  | bin d op f g =>
    obtain ⟨a, b, rfl, ha, hb⟩ := denotesLC_two_inv hts
    simp only [Job.result, Option.some.injEq] at hT
    subst hT
    exact (startOp_ok d op ha hb).weaken (by simp [sizeSum])
  | ite d f g h =>
    obtain ⟨a, b, c, rfl, ha, hb, hc⟩ := denotesLC_three_inv hts
    simp only [Job.result, Option.some.injEq] at hT
    subst hT
    refine .call (k := a.size + b.size + c.size) ⟨_, _, _, ha, hb, hc, rfl, Nat.le_refl _⟩ ?_
    have : sizeSum [a, b, c] = a.size + b.size + c.size := by simp [sizeSum]; omega
    rw [this]; omega

/-- the sequential model satisfies the common postcondition `PostC` -/
theorem Job.seq_spec {p : Policy} (pok : p.OK) {st : StC} (hinv : InvC st) {j : Job}
    {ts : List Edge} {T : Edge} (hts : DenotesLC st.store j.operands ts)
    (hT : j.result ts = some T) (fuel : Nat) (hfuel : sizeSum ts ≤ fuel) :
    PostC st.store T (j.seq p fuel st) := by
  cases j with
  | bin d op f g =>
    obtain ⟨a, b, rfl, ha, hb⟩ := denotesLC_two_inv hts
    simp only [Job.result, Option.some.injEq] at hT
    subst hT
    exact applyOpS_spec pok op fuel st f g a b hinv ha hb (by simp [sizeSum] at hfuel; omega)
  | ite d f g h =>
    obtain ⟨a, b, c, rfl, ha, hb, hc⟩ := denotesLC_three_inv hts
    simp only [Job.result, Option.some.injEq] at hT
    subst hT
    exact iteS_spec pok fuel st f g h a b c hinv ha hb hc (by simp [sizeSum] at hfuel; omega)

/-- the operands of all jobs denote trees; `Ts` are the tree-level results, `N` the step bound -/
inductive JobsOK (s : StoreC) : List Job → List Edge → Nat → Prop
  | nil : JobsOK s [] [] 0
  | cons {j ts T js Ts N} : DenotesLC s j.operands ts → j.result ts = some T → JobsOK s js Ts N →
      JobsOK s (j :: js) (T :: Ts) (W (sizeSum ts) + 1 + N)

theorem JobsOK.tasks {s : StoreC} {js : List Job} {Ts : List Edge} {N : Nat} (h : JobsOK s js Ts N) :
    TasksOK s (js.map Job.task) Ts N := by
  induction h with
  | nil => exact .nil
  | cons hts hT _ ih => exact .cons (job_ok hts hT) ih

theorem JobsOK.get {s : StoreC} {js : List Job} {Ts : List Edge} {N : Nat} (h : JobsOK s js Ts N) :
    ∀ {i : Nat} {j : Job}, js[i]? = some j →
      ∃ ts T, DenotesLC s j.operands ts ∧ j.result ts = some T ∧ Ts[i]? = some T := by
  induction h with
  | nil => intro i j hi; simp at hi
  | @cons j' ts T js Ts N hts hT _ ih =>
    intro i j hi
    cases i with
    | zero => simp at hi; subst hi; exact ⟨ts, T, hts, hT, rfl⟩
    | succ i => simp at hi; simpa using ih hi

/-- the hypothesis "all operands denote trees" in elementary form -/
def OperandsOK (s : StoreC) (jobs : List Job) : Prop :=
  ∀ j, j ∈ jobs → ∃ ts, DenotesLC s j.operands ts

theorem result_some {s : StoreC} {j : Job} {ts : List Edge} (h : DenotesLC s j.operands ts) :
    ∃ T, j.result ts = some T := by
  cases j with
  | bin d op f g => obtain ⟨a, b, rfl, _, _⟩ := denotesLC_two_inv h; exact ⟨_, rfl⟩
  | ite d f g h' => obtain ⟨a, b, c, rfl, _, _, _⟩ := denotesLC_three_inv h; exact ⟨_, rfl⟩

theorem jobsOK_of_operands {s : StoreC} : ∀ {jobs : List Job}, OperandsOK s jobs →
    ∃ Ts N, JobsOK s jobs Ts N := by
  intro jobs
  induction jobs with
  | nil => intro _; exact ⟨[], 0, .nil⟩
  | cons j js ih =>
    intro h
    obtain ⟨ts, hts⟩ := h j (List.mem_cons_self ..)
    obtain ⟨T, hT⟩ := result_some hts
    obtain ⟨Ts, N, hjs⟩ := ih (fun j' hj' => h j' (List.mem_cons_of_mem _ hj'))
    exact ⟨_, _, .cons hts hT hjs⟩

theorem init_good {st : StC} {jobs : List Job} {Ts : List Edge} {N : Nat} (hinv : InvC st)
    (hj : JobsOK st.store jobs Ts N) : GoodFrom st.store (Cfg.init st jobs) Ts N :=
  ⟨hinv, StoreC.Le.refl _, id, hj.tasks⟩

theorem ret?_some {t : Task} {r : EdgeC} (h : t.ret? = some r) : t = .ret r := by
  cases t <;> simp only [Task.ret?] at h <;> cases h
  rfl

/-- the result of a finished configuration at position `i` -/
theorem GoodFrom.result {s0 : StoreC} {c : Cfg} {Ts : List Edge} {N : Nat} (h : GoodFrom s0 c Ts N)
    (hdone : c.allDone = true) {i : Nat} {T : Edge} (hi : Ts[i]? = some T) :
    ∃ r, c.tasks[i]? = some (.ret r) ∧ DenotesC c.st.store r T := by
  obtain ⟨t, n, ht, hok⟩ := h.tasks.get' hi
  have := List.all_eq_true.mp hdone t (List.mem_of_getElem? ht)
  cases hr : t.ret? with
  | none => simp [hr] at this
  | some r =>
    have e := ret?_some hr
    subst e
    exact ⟨r, ht, hok.ret_den rfl⟩

/-! ## (b), (c): the invariant after every schedule -/

/-- **Invariant under every interleaving.** From a state with the BCDD store invariant and
operations whose operands denote trees, after *any* schedule: the store is hash-consed
(`Unique`: no duplicates), has no redundant node if it had none, extends the start store (every
node that existed keeps its slot and content), the apply cache is sound for the current store, and
every operation — finished or not — is a task computing its tree-level result. -/
theorem interleaving_invariant {p : Policy} (pok : p.OK) (st : StC) (jobs : List Job)
    (hinv : InvC st) (hops : OperandsOK st.store jobs) (sched : List Sel) :
    let c := (Cfg.init st jobs).run p sched
    c.st.store.Unique ∧ CacheOKC c.st.store c.st.cache ∧ st.store.Le c.st.store ∧
    (st.store.NoRed → c.st.store.NoRed) ∧ c.tasks.length = jobs.length ∧
    ∀ (i : Nat) (j : Job), jobs[i]? = some j → ∀ ts T, DenotesLC st.store j.operands ts →
      j.result ts = some T → ∃ t n, c.tasks[i]? = some t ∧ TaskOK c.st.store t T n := by
  intro c
  obtain ⟨Ts, N, hj⟩ := jobsOK_of_operands hops
  obtain ⟨N', hg, _, _⟩ := Cfg.run_good (p := p) pok sched (init_good hinv hj)
  refine ⟨hg.inv.1, hg.inv.2, hg.le, hg.nored, ?_, ?_⟩
  · show ((Cfg.init st jobs).run p sched).tasks.length = _
    rw [Cfg.run_length]; simp [Cfg.init]
  · intro i j hi ts T hts hT
    obtain ⟨ts', T', hts', hT', hTi⟩ := hj.get hi
    have := DenotesLC.functional hts hts'
    subst this
    rw [hT] at hT'; cases hT'
    exact hg.tasks.get' hTi

/-! ## (a): the results -/

/-- **Every complete schedule yields the sequential result.** If the schedule has finished all
operations, operation `i` holds an edge `r` — node and complement tag — that denotes the result `T`
of the tree-level (sequential, cache-free) algorithm on the trees `ts` of its operands. -/
theorem interleaving_correct {p : Policy} (pok : p.OK) (st : StC) (jobs : List Job)
    (hinv : InvC st) (hops : OperandsOK st.store jobs) (sched : List Sel)
    (hdone : ((Cfg.init st jobs).run p sched).allDone = true)
    (i : Nat) (j : Job) (hi : jobs[i]? = some j) (ts : List Edge) (T : Edge)
    (hts : DenotesLC st.store j.operands ts) (hT : j.result ts = some T) :
    ∃ r, ((Cfg.init st jobs).run p sched).tasks[i]? = some (.ret r) ∧
      DenotesC ((Cfg.init st jobs).run p sched).st.store r T := by
  obtain ⟨Ts, N, hj⟩ := jobsOK_of_operands hops
  obtain ⟨N', hg, _, _⟩ := Cfg.run_good (p := p) pok sched (init_good hinv hj)
  obtain ⟨ts', T', hts', hT', hTi⟩ := hj.get hi
  have := DenotesLC.functional hts hts'
  subst this
  rw [hT] at hT'; cases hT'
  exact hg.result hdone hTi

/-- `interleaving_correct` for a connective: the edge denotes `applyOp op a b` -/
theorem interleaving_bin_correct {p : Policy} (pok : p.OK) (st : StC) (jobs : List Job)
    (hinv : InvC st) (hops : OperandsOK st.store jobs) (sched : List Sel)
    (hdone : ((Cfg.init st jobs).run p sched).allDone = true)
    (i d : Nat) (op : Op) (f g : EdgeC) (hi : jobs[i]? = some (.bin d op f g)) (a b : Edge)
    (ha : DenotesC st.store f a) (hb : DenotesC st.store g b) :
    ∃ r, ((Cfg.init st jobs).run p sched).tasks[i]? = some (.ret r) ∧
      DenotesC ((Cfg.init st jobs).run p sched).st.store r (applyOp op a b) :=
  interleaving_correct pok st jobs hinv hops sched hdone i _ hi [a, b] _ (DenotesLC.two ha hb) rfl

/-- `interleaving_correct` for `ite`: the edge denotes `applyIte a b c` -/
theorem interleaving_ite_correct {p : Policy} (pok : p.OK) (st : StC) (jobs : List Job)
    (hinv : InvC st) (hops : OperandsOK st.store jobs) (sched : List Sel)
    (hdone : ((Cfg.init st jobs).run p sched).allDone = true)
    (i d : Nat) (f g h : EdgeC) (hi : jobs[i]? = some (.ite d f g h)) (a b c : Edge)
    (ha : DenotesC st.store f a) (hb : DenotesC st.store g b) (hc : DenotesC st.store h c) :
    ∃ r, ((Cfg.init st jobs).run p sched).tasks[i]? = some (.ret r) ∧
      DenotesC ((Cfg.init st jobs).run p sched).st.store r (applyIte a b c) :=
  interleaving_correct pok st jobs hinv hops sched hdone i _ hi [a, b, c] _
    (DenotesLC.three ha hb hc) rfl

/-- **Interleaved execution against the sequential store-level model** `Job.seq` = `applyOpS` /
`iteS` (`ApplyS.lean`, `IteS.lean`; tied to the real code by the store-level streams). With `R`
the sequential run from the *start* state (any admissible policy `p'`, enough fuel) and `r` the
edge operation `i` holds after a complete schedule:

1. `r` and `R.2` denote the same tree (hence the same Boolean function, the same diagram shape,
   the same complement tag) in their respective stores;
2. if that tree was already present in the start store as edge `e`, then `r = e = R.2`;
3. if the start store has no redundant node: re-running the model in the *final* state of the
   schedule returns exactly `r` and leaves the store as it is.

(The stores themselves may differ in the slot numbers of the nodes created on the way, because
slots are handed out in the order of the `reduce` actions.) -/
theorem interleaving_vs_sequential {p : Policy} (pok : p.OK) (st : StC) (jobs : List Job)
    (hinv : InvC st) (hops : OperandsOK st.store jobs) (sched : List Sel)
    (hdone : ((Cfg.init st jobs).run p sched).allDone = true)
    (i : Nat) (j : Job) (hi : jobs[i]? = some j) (ts : List Edge) (T : Edge)
    (hts : DenotesLC st.store j.operands ts) (hT : j.result ts = some T)
    {p' : Policy} (pok' : p'.OK) (fuel : Nat) (hfuel : sizeSum ts ≤ fuel) :
    ∃ r, ((Cfg.init st jobs).run p sched).tasks[i]? = some (.ret r) ∧
      DenotesC ((Cfg.init st jobs).run p sched).st.store r T ∧
      DenotesC (j.seq p' fuel st).1.store (j.seq p' fuel st).2 T ∧
      (∀ e, DenotesC st.store e T → r = e ∧ (j.seq p' fuel st).2 = e) ∧
      (st.store.NoRed →
        (j.seq p' fuel ((Cfg.init st jobs).run p sched).st).2 = r ∧
        (j.seq p' fuel ((Cfg.init st jobs).run p sched).st).1.store =
          ((Cfg.init st jobs).run p sched).st.store) := by
  obtain ⟨r, hr, hden⟩ := interleaving_correct pok st jobs hinv hops sched hdone i j hi ts T hts hT
  obtain ⟨hu, hc, hle, hnr, _, _⟩ := interleaving_invariant pok st jobs hinv hops sched
  have hseq := Job.seq_spec pok' hinv hts hT fuel hfuel
  refine ⟨r, hr, hden, hseq.den, ?_, ?_⟩
  · intro e he
    exact ⟨denotesC_inj hu hden (he.mono hle), denotesC_inj hseq.inv.1 hseq.den (he.mono hseq.le)⟩
  · intro hr0
    have hre := Job.seq_spec (st := ((Cfg.init st jobs).run p sched).st) pok' ⟨hu, hc⟩
      (hts.mono hle) hT fuel hfuel
    have hcan := hre.canon (hnr hr0)
    rw [internE_of_denotes hu (hnr hr0) hden] at hcan
    exact ⟨congrArg Prod.snd hcan, congrArg Prod.fst hcan⟩

/-- **The machine's sequential instance is the model.** One operation with the sequential
recursor (`depth = 0`), selected again and again: after some number of (all enabled) selections
the configuration is exactly the model's result — `Job.seq`'s store (slot for slot), cache, time
stamp, and the task is `ret` of `Job.seq`'s edge. -/
theorem sequential_schedule_is_model {p : Policy} (pok : p.OK) (st : StC) (j : Job)
    (hd : j.depth = 0) (hinv : InvC st) (ts : List Edge) (hts : DenotesLC st.store j.operands ts)
    (fuel : Nat) (hfuel : sizeSum ts ≤ fuel) :
    ∃ n, (Cfg.init st [j]).run p (List.replicate n ⟨0, []⟩) =
        ⟨(j.seq p fuel st).1, [.ret (j.seq p fuel st).2]⟩ ∧
      (Cfg.init st [j]).allEnabled p (List.replicate n ⟨0, []⟩) = true := by
  cases j with
  | bin d op f g =>
    simp only [Job.depth] at hd
    subst hd
    obtain ⟨a, b, rfl, ha, hb⟩ := denotesLC_two_inv hts
    exact (steps_applyOpS pok op fuel st f g a b hinv ha hb
      (by simp [sizeSum] at hfuel; omega)).run
  | ite d f g h =>
    simp only [Job.depth] at hd
    subst hd
    obtain ⟨a, b, c, rfl, ha, hb, hc⟩ := denotesLC_three_inv hts
    exact (steps_iteS pok fuel st f g h a b c hinv ha hb hc
      (by simp [sizeSum] at hfuel; omega)).run

/-- **Canonicity across threads**: two operations, of whichever tasks and split depths, whose
tree-level results coincide hold the *same edge* after any complete schedule (e.g. `f ∧ g` by one
thread and `g ∧ f`, or `ite f g ⊥`, by another). -/
theorem same_function_same_edge {p : Policy} (pok : p.OK) (st : StC) (jobs : List Job)
    (hinv : InvC st) (hops : OperandsOK st.store jobs) (sched : List Sel)
    (hdone : ((Cfg.init st jobs).run p sched).allDone = true)
    (i1 i2 : Nat) (j1 j2 : Job) (h1 : jobs[i1]? = some j1) (h2 : jobs[i2]? = some j2)
    (ts1 ts2 : List Edge) (T : Edge) (hts1 : DenotesLC st.store j1.operands ts1)
    (hts2 : DenotesLC st.store j2.operands ts2) (hT1 : j1.result ts1 = some T)
    (hT2 : j2.result ts2 = some T) :
    ∃ r, ((Cfg.init st jobs).run p sched).tasks[i1]? = some (.ret r) ∧
      ((Cfg.init st jobs).run p sched).tasks[i2]? = some (.ret r) := by
  obtain ⟨r1, hr1, hd1⟩ :=
    interleaving_correct pok st jobs hinv hops sched hdone i1 j1 h1 ts1 T hts1 hT1
  obtain ⟨r2, hr2, hd2⟩ :=
    interleaving_correct pok st jobs hinv hops sched hdone i2 j2 h2 ts2 T hts2 hT2
  obtain ⟨hu, _⟩ := interleaving_invariant pok st jobs hinv hops sched
  have := denotesC_inj hu hd1 hd2
  subst this
  exact ⟨r1, hr1, hr2⟩

/-! ## (c): interleaved cache inserts -/

/-- **Interleaved inserts agree.** At any moment of any schedule: if two sub-tasks (anywhere in the
task trees of any two operations, possibly the same) have finished `reduce` for the same cache key
and are about to execute `apply_cache().add`, they insert the same edge; and if the cache already
holds a value for that key, it is (the word of) that same edge. So the order of the inserts, and
which of them survives in a lossy cache, cannot be observed. -/
theorem interleaved_inserts_agree {p : Policy} (pok : p.OK) (st : StC) (jobs : List Job)
    (hinv : InvC st) (hops : OperandsOK st.store jobs) (sched : List Sel)
    (i1 i2 : Nat) (t1 t2 : Task)
    (h1 : ((Cfg.init st jobs).run p sched).tasks[i1]? = some t1)
    (h2 : ((Cfg.init st jobs).run p sched).tasks[i2]? = some t2)
    (key : Key) (r1 r2 : EdgeC) (hm1 : (key, r1) ∈ t1.mades) (hm2 : (key, r2) ∈ t2.mades) :
    r1 = r2 ∧ ∀ w, (key, w) ∈ ((Cfg.init st jobs).run p sched).st.cache → w = enc r1 := by
  obtain ⟨Ts, N, hj⟩ := jobsOK_of_operands hops
  obtain ⟨N', hg, _, _⟩ := Cfg.run_good (p := p) pok sched (init_good hinv hj)
  obtain ⟨T1, n1, _, hok1⟩ := hg.tasks.get h1
  obtain ⟨T2, n2, _, hok2⟩ := hg.tasks.get h2
  obtain ⟨U1, hk1, hd1⟩ := hok1.mades_ok key r1 hm1
  obtain ⟨U2, hk2, hd2⟩ := hok2.mades_ok key r2 hm2
  have := hk1.functional hk2
  subst this
  refine ⟨denotesC_inj hg.inv.1 hd1 hd2, fun w hw => ?_⟩
  obtain ⟨es, ts, T, e1, e2, e3, e4⟩ := hg.inv.2 key w hw
  have := hk1.functional ⟨es, ts, e1, e2, e3⟩
  subst this
  have := denotesC_inj hg.inv.1 e4 hd1
  rw [← this, enc_dec]

/-! ## termination -/

/-- the explicit step bound: `W |operand trees| + 1` per operation (`W (k+1) = 2 W k + 8`: worst
case, no cache hit at all) -/
def stepBound (sizes : List Nat) : Nat := (sizes.map (fun k => W k + 1)).sum

theorem JobsOK.bound {s : StoreC} {js : List Job} {Ts : List Edge} {N : Nat} (h : JobsOK s js Ts N) :
    ∀ (size : Job → Nat), (∀ j ts, j ∈ js → DenotesLC s j.operands ts → sizeSum ts ≤ size j) →
      N ≤ stepBound (js.map size) := by
  induction h with
  | nil => intro _ _; exact Nat.zero_le _
  | @cons j ts T js Ts N hts _ _ ih =>
    intro size hs
    have h1 := W_mono (hs j ts (List.mem_cons_self ..) hts)
    have h2 := ih size (fun j' ts' hj' => hs j' ts' (List.mem_cons_of_mem _ hj'))
    simp only [stepBound, List.map_cons, List.sum_cons] at h2 ⊢
    omega

/-- **Every schedule terminates**: a schedule in which every selection names a live task (an
enabled atomic action of an unfinished operation) has at most `stepBound` elements — a number that
depends only on the sizes of the operand trees, not on the schedule, the cache policy, or the
other operations. Hence every maximal run is finite. -/
theorem enabled_schedule_bounded {p : Policy} (pok : p.OK) (st : StC) (jobs : List Job)
    (hinv : InvC st) (hops : OperandsOK st.store jobs) (sched : List Sel)
    (hen : (Cfg.init st jobs).allEnabled p sched = true) (size : Job → Nat)
    (hsize : ∀ j ts, j ∈ jobs → DenotesLC st.store j.operands ts → sizeSum ts ≤ size j) :
    sched.length ≤ stepBound (jobs.map size) := by
  obtain ⟨Ts, N, hj⟩ := jobsOK_of_operands hops
  obtain ⟨N', _, _, hlen⟩ := Cfg.run_good (p := p) pok sched (init_good hinv hj)
  have := hlen hen
  have := hj.bound size hsize
  omega

/-- a run is stuck (no selection enabled) exactly when all operations have returned: there is no
deadlock -/
theorem stuck_iff_done (c : Cfg) : (∀ sel, c.enabled sel = false) ↔ c.allDone = true :=
  (Cfg.allDone_iff_none_enabled c).symm

/-- a complete schedule exists (and by `enabled_schedule_bounded` every way of extending a
schedule by enabled selections reaches one) -/
theorem complete_schedule_exists {p : Policy} (pok : p.OK) (st : StC) (jobs : List Job)
    (hinv : InvC st) (hops : OperandsOK st.store jobs) :
    ∃ sched, (Cfg.init st jobs).allEnabled p sched = true ∧
      ((Cfg.init st jobs).run p sched).allDone = true := by
  obtain ⟨Ts, N, hj⟩ := jobsOK_of_operands hops
  exact Cfg.complete_exists pok N (init_good hinv hj)

/-! ## non-vacuity: six operations on a concrete three-level store -/

def exX2n : CNode := .node 2 .top true .top
/-- `(x0 ∧ x1) ∨ x2` -/
def exF : Edge := ⟨false, .node 0 (.node 1 .top false exX2n) false exX2n⟩
def exG1 : CNode := .node 1 exX2n true exX2n
/-- `x0 ⊕ x1 ⊕ x2` (the else-edges carry complement tags) -/
def exG : Edge := ⟨false, .node 0 exG1 true exG1⟩
/-- `¬(x1 ⊕ x2)`: a complemented edge to the node of `x1 ⊕ x2` -/
def exH : Edge := ⟨true, exG1⟩

/-- `#0 = x2`, `#1 = x1 ∨ x2`, `#2 = F`, `#3 = x1 ⊕ x2`, `#4 = G` -/
def exStore : StoreC := (internE (internE ⟨#[]⟩ exF).1 exG).1

example : exStore.nodes =
    #[some ⟨2, .term, ⟨true, .term⟩⟩, some ⟨1, .term, ⟨false, .inner 0⟩⟩,
      some ⟨0, .inner 1, ⟨false, .inner 0⟩⟩, some ⟨1, .inner 0, ⟨true, .inner 0⟩⟩,
      some ⟨0, .inner 3, ⟨true, .inner 3⟩⟩] := by decide +kernel

theorem ex_empty_unique : (⟨#[]⟩ : StoreC).Unique := by
  intro i j n h; simp [StoreC.get?] at h
theorem ex_empty_nored : (⟨#[]⟩ : StoreC).NoRed := by
  intro i n h; simp [StoreC.get?] at h

theorem exStore_unique : exStore.Unique := internE_unique _ _ (internE_unique _ _ ex_empty_unique)
theorem exStore_nored : exStore.NoRed := internE_nored _ _ (internE_nored _ _ ex_empty_nored)

def exSt : StC := ⟨exStore, [], 0⟩
theorem exSt_inv : InvC exSt := ⟨exStore_unique, CacheOKC.nil _⟩

def eF : EdgeC := ⟨false, .inner 2⟩
def eG : EdgeC := ⟨false, .inner 4⟩
def eH : EdgeC := ⟨true, .inner 3⟩

theorem exStore_x2n : DenN exStore (.inner 0) exX2n :=
  .inner (by decide +kernel : exStore.get? 0 = some ⟨2, .term, ⟨true, .term⟩⟩) .term .term
theorem exStore_F : DenotesC exStore eF exF :=
  ⟨rfl, .inner (by decide +kernel : exStore.get? 2 = some ⟨0, .inner 1, ⟨false, .inner 0⟩⟩)
    (.inner (by decide +kernel : exStore.get? 1 = some ⟨1, .term, ⟨false, .inner 0⟩⟩) .term
      exStore_x2n) exStore_x2n⟩
theorem exStore_G1 : DenN exStore (.inner 3) exG1 :=
  .inner (by decide +kernel : exStore.get? 3 = some ⟨1, .inner 0, ⟨true, .inner 0⟩⟩)
    exStore_x2n exStore_x2n
theorem exStore_G : DenotesC exStore eG exG :=
  ⟨rfl, .inner (by decide +kernel : exStore.get? 4 = some ⟨0, .inner 3, ⟨true, .inner 3⟩⟩)
    exStore_G1 exStore_G1⟩
theorem exStore_H : DenotesC exStore eH exH := ⟨rfl, exStore_G1⟩

/-- a lossy direct-mapped cache: one bucket per operand count -/
def exPol : Policy := Policy.dm 4 (fun k => k.2.length) (fun _ => true)
theorem exPol_ok : exPol.OK := Policy.dm_ok _ _ _

/-- operation 0: `F ⊕ G` with split depth 2 (forks at level 0 **and** in both branches at level
1); 1: `G ↔ F` with the sequential recursor; 2: `F ∨ G`, split depth 1; 3: `G ⊕ F`, split depth 1;
4: `ite F G H`, split depth 1; 5: `ite G F F` sequential (a terminal case of `apply_ite`) -/
def exJobs : List Job :=
  [.bin 2 .xor eF eG, .bin 0 .equiv eG eF, .bin 1 .or eF eG, .bin 1 .xor eG eF,
   .ite 1 eF eG eH, .ite 0 eG eF eF]

theorem exFG : DenotesLC exStore [eF, eG] [exF, exG] := .two exStore_F exStore_G
theorem exGF : DenotesLC exStore [eG, eF] [exG, exF] := .two exStore_G exStore_F
theorem exFGH : DenotesLC exStore [eF, eG, eH] [exF, exG, exH] :=
  .three exStore_F exStore_G exStore_H
theorem exGFF : DenotesLC exStore [eG, eF, eF] [exG, exF, exF] :=
  .three exStore_G exStore_F exStore_F

theorem exOps : OperandsOK exSt.store exJobs := by
  intro j hj
  simp only [exJobs, List.mem_cons, List.mem_nil_iff, or_false] at hj
  rcases hj with h | h | h | h | h | h <;> subst h
  · exact ⟨_, exFG⟩
  · exact ⟨_, exGF⟩
  · exact ⟨_, exFG⟩
  · exact ⟨_, exGF⟩
  · exact ⟨_, exFGH⟩
  · exact ⟨_, exGFF⟩

abbrev exCfg : Cfg := Cfg.init exSt exJobs

/-- 30 rounds over the six operations; the paths alternate between the sub-tasks -/
def exSched : List Sel :=
  (List.range 30).flatMap fun k =>
    [⟨0, [k % 2 == 0, k % 3 == 0]⟩, ⟨1, []⟩, ⟨2, [k % 2 == 1]⟩, ⟨3, [true]⟩,
     ⟨4, [k % 2 == 0]⟩, ⟨5, []⟩]

/-- the number of `par` frames of a task -/
def Task.forks : Task → Nat
  | .seq1 _ _ t => t.forks
  | .seq0 _ _ t => t.forks
  | .par _ t1 t0 => 1 + t1.forks + t0.forks
  | .neg t => t.forks
  | _ => 0

/-- after 36 selections operation 0 has forked three times (level 0, and level 1 in both
branches): four sub-tasks are schedulable independently; operation 1 is two frames deep in the
sequential recursor and holds a *complemented* then-result `¬x2` in its `EdgeDropGuard`;
operation 4 (`ite`) has forked, its else-branch has already returned the complemented edge `¬#3`
and its then-branch was delegated by `apply_ite` to `¬ apply_bin::<Xor>` -/
example : ((exCfg.run exPol (exSched.take 36)).tasks.map Task.forks = [3, 0, 1, 1, 1, 0]) ∧
    (exCfg.run exPol (exSched.take 36)).tasks[1]? =
      some (.neg (.seq1 ⟨(.xor, [.inner 4, .inner 8]), 0⟩ (.bin .xor ⟨false, .inner 0⟩ ⟨true, .inner 3⟩)
        (.seq0 ⟨(.xor, [.inner 2, .inner 6]), 1⟩ ⟨true, .inner 0⟩
          (.call 0 (.bin .xor ⟨false, .inner 0⟩ ⟨true, .inner 0⟩))))) ∧
    (exCfg.run exPol (exSched.take 36)).tasks[4]? =
      some (.par ⟨(.ite, [.inner 4, .inner 8, .inner 7]), 0⟩
        (.neg (.seq1 ⟨(.xor, [.inner 2, .inner 6]), 1⟩ (.bin .xor ⟨false, .inner 0⟩ ⟨true, .inner 0⟩)
          (.call 0 (.bin .xor ⟨false, .term⟩ ⟨false, .inner 0⟩))))
        (.ret ⟨true, .inner 3⟩)) := by decide +kernel

theorem exDone : (exCfg.run exPol exSched).allDone = true := by decide +kernel

/-- the results: `F ⊕ G = ¬#8`, `G ↔ F = #8` (same node, other tag), `F ∨ G = #9`, `G ⊕ F = ¬#8`,
`ite F G H = #7`, `ite G F F = F = #2`; five nodes were created, the lossy cache kept two entries -/
example : (exCfg.run exPol exSched).tasks =
      [.ret ⟨true, .inner 8⟩, .ret ⟨false, .inner 8⟩, .ret ⟨false, .inner 9⟩, .ret ⟨true, .inner 8⟩,
       .ret ⟨false, .inner 7⟩, .ret ⟨false, .inner 2⟩] ∧
    (exCfg.run exPol exSched).st.store.nodes.size = 10 ∧
    (exCfg.run exPol exSched).st.cache.length = 2 := by decide +kernel

/-- `interleaving_invariant` at an intermediate configuration -/
example := interleaving_invariant exPol_ok exSt exJobs exSt_inv exOps (exSched.take 36)

/-- `interleaving_bin_correct`: operation 0's edge (`¬#8`, see above) denotes `F ⊕ G` in the final
store; `interleaving_ite_correct`: operation 4's edge (`#7`) denotes `ite F G H` -/
example := interleaving_bin_correct exPol_ok exSt exJobs exSt_inv exOps exSched exDone 0 2 .xor
  eF eG rfl exF exG exStore_F exStore_G
example := interleaving_ite_correct exPol_ok exSt exJobs exSt_inv exOps exSched exDone 4 1
  eF eG eH rfl exF exG exH exStore_F exStore_G exStore_H

/-- `interleaving_vs_sequential` for operations 0 and 4 against the model with the exact cache; the
sequential runs from the start state return `¬#7` and `#6` — the same trees in other slots —,
the re-runs in the final state return the machine's edges `¬#8` and `#7` -/
example := interleaving_vs_sequential exPol_ok exSt exJobs exSt_inv exOps exSched exDone 0
  (.bin 2 .xor eF eG) rfl [exF, exG] _ exFG rfl Policy.exact_ok 24 (by decide)
example := interleaving_vs_sequential exPol_ok exSt exJobs exSt_inv exOps exSched exDone 4
  (.ite 1 eF eG eH) rfl [exF, exG, exH] _ exFGH rfl Policy.exact_ok 31 (by decide)
example : (Job.seq Policy.exact 24 exSt (.bin 2 .xor eF eG)).2 = ⟨true, .inner 7⟩ ∧
    (Job.seq Policy.exact 31 exSt (.ite 1 eF eG eH)).2 = ⟨false, .inner 6⟩ ∧
    (Job.seq Policy.exact 24 (exCfg.run exPol exSched).st (.bin 2 .xor eF eG)).2 = ⟨true, .inner 8⟩ ∧
    (Job.seq Policy.exact 31 (exCfg.run exPol exSched).st (.ite 1 eF eG eH)).2 = ⟨false, .inner 7⟩ := by
  decide +kernel

/-- `sequential_schedule_is_model`: operation 1 alone is `applyOpS .equiv`, an `ite` alone is
`iteS` -/
example := sequential_schedule_is_model exPol_ok exSt (.bin 0 .equiv eG eF) rfl exSt_inv _ exGF 24
  (by decide)
example := sequential_schedule_is_model exPol_ok exSt (.ite 0 eF eG eH) rfl exSt_inv _ exFGH 31
  (by decide)

/-- `same_function_same_edge`: operations 0 (`F ⊕ G`, parallel) and 3 (`G ⊕ F`) -/
example := same_function_same_edge exPol_ok exSt exJobs exSt_inv exOps exSched exDone 0 3
  (.bin 2 .xor eF eG) (.bin 1 .xor eG eF) rfl rfl [exF, exG] [exG, exF] _ exFG exGF rfl
  (congrArg some (applyBin_comm .xor exG exF))

/-- `interleaved_inserts_agree`: after 46 selections operations 1 and 3 have both finished `reduce`
for the sub-problem with key `(Xor, [#2, ¬#3])` (level 1 of their recursions) and are both about to
insert the entry `↦ ¬#5` -/
example : (exCfg.run exPol (exSched.take 46)).tasks.map Task.mades =
    [[], [((.xor, [.inner 2, .inner 6]), ⟨true, .inner 5⟩)], [],
     [((.xor, [.inner 2, .inner 6]), ⟨true, .inner 5⟩)], [], []] := by decide +kernel
def exT (i : Nat) : Task := ((exCfg.run exPol (exSched.take 46)).tasks[i]?).getD (.ret eF)
example := interleaved_inserts_agree exPol_ok exSt exJobs exSt_inv exOps (exSched.take 46) 1 3
  (exT 1) (exT 3) (by decide +kernel) (by decide +kernel) (.xor, [.inner 2, .inner 6])
  ⟨true, .inner 5⟩ ⟨true, .inner 5⟩ (by decide +kernel) (by decide +kernel)

/-- the schedule without the selections that were not enabled -/
def prune (p : Policy) : Cfg → List Sel → List Sel
  | _, [] => []
  | c, s :: ss => if c.enabled s then s :: prune p (c.step p s) ss else prune p c ss

/-- `enabled_schedule_bounded`: the enabled selections of `exSched`; the theorem bounds every such
schedule by `6 * (W 33 + 1)` -/
example : exCfg.allEnabled exPol (prune exPol exCfg exSched) = true := by decide +kernel
example := enabled_schedule_bounded exPol_ok exSt exJobs exSt_inv exOps (prune exPol exCfg exSched)
  (by decide +kernel) (fun _ => 33) (by
    intro j ts hj hts
    simp only [exJobs, List.mem_cons, List.mem_nil_iff, or_false] at hj
    rcases hj with h | h | h | h | h | h <;> subst h
    · rw [DenotesLC.functional hts exFG]; decide
    · rw [DenotesLC.functional hts exGF]; decide
    · rw [DenotesLC.functional hts exFG]; decide
    · rw [DenotesLC.functional hts exGF]; decide
    · rw [DenotesLC.functional hts exFGH]; decide
    · rw [DenotesLC.functional hts exGFF]; decide)

example := complete_schedule_exists exPol_ok exSt exJobs exSt_inv exOps
example := (stuck_iff_done (exCfg.run exPol exSched)).mpr exDone

end OxiddModel.Bcdd.Threads
