import OxiddModel.Bcdd.CountSHistory

/-!
# Headline theorems for property C12, cache half, complement-edge BDDs (BCDD)

Property text: `sat_count(vars)` is exact "whether the count cache is fresh or has been reused
across other handles, garbage collections, reorderings and different variable counts".

`Bcdd/SatCount.lean` proves the tag-pushing recursion exact on *trees* (no cache),
`Bcdd/CountS.lean` the memoised recursion over node ids for ONE call (`satCountC_spec`). Here the
history theorems of `Bdd/PropertiesC12S.lean` are established for the complement-edge manager of
`Bcdd/CountSHistory.lean`:

* `CacheValid m c` — the invariant: the cache's epoch is not ahead of `gc_count`, and *if it is
  current* every entry `(tag, id) ↦ n` is the count, under that tag, of the node `id` names now;
* `valid_preserved` — every step of a history with atomic collections keeps the invariant;
* `count_history_exact` — over every such history every `count` returns the exact count (the
  specification `SpecAll` mentions the manager only, no cache);
* `count_cache_transparent` — the results do not depend on the initial cache or on `cache_all`;
* negative witnesses on concrete stores: `clear_vars_not_stored_wrong`, `free_without_epoch_wrong`,
  `count_during_collection_wrong` (the known finding `KF-countcache-during-collection`: the code as
  it is; `Manager::gc` and `SatCountCache` are the same for all rule sets, so the interleaving that
  was reproduced for BDDs applies verbatim), and — specific to complement edges —
  `id_key_tagged_count_wrong`: a cache keyed by the node id alone that stores the count of the
  *tagged* edge (the real code stores the count of the tagged edge, but under the key
  `id | tag << 31`) answers the complement of a counted function with the count of the function.

Atomicity assumption: `HOp.Atomic` (no bare `gcFree`), exactly as for BDDs.
-/
namespace OxiddModel.Bcdd.CountS
open OxiddModel.Bcdd OxiddModel.Bcdd.CNode OxiddModel.Bcdd.Refine

/-- **The invariant of the long-lived cache.** `SatCountCache` doc: "The `map` should only be
considered valid if `epoch` is `Manager::gc_count()`". -/
def CacheValid (m : Mgr) (c : CountCacheC) : Prop :=
  c.epoch ≤ m.gcCount ∧ (c.epoch = m.gcCount → CacheOKC m.store c)

/-- invariant of a history state -/
def HInv (st : HState) : Prop := st.mgr.HandlesOK ∧ CacheValid st.mgr st.cache

/-- number of assignments of the levels `0, …, N-1` satisfying the edge `a`, by enumeration (the
reference of `Bcdd.satCount_exact`) -/
def models (N : Nat) (a : Edge) : Nat := cntF (fun τ => a.eval τ) (fun _ => false) 0 N

/-- `clear_if_invalid` re-establishes validity whenever `vars` or the epoch changed (and keeps it
otherwise) -/
theorem clearIfInvalid_valid (m : Mgr) (c : CountCacheC) (vars : Nat) (h : CacheValid m c) :
    CacheValid m (c.clearIfInvalid m.gcCount vars) ∧
    CacheOKC m.store (c.clearIfInvalid m.gcCount vars) := by
  obtain ⟨h1, h2, _, _⟩ := clearIfInvalidC_spec m.store c m.gcCount vars h.2
  exact ⟨⟨by omega, fun _ => h1⟩, h1⟩

/-- the manager part of a step does not depend on the cache -/
def HOp.stepMgr : HOp → Mgr → Mgr
  | .ext s' e, m => { m with store := s', handles := m.handles ++ [e] }
  | .clone i, m => { m with handles := m.handles ++ (m.handles[i]?).toList }
  | .drop i, m => { m with handles := m.handles.eraseIdx i }
  | .gc s', m => { m with store := s', gcCount := m.gcCount + 1 }
  | .gcBegin, m => { m with gcCount := m.gcCount + 1 }
  | .gcFree s', m => { m with store := s' }
  | .gcEnd, m => m
  | .reorder s' hs', m => { m with store := s', handles := hs', gcCount := m.gcCount + 1 }
  | .addVars k, m => { m with numVars := m.numVars + k }
  | .setCacheAll _, m => m
  | .count _ _ _, m => m

theorem HOp.run_mgr (o : HOp) (st : HState) : (o.run st).1.mgr = o.stepMgr st.mgr := by
  cases o <;> simp only [HOp.run, HOp.stepMgr]
  split <;> rfl

/-- C12 for BCDDs, "reused across other handles, garbage collections, reorderings and different
variable counts": **every step keeps the invariant.** Store extension keeps it because denotations
are stable (`DenN.mono`; ids of *free* slots may be filled, but no cached id is free);
`gc` / `reorder` advance `gc_count`, so the cache is no longer current *before* any id can be
re-issued; `count` runs `clear_if_invalid` first. The only hypothesis on the history is that
collections are atomic (`o.Atomic`: no `gcFree` step); see `count_during_collection_wrong`. -/
theorem valid_preserved (o : HOp) (st : HState) (ha : o.Atomic) (hv : o.Valid st) (hi : HInv st) :
    HInv (o.run st).1 := by
  obtain ⟨hh, hle, hok⟩ := hi
  cases o with
  | ext s' e =>
    obtain ⟨hle', t, hd⟩ := hv
    refine ⟨?_, hle, fun h => (hok h).mono hle'⟩
    intro x hx
    simp only [HOp.run, List.mem_append, List.mem_singleton] at hx
    rcases hx with hx | hx
    · obtain ⟨t', hd'⟩ := hh x hx; exact ⟨t', hd'.mono hle'⟩
    · subst hx; exact ⟨t, hd⟩
  | clone i =>
    refine ⟨?_, hle, hok⟩
    intro x hx
    simp only [HOp.run, List.mem_append] at hx
    rcases hx with hx | hx
    · exact hh x hx
    · cases hg : st.mgr.handles[i]? with
      | none => simp [hg] at hx
      | some y =>
        simp [hg] at hx; subst hx
        exact hh _ (List.mem_of_getElem? hg)
  | drop i =>
    exact ⟨fun x hx => hh x (List.mem_of_mem_eraseIdx hx), hle, hok⟩
  | gc s' =>
    refine ⟨?_, ?_, ?_⟩
    · intro x hx
      obtain ⟨t, hd⟩ := hh x hx
      exact ⟨t, hv x hx t hd⟩
    · simp only [HOp.run]; omega
    · intro h; simp only [HOp.run] at h; omega
  | gcBegin =>
    refine ⟨hh, ?_, ?_⟩
    · simp only [HOp.run]; omega
    · intro h; simp only [HOp.run] at h; omega
  | gcFree s' => exact absurd ha (by simp [HOp.Atomic])
  | gcEnd => exact ⟨hh, hle, hok⟩
  | reorder s' hs' =>
    refine ⟨hv, ?_, ?_⟩
    · simp only [HOp.run]; omega
    · intro h; simp only [HOp.run] at h; omega
  | addVars k => exact ⟨hh, hle, hok⟩
  | setCacheAll b => exact ⟨hh, hle, hok⟩
  | count i vars fuel =>
    simp only [HOp.run]
    cases hg : st.mgr.handles[i]? with
    | none => exact ⟨hh, hle, hok⟩
    | some e =>
      obtain ⟨t, hd⟩ := hh e (List.mem_of_getElem? hg)
      have S := satCountC_spec st.mgr.store st.mgr.rc st.mgr.gcCount fuel st.cache e vars t hok hd
        (hv e t hg hd)
      exact ⟨hh, by simp only; omega, fun _ => S.2.2.1⟩

/-- what a step must return: `none` for everything but `count`; for `count i vars` the tree-level
count of the tree edge handle `i` denotes (regular or complemented), which is `2^(vars-N)` times
the number of models over `N` variables whenever the tree is ordered with all levels below
`N ≤ vars` -/
def CountSpec (m : Mgr) : HOp → Option Nat → Prop
  | .count i vars _, r =>
    match m.handles[i]? with
    | none => r = none
    | some e => ∃ a, DenotesC m.store e a ∧ r = some (satCount vars a) ∧
        (∀ N, N ≤ vars → Ordered 0 a.n → Below N a.n → r = some (2 ^ (vars - N) * models N a))
  | _, r => r = none

/-- the specification of a whole history: defined on the *manager* alone (no cache anywhere) -/
def SpecAll : List HOp → Mgr → List (Option Nat) → Prop
  | [], _, rs => rs = []
  | o :: os, m, r :: rs => CountSpec m o r ∧ SpecAll os (o.stepMgr m) rs
  | _ :: _, _, [] => False

/-- C12 for BCDDs **for all histories**: whatever the interleaving of store-extending operations
(which may recycle freed ids), clones, drops, atomic collections, reorderings, `add_vars`, flips of
`cache_all` and counts with varying `vars` and varying handles (regular and complemented) through
one cache — every `count` returns the exact count. By induction over the history from any state
satisfying the invariant (in particular the initial one, `HInv_new`). -/
theorem count_history_exact : ∀ (ops : List HOp) (st : HState), HInv st → (∀ o, o ∈ ops → o.Atomic) →
    ValidAll ops st → SpecAll ops st.mgr (runAll ops st).2 ∧ HInv (runAll ops st).1 := by
  intro ops
  induction ops with
  | nil => intro st hi _ _; exact ⟨rfl, hi⟩
  | cons o os ih =>
    intro st hi ha hv
    obtain ⟨hv1, hvs⟩ := hv
    have hi' := valid_preserved o st (ha o List.mem_cons_self) hv1 hi
    obtain ⟨h1, h2⟩ := ih (o.run st).1 hi' (fun x hx => ha x (List.mem_cons_of_mem _ hx)) hvs
    simp only [runAll, SpecAll]
    rw [HOp.run_mgr] at h1
    refine ⟨⟨?_, h1⟩, h2⟩
    cases o with
    | count i vars fuel =>
      simp only [CountSpec, HOp.run]
      cases hg : st.mgr.handles[i]? with
      | none => rfl
      | some e =>
        obtain ⟨t, hd⟩ := hi.1 e (List.mem_of_getElem? hg)
        have S := satCountC_spec st.mgr.store st.mgr.rc st.mgr.gcCount fuel st.cache e vars t
          hi.2.2 hd (hv1 e t hg hd)
        exact ⟨t, hd, by simp only [S.1], fun N hN ho hb => by
          simp only [S.2.1 N (fun _ => false) hN ho hb, models]⟩
    | _ => rfl

theorem HInv_new : HInv HState.new := by
  refine ⟨?_, Nat.le_refl _, fun _ => CacheOKC.empty _ _ _ _⟩
  intro e he
  simp [HState.new, Mgr.new] at he

/-- the specification determines the results -/
theorem SpecAll.unique : ∀ (ops : List HOp) (m : Mgr) (r1 r2 : List (Option Nat)),
    SpecAll ops m r1 → SpecAll ops m r2 → r1 = r2 := by
  intro ops
  induction ops with
  | nil => intro m r1 r2 h1 h2; simp only [SpecAll] at h1 h2; rw [h1, h2]
  | cons o os ih =>
    intro m r1 r2 h1 h2
    cases r1 with
    | nil => exact absurd h1 (by simp [SpecAll])
    | cons a as =>
      cases r2 with
      | nil => exact absurd h2 (by simp [SpecAll])
      | cons b bs =>
        simp only [SpecAll] at h1 h2
        obtain ⟨ha, has⟩ := h1
        obtain ⟨hb, hbs⟩ := h2
        rw [ih _ _ _ has hbs]
        congr 1
        cases o with
        | count i vars fuel =>
          cases hg : m.handles[i]? with
          | none => simp only [CountSpec, hg] at ha hb; rw [ha, hb]
          | some e =>
            simp only [CountSpec, hg] at ha hb
            obtain ⟨t, hd, hr, _⟩ := ha
            obtain ⟨t', hd', hr', _⟩ := hb
            rw [hr, hr', DenotesC.functional hd hd']
        | _ => simp only [CountSpec] at ha hb; rw [ha, hb]

/-- the validity of a history does not depend on the cache -/
theorem ValidAll.cache_indep : ∀ (ops : List HOp) (st1 st2 : HState), st1.mgr = st2.mgr →
    ValidAll ops st1 → ValidAll ops st2 := by
  intro ops
  induction ops with
  | nil => intro _ _ _ _; trivial
  | cons o os ih =>
    intro st1 st2 hm hv
    obtain ⟨hv1, hvs⟩ := hv
    refine ⟨?_, ih _ _ (by rw [HOp.run_mgr, HOp.run_mgr, hm]) hvs⟩
    cases o <;> simp only [HOp.Valid] at hv1 ⊢ <;> first | exact hv1 | (rw [← hm]; exact hv1)

/-- **The cache is transparent**: the same history run with two different caches (content, `vars`,
epoch, flag — anything valid, e.g. a fresh cache versus one that has been through any other
history) returns the same counts. -/
theorem count_cache_transparent (ops : List HOp) (m : Mgr) (c1 c2 : CountCacheC)
    (hh : m.HandlesOK) (h1 : CacheValid m c1) (h2 : CacheValid m c2) (ha : ∀ o, o ∈ ops → o.Atomic)
    (hv : ValidAll ops ⟨m, c1⟩) : (runAll ops ⟨m, c1⟩).2 = (runAll ops ⟨m, c2⟩).2 :=
  SpecAll.unique ops m _ _ (count_history_exact ops ⟨m, c1⟩ ⟨hh, h1⟩ ha hv).1
    (count_history_exact ops ⟨m, c2⟩ ⟨hh, h2⟩ ha (ValidAll.cache_indep ops ⟨m, c1⟩ ⟨m, c2⟩ rfl hv)).1

/-! ## concrete stores: non-vacuity and negative witnesses -/

/-- `x0 ∧ x1` (regular edge to `(0, (1, ⊤, ¬⊤), ¬⊤)`) -/
def gAnd : Edge := ⟨false, exAnd⟩
/-- `x0 ∨ x1` = regular edge to `(0, ⊤, +(1, ⊤, ¬⊤))` -/
def hOr : Edge := ⟨false, .node 0 .top false (.node 1 .top true .top)⟩

/-- `#0 = x1`, `#1 = x0 ∧ x1` -/
def s1 : StoreC := (internE ⟨#[]⟩ gAnd).1
/-- after the handle of `x0 ∧ x1` was dropped and a collection ran: both slots are free -/
def s2 : StoreC := sweepN [] 2 s1
/-- `x0 ∨ x1` built in the recycled slots: `#0 = x1`, `#1 = x0 ∨ x1` — id 1 now names another node -/
def s3 : StoreC := (internE s2 hOr).1

example : s1.nodes = #[some ⟨1, .term, ⟨true, .term⟩⟩, some ⟨0, .inner 0, ⟨true, .term⟩⟩] ∧
    s2.nodes = #[none, none] ∧
    s3.nodes = #[some ⟨1, .term, ⟨true, .term⟩⟩, some ⟨0, .term, ⟨false, .inner 0⟩⟩] := by
  decide +kernel

theorem s1_gAnd : DenotesC s1 ⟨false, .inner 1⟩ gAnd :=
  unfoldC?_denotes (F := 3) (e := ⟨false, .inner 1⟩) (by decide +kernel)
theorem s3_hOr : DenotesC s3 ⟨false, .inner 1⟩ hOr :=
  unfoldC?_denotes (F := 3) (e := ⟨false, .inner 1⟩) (by decide +kernel)

example : satCount 2 gAnd = 1 ∧ models 2 gAnd = 1 ∧ satCount 2 hOr = 3 ∧ models 2 hOr = 3 ∧
    satCount 3 hOr = 6 ∧ satCount 2 (applyNot gAnd) = 3 ∧ models 2 (applyNot gAnd) = 3 := by
  decide +kernel

/-- a history with everything in it: build, count (cache filled: every node, `cache_all`), count
with another `vars`, drop, atomic collection, rebuild in the recycled slots, count, `add_vars`,
reorder (after which handle 0 is a *complemented* edge), counts -/
def exOps : List HOp :=
  [.ext s1 ⟨false, .inner 1⟩, .setCacheAll true, .count 0 2 5, .count 0 3 5, .clone 0, .drop 0,
   .drop 0, .gc s2, .ext s3 ⟨false, .inner 1⟩, .count 0 3 5, .addVars 1, .count 0 2 5,
   .reorder s1 [⟨true, .inner 1⟩, ⟨false, .inner 0⟩, ⟨false, .inner 1⟩], .count 0 2 5, .count 1 2 5,
   .count 2 2 5]

theorem exOps_valid : ValidAll exOps HState.new := validAllB_sound (F := 5) _ _ (by decide +kernel)
theorem exOps_atomic : ∀ o, o ∈ exOps → o.Atomic := by
  intro o ho
  simp only [exOps, List.mem_cons, List.not_mem_nil, or_false] at ho
  rcases ho with h | h | h | h | h | h | h | h | h | h | h | h | h | h | h | h <;> subst h <;> trivial

/-- non-vacuity of `count_history_exact` (and what it predicts: 1, 2, then — same ids, other
function — 6, 3, and after the reordering 3 for `¬(x0 ∧ x1)`, 2 for `x1`, 1 for `x0 ∧ x1`) -/
example := count_history_exact exOps HState.new HInv_new exOps_atomic exOps_valid
example : (runAll exOps HState.new).2 =
    [none, none, some 1, some 2, none, none, none, none, none, some 6, none, some 3, none,
     some 3, some 2, some 1] := by decide +kernel
/-- the cache really is reused, and node 1 has one entry per tag -/
example : (runAll exOps HState.new).1.cache =
    ⟨[((false, 1), 1), ((false, 0), 2), ((true, 1), 3), ((true, 0), 2)], 2, 2, true⟩ := by
  decide +kernel

example : HInv ((HOp.gc s2).run ⟨⟨s1, 0, 2, []⟩, ⟨[((false, 1), 1)], 2, 0, true⟩⟩).1 := by
  refine valid_preserved (.gc s2) _ trivial (fun _ he => (by cases he)) ⟨fun _ he => (by cases he),
    Nat.le_refl _, fun _ tag id n hm => ?_⟩
  have hm' : ((tag, id), n) = ((false, 1), 1) := by simpa using hm
  cases hm'
  exact ⟨exAnd, s1_gAnd.2, by decide⟩
example := count_cache_transparent exOps Mgr.new CountCacheC.new ⟨[], 9, 0, true⟩
  HInv_new.1 HInv_new.2 ⟨Nat.le_refl _, fun _ => CacheOKC.empty _ _ _ _⟩ exOps_atomic exOps_valid
example := clearIfInvalid_valid Mgr.new CountCacheC.new 3 HInv_new.2

/-! ### (a) `clear_if_invalid` that does not store the new `vars` -/

/-- seeded `R3-C12-countcache-vars-not-updated` (the struct is shared by all rule sets) -/
def clearIfInvalidNoVars (c : CountCacheC) (gcCount vars : Nat) : CountCacheC :=
  if gcCount ≠ c.epoch then { c with epoch := gcCount, map := [] }
  else if vars ≠ c.vars then { c with vars := vars, map := [] }
  else c

def satCountNoVars (s : StoreC) (rc : Nat → Nat) (gcCount fuel : Nat) (c : CountCacheC) (e : EdgeC)
    (vars : Nat) : CountCacheC × Nat :=
  innerC s rc (2 ^ vars) fuel (clearIfInvalidNoVars c gcCount vars) e

/-- **(a)** `sat_count(¬f, 2)`, a collection (nothing to free), `sat_count(¬f, 3)`,
`sat_count(¬f, 2)` again: the third call returns the count for 3 variables (6 instead of 3). With
the real `clear_if_invalid` all three are exact. -/
theorem clear_vars_not_stored_wrong :
    let c0 : CountCacheC := ⟨[], 0, 0, true⟩
    let f : EdgeC := ⟨true, .inner 1⟩
    let r1 := satCountNoVars s1 (fun _ => 1) 0 5 c0 f 2
    let r2 := satCountNoVars s1 (fun _ => 1) 1 5 r1.1 f 3
    let r3 := satCountNoVars s1 (fun _ => 1) 1 5 r2.1 f 2
    DenotesC s1 f (applyNot gAnd) ∧ r1.2 = 3 ∧ r2.2 = 6 ∧ r3.2 = 6 ∧ models 2 (applyNot gAnd) = 3 ∧
    (let q1 := satCountC s1 (fun _ => 1) 0 5 c0 f 2
     let q2 := satCountC s1 (fun _ => 1) 1 5 q1.1 f 3
     let q3 := satCountC s1 (fun _ => 1) 1 5 q2.1 f 2
     q1.2 = 3 ∧ q2.2 = 6 ∧ q3.2 = 3) :=
  ⟨⟨rfl, s1_gAnd.2⟩, by decide +kernel, by decide +kernel, by decide +kernel,
    by decide +kernel, by decide +kernel⟩

/-! ### (b) nodes freed and an id re-issued without `gc_count` advancing -/

/-- count `x0 ∧ x1`, drop it, free its nodes **without advancing `gc_count`** (`gcFree` alone: a
reordering that does not count as a collection, or a collection that advances the counter only
when it is finished), build `x0 ∨ x1` in the recycled slots, count it -/
def wFree : List HOp :=
  [.ext s1 ⟨false, .inner 1⟩, .setCacheAll true, .count 0 2 5, .drop 0, .gcFree s2,
   .ext s3 ⟨false, .inner 1⟩, .count 0 2 5]

/-- **(b)** every step is valid, the last count returns 1, but the handle denotes `x0 ∨ x1` with
3 models; the state before the last count violates the invariant (so `valid_preserved` needs
`Atomic`). -/
theorem free_without_epoch_wrong :
    ValidAll wFree HState.new ∧
    (runAll wFree HState.new).2 = [none, none, some 1, none, none, none, some 1] ∧
    (runAll wFree HState.new).1.mgr.handles = [⟨false, .inner 1⟩] ∧
    (runAll wFree HState.new).1.mgr.store = s3 ∧ DenotesC s3 ⟨false, .inner 1⟩ hOr ∧
    models 2 hOr = 3 ∧ ¬ HInv (runAll wFree.dropLast HState.new).1 := by
  refine ⟨validAllB_sound (F := 5) _ _ (by decide +kernel), by decide +kernel, by decide +kernel,
    by decide +kernel, s3_hOr, by decide +kernel, ?_⟩
  rintro ⟨_, _, hok⟩
  have hst : (runAll wFree.dropLast HState.new).1 =
      ⟨⟨s3, 0, 0, [⟨false, .inner 1⟩]⟩, ⟨[((false, 1), 1), ((false, 0), 2)], 2, 0, true⟩⟩ := by
    decide +kernel
  rw [hst] at hok
  obtain ⟨nd, hd, hn⟩ := hok rfl false 1 1 List.mem_cons_self
  rw [DenN.functional hd s3_hOr.2] at hn
  exact absurd hn (by decide)

/-! ### (c) the code as it is: a count between the two halves of a collection -/

/-- `Manager::gc` of the index manager: `gc_count.fetch_add(1)` first (`gcBegin`), then the levels
are swept (`gcFree`); the collector holds the manager *shared*, so another thread can count and drop
in between -/
def wDuring : List HOp :=
  [.ext s1 ⟨false, .inner 1⟩, .setCacheAll true, .gcBegin, .count 0 2 5, .drop 0, .gcFree s2,
   .ext s3 ⟨false, .inner 1⟩, .count 0 2 5]

/-- **(c)** `KF-countcache-during-collection` for the complement-edge rules: the statement
"`count_history_exact` for histories in which the halves of a collection interleave with other
threads" is FALSE of the model of the code as it is: every step is valid, `gc_count` was advanced
by the collection, and the last count returns 1 for a function with 3 models. -/
theorem count_during_collection_wrong :
    ValidAll wDuring HState.new ∧
    (runAll wDuring HState.new).2 = [none, none, none, some 1, none, none, none, some 1] ∧
    (runAll wDuring HState.new).1.mgr.gcCount = 1 ∧
    (runAll wDuring HState.new).1.mgr.handles = [⟨false, .inner 1⟩] ∧
    (runAll wDuring HState.new).1.mgr.store = s3 ∧ DenotesC s3 ⟨false, .inner 1⟩ hOr ∧
    models 2 hOr = 3 :=
  ⟨validAllB_sound (F := 5) _ _ (by decide +kernel), by decide +kernel, by decide +kernel,
    by decide +kernel, by decide +kernel, s3_hOr, by decide +kernel⟩

/-! ### (d) complement edges: the key must carry the tag -/

/-- `inner` of `sat_count_edge` with the key `node_id` alone (the tag bit not or-ed in), still
storing the count of the *tagged* edge as the real code does -/
def innerIdKey (s : StoreC) (rc : Nat → Nat) (tv : Nat) : Nat → CountCacheC → EdgeC → CountCacheC × Nat
  | 0, c, _ => (c, 0)
  | _+1, c, ⟨tag, .term⟩ => (c, if tag then 0 else tv)
  | fuel+1, c, ⟨tag, .inner i⟩ =>
    match s.get? i with
    | none => (c, 0)
    | some n =>
      let doCache := c.cacheAll || decide (rc i > 1)
      match (if doCache then c.map.lookup (false, i) else none) with
      | some v => (c, v)
      | none =>
        let r1 := innerIdKey s rc tv fuel c ⟨tag, n.t⟩
        let r0 := innerIdKey s rc tv fuel r1.1 ⟨tag != n.e.neg, n.e.tgt⟩
        let v := (r1.2 + r0.2) >>> 1
        (if doCache then r0.1.insert (false, i) v else r0.1, v)

def satCountIdKey (s : StoreC) (rc : Nat → Nat) (gcCount fuel : Nat) (c : CountCacheC) (e : EdgeC)
    (vars : Nat) : CountCacheC × Nat :=
  innerIdKey s rc (2 ^ vars) fuel (c.clearIfInvalid gcCount vars) e

/-- **(d)** count `f = x0 ∧ x1` (1 model), then `¬f` — same node, complemented edge, same epoch,
same `vars` — through the same cache: with the id-only key the second call is answered with the
entry of the first (1 instead of 3); and the other way round (3 instead of 1). The real key
`(tag, id)` gives 1 and 3 in both orders, with two entries for node 1. -/
theorem id_key_tagged_count_wrong :
    let c0 : CountCacheC := ⟨[], 0, 0, true⟩
    let f : EdgeC := ⟨false, .inner 1⟩
    let nf : EdgeC := ⟨true, .inner 1⟩
    DenotesC s1 f gAnd ∧ DenotesC s1 nf (applyNot gAnd) ∧
    models 2 gAnd = 1 ∧ models 2 (applyNot gAnd) = 3 ∧
    (let r1 := satCountIdKey s1 (fun _ => 1) 0 5 c0 f 2
     let r2 := satCountIdKey s1 (fun _ => 1) 0 5 r1.1 nf 2
     r1.2 = 1 ∧ r2.2 = 1) ∧
    (let r1 := satCountIdKey s1 (fun _ => 1) 0 5 c0 nf 2
     let r2 := satCountIdKey s1 (fun _ => 1) 0 5 r1.1 f 2
     r1.2 = 3 ∧ r2.2 = 3) ∧
    (let q1 := satCountC s1 (fun _ => 1) 0 5 c0 f 2
     let q2 := satCountC s1 (fun _ => 1) 0 5 q1.1 nf 2
     let q3 := satCountC s1 (fun _ => 1) 0 5 q2.1 f 2
     q1.2 = 1 ∧ q2.2 = 3 ∧ q3.2 = 1 ∧
     q3.1.map = [((true, 1), 3), ((true, 0), 2), ((false, 1), 1), ((false, 0), 2)]) :=
  ⟨s1_gAnd, ⟨rfl, s1_gAnd.2⟩, by decide +kernel, by decide +kernel, by decide +kernel,
    by decide +kernel, by decide +kernel⟩

end OxiddModel.Bcdd.CountS
