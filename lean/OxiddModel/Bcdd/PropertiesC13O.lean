import OxiddModel.Bcdd.PickSO
import OxiddModel.Bcdd.Properties

/-!
# C13 for BCDD at store level under an arbitrary variable order

Headline theorems about `pickCubeS` (the vector of `pick_cube`, indexed by **variable**) and
`pickCubeDdS` (`pick_cube_dd` built in the store) of `Bcdd/PickSO.lean`, for every store `s`,
every order `l2v = level_to_var` with `OrderOK l2v n`, every choice function, every edge `x`
denoting a normal-form tree `a` whose levels are below `n`, every sufficient fuel.

A function over *variables* is `fun ρ => a.eval (fun l => ρ (l2v l))`: the diagram tests levels,
the variable tested at level `l` is `l2v l`.
-/
namespace OxiddModel.Bcdd.C13O
open OxiddModel.Bcdd OxiddModel.Bcdd.CNode OxiddModel.Bcdd.Refine OxiddModel.PickO
open OxiddModel.Bcdd.PickSO

/-- the canonical completion of a vector: don't-cares (and out-of-range variables) are `false` -/
def completion (v : Vec) (x : Nat) : Bool :=
  match v[x]? with
  | some (some b) => b
  | _ => false

theorem completion_agree (v : Vec) : Agree (completion v) v := by
  intro x b h; simp [completion, h]

theorem pickCubeS_none_iff_false (s : StoreC) (l2v : Nat → Nat) (n : Nat) (choice : Nat → Bool)
    (fuel : Nat) (x : EdgeC) (a : Edge) (hd : DenotesC s x a) :
    pickCubeS s l2v n choice fuel x = none ↔ a = terminal false := by
  obtain ⟨xn, xt⟩ := x
  obtain ⟨an, at'⟩ := a
  obtain ⟨e1, e2⟩ := hd
  simp only at e1 e2
  subst e1
  cases e2 with
  | term => cases xn <;> simp [pickCubeS, terminal]
  | inner _ _ _ => simp [pickCubeS, terminal]

/-- the vector has one entry per variable -/
theorem pickCubeS_length (s : StoreC) (l2v : Nat → Nat) (n : Nat) (choice : Nat → Bool)
    (fuel : Nat) (x : EdgeC) (vec : Vec) (h : pickCubeS s l2v n choice fuel x = some vec) :
    vec.length = n := by
  unfold pickCubeS at h
  split at h
  · split at h
    · cases h
    · cases h; simp
  · cases h; simp [writeVec_length]

/-- C13, entries are written at index `level_to_var(level)`: for every decision `(l, c)` of the
walk the entry of **variable** `l2v l` is `c`, and the entry of the variable of every level that
is not on the walk is don't-care. -/
theorem pickCubeS_entries (s : StoreC) (l2v : Nat → Nat) (n : Nat) (ho : OrderOK l2v n)
    (choice : Nat → Bool) (fuel : Nat) (x : EdgeC) (a : Edge) (hd : DenotesC s x a) (ha : a.NF 0)
    (hb : LevelsBelow n a.n) (hf : a.n.size ≤ fuel) (vec : Vec)
    (h : pickCubeS s l2v n choice fuel x = some vec) :
    pickWalkS s choice fuel x = pickPath choice a.neg a.n ∧
    (∀ l c, (l, c) ∈ pickWalkS s choice fuel x → vec[l2v l]? = some (some c)) ∧
    (∀ l, l < n → (∀ p ∈ pickWalkS s choice fuel x, p.1 ≠ l) → vec[l2v l]? = some none) := by
  obtain ⟨xn, xt⟩ := x
  obtain ⟨an, at'⟩ := a
  obtain ⟨e1, e2⟩ := hd
  simp only at e1 e2
  subst e1
  have hw := pickWalkS_eq choice e2 fuel xn hf
  have hinc := pickPath_incr choice at' xn 0 ha.1
  have hbel := pickPath_below choice n at' xn hb
  have hvec : vec = writeVec l2v (toPath (pickPath choice xn at')) (List.replicate n none) := by
    unfold pickCubeS at h
    cases e2 with
    | term =>
      simp only at h
      split at h
      · cases h
      · cases h; rfl
    | inner _ _ _ => simp only [Option.some.injEq] at h; rw [← h, hw]
  refine ⟨hw, ?_, ?_⟩
  · intro l c hm
    rw [hw] at hm
    rw [hvec]
    exact writeVec_get_in ho hinc hbel _ (by simp) (mem_toPath hm)
  · intro l hl hoff
    rw [hw] at hoff
    rw [hvec, writeVec_get_off ho hbel _ hl]
    · have : l2v l < n := ho.1 l hl
      simp [this]
    · intro p hp
      obtain ⟨q, hq, rfl⟩ := List.mem_map.mp hp
      exact hoff q hq

/-- C13 (the cube implies the function), variable-indexed: every total assignment `ρ` of the
**variables** that agrees with the returned vector on its non-don't-care entries — i.e. every
completion of the don't-cares — is a model of the function. -/
theorem pickCubeS_implicant (s : StoreC) (l2v : Nat → Nat) (n : Nat) (ho : OrderOK l2v n)
    (choice : Nat → Bool) (fuel : Nat) (x : EdgeC) (a : Edge) (hd : DenotesC s x a) (ha : a.NF 0)
    (hb : LevelsBelow n a.n) (hf : a.n.size ≤ fuel) (vec : Vec)
    (h : pickCubeS s l2v n choice fuel x = some vec) (ρ : Nat → Bool) (hag : Agree ρ vec) :
    a.eval (fun l => ρ (l2v l)) = true := by
  obtain ⟨hw, hin, _⟩ := pickCubeS_entries s l2v n ho choice fuel x a hd ha hb hf vec h
  have hne : a ≠ terminal false := fun he => by
    rw [(pickCubeS_none_iff_false s l2v n choice fuel x a hd).mpr he] at h; cases h
  refine pickPath_implies choice a.n a.neg ha.2 hne _ ?_
  intro p hp
  rw [← hw] at hp
  exact hag _ _ (hin p.1 p.2 hp)

/-- C13 (`None` exactly for the unsatisfiable function), over **variable** assignments. -/
theorem pickCubeS_none_iff (s : StoreC) (l2v : Nat → Nat) (n : Nat) (ho : OrderOK l2v n)
    (choice : Nat → Bool) (fuel : Nat) (x : EdgeC) (a : Edge) (hd : DenotesC s x a) (ha : a.NF 0)
    (hb : LevelsBelow n a.n) (hf : a.n.size ≤ fuel) :
    pickCubeS s l2v n choice fuel x = none ↔ ∀ ρ : Nat → Bool, a.eval (fun l => ρ (l2v l)) = false := by
  constructor
  · intro h ρ
    rw [(pickCubeS_none_iff_false s l2v n choice fuel x a hd).mp h]; simp
  · intro h
    cases hv : pickCubeS s l2v n choice fuel x with
    | none => rfl
    | some vec =>
      have := pickCubeS_implicant s l2v n ho choice fuel x a hd ha hb hf vec hv _ (completion_agree vec)
      rw [h] at this; cases this

/-- C13 (choices honoured): every decision of the store walk either is the caller's choice for
that level or is forced — keeping the decisions above it and flipping it leaves no model. -/
theorem pickCubeS_choice (s : StoreC) (choice : Nat → Bool) (fuel : Nat) (x : EdgeC) (a : Edge)
    (hd : DenotesC s x a) (hf : a.n.size ≤ fuel) (pre : List (Nat × Bool)) (p : Nat × Bool)
    (post : List (Nat × Bool)) (h : pickWalkS s choice fuel x = pre ++ p :: post) :
    p.2 = choice p.1 ∨ ∀ σ, Sat σ pre → σ p.1 = (!p.2) → a.eval σ = false := by
  obtain ⟨xn, xt⟩ := x
  obtain ⟨an, at'⟩ := a
  obtain ⟨e1, e2⟩ := hd
  simp only at e1 e2
  subst e1
  rw [pickWalkS_eq choice e2 fuel xn hf] at h
  exact pickPath_choice choice at' xn pre p post h

/-- one step of the walk: at a node, the value is `false` if the then-cofactor is `⊥`, else `true`
if the else-cofactor is `⊥`, else the caller's choice **for the level of that node**; the
cofactors carry the tag of the incoming edge. -/
theorem pickWalkS_step (s : StoreC) (choice : Nat → Bool) (fuel : Nat) (tag : Bool) (i : Nat)
    (nd : NodeC) (hi : s.get? i = some nd) :
    pickWalkS s choice (fuel+1) ⟨tag, .inner i⟩ =
      (nd.level, decideS ⟨tag, nd.t⟩ ⟨tag != nd.e.neg, nd.e.tgt⟩ (choice nd.level)) ::
        pickWalkS s choice fuel
          (if decideS ⟨tag, nd.t⟩ ⟨tag != nd.e.neg, nd.e.tgt⟩ (choice nd.level)
           then ⟨tag, nd.t⟩ else ⟨tag != nd.e.neg, nd.e.tgt⟩) := by
  simp only [pickWalkS, hi]

/-! ## negative witness: writing at index `level` is wrong under a non-identity order -/

/-- the order `level 0 ↦ var 1, level 1 ↦ var 2, level 2 ↦ var 0` (a 3-cycle, not an involution) -/
def cyc3 (l : Nat) : Nat := if l = 0 then 1 else if l = 1 then 2 else if l = 2 then 0 else l

theorem cyc3_ok : OrderOK cyc3 3 := by
  constructor
  · intro l hl; unfold cyc3; split <;> (try split) <;> (try split) <;> omega
  · intro l l' hl hl'
    have : l = 0 ∨ l = 1 ∨ l = 2 := by omega
    have : l' = 0 ∨ l' = 1 ∨ l' = 2 := by omega
    rcases ‹l = 0 ∨ l = 1 ∨ l = 2› with h | h | h <;> rcases ‹l' = 0 ∨ l' = 1 ∨ l' = 2› with h' | h' | h' <;>
      subst h <;> subst h' <;> simp [cyc3]

/-- store with the single node `(level 0, ⊤, ¬⊤)`: the positive literal of the variable at level 0 -/
def sLit : StoreC := ⟨#[some ⟨0, .term, ⟨true, .term⟩⟩]⟩
def xLit : EdgeC := ⟨false, .inner 0⟩
def aLit : Edge := ⟨false, .node 0 .top true .top⟩

theorem sLit_denotes : DenotesC sLit xLit aLit := ⟨rfl, .inner (by rfl) .term .term⟩

/-- **The index must be `level_to_var(level)`**: for the model that writes at index `level`
(`pickCubeByLevelS`) the implicant theorem is false. Under the 3-cycle order the function
"variable 1" (one node at level 0) yields the vector `[true, -, -]` (variable 0 := true); the
assignment `var0 = true, var1 = false` agrees with it and is not a model. -/
theorem pickCubeByLevelS_not_implicant :
    ∃ (s : StoreC) (l2v : Nat → Nat) (n : Nat) (choice : Nat → Bool) (fuel : Nat) (x : EdgeC)
      (a : Edge) (vec : Vec) (ρ : Nat → Bool),
      OrderOK l2v n ∧ DenotesC s x a ∧ a.NF 0 ∧ LevelsBelow n a.n ∧ a.n.size ≤ fuel ∧
      pickCubeByLevelS s n choice fuel x = some vec ∧ Agree ρ vec ∧
      a.eval (fun l => ρ (l2v l)) = false := by
  refine ⟨sLit, cyc3, 3, fun _ => false, 3, xLit, aLit, [some true, none, none],
    fun v => v == 0, cyc3_ok, sLit_denotes, ?_, ?_, by decide, by decide, ?_, by decide⟩
  · exact ⟨.node (Nat.le_refl _) .top .top, by simp, trivial, trivial⟩
  · exact ⟨by decide, trivial, trivial⟩
  · intro v b h
    match v, h with
    | 0, h => simp at h; simp [h]
    | 1, h => simp at h
    | 2, h => simp at h
    | v+3, h => simp at h

/-- the faithful model on the same input writes at variable 1 -/
example : pickCubeS sLit cyc3 3 (fun _ => false) 3 xLit = some [none, some true, none] := by decide

/-! ## `pick_cube_dd` on the store -/

/-- C13 for `pick_cube_dd` at store level: the store is only extended and stays duplicate-free;
the returned edge denotes a normal-form diagram `c` which is the single cube of the walk (the
same cube as the vector of `pick_cube`), implies the input function, and is `⊥` exactly when the
input is. (Levels only: the diagram does not depend on the variable order.) -/
theorem pickCubeDdS_c13 (s : StoreC) (choice : Nat → Bool) (fuel : Nat) (x : EdgeC) (a : Edge)
    (hd : DenotesC s x a) (ha : a.NF 0) (hf : a.n.size ≤ fuel) :
    ∃ c : Edge,
      s.Le (pickCubeDdS choice fuel s x).1 ∧
      (s.Unique → (pickCubeDdS choice fuel s x).1.Unique) ∧
      DenotesC (pickCubeDdS choice fuel s x).1 (pickCubeDdS choice fuel s x).2 c ∧
      c.NF 0 ∧
      (a ≠ terminal false → ∀ σ, c.eval σ = (pickWalkS s choice fuel x).all (fun p => σ p.1 == p.2)) ∧
      (∀ σ, c.eval σ = true → a.eval σ = true) ∧
      (c = terminal false ↔ a = terminal false) := by
  obtain ⟨xn, xt⟩ := x
  obtain ⟨an, at'⟩ := a
  obtain ⟨e1, e2⟩ := hd
  simp only at e1 e2
  subst e1
  obtain ⟨r1, r2, r3⟩ := pickCubeDdS_spec choice at' s xt fuel xn e2 hf
  refine ⟨pickCubeDDGo choice xn at', r1, r2, r3, pick_dd_nf choice ⟨xn, at'⟩ 0 ha, ?_, ?_, ?_⟩
  · intro hne σ
    rw [pickWalkS_eq choice e2 fuel xn hf]
    exact pickCubeDDGo_eval choice at' xn ha.2 hne σ
  · intro σ hc
    by_cases hne : (⟨xn, at'⟩ : Edge) = terminal false
    · have : at' = .top ∧ xn = true := by
        simp only [terminal, Edge.mk.injEq] at hne; exact ⟨hne.2, by simpa using hne.1⟩
      obtain ⟨h1, h2⟩ := this
      subst h1 h2
      exact hc
    · rw [pickCubeDDGo_eval choice at' xn ha.2 hne σ] at hc
      refine pickPath_implies choice at' xn ha.2 hne σ ?_
      intro p hp
      have := List.all_eq_true.mp hc p hp
      simpa using this
  · constructor
    · intro hc
      apply Classical.byContradiction
      intro hne
      exact (pickCubeDDGo_nf choice at' xn 0 ha hne).2 hc
    · intro he
      have : at' = .top ∧ xn = true := by
        simp only [terminal, Edge.mk.injEq] at he; exact ⟨he.2, by simpa using he.1⟩
      obtain ⟨h1, h2⟩ := this
      subst h1 h2
      rfl

/-! ## non-vacuity -/

/-- a store for `f = (var at level 0) XOR (var at level 1)` with a complemented else edge: slot 0 is
`(1, ⊤, ¬⊤)` = level-1 literal, slot 1 is `(0, slot 0, ¬slot 0)` -/
def sXor : StoreC := ⟨#[some ⟨1, .term, ⟨true, .term⟩⟩, some ⟨0, .inner 0, ⟨true, .inner 0⟩⟩]⟩
def aXor : Edge := ⟨true, .node 0 (.node 1 .top true .top) true (.node 1 .top true .top)⟩

theorem sXor_denotes : DenotesC sXor ⟨true, .inner 1⟩ aXor :=
  ⟨rfl, .inner (by rfl) (.inner (by rfl) .term .term) (.inner (by rfl) .term .term)⟩

theorem aXor_nf : aXor.NF 0 :=
  ⟨.node (Nat.le_refl _) (.node (by omega) .top .top) (.node (by omega) .top .top),
   by simp, ⟨by simp, trivial, trivial⟩, ⟨by simp, trivial, trivial⟩⟩

/-- complemented root, 3-cycle order, choice `true` at level 0: the walk goes through the
complemented then-cofactor (`¬ lit1`, forced `false` at level 1); the entries land at variables
`1` and `2`. -/
example : pickCubeS sXor cyc3 3 (fun _ => true) 5 ⟨true, .inner 1⟩ = some [none, some true, some false] := by
  decide

/-- the hypotheses of `pickCubeDdS_c13` (and of the `pickCubeS_*` theorems) are satisfiable on a
non-trivial state: complemented root, two levels, shared node -/
example := pickCubeDdS_c13 sXor (fun _ => true) 7 ⟨true, .inner 1⟩ aXor sXor_denotes aXor_nf (by decide)

example (ρ : Nat → Bool) (h : Agree ρ [none, some true, some false]) :
    aXor.eval (fun l => ρ (cyc3 l)) = true :=
  pickCubeS_implicant sXor cyc3 3 cyc3_ok (fun _ => true) 7 ⟨true, .inner 1⟩ aXor sXor_denotes aXor_nf
    ⟨by decide, ⟨by decide, trivial, trivial⟩, ⟨by decide, trivial, trivial⟩⟩ (by decide) _ (by decide) ρ h

example : pickCubeS sXor cyc3 3 (fun _ => true) 5 ⟨true, .term⟩ = none := by decide

end OxiddModel.Bcdd.C13O
