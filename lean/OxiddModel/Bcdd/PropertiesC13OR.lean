import OxiddModel.Bcdd.PickRO
import OxiddModel.Bcdd.PropertiesC13O

/-!
# C13 / C05 for BCDD `pick_cube_dd` on the counted store

Headlines about `pickCubeDdR` (`Bcdd/PickRO.lean`): the counters are exact after every run, a
successful run is the plain store run, and so the C13 statements of `PropertiesC13O.lean` hold for
the edge it returns; the store stays canonical (duplicate-free and reduced).
-/
namespace OxiddModel.Bcdd.C13O
open OxiddModel.Bcdd OxiddModel.Bcdd.CNode OxiddModel.Bcdd.Refine OxiddModel.Bcdd.Rc
open OxiddModel.Bcdd.PickSO OxiddModel.Bcdd.PickRO

theorem has_of_denotes {s : StoreC} {x : EdgeC} {a : Edge} (h : DenotesC s x a) : s.has x := by
  obtain ⟨xn, xt⟩ := x
  obtain ⟨an, at'⟩ := a
  obtain ⟨_, h2⟩ := h
  simp only at h2
  cases h2 with
  | term => trivial
  | inner hi _ _ => exact ⟨_, hi⟩

theorem isFalseS_of_denotes {s : StoreC} {x : EdgeC} {a : Edge} (h : DenotesC s x a)
    (hne : a ≠ terminal false) : isFalseS x = false := by
  obtain ⟨xn, xt⟩ := x
  obtain ⟨an, at'⟩ := a
  obtain ⟨h1, h2⟩ := h
  simp only at h1 h2
  subst h1
  rw [isFalseS_eq h2]
  exact (isFalse_false_iff _).mpr hne

/-- C13 "the store stays canonical": `pick_cube_dd` keeps the unique table duplicate-free and
reduced (no node with two identical children). -/
theorem pickCubeDdS_canonical (s : StoreC) (choice : Nat → Bool) (fuel : Nat) (x : EdgeC) (a : Edge)
    (hd : DenotesC s x a) (ha : a.NF 0) (hf : a.n.size ≤ fuel) (hu : s.Unique) (hr : s.NoRed) :
    (pickCubeDdS choice fuel s x).1.Unique ∧ (pickCubeDdS choice fuel s x).1.NoRed := by
  obtain ⟨xn, xt⟩ := x
  obtain ⟨an, at'⟩ := a
  obtain ⟨e1, e2⟩ := hd
  simp only at e1 e2
  subst e1
  refine ⟨(pickCubeDdS_spec choice at' s xt fuel xn e2 hf).2.1 hu, ?_⟩
  by_cases hne : (⟨xn, at'⟩ : Edge) = terminal false
  · have : at' = .top := by simp only [terminal, Edge.mk.injEq] at hne; exact hne.2
    subst this
    cases e2
    cases fuel <;> exact hr
  · exact pickCubeDdS_nored choice at' s xt fuel xn hr e2 ha.2 hne hf

/-- C05/C13 **counters exact**: whatever the capacity, the choice function and the fuel, a run of
`pick_cube_dd` from a state with exact counters (for the caller's edges `ext`) ends in a state with
exact counters — for `result :: ext` on success, for `ext` after `OutOfMemory` (every intermediate
cube node that was built is released again); the store is only extended. -/
theorem pickCubeDdR_rc_exact (cap : Nat) (choice : Nat → Bool) (fuel : Nat) (r : RStC) (x : EdgeC)
    (ext : List EdgeC) (h : RcInv r ext) (hx : r.st.store.has x) :
    RcPost r ext (pickCubeDdR cap choice fuel r x) :=
  pickCubeDdR_rc cap choice fuel r x ext h hx

/-- C13 on the counted store: a successful run of `pick_cube_dd` returns an edge `y` with exact
counters that denotes a normal-form diagram `c` which is the cube of the walk of `pick_cube`,
implies the input and is not `⊥`; the store stays canonical; cache and time stamp are untouched. -/
theorem pickCubeDdR_c13 (cap : Nat) (choice : Nat → Bool) (fuel : Nat) (r : RStC) (x : EdgeC)
    (ext : List EdgeC) (a : Edge) (h : RcInv r ext) (hu : r.st.store.Unique) (hr : r.st.store.NoRed)
    (hd : DenotesC r.st.store x a) (ha : a.NF 0) (hne : a ≠ terminal false) (hf : a.n.size ≤ fuel)
    (y : EdgeC) (hy : (pickCubeDdR cap choice fuel r x).1 = some y) :
    RcInv (pickCubeDdR cap choice fuel r x).2 (y :: ext) ∧
    (pickCubeDdR cap choice fuel r x).2.st.store.Unique ∧
    (pickCubeDdR cap choice fuel r x).2.st.store.NoRed ∧
    (pickCubeDdR cap choice fuel r x).2.st.cache = r.st.cache ∧
    ∃ c : Edge, DenotesC (pickCubeDdR cap choice fuel r x).2.st.store y c ∧ c.NF 0 ∧
      c ≠ terminal false ∧
      (∀ σ, c.eval σ = (pickWalkS r.st.store choice fuel x).all (fun p => σ p.1 == p.2)) ∧
      (∀ σ, c.eval σ = true → a.eval σ = true) := by
  have hnf := isFalseS_of_denotes hd hne
  have hpost := pickCubeDdR_rc cap choice fuel r x ext h (has_of_denotes hd)
  obtain ⟨e1, _, e3⟩ := pickCubeDdR_erase cap choice fuel r x hr hnf
  have he := e3 y hy
  obtain ⟨c, _, _, c3, c4, c5, c6, c7⟩ := pickCubeDdS_c13 r.st.store choice fuel x a hd ha hf
  obtain ⟨k1, k2⟩ := pickCubeDdS_canonical r.st.store choice fuel x a hd ha hf hu hr
  rw [he] at c3 k1 k2
  refine ⟨?_, k1, k2, e1, c, c3, c4, fun hc => hne (c7.mp hc), c5 hne, c6⟩
  revert hpost hy
  generalize pickCubeDdR cap choice fuel r x = R
  obtain ⟨o, r'⟩ := R
  intro hy hpost
  simp only at hy
  subst hy
  exact hpost.2

/-- non-vacuity: a counted state built by `var` from the empty manager, then `pick_cube_dd` on the
variable; the hypotheses of `pickCubeDdR_rc_exact` hold along the way -/
example (cap : Nat) (choice : Nat → Bool) (fuel : Nat) :
    match varR cap RStC.empty 0 false with
    | (some v, r) => RcPost r [v] (pickCubeDdR cap choice fuel r v)
    | (none, _) => True := by
  have hemp : RcInv RStC.empty [] :=
    { ext_ok := fun _ h => by cases h
      kids_ok := fun i n h => by simp [RStC.empty, StoreC.get?] at h
      cache_ok := fun _ _ h => by cases h
      rc_eq := fun i n h => by simp [RStC.empty, StoreC.get?] at h }
  have hv := varR_rc (cap := cap) (level := 0) (neg := false) hemp
  revert hv
  generalize varR cap RStC.empty 0 false = R
  obtain ⟨o, r⟩ := R
  intro hv
  cases o with
  | none => trivial
  | some v => exact pickCubeDdR_rc_exact cap choice fuel r v [v] hv.2 (hv.2.ext_ok v List.mem_cons_self)

end OxiddModel.Bcdd.C13O
