import OxiddModel.Bcdd.Uniform
import OxiddModel.Bcdd.Properties

/-!
# Headline theorems for property C13, last clause ("uniform picking never returns a non-model and
# selects models without bias") — complement-edge BDDs, tree level

`pickUniform vars rs f` models `pick_cube_uniform_edge` on a BCDD edge `f = (tag, node)`: the closure
computes the counts of the two **cofactors** `cofactors_node(tag, node) = ((tag, t), (tag ⊕ en, e))`
over all `vars` variables, and `pick_cube_edge::inner` (complement_edge/apply_rec.rs) consults it
only if neither cofactor is `⊥ = ¬⊤`. See `OxiddModel/Bdd/PropertiesC13U.lean` for the vocabulary
(`Frac`, `takeThen`, `cubeProb`, `modelProb`, `fracSum`); here paths are followed with the tag
pushed down: `RootPath f c` — `c` is the decision list of a path from `f` to the terminal reached
with an even number of complements.

`f` ranges over all edges in normal form (`f.NF n`) whose levels are `< vars` (`Below vars f.n`).
-/
namespace OxiddModel.Bcdd
open CNode
open OxiddModel.Bdd (Frac takeThen fracSum natSum cubeWeight bitvecs)

/-- The sampler is `pick_cube` with some choice function. -/
theorem uniform_is_pick (vars : Nat) (rs : List Frac) (f : Edge) (n : Nat) (hf : Ordered n f.n) :
    ∃ choice : Nat → Bool, pickUniform vars rs f = pickCube choice f := by
  obtain ⟨tag, fn⟩ := f
  obtain ⟨c, hc⟩ := uniformPath_as_choice vars hf rs tag
  refine ⟨c, ?_⟩
  unfold pickUniform pickCube
  cases fn with
  | top => rfl
  | node l t en e => simp only; rw [hc]

/-- C13 "uniform picking never returns a non-model" (and nothing exactly for the unsatisfiable
function): via `pick_none_iff_false` and `pick_implies`. -/
theorem uniform_never_nonmodel (vars : Nat) (rs : List Frac) (f : Edge) (n : Nat) (hf : f.NF n) :
    (pickUniform vars rs f = none ↔ ∀ σ, f.eval σ = false) ∧
    (∀ c, pickUniform vars rs f = some c → ∀ σ, Sat σ c → f.eval σ = true) := by
  obtain ⟨choice, hc⟩ := uniform_is_pick vars rs f n hf.1
  rw [hc]
  exact ⟨pick_none_iff_false choice f n hf, fun c hsome σ hσ => pick_implies choice f n hf c hsome σ hσ⟩

/-- The cubes the sampler can return (for some random source in `[0,1)`) are exactly the paths to
the value true. -/
theorem uniform_returnable (vars : Nat) (f : Edge) (n : Nat) (hf : f.NF n) (hv : Below vars f.n)
    (c : List (Nat × Bool)) :
    (∃ rs : List Frac, (∀ r ∈ rs, r.num < r.den) ∧ pickUniform vars rs f = some c) ↔ RootPath f c := by
  obtain ⟨tag, fn⟩ := f
  constructor
  · rintro ⟨rs, _, h⟩
    unfold pickUniform at h
    cases fn with
    | top =>
      cases tag
      · simp at h; subst h; simp [RootPath, RootPathGo]
      · simp at h
    | node l t en e =>
      simp only [Option.some.injEq] at h
      subst h
      exact uniformPath_rootPath vars rs hf.2 tag (by simp [isFalse, isTop])
  · intro hw
    obtain ⟨h1, h2⟩ := drawsFor_spec hf.1 hf.2 hv hw
    refine ⟨drawsFor vars tag fn c, h2, ?_⟩
    unfold pickUniform
    cases fn with
    | top =>
      cases c with
      | nil => simp only [RootPath, RootPathGo] at hw; simp [hw]
      | cons q p => simp [RootPath, RootPathGo] at hw
    | node l t en e => simp only; rw [h1]

/-- C13 "selects models without bias", cube form: for every normal-form edge `f` over `vars`
variables and every cube `c` the sampler can return, with `k = vars - |c|` don't cares,
`cubeProb f c = 2^k / satCount vars f` (cross-multiplied; denominators positive), where
`satCount vars f` is the number of models of `f` — complemented edges included: the tag flips the
counts of both cofactors (`count(¬g) = 2^vars - count(g)`, `satcount_not`). -/
theorem uniform_cube_prob (vars : Nat) (f : Edge) (n : Nat) (hf : f.NF n) (hv : Below vars f.n)
    (c : List (Nat × Bool)) (hc : RootPath f c) :
    (cubeProb vars f c).1 * satCount vars f = 2 ^ (vars - c.length) * (cubeProb vars f c).2 ∧
    0 < (cubeProb vars f c).2 ∧ 0 < satCount vars f ∧ c.length ≤ vars ∧
    (∀ σ, satCount vars f = cntF (fun τ => f.eval τ) σ 0 vars) := by
  have h0 : Ordered 0 f.n := hf.1.mono (Nat.zero_le _)
  obtain ⟨h1, h2⟩ := cubeProbGo_telescope h0 hf.2 hv hc
  have hlen := rootPathGo_length h0 hv (Nat.zero_le _) hc
  refine ⟨?_, h2, satCountGo_pos h0 hf.2 hv f.neg (rootPathGo_ne_false hc), by omega, fun σ => ?_⟩
  · have e : 2 ^ vars = 2 ^ (vars - c.length) * 2 ^ c.length := by
      rw [← Nat.pow_add]; congr 1; omega
    have h1' : ((cubeProb vars f c).1 * satCount vars f) * 2 ^ c.length =
        (2 ^ (vars - c.length) * (cubeProb vars f c).2) * 2 ^ c.length := by
      show ((cubeProbGo vars f.neg f.n c).1 * satCountGo vars f.neg f.n) * 2 ^ c.length = _
      rw [h1, e]; unfold cubeProb; ac_rfl
    exact Nat.eq_of_mul_eq_mul_right (Nat.two_pow_pos _) h1'
  · have := satCount_exact vars vars (Nat.le_refl _) f h0 hv σ
    simpa using this

/-- C13 "selects models without bias", model form: completing the don't cares by fair coin flips,
every satisfying total assignment has probability exactly `1 / satCount vars f`; the only returnable
cube containing `σ` is the path `σ` follows; a non-model has probability `0` and lies in no
returnable cube. -/
theorem uniform_model_prob (vars : Nat) (f : Edge) (n : Nat) (hf : f.NF n) (hv : Below vars f.n)
    (σ : Nat → Bool) :
    (f.eval σ = true →
      (modelProb vars f σ).1 * satCount vars f = (modelProb vars f σ).2 ∧
      0 < (modelProb vars f σ).2 ∧
      RootPath f (pathOf σ f) ∧ Sat σ (pathOf σ f)) ∧
    (∀ c, RootPath f c → Sat σ c → c = pathOf σ f) ∧
    (f.eval σ = false →
      (modelProb vars f σ).1 = 0 ∧ ∀ c, RootPath f c → ¬ Sat σ c) := by
  refine ⟨fun h => ?_, fun c hc hσ => rootPathGo_unique hc σ hσ, fun h => ?_⟩
  · have hw : RootPath f (pathOf σ f) := pathOfGo_rootPath σ f.n f.neg h
    obtain ⟨h1, h2, _, h4, _⟩ := uniform_cube_prob vars f n hf hv _ hw
    refine ⟨?_, Nat.mul_pos h2 (Nat.two_pow_pos _), hw, pathOfGo_sat σ f.n f.neg⟩
    simp only [modelProb]
    rw [h1]; ac_rfl
  · refine ⟨cubeProbGo_pathOf_nonmodel vars σ f.n f.neg h, fun c hc hσ => ?_⟩
    have := rootPathGo_implies hc σ hσ
    rw [show (⟨f.neg, f.n⟩ : Edge) = f from rfl, h] at this; cases this

/-- … hence any two models have the same probability. -/
theorem uniform_no_bias (vars : Nat) (f : Edge) (n : Nat) (hf : f.NF n) (hv : Below vars f.n)
    (σ τ : Nat → Bool) (hσ : f.eval σ = true) (hτ : f.eval τ = true) :
    (modelProb vars f σ).1 * (modelProb vars f τ).2 = (modelProb vars f τ).1 * (modelProb vars f σ).2 := by
  obtain ⟨h1, _⟩ := (uniform_model_prob vars f n hf hv σ).1 hσ
  obtain ⟨h2, _⟩ := (uniform_model_prob vars f n hf hv τ).1 hτ
  rw [← h1, ← h2]; ac_rfl

/-- The probabilities of all returnable cubes sum to `1`; in integers: the weights `2^(don't cares)`
of the returnable cubes sum to the model count. -/
theorem uniform_total (vars : Nat) (f : Edge) (n : Nat) (hf : f.NF n) (hv : Below vars f.n)
    (hs : f ≠ terminal false) :
    (fracSum ((rootPaths f).map (cubeProb vars f))).1 = (fracSum ((rootPaths f).map (cubeProb vars f))).2 ∧
    0 < (fracSum ((rootPaths f).map (cubeProb vars f))).2 ∧
    natSum ((rootPaths f).map (cubeWeight vars)) = satCount vars f ∧
    (rootPaths f).Nodup ∧ (∀ c, c ∈ rootPaths f ↔ RootPath f c) := by
  have h0 : Ordered 0 f.n := hf.1.mono (Nat.zero_le _)
  have hw : natSum ((rootPaths f).map (cubeWeight vars)) = satCount vars f :=
    rootPathsGo_weight h0 hv (Nat.zero_le _) f.neg
  have hpos : 0 < satCount vars f := satCountGo_pos h0 hf.2 hv f.neg ((isFalse_false_iff f).mpr hs)
  obtain ⟨h1, h2⟩ := Bdd.fracSum_weights (satCount vars f) (cubeProb vars f) (cubeWeight vars) (rootPaths f)
    (fun c hc => by
      obtain ⟨a, b, _⟩ := uniform_cube_prob vars f n hf hv c (mem_rootPathsGo.mp hc)
      exact ⟨a, b⟩)
  refine ⟨?_, h2, hw, rootPathsGo_nodup f.n f.neg, fun c => mem_rootPathsGo⟩
  rw [hw, Nat.mul_comm] at h1
  exact Nat.eq_of_mul_eq_mul_left hpos h1

/-- No division by zero: whenever the closure is consulted, both counts are positive. -/
theorem uniform_no_zero_div (vars : Nat) (rs : List Frac) (f : Edge) (n : Nat) (hf : f.NF n)
    (hv : Below vars f.n) :
    ∀ p ∈ uniformCounts vars rs f.neg f.n, 0 < p.1 ∧ 0 < p.2 ∧ 0 < p.1 + p.2 := by
  intro p hp
  obtain ⟨a, b⟩ := uniformCounts_pos hf.1 hf.2 hv rs f.neg p hp
  exact ⟨a, b, by omega⟩

/-! ## negative witness: the seeded defect `C13-uniform-ignores-tag` -/

/-- `¬(x0 ∧ x1 ∧ x2)`: a complemented edge to the node of `x0 ∧ x1 ∧ x2` -/
def nand3 : Edge := ⟨true, .node 0 (.node 1 (.node 2 .top true .top) true .top) true .top⟩

theorem nand3_nf : nand3.NF 0 := by
  refine ⟨.node (by omega) (.node (by omega) (.node (by omega) .top .top) .top) .top, ?_⟩
  simp [nand3, Reduced]

theorem nand3_below : Below 3 nand3.n := by simp [nand3, Below]

/-- The sampler that ignores the tag of the incoming edge when computing `t_count`/`e_count`
(counting the stored children instead of the cofactors) is **biased**: on `¬(x0∧x1∧x2)` (7 models
over 3 variables) the cube `¬x0`, which the correct sampler returns with probability `8/14 = 4/7`
(4 of the 7 models), has probability `0`: at the root the defective closure computes
`t_count = count(x1∧x2) = 2`, `e_count = count(¬⊤) = 0` and therefore takes the then-branch for
**every** random number in `[0,1)`. -/
theorem uniform_ignoring_tag_biased :
    RootPath nand3 [(0, false)] ∧
    satCount 3 nand3 = 7 ∧
    cubeProb 3 nand3 [(0, false)] = (8, 14) ∧
    (cubeProbNoTagGo 3 nand3.neg nand3.n [(0, false)]).1 = 0 ∧
    (∀ rs : List Frac, (∀ r ∈ rs, r.num < r.den) →
      uniformPathNoTag 3 rs nand3.neg nand3.n ≠ [(0, false)]) ∧
    uniformPath 3 [⟨1, 2⟩] nand3.neg nand3.n = [(0, false)] := by
  refine ⟨by simp [RootPath, RootPathGo, nand3], by decide, by decide, by decide, ?_, by decide⟩
  intro rs hrs
  have hr : (rs.headD ⟨0, 1⟩).num < (rs.headD ⟨0, 1⟩).den := by
    cases rs with
    | nil => simp
    | cons r rs => exact hrs r (List.mem_cons_self ..)
  have ht : takeThen (rs.headD ⟨0, 1⟩) (satCountGo 3 false (.node 1 (.node 2 .top true .top) true .top))
      (satCountGo 3 true .top) = true := by
    have e1 : satCountGo 3 false (.node 1 (.node 2 .top true .top) true .top) = 2 := by decide
    have e2 : satCountGo 3 true .top = 0 := by decide
    rw [e1, e2]
    simp only [takeThen, decide_eq_true_eq]
    omega
  simp only [nand3, uniformPathNoTag, ht, pickChoice]
  simp [isFalse, isTop]

/-! ## non-vacuity -/

example :
    rootPaths nand3 = [[(0, true), (1, true), (2, false)], [(0, true), (1, false)], [(0, false)]] ∧
    cubeProb 3 nand3 [(0, true), (1, false)] = (6 * 8, 14 * 12) ∧
    pickUniform 3 [⟨1, 2⟩] nand3 = some [(0, false)] ∧
    pickUniform 3 [⟨1, 3⟩, ⟨1, 2⟩] nand3 = some [(0, true), (1, false)] ∧
    uniformCounts 3 [⟨1, 3⟩, ⟨1, 2⟩] nand3.neg nand3.n = [(6, 8), (4, 8)] ∧
    modelProb 3 nand3 (fun _ => false) = (8, 14 * 4) ∧
    (fracSum ((rootPaths nand3).map (cubeProb 3 nand3))).1 =
      (fracSum ((rootPaths nand3).map (cubeProb 3 nand3))).2 := by decide

example := uniform_is_pick 3 [⟨1, 2⟩] nand3 0 nand3_nf.1
example := uniform_never_nonmodel 3 [⟨1, 2⟩] nand3 0 nand3_nf
example := (uniform_returnable 3 nand3 0 nand3_nf nand3_below [(0, false)]).mpr
  (by simp [RootPath, RootPathGo, nand3])
example := uniform_cube_prob 3 nand3 0 nand3_nf nand3_below [(0, false)]
  (by simp [RootPath, RootPathGo, nand3])
example := (uniform_model_prob 3 nand3 0 nand3_nf nand3_below (fun _ => false)).1 (by decide)
example := (uniform_model_prob 3 nand3 0 nand3_nf nand3_below (fun _ => true)).2.2 (by decide)
example := uniform_no_bias 3 nand3 0 nand3_nf nand3_below (fun _ => false) (fun l => l == 2)
  (by decide) (by decide)
example := uniform_total 3 nand3 0 nand3_nf nand3_below (by decide)
example := uniform_no_zero_div 3 [⟨1, 3⟩, ⟨1, 2⟩] nand3 0 nand3_nf nand3_below

end OxiddModel.Bcdd
