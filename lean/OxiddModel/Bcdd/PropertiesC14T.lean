import OxiddModel.Bcdd.ThresholdS
import OxiddModel.Bcdd.RcSLemmasClean
import OxiddModel.Bcdd.RcSHistoryInv
import OxiddModel.Bcdd.PropertiesC05R

/-!
# C14 — complement-edge BDDs: the out-of-memory threshold is predicted exactly

The BCDD counterpart of `Bdd/PropertiesC14T.lean`, stated directly for the **counted** runs
`applyOpR / iteR / notR` of `Bcdd/RcS.lean` (so each statement can be combined with
`C05R.applyR_rc_exact`: `oom_clean`). For every operation there is a number `needed` — defined
without any reference to the capacity as the growth of the *uncapped* run (`applyOpS`, `iteS`)
from the same state — such that

* `oom_iff_needed`: the capped run reports OutOfMemory **iff** `0 < needed ∧ cap < count + needed`
  (no hypotheses at all: any policy, cache, store, counters, operands, fuel);
* `threshold_exact`: hence `count + needed` is *the* minimal capacity: every capacity below it
  (and ≥ the current count) fails, every capacity from it on succeeds with the uncapped result;
* `needed_eq_fresh` / `needed_cache_independent`: under the invariant, `needed` is
  `fresh store T` for the specified result `T` — the number of **nodes** (not tagged edges) of `T`
  the store does not hold; `fresh_not`: a result and its complement need the same nodes, so the six
  operators derived by complementing need exactly what their kernel needs, and `not` needs nothing
  (`not_never_oom`);
* `oom_iff_fresh`: OutOfMemory iff fewer than `fresh store (applyOp op a b)` slots are free;
* `final_count`: after success exactly `needed` more slots are in use, after failure the store is
  exactly full; `oom_clean`: and the reference counters are exact for the caller's references;
* `applyR_error_clean` / `iteR_error_clean` (the property's "leaves the manager intact"): after
  OutOfMemory at any allocation point the unique table is still hash-consed, reduced and ordered,
  **the apply cache is still sound** (entries added by the completed sub-calls included), the store
  was only extended — so every edge denotes what it denoted —, it is exactly full, and the counters
  are exact for the caller's references.
-/
namespace OxiddModel.Bcdd.C14T
open OxiddModel.Bcdd OxiddModel.Bcdd.Refine OxiddModel.Bcdd.Rc
open OxiddModel.Bdd.Refine (Policy OpTag Key Cache)

/-! ## the eight binary operators -/

/-- **`oom_iff_needed`.** OutOfMemory iff the operation allocates at all and the capacity is below
`count + needed`. No hypotheses. -/
theorem oom_iff_needed (cap : Nat) (p : Policy) (op : Op) (fuel : Nat) (r : RStC) (f g : EdgeC) :
    (applyOpR cap p op fuel r f g).1 = none ↔
      0 < neededApply p op fuel r.st f g ∧ cap < r.st.store.count + neededApply p op fuel r.st f g :=
  (applyOpR_both cap p op fuel r f g).oom_iff

/-- **`oom_iff_free`.** In a store within its capacity: OutOfMemory iff fewer than `needed` slots
are free. -/
theorem oom_iff_free (cap : Nat) (p : Policy) (op : Op) (fuel : Nat) (r : RStC) (f g : EdgeC)
    (hc : r.st.store.count ≤ cap) :
    (applyOpR cap p op fuel r f g).1 = none ↔ cap - r.st.store.count < neededApply p op fuel r.st f g :=
  (applyOpR_both cap p op fuel r f g).oom_iff_free hc

/-- **`threshold_exact`.** `k = count + needed` is the minimal capacity at which the operation
succeeds: all capacities `count ≤ cap < k` fail, all capacities `≥ k` succeed, and then the result
and the final store, cache and time stamp are those of the uncapped run. -/
theorem threshold_exact (p : Policy) (op : Op) (fuel : Nat) (r : RStC) (f g : EdgeC) :
    let k := r.st.store.count + neededApply p op fuel r.st f g
    (∀ cap, r.st.store.count ≤ cap → cap < k → (applyOpR cap p op fuel r f g).1 = none) ∧
    (∀ cap, k ≤ cap →
      (applyOpR cap p op fuel r f g).1 = some (applyOpS p op fuel r.st f g).2 ∧
      (applyOpR cap p op fuel r f g).2.st = (applyOpS p op fuel r.st f g).1) := by
  intro k
  constructor
  · intro cap hc hk
    rw [oom_iff_free cap p op fuel r f g hc]
    omega
  · intro cap hk
    have hc : r.st.store.count ≤ cap := by omega
    apply ((applyOpR_both cap p op fuel r f g).ok_iff hc).mpr
    show neededApply p op fuel r.st f g ≤ cap - r.st.store.count
    omega

/-- the threshold as a single equivalence over all capacities at least the current count -/
theorem success_iff_capacity (cap : Nat) (p : Policy) (op : Op) (fuel : Nat) (r : RStC)
    (f g : EdgeC) (hc : r.st.store.count ≤ cap) :
    (applyOpR cap p op fuel r f g).1.isSome ↔
      r.st.store.count + neededApply p op fuel r.st f g ≤ cap := by
  have h := oom_iff_free cap p op fuel r f g hc
  cases hR : (applyOpR cap p op fuel r f g).1 with
  | none =>
    rw [hR] at h
    simp only [Option.isSome_none, Bool.false_eq_true, false_iff]
    have := h.mp rfl; omega
  | some e =>
    rw [hR] at h
    simp only [Option.isSome_some, true_iff]
    have : ¬ (cap - r.st.store.count < neededApply p op fuel r.st f g) := fun x => by cases h.mpr x
    omega

/-- **`final_count`.** The number of nodes after the capped run: `cap` after a failure (the store
is exactly full), `count + needed` after a success. -/
theorem final_count (cap : Nat) (p : Policy) (op : Op) (fuel : Nat) (r : RStC) (f g : EdgeC)
    (hc : r.st.store.count ≤ cap) :
    (applyOpR cap p op fuel r f g).2.st.store.count =
      if (applyOpR cap p op fuel r f g).1 = none then cap
      else r.st.store.count + neededApply p op fuel r.st f g :=
  (applyOpR_both cap p op fuel r f g).final_count hc

/-- **`needed_eq_fresh`.** Under the invariant, `needed` is the number of **nodes** of the result
that the store does not hold: a function of the store and the result only. -/
theorem needed_eq_fresh {p : Policy} (pok : p.OK) (op : Op) (fuel : Nat) (st : StC) (f g : EdgeC)
    (a b : Edge) (hinv : InvC st) (hr : st.store.NoRed) (hf : DenotesC st.store f a)
    (hg : DenotesC st.store g b) (hfuel : a.size + b.size ≤ fuel) :
    neededApply p op fuel st f g = fresh st.store (applyOp op a b) :=
  neededApply_eq pok op fuel st f g a b hinv hr hf hg hfuel

/-- **nodes, not tagged edges**: entering `¬T` allocates exactly the nodes of `T`; if `T` is stored
through an edge of *either* polarity nothing is needed -/
theorem fresh_counts_nodes (s : StoreC) (T : Edge) :
    fresh s (applyNot T) = fresh s T ∧ fresh s T ≤ innerSize T.n ∧
    (∀ x, s.Unique → s.NoRed → DenotesC s x T → fresh s T = 0 ∧ fresh s (applyNot T) = 0) :=
  ⟨fresh_not s T, fresh_le s T, fun _ hu hr h => ⟨fresh_of_denotes hu hr h, fresh_of_denotes hu hr h.not⟩⟩

/-- the complemented operators need what their kernel needs: e.g. `nand` and `and`, `equiv` and
`xor`, `or` and `nor` -/
theorem needed_complement_pairs {p : Policy} (pok : p.OK) (fuel : Nat) (st : StC) (f g : EdgeC)
    (a b : Edge) (hinv : InvC st) (hr : st.store.NoRed) (hf : DenotesC st.store f a)
    (hg : DenotesC st.store g b) (hfuel : a.size + b.size ≤ fuel) :
    neededApply p .nand fuel st f g = neededApply p .and fuel st f g ∧
    neededApply p .equiv fuel st f g = neededApply p .xor fuel st f g ∧
    neededApply p .or fuel st f g = neededApply p .nor fuel st f g := by
  simp only [needed_eq_fresh pok _ fuel st f g a b hinv hr hf hg hfuel]
  exact ⟨rfl, rfl, rfl⟩

/-- **`needed_cache_independent`.** Two runs from the same store with different cache policies,
different (sound) cache contents, different time stamps and different (sufficient) fuel need the
same number of nodes. -/
theorem needed_cache_independent {p p' : Policy} (pok : p.OK) (pok' : p'.OK) (op : Op)
    (fuel fuel' : Nat) (st st' : StC) (f g : EdgeC) (a b : Edge) (hs : st'.store = st.store)
    (hinv : InvC st) (hinv' : InvC st') (hr : st.store.NoRed)
    (hf : DenotesC st.store f a) (hg : DenotesC st.store g b)
    (hfuel : a.size + b.size ≤ fuel) (hfuel' : a.size + b.size ≤ fuel') :
    neededApply p op fuel st f g = neededApply p' op fuel' st' f g := by
  rw [needed_eq_fresh pok op fuel st f g a b hinv hr hf hg hfuel,
    needed_eq_fresh pok' op fuel' st' f g a b hinv' (hs ▸ hr) (hs ▸ hf) (hs ▸ hg) hfuel', hs]

/-- **`oom_iff_fresh`.** The prediction in terms of the store and the operand trees alone:
OutOfMemory iff fewer slots are free than the result `applyOp op a b` has nodes that are not
stored yet — for every admissible policy and every sound cache. -/
theorem oom_iff_fresh {p : Policy} (pok : p.OK) (cap : Nat) (op : Op) (fuel : Nat) (r : RStC)
    (f g : EdgeC) (a b : Edge) (hinv : InvC r.st) (hr : r.st.store.NoRed)
    (hf : DenotesC r.st.store f a) (hg : DenotesC r.st.store g b)
    (hfuel : a.size + b.size ≤ fuel) (hcap : r.st.store.count ≤ cap) :
    (applyOpR cap p op fuel r f g).1 = none ↔
      cap - r.st.store.count < fresh r.st.store (applyOp op a b) := by
  rw [oom_iff_free cap p op fuel r f g hcap,
    needed_eq_fresh pok op fuel r.st f g a b hinv hr hf hg hfuel]

/-- **`oom_clean`** (C14 with the counters): when the operation fails the store is exactly full,
only extended, and the reference counters are exact for the caller's references — nothing
acquired is still held. -/
theorem oom_clean {p : Policy} (pok : p.OK) (cap : Nat) (op : Op) (fuel : Nat) (r : RStC)
    (f g : EdgeC) (ext : List EdgeC) (hi : RcInv r ext) (hf : f ∈ ext) (hg : g ∈ ext)
    (hcap : r.st.store.count ≤ cap) (herr : (applyOpR cap p op fuel r f g).1 = none) :
    (applyOpR cap p op fuel r f g).2.st.store.count = cap ∧
    r.st.store.Le (applyOpR cap p op fuel r f g).2.st.store ∧
    RcInv (applyOpR cap p op fuel r f g).2 ext := by
  have hb := applyOpR_both cap p op fuel r f g
  refine ⟨?_, hb.le, ?_⟩
  · rw [hb.final_count hcap, if_pos herr]
  · have := C05R.applyR_rc_owned pok cap op fuel r f g ext hi hf hg
    cases hR : applyOpR cap p op fuel r f g with
    | mk o r' =>
      rw [hR] at this herr
      simp only at herr
      subst herr
      exact this

/-- **`applyR_error_clean`.** The state after a failed binary operator is a sound manager. -/
theorem applyR_error_clean {p : Policy} (pok : p.OK) (N cap : Nat) (op : Op) (fuel : Nat) (r : RStC)
    (f g : EdgeC) (a b : Edge) (ext : List EdgeC) (hinv : InvC r.st) (hs : ShapeInv N r)
    (hf : DenotesC r.st.store f a) (hg : DenotesC r.st.store g b) (hfuel : a.size + b.size ≤ fuel)
    (hi : RcInv r ext) (hfe : f ∈ ext) (hge : g ∈ ext) (hcap : r.st.store.count ≤ cap)
    (herr : (applyOpR cap p op fuel r f g).1 = none) :
    InvC (applyOpR cap p op fuel r f g).2.st ∧ ShapeInv N (applyOpR cap p op fuel r f g).2 ∧
    (∀ x T, DenotesC r.st.store x T → DenotesC (applyOpR cap p op fuel r f g).2.st.store x T) ∧
    (applyOpR cap p op fuel r f g).2.st.store.count = cap ∧
    RcInv (applyOpR cap p op fuel r f g).2 ext := by
  obtain ⟨h1, h2, h3⟩ := oom_clean pok cap op fuel r f g ext hi hfe hge hcap herr
  refine ⟨applyOpR_fail_inv pok cap op fuel r f g a b hinv hf hg hfuel, ?_,
    fun x T hx => hx.mono h2, h1, h3⟩
  exact (applyOpR_ord pok N cap op fuel r f g ext 0 hi hs (has_above_zero (hi.ext_ok f hfe))
    (has_above_zero (hi.ext_ok g hge))).1

/-- **`iteR_error_clean`.** The same for `apply_ite`. -/
theorem iteR_error_clean {p : Policy} (pok : p.OK) (N cap : Nat) (fuel : Nat) (r : RStC)
    (f g h : EdgeC) (a b c : Edge) (ext : List EdgeC) (hinv : InvC r.st) (hs : ShapeInv N r)
    (hf : DenotesC r.st.store f a) (hg : DenotesC r.st.store g b) (hh : DenotesC r.st.store h c)
    (hfuel : a.size + b.size + c.size ≤ fuel)
    (hi : RcInv r ext) (hfe : f ∈ ext) (hge : g ∈ ext) (hhe : h ∈ ext)
    (hcap : r.st.store.count ≤ cap) (herr : (iteR cap p fuel r f g h).1 = none) :
    InvC (iteR cap p fuel r f g h).2.st ∧ ShapeInv N (iteR cap p fuel r f g h).2 ∧
    (∀ x T, DenotesC r.st.store x T → DenotesC (iteR cap p fuel r f g h).2.st.store x T) ∧
    (iteR cap p fuel r f g h).2.st.store.count = cap ∧
    RcInv (iteR cap p fuel r f g h).2 ext := by
  have hb := iteR_both cap p fuel r f g h
  have hrc := C05R.iteR_rc_exact pok cap fuel r f g h ext hi (hi.ext_ok f hfe) (hi.ext_ok g hge)
    (hi.ext_ok h hhe)
  refine ⟨iteR_fail_inv pok cap fuel r f g h a b c hinv hf hg hh hfuel,
    (iteR_ord pok N cap fuel r f g h ext 0 hi hs (has_above_zero (hi.ext_ok f hfe))
      (has_above_zero (hi.ext_ok g hge)) (has_above_zero (hi.ext_ok h hhe))).1,
    fun x T hx => hx.mono hb.le, ?_, ?_⟩
  · rw [hb.final_count hcap, if_pos herr]
  · cases hR : iteR cap p fuel r f g h with
    | mk o r' =>
      rw [hR] at hrc herr
      simp only at herr
      subst herr
      exact hrc

/-- **`cache_sound_history`.** Along every history from the empty manager — operations under any
capacities, succeeding or failing with OutOfMemory anywhere, `not`, clones, drops, collections —
whose operations get enough fuel for their operands: the unique table stays hash-consed and every
apply-cache entry stays sound (`InvC`), the counters stay exact, and (variables on levels `< N`)
the store stays ordered and reduced. So every theorem of `Bcdd.PropertiesC06` that assumes `InvC`
applies in every reachable state of the counted, capacity-bounded manager. -/
theorem cache_sound_history {p : Policy} (pok : p.OK) (N : Nat) (cmds : List Rc.Cmd)
    (hok : ∀ c ∈ cmds, c.OK N) (hv : ValidAll p cmds ⟨RStC.empty, []⟩) :
    InvC (runAll p cmds ⟨RStC.empty, []⟩).r.st ∧
    RcInv (runAll p cmds ⟨RStC.empty, []⟩).r (runAll p cmds ⟨RStC.empty, []⟩).hs ∧
    ShapeInv N (runAll p cmds ⟨RStC.empty, []⟩).r := by
  refine ⟨runAll_inv pok cmds _ ⟨?_, CacheOKC.nil _⟩ hv, C05R.shape_history pok N cmds hok⟩
  intro i j n hi
  simp [RStC.empty, StoreC.get?] at hi

/-! ## `not` -/

/-- **`not_never_oom`.** Complementing allocates nothing and never fails, whatever the capacity
(even 0) -/
theorem not_never_oom (r : RStC) (f : EdgeC) :
    (notR r f).1 = some (notE f) ∧ neededNot r.st f = 0 ∧
    (notR r f).2.st.store.count = r.st.store.count := by
  refine ⟨rfl, neededNot_eq r.st f, ?_⟩
  simp [notR]

/-! ## `apply_ite` -/

theorem oom_iff_needed_ite (cap : Nat) (p : Policy) (fuel : Nat) (r : RStC) (f g h : EdgeC) :
    (iteR cap p fuel r f g h).1 = none ↔
      0 < neededIte p fuel r.st f g h ∧ cap < r.st.store.count + neededIte p fuel r.st f g h :=
  (iteR_both cap p fuel r f g h).oom_iff

theorem threshold_exact_ite (p : Policy) (fuel : Nat) (r : RStC) (f g h : EdgeC) :
    let k := r.st.store.count + neededIte p fuel r.st f g h
    (∀ cap, r.st.store.count ≤ cap → cap < k → (iteR cap p fuel r f g h).1 = none) ∧
    (∀ cap, k ≤ cap →
      (iteR cap p fuel r f g h).1 = some (iteS p fuel r.st f g h).2 ∧
      (iteR cap p fuel r f g h).2.st = (iteS p fuel r.st f g h).1) := by
  intro k
  constructor
  · intro cap hc hk
    rw [(iteR_both cap p fuel r f g h).oom_iff_free hc]
    show cap - r.st.store.count < neededIte p fuel r.st f g h
    omega
  · intro cap hk
    have hc : r.st.store.count ≤ cap := by omega
    apply ((iteR_both cap p fuel r f g h).ok_iff hc).mpr
    show neededIte p fuel r.st f g h ≤ cap - r.st.store.count
    omega

theorem final_count_ite (cap : Nat) (p : Policy) (fuel : Nat) (r : RStC) (f g h : EdgeC)
    (hc : r.st.store.count ≤ cap) :
    (iteR cap p fuel r f g h).2.st.store.count =
      if (iteR cap p fuel r f g h).1 = none then cap
      else r.st.store.count + neededIte p fuel r.st f g h :=
  (iteR_both cap p fuel r f g h).final_count hc

theorem oom_iff_fresh_ite {p : Policy} (pok : p.OK) (cap : Nat) (fuel : Nat) (r : RStC)
    (f g h : EdgeC) (a b c : Edge) (hinv : InvC r.st) (hr : r.st.store.NoRed)
    (hf : DenotesC r.st.store f a) (hg : DenotesC r.st.store g b) (hh : DenotesC r.st.store h c)
    (hfuel : a.size + b.size + c.size ≤ fuel) (hcap : r.st.store.count ≤ cap) :
    (iteR cap p fuel r f g h).1 = none ↔
      cap - r.st.store.count < fresh r.st.store (applyIte a b c) := by
  rw [(iteR_both cap p fuel r f g h).oom_iff_free hcap]
  show cap - r.st.store.count < neededIte p fuel r.st f g h ↔ _
  rw [neededIte_eq pok fuel r.st f g h a b c hinv hr hf hg hh hfuel]

/-! ## non-vacuity: a concrete store where capacity `k−1` fails and `k` succeeds -/

/-- `x0` (#0), `x1` (#1), `x2` (#2), `x0 ∧ x1` (#3) with their handles, cache cleared -/
def exR : RStC := { (C05R.exRun 4).r with st := ⟨(C05R.exRun 4).r.st.store, [], 0⟩ }

theorem exR_shape : exR.st.store.Unique ∧ exR.st.store.NoRed := by
  have h := (C05R.shape_history Policy.exact_ok 3 (C05R.exCmds.take 4) (by
    intro c hc
    have : c ∈ C05R.exCmds := List.mem_of_mem_take hc
    simp only [C05R.exCmds, List.mem_cons, List.mem_nil_iff, or_false] at this
    rcases this with rfl | rfl | rfl | rfl | rfl | rfl | rfl | rfl <;> simp [Rc.Cmd.OK])).2
  exact ⟨h.uniq, h.nored⟩

theorem exR_inv : InvC exR.st := ⟨exR_shape.1, CacheOKC.nil _⟩

def tX2 : Edge := ⟨false, .node 2 .top true .top⟩
def tAnd : Edge := ⟨false, .node 0 (.node 1 .top true .top) true .top⟩

theorem exR_x2 : DenotesC exR.st.store ⟨false, .inner 2⟩ tX2 :=
  ⟨rfl, .inner (i := 2) (by decide +kernel) .term .term⟩

theorem exR_and : DenotesC exR.st.store ⟨false, .inner 3⟩ tAnd :=
  ⟨rfl, .inner (i := 3) (by decide +kernel) (.inner (i := 1) (by decide +kernel) .term .term) .term⟩

/-- `(x0 ∧ x1) ⊕ x2` in the 4-node store needs exactly 2 fresh nodes (`x1 ⊕ x2` and the root) … -/
example : neededApply Policy.exact .xor 10 exR.st ⟨false, .inner 3⟩ ⟨false, .inner 2⟩ = 2 := by
  decide +kernel

/-- … which is `fresh` of the result (`needed_eq_fresh`, hypotheses satisfiable) … -/
example : neededApply Policy.exact .xor 10 exR.st ⟨false, .inner 3⟩ ⟨false, .inner 2⟩ =
    fresh exR.st.store (applyOp .xor tAnd tX2) :=
  needed_eq_fresh Policy.exact_ok .xor 10 exR.st _ _ tAnd tX2 exR_inv exR_shape.2 exR_and exR_x2
    (by decide)

example : fresh exR.st.store (applyOp .xor tAnd tX2) = 2 ∧
    fresh exR.st.store (applyOp .equiv tAnd tX2) = 2 := by decide +kernel

/-- … the same for the complemented operator, for complemented operands, without a cache, and with
a direct-mapped one-bucket cache whose lock fails at odd times -/
example : neededApply Policy.exact .equiv 10 exR.st ⟨false, .inner 3⟩ ⟨false, .inner 2⟩ = 2 ∧
    neededApply Policy.exact .xor 10 exR.st ⟨true, .inner 3⟩ ⟨true, .inner 2⟩ = 2 ∧
    neededApply Policy.none .xor 10 exR.st ⟨false, .inner 3⟩ ⟨false, .inner 2⟩ = 2 ∧
    neededApply (Policy.dm 1 (fun _ => 0) (fun t => t % 2 == 0)) .xor 10
      ⟨exR.st.store, [], 7⟩ ⟨false, .inner 3⟩ ⟨false, .inner 2⟩ = 2 := by
  decide +kernel

/-- a BDD would need two more nodes for `¬x2` and `¬(x1 ⊕ x2)`; here `x0 ⊕ x1` needs **one** node
although both `x1` and `¬x1` occur as children -/
example : neededApply Policy.exact .xor 10 exR.st ⟨false, .inner 0⟩ ⟨false, .inner 1⟩ = 1 := by
  decide +kernel

/-- capacity `k − 1 = 5` fails, `k = 6` succeeds (4 nodes stored + 2 needed) -/
example : (applyOpR 5 Policy.exact .xor 10 exR ⟨false, .inner 3⟩ ⟨false, .inner 2⟩).1 = none ∧
    (applyOpR 6 Policy.exact .xor 10 exR ⟨false, .inner 3⟩ ⟨false, .inner 2⟩).1 =
      some ⟨true, .inner 5⟩ := by
  decide +kernel

/-- the same two facts from `threshold_exact` -/
example : (applyOpR 5 Policy.exact .xor 10 exR ⟨false, .inner 3⟩ ⟨false, .inner 2⟩).1 = none :=
  (threshold_exact Policy.exact .xor 10 exR _ _).1 5 (by decide +kernel) (by decide +kernel)

example : (applyOpR 6 Policy.exact .xor 10 exR ⟨false, .inner 3⟩ ⟨false, .inner 2⟩).1.isSome = true := by
  rw [((threshold_exact Policy.exact .xor 10 exR _ _).2 6 (by decide +kernel)).1]
  rfl

/-- `final_count`: 5 = cap after the failure, 6 = 4 + 2 after the success -/
example : (applyOpR 5 Policy.exact .xor 10 exR ⟨false, .inner 3⟩ ⟨false, .inner 2⟩).2.st.store.count = 5 ∧
    (applyOpR 9 Policy.exact .xor 10 exR ⟨false, .inner 3⟩ ⟨false, .inner 2⟩).2.st.store.count = 6 := by
  decide +kernel

/-- `ite`: `ite(x2, x0 ∧ x1, x1)` over all capacities `0 … 8`: success exactly from `4 + needed` -/
example : (List.range 9).map (fun c =>
      (iteR c Policy.exact 10 exR ⟨false, .inner 2⟩ ⟨false, .inner 3⟩ ⟨false, .inner 1⟩).1.isSome) =
    (List.range 9).map (fun c => decide (4 + neededIte Policy.exact 10 exR.st
      ⟨false, .inner 2⟩ ⟨false, .inner 3⟩ ⟨false, .inner 1⟩ ≤ c)) ∧
    0 < neededIte Policy.exact 10 exR.st ⟨false, .inner 2⟩ ⟨false, .inner 3⟩ ⟨false, .inner 1⟩ := by
  decide +kernel

/-- the hypotheses of `applyR_error_clean` are satisfiable: the failing run with capacity 5 -/
example : InvC (applyOpR 5 Policy.exact .xor 10 exR ⟨false, .inner 3⟩ ⟨false, .inner 2⟩).2.st ∧
    (applyOpR 5 Policy.exact .xor 10 exR ⟨false, .inner 3⟩ ⟨false, .inner 2⟩).2.st.store.count = 5 := by
  have hrc : RcInv exR (C05R.exRun 4).hs := by
    have := C05R.rc_history_empty Policy.exact_ok (C05R.exCmds.take 4)
    exact ⟨this.ext_ok, this.kids_ok, (fun _ _ h' => by cases h'), this.rc_eq⟩
  have hsh : ShapeInv 3 exR := by
    have h := (C05R.shape_history Policy.exact_ok 3 (C05R.exCmds.take 4) (by
      intro c hc
      have : c ∈ C05R.exCmds := List.mem_of_mem_take hc
      simp only [C05R.exCmds, List.mem_cons, List.mem_nil_iff, or_false] at this
      rcases this with rfl | rfl | rfl | rfl | rfl | rfl | rfl | rfl <;> simp [Rc.Cmd.OK])).2
    exact ⟨h.ord, h.bound, (fun _ _ h' => by cases h'), h.uniq, h.nored⟩
  have := applyR_error_clean Policy.exact_ok 3 5 .xor 10 exR ⟨false, .inner 3⟩ ⟨false, .inner 2⟩
    tAnd tX2 (C05R.exRun 4).hs exR_inv hsh exR_and exR_x2 (by decide) hrc (by decide +kernel)
    (by decide +kernel) (by decide +kernel) (by decide +kernel)
  exact ⟨this.1, this.2.2.2.1⟩

/-- the hypothesis `ValidAll` of `cache_sound_history` is satisfiable, with a failing operation:
`x0`, `x1`, then `x0 ⊕ x1` under capacity 2 (OutOfMemory) -/
def exS2 : HSt :=
  (Rc.Cmd.var 2 1 false).run Policy.exact ((Rc.Cmd.var 2 0 false).run Policy.exact ⟨RStC.empty, []⟩)

example : ValidAll Policy.exact [.var 2 0 false, .var 2 1 false, .bin 2 10 .xor 0 1]
      ⟨RStC.empty, []⟩ ∧
    (runAll Policy.exact [.var 2 0 false, .var 2 1 false, .bin 2 10 .xor 0 1]
      ⟨RStC.empty, []⟩).hs.length = 2 := by
  refine ⟨⟨trivial, trivial, ?_, trivial⟩, by decide +kernel⟩
  intro f g hf hg
  have h0 : exS2.hs[0]? = some ⟨false, .inner 1⟩ := by decide +kernel
  have h1 : exS2.hs[1]? = some ⟨false, .inner 0⟩ := by decide +kernel
  have hf' : exS2.hs[0]? = some f := hf
  have hg' : exS2.hs[1]? = some g := hg
  rw [h0] at hf'; rw [h1] at hg'
  cases hf'; cases hg'
  refine ⟨⟨false, .node 1 .top true .top⟩, ⟨false, .node 0 .top true .top⟩, ?_, ?_, by decide⟩
  · exact ⟨rfl, .inner (i := 1) (show exS2.r.st.store.get? 1 = _ by decide +kernel) .term .term⟩
  · exact ⟨rfl, .inner (i := 0) (show exS2.r.st.store.get? 0 = _ by decide +kernel) .term .term⟩

/-- `not` with capacity 0 in a full store -/
example : (notR exR ⟨false, .inner 3⟩).1 = some ⟨true, .inner 3⟩ := rfl

end OxiddModel.Bcdd.C14T
