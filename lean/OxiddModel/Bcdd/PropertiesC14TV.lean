import OxiddModel.Bcdd.PropertiesC14T

/-!
# C14 for BCDDs: what `PropertiesC14T.lean` leaves open on the counter model

`Bcdd/PropertiesC14T.lean` states the exact threshold of the eight binary operators and of
`apply_ite` (`oom_iff_needed[_ite]`, `threshold_exact[_ite]`, `final_count[_ite]`,
`oom_iff_fresh[_ite]`) and that a failure leaves a sound manager (`applyR_error_clean`,
`iteR_error_clean`: invariants, exact counters, store exactly full). This file adds, on the same
counter model `Bcdd/RcS.lean`:

* (b) **monotonicity** for the binary operators and `apply_ite`, (d) success = capacity-free run;
* (a) in the **gc form** of the other kinds: after a failed `apply` / `apply_ite` / `var_edge` a
  collection leaves slot by slot the store a collection *before* the call leaves (exactly the
  nodes reachable from the caller's references in the old store);
* `var_edge` / `not_var_edge` (`varR`: one `reduce` on the two static terminal edges; the tag flip
  of `not_var_edge` is applied to the owned result and passes an error on): the four statements,
  with the closed form *one slot iff the node `(level; ⊤, ⊥)` is not in the unique table*.

Quantification, `restrict`, `substitute` are **not** in the BCDD counter model (there is no
`Bcdd/RcQ…`); no threshold theorem is claimed for them.
-/
namespace OxiddModel.Bcdd.C14T
open OxiddModel.Bcdd OxiddModel.Bcdd.Refine OxiddModel.Bcdd.Rc OxiddModel.Bcdd.CNode
open OxiddModel.Bdd.Refine (Policy OpTag Key Cache)

/-! ## (b), (d) from `BothC` -/

theorem Fits.mono {c c' : Nat} {a b : StoreC} (h : Fits c a b) (hc : c ≤ c') : Fits c' a b := by
  unfold Fits at *; omega

/-- two capped runs of the same operation against the same capacity-free run -/
theorem both_monotone {cap cap' : Nat} {s : StoreC} {RC RC' : Option EdgeC × RStC}
    {RS : StC × EdgeC} (h : BothC cap s RC RS) (h' : BothC cap' s RC' RS) (hc : cap ≤ cap')
    {x : EdgeC} (hx : RC.1 = some x) : RC'.1 = some x ∧ RC'.2.st = RC.2.st := by
  obtain ⟨e, hf⟩ := h.ok x hx
  have hf' : Fits cap' s RS.1.store := by rw [e]; exact Fits.mono hf hc
  obtain ⟨a, b⟩ := h'.fits hf'
  rw [e] at a b
  exact ⟨a, b⟩

/-- (b) **once a capacity suffices for a binary operator, every larger one does**, with the same
result edge, store, cache and time stamp -/
theorem apply_monotone (p : Policy) (op : Op) (fuel : Nat) (r : RStC) (f g x : EdgeC)
    {cap cap' : Nat} (hc : cap ≤ cap') (hx : (applyOpR cap p op fuel r f g).1 = some x) :
    (applyOpR cap' p op fuel r f g).1 = some x ∧
    (applyOpR cap' p op fuel r f g).2.st = (applyOpR cap p op fuel r f g).2.st :=
  both_monotone (applyOpR_both cap p op fuel r f g) (applyOpR_both cap' p op fuel r f g) hc hx

/-- (b) for `apply_ite` -/
theorem ite_monotone (p : Policy) (fuel : Nat) (r : RStC) (f g h x : EdgeC)
    {cap cap' : Nat} (hc : cap ≤ cap') (hx : (iteR cap p fuel r f g h).1 = some x) :
    (iteR cap' p fuel r f g h).1 = some x ∧
    (iteR cap' p fuel r f g h).2.st = (iteR cap p fuel r f g h).2.st :=
  both_monotone (iteR_both cap p fuel r f g h) (iteR_both cap' p fuel r f g h) hc hx

/-- (d) a successful capped binary operator is the capacity-free run -/
theorem apply_success_is_uncapped (cap : Nat) (p : Policy) (op : Op) (fuel : Nat) (r : RStC)
    (f g x : EdgeC) (hx : (applyOpR cap p op fuel r f g).1 = some x) :
    applyOpS p op fuel r.st f g = ((applyOpR cap p op fuel r f g).2.st, x) :=
  ((applyOpR_both cap p op fuel r f g).ok x hx).1

theorem ite_success_is_uncapped (cap : Nat) (p : Policy) (fuel : Nat) (r : RStC)
    (f g h x : EdgeC) (hx : (iteR cap p fuel r f g h).1 = some x) :
    iteS p fuel r.st f g h = ((iteR cap p fuel r f g h).2.st, x) :=
  ((iteR_both cap p fuel r f g h).ok x hx).1

/-! ## (a) in the gc form -/

theorem reach_has {r : RStC} {ext : List EdgeC} (h : RcInv r ext) {i : Nat}
    (hr : Reach r.st.store ext i) : ∃ n, r.st.store.get? i = some n := by
  induction hr with
  | root hm ht =>
    have := h.ext_ok _ hm
    unfold StoreC.has at this
    rw [ht] at this
    exact this
  | kid _ hp hch ih =>
    rcases hch with hch | hch
    · have := (h.kids_ok _ _ hp).1; rw [hch] at this; exact this
    · have := (h.kids_ok _ _ hp).2
      unfold StoreC.has at this
      rw [hch] at this; exact this

/-- growing the store does not change what is reachable from the caller's references -/
theorem reach_le_iff {r : RStC} {ext : List EdgeC} (h : RcInv r ext) {s' : StoreC}
    (hle : r.st.store.Le s') (i : Nat) : Reach s' ext i ↔ Reach r.st.store ext i := by
  constructor
  · intro hr
    induction hr with
    | root hm ht => exact .root hm ht
    | kid _ hp hch ih =>
      obtain ⟨n0, hn0⟩ := reach_has h ih
      have := hle _ _ hn0
      rw [this] at hp
      cases hp
      exact .kid ih hn0 hch
  · intro hr
    induction hr with
    | root hm ht => exact .root hm ht
    | kid _ hp hch ih => exact .kid ih (hle _ _ hp) hch

/-- a failed call `R`: counters exact for the same references, nothing removed, and a collection
afterwards leaves slot by slot the store that a collection before the call leaves -/
theorem failure_clean_of {N : Nat} {r : RStC} {ext : List EdgeC} {R : Option EdgeC × RStC}
    (hi : RcInv r ext) (hord0 : ShapeInv N r) (hpost : RcPost r ext R) (hord : ShapeInv N R.2)
    (herr : R.1 = none) :
    RcInv R.2 ext ∧ r.st.store.Le R.2.st.store ∧
    RcInv (gcR N R.2) ext ∧ RcInv (gcR N r) ext ∧
    (∀ i, (gcR N R.2).st.store.get? i = (gcR N r).st.store.get? i) ∧
    (∀ i, (∃ n, (gcR N R.2).st.store.get? i = some n) ↔ Reach r.st.store ext i) := by
  have hinv : RcInv R.2 ext := by
    have h2 := hpost.2
    obtain ⟨o, r'⟩ := R
    simp only at herr
    subst herr
    exact h2
  have hle := hpost.1
  obtain ⟨g1, g2, g3, _⟩ := C05R.gcR_exact N R.2 ext hinv hord.ord hord.bound
  obtain ⟨k1, k2, k3, _⟩ := C05R.gcR_exact N r ext hi hord0.ord hord0.bound
  refine ⟨hinv, hle, g1, k1, ?_, fun i => (g2 i).trans (reach_le_iff hi hle i)⟩
  intro i
  by_cases hr : Reach r.st.store ext i
  · obtain ⟨n, hn⟩ := (k2 i).mpr hr
    have hn0 := k3 i n hn
    obtain ⟨m, hm⟩ := (g2 i).mpr ((reach_le_iff hi hle i).mpr hr)
    have := g3 i m hm
    rw [hle i n hn0] at this
    cases this
    rw [hm, hn]
  · have a : (gcR N r).st.store.get? i = none := by
      cases h : (gcR N r).st.store.get? i with
      | none => rfl
      | some n => exact absurd ((k2 i).mp ⟨n, h⟩) hr
    have b : (gcR N R.2).st.store.get? i = none := by
      cases h : (gcR N R.2).st.store.get? i with
      | none => rfl
      | some n => exact absurd ((reach_le_iff hi hle i).mp ((g2 i).mp ⟨n, h⟩)) hr
    rw [a, b]

/-- **(a) for the eight binary operators, gc form**: from exact counters (`RcInv`) and the shape
invariant (both hold along every history: `C05R.shape_history`), operands among the caller's
references -/
theorem apply_failure_clean {p : Policy} (pok : p.OK) (N cap : Nat) (op : Op) (fuel : Nat)
    (r : RStC) (f g : EdgeC) (ext : List EdgeC) (hi : RcInv r ext) (ho : ShapeInv N r)
    (hf : f ∈ ext) (hg : g ∈ ext) (herr : (applyOpR cap p op fuel r f g).1 = none) :
    RcInv (applyOpR cap p op fuel r f g).2 ext ∧
    r.st.store.Le (applyOpR cap p op fuel r f g).2.st.store ∧
    RcInv (gcR N (applyOpR cap p op fuel r f g).2) ext ∧ RcInv (gcR N r) ext ∧
    (∀ i, (gcR N (applyOpR cap p op fuel r f g).2).st.store.get? i = (gcR N r).st.store.get? i) ∧
    (∀ i, (∃ n, (gcR N (applyOpR cap p op fuel r f g).2).st.store.get? i = some n) ↔
      Reach r.st.store ext i) :=
  failure_clean_of hi ho
    (applyOpR_rc pok cap op fuel r f g ext hi (hi.ext_ok f hf) (hi.ext_ok g hg))
    (applyOpR_ord pok N cap op fuel r f g ext 0 hi ho (has_above_zero (hi.ext_ok f hf))
      (has_above_zero (hi.ext_ok g hg))).1 herr

/-- **(a) for `apply_ite`, gc form** -/
theorem ite_failure_clean {p : Policy} (pok : p.OK) (N cap : Nat) (fuel : Nat)
    (r : RStC) (f g h : EdgeC) (ext : List EdgeC) (hi : RcInv r ext) (ho : ShapeInv N r)
    (hf : f ∈ ext) (hg : g ∈ ext) (hh : h ∈ ext) (herr : (iteR cap p fuel r f g h).1 = none) :
    RcInv (iteR cap p fuel r f g h).2 ext ∧
    r.st.store.Le (iteR cap p fuel r f g h).2.st.store ∧
    RcInv (gcR N (iteR cap p fuel r f g h).2) ext ∧ RcInv (gcR N r) ext ∧
    (∀ i, (gcR N (iteR cap p fuel r f g h).2).st.store.get? i = (gcR N r).st.store.get? i) ∧
    (∀ i, (∃ n, (gcR N (iteR cap p fuel r f g h).2).st.store.get? i = some n) ↔
      Reach r.st.store ext i) :=
  failure_clean_of hi ho
    (iteR_rc pok cap fuel r f g h ext hi (hi.ext_ok f hf) (hi.ext_ok g hg) (hi.ext_ok h hh))
    (iteR_ord pok N cap fuel r f g h ext 0 hi ho (has_above_zero (hi.ext_ok f hf))
      (has_above_zero (hi.ext_ok g hg)) (has_above_zero (hi.ext_ok h hh))).1 herr

/-! ## `var_edge`, `not_var_edge` -/

/-- the capacity-free `var_edge` / `not_var_edge` at a level -/
def varC (s : StoreC) (level : Nat) (neg : Bool) : StoreC × EdgeC :=
  ((s.mkNodeC level (termC true) (termC false)).1,
    if neg then notE (s.mkNodeC level (termC true) (termC false)).2
    else (s.mkNodeC level (termC true) (termC false)).2)

/-- nodes `var_edge` allocates when nothing stops it -/
def neededVar (s : StoreC) (level : Nat) : Nat := (varC s level false).1.count - s.count

theorem termC_ne : termC true ≠ termC false := by decide

/-- closed form: one slot iff the node is not in the unique table -/
theorem neededVar_closed (s : StoreC) (level : Nat) :
    neededVar s level =
      if s.find? (reduceNode level (termC true) (termC false)) = none then 1 else 0 := by
  unfold neededVar varC
  simp only
  rw [count_mkNodeC]
  simp only [ne_eq, termC_ne, not_false_eq_true, true_and]
  split <;> omega

theorem mkNodeR_none_iff (cap : Nat) (r : RStC) (l : Nat) (t e : EdgeC) :
    (mkNodeR cap r l t e).1 = none ↔
      t ≠ e ∧ r.st.store.find? (reduceNode l t e) = none ∧ cap ≤ r.st.store.count := by
  unfold mkNodeR
  by_cases hte : t = e
  · simp [hte]
  · simp only [hte, if_false]
    cases hf : r.st.store.find? (reduceNode l t e) with
    | some i => simp
    | none =>
      by_cases hc : r.st.store.count < cap
      · simp [hc]
      · have hc' : cap ≤ r.st.store.count := by omega
        simp [hc, hc', hte]

theorem mapNot_none_iff (x : Option EdgeC × RStC) : (mapNot x).1 = none ↔ x.1 = none := by
  obtain ⟨o, r⟩ := x
  cases o <;> simp [mapNot]

theorem varR_none_iff (cap : Nat) (r : RStC) (level : Nat) (neg : Bool) :
    (varR cap r level neg).1 = none ↔
      r.st.store.find? (reduceNode level (termC true) (termC false)) = none ∧
      cap ≤ r.st.store.count := by
  have h := mkNodeR_none_iff cap r level (termC true) (termC false)
  simp only [ne_eq, termC_ne, not_false_eq_true, true_and] at h
  unfold varR
  simp only
  cases neg
  · simpa using h
  · simp only [if_true, mapNot_none_iff]; exact h

/-- (c) **`var_edge` / `not_var_edge` report OutOfMemory iff they allocate a node and the capacity
is below `count + needed`** — for every store and counter array -/
theorem var_oom_iff_needed (cap : Nat) (r : RStC) (level : Nat) (neg : Bool) :
    (varR cap r level neg).1 = none ↔
      0 < neededVar r.st.store level ∧ cap < r.st.store.count + neededVar r.st.store level := by
  rw [varR_none_iff, neededVar_closed]
  by_cases h : r.st.store.find? (reduceNode level (termC true) (termC false)) = none
  · simp only [h, if_true, true_and]; omega
  · simp [h]

/-- a successful `var_edge` is `varC` -/
theorem var_success_is_uncapped (cap : Nat) (r : RStC) (level : Nat) (neg : Bool) (x : EdgeC)
    (hx : (varR cap r level neg).1 = some x) :
    varC r.st.store level neg = ((varR cap r level neg).2.st.store, x) ∧
    (varR cap r level neg).2.st.cache = r.st.cache ∧
    (varR cap r level neg).2.st.tick = r.st.tick := by
  obtain ⟨h1, h2, h3⟩ := mkNodeR_erase cap r level (termC true) (termC false)
  unfold varR at hx ⊢
  unfold varC
  simp only at hx ⊢
  cases hR : mkNodeR cap r level (termC true) (termC false) with
  | mk o r' =>
    rw [hR] at h1 h2 h3 hx
    cases o with
    | none => cases neg <;> simp [mapNot] at hx
    | some y =>
      simp only at h3
      rw [h3]
      cases neg
      · simp only [Bool.false_eq_true, if_false] at hx ⊢
        cases hx
        exact ⟨rfl, h1, h2⟩
      · simp only [if_true, mapNot, Option.map_some, Option.some.injEq] at hx ⊢
        subst hx
        exact ⟨rfl, h1, h2⟩

/-- (c) the minimal capacity of `var_edge` is `count + needed` -/
theorem var_threshold_exact (r : RStC) (level : Nat) (neg : Bool) :
    (∀ cap, r.st.store.count ≤ cap → cap < r.st.store.count + neededVar r.st.store level →
      (varR cap r level neg).1 = none) ∧
    (∀ cap, r.st.store.count + neededVar r.st.store level ≤ cap →
      (varR cap r level neg).1 = some (varC r.st.store level neg).2 ∧
      (varR cap r level neg).2.st.store = (varC r.st.store level neg).1) := by
  constructor
  · intro cap hc hk
    rw [var_oom_iff_needed]; omega
  · intro cap hk
    have hn : ¬ (varR cap r level neg).1 = none := by rw [var_oom_iff_needed]; omega
    cases hR : (varR cap r level neg).1 with
    | none => exact absurd hR hn
    | some x =>
      have := (var_success_is_uncapped cap r level neg x hR).1
      rw [this]
      exact ⟨rfl, rfl⟩

/-- (b) -/
theorem var_monotone (r : RStC) (level : Nat) (neg : Bool) (x : EdgeC) {cap cap' : Nat}
    (hc : cap ≤ cap') (hx : (varR cap r level neg).1 = some x) :
    (varR cap' r level neg).1 = some x ∧
    (varR cap' r level neg).2.st.store = (varR cap r level neg).2.st.store := by
  have hn' : ¬ (varR cap' r level neg).1 = none := by
    intro h
    have h0 : ¬ (varR cap r level neg).1 = none := by rw [hx]; simp
    rw [varR_none_iff] at h h0
    exact h0 ⟨h.1, by omega⟩
  cases hR : (varR cap' r level neg).1 with
  | none => exact absurd hR hn'
  | some y =>
    have a := (var_success_is_uncapped cap r level neg x hx).1
    have b := (var_success_is_uncapped cap' r level neg y hR).1
    rw [a] at b
    simp only [Prod.mk.injEq] at b
    exact ⟨by rw [b.2], b.1.symm⟩

/-- (a) a failed `var_edge` leaves the manager intact (gc form) -/
theorem var_failure_clean (N cap : Nat) (r : RStC) (level : Nat) (neg : Bool) (ext : List EdgeC)
    (hi : RcInv r ext) (ho : ShapeInv N r) (hl : level < N)
    (herr : (varR cap r level neg).1 = none) :
    RcInv (varR cap r level neg).2 ext ∧
    r.st.store.Le (varR cap r level neg).2.st.store ∧
    RcInv (gcR N (varR cap r level neg).2) ext ∧ RcInv (gcR N r) ext ∧
    (∀ i, (gcR N (varR cap r level neg).2).st.store.get? i = (gcR N r).st.store.get? i) ∧
    (∀ i, (∃ n, (gcR N (varR cap r level neg).2).st.store.get? i = some n) ↔
      Reach r.st.store ext i) :=
  failure_clean_of hi ho (varR_rc hi) (varR_ord hi ho hl).1 herr

/-! ## non-vacuity (`C05R.exCmds`: `x0`, `x1`, `x2`, `x2 ∧ x1`; the `xor` of command 5 fails) -/

open OxiddModel.Bcdd.C05R in
/-- a fourth variable needs one slot in the four-node store `exRun 4`: capacity 4 fails for
`var_edge` and `not_var_edge`, 5 succeeds; `x1` is stored: capacity 0 suffices -/
example : (exRun 4).r.st.store.count = 4 ∧ neededVar (exRun 4).r.st.store 3 = 1 ∧
    neededVar (exRun 4).r.st.store 1 = 0 ∧
    (varR 4 (exRun 4).r 3 false).1 = none ∧ (varR 4 (exRun 4).r 3 true).1 = none ∧
    (varR 5 (exRun 4).r 3 true).1 = some ⟨true, .inner 4⟩ ∧
    (varR 0 (exRun 4).r 1 true).1 = some ⟨true, .inner 1⟩ := by
  decide +kernel

open OxiddModel.Bcdd.C05R in
/-- the failing `xor` of the history (capacity 5, one garbage node is left behind): after it and a
collection the store is slot by slot the store a collection before the call leaves; the
hypotheses are discharged by `shape_history` -/
example : ∀ i,
    (gcR 3 (applyOpR 5 Policy.exact .xor 10 (exRun 4).r ⟨false, .inner 3⟩ ⟨false, .inner 2⟩).2).st.store.get? i =
      (gcR 3 (exRun 4).r).st.store.get? i := by
  have h := shape_history Policy.exact_ok 3 (exCmds.take 4) (by
    intro c hc
    simp only [exCmds, List.take, List.mem_cons, List.mem_nil_iff, or_false] at hc
    rcases hc with rfl | rfl | rfl | rfl <;> simp [Rc.Cmd.OK])
  exact (apply_failure_clean Policy.exact_ok 3 5 .xor 10 (exRun 4).r ⟨false, .inner 3⟩
    ⟨false, .inner 2⟩ (exRun 4).hs h.1 h.2 (by decide +kernel) (by decide +kernel)
    (by decide +kernel)).2.2.2.2.1

open OxiddModel.Bcdd.C05R in
/-- monotonicity instantiated: the `xor` succeeds under 6, hence under 7 with the same result -/
example : (applyOpR 7 Policy.exact .xor 10 (exRun 4).r ⟨false, .inner 3⟩ ⟨false, .inner 2⟩).1 =
    (applyOpR 6 Policy.exact .xor 10 (exRun 4).r ⟨false, .inner 3⟩ ⟨false, .inner 2⟩).1 := by
  obtain ⟨x, hx⟩ : ∃ x, (applyOpR 6 Policy.exact .xor 10 (exRun 4).r ⟨false, .inner 3⟩
      ⟨false, .inner 2⟩).1 = some x := Option.isSome_iff_exists.mp (by decide +kernel)
  rw [(apply_monotone Policy.exact .xor 10 (exRun 4).r _ _ x (by decide : 6 ≤ 7) hx).1, hx]

end OxiddModel.Bcdd.C14T
