import OxiddModel.Bcdd.GlobalSSteps
import OxiddModel.Bcdd.PropertiesQueriesS
import OxiddModel.Bcdd.PropertiesC06

/-!
# C01 / C03 / C05 / C08 for BCDDs — ONE store-level history theorem with complement edges

The complement-edge counterpart of `Bdd/PropertiesGlobalS.lean`, for the machine of
`Bcdd/GlobalS.lean`: one state (id store whose nodes keep a regular then-target and a tagged
else-edge, one counter per node, apply cache, `gc_count`, `{v2l, l2v}`, handle table of **tagged**
edges) and one step function for `var`/`not_var`, `not` (a clone with the tag flipped), the eight
binary operators (through `apply_and` / `apply_bin::<Xor>` and tags), `ite`, each under its own node
capacity (success or OutOfMemory), `clone`, `drop`, `gc`, `add_vars`, `set_var_order`
(`SwapStoreC` with `Rules.bcdd`). For **every history** from the empty manager and every `Cfg.OK`:

* `global_inv`, `global_semantics`, `ghost_unchanged`, `global_canonical` (C01: same edge — same
  node **and** same tag — iff same function of the variables), `global_gc_exact` (C05),
  `global_node_count` (C03).
-/
namespace OxiddModel.Bcdd.Global
open OxiddModel.Bcdd OxiddModel.Bcdd.Refine OxiddModel.Bcdd.Rc
open OxiddModel.Bdd.Refine (Policy OpTag Key Cache)
open OxiddModel.Bdd.Rc (rcGet rcSet)
open OxiddModel.Bdd.Global (All2 forall₂_length forall₂_get forall₂_getD OrdOK ordOK_empty)
open OxiddModel.Reorder
open OxiddModel.Reorder.SwapStoreC (Heap SNode SStore)

theorem ginv_empty : GInv GSt.empty where
  rc := C05R.rcinv_empty
  shape := C05R.shapeinv_empty 0
  cache := CacheOKC.nil _
  perm := ordOK_empty

theorem foldl_inv {c : Cfg} (hc : c.OK) : ∀ (hist : List Step) (x : GSt × List Expr),
    GInv x.1 → Sem x.1 x.2 →
    GInv (hist.foldl (fun x s => (step c x.1 s, track c x.1 x.2 s)) x).1 ∧
    Sem (hist.foldl (fun x s => (step c x.1 s, track c x.1 x.2 s)) x).1
      (hist.foldl (fun x s => (step c x.1 s, track c x.1 x.2 s)) x).2 := by
  intro hist
  induction hist with
  | nil => intro x hi hs; exact ⟨hi, hs⟩
  | cons s rest ih =>
    intro x hi hs
    obtain ⟨h1, h2⟩ := step_inv hc hi hs s
    exact ih _ h1 h2

theorem run_inv {c : Cfg} (hc : c.OK) (hist : List Step) :
    GInv (run c hist) ∧ Sem (run c hist) (runT c hist).2 := by
  rw [← runT_fst]
  exact foldl_inv hc hist (GSt.empty, []) ginv_empty .nil

theorem run_append (c : Cfg) (hist : List Step) (s : Step) :
    run c (hist ++ [s]) = step c (run c hist) s := by
  simp [run, List.foldl_append]

/-- **`global_inv`** (BCDD). After every history: ordered, levels `< n`, reduced (no node whose
regular then-edge equals its else-edge), hash consed, cache sound, maps mutually inverse, no
dangling edge, counters exact (`rc = 1 + #handles on the node, either tag + #stored parent
edges`), and the per-level tables of the reordering code are consistent with regular then-edges
(`SwapStoreC.Inv`). -/
theorem global_inv {c : Cfg} (hc : c.OK) (hist : List Step) :
    let g := run c hist
    g.r.st.store.Ordered ∧
    (∀ i nd, g.r.st.store.get? i = some nd → nd.level < g.n) ∧
    g.r.st.store.NoRed ∧
    g.r.st.store.Unique ∧
    CacheOKC g.r.st.store g.r.st.cache ∧
    OrdOK g.n g.v2l g.l2v ∧
    ((∀ x ∈ g.hs, g.r.st.store.has x) ∧
      ∀ i nd, g.r.st.store.get? i = some nd → g.r.st.store.hasT nd.t ∧ g.r.st.store.has nd.e) ∧
    (∀ i nd, g.r.st.store.get? i = some nd →
      rcGet g.r.rc i = 1 + extCnt g.hs i + parents g.r.st.store i) ∧
    SwapStoreC.Inv (extOfHs g.hs) (toS g.r g.n) := by
  intro g
  have h := (run_inv hc hist).1
  exact ⟨h.shape.ord, h.shape.bound, h.shape.nored, h.shape.uniq, h.cache, h.perm,
    ⟨h.rc.ext_ok, h.rc.kids_ok⟩, h.rc.rc_eq, h.sinv⟩

/-- **`global_semantics`** (BCDD) -/
theorem global_semantics {c : Cfg} (hc : c.OK) (hist : List Step) :
    let g := run c hist
    let es := (runT c hist).2
    es.length = g.hs.length ∧
    ∀ (i : Nat) (x : EdgeC), g.hs[i]? = some x → ∃ (e : Expr) (a : Edge), es[i]? = some e ∧
      DenotesC g.r.st.store x a ∧ a.NF 0 ∧ ∀ ρ, evalL g.l2v ρ a = e.fn ρ := by
  intro g es
  obtain ⟨hi, hs⟩ := run_inv hc hist
  refine ⟨forall₂_length hs, fun i x hx => ?_⟩
  obtain ⟨e, he, t, hd, hev⟩ := forall₂_get hs hx
  exact ⟨e, t, he, hd, hi.nf hd, hev⟩

theorem ghost_unchanged (c : Cfg) (g : GSt) (es : List Expr) :
    track c g es .gc = es ∧ (∀ k, track c g es (.addVars k) = es) ∧
    (∀ o, track c g es (.setVarOrder o) = es) ∧
    (∀ s r', opRes c g s = some (none, r') → (∀ a, s ≠ .clone a) → (∀ a, s ≠ .drop a) →
      track c g es s = es) := by
  refine ⟨rfl, fun _ => rfl, fun _ => rfl, ?_⟩
  intro s r' h h1 h2
  cases s with
  | clone a => exact absurd rfl (h1 a)
  | drop a => exact absurd rfl (h2 a)
  | gc => rfl
  | addVars k => rfl
  | setVarOrder o => rfl
  | var cap v neg => simp only [track, h]
  | not a => simp only [track, h]
  | bin cap op a b => simp only [track, h]
  | ite cap a b d => simp only [track, h]

theorem handles_unchanged (c : Cfg) (g : GSt) :
    (step c g .gc).hs = g.hs ∧ (∀ k, (step c g (.addVars k)).hs = g.hs) ∧
    (∀ o, (step c g (.setVarOrder o)).hs = g.hs) := by
  refine ⟨rfl, fun _ => rfl, fun o => ?_⟩
  simp only [step, reorder]
  split <;> rfl

/-- **`global_canonical`** (C01, BCDD): same tagged edge iff same function of the variables -/
theorem global_canonical {c : Cfg} (hc : c.OK) (hist : List Step) :
    let g := run c hist
    let es := (runT c hist).2
    ∀ (i j : Nat) (x y : EdgeC) (ex ey : Expr), g.hs[i]? = some x → g.hs[j]? = some y →
      es[i]? = some ex → es[j]? = some ey → (x = y ↔ ∀ ρ, ex.fn ρ = ey.fn ρ) := by
  intro g es i j x y ex ey hx hy hex hey
  obtain ⟨hi, hs⟩ := run_inv hc hist
  obtain ⟨ex', hex', tx, hdx, hevx⟩ := forall₂_get hs hx
  obtain ⟨ey', hey', ty, hdy, hevy⟩ := forall₂_get hs hy
  have e1 : ex' = ex := by
    have : es[i]? = some ex' := hex'
    rw [hex] at this; cases this; rfl
  have e2 : ey' = ey := by
    have : es[j]? = some ey' := hey'
    rw [hey] at this; cases this; rfl
  subst e1 e2
  constructor
  · intro hxy ρ
    subst hxy
    rw [← hevx ρ, ← hevy ρ, hdx.functional hdy]
  · intro hfn
    have htt : tx = ty := (bcdd_canonical tx ty 0 (hi.nf hdx) (hi.nf hdy)).mpr
      (eval_of_evalL hi.perm (fun ρ => by rw [hevx ρ, hevy ρ, hfn ρ]))
    subst htt
    exact denotesC_inj hi.shape.uniq hdx hdy

theorem global_canonical_den {c : Cfg} (hc : c.OK) (hist : List Step) :
    let g := run c hist
    ∀ (x y : EdgeC) (tx ty : Edge), x ∈ g.hs → y ∈ g.hs → DenotesC g.r.st.store x tx →
      DenotesC g.r.st.store y ty → (x = y ↔ ∀ ρ, evalL g.l2v ρ tx = evalL g.l2v ρ ty) := by
  intro g x y tx ty _ _ hdx hdy
  have hi := (run_inv hc hist).1
  constructor
  · intro hxy ρ; subst hxy; rw [hdx.functional hdy]
  · intro hfn
    have htt : tx = ty := (bcdd_canonical tx ty 0 (hi.nf hdx) (hi.nf hdy)).mpr
      (eval_of_evalL hi.perm hfn)
    subst htt
    exact denotesC_inj hi.shape.uniq hdx hdy

theorem reach_sub {s s' : StoreC} {ext : List EdgeC} (hsub : Rc.Sub s' s) {i : Nat}
    (h : Reach s' ext i) : Reach s ext i := by
  induction h with
  | root hm ht => exact .root hm ht
  | kid _ hp hk ih => exact .kid ih (hsub _ _ hp) hk

/-- **`global_gc_exact`** (C05, BCDD) -/
theorem global_gc_exact {c : Cfg} (hc : c.OK) (hist : List Step) :
    let g := run c hist
    let g' := step c g .gc
    GInv g' ∧ g'.hs = g.hs ∧ g'.gcCount = g.gcCount + 1 ∧ g'.r.st.cache = [] ∧
    (∀ i, (∃ nd, g'.r.st.store.get? i = some nd) ↔ Reach g.r.st.store g.hs i) ∧
    (∀ i, (∃ nd, g'.r.st.store.get? i = some nd) ↔ Reach g'.r.st.store g'.hs i) ∧
    (∀ i nd, g'.r.st.store.get? i = some nd → g.r.st.store.get? i = some nd) ∧
    (g.hs = [] → g'.r.st.store.count = 0) := by
  intro g g'
  obtain ⟨hi, hs⟩ := run_inv hc hist
  have hi' : GInv g' := (step_inv hc hi hs .gc).1
  obtain ⟨_, hex, hsub, _⟩ := C05R.gcR_exact g.n g.r g.hs hi.rc hi.shape.ord hi.shape.bound
  have hcache := (C05R.gcR_sound g.n g.r g.hs hi.rc).2.1
  refine ⟨hi', rfl, rfl, hcache, hex, fun i => ?_, hsub, fun hnil => ?_⟩
  · constructor
    · intro h
      have hr := (hex i).mp h
      have : ∀ {k}, Reach g.r.st.store g.hs k → Reach (gcR g.n g.r).st.store g.hs k := by
        intro k hk
        induction hk with
        | root hm ht => exact .root hm ht
        | kid hp hget hkid ih =>
          obtain ⟨n', h1, h2⟩ := gcR_keeps_reach g.n hi.rc hp
          rw [hget] at h1; cases h1
          exact .kid ih h2 hkid
      exact this hr
    · intro h
      exact (hex i).mpr (reach_sub hsub h)
  · have := C05R.all_dropped_empty g.n g.r (hnil ▸ hi.rc) hi.shape.ord hi.shape.bound
    exact this.2

/-- **`global_node_count`** (C03, BCDD): `node_count` of a handle is the number of nodes (inner
nodes + the terminal; tags do not count) of THE reduced ordered complement-edge diagram of its
function under the current order -/
theorem global_node_count {c : Cfg} (hc : c.OK) (hist : List Step) :
    let g := run c hist
    let es := (runT c hist).2
    ∀ (i : Nat) (x : EdgeC) (e : Expr), g.hs[i]? = some x → es[i]? = some e →
      ∀ a : Edge, a.NF 0 → (∀ ρ, evalL g.l2v ρ a = e.fn ρ) →
        ∀ fuel, a.size < fuel → QueriesS.nodeCountS g.r.st.store fuel x = nodeCount a := by
  intro g es i x e hx he t hnf hev fuel hfuel
  obtain ⟨hi, hs⟩ := run_inv hc hist
  obtain ⟨e', he', t0, hd, hev0⟩ := forall₂_get hs hx
  have e1 : e' = e := by
    have : es[i]? = some e' := he'
    rw [he] at this; cases this; rfl
  subst e1
  have htt : t = t0 := (bcdd_canonical t t0 0 hnf (hi.nf hd)).mpr
    (eval_of_evalL hi.perm (fun ρ => by rw [hev ρ, hev0 ρ]))
  subst htt
  exact QueriesS.nodeCountS_spec g.r.st.store hi.shape.uniq x t hd fuel hfuel

/-! ## non-vacuity: one history with every kind of step -/

theorem cfg_std_ok : Cfg.std.OK :=
  ⟨Policy.exact_ok, SwapStoreC.allocOK_firstFree, SwapStore.orderOK_id⟩

/-- as `Bdd.Global.exHist`: `f = ite(x0, x1, x2)`, a clone, `x1 ⊕ x2` under capacity 4
(OutOfMemory), drops, `gc`, `set_var_order [2, 0]`, the second route `(x0 ∧ x1) ∨ (¬x0 ∧ x2)` with
fresh variable handles (`¬x0` is a tag flip), `gc`, `add_vars 1` -/
def exHist : List Step :=
  [.addVars 3,
   .var 10 0 false, .var 10 1 false, .var 10 2 false,
   .ite 10 2 1 0,
   .clone 0,
   .bin 4 .xor 3 2,
   .drop 2, .drop 2, .drop 2, .drop 0,
   .gc,
   .setVarOrder [2, 0],
   .var 10 0 false, .var 10 1 false, .var 10 2 false,
   .bin 10 .and 2 1,
   .not 3,
   .bin 10 .and 0 2,
   .bin 10 .or 2 0,
   .gc,
   .addVars 1]

/-- the failed `xor`: no new handle, no new node -/
example : (run Cfg.std (exHist.take 6)).hs = (run Cfg.std (exHist.take 7)).hs ∧
    (run Cfg.std (exHist.take 7)).r.st.store.count = 4 := by decide +kernel

/-- after the drops and the collection the three nodes of `f` remain; under the new order `f`
needs four -/
example : (run Cfg.std (exHist.take 12)).r.st.store.count = 3 ∧
    (run Cfg.std (exHist.take 13)).r.st.store.count = 4 ∧
    (run Cfg.std (exHist.take 13)).hs = [⟨false, .inner 3⟩] ∧
    (run Cfg.std (exHist.take 13)).l2v = [1, 2, 0] ∧
    (run Cfg.std (exHist.take 13)).v2l = [2, 0, 1] := by decide +kernel

/-- **the two routes give the same tagged edge** (first and last handle); `¬x0` is the handle
`(true, inner 1)` on the node of `x0` -/
theorem exHist_run :
    (run Cfg.std exHist).hs =
      [⟨false, .inner 3⟩, ⟨true, .inner 4⟩, ⟨true, .inner 1⟩, ⟨false, .inner 6⟩, ⟨false, .inner 5⟩,
       ⟨false, .inner 2⟩, ⟨false, .inner 1⟩, ⟨false, .inner 3⟩] ∧
    (run Cfg.std exHist).l2v = [1, 2, 0, 3] ∧ (run Cfg.std exHist).v2l = [2, 0, 1, 3] ∧
    (run Cfg.std exHist).n = 4 ∧ (run Cfg.std exHist).gcCount = 3 ∧
    (run Cfg.std exHist).r.rc = #[2, 6, 2, 3, 3, 2, 2] := by decide +kernel

theorem exHist_ghost :
    (runT Cfg.std exHist).2 =
      [.bin .or (.bin .and (.var 0 false) (.var 1 false))
          (.bin .and (.not (.var 0 false)) (.var 2 false)),
       .bin .and (.not (.var 0 false)) (.var 2 false),
       .not (.var 0 false),
       .bin .and (.var 0 false) (.var 1 false),
       .var 2 false, .var 1 false, .var 0 false,
       .ite (.var 0 false) (.var 1 false) (.var 2 false)] := by decide +kernel

example : GInv (run Cfg.std exHist) := (run_inv cfg_std_ok exHist).1

/-- `global_canonical` on the example -/
example : ∀ ρ : Nat → Bool, ((ρ 0 && ρ 1) || (!ρ 0 && ρ 2)) = (if ρ 0 then ρ 1 else ρ 2) := by
  have h := global_canonical cfg_std_ok exHist 0 7 ⟨false, .inner 3⟩ ⟨false, .inner 3⟩ _ _
    (by rw [exHist_run.1]; rfl) (by rw [exHist_run.1]; rfl)
    (by rw [exHist_ghost]; rfl) (by rw [exHist_ghost]; rfl)
  exact h.mp rfl

/-- `x0` and `¬x0`: the same node, different tags, different edges, different functions -/
example : (run Cfg.std exHist).hs[2]? = some ⟨true, .inner 1⟩ ∧
    (run Cfg.std exHist).hs[6]? = some ⟨false, .inner 1⟩ := by
  rw [exHist_run.1]; decide

/-- `global_node_count` on the example: 3 inner nodes + terminal before, 4 + terminal after the
reordering -/
example : QueriesS.nodeCountS (run Cfg.std (exHist.take 12)).r.st.store 20 ⟨false, .inner 3⟩ = 4 ∧
    QueriesS.nodeCountS (run Cfg.std (exHist.take 13)).r.st.store 20 ⟨false, .inner 3⟩ = 5 := by
  decide +kernel

/-- dropping every handle and collecting empties the store -/
example : (run Cfg.std (exHist ++ [.drop 0, .drop 0, .drop 0, .drop 0, .drop 0, .drop 0, .drop 0,
    .drop 0, .gc])).r.st.store.count = 0 := by decide +kernel

end OxiddModel.Bcdd.Global
