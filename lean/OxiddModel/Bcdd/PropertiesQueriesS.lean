import OxiddModel.Bcdd.QueriesS

/-!
# Headline theorems: the read-only queries of the complement-edge BDD rules at store level, under
# any variable order (C02: `eval`, `var`, `not_var`, `cofactors`, `satisfiable`, `valid`;
# C03: `node_count`)

`o` ranges over all orders with `PermOK`, `s` over all stores, `e` over all tagged edges that
denote a tree edge, argument lists over all lists.
-/
namespace OxiddModel.Bcdd.QueriesS
open OxiddModel.Bcdd OxiddModel.Bcdd.CNode OxiddModel.Bcdd.Refine OxiddModel.OrderS OxiddModel

/-! ## eval -/

/-- **C02 `eval`.** Table filling through `var_to_level`, then the walk that accumulates the
complement tags of the edges on the path: the result is the value of the denoted function under the
assignment described by the argument list (last value of a repeated variable counts), for every
order with mutually inverse maps. -/
theorem evalS_spec (o : Order) (hp : PermOK o) (s : StoreC) (e : EdgeC) (a : Edge)
    (args : List (Nat × Bool)) (hargs : ∀ x ∈ args, x.1 < o.n) (hd : DenotesC s e a)
    (fuel : Nat) (hf : a.size ≤ fuel) :
    evalS o s fuel e args = evalV o (rhoArgs args) a := by
  obtain ⟨en, et⟩ := e
  obtain ⟨an, at_⟩ := a
  obtain ⟨h1, h2⟩ := hd
  simp only at h1 h2
  subst h1
  unfold evalS
  rw [walkS_eq s _ _ (fillChoices_get o hp args hargs) h2 fuel false en hf]
  simp [evalV, Edge.eval]

/-- the value is the parity of the complement tags along the path: complementing the handle
complements the result -/
theorem evalS_not (o : Order) (hp : PermOK o) (s : StoreC) (e : EdgeC) (a : Edge)
    (args : List (Nat × Bool)) (hargs : ∀ x ∈ args, x.1 < o.n) (hd : DenotesC s e a)
    (fuel : Nat) (hf : a.size ≤ fuel) :
    evalS o s fuel (notE e) args = !evalS o s fuel e args := by
  rw [evalS_spec o hp s _ _ args hargs hd.not fuel hf, evalS_spec o hp s _ _ args hargs hd fuel hf]
  simp [evalV, applyNot, Edge.eval]

/-! ## var, not_var -/

/-- **C02 `var` / `not_var`.** The node built at `var_to_level(v)` denotes the projection on
variable `v`, its complemented edge the negated projection; the store is only extended and stays
duplicate free. -/
theorem varS_spec (o : Order) (hp : PermOK o) (s : StoreC) (v : Nat) :
    s.Le (varS o s v).1 ∧ (s.Unique → (varS o s v).1.Unique) ∧
    DenotesC (varS o s v).1 (varS o s v).2 (var (o.lvl v)) ∧
    DenotesC (notVarS o s v).1 (notVarS o s v).2 (notVar (o.lvl v)) ∧
    ∀ ρ, evalV o ρ (var (o.lvl v)) = ρ v ∧ evalV o ρ (notVar (o.lvl v)) = !ρ v := by
  have hd : DenotesC (varS o s v).1 (varS o s v).2 (var (o.lvl v)) :=
    ⟨rfl, .inner (getOrInsert_get s _) .term .term⟩
  refine ⟨getOrInsert_le s _, fun hu => getOrInsert_unique s _ hu, hd, hd.not, fun ρ => ?_⟩
  have := bcdd_const_var_sem (o.lvl v) (fun l => ρ (o.var l))
  simp only [hp.var_lvl] at this
  exact ⟨this.2.2.1, this.2.2.2⟩

/-- `var` then `eval`: the two maps are used consistently. -/
theorem evalS_varS (o : Order) (hp : PermOK o) (s : StoreC) (v : Nat)
    (args : List (Nat × Bool)) (hargs : ∀ a ∈ args, a.1 < o.n) (fuel : Nat) (hf : 3 ≤ fuel) :
    evalS o (varS o s v).1 fuel (varS o s v).2 args = rhoArgs args v ∧
    evalS o (notVarS o s v).1 fuel (notVarS o s v).2 args = !rhoArgs args v := by
  obtain ⟨_, _, hd, hd', hs⟩ := varS_spec o hp s v
  exact ⟨by rw [evalS_spec o hp _ _ _ args hargs hd fuel (by simpa [var, Edge.size, CNode.size] using hf),
      (hs _).1],
    by rw [evalS_spec o hp _ _ _ args hargs hd' fuel
      (by simpa [notVar, Edge.size, CNode.size] using hf), (hs _).2]⟩

/-! ## cofactors -/

/-- **C02 `cofactors`.** The terminal has none; for an inner node the pair returned — the
children with the incoming tag pushed into them — denote the Shannon cofactors of the handle with
respect to its top-most VARIABLE `level_to_var(level(root))`. -/
theorem cofactorsS_spec (o : Order) (hp : PermOK o) (s : StoreC) :
    (∀ b, cofactorsS s ⟨b, .term⟩ = none) ∧
    ∀ (x : EdgeC) (neg en : Bool) (l : Nat) (t e : CNode) (n : Nat),
      DenotesC s x ⟨neg, .node l t en e⟩ → (⟨neg, .node l t en e⟩ : Edge).NF n →
      ∃ xt xe, cofactorsS s x = some (xt, xe) ∧ cofactorTrueS s x = some xt ∧
        cofactorFalseS s x = some xe ∧
        DenotesC s xt (cofT ⟨neg, .node l t en e⟩) ∧ DenotesC s xe (cofE ⟨neg, .node l t en e⟩) ∧
        ∀ ρ, evalV o ρ (cofT ⟨neg, .node l t en e⟩)
               = evalV o (updV ρ (o.var l) true) ⟨neg, .node l t en e⟩ ∧
             evalV o ρ (cofE ⟨neg, .node l t en e⟩)
               = evalV o (updV ρ (o.var l) false) ⟨neg, .node l t en e⟩ := by
  refine ⟨fun _ => rfl, ?_⟩
  intro x neg en l t e n hd hnf
  obtain ⟨xn, xt⟩ := x
  obtain ⟨h1, h2⟩ := hd
  simp only at h1 h2
  subst h1
  cases h2 with
  | @inner i _ ct _ ce _ _ hi ht he =>
    refine ⟨pushTag xn ⟨false, ct⟩, pushTag xn ⟨en, ce⟩, by simp [cofactorsS, hi],
      by simp [cofactorTrueS, cofactorsS, hi], by simp [cofactorFalseS, cofactorsS, hi], ?_, ?_,
      fun ρ => ?_⟩
    · cases xn <;> exact ⟨rfl, ht⟩
    · cases xn
      · exact ⟨by simp [pushTag, cofE], he⟩
      · exact ⟨by simp [pushTag, cofE], he⟩
    · have := bcdd_cofactors_shannon xn en l t e n hnf (fun k => ρ (o.var k))
      unfold evalV
      rw [updV_var o hp, updV_var o hp]
      exact this

/-! ## node_count -/

/-- **C03 `node_count` (graph reading).** The number of distinct nodes reachable from the root —
the terminal included, tags ignored —, i.e. the length of any duplicate-free enumeration of the
reachable node ids. -/
theorem nodeCountS_reach (s : StoreC) (e : EdgeC) (a : Edge) (hd : DenotesC s e a) (fuel : Nat)
    (hf : a.size < fuel) (L : List Tgt) (hL : L.Nodup)
    (hm : ∀ y, y ∈ L ↔ VisitS.Reach (kidsS s) e.tgt y) : nodeCountS s fuel e = L.length :=
  VisitS.count_unique (kidsS s) _ fuel e.tgt (ranked_of_denotes hd.2)
    (by rw [den_eq hd.2]; exact hf) L hL hm

/-- … independent of the order in which the children are visited -/
theorem nodeCountS_order_independent (s : StoreC) (e : EdgeC) (a : Edge) (hd : DenotesC s e a)
    (fuel : Nat) (hf : a.size < fuel) (kids' : Tgt → List Tgt)
    (h : ∀ x y, y ∈ kids' x ↔ y ∈ kidsS s x) :
    VisitS.count kids' fuel e.tgt = nodeCountS s fuel e :=
  VisitS.visit_order_independent (kidsS s) kids' _ h fuel e.tgt (ranked_of_denotes hd.2)
    (by rw [den_eq hd.2]; exact hf)

/-- complement tags do not count: a handle and its complement have the same node count -/
theorem nodeCountS_not (s : StoreC) (fuel : Nat) (e : EdgeC) :
    nodeCountS s fuel (notE e) = nodeCountS s fuel e := rfl

/-- **C03 `node_count` (tree reading).** In a duplicate-free store the count is the tree-level
`nodeCount` of the denoted edge: its number of distinct inner nodes plus one for the terminal. -/
theorem nodeCountS_spec (s : StoreC) (hu : s.Unique) (e : EdgeC) (a : Edge) (hd : DenotesC s e a)
    (fuel : Nat) (hf : a.size < fuel) : nodeCountS s fuel e = nodeCount a := by
  obtain ⟨hn, hm⟩ := VisitS.visit_count (kidsS s) _ fuel e.tgt (ranked_of_denotes hd.2)
    (by rw [den_eq hd.2]; exact hf)
  have hden : ∀ y, y ∈ VisitS.visit (kidsS s) fuel [] e.tgt → ∃ ny, SubT ny a.n ∧ DenN s y ny :=
    fun y hy => reach_denotes ((hm y).mp hy) hd.2
  have hL : ((VisitS.visit (kidsS s) fuel [] e.tgt).map (den s)).Nodup := by
    rw [List.Nodup, List.pairwise_map]
    refine List.Pairwise.imp_of_mem ?_ hn
    intro x y hx hy hxy heq
    obtain ⟨tx, _, htx⟩ := hden x hx
    obtain ⟨ty, _, hty⟩ := hden y hy
    rw [den_eq htx, den_eq hty] at heq
    subst heq
    exact hxy (injN_of_unique hu _ _ _ htx hty)
  have hmem : ∀ x, x ∈ (VisitS.visit (kidsS s) fuel [] e.tgt).map (den s) ↔ SubT x a.n := by
    intro x
    rw [List.mem_map]
    constructor
    · rintro ⟨y, hy, rfl⟩
      obtain ⟨ny, hs, hny⟩ := hden y hy
      rw [den_eq hny]; exact hs
    · intro hs
      obtain ⟨y, hr, hy⟩ := subT_reach hd.2 x hs
      exact ⟨y, (hm y).mpr hr, den_eq hy⟩
  have htop : CNode.top ∈ (VisitS.visit (kidsS s) fuel [] e.tgt).map (den s) :=
    (hmem _).mpr (.inl rfl)
  have hlen := nodup_length_filter_ne _ CNode.top hL htop
  have hfil := (nodeCount_innerNodes a).2.2
    (((VisitS.visit (kidsS s) fuel [] e.tgt).map (den s)).filter (fun x => !decide (x = CNode.top)))
    (hL.filter _) (fun x => by
      rw [List.mem_filter, hmem]
      constructor
      · rintro ⟨h | h, h2⟩
        · simp [h] at h2
        · exact h
      · intro h
        exact ⟨.inr h, by simp [sub_ne_top h]⟩)
  unfold nodeCountS VisitS.count
  rw [← hfil, ← hlen, List.length_map]

/-- **C03, last clause.** Handles of normal-form diagrams of the same function of the variables
are the same edge, handles of complementary functions differ in the tag only; both have the same
node count: it is the size of THE reduced ordered complement-edge diagram of that function. -/
theorem nodeCountS_canonical (o : Order) (hp : PermOK o) (s : StoreC) (hu : s.Unique)
    (e e' : EdgeC) (a a' : Edge) (n : Nat) (hd : DenotesC s e a) (hd' : DenotesC s e' a')
    (hnf : a.NF n) (hnf' : a'.NF n)
    (hsem : (∀ ρ, evalV o ρ a = evalV o ρ a') ∨ (∀ ρ, evalV o ρ a = !evalV o ρ a')) (fuel : Nat) :
    nodeCountS s fuel e = nodeCountS s fuel e' ∧ (e = e' ∨ e = notE e') := by
  rcases hsem with hsem | hsem
  · have haa : a = a' := (bcdd_canonical a a' n hnf hnf').mpr (fun σ => by
      rw [← evalV_lvl o hp σ a, ← evalV_lvl o hp σ a']; exact hsem _)
    subst haa
    have := denotesC_inj hu hd hd'
    subst this
    exact ⟨rfl, .inl rfl⟩
  · have haa : a = applyNot a' := (bcdd_canonical a (applyNot a') n hnf (bcdd_not_nf a' n hnf')).mpr
      (fun σ => by
        rw [bcdd_not_sem, ← evalV_lvl o hp σ a, ← evalV_lvl o hp σ a']; exact hsem _)
    subst haa
    have := denotesC_inj hu hd hd'.not
    subst this
    exact ⟨rfl, .inr rfl⟩

/-! ## satisfiable, valid -/

/-- **C02 `satisfiable` / `valid`** = `∃ ρ` / `∀ ρ` over assignments of the variables. -/
theorem satisfiableS_validS_spec (o : Order) (hp : PermOK o) (s : StoreC) (e : EdgeC) (a : Edge)
    (n : Nat) (hd : DenotesC s e a) (hnf : a.NF n) :
    (satisfiableS e = true ↔ ∃ ρ, evalV o ρ a = true) ∧
    (validS e = true ↔ ∀ ρ, evalV o ρ a = true) := by
  obtain ⟨h1, h2⟩ := bcdd_sat_valid a n hnf
  have hterm : ∀ b, e = termC b ↔ a = terminal b := by
    intro b
    constructor
    · intro h; subst h; exact DenotesC.functional hd (DenotesC.term s b)
    · intro h; subst h
      obtain ⟨en, et⟩ := e
      obtain ⟨g1, g2⟩ := hd
      simp only [terminal] at g1 g2
      cases g2
      simp [termC, g1]
  constructor
  · simp only [satisfiableS, bne_iff_ne, ne_eq, hterm]
    rw [← ne_eq, h1]
    constructor
    · rintro ⟨σ, hσ⟩; exact ⟨fun v => σ (o.lvl v), by rw [evalV_lvl o hp]; exact hσ⟩
    · rintro ⟨ρ, hρ⟩; exact ⟨_, hρ⟩
  · simp only [validS, beq_iff_eq, hterm]
    rw [h2]
    constructor
    · intro h ρ; exact h _
    · intro h σ; rw [← evalV_lvl o hp σ a]; exact h _

/-! ## non-vacuity under the 3-cycle order -/

/-- slots: 0 = (level 2; ⊤, ¬⊤), 1 = (level 1; ⊤, #0), 2 = (level 0; #0, ¬#1) — `exEdge` of
`Properties.lean` is `¬#2` —, 3 = (level 0; #0, ¬#0): slot 0 reached through a regular and
through a complemented edge -/
def exStore : StoreC :=
  ⟨#[some ⟨2, .term, ⟨true, .term⟩⟩, some ⟨1, .term, ⟨false, .inner 0⟩⟩,
     some ⟨0, .inner 0, ⟨true, .inner 1⟩⟩, some ⟨0, .inner 0, ⟨true, .inner 0⟩⟩]⟩

theorem exStore_denotes : DenotesC exStore ⟨true, .inner 2⟩ exEdge :=
  ⟨rfl, .inner (i := 2) rfl (.inner (i := 0) rfl .term .term)
    (.inner (i := 1) rfl .term (.inner (i := 0) rfl .term .term))⟩

theorem exEdge_nf : exEdge.NF 0 := by
  refine ⟨.node (by omega) (.node (by omega) .top .top)
    (.node (by omega) .top (.node (by omega) .top .top)), ?_⟩
  simp [exEdge, Reduced]

theorem exStore_unique : exStore.Unique := by
  intro i j n hi hj
  have key : ∀ k, exStore.get? k = some n → k < 4 := by
    intro k hk
    apply Classical.byContradiction
    intro hge
    have : exStore.nodes[k]? = none := Array.getElem?_eq_none (by simp [exStore]; omega)
    simp [StoreC.get?, this] at hk
  have hi3 := key i hi
  have hj3 := key j hj
  have hi' : i = 0 ∨ i = 1 ∨ i = 2 ∨ i = 3 := by omega
  have hj' : j = 0 ∨ j = 1 ∨ j = 2 ∨ j = 3 := by omega
  rcases hi' with rfl | rfl | rfl | rfl <;> rcases hj' with rfl | rfl | rfl | rfl <;>
    first | rfl | (simp [StoreC.get?, exStore] at hi hj; rw [← hi] at hj; simp at hj)

/-- `exEdge = x2 ? ¬x1 : (x0 ∨ x1)` under the 3-cycle order (level 0 carries variable 2, level 1
variable 0, level 2 variable 1); variable 2 named twice; 4 nodes; slot 3 (`x2 xor x1`, complemented):
3 nodes although slot 0 is entered with both tags -/
example :
    evalS threeCycle exStore 10 ⟨true, .inner 2⟩ [(2, false), (0, false), (1, true), (2, true)] = false ∧
    evalS threeCycle exStore 10 ⟨true, .inner 2⟩ [(2, false), (0, false), (1, true)] = true ∧
    nodeCountS exStore 10 ⟨true, .inner 2⟩ = 4 ∧ nodeCount exEdge = 4 ∧
    nodeCountS exStore 10 ⟨true, .inner 3⟩ = 3 ∧
    cofactorsS exStore ⟨true, .inner 2⟩ = some (⟨true, .inner 0⟩, ⟨false, .inner 1⟩) ∧
    satisfiableS ⟨true, .inner 2⟩ = true ∧ validS ⟨true, .inner 2⟩ = false := by decide

example := evalS_spec threeCycle threeCycle_ok exStore _ exEdge
  [(2, false), (0, false), (1, true), (2, true)] (by decide) exStore_denotes 10 (by decide)
example := nodeCountS_spec exStore exStore_unique _ exEdge exStore_denotes 10 (by decide)
example := (cofactorsS_spec threeCycle threeCycle_ok exStore).2 _ true true 0 _ _ 0 exStore_denotes
  exEdge_nf
example := satisfiableS_validS_spec threeCycle threeCycle_ok exStore _ exEdge 0 exStore_denotes
  exEdge_nf
example := varS_spec threeCycle threeCycle_ok exStore 1
example := evalS_varS threeCycle threeCycle_ok exStore 0 [(0, false), (0, true)] (by decide) 3
  (by decide)

/-! ## negative witnesses -/

/-- `eval_edge` with `level_to_var` where `var_to_level` belongs -/
def evalS_l2v (o : Order) (s : StoreC) (fuel : Nat) (e : EdgeC) (args : List (Nat × Bool)) : Bool :=
  walkS s (args.foldl (fun ch a => ch.setIfInBounds (o.var a.1) (!a.2)) (Array.replicate o.n false))
    fuel false e

/-- `eval_edge` without the tag of the root edge (the walk starting at the node) -/
def evalS_noRootTag (o : Order) (s : StoreC) (fuel : Nat) (e : EdgeC) (args : List (Nat × Bool)) :
    Bool :=
  walkS s (fillChoices o args) fuel false ⟨false, e.tgt⟩

/-- the store after `var(0)` on a fresh manager with the 3-cycle order -/
def varStore : StoreC := ⟨#[some ⟨1, .term, ⟨true, .term⟩⟩]⟩

/-- Under the 3-cycle order: `eval` with the wrong map gives `true` for the handle of variable 0
although the list sets it to `false`; `var` with the wrong map denotes another variable's
projection; dropping the root tag gives the complement for `not_var`. -/
theorem wrong_map_fails :
    let args := [(0, false), (1, true), (2, true)]
    DenotesC varStore ⟨false, .inner 0⟩ (var (threeCycle.lvl 0)) ∧
    evalS threeCycle varStore 3 ⟨false, .inner 0⟩ args = false ∧ rhoArgs args 0 = false ∧
    evalS_l2v threeCycle varStore 3 ⟨false, .inner 0⟩ args = true ∧
    evalS_noRootTag threeCycle varStore 3 ⟨true, .inner 0⟩ args
      ≠ evalS threeCycle varStore 3 ⟨true, .inner 0⟩ args ∧
    (∀ s, DenotesC (varS_l2v threeCycle s 0).1 (varS_l2v threeCycle s 0).2 (var (threeCycle.var 0))) ∧
    evalV threeCycle (rhoArgs args) (var (threeCycle.var 0)) ≠ rhoArgs args 0 :=
  ⟨⟨rfl, .inner (i := 0) rfl .term .term⟩, by decide, by decide, by decide, by decide,
    fun s => ⟨rfl, .inner (getOrInsert_get s _) .term .term⟩, by decide⟩

end OxiddModel.Bcdd.QueriesS
