import OxiddModel.Bcdd.Ite
import OxiddModel.Bcdd.Canon

/-! `set_pop`, `quant`: quantification over a variable set equals the iterated combination
(`∧`/`∨`/`⊕`) of the two cofactors for each variable of the set. -/
namespace OxiddModel.Bcdd
open CNode

/-- the variables (levels) of a variable-set diagram: the levels along the then-path, which is
what `set_pop` and `quant` follow -/
def varsOf : CNode → List Nat
  | .top => []
  | .node l t _ _ => l :: varsOf t

/-- reference semantics of quantification: for each listed variable combine the two cofactors -/
def qsem (q : Quant) : List Nat → ((Nat → Bool) → Bool) → (Nat → Bool) → Bool
  | [], F, σ => F σ
  | v :: vs, F, σ => q.sem (qsem q vs F (upd σ v true)) (qsem q vs F (upd σ v false))

/-- `F` depends only on the levels `≥ n` -/
def DepGE (n : Nat) (F : (Nat → Bool) → Bool) : Prop :=
  ∀ σ τ, (∀ v, n ≤ v → σ v = τ v) → F σ = F τ

theorem depGE_eval {n : Nat} {f : Edge} (h : Ordered n f.n) : DepGE n (fun τ => f.eval τ) :=
  fun σ τ hστ => Edge.eval_indep h σ τ hστ

theorem DepGE.mono {n m : Nat} {F} (h : DepGE n F) (hmn : m ≤ n) : DepGE m F :=
  fun σ τ hστ => h σ τ (fun v hv => hστ v (by omega))

theorem qsem_congr (q : Quant) (vs : List Nat) (F G : (Nat → Bool) → Bool) (σ : Nat → Bool)
    (h : ∀ τ, (∀ w, w ∉ vs → τ w = σ w) → F τ = G τ) : qsem q vs F σ = qsem q vs G σ := by
  induction vs generalizing σ with
  | nil => exact h σ (fun _ _ => rfl)
  | cons v vs ih =>
    simp only [qsem]
    rw [ih (upd σ v true), ih (upd σ v false)]
    · intro τ hτ
      exact h τ (fun w hw => by
        rw [hτ w (fun hm => hw (List.mem_cons_of_mem _ hm))]
        exact upd_ne σ false (fun hwv => hw (hwv ▸ List.mem_cons_self)))
    · intro τ hτ
      exact h τ (fun w hw => by
        rw [hτ w (fun hm => hw (List.mem_cons_of_mem _ hm))]
        exact upd_ne σ true (fun hwv => hw (hwv ▸ List.mem_cons_self)))

theorem qsem_dep (q : Quant) (vs : List Nat) {n : Nat} {F} (h : DepGE n F) : DepGE n (qsem q vs F) := by
  induction vs with
  | nil => exact h
  | cons v vs ih =>
    intro σ τ hστ
    simp only [qsem]
    rw [ih (upd σ v true) (upd τ v true), ih (upd σ v false) (upd τ v false)]
    · intro w hw; simp only [upd]; split
      · rfl
      · exact hστ w hw
    · intro w hw; simp only [upd]; split
      · rfl
      · exact hστ w hw

theorem qsem_upd_lt (q : Quant) (vs : List Nat) {n v : Nat} {F} (h : DepGE n F) (hv : v < n) (b : Bool)
    (σ : Nat → Bool) : qsem q vs F (upd σ v b) = qsem q vs F σ :=
  qsem_dep q vs h _ _ (fun w hw => upd_ne σ b (by omega))

/-- `∀`/`∃` over a variable the function does not depend on is the identity -/
theorem qsem_skip {q : Quant} (hq : q ≠ .unique) (vs : List Nat) {n v : Nat} {F} (h : DepGE n F)
    (hv : v < n) (σ : Nat → Bool) : qsem q (v :: vs) F σ = qsem q vs F σ := by
  simp only [qsem, qsem_upd_lt q vs h hv]
  cases q <;> simp_all [Quant.sem]

/-- `∃!` (xor of the cofactors) over a variable the function does not depend on is `⊥` -/
theorem qsem_unique_skip (vs : List Nat) {n v : Nat} {F} (h : DepGE n F)
    (hv : v < n) (σ : Nat → Bool) : qsem .unique (v :: vs) F σ = false := by
  simp only [qsem, qsem_upd_lt .unique vs h hv]
  simp [Quant.sem]

theorem qsem_const {q : Quant} (hq : q ≠ .unique) (vs : List Nat) (c : Bool) (σ : Nat → Bool) :
    qsem q vs (fun _ => c) σ = c := by
  induction vs generalizing σ with
  | nil => rfl
  | cons v vs ih => simp only [qsem, ih]; cases q <;> simp_all [Quant.sem]

theorem varsOf_ge {m : Nat} {n : CNode} (h : Ordered m n) : ∀ v ∈ varsOf n, m ≤ v := by
  induction h with
  | top => intro v hv; cases hv
  | node hl _ _ iht _ =>
    intro v hv
    simp only [varsOf, List.mem_cons] at hv
    rcases hv with rfl | hv
    · exact hl
    · have := iht v hv; omega

/-! ## `set_pop` -/

theorem setPop_ordered (set : Edge) (until_ m : Nat) (h : Ordered m set.n) :
    Ordered m (setPop set until_).n := by
  fun_induction setPop set until_ generalizing m with
  | case1 => exact h
  | case2 => exact h
  | case3 neg l t a a_1 hl ih =>
    cases h with
    | node hm ht _ => exact ih _ (ht.mono (by omega))

theorem setPop_ge (set : Edge) (until_ : Nat) {neg vl vt ven ve}
    (h : setPop set until_ = ⟨neg, .node vl vt ven ve⟩) : until_ ≤ vl := by
  fun_induction setPop set until_ with
  | case1 => cases h
  | case2 neg' l t a a_1 hl => cases h; exact hl
  | case3 neg' l t a a_1 hl ih => exact ih h

theorem setPop_qsem {q : Quant} (hq : q ≠ .unique) (set : Edge) (until_ : Nat) {F} (hF : DepGE until_ F)
    (σ : Nat → Bool) : qsem q (varsOf (setPop set until_).n) F σ = qsem q (varsOf set.n) F σ := by
  fun_induction setPop set until_ with
  | case1 => rfl
  | case2 => rfl
  | case3 neg l t a a_1 hl ih =>
    rw [ih]
    simp only [varsOf]
    exact (qsem_skip hq _ hF (by omega) σ).symm

/-! ## Shannon expansion under `qsem` -/

/-- quantification over variables below `fl` commutes with the Shannon expansion at `fl` -/
theorem qsem_shannon (q : Quant) (vs : List Nat) (fneg fen : Bool) (fl : Nat) (ft fe : CNode)
    (hvs : ∀ v ∈ vs, fl < v) (σ : Nat → Bool) :
    qsem q vs (fun τ => (⟨fneg, .node fl ft fen fe⟩ : Edge).eval τ) σ =
      if σ fl then qsem q vs (fun τ => (⟨fneg, ft⟩ : Edge).eval τ) σ
      else qsem q vs (fun τ => (⟨fneg != fen, fe⟩ : Edge).eval τ) σ := by
  have hfl : fl ∉ vs := fun hm => Nat.lt_irrefl _ (hvs fl hm)
  cases hσ : σ fl
  · simp only [Bool.false_eq_true, if_false]
    exact qsem_congr q vs _ _ σ (fun τ hτ => node_eval_false (by rw [hτ fl hfl, hσ]))
  · simp only [if_true]
    exact qsem_congr q vs _ _ σ (fun τ hτ => node_eval_true (by rw [hτ fl hfl, hσ]))

theorem qsem_cofactor_true (q : Quant) (vs : List Nat) (fneg fen : Bool) (fl : Nat) (ft fe : CNode)
    (hvs : ∀ v ∈ vs, fl < v) (hft : Ordered (fl+1) ft) (σ : Nat → Bool) :
    qsem q vs (fun τ => (⟨fneg, .node fl ft fen fe⟩ : Edge).eval τ) (upd σ fl true) =
      qsem q vs (fun τ => (⟨fneg, ft⟩ : Edge).eval τ) σ := by
  rw [qsem_shannon q vs fneg fen fl ft fe hvs, upd_same, if_pos rfl]
  exact qsem_upd_lt q vs (depGE_eval (f := ⟨fneg, ft⟩) hft) (Nat.lt_succ_self _) true σ

theorem qsem_cofactor_false (q : Quant) (vs : List Nat) (fneg fen : Bool) (fl : Nat) (ft fe : CNode)
    (hvs : ∀ v ∈ vs, fl < v) (hfe : Ordered (fl+1) fe) (σ : Nat → Bool) :
    qsem q vs (fun τ => (⟨fneg, .node fl ft fen fe⟩ : Edge).eval τ) (upd σ fl false) =
      qsem q vs (fun τ => (⟨fneg != fen, fe⟩ : Edge).eval τ) σ := by
  rw [qsem_shannon q vs fneg fen fl ft fe hvs, upd_same]
  simp only [Bool.false_eq_true, if_false]
  exact qsem_upd_lt q vs (depGE_eval (f := ⟨fneg != fen, fe⟩) hfe) (Nat.lt_succ_self _) false σ

/-! ## `quant` -/

theorem combine_eval (q : Quant) (t e : Edge) (σ : Nat → Bool) :
    (q.combine t e).eval σ = q.sem (t.eval σ) (e.eval σ) := by
  cases q <;> simp only [Quant.combine, Quant.sem, applyNot_eval, applyAnd_eval, applyBin_eval, BOp.sem] <;>
    cases t.eval σ <;> cases e.eval σ <;> rfl

theorem combine_nf (q : Quant) (t e : Edge) (n : Nat) (ht : t.NF n) (he : e.NF n) : (q.combine t e).NF n := by
  cases q <;> simp only [Quant.combine]
  · exact applyAnd_nf _ _ n ht he
  · exact applyNot_nf (applyAnd_nf _ _ n (applyNot_nf ht) (applyNot_nf he))
  · exact applyBin_nf _ _ _ n ht he

/-- the variable set handed to the recursive calls / inspected by `quant` after the optional `set_pop` -/
def popVars (q : Quant) (vars : Edge) (l : Nat) : Edge := if q ≠ .unique then setPop vars l else vars

theorem popVars_ordered (q : Quant) (vars : Edge) (l m : Nat) (h : Ordered m vars.n) :
    Ordered m (popVars q vars l).n := by
  unfold popVars; split
  · exact setPop_ordered _ _ _ h
  · exact h

theorem popVars_qsem (q : Quant) (vars : Edge) (l : Nat) {F} (hF : DepGE l F) (σ : Nat → Bool) :
    qsem q (varsOf (popVars q vars l).n) F σ = qsem q (varsOf vars.n) F σ := by
  unfold popVars; split
  · rename_i hq; exact setPop_qsem hq _ _ hF σ
  · rfl

theorem popVars_ge (q : Quant) (vars : Edge) (l : Nat) {neg vl vt ven ve}
    (h : popVars q vars l = ⟨neg, .node vl vt ven ve⟩) (hu : ¬(q = .unique ∧ vl < l)) : l ≤ vl := by
  unfold popVars at h
  split at h
  · exact setPop_ge _ _ h
  · rename_i hq
    have : q = .unique := Classical.not_not.mp hq
    exact Nat.le_of_not_lt (fun hlt => hu ⟨this, hlt⟩)

theorem quant_eval (q : Quant) (fn : CNode) : ∀ (fneg : Bool) (vars : Edge) (n m : Nat),
    Ordered n fn → Ordered m vars.n → ∀ σ,
    (quant q ⟨fneg, fn⟩ vars).eval σ = qsem q (varsOf vars.n) (fun τ => (⟨fneg, fn⟩ : Edge).eval τ) σ := by
  induction fn with
  | top =>
    intro fneg vars n m _ hv σ
    rw [quant]
    have hc : (fun τ => (⟨fneg, CNode.top⟩ : Edge).eval τ) = fun _ => !fneg := by
      funext τ; cases fneg <;> rfl
    rw [hc]
    split
    · rename_i h
      by_cases hq : q ≠ .unique
      · rw [qsem_const hq]; cases fneg <;> rfl
      · simp only [hq, decide_false, Bool.false_or] at h
        cases hvn : vars.n with
        | top => cases fneg <;> rfl
        | node => rw [hvn] at h; cases h
    · rename_i h
      have hq : q = .unique := by
        cases q <;> simp_all
      subst hq
      cases hvn : vars.n with
      | top => rw [hvn] at h; simp [isTop] at h
      | node vl vt ven ve =>
        simp only [varsOf, terminal_eval]
        exact (qsem_unique_skip _ (n := vl + 1) (fun _ _ _ => rfl) (Nat.lt_succ_self _) σ).symm
  | node fl ft fen fe iht ihe =>
    intro fneg vars n m hf hv σ
    have hF : DepGE fl (fun τ => (⟨fneg, CNode.node fl ft fen fe⟩ : Edge).eval τ) :=
      depGE_eval (f := ⟨fneg, .node fl ft fen fe⟩) (by cases hf with | node _ a b => exact .node (Nat.le_refl _) a b)
    rw [quant]
    simp only []
    rw [← popVars_qsem q vars fl hF σ]
    have hpo := popVars_ordered q vars fl m hv
    rw [show (if q ≠ Quant.unique then setPop vars fl else vars) = popVars q vars fl from rfl]
    have hge := @popVars_ge q vars fl
    generalize popVars q vars fl = P at hpo hge ⊢
    obtain ⟨pneg, pn⟩ := P
    cases hf with
    | node hn hft hfe =>
    cases pn with
    | top => rfl
    | node vl vt ven ve =>
      simp only []
      cases hpo with
      | node hm hvt _ =>
      have hvs : ∀ v ∈ varsOf vt, vl < v := fun v hv => varsOf_ge hvt v hv
      split
      · rename_i hu
        simp only [varsOf, terminal_eval]
        rw [hu.1]
        exact (qsem_unique_skip _ hF hu.2 σ).symm
      · rename_i hu
        have hle : fl ≤ vl := hge rfl hu
        split
        · rename_i heq
          subst heq
          simp only [if_true]
          rw [combine_eval, iht fneg ⟨false, vt⟩ _ _ hft hvt σ, ihe (fneg != fen) ⟨false, vt⟩ _ _ hfe hvt σ]
          simp only [varsOf, qsem]
          rw [qsem_cofactor_true q _ fneg fen fl ft fe hvs hft σ, qsem_cofactor_false q _ fneg fen fl ft fe hvs hfe σ]
        · rename_i hne
          have hlt : fl < vl := by omega
          have hne' : ¬vl = fl := fun h => hne h.symm
          simp only [hne', if_false]
          have hvo : Ordered (fl + 1) (CNode.node vl vt ven ve) := .node (by omega) hvt (by assumption)
          rw [mk_eval, iht fneg ⟨pneg, .node vl vt ven ve⟩ _ _ hft hvo σ,
            ihe (fneg != fen) ⟨pneg, .node vl vt ven ve⟩ _ _ hfe hvo σ]
          rw [qsem_shannon q _ fneg fen fl ft fe (fun v hv => by
            have := varsOf_ge hvo v hv; omega) σ]

theorem quant_nf (q : Quant) (fn : CNode) : ∀ (fneg : Bool) (vars : Edge) (n : Nat),
    (⟨fneg, fn⟩ : Edge).NF n → (quant q ⟨fneg, fn⟩ vars).NF n := by
  induction fn with
  | top =>
    intro fneg vars n hf
    rw [quant]
    split
    · exact hf
    · exact terminal_nf n false
  | node fl ft fen fe iht ihe =>
    intro fneg vars n hf
    rw [quant]
    simp only []
    generalize (if q ≠ Quant.unique then setPop vars fl else vars) = P
    obtain ⟨pneg, pn⟩ := P
    cases pn with
    | top => exact hf
    | node vl vt ven ve =>
      simp only []
      have hn := nf_node_le hf
      have ht := fun v => iht fneg v (fl+1) (nf_cofT hf fneg)
      have he := fun v => ihe (fneg != fen) v (fl+1) (nf_cofE hf (fneg != fen))
      split
      · exact terminal_nf n false
      · split
        · exact (combine_nf q _ _ _ (ht _) (he _)).mono (by omega)
        · exact mk_nf hn (ht _) (he _)

end OxiddModel.Bcdd
