import OxiddModel.Bcdd.ApplyCX

/-!
# `quant::<Q>` (`forall`, `exists`, `unique`) on the BCDD store, with the apply cache

`quantS` follows `quant` of `crates/oxidd-rules-bdd/src/complement_edge/apply_rec.rs` step by step:
terminal case → `set_pop(vars, flevel)` (not for `Unique`; `set_pop` follows the raw `child(0)`,
whose tag is `None`) → empty set ⇒ `f` → `Unique` with a variable above `f` ⇒ `⊥` → cache query under
the key `(Forall|Exists|Unique, [f, vars])` — **`f` with its complement tag** (the code as it is in
`/repo` does not dualise the quantifier on a complemented edge: `∃` on `¬g` is memoised under
`(Exists, [¬g, vars])`, not as `¬(Forall, [g, vars])`), **`vars` as popped** → cofactors with
`collect_cofactors(f.tag(), fnode)` (the tag of `f` is pushed to the children) → recursion with
`vt` → if the top variable is quantified: `apply_and(t, e)` / `not(apply_and(not t, not e))` /
`apply_bin::<Xor>(t, e)`, otherwise `reduce` → cache add under the same key.

Fuel: `fuel` bounds the recursion on `f`; `af` is handed to `set_pop` and to the inner `apply_bin`
calls (whose operands are results); `quantNeed q a v` is an amount that suffices.

`quantS_spec`: for every admissible policy, every sound cache (`CacheOKCX`), every store: the result
denotes `quant q a v` for the tree edges `a`, `v` denoted by `f`, `vars`; store only extended;
`Unique`, `CacheOKCX` and `NoRed` preserved (`PostCW`).
-/
namespace OxiddModel.Bcdd.Refine
open OxiddModel.Bcdd OxiddModel.Bcdd.CNode
open OxiddModel.Bdd.Refine (Policy OpTag Key Cache)

/-! ## `set_pop` -/

def Tgt.isTerm : Tgt → Bool
  | .term => true
  | .inner _ => false

theorem isTerm_denN {s : StoreC} {x : Tgt} {a : CNode} (h : DenN s x a) : x.isTerm = a.isTop := by
  cases h <;> rfl

/-- `set_pop` (lib.rs) on edges: `n.child(0)` is the stored then-edge, tag `None` -/
def StoreC.setPopC (s : StoreC) : Nat → EdgeC → Nat → EdgeC
  | 0, set, _ => set
  | fuel+1, set, u =>
    match set.tgt with
    | .term => set
    | .inner i =>
      match s.get? i with
      | none => set -- dangling edge (excluded by `DenotesC`)
      | some n => if n.level ≥ u then set else s.setPopC fuel ⟨false, n.t⟩ u

theorem setPop_top (neg : Bool) (u : Nat) : setPop ⟨neg, .top⟩ u = ⟨neg, .top⟩ := by
  rw [setPop]

theorem setPop_node (neg : Bool) (l : Nat) (t : CNode) (en : Bool) (e : CNode) (u : Nat) :
    setPop ⟨neg, .node l t en e⟩ u =
      if l ≥ u then ⟨neg, .node l t en e⟩ else setPop ⟨false, t⟩ u := by
  rw [setPop]

theorem setPopC_denotes {s : StoreC} (u : Nat) (fuel : Nat) : ∀ {set : EdgeC} {v : Edge},
    DenotesC s set v → v.size ≤ fuel → DenotesC s (s.setPopC fuel set u) (setPop v u) := by
  induction fuel with
  | zero => intro set v _ hsz; have := size_pos v.n; simp only [Edge.size] at hsz; omega
  | succ fuel ih =>
    intro set v h hsz
    obtain ⟨sn, st⟩ := set
    obtain ⟨vn, v⟩ := v
    obtain ⟨h1, h2⟩ := h
    simp only at h1 h2
    subst h1
    cases h2 with
    | term => simp only [StoreC.setPopC, setPop_top]; exact ⟨rfl, .term⟩
    | @inner i l t en e tt te hi ht he =>
      simp only [StoreC.setPopC, hi, setPop_node]
      split
      · exact ⟨rfl, .inner hi ht he⟩
      · simp only [Edge.size, CNode.size] at hsz
        exact ih (set := ⟨false, t⟩) (v := ⟨false, tt⟩) ⟨rfl, ht⟩
          (by simp only [Edge.size]; omega)

theorem setPop_idem_n (n : CNode) : ∀ (neg : Bool) (u : Nat),
    setPop (setPop ⟨neg, n⟩ u) u = setPop ⟨neg, n⟩ u := by
  induction n with
  | top => intro neg u; simp [setPop_top]
  | node l t en e iht _ =>
    intro neg u
    rw [setPop_node]
    split
    · rename_i h; rw [setPop_node, if_pos h]
    · exact iht false u

theorem setPop_idem (v : Edge) (u : Nat) : setPop (setPop v u) u = setPop v u :=
  setPop_idem_n v.n v.neg u

theorem setPop_size_n (n : CNode) : ∀ (neg : Bool) (u : Nat), (setPop ⟨neg, n⟩ u).size ≤ n.size := by
  induction n with
  | top => intro neg u; simp [setPop_top, Edge.size]
  | node l t en e iht _ =>
    intro neg u
    rw [setPop_node]
    split
    · exact Nat.le_refl _
    · have := iht false u; simp only [CNode.size]; omega

theorem popVars_idem (q : Quant) (v : Edge) (fl : Nat) :
    popVars q (popVars q v fl) fl = popVars q v fl := by
  unfold popVars
  split
  · exact setPop_idem v fl
  · rfl

/-! ## tree level: unfolding `quant`, the fuel that suffices -/

/-- `Quant.combine` as one of the eight connectives: `∀` ↦ `and`, `∃` ↦ `or` (which *is*
`not(apply_and(not t, not e))`), `∃!` ↦ `xor` -/
def _root_.OxiddModel.Bcdd.Quant.toOp : Quant → Op
  | .forall_ => .and
  | .exists_ => .or
  | .unique => .xor

theorem combine_eq_applyOp (q : Quant) (t e : Edge) : q.combine t e = applyOp q.toOp t e := by
  cases q <;> rfl

/-- the body of `quant` for an inner node `f`, after the (optional) `set_pop` -/
def quantStep (q : Quant) (fneg : Bool) (fl : Nat) (ft : CNode) (fen : Bool) (fe : CNode)
    (vars' : Edge) : Edge :=
  match vars' with
  | ⟨_, .top⟩ => ⟨fneg, .node fl ft fen fe⟩
  | ⟨vneg, .node vl vt ven ve⟩ =>
    if q = .unique ∧ vl < fl then terminal false else
    if fl = vl then
      applyOp q.toOp (quant q ⟨fneg, ft⟩ ⟨false, vt⟩) (quant q ⟨fneg != fen, fe⟩ ⟨false, vt⟩)
    else
      mk fl (quant q ⟨fneg, ft⟩ ⟨vneg, .node vl vt ven ve⟩)
        (quant q ⟨fneg != fen, fe⟩ ⟨vneg, .node vl vt ven ve⟩)

theorem quant_top (q : Quant) (fneg : Bool) (vars : Edge) :
    quant q ⟨fneg, .top⟩ vars =
      if q ≠ .unique || vars.n.isTop then ⟨fneg, .top⟩ else terminal false := by
  rw [quant]

theorem quant_node (q : Quant) (fneg : Bool) (fl : Nat) (ft : CNode) (fen : Bool) (fe : CNode)
    (vars : Edge) :
    quant q ⟨fneg, .node fl ft fen fe⟩ vars = quantStep q fneg fl ft fen fe (popVars q vars fl) := by
  rw [quant]
  unfold popVars
  generalize (if q ≠ .unique then setPop vars fl else vars) = vars'
  obtain ⟨vneg, vn⟩ := vars'
  cases vn with
  | top => rfl
  | node vl vt ven ve =>
    simp only [quantStep, combine_eq_applyOp]
    by_cases hu : q = .unique ∧ vl < fl
    · simp only [hu, and_self, if_true]
    · simp only [hu, if_false]
      by_cases hlv : fl = vl
      · subst hlv; simp only [if_true]
      · have hvl : ¬ vl = fl := fun h => hlv h.symm
        simp only [hlv, hvl, if_false]

/-- **the cache key is normalised soundly**: quantifying over the popped set is quantifying over
the set -/
theorem quant_popVars (q : Quant) (fneg : Bool) (fl : Nat) (ft : CNode) (fen : Bool) (fe : CNode)
    (vars : Edge) :
    quant q ⟨fneg, .node fl ft fen fe⟩ (popVars q vars fl) =
      quant q ⟨fneg, .node fl ft fen fe⟩ vars := by
  rw [quant_node, quant_node, popVars_idem]

/-- fuel that suffices for `set_pop` and the inner `apply_bin` calls of `quant q ⟨fneg, fn⟩ vars` -/
def quantNeed (q : Quant) : Bool → CNode → Edge → Nat
  | _, .top, _ => 0
  | fneg, .node fl ft fen fe, vars =>
    max vars.size
      (match popVars q vars fl with
       | ⟨_, .top⟩ => 0
       | ⟨vneg, .node vl vt ven ve⟩ =>
         if q = .unique ∧ vl < fl then 0 else
         if fl = vl then
           max (max (quantNeed q fneg ft ⟨false, vt⟩) (quantNeed q (fneg != fen) fe ⟨false, vt⟩))
             ((quant q ⟨fneg, ft⟩ ⟨false, vt⟩).size + (quant q ⟨fneg != fen, fe⟩ ⟨false, vt⟩).size)
         else
           max (quantNeed q fneg ft ⟨vneg, .node vl vt ven ve⟩)
             (quantNeed q (fneg != fen) fe ⟨vneg, .node vl vt ven ve⟩))

/-! ## the algorithm -/

/-- `quant::<Q>` -/
def quantS (p : Policy) (q : Quant) (af : Nat) : Nat → StC → EdgeC → EdgeC → StC × EdgeC
  | 0, st, f, _ => (st, f)
  | fuel+1, st, f, vars =>
    match f.tgt with
    | .term =>
      if q ≠ .unique || vars.tgt.isTerm then (st, f) else (st, termC false)
    | .inner i =>
      match st.store.get? i with
      | none => (st, f) -- dangling edge (excluded by `DenotesC`)
      | some fn =>
        let vars := if q ≠ .unique then st.store.setPopC af vars fn.level else vars
        match vars.tgt with
        | .term => (st, f)
        | .inner j =>
          match st.store.get? j with
          | none => (st, f) -- dangling edge
          | some vn =>
            if q = .unique ∧ vn.level < fn.level then (st, termC false) else
            -- query apply cache: `f` with its tag, the popped `vars`
            match p.get st.tick st.cache (encKeyC (quantKey q f vars)) with
            | some r => (st.tickd, dec r)
            | none =>
              let vt : EdgeC := if vn.level = fn.level then ⟨false, vn.t⟩ else vars
              -- `collect_cofactors(f.tag(), fnode)`
              let r1 := quantS p q af fuel st.tickd ⟨f.neg, fn.t⟩ vt
              let r0 := quantS p q af fuel r1.1 ⟨f.neg != fn.e.neg, fn.e.tgt⟩ vt
              if fn.level = vn.level then
                let r := applyOpS p q.toOp af r0.1 r1.2 r0.2
                addC p r.1 (encKeyC (quantKey q f vars)) r.2
              else
                finishC p r0.1 (encKeyC (quantKey q f vars)) fn.level r1.2 r0.2

/-! ## specification -/

theorem quantKey_means {reg : Nat → List Edge} {s : StoreC} {q : Quant} {f vars : EdgeC}
    {a v : Edge} (hf : DenotesC s f a) (hv : DenotesC s vars v) :
    KeyMeansC reg s (encKeyC (quantKey q f vars)) (quant q a v) :=
  KeyMeansC.of (quantKey_wf q f vars) (DenotesLC.two hf hv) rfl

theorem quantS_spec {p : Policy} (pok : p.OK) (reg : Nat → List Edge) (q : Quant) (af : Nat)
    (fuel : Nat) : ∀ (st : StC) (f vars : EdgeC) (a v : Edge),
    InvCX reg st → DenotesC st.store f a → DenotesC st.store vars v → a.size ≤ fuel →
    quantNeed q a.neg a.n v ≤ af →
    PostCW reg st.store (quant q a v) (quantS p q af fuel st f vars) := by
  induction fuel with
  | zero =>
    intro st f vars a v _ _ _ hsz _
    have := size_pos a.n
    simp only [Edge.size] at hsz
    omega
  | succ fuel ih =>
    intro st f vars a v hinv hf hv hsz hneed
    obtain ⟨fn, ft⟩ := f
    obtain ⟨an, a⟩ := a
    obtain ⟨h1, h2⟩ := hf
    simp only at h1 h2 hneed
    subst h1
    cases h2 with
    | term =>
      simp only [quantS, quant_top, isTerm_denN hv.2]
      split
      · exact PostCW.done hinv ⟨rfl, .term⟩
      · exact PostCW.done hinv (DenotesC.term _ false)
    | @inner i l t en e tt te hi hft hfe =>
      have hdf : DenotesC st.store ⟨fn, .inner i⟩ ⟨fn, .node l tt en te⟩ :=
        ⟨rfl, .inner hi hft hfe⟩
      simp only [Edge.size, CNode.size] at hsz
      simp only [quantNeed] at hneed
      -- the popped variable set, on both levels
      have hpop : DenotesC st.store
          (if q ≠ .unique then st.store.setPopC af vars l else vars) (popVars q v l) := by
        unfold popVars
        split
        · exact setPopC_denotes l af hv (by omega)
        · exact hv
      rw [quant_node]
      simp only [quantS, hi]
      generalize (if q ≠ .unique then st.store.setPopC af vars l else vars) = vars' at hpop ⊢
      generalize hv' : popVars q v l = v' at hpop hneed
      obtain ⟨vsn, vst⟩ := vars'
      obtain ⟨vn', v'⟩ := v'
      obtain ⟨hp1, hp2⟩ := hpop
      simp only at hp1 hp2
      subst hp1
      cases hp2 with
      | term => exact PostCW.done hinv hdf
      | @inner j vl vt ven ve vtt vte hj hvt hve =>
        have hdv : DenotesC st.store ⟨vsn, .inner j⟩ ⟨vsn, .node vl vtt ven vte⟩ :=
          ⟨rfl, .inner hj hvt hve⟩
        simp only [hj, quantStep]
        by_cases hu : q = .unique ∧ vl < l
        · simp only [hu, and_self, if_true]
          exact PostCW.done hinv (DenotesC.term _ false)
        · simp only [hu, if_false] at hneed ⊢
          have hkey : KeyMeansC reg st.store
              (encKeyC (quantKey q ⟨fn, .inner i⟩ ⟨vsn, .inner j⟩))
              (quantStep q fn l tt en te ⟨vsn, .node vl vtt ven vte⟩) := by
            have := quantKey_means (reg := reg) (q := q) hdf hdv
            rw [quant_node, ← hv', popVars_idem, hv'] at this
            exact this
          simp only [quantStep, hu, if_false] at hkey
          cases hget : p.get st.tick st.cache
              (encKeyC (quantKey q ⟨fn, .inner i⟩ ⟨vsn, .inner j⟩)) with
          | some r =>
            -- cache hit
            have hent := hinv.2 _ _ (pok.get_mem _ _ _ _ hget)
            have := hent.hit (quantKey_wf q _ _) (DenotesLC.two hdf hdv) rfl
            rw [quant_node, ← hv', popVars_idem, hv'] at this
            simp only [quantStep, hu, if_false] at this
            exact PostCW.done (st := st.tickd) hinv.tickd this
          | none =>
            -- cache miss
            simp only
            have hct : DenotesC st.store ⟨fn, t⟩ ⟨fn, tt⟩ := ⟨rfl, hft⟩
            have hce : DenotesC st.store ⟨fn != en, e⟩ ⟨fn != en, te⟩ := ⟨rfl, hfe⟩
            by_cases hlv : l = vl
            · subst hlv
              simp only [if_true] at hneed hkey ⊢
              have hvt' : DenotesC st.store ⟨false, vt⟩ ⟨false, vtt⟩ := ⟨rfl, hvt⟩
              have p1 := ih st.tickd _ _ _ _ hinv.tickd hct hvt'
                (by simp only [Edge.size]; omega) (by simp only; omega)
              have p0 := ih _ _ _ _ _ p1.inv (hce.mono p1.le) (hvt'.mono p1.le)
                (by simp only [Edge.size]; omega) (by simp only; omega)
              have pa := (applyOpS_specX pok reg q.toOp af _ _ _ _ _ p0.inv (p1.den.mono p0.le)
                p0.den (by omega)).toPostCW
              have pa' : PostCW reg st.store _ _ :=
                PostCW.trans (p1.le.trans p0.le) (fun hr => p0.nored (p1.nored hr)) pa
              exact addC_postW pok pa' _ hkey
            · have hvl : ¬ vl = l := fun h => hlv h.symm
              simp only [hlv, hvl, if_false] at hneed hkey ⊢
              have p1 := ih st.tickd _ _ _ _ hinv.tickd hct hdv
                (by simp only [Edge.size]; omega) (by simp only; omega)
              have p0 := ih _ _ _ _ _ p1.inv (hce.mono p1.le) (hdv.mono p1.le)
                (by simp only [Edge.size]; omega) (by simp only; omega)
              exact finishC_postW pok p1 p0 _ l hkey

end OxiddModel.Bcdd.Refine
