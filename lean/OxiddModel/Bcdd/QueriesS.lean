import OxiddModel.Bcdd.StoreRefine
import OxiddModel.Bcdd.Properties
import OxiddModel.Util.OrderS
import OxiddModel.Util.VisitS

/-!
# The read-only queries of the complement-edge BDD rules at STORE level, under a variable order

Store-level counterparts (nodes hold LEVELS, the caller names VARIABLES, `OrderS.Order`
translates; edges carry a complement tag, `StoreRefine.lean`) of

* `eval_edge` (`crates/oxidd-rules-bdd/src/complement_edge/apply_rec.rs`): the same bit set per
  level as for simple BDDs, filled through `var_to_level` with `!val`; the walk carries
  `complement ^= edge.tag() == Complemented` and answers `!complement` at the terminal (`walkS`);
* `var_edge`: `get_or_insert` of `(var_to_level(var); ⊤, ¬⊤)` (then-edge regular, no `reduce`
  needed); `not_var_edge` is the trait default `not_edge_owned(var_edge(..))`, a tag flip;
* `cofactors_edge` with `DiagramRules::cofactor(tag, node, n)` of `complement_edge/mod.rs`: the
  incoming tag is pushed into both children (`cofactorsS`);
* `Function::node_count`: `NodeSet` keys on `edge.node_id()`, so the ids are the targets `Tgt`
  without tag — a node reached through a regular and through a complemented edge is one node, and
  the single terminal is one node (`nodeCountS`);
* `satisfiable` / `valid`: comparison with `get_terminal(false)` / `get_terminal(true)`.
-/
namespace OxiddModel.Bcdd.QueriesS
open OxiddModel.Bcdd OxiddModel.Bcdd.CNode OxiddModel.Bcdd.Refine OxiddModel.OrderS OxiddModel

/-! ## denotation over variables -/

/-- the Boolean function over variables denoted by a tree edge over levels -/
def evalV (o : Order) (ρ : Nat → Bool) (a : Edge) : Bool := a.eval (fun l => ρ (o.var l))

theorem evalV_lvl (o : Order) (hp : PermOK o) (σ : Nat → Bool) (a : Edge) :
    evalV o (fun v => σ (o.lvl v)) a = a.eval σ := by
  unfold evalV
  congr 1
  funext l
  show σ (o.lvl (o.var l)) = σ l
  rw [hp.lvl_var]

theorem updV_var (o : Order) (hp : PermOK o) (ρ : Nat → Bool) (l : Nat) (b : Bool) :
    (fun k => updV ρ (o.var l) b (o.var k)) = upd (fun k => ρ (o.var k)) l b := by
  funext k
  simp only [updV, upd]
  by_cases e : k = l
  · subst e; simp
  · have : ¬ o.var k = o.var l := fun h => e (hp.var_inj h)
    simp [e, this]

/-! ## `eval_edge` -/

/-- the loop `for (var, val) in args { choices.set(var_to_level(var), !val) }` -/
def fillChoices (o : Order) (args : List (Nat × Bool)) : Array Bool :=
  args.foldl (fun ch a => ch.setIfInBounds (o.lvl a.1) (!a.2)) (Array.replicate o.n false)

/-- `inner(manager, edge, complement, choices)` -/
def walkS (s : StoreC) (ch : Array Bool) : Nat → Bool → EdgeC → Bool
  | 0, _, _ => false
  | fuel+1, complement, edge =>
    let complement := complement != edge.neg
    match edge.tgt with
    | .term => !complement
    | .inner i =>
      match s.get? i with
      | none => false -- dangling edge (excluded by `DenotesC`)
      | some n => walkS s ch fuel complement (if ch.getD n.level false then n.e else ⟨false, n.t⟩)

/-- `eval_edge(manager, edge, args)` -/
def evalS (o : Order) (s : StoreC) (fuel : Nat) (e : EdgeC) (args : List (Nat × Bool)) : Bool :=
  walkS s (fillChoices o args) fuel false e

/-- the assignment described by an argument list (last value counts; not named: `true`) -/
def rhoArgs (args : List (Nat × Bool)) : Nat → Bool := argVal true args

theorem getD_setIfInBounds (t : Array Bool) (l k : Nat) (x : Bool) (hl : l < t.size) :
    (t.setIfInBounds l x).getD k false = if k = l then x else t.getD k false := by
  simp only [Array.getD_eq_getD_getElem?, Array.getElem?_setIfInBounds]
  by_cases e : k = l
  · subst e; simp [hl]
  · have : ¬ l = k := fun h => e h.symm
    simp [e, this]

theorem fillChoices_get (o : Order) (hp : PermOK o) (args : List (Nat × Bool))
    (hargs : ∀ a ∈ args, a.1 < o.n) (l : Nat) :
    (fillChoices o args).getD l false = !(rhoArgs args (o.var l)) := by
  unfold fillChoices rhoArgs argVal
  exact table_fill o hp (fun t l x => t.setIfInBounds l (!x)) (fun t l => t.getD l false)
    (fun x => !x) (fun t => t.size = o.n)
    (fun t l x _ ht => by simpa using ht)
    (fun t l x k hl ht => getD_setIfInBounds t l k (!x) (by omega))
    args hargs (Array.replicate o.n false) true l (by simp)
    (by simp [Array.getD_eq_getD_getElem?, Array.getElem?_replicate]; split <;> rfl)

/-- the walk returns the accumulated complement applied to the value of the edge -/
theorem walkS_eq (s : StoreC) (ch : Array Bool) (σ : Nat → Bool)
    (h : ∀ l, ch.getD l false = !σ l) {x : Tgt} {n : CNode} (hd : DenN s x n) :
    ∀ (fuel : Nat) (c neg : Bool), n.size ≤ fuel →
      walkS s ch fuel c ⟨neg, x⟩ = (c != (neg != n.eval σ)) := by
  induction hd with
  | term =>
    intro fuel c neg hf
    cases fuel with
    | zero => simp [CNode.size] at hf
    | succ fuel => simp only [walkS, CNode.eval]; cases c <;> cases neg <;> rfl
  | @inner i l t en e tt te hi _ _ iht ihe =>
    intro fuel c neg hf
    cases fuel with
    | zero => simp [CNode.size] at hf
    | succ fuel =>
      simp only [CNode.size] at hf
      simp only [walkS, hi, h l, CNode.eval]
      cases σ l
      · simp only [Bool.not_false, if_true, Bool.false_eq_true, if_false]
        rw [ihe fuel _ _ (by omega)]
        cases c <;> cases neg <;> cases en <;> cases te.eval σ <;> rfl
      · simp only [Bool.not_true, Bool.false_eq_true, if_false, if_true]
        rw [iht fuel _ _ (by omega)]
        cases c <;> cases neg <;> cases tt.eval σ <;> rfl

/-! ## `var_edge`, `not_var_edge` -/

/-- `var_edge` -/
def varS (o : Order) (s : StoreC) (v : Nat) : StoreC × EdgeC :=
  let level := o.lvl v
  let r := s.getOrInsert ⟨level, (termC true).tgt, termC false⟩
  (r.1, ⟨false, .inner r.2⟩)

/-- `not_var_edge` = `not_edge_owned(var_edge(..))` -/
def notVarS (o : Order) (s : StoreC) (v : Nat) : StoreC × EdgeC :=
  let r := varS o s v
  (r.1, notE r.2)

/-- `var_edge` with `level_to_var` where `var_to_level` belongs (seeded) -/
def varS_l2v (o : Order) (s : StoreC) (v : Nat) : StoreC × EdgeC :=
  let r := s.getOrInsert ⟨o.var v, (termC true).tgt, termC false⟩
  (r.1, ⟨false, .inner r.2⟩)

/-! ## `cofactors_edge` -/

/-- `DiagramRules::cofactor(tag, node, n)`: `if tag == None { e } else { e.with_tag(!e.tag()) }` -/
def pushTag (tag : Bool) (e : EdgeC) : EdgeC := if tag = false then e else ⟨!e.neg, e.tgt⟩

/-- `cofactors_edge`: `None` for the terminal, else `(cofactor(tag, node, 0), cofactor(tag, node, 1))` -/
def cofactorsS (s : StoreC) (x : EdgeC) : Option (EdgeC × EdgeC) :=
  match x.tgt with
  | .term => none
  | .inner i => (s.get? i).map fun n => (pushTag x.neg ⟨false, n.t⟩, pushTag x.neg n.e)

def cofactorTrueS (s : StoreC) (x : EdgeC) : Option EdgeC := (cofactorsS s x).map (·.1)
def cofactorFalseS (s : StoreC) (x : EdgeC) : Option EdgeC := (cofactorsS s x).map (·.2)

/-! ## `node_count` -/

/-- node ids of the children (tags dropped: `NodeSet` keys on `node_id()`) -/
def kidsS (s : StoreC) : Tgt → List Tgt
  | .term => []
  | .inner i =>
    match s.get? i with
    | none => []
    | some n => [n.t, n.e.tgt]

/-- `Function::node_count` -/
def nodeCountS (s : StoreC) (fuel : Nat) (e : EdgeC) : Nat := VisitS.count (kidsS s) fuel e.tgt

/-- `x` is a node of the diagram of `n`, the terminal included -/
def SubT (x : CNode) (n : CNode) : Prop := x = .top ∨ Sub x n

theorem sub_ne_top {x n : CNode} (h : Sub x n) : x ≠ .top := by
  induction n with
  | top => cases h
  | node l t en e iht ihe =>
    rcases h with rfl | h | h
    · intro h; cases h
    · exact iht h
    · exact ihe h

theorem subT_refl (n : CNode) : SubT n n := by
  cases n with
  | top => exact .inl rfl
  | node => exact .inr (.inl rfl)

open Classical in
/-- the node a target denotes, as a (noncomputable) function -/
noncomputable def den (s : StoreC) (x : Tgt) : CNode :=
  if h : ∃ n, DenN s x n then Classical.choose h else .top

theorem den_eq {s : StoreC} {x : Tgt} {n : CNode} (h : DenN s x n) : den s x = n := by
  have hex : ∃ n, DenN s x n := ⟨n, h⟩
  unfold den
  rw [dif_pos hex]
  exact DenN.functional (Classical.choose_spec hex) h

theorem reach_denotes {s : StoreC} {x y : Tgt} (hr : VisitS.Reach (kidsS s) x y) :
    ∀ {n : CNode}, DenN s x n → ∃ ny, SubT ny n ∧ DenN s y ny := by
  induction hr with
  | refl => intro n hd; exact ⟨n, subT_refl n, hd⟩
  | @step x k z hk _ ih =>
    intro n hd
    cases hd with
    | term => simp [kidsS] at hk
    | @inner i l a en b ta tb hi ha hb =>
      simp only [kidsS, hi, List.mem_cons, List.not_mem_nil, or_false] at hk
      rcases hk with rfl | rfl
      · obtain ⟨ny, hs, hy⟩ := ih ha
        rcases hs with hs | hs
        · exact ⟨ny, .inl hs, hy⟩
        · exact ⟨ny, .inr (.inr (.inl hs)), hy⟩
      · obtain ⟨ny, hs, hy⟩ := ih hb
        rcases hs with hs | hs
        · exact ⟨ny, .inl hs, hy⟩
        · exact ⟨ny, .inr (.inr (.inr hs)), hy⟩

theorem top_reach {s : StoreC} {x : Tgt} {n : CNode} (hd : DenN s x n) :
    VisitS.Reach (kidsS s) x .term := by
  induction hd with
  | term => exact .refl
  | @inner i l a en b ta tb hi ha hb iha ihb => exact .step (by simp [kidsS, hi]) iha

theorem sub_reach {s : StoreC} {x : Tgt} {n : CNode} (hd : DenN s x n) :
    ∀ ny, Sub ny n → ∃ y, VisitS.Reach (kidsS s) x y ∧ DenN s y ny := by
  induction hd with
  | term => intro ny hs; cases hs
  | @inner i l a en b ta tb hi ha hb iha ihb =>
    intro ny hs
    rcases hs with rfl | hs | hs
    · exact ⟨_, .refl, .inner hi ha hb⟩
    · obtain ⟨y, hr, hy⟩ := iha ny hs
      exact ⟨y, .step (by simp [kidsS, hi]) hr, hy⟩
    · obtain ⟨y, hr, hy⟩ := ihb ny hs
      exact ⟨y, .step (by simp [kidsS, hi]) hr, hy⟩

theorem subT_reach {s : StoreC} {x : Tgt} {n : CNode} (hd : DenN s x n) :
    ∀ ny, SubT ny n → ∃ y, VisitS.Reach (kidsS s) x y ∧ DenN s y ny := by
  intro ny hs
  rcases hs with rfl | hs
  · exact ⟨.term, top_reach hd, .term⟩
  · exact sub_reach hd ny hs

theorem ranked_of_denotes {s : StoreC} {x : Tgt} {n : CNode} (hd : DenN s x n) :
    VisitS.Ranked (kidsS s) (fun x => (den s x).size) x := by
  intro y hy z hz
  obtain ⟨ny, _, hny⟩ := reach_denotes hy hd
  cases hny with
  | term => simp [kidsS] at hz
  | @inner i l a en b ta tb hi ha hb =>
    simp only [kidsS, hi, List.mem_cons, List.not_mem_nil, or_false] at hz
    show (den s z).size < (den s (.inner i)).size
    rw [den_eq (.inner hi ha hb)]
    rcases hz with rfl | rfl
    · rw [den_eq ha]; simp only [CNode.size]; omega
    · rw [den_eq hb]; simp only [CNode.size]; omega

/-- a duplicate-free list that contains `a` has one element more than what is left without `a` -/
theorem nodup_length_filter_ne {α : Type} [DecidableEq α] (L : List α) (a : α) (hn : L.Nodup)
    (ha : a ∈ L) : L.length = (L.filter (fun x => !decide (x = a))).length + 1 := by
  induction L with
  | nil => cases ha
  | cons x xs ih =>
    obtain ⟨hx, hxs⟩ := List.nodup_cons.mp hn
    by_cases e : x = a
    · subst e
      have h1 : xs.filter (fun y => !decide (y = x)) = xs := by
        rw [List.filter_eq_self]
        intro y hy
        have : y ≠ x := fun h => hx (h ▸ hy)
        simp [this]
      rw [List.filter_cons]
      simp only [decide_true, Bool.not_true, Bool.false_eq_true, if_false, h1, List.length_cons]
    · have ha' : a ∈ xs := by
        rcases List.mem_cons.mp ha with h | h
        · exact absurd h.symm e
        · exact h
      rw [List.filter_cons]
      simp only [e, decide_false, Bool.not_false, if_true, List.length_cons, ih hxs ha']

/-! ## `satisfiable`, `valid` -/

/-- `edge != f_edge(manager)` -/
def satisfiableS (e : EdgeC) : Bool := e != termC false

/-- `edge == t_edge(manager)` -/
def validS (e : EdgeC) : Bool := e == termC true

end OxiddModel.Bcdd.QueriesS
