import OxiddModel.Bcdd.ThreadsRun
import OxiddModel.Bcdd.RcSLemmasInv

/-!
# The BCDD interleaving machine with reference counters as shared state

`Bcdd/Threads.lean` interleaves the atomic actions of `apply_bin` / `apply_ite` on the shared
state `StC` (unique table, apply cache, time stamp). This file adds the **counters**: the shared
state is `Rc.RStC` (`StC` + one counter per slot, `Bcdd/RcS.lean`), and every step of a task does
to the counters what the Rust code does at that point (reference: the sequential counted model
`Rc.binR / Rc.iteR / Rc.forkR / Rc.mkNodeR` of `Bcdd/RcS.lean`, tied to the code by the stream
`bcdd-rc`):

* a `call` that returns at once — `Done(h)` of `terminal_and` / `terminal_xor`, the terminal cases
  of `apply_ite`, or a **cache hit** — returns an *owned* edge: `clone_edge` (`retain` on the target
  node, whatever the tag; the terminal has no counter). For a hit the `retain` happens inside
  `ApplyCache::get`, under the bucket lock: one atomic action together with the lookup;
* operands of recursive calls, cofactors and cache keys are **borrowed**: no counter operation;
  `not` on a borrowed operand and `not_owned` on an owned result (`neg`) flip a tag only;
* `seq0 fr r1 _` owns `r1` (`EdgeDropGuard`), a finished sub-task owns its result, `made _ r` owns
  `r` (`Task.owned`);
* `reduce` consumes both owned children — one atomic action `mkNodeU` = `Rc.mkNodeR` with a free
  slot always available: `t == e`: `drop_edge(e)`; tag normalisation moves the owned references;
  unique-table hit: the rejected node's children are dropped and the found node is retained
  (in the code all of this happens inside `get_or_insert`, under the level's mutex); miss: the
  children move into the new node, `rc = 2`;
* `apply_cache().add` stores borrowed edges: no counter operation.

`Task.rstep_erase`: forgetting the counters, a step of this machine **is** the step of
`Threads.lean` (same action on `StC`, same next task), so everything proved there holds here.
`Task.rstep_rc`: every step keeps the counters **exact** — `Rc.RcInv r ext`: counter of every
stored node = 1 (unique table) + number of owned external edges + number of stored parent edges —
with `ext` = handles ++ the owned edges of all tasks.

Out of memory is not modelled (as in `Threads.lean`).
-/
namespace OxiddModel.Bcdd.Threads
open OxiddModel.Bcdd OxiddModel.Bcdd.CNode OxiddModel.Bcdd.Refine OxiddModel.Bcdd.Rc
open OxiddModel.Bdd.Refine (Policy OpTag Key Cache)

/-- the edges a task **owns** (each is counted in its target node's `rc`) -/
def Task.owned : Task → List EdgeC
  | .call _ _ => []
  | .miss _ _ _ => []
  | .seq1 _ _ t1 => t1.owned
  | .seq0 _ r1 t0 => r1 :: t0.owned
  | .par _ t1 t0 => t1.owned ++ t0.owned
  | .made _ r => [r]
  | .neg t => t.owned
  | .ret r => [r]

/-- `reduce` with a free slot always available -/
def mkNodeU (r : RStC) (l : Nat) (t e : EdgeC) : EdgeC × RStC :=
  (((mkNodeR (r.st.store.count + 1) r l t e).1).getD t, (mkNodeR (r.st.store.count + 1) r l t e).2)

theorem mkNodeU_some (r : RStC) (l : Nat) (t e : EdgeC) :
    (mkNodeR (r.st.store.count + 1) r l t e).1 = some (mkNodeU r l t e).1 := by
  unfold mkNodeU mkNodeR
  by_cases hte : t = e
  · simp [hte]
  · simp only [hte, if_false]
    cases r.st.store.find? (reduceNode l t e) with
    | some i => simp
    | none => simp

/-- forgetting the counters, `mkNodeU` is `mkNodeC` -/
theorem mkNodeU_erase (r : RStC) (l : Nat) (t e : EdgeC) :
    (mkNodeU r l t e).2.st = { r.st with store := (r.st.store.mkNodeC l t e).1 } ∧
    (mkNodeU r l t e).1 = (r.st.store.mkNodeC l t e).2 := by
  obtain ⟨hc, ht, hm⟩ := mkNodeR_erase (r.st.store.count + 1) r l t e
  rw [mkNodeU_some] at hm
  simp only at hm
  have h2 : (mkNodeU r l t e).2 = (mkNodeR (r.st.store.count + 1) r l t e).2 := rfl
  rw [← h2] at hc ht hm
  refine ⟨?_, ?_⟩
  · generalize (mkNodeU r l t e).2 = r' at hc ht hm
    obtain ⟨⟨s', c', t'⟩, rc'⟩ := r'
    simp only at hc ht hm
    subst hc ht
    rw [hm]
  · rw [hm]

/-- `mkNodeU` keeps the counters exact: the two owned children are consumed, the result is owned -/
theorem mkNodeU_rc {r : RStC} {l : Nat} {t e : EdgeC} {ext : List EdgeC}
    (h : RcInv r (t :: e :: ext)) : RcInv (mkNodeU r l t e).2 ((mkNodeU r l t e).1 :: ext) := by
  have := mkNodeR_rc (cap := r.st.store.count + 1) (l := l) h
  have hs := mkNodeU_some r l t e
  have h2 : (mkNodeU r l t e).2 = (mkNodeR (r.st.store.count + 1) r l t e).2 := rfl
  rw [h2]
  generalize mkNodeR (r.st.store.count + 1) r l t e = m at this hs
  obtain ⟨o, r'⟩ := m
  simp only at hs
  subst hs
  exact this

/-- a cache add or a time-stamp change does not touch store or counters -/
theorem rcInv_cacheAdd {p : Policy} (pok : p.OK) {r : RStC} {ext : List EdgeC} (h : RcInv r ext)
    (key : Key) {x : EdgeC} (hx : r.st.store.has x) :
    RcInv ⟨(Act.cacheAdd key x).run p r.st, r.rc⟩ ext := by
  refine ⟨h.ext_ok, h.kids_ok, ?_, h.rc_eq⟩
  intro k v hm
  rcases pok.add_sub _ _ _ _ _ hm with h' | h'
  · exact h.cache_ok k v h'
  · cases h'
    show r.st.store.has (dec (enc x))
    rw [dec_enc]; exact hx

theorem has_of_denotes {s : StoreC} {e : EdgeC} {T : Edge} (h : DenotesC s e T) : s.has e := by
  obtain ⟨en, et⟩ := e
  obtain ⟨tn, tt⟩ := T
  obtain ⟨_, h2⟩ := h
  simp only at h2
  cases h2 with
  | term => trivial
  | inner hi _ _ => exact ⟨_, hi⟩

/-! ## the counted step -/

/-- the counter part of `reduce` + the next control state -/
def reduceR (r : RStC) (fr : Frame) (r1 r0 : EdgeC) : RStC × Task :=
  ((mkNodeU r fr.lvl r1 r0).2, .made fr.key (mkNodeU r fr.lvl r1 r0).1)

/-- **one step of a task on the counted state** -/
def Task.rstep (p : Policy) (r : RStC) : Task → List Bool → RStC × Task
  | .ret x, _ => (r, .ret x)
  | .call d c, _ =>
    let o := c.entry p r.st d
    -- a call that returns at once returns an owned edge: `clone_edge` (for a cache hit: inside
    -- `ApplyCache::get`, atomically with the lookup)
    match o.2 with
    | .ret h => (cloneEdge ⟨runOpt p o.1 r.st, r.rc⟩ h, .ret h)
    | t' => (⟨runOpt p o.1 r.st, r.rc⟩, t')
  | .miss d c key, _ => (r, c.expand r.st.store d key)
  | .seq1 fr c0 t1, path =>
    match t1.ret? with
    | some r1 => (r, .seq0 fr r1 (.call 0 c0))
    | none => let o := t1.rstep p r path; (o.1, .seq1 fr c0 o.2)
  | .seq0 fr r1 t0, path =>
    match t0.ret? with
    | some r0 => reduceR r fr r1 r0
    | none => let o := t0.rstep p r path; (o.1, .seq0 fr r1 o.2)
  | .par fr t1 t0, path =>
    match t1.ret?, t0.ret? with
    | some r1, some r0 => reduceR r fr r1 r0
    | _, _ =>
      if pickLeft path t1 t0 then
        let o := t1.rstep p r path.tail; (o.1, .par fr o.2 t0)
      else
        let o := t0.rstep p r path.tail; (o.1, .par fr t1 o.2)
  | .made key x, _ => (⟨(Act.cacheAdd key x).run p r.st, r.rc⟩, .ret x)
  | .neg t, path =>
    match t.ret? with
    | some x => (r, .ret (notE x))
    | none => let o := t.rstep p r path; (o.1, .neg o.2)

/-- **erasure**: forgetting the counters, the counted step is the step of `Threads.lean` -/
theorem Task.rstep_erase (p : Policy) (r : RStC) : ∀ (t : Task) (path : List Bool),
    (t.rstep p r path).1.st = runOpt p (t.step p r.st path).1 r.st ∧
    (t.rstep p r path).2 = (t.step p r.st path).2 := by
  intro t
  induction t with
  | ret x => intro _; exact ⟨rfl, rfl⟩
  | call d c =>
    intro _
    simp only [Task.rstep, Task.step]
    split
    · rename_i h heq
      exact ⟨by rw [cloneEdge_st], heq.symm⟩
    · exact ⟨rfl, rfl⟩
  | miss d c key => intro _; exact ⟨rfl, rfl⟩
  | seq1 fr c0 t1 ih =>
    intro path
    simp only [Task.rstep, Task.step]
    cases t1.ret? with
    | some r1 => exact ⟨rfl, rfl⟩
    | none => simp only; exact ⟨(ih path).1, by rw [(ih path).2]⟩
  | seq0 fr r1 t0 ih =>
    intro path
    simp only [Task.rstep, Task.step]
    cases t0.ret? with
    | some r0 =>
      simp only [reduceR, reduceOut, runOpt, Act.run]
      obtain ⟨h1, h2⟩ := mkNodeU_erase r fr.lvl r1 r0
      exact ⟨h1, by rw [h2]⟩
    | none => simp only; exact ⟨(ih path).1, by rw [(ih path).2]⟩
  | par fr t1 t0 ih1 ih0 =>
    intro path
    have hl := ih1 path.tail
    have hr := ih0 path.tail
    cases e1 : t1.ret? with
    | none =>
      simp only [Task.rstep, Task.step, e1]
      split
      · exact ⟨hl.1, by rw [hl.2]⟩
      · exact ⟨hr.1, by rw [hr.2]⟩
    | some r1 =>
      cases e0 : t0.ret? with
      | none =>
        simp only [Task.rstep, Task.step, e1, e0]
        split
        · exact ⟨hl.1, by rw [hl.2]⟩
        · exact ⟨hr.1, by rw [hr.2]⟩
      | some r0 =>
        simp only [Task.rstep, Task.step, e1, e0, reduceR, reduceOut, runOpt, Act.run]
        obtain ⟨h1, h2⟩ := mkNodeU_erase r fr.lvl r1 r0
        exact ⟨h1, by rw [h2]⟩
  | made key x => intro _; exact ⟨rfl, rfl⟩
  | neg t ih =>
    intro path
    simp only [Task.rstep, Task.step]
    cases t.ret? with
    | some x => exact ⟨rfl, rfl⟩
    | none => simp only; exact ⟨(ih path).1, by rw [(ih path).2]⟩

/-! ## the counters stay exact -/

/-- the entry of a call performs no action or the cache query -/
theorem entry_act (p : Policy) (st : StC) (d : Nat) (c : Call) :
    (c.entry p st d).1 = none ∨ (c.entry p st d).1 = some .cacheGet := by
  have hq : ∀ c' key, (query p st d c' key).1 = some .cacheGet := by
    intro c' key; unfold query; split <;> rfl
  cases c with
  | bin op f g =>
    simp only [Call.entry]
    split
    · left; rfl
    · right; exact hq _ _
  | ite f g h =>
    simp only [Call.entry]
    repeat' split
    all_goals first | (left; rfl) | (right; exact hq _ _)

/-- a call that does not return at once owns nothing afterwards -/
theorem entry_owned (p : Policy) (st : StC) (d : Nat) (c : Call) :
    (∃ x, (c.entry p st d).2 = .ret x) ∨ (c.entry p st d).2.owned = [] := by
  have hq : ∀ c' key, (∃ x, (query p st d c' key).2 = .ret x) ∨
      (query p st d c' key).2.owned = [] := by
    intro c' key; unfold query; split
    · left; exact ⟨_, rfl⟩
    · right; rfl
  cases c with
  | bin op f g =>
    simp only [Call.entry]
    split
    · left; exact ⟨_, rfl⟩
    · exact hq _ _
  | ite f g h =>
    simp only [Call.entry]
    repeat' split
    all_goals first | (left; exact ⟨_, rfl⟩) | (right; rfl) | exact hq _ _

theorem ret?_some' {t : Task} {x : EdgeC} (h : t.ret? = some x) : t = .ret x := by
  cases t <;> simp only [Task.ret?] at h <;> cases h
  rfl

theorem rcInv_runEntry {p : Policy} {r : RStC} {ext : List EdgeC} (h : RcInv r ext) {o : Option Act}
    (ho : o = none ∨ o = some .cacheGet) : RcInv ⟨runOpt p o r.st, r.rc⟩ ext := by
  rcases ho with rfl | rfl
  · exact h
  · exact h.tickd

theorem fork_owned (d : Nat) (fr : Frame) (c1 c0 : Call) : (fork d fr c1 c0).owned = [] := by
  cases d <;> rfl

theorem expand_owned {s : StoreC} {c : Call} {key : Key} {T : Edge} {k : Nat} (d : Nat)
    (hm : MissSpec s c key T k) : (c.expand s d key).owned = [] := by
  cases c with
  | bin op f g =>
    obtain ⟨a, b, hf, hg, hT, _, hsz, _⟩ := hm
    obtain ⟨an, lf, ft, fen, fe, bn, lg, gt, gen, ge, ha, hb, _, _⟩ := cof_sizes hT hsz
    subst ha hb
    simp only [Call.expand]
    rw [level?_denotes hf, level?_denotes hg]
    exact fork_owned _ _ _ _
  | ite f g h =>
    obtain ⟨a, b, c, hf, hg, hh, _, _, _, na, nb, nc, _⟩ := hm
    obtain ⟨an, a⟩ := a
    obtain ⟨bn, b⟩ := b
    obtain ⟨cn, c⟩ := c
    cases a with
    | top => exact absurd rfl na
    | node l tt en te =>
    cases b with
    | top => exact absurd rfl nb
    | node l' tt' en' te' =>
    cases c with
    | top => exact absurd rfl nc
    | node l'' tt'' en'' te'' =>
    simp only [Call.expand]
    rw [level?_denotes hf, level?_denotes hg, level?_denotes hh]
    exact fork_owned _ _ _ _

/-- **every step of a task keeps the counters exact**: if the counters are exact for the edges the
task owns plus any other owned edges `ext`, then after the step they are exact for what the task
owns now plus `ext` -/
theorem Task.rstep_rc {p : Policy} (pok : p.OK) {r : RStC} (hinv : InvC r.st) {t : Task} {T : Edge}
    {n : Nat} (h : TaskOK r.st.store t T n) :
    ∀ (path : List Bool) (ext : List EdgeC), t.ret? = none → RcInv r (t.owned ++ ext) →
      RcInv (t.rstep p r path).1 ((t.rstep p r path).2.owned ++ ext) := by
  induction h with
  | ret h => intro _ _ hr; simp [Task.ret?] at hr
  | @call d c T k n hc hn =>
    intro path ext _ hrc
    simp only [Task.owned, List.nil_append] at hrc
    have hact := entry_act p r.st d c
    have hok := (entry_ok pok hinv d hc hn).2
    obtain ⟨n', _, hok⟩ := hok
    have hrc' := rcInv_runEntry (p := p) hrc hact
    have hstore : (runOpt p (c.entry p r.st d).1 r.st).store = r.st.store := by
      rcases hact with h | h <;> rw [h] <;> rfl
    simp only [Task.rstep]
    split
    · rename_i x hx
      rw [hx] at hok
      have hden := hok.ret_den rfl
      simp only [Task.owned, List.singleton_append]
      exact cloneEdge_rc hrc' (has_of_denotes hden)
    · rename_i hne
      -- not `ret`: the next state owns nothing
      rcases entry_owned p r.st d c with ⟨x, hx⟩ | hnil
      · exact absurd hx (hne x)
      · rw [hnil]; exact hrc'
  | @miss d c key T k n hm hn =>
    intro path ext _ hrc
    simp only [Task.rstep]
    rw [expand_owned d hm]
    exact hrc
  | @seq1 fr c0 t1 T T1 T0 k0 n1 n hT hk hc h1 hn ih =>
    intro path ext _ hrc
    simp only [Task.rstep]
    cases hr : t1.ret? with
    | some r1 =>
      have := ret?_some' hr
      subst this
      exact hrc
    | none => exact ih path ext hr hrc
  | @seq0 fr r1 t0 T T1 T0 n0 n hT hk hr1 h0 hn ih =>
    intro path ext _ hrc
    simp only [Task.rstep]
    cases hr : t0.ret? with
    | some r0 =>
      have := ret?_some' hr
      subst this
      exact mkNodeU_rc hrc
    | none =>
      simp only [Task.owned, List.cons_append] at hrc ⊢
      have h1 : RcInv r (t0.owned ++ (r1 :: ext)) := hrc.perm List.perm_middle.symm
      exact (ih path (r1 :: ext) hr h1).perm List.perm_middle
  | @par fr t1 t0 T T1 T0 n1 n0 n hT hk h1 h0 hn ih1 ih0 =>
    intro path ext _ hrc
    by_cases hb : ∃ r1 r0, t1.ret? = some r1 ∧ t0.ret? = some r0
    · obtain ⟨r1, r0, e1, e0⟩ := hb
      have := ret?_some' e1
      subst this
      have := ret?_some' e0
      subst this
      simp only [Task.rstep, Task.ret?]
      exact mkNodeU_rc hrc
    · have hstep : Task.rstep p r (.par fr t1 t0) path =
          if pickLeft path t1 t0 then
            ((t1.rstep p r path.tail).1, .par fr (t1.rstep p r path.tail).2 t0)
          else ((t0.rstep p r path.tail).1, .par fr t1 (t0.rstep p r path.tail).2) := by
        simp only [Task.rstep]
        split
        · rename_i r1 r0 e1 e0; exact absurd ⟨_, _, e1, e0⟩ hb
        · rfl
      rw [hstep]
      simp only [Task.owned, List.append_assoc] at hrc
      cases hp : pickLeft path t1 t0 with
      | true =>
        simp only [if_true, Task.owned, List.append_assoc]
        exact ih1 path.tail (t0.owned ++ ext) (pickLeft_true hp) hrc
      | false =>
        simp only [Bool.false_eq_true, if_false, Task.owned, List.append_assoc]
        have h1' : RcInv r (t0.owned ++ (t1.owned ++ ext)) := by
          refine hrc.perm ?_
          rw [← List.append_assoc, ← List.append_assoc]
          exact List.Perm.append_right _ List.perm_append_comm
        refine (ih0 path.tail (t1.owned ++ ext) (pickLeft_false hp hb) h1').perm ?_
        rw [← List.append_assoc, ← List.append_assoc]
        exact List.Perm.append_right _ List.perm_append_comm
  | @made key x T n hk hr hn =>
    intro path ext _ hrc
    simp only [Task.rstep]
    exact rcInv_cacheAdd pok hrc key (has_of_denotes hr)
  | @neg t T T' n' n hT h hn ih =>
    intro path ext _ hrc
    simp only [Task.rstep]
    cases hr : t.ret? with
    | some x =>
      have := ret?_some' hr
      subst this
      exact hrc.notE_head
    | none => exact ih path ext hr hrc

end OxiddModel.Bcdd.Threads
